import VOPyVerif.Proofs.ConeTheta
import Mathlib.Tactic.LinearCombination
/-!
# Helper lemmas for C12: the 3-D cones and the ice-cream cone at `ℝ`
-/
namespace VOPy.ConeFormulas
open VOPy VOPy.ConeOrd Real

/-! ### `ConeOrder3D` -/

theorem sqrt21_mul_self : √(21 : ℝ) * √21 = 21 := Real.mul_self_sqrt (by norm_num)
theorem sqrt21_pos : 0 < √(21 : ℝ) := Real.sqrt_pos.mpr (by norm_num)

theorem acute_closed : cone3D (α := ℝ) .acute =
    [[1 / √21, -2 / √21, 4 / √21], [4 / √21, 1 / √21, -2 / √21], [-2 / √21, 4 / √21, 1 / √21]] := by
  have hn : rnorm ([1, -2, 4] : List ℝ) = √21 := by
    simp only [rnorm, rdot_cons, rdot_nil_left, RealLike.sqrt_real]
    norm_num
  simp only [cone3D, divByFirstRowNorm, acuteRaw, RealLike.ofNat_real, Nat.cast_ofNat, Nat.cast_one,
    List.map_cons, List.map_nil, rdivs, hn]

theorem sqrt_obtuse_mul_self : √(93 / 25 : ℝ) * √(93 / 25) = 93 / 25 := Real.mul_self_sqrt (by norm_num)
theorem sqrt_obtuse_pos : 0 < √(93 / 25 : ℝ) := Real.sqrt_pos.mpr (by norm_num)

theorem obtuse_closed : cone3D (α := ℝ) .obtuse =
    [[1 / √(93 / 25), (2 / 5) / √(93 / 25), (8 / 5) / √(93 / 25)],
     [(8 / 5) / √(93 / 25), 1 / √(93 / 25), (2 / 5) / √(93 / 25)],
     [(2 / 5) / √(93 / 25), (8 / 5) / √(93 / 25), 1 / √(93 / 25)]] := by
  have hn : rnorm ([1, 2 / 5, 8 / 5] : List ℝ) = √(93 / 25) := by
    simp only [rnorm, rdot_cons, rdot_nil_left, RealLike.sqrt_real]
    norm_num
  simp only [cone3D, divByFirstRowNorm, obtuseRaw, RealLike.ofFrac, RealLike.ofNat_real, Nat.cast_ofNat,
    Nat.cast_one, List.map_cons, List.map_nil, rdivs, hn]

theorem right_closed : cone3D (α := ℝ) .right = [[1, 0, 0], [0, 1, 0], [0, 0, 1]] := by
  simp [cone3D, eye3]

/-! ### the Rodrigues rotation of the ice-cream cone -/

theorem sqrt2_mul_self : √(2 : ℝ) * √2 = 2 := Real.mul_self_sqrt (by norm_num)
theorem sqrt2_pos : 0 < √(2 : ℝ) := Real.sqrt_pos.mpr (by norm_num)
theorem one_div_sqrt2 : 1 / √(2 : ℝ) = √2 / 2 := by
  have := sqrt2_pos
  field_simp
  linarith [sqrt2_mul_self]
theorem neg_one_div_sqrt2 : -1 / √(2 : ℝ) = -(√2 / 2) := by
  rw [neg_div, one_div_sqrt2]

/-- the closed form of `iceRot` -/
noncomputable def rotC : List (List ℝ) :=
  [[1 / 2 + √2 / 4, -1 / 2 + √2 / 4, 1 / 2],
   [-1 / 2 + √2 / 4, 1 / 2 + √2 / 4, 1 / 2],
   [-1 / 2, -1 / 2, √2 / 2]]

theorem iceRot_closed : iceRot (α := ℝ) = rotC := by
  have h2 := sqrt2_mul_self
  simp only [iceRot, rodrigues, crossMat, iceRotAxis, rmatAdd, rmatScale, rmatMul3, linComb3, radd, rscale, eye3,
    RealLike.ofNat_real, RealLike.sqrt_real, RealLike.sin_real, RealLike.cos_real, RealLike.pi_real,
    List.map_cons, List.map_nil, List.zipWith_cons_cons, List.zipWith_nil_right, Nat.cast_ofNat, Nat.cast_one,
    Nat.cast_zero, Real.sin_pi_div_four, Real.cos_pi_div_four, one_div_sqrt2, neg_one_div_sqrt2, rotC]
  simp only [List.cons.injEq, and_true]
  refine ⟨⟨?_, ?_, ?_⟩, ⟨?_, ?_, ?_⟩, ?_, ?_, ?_⟩
  · linear_combination (√2 / 8 - 1 / 4) * h2
  · linear_combination (√2 / 8 - 1 / 4) * h2
  · linear_combination (1 / 4 : ℝ) * h2
  · linear_combination (√2 / 8 - 1 / 4) * h2
  · linear_combination (√2 / 8 - 1 / 4) * h2
  · linear_combination (1 / 4 : ℝ) * h2
  · linear_combination (-1 / 4 : ℝ) * h2
  · linear_combination (-1 / 4 : ℝ) * h2
  · linear_combination (√2 / 4 - 1 / 2) * h2

theorem rotC_apply (x y z : ℝ) : rmatVec rotC [x, y, z] =
    [(1 / 2 + √2 / 4) * x + (-1 / 2 + √2 / 4) * y + 1 / 2 * z,
     (-1 / 2 + √2 / 4) * x + (1 / 2 + √2 / 4) * y + 1 / 2 * z,
     -1 / 2 * x + -1 / 2 * y + √2 / 2 * z] := by
  simp only [rmatVec, rotC, List.map_cons, List.map_nil, rdot_cons, rdot_nil_left, add_zero, add_assoc]

/-- the rotation preserves the dot product (`RᵀR = I`) -/
theorem rotC_dot (x y z p q r : ℝ) :
    rdot (rmatVec rotC [x, y, z]) (rmatVec rotC [p, q, r]) = x * p + y * q + z * r := by
  rw [rotC_apply, rotC_apply]
  simp only [rdot_cons, rdot_nil_left, add_zero]
  linear_combination ((p * x + p * y + q * x + q * y + 2 * r * z) / 8) * sqrt2_mul_self

/-- rows of the rotation are orthonormal (`R Rᵀ = I`) -/
theorem rotC_rows :
    rdot [1 / 2 + √2 / 4, -1 / 2 + √2 / 4, (1 / 2 : ℝ)] [1 / 2 + √2 / 4, -1 / 2 + √2 / 4, 1 / 2] = 1 ∧
    rdot [-1 / 2 + √2 / 4, 1 / 2 + √2 / 4, (1 / 2 : ℝ)] [-1 / 2 + √2 / 4, 1 / 2 + √2 / 4, 1 / 2] = 1 ∧
    rdot [-1 / 2, -1 / 2, √2 / 2] [-1 / 2, -1 / 2, √2 / 2] = 1 ∧
    rdot [1 / 2 + √2 / 4, -1 / 2 + √2 / 4, (1 / 2 : ℝ)] [-1 / 2 + √2 / 4, 1 / 2 + √2 / 4, 1 / 2] = 0 ∧
    rdot [1 / 2 + √2 / 4, -1 / 2 + √2 / 4, (1 / 2 : ℝ)] [-1 / 2, -1 / 2, √2 / 2] = 0 ∧
    rdot [-1 / 2 + √2 / 4, 1 / 2 + √2 / 4, (1 / 2 : ℝ)] [-1 / 2, -1 / 2, √2 / 2] = 0 := by
  have h2 := sqrt2_mul_self
  simp only [rdot_cons, rdot_nil_left, add_zero]
  refine ⟨?_, ?_, ?_, ?_, ?_, ?_⟩
  · linear_combination (1 / 8 : ℝ) * h2
  · linear_combination (1 / 8 : ℝ) * h2
  · linear_combination (1 / 4 : ℝ) * h2
  · linear_combination (1 / 8 : ℝ) * h2
  · ring
  · ring

/-! ### abstract geometry in coordinates -/

/-- Cauchy–Schwarz in `ℝ³` (Lagrange identity) -/
theorem cs3 (a1 a2 a3 b1 b2 b3 : ℝ) :
    (a1 * b1 + a2 * b2 + a3 * b3) ^ 2 ≤ (a1 ^ 2 + a2 ^ 2 + a3 ^ 2) * (b1 ^ 2 + b2 ^ 2 + b3 ^ 2) := by
  nlinarith [sq_nonneg (a1 * b2 - a2 * b1), sq_nonneg (a1 * b3 - a3 * b1), sq_nonneg (a2 * b3 - a3 * b2)]

/-- **Supporting half-space.**  If `w`, `d` are unit vectors of `ℝ³` with `w·d = s = sin θ` (`w` makes angle
`π/2 − θ` with `d`), `c = cos θ`, `s, c > 0`, then every `x` of the circular cone `{x | c‖x‖ ≤ x·d}` of half-angle
`θ` about `d` satisfies `w·x ≥ 0`. -/
theorem support3 (w1 w2 w3 d1 d2 d3 x1 x2 x3 s c : ℝ)
    (hww : w1 * w1 + w2 * w2 + w3 * w3 = 1) (hdd : d1 * d1 + d2 * d2 + d3 * d3 = 1)
    (hwd : w1 * d1 + w2 * d2 + w3 * d3 = s) (hs : 0 < s) (hc : 0 < c) (hsc : s ^ 2 + c ^ 2 = 1)
    (hx : c * √(x1 * x1 + x2 * x2 + x3 * x3) ≤ x1 * d1 + x2 * d2 + x3 * d3) :
    0 ≤ w1 * x1 + w2 * x2 + w3 * x3 := by
  have hX : 0 ≤ x1 * x1 + x2 * x2 + x3 * x3 :=
    add_nonneg (add_nonneg (mul_self_nonneg _) (mul_self_nonneg _)) (mul_self_nonneg _)
  have hsq : 0 ≤ √(x1 * x1 + x2 * x2 + x3 * x3) := Real.sqrt_nonneg _
  have hP : 0 ≤ x1 * d1 + x2 * d2 + x3 * d3 := le_trans (mul_nonneg hc.le hsq) hx
  -- c² X ≤ P²
  have h1 : c ^ 2 * (x1 * x1 + x2 * x2 + x3 * x3) ≤ (x1 * d1 + x2 * d2 + x3 * d3) ^ 2 := by
    have := mul_self_le_mul_self (mul_nonneg hc.le hsq) hx
    have e : c * √(x1 * x1 + x2 * x2 + x3 * x3) * (c * √(x1 * x1 + x2 * x2 + x3 * x3))
        = c ^ 2 * (x1 * x1 + x2 * x2 + x3 * x3) := by
      have := Real.mul_self_sqrt hX
      linear_combination c ^ 2 * this
    rw [e] at this
    linarith [this]
  -- Cauchy–Schwarz for v = w − s d, y = x − P d
  have hcs := cs3 (w1 - s * d1) (w2 - s * d2) (w3 - s * d3)
    (x1 - (x1 * d1 + x2 * d2 + x3 * d3) * d1) (x2 - (x1 * d1 + x2 * d2 + x3 * d3) * d2)
    (x3 - (x1 * d1 + x2 * d2 + x3 * d3) * d3)
  have hvv : (w1 - s * d1) ^ 2 + (w2 - s * d2) ^ 2 + (w3 - s * d3) ^ 2 = c ^ 2 := by
    linear_combination hww - 2 * s * hwd + s ^ 2 * hdd - hsc
  have hyy : (x1 - (x1 * d1 + x2 * d2 + x3 * d3) * d1) ^ 2 + (x2 - (x1 * d1 + x2 * d2 + x3 * d3) * d2) ^ 2
      + (x3 - (x1 * d1 + x2 * d2 + x3 * d3) * d3) ^ 2
      = (x1 * x1 + x2 * x2 + x3 * x3) - (x1 * d1 + x2 * d2 + x3 * d3) ^ 2 := by
    linear_combination (x1 * d1 + x2 * d2 + x3 * d3) ^ 2 * hdd
  have hvy : (w1 - s * d1) * (x1 - (x1 * d1 + x2 * d2 + x3 * d3) * d1)
      + (w2 - s * d2) * (x2 - (x1 * d1 + x2 * d2 + x3 * d3) * d2)
      + (w3 - s * d3) * (x3 - (x1 * d1 + x2 * d2 + x3 * d3) * d3)
      = (w1 * x1 + w2 * x2 + w3 * x3) - s * (x1 * d1 + x2 * d2 + x3 * d3) := by
    linear_combination (-(x1 * d1 + x2 * d2 + x3 * d3)) * hwd + s * (x1 * d1 + x2 * d2 + x3 * d3) * hdd
  rw [hvv, hyy, hvy] at hcs
  -- (Q − sP)² ≤ c² (X − P²) ≤ P² − c² P² = s² P²
  by_contra hQ
  have hQ' : w1 * x1 + w2 * x2 + w3 * x3 < 0 := not_le.mp hQ
  have hsP : 0 ≤ s * (x1 * d1 + x2 * d2 + x3 * d3) := mul_nonneg hs.le hP
  have e0 : s ^ 2 * (x1 * d1 + x2 * d2 + x3 * d3) ^ 2 + c ^ 2 * (x1 * d1 + x2 * d2 + x3 * d3) ^ 2
      = (x1 * d1 + x2 * d2 + x3 * d3) ^ 2 := by rw [← add_mul, hsc, one_mul]
  have e1 : 0 < (w1 * x1 + w2 * x2 + w3 * x3) ^ 2 := sq_pos_of_neg hQ'
  have e2 : 0 ≤ -(w1 * x1 + w2 * x2 + w3 * x3) * (s * (x1 * d1 + x2 * d2 + x3 * d3)) :=
    mul_nonneg (by linarith) hsP
  generalize w1 * x1 + w2 * x2 + w3 * x3 = Q at *
  generalize x1 * d1 + x2 * d2 + x3 * d3 = P at *
  generalize x1 * x1 + x2 * x2 + x3 * x3 = X at *
  linarith [hcs, h1, e0, e1, e2]

/-- `support3` in list form -/
theorem support_list (w1 w2 w3 d1 d2 d3 x1 x2 x3 s c : ℝ)
    (hww : rdot [w1, w2, w3] [w1, w2, w3] = 1) (hdd : rdot [d1, d2, d3] [d1, d2, d3] = 1)
    (hwd : rdot [w1, w2, w3] [d1, d2, d3] = s) (hs : 0 < s) (hc : 0 < c) (hsc : s ^ 2 + c ^ 2 = 1)
    (hx : c * √(rdot [x1, x2, x3] [x1, x2, x3]) ≤ rdot [x1, x2, x3] [d1, d2, d3]) :
    0 ≤ rdot [w1, w2, w3] [x1, x2, x3] := by
  simp only [rdot_cons, rdot_nil_left, add_zero, ← add_assoc] at *
  exact support3 w1 w2 w3 d1 d2 d3 x1 x2 x3 s c hww hdd hwd hs hc hsc hx

/-! ### rows of the ice-cream cone -/

/-- `np.radians(θdeg)` at `ℝ` inside `iceThetaRad` -/
theorem iceThetaRad_real (θdeg : ℝ) : iceThetaRad θdeg = π / 2 - θdeg * (π / 180) := by
  simp [iceThetaRad]

/-- dividing a rotated vector by a scalar = rotating the divided vector -/
theorem rdivs_rotC (x y z c : ℝ) :
    rdivs (rmatVec rotC [x, y, z]) c = rmatVec rotC [x / c, y / c, z / c] := by
  rw [rotC_apply, rotC_apply]
  simp only [rdivs, List.map_cons, List.map_nil, List.cons.injEq, and_true]
  refine ⟨?_, ?_, ?_⟩ <;> ring

/-- the norm of the un-normalised row is `1 / sin θ` -/
theorem ice_norm_alg (S C ca sa : ℝ) (hS : 0 < S) (h1 : S ^ 2 + C ^ 2 = 1) (h2 : sa ^ 2 + ca ^ 2 = 1) :
    √(C / S * ca * (C / S * ca) + C / S * sa * (C / S * sa) + 1 * 1) = S⁻¹ := by
  rw [Real.sqrt_eq_iff_mul_self_eq_of_pos (inv_pos.mpr hS)]
  have hS' := hS.ne'
  field_simp
  nlinarith [h1, h2]

theorem ice_entry_alg (S C t : ℝ) (hS : 0 < S) : C / S * t / S⁻¹ = C * t := by
  have hS' := hS.ne'
  field_simp

/-- **Closed form of one ice-cream row**: for `0 < θdeg < 180` (so `sin θ > 0`), row `i` is the rotation of the
unit vector `(cos θ cos a, cos θ sin a, sin θ)` with `a = i · 2π/K`. -/
theorem iceRow_closed (K i : Nat) (θdeg : ℝ) (h0 : 0 < θdeg) (h180 : θdeg < 180) :
    iceRow K θdeg i =
      rmatVec rotC [cos (θdeg * (π / 180)) * cos ((i : ℝ) * (2 * π / K)),
                    cos (θdeg * (π / 180)) * sin ((i : ℝ) * (2 * π / K)),
                    sin (θdeg * (π / 180))] := by
  have hπ := Real.pi_pos
  have ht0 : 0 < θdeg * (π / 180) := by positivity
  have htπ : θdeg * (π / 180) < π := by nlinarith
  have hsin : 0 < sin (θdeg * (π / 180)) := Real.sin_pos_of_pos_of_lt_pi ht0 htπ
  have hsc := Real.sin_sq_add_cos_sq (θdeg * (π / 180))
  have hsc' := Real.sin_sq_add_cos_sq ((i : ℝ) * (2 * π / K))
  simp only [iceRow, iceRawRow, iceRot_closed, iceThetaRad_real, RealLike.tan_real, RealLike.cos_real,
    RealLike.sin_real, RealLike.pi_real, RealLike.ofNat_real, Nat.cast_ofNat, Nat.cast_one,
    Real.tan_eq_sin_div_cos, Real.sin_pi_div_two_sub, Real.cos_pi_div_two_sub]
  rw [rnormalize, rnorm, rotC_dot, RealLike.sqrt_real, ice_norm_alg _ _ _ _ hsin hsc hsc', rdivs_rotC,
    ice_entry_alg _ _ _ hsin, ice_entry_alg _ _ _ hsin]
  simp

end VOPy.ConeFormulas
