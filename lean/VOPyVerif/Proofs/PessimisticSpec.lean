import VOPyVerif.Proofs.PessimisticComplete2D
import Mathlib.Data.Real.Basic
/-!
# Helper definitions for C11, part 3: the semantic relation and the pessimistic set

`PessDom W R₁ R₂` is the statement of the property over the *real* boxes:
every point of `R₁` dominates some point of `R₂` in the order of the cone `{z | W z ≥ 0}`.
-/
namespace VOPy.Pess

/-- a region is a pair (lower, upper) of rational (e.g. binary64) bounds -/
abbrev Region := Vec × Vec

/-- `∀ x ∈ box R₁ ⊂ ℝᵐ, ∃ y ∈ box R₂, ∀ facet rows w, w · (x − y) ≥ 0` -/
def PessDom (W : Mat) (R1 R2 : Region) : Prop :=
  ∀ x : List ℝ, GInBox (castV R1.1) (castV R1.2) x →
    ∃ y : List ℝ, GInBox (castV R2.1) (castV R2.2) y ∧ ∀ w ∈ W, 0 ≤ gdot (castV w) (gsub x y)

/-- the same over rational points, in the vocabulary of the model (`dominates`) -/
def PessDomQ (W : Mat) (R1 R2 : Region) : Prop :=
  ∀ x : Vec, GInBox R1.1 R1.2 x → ∃ y : Vec, GInBox R2.1 R2.2 y ∧ dominates W x y = true

/-- well-formed `m`-dimensional region: bounds of length `m`, `lower ≤ upper` -/
def Region.WF (m : Nat) (R : Region) : Prop :=
  R.1.length = m ∧ R.2.length = m ∧ List.Forall₂ (· ≤ ·) R.1 R.2

theorem castV_rat (v : Vec) : (castV v : List Rat) = v := by
  simp [castV]

/-- membership in the model's pessimistic set -/
theorem mem_pessimisticSet (W : Mat) (regions : List Region) (active : List Nat)
    (hvalid : ∀ i ∈ active, i < regions.length) (i : Nat) :
    i ∈ pessimisticSet W regions active ↔
      ∃ hi : i ∈ active, ¬ ∃ j, ∃ hj : j ∈ active, j ≠ i ∧
        checkDominates W (regions[j]'(hvalid j hj)).1 (regions[j]'(hvalid j hj)).2
          (regions[i]'(hvalid i hi)).1 (regions[i]'(hvalid i hi)).2 = true := by
  simp only [pessimisticSet, pessimisticSetR, List.mem_filter, Bool.not_eq_true',
    List.any_eq_false, Bool.and_eq_true, bne_iff_ne, ne_eq, not_and]
  constructor
  · rintro ⟨hi, hno⟩
    refine ⟨hi, ?_⟩
    rintro ⟨j, hj, hne, hcd⟩
    have := hno j hj hne
    rw [List.getElem?_eq_getElem (hvalid j hj), List.getElem?_eq_getElem (hvalid i hi)] at this
    exact this hcd
  · rintro ⟨hi, hno⟩
    refine ⟨hi, ?_⟩
    intro j hj hne
    rw [List.getElem?_eq_getElem (hvalid j hj), List.getElem?_eq_getElem (hvalid i hi)]
    intro hcd
    exact hno ⟨j, hj, hne, hcd⟩

end VOPy.Pess
