import VOPyVerif.Model.Accuracy
/-!
# Membership characterisations of the set transitions used by the accuracy proofs (C01, C05)

Core-only lemmas about `Steps.union`, `anyOther`, `removeAll`, `addAll` and about the PaVeBa /
VOGP / Auer phases built from them: for duplicate-free index lists the lists behave as the finite
sets the Python code holds.
-/
namespace VOPy.Accuracy
open VOPy VOPy.Steps

theorem mem_union {S U : List Nat} {x : Nat} : x ∈ union S U ↔ x ∈ S ∨ x ∈ U := by
  unfold union
  simp only [List.mem_append, List.mem_filter, Bool.not_eq_true', List.contains_eq_mem,
    decide_eq_false_iff_not]
  constructor
  · rintro (h | ⟨h, _⟩)
    · exact Or.inl h
    · exact Or.inr h
  · rintro (h | h)
    · exact Or.inl h
    · by_cases hx : x ∈ S
      · exact Or.inl hx
      · exact Or.inr ⟨h, hx⟩

theorem anyOther_eq_true {test : Nat → Bool} {i : Nat} {A : List Nat} :
    anyOther test i A = true ↔ ∃ j ∈ A, j ≠ i ∧ test j = true := by
  induction A with
  | nil => simp [anyOther]
  | cons a A ih =>
    unfold anyOther
    by_cases hai : a = i
    · subst hai
      simp only [beq_self_eq_true, if_true, ih, List.mem_cons]
      constructor
      · rintro ⟨j, hj, hne, ht⟩; exact ⟨j, Or.inr hj, hne, ht⟩
      · rintro ⟨j, hj | hj, hne, ht⟩
        · exact absurd hj hne
        · exact ⟨j, hj, hne, ht⟩
    · have hbeq : (a == i) = false := by simpa using hai
      simp only [hbeq, Bool.false_eq_true, if_false, List.mem_cons]
      by_cases hta : test a = true
      · simp only [hta, if_true, true_iff]
        exact ⟨a, Or.inl rfl, hai, hta⟩
      · simp only [hta, Bool.false_eq_true, if_false, ih]
        constructor
        · rintro ⟨j, hj, hne, ht⟩; exact ⟨j, Or.inr hj, hne, ht⟩
        · rintro ⟨j, hj | hj, hne, ht⟩
          · subst hj; exact absurd ht hta
          · exact ⟨j, hj, hne, ht⟩

theorem anyOther_eq_false {test : Nat → Bool} {i : Nat} {A : List Nat} :
    anyOther test i A = false ↔ ∀ j ∈ A, j ≠ i → test j = false := by
  rw [← Bool.not_eq_true, anyOther_eq_true]
  constructor
  · intro h j hj hne
    cases ht : test j with
    | false => rfl
    | true => exact absurd ⟨j, hj, hne, ht⟩ h
  · rintro h ⟨j, hj, hne, ht⟩
    rw [h j hj hne] at ht
    exact absurd ht (by simp)

theorem mem_removeAll {rm : List Nat} : ∀ {S : List Nat} {x : Nat}, S.Nodup →
    (x ∈ removeAll S rm ↔ x ∈ S ∧ x ∉ rm) := by
  induction rm with
  | nil => intro S x _; simp [removeAll]
  | cons a rm ih =>
    intro S x hS
    have h1 : removeAll S (a :: rm) = removeAll (S.erase a) rm := by simp [removeAll]
    rw [h1, ih (hS.erase a), hS.mem_erase_iff]
    simp only [List.mem_cons, not_or]
    constructor
    · rintro ⟨⟨hne, hx⟩, hrm⟩; exact ⟨hx, hne, hrm⟩
    · rintro ⟨hx, hne, hrm⟩; exact ⟨⟨hne, hx⟩, hrm⟩

theorem nodup_removeAll {rm : List Nat} : ∀ {S : List Nat}, S.Nodup → (removeAll S rm).Nodup := by
  induction rm with
  | nil => intro S h; simpa [removeAll] using h
  | cons a rm ih =>
    intro S hS
    have h1 : removeAll S (a :: rm) = removeAll (S.erase a) rm := by simp [removeAll]
    rw [h1]
    exact ih (hS.erase a)

theorem mem_addAll {new : List Nat} : ∀ {P : List Nat} {x : Nat},
    (x ∈ addAll P new ↔ x ∈ P ∨ x ∈ new) := by
  induction new with
  | nil => intro P x; simp [addAll]
  | cons a new ih =>
    intro P x
    have h1 : addAll P (a :: new) = addAll (if P.contains a then P else P ++ [a]) new := by
      simp [addAll]
    rw [h1, ih]
    by_cases ha : a ∈ P
    · simp only [List.contains_eq_mem, ha, decide_true, if_true, List.mem_cons]
      constructor
      · rintro (h | h)
        · exact Or.inl h
        · exact Or.inr (Or.inr h)
      · rintro (h | h | h)
        · exact Or.inl h
        · subst h; exact Or.inl ha
        · exact Or.inr h
    · simp only [List.contains_eq_mem, ha, decide_false, Bool.false_eq_true, if_false,
        List.mem_append, List.mem_cons, List.not_mem_nil, or_false]
      constructor
      · rintro ((h | h) | h)
        · exact Or.inl h
        · exact Or.inr (Or.inl h)
        · exact Or.inr (Or.inr h)
      · rintro (h | h | h)
        · exact Or.inl (Or.inl h)
        · exact Or.inl (Or.inr h)
        · exact Or.inr h

theorem nodup_addAll {new : List Nat} : ∀ {P : List Nat}, P.Nodup → (addAll P new).Nodup := by
  induction new with
  | nil => intro P h; simpa [addAll] using h
  | cons a new ih =>
    intro P hP
    have h1 : addAll P (a :: new) = addAll (if P.contains a then P else P ++ [a]) new := by
      simp [addAll]
    rw [h1]
    apply ih
    by_cases ha : a ∈ P
    · simpa [ha] using hP
    · simp only [List.contains_eq_mem, ha, decide_false, Bool.false_eq_true, if_false]
      rw [List.nodup_append]
      refine ⟨hP, by simp, ?_⟩
      intro x hx y hy
      simp only [List.mem_singleton] at hy
      subst hy
      intro hxy
      subst hxy
      exact ha hx

/-! ### a finite strict partial order has a maximal element above every non-maximal one -/

theorem filter_length_lt {A : List Nat} {p q : Nat → Bool} (hpq : ∀ x ∈ A, p x = true → q x = true)
    {y : Nat} (hy : y ∈ A) (hqy : q y = true) (hpy : p y = false) :
    (A.filter p).length < (A.filter q).length := by
  induction A with
  | nil => simp at hy
  | cons a A ih =>
    have hmono : (A.filter p).length ≤ (A.filter q).length := by
      rw [← List.countP_eq_length_filter, ← List.countP_eq_length_filter]
      exact List.countP_mono_left fun x hx => hpq x (List.mem_cons_of_mem _ hx)
    rcases List.mem_cons.mp hy with rfl | hyA
    · simp only [List.filter_cons, hqy, hpy, if_true, Bool.false_eq_true, if_false, List.length_cons]
      omega
    · have := ih (fun x hx => hpq x (List.mem_cons_of_mem _ hx)) hyA
      simp only [List.filter_cons]
      by_cases hpa : p a = true
      · have hqa := hpq a (List.mem_cons_self ..) hpa
        simp only [hpa, hqa, if_true, List.length_cons]
        omega
      · by_cases hqa : q a = true
        · simp only [hpa, hqa, if_true, Bool.false_eq_true, if_false, List.length_cons]
          omega
        · simp only [hpa, hqa, Bool.false_eq_true, if_false]
          exact this

/-- In a finite set `A` on which `rel` is transitive and irreflexive, every element that is related
to something is related to a *maximal* element (one related to nothing in `A`). -/
theorem exists_maximal_above (rel : Nat → Nat → Bool) (A : List Nat)
    (htrans : ∀ i ∈ A, ∀ j ∈ A, ∀ k ∈ A, rel i j = true → rel j k = true → rel i k = true)
    (hirr : ∀ i ∈ A, rel i i = false) :
    ∀ i ∈ A, (∃ j ∈ A, rel i j = true) →
      ∃ k ∈ A, rel i k = true ∧ ∀ l ∈ A, rel k l = false := by
  have key : ∀ n : Nat, ∀ i ∈ A, (A.filter (fun k => rel i k)).length ≤ n →
      (∃ j ∈ A, rel i j = true) → ∃ k ∈ A, rel i k = true ∧ ∀ l ∈ A, rel k l = false := by
    intro n
    induction n with
    | zero =>
      rintro i _ hlen ⟨j, hj, hij⟩
      have : j ∈ A.filter (fun k => rel i k) := List.mem_filter.mpr ⟨hj, hij⟩
      have h0 : A.filter (fun k => rel i k) = [] := List.eq_nil_of_length_eq_zero (Nat.le_zero.mp hlen)
      rw [h0] at this
      simp at this
    | succ n ih =>
      rintro i hi hlen ⟨j, hj, hij⟩
      by_cases hmax : ∀ l ∈ A, rel j l = false
      · exact ⟨j, hj, hij, hmax⟩
      · have hex : ∃ l ∈ A, rel j l = true := by
          apply Classical.byContradiction
          intro hno
          apply hmax
          intro l hl
          cases h : rel j l with
          | false => rfl
          | true => exact absurd ⟨l, hl, h⟩ hno
        have hlt : (A.filter (fun k => rel j k)).length < (A.filter (fun k => rel i k)).length :=
          filter_length_lt (fun x hx hjx => htrans i hi j hj x hx hij hjx) hj hij (hirr j hj)
        obtain ⟨k, hk, hjk, hkmax⟩ := ih j hj (by omega) hex
        exact ⟨k, hk, htrans i hi j hj k hk hij hjk, hkmax⟩
  intro i hi hex
  exact key _ i hi (Nat.le_refl _) hex

end VOPy.Accuracy
