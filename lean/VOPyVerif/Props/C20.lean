import VOPyVerif.Proofs.Problem
import VOPyVerif.Proofs.ProblemScale
import VOPyVerif.Proofs.ProblemNoise
import VOPyVerif.Proofs.ProblemStd
import VOPyVerif.Proofs.ProblemMeasure
import VOPyVerif.Proofs.ProblemGauss
import VOPyVerif.Proofs.ProblemInvariance
/-!
# C20 — problems return the nearest design's value plus configured noise; data scaled

Property theorems only (helper lemmas live in `Proofs/Problem*.lean`).  They are about the
executable model `Model/Problem.lean` that the driver `driver_c20` runs against
`ProblemFromDataset` / `ContinuousProblem` / `DecoupledEvaluationProblem`,
`get_closest_indices_from_points`, `get_noisy_evaluations_chol`, `Dataset.__init__` and
`normalize` / `unnormalize`.
-/
namespace VOPy.C20
open VOPy VOPy.Problem

/-! ## nearest design -/

/-- **Nearest design, first among ties (characterisation).**  `nearestFirst x X` returns index `i`
exactly when `i` is a valid design index, no design is strictly closer to `x` than design `i`
(squared Euclidean distance), and every design *before* `i` is strictly farther — i.e. `i` is the
first index attaining the minimum distance (`np.argmin`).  In particular the answer is unique. -/
theorem nearestFirst_eq_some_iff (x : Vec) (X : Mat) (i : Nat) :
    nearestFirst x X = some i ↔ ∃ hi : i < X.length,
      (∀ (j : Nat) (hj : j < X.length), sqDist x X[i] ≤ sqDist x X[j]) ∧
      (∀ (j : Nat) (hj : j < i), sqDist x X[i] < sqDist x (X[j]'(Nat.lt_trans hj hi))) := by
  unfold nearestFirst
  rw [argminFirst_eq_some_iff, isFirstMin_dists_iff]

/-- **Totality.**  With at least one design the lookup always answers, and its answer is a nearest
design, the first among ties. -/
theorem nearestFirst_spec (x : Vec) (X : Mat) (hX : X ≠ []) :
    ∃ i, nearestFirst x X = some i ∧ ∃ hi : i < X.length,
      (∀ (j : Nat) (hj : j < X.length), sqDist x X[i] ≤ sqDist x X[j]) ∧
      (∀ (j : Nat) (hj : j < i), sqDist x X[i] < sqDist x (X[j]'(Nat.lt_trans hj hi))) := by
  have hd : dists x X ≠ [] := by simpa [dists] using hX
  obtain ⟨i, hi, hs⟩ := argminFirst_spec (dists x X) hd
  exact ⟨i, hi, (isFirstMin_dists_iff x X i).mp hs⟩

/-- no design, no answer (the code returns an empty index list) -/
theorem nearestFirst_nil (x : Vec) : nearestFirst x [] = none := rfl

/-- non-vacuity: a tie between designs 1 and 2 (both at squared distance 1/4) is resolved to 1;
design 0 is farther -/
example : nearestFirst [1/2, 0] [[2, 0], [1, 0], [0, 0], [1/2, 5]] = some 1 := by decide +kernel

/-- **Squared distance is a genuine distance.**  It is non-negative and, between points of
equal dimension, vanishes exactly when the points are equal. -/
theorem sqDist_nonneg_and_eq_zero_iff (a b : Vec) (hlen : a.length = b.length) :
    0 ≤ sqDist a b ∧ (sqDist a b = 0 ↔ a = b) :=
  ⟨sqDist_nonneg a b, fun h => sqDist_eq_zero hlen h, fun h => h ▸ sqDist_self a⟩

/-- **On-grid query.**  If the query point *is* one of the designs (all designs of the query's
dimension), the design returned has exactly the query's coordinates, and it is the first such
design. -/
theorem nearestFirst_on_grid (x : Vec) (X : Mat) (hdim : ∀ r ∈ X, r.length = x.length)
    (hx : x ∈ X) :
    ∃ i, nearestFirst x X = some i ∧ ∃ hi : i < X.length, X[i] = x ∧
      ∀ (j : Nat) (hj : j < i), X[j]'(Nat.lt_trans hj hi) ≠ x := by
  have hX : X ≠ [] := List.ne_nil_of_mem hx
  obtain ⟨i, hi, hil, hle, hlt⟩ := nearestFirst_spec x X hX
  obtain ⟨k, hk, hkx⟩ := List.getElem_of_mem hx
  have h0 : sqDist x X[i] = 0 := by
    have h1 := hle k hk
    rw [hkx, sqDist_self] at h1
    exact le_antisymm h1 (sqDist_nonneg _ _)
  have hxi : x = X[i] := sqDist_eq_zero (hdim _ (List.getElem_mem hil)).symm h0
  refine ⟨i, hi, hil, hxi.symm, ?_⟩
  intro j hj hjx
  have := hlt j hj
  rw [hjx, sqDist_self, h0] at this
  exact absurd this (lt_irrefl _)

/-- **Noiseless evaluation is row lookup at the nearest design.**  With at least one design and as
many objective rows as designs, `evaluate` answers for every batch, returns one row per query
point, and row `r` is the objective vector `Y[i]` of the design `i = nearestFirst xs[r] X`. -/
theorem evaluate_spec (X Y xs : Mat) (hX : X ≠ []) (hXY : X.length = Y.length) :
    ∃ out, evaluate X Y xs = some out ∧ out.length = xs.length ∧
      ∀ (r : Nat) (hr : r < xs.length), ∃ i, nearestFirst xs[r] X = some i ∧
        ∃ hi : i < Y.length, out[r]? = some Y[i] := by
  have hall : ∀ x ∈ xs, ((nearestFirst x X).bind (fun i => Y[i]?)).isSome := by
    intro x _
    obtain ⟨i, hi, hil, _⟩ := nearestFirst_spec x X hX
    rw [hi]
    simp only [Option.bind_some]
    rw [List.getElem?_eq_getElem (hXY ▸ hil)]; rfl
  obtain ⟨out, hout⟩ := mapM_option_isSome _ xs hall
  refine ⟨out, hout, ?_⟩
  obtain ⟨hlen, hrows⟩ := (mapM_option_spec _ xs out).mp hout
  refine ⟨hlen, ?_⟩
  intro r hr
  obtain ⟨b, hb, hfb⟩ := hrows r xs[r] (List.getElem?_eq_getElem hr)
  obtain ⟨i, hi, hil, _⟩ := nearestFirst_spec xs[r] X hX
  refine ⟨i, hi, hXY ▸ hil, ?_⟩
  rw [hi] at hfb
  simp only [Option.bind_some] at hfb
  rw [List.getElem?_eq_getElem (hXY ▸ hil)] at hfb
  rw [hb]; exact hfb.symm

example : evaluate [[0, 0], [1, 0]] [[5, 6], [7, 8]] [[1/4, 0], [3/4, 0], [1/2, 0]]
    = some [[5, 6], [7, 8], [5, 6]] := by decide +kernel

/-! ## decoupled evaluation -/

/-- **`evaluation_index = None`** returns the full evaluation, unchanged. -/
theorem decoupled_all (n : Nat) (values : Mat) : decoupled n values .all = .full values := rfl

/-- **`evaluation_index = k` (an int).**  If every row of the full evaluation has a component `k`,
the result has one entry per row and entry `r` is exactly component `k` of row `r`. -/
theorem decoupled_one (n : Nat) (values : Mat) (k : Nat) (hk : ∀ row ∈ values, k < row.length) :
    ∃ v, decoupled n values (.one k) = .comps v ∧ v.length = values.length ∧
      ∀ (r : Nat) (hr : r < values.length),
        v[r]? = some ((values[r])[k]'(hk _ (List.getElem_mem hr))) := by
  obtain ⟨v, hv, h⟩ := column_spec values k hk
  exact ⟨v, by simp [decoupled, hv], h⟩

/-- **`evaluation_index = [k₀, k₁, …]` (one index per point).**  If the list has as many entries as
`len(x)` (the guard of the code) and not more than there are evaluated rows, and every requested
component exists, entry `r` of the result is exactly component `k_r` of row `r` of the full
evaluation. -/
theorem decoupled_perRow (n : Nat) (values : Mat) (ks : List Nat) (hn : n = ks.length)
    (hlen : ks.length ≤ values.length)
    (hk : ∀ (r : Nat) (hr : r < ks.length), ks[r] < (values[r]'(Nat.lt_of_lt_of_le hr hlen)).length) :
    ∃ v, decoupled n values (.perRow ks) = .comps v ∧ v.length = ks.length ∧
      ∀ (r : Nat) (hr : r < ks.length),
        v[r]? = some ((values[r]'(Nat.lt_of_lt_of_le hr hlen))[ks[r]]'(hk r hr)) := by
  obtain ⟨v, hv, h⟩ := pick_spec values ks hlen hk
  exact ⟨v, by simp [decoupled, hn, hv], h⟩

/-- **The `ValueError` guard** fires exactly for an index *list* whose length differs from `len(x)`. -/
theorem decoupled_valueError_iff (n : Nat) (values : Mat) (ix : EvalIndex) :
    decoupled n values ix = .valueError ↔ ∃ ks, ix = .perRow ks ∧ n ≠ ks.length := by
  cases ix with
  | all => simp [decoupled]
  | one k =>
    simp only [decoupled, reduceCtorEq, false_and, exists_false, iff_false]
    cases column values k <;> simp
  | perRow ks =>
    simp only [decoupled, EvalIndex.perRow.injEq, exists_eq_left', ne_eq]
    by_cases h : n = ks.length
    · simp only [h, not_true_eq_false, ↓reduceIte, iff_false]
      cases pick values ks <;> simp
    · simp [h]

/-- an int index is out of range (numpy's `IndexError`) exactly when some evaluated row is too short -/
theorem decoupled_one_indexError_iff (n : Nat) (values : Mat) (k : Nat) :
    decoupled n values (.one k) = .indexError ↔ ∃ row ∈ values, row.length ≤ k := by
  rw [← column_eq_none_iff]
  simp only [decoupled]
  cases column values k <;> simp

/-- a per-point index list that passes the guard ends in numpy's `IndexError` exactly when some
requested entry does not exist (row `r` missing — e.g. a single 1-D point with a longer list — or
component `k_r` out of range) -/
theorem decoupled_perRow_indexError_iff (n : Nat) (values : Mat) (ks : List Nat) :
    decoupled n values (.perRow ks) = .indexError ↔ n = ks.length ∧
      ∃ (r : Nat) (hr : r < ks.length), (values[r]?).bind (fun row : Vec => row[ks[r]]?) = none := by
  rw [← pick_eq_none_iff]
  simp only [decoupled]
  by_cases h : n = ks.length
  · simp only [h, ne_eq, not_true_eq_false, ↓reduceIte, true_and]
    cases pick values ks <;> simp
  · simp [h]

example : decoupled 2 [[1, 2], [3, 4]] (.perRow [1, 0]) = .comps [2, 3] := by decide +kernel
example : decoupled 2 [[1, 2], [3, 4]] (.one 1) = .comps [2, 4] := by decide +kernel
example : decoupled 2 [[1, 2], [3, 4]] (.perRow [1]) = .valueError := by decide +kernel
/-- a single 1-D point of dimension 2 (`len(x) = 2`) with a one-element index list is rejected -/
example : decoupled 2 [[1, 2]] (.perRow [1]) = .valueError := by decide +kernel

/-! ## data scaling -/

/-- **Min-max scaling of a non-constant column** keeps the length, puts every entry in `[0, 1]`, and
attains both ends: the minimum of the scaled column is exactly 0 and its maximum exactly 1. -/
theorem minMax_unit_interval (col : Vec) (a b : Rat) (ha : a ∈ col) (hb : b ∈ col) (hab : a ≠ b) :
    (minMax col).length = col.length ∧ (∀ y ∈ minMax col, 0 ≤ y ∧ y ≤ 1) ∧
      colMin (minMax col) = 0 ∧ colMax (minMax col) = 1 := by
  have hlt := colMin_lt_colMax ha hb hab
  have hr : colMax col - colMin col ≠ 0 := ne_of_gt (sub_pos.mpr hlt)
  have hpos : 0 < colMax col - colMin col := sub_pos.mpr hlt
  have hcol : col ≠ [] := List.ne_nil_of_mem ha
  have hmm : minMax col = col.map (fun x => (x - colMin col) / (colMax col - colMin col)) := by
    rw [minMax_eq]; simp only [hr, ↓reduceIte]
  have hbound : ∀ y ∈ minMax col, 0 ≤ y ∧ y ≤ 1 := by
    intro y hy
    rw [hmm] at hy
    obtain ⟨x, hx, rfl⟩ := List.mem_map.mp hy
    constructor
    · exact div_nonneg (sub_nonneg.mpr (colMin_le hx)) (le_of_lt hpos)
    · rw [div_le_one hpos]; linarith [le_colMax hx]
  have h0 : (0 : Rat) ∈ minMax col := by
    rw [hmm]; exact List.mem_map.mpr ⟨colMin col, colMin_mem hcol, by rw [sub_self, zero_div]⟩
  have h1 : (1 : Rat) ∈ minMax col := by
    rw [hmm]; exact List.mem_map.mpr ⟨colMax col, colMax_mem hcol, div_self hr⟩
  exact ⟨by rw [hmm, List.length_map], hbound, colMin_eq_of h0 (fun y hy => (hbound y hy).1),
    colMax_eq_of h1 (fun y hy => (hbound y hy).2)⟩

example : minMax [1, 3, 2] = [0, 1, 1/2] := by decide +kernel

/-- **Min-max scaling preserves the order of the entries** (any column: the divisor is positive). -/
theorem minMax_order (col : Vec) (i j : Nat) (hi : i < col.length) (hj : j < col.length) :
    (minMax col)[i]'(by rw [minMax_eq, List.length_map]; exact hi) ≤
      (minMax col)[j]'(by rw [minMax_eq, List.length_map]; exact hj) ↔ col[i] ≤ col[j] := by
  simp only [minMax_eq, List.getElem_map]
  rw [div_le_div_iff_of_pos_right (minMax_divisor_pos col)]
  constructor <;> intro h <;> linarith

/-- a constant column is mapped to zeros (sklearn divides by 1 instead of the zero range) -/
theorem minMax_const (col : Vec) (c : Rat) (h : ∀ y ∈ col, y = c) : ∀ y ∈ minMax col, y = 0 := by
  intro y hy
  rw [minMax_eq] at hy
  obtain ⟨x, hx, rfl⟩ := List.mem_map.mp hy
  have hcol : col ≠ [] := List.ne_nil_of_mem hx
  rw [h x hx, ← h _ (colMin_mem hcol), sub_self, zero_div]

/-- **Standardisation with the population standard deviation** (`s² =` population variance `≠ 0`)
yields mean 0 and population variance 1. -/
theorem standardiseWith_spec (col : Vec) (s : Rat) (hcol : col ≠ []) (hs : s * s = popVar col)
    (hv : popVar col ≠ 0) :
    mean (standardiseWith s col) = 0 ∧ popVar (standardiseWith s col) = 1 :=
  standardiseWith_moments s col hcol hs hv

/-- **`standardise`** (the exact `StandardScaler`): whenever it answers on a column of non-zero
variance, the result has the column's length, mean 0 and population variance 1. -/
theorem standardise_spec (col out : Vec) (hcol : col ≠ []) (hv : popVar col ≠ 0)
    (h : standardise col = some out) :
    out.length = col.length ∧ mean out = 0 ∧ popVar out = 1 := by
  unfold standardise at h
  simp only [hv, ↓reduceIte, Option.map_eq_some_iff] at h
  obtain ⟨s, hs, rfl⟩ := h
  obtain ⟨hss, _⟩ := ratSqrt?_sound hs
  exact ⟨by simp [standardiseWith], standardiseWith_moments s col hcol hss hv⟩

/-- `standardise` declines (`none`) exactly when the population variance has no rational square
root, i.e. when the exact standard deviation is irrational (then only `standardiseF` applies). -/
theorem standardise_eq_none_iff (col : Vec) :
    standardise col = none ↔ ¬ ∃ s : Rat, s * s = popVar col := by
  unfold standardise
  by_cases hv : popVar col = 0
  · simp only [hv, ↓reduceIte, reduceCtorEq, false_iff, not_not]
    exact ⟨0, by simp⟩
  · simp only [hv, ↓reduceIte, Option.map_eq_none_iff]
    constructor
    · rintro h ⟨s, hs⟩
      rw [← hs, ratSqrt?_complete] at h
      cases h
    · intro h
      cases hq : ratSqrt? (popVar col) with
      | none => rfl
      | some s => exact absurd ⟨s, (ratSqrt?_sound hq).1⟩ h

example : standardise [1, 3, 1, 3] = some [-1, 1, -1, 1] := by decide +kernel
example : standardise [1, 2, 3] = none := by decide +kernel

/-- **`unnormalize ∘ normalize = id`** for bounds with `upper ≠ lower`: whenever `normalize`
accepts the data (every row has one entry per bound), `unnormalize` accepts its result and returns
the original data. -/
theorem unnormalize_normalize (data d' : Mat) (b : List (Rat × Rat)) (hb : boundsOK b = true)
    (h : Problem.normalize data b = some d') : unnormalize d' b = some data := by
  unfold Problem.normalize at h
  split at h
  · rename_i hall
    cases h
    have hlen : ∀ r ∈ data, r.length = b.length := by simpa using hall
    unfold unnormalize
    have hall' : (data.map (rowWise normalizeCol b)).all (fun r => r.length == b.length) = true := by
      simp only [List.all_map, List.all_eq_true, Function.comp, beq_iff_eq]
      intro r hr; exact rowWise_length _ b r (hlen r hr)
    rw [if_pos hall']
    congr 1
    exact map_rowWise_inverse normalizeCol unnormalizeCol b
      (fun p hp x => unnormalizeCol_normalizeCol p.1 p.2 x ((boundsOK_iff b).mp hb p hp)) data hlen
  · cases h

/-- **`normalize ∘ unnormalize = id`** for bounds with `upper ≠ lower`. -/
theorem normalize_unnormalize (data d' : Mat) (b : List (Rat × Rat)) (hb : boundsOK b = true)
    (h : unnormalize data b = some d') : Problem.normalize d' b = some data := by
  unfold unnormalize at h
  split at h
  · rename_i hall
    cases h
    have hlen : ∀ r ∈ data, r.length = b.length := by simpa using hall
    unfold Problem.normalize
    have hall' : (data.map (rowWise unnormalizeCol b)).all (fun r => r.length == b.length) = true := by
      simp only [List.all_map, List.all_eq_true, Function.comp, beq_iff_eq]
      intro r hr; exact rowWise_length _ b r (hlen r hr)
    rw [if_pos hall']
    congr 1
    exact map_rowWise_inverse unnormalizeCol normalizeCol b
      (fun p hp x => normalizeCol_unnormalizeCol p.1 p.2 x ((boundsOK_iff b).mp hb p hp)) data hlen
  · cases h

/-- the `ValueError` guard of both utilities fires exactly when some row has a number of entries
different from the number of bounds; otherwise both answer -/
theorem normalize_eq_none_iff (data : Mat) (b : List (Rat × Rat)) :
    (Problem.normalize data b = none ↔ ∃ r ∈ data, r.length ≠ b.length) ∧
    (unnormalize data b = none ↔ ∃ r ∈ data, r.length ≠ b.length) := by
  unfold Problem.normalize unnormalize
  constructor <;> (split <;> rename_i h <;> simp at h ⊢ <;> exact h)

/-- entrywise meaning of the two maps -/
theorem normalizeCol_def (lo hi x : Rat) :
    normalizeCol lo hi x = (x - lo) / (hi - lo) ∧ unnormalizeCol lo hi x = x * (hi - lo) + lo :=
  ⟨rfl, rfl⟩

example : Problem.normalize [[1, 2], [3, 4]] [(0, 2), (0, 4)] = some [[1/2, 1/2], [3/2, 1]] := by decide +kernel
example : unnormalize [[1/2, 1/2], [3/2, 1]] [(0, 2), (0, 4)] = some [[1, 2], [3, 4]] := by
  decide +kernel

/-! ## noise

`toRows` is the list-of-rows encoding the driver receives.  The model's noise map is the matrix
expression `F + Z·M`; the second-moment theorems are stated for *any* finite weighted family of
vectors (no probability theory needed: a distribution enters only through its first and second
moments), over any commutative ring. -/

open Matrix in
/-- **The model's noise map is `F + Z·M`.**  On list-of-rows encodings of an `n × m` mean matrix
`F`, an `n × d` draw `Z` and a `d × m` applied matrix `M` (`d > 0`), the executable
`Problem.noisy` — which the harness compares with `get_noisy_evaluations_chol` exactly — computes
the encoding of the matrix `F + Z * M`; the code applies `M = L`, the factor it is handed. -/
theorem noisy_eq_matrix {n d m : Nat} (hd : 0 < d) (F : Matrix (Fin n) (Fin m) ℚ)
    (Z : Matrix (Fin n) (Fin d) ℚ) (L : Matrix (Fin d) (Fin m) ℚ) :
    noisy (toRows F) (toRows Z) (appliedM (toRows L)) = toRows (F + Z * L) :=
  noisy_toRows hd F Z L

open Matrix in
/-- **Second moment of `x ↦ x·M`.**  For any finite family of vectors `x_k` with weights `p_k` whose
second-moment matrix is the identity (`Σ p_k x_kᵀx_k = I`, e.g. the atoms of any distribution with
uncorrelated unit-variance zero-mean coordinates), the second-moment matrix of the transformed
vectors `x_k·M` is `MᵀM`. -/
theorem noise_second_moment {R : Type} [CommRing R] {ι : Type} [Fintype ι] {d m : Nat}
    (p : ι → R) (x : ι → Fin d → R) (M : Matrix (Fin d) (Fin m) R)
    (h : ∑ k, p k • vecMulVec (x k) (x k) = 1) :
    ∑ k, p k • vecMulVec (x k ᵥ* M) (x k ᵥ* M) = Mᵀ * M := by
  rw [second_moment_vecMul, h, Matrix.mul_one]

open Matrix in
/-- **The noise has zero mean**: if the weights sum to 1 and the family has mean 0, the mean of
`f + x_k·M` is `f`. -/
theorem noise_mean {R : Type} [CommRing R] {ι : Type} [Fintype ι] {d m : Nat}
    (p : ι → R) (x : ι → Fin d → R) (M : Matrix (Fin d) (Fin m) R) (f : Fin m → R)
    (hp : ∑ k, p k = 1) (h0 : ∑ k, p k • x k = 0) :
    ∑ k, p k • (f + x k ᵥ* M) = f := by
  simp only [smul_add]
  rw [Finset.sum_add_distrib, ← Finset.sum_smul, hp, one_smul, first_moment_vecMul, h0,
    Matrix.zero_vecMul, add_zero]

open Matrix in
/-- **The configured covariance `Σ = L Lᵀ` is obtained iff `MᵀM = L Lᵀ`** (for every family with
identity second moment). -/
theorem noise_cov_iff {R : Type} [CommRing R] {ι : Type} [Fintype ι] {d : Nat}
    (p : ι → R) (x : ι → Fin d → R) (M L : Matrix (Fin d) (Fin d) R)
    (h : ∑ k, p k • vecMulVec (x k) (x k) = 1) :
    ∑ k, p k • vecMulVec (x k ᵥ* M) (x k ᵥ* M) = L * Lᵀ ↔ Mᵀ * M = L * Lᵀ := by
  rw [noise_second_moment p x M h]

open Matrix in
/-- **What the code delivers.**  Multiplying by the factor itself (`M = L`, `np.dot(X, L)`) gives
second moment `LᵀL`, so the configured covariance `L Lᵀ` is obtained iff `LᵀL = L Lᵀ`. -/
theorem noise_cov_of_code {R : Type} [CommRing R] {ι : Type} [Fintype ι] {d : Nat}
    (p : ι → R) (x : ι → Fin d → R) (L : Matrix (Fin d) (Fin d) R)
    (h : ∑ k, p k • vecMulVec (x k) (x k) = 1) :
    ∑ k, p k • vecMulVec (x k ᵥ* L) (x k ᵥ* L) = Lᵀ * L ∧
    (∑ k, p k • vecMulVec (x k ᵥ* L) (x k ᵥ* L) = L * Lᵀ ↔ Lᵀ * L = L * Lᵀ) :=
  ⟨noise_second_moment p x L h, noise_cov_iff p x L L h⟩

open Matrix in
/-- non-vacuity of the moment hypotheses: the Rademacher vector — the four atoms `(±1, ±1)` with
probability 1/4 each — has total mass 1, mean 0 and identity second moment -/
example :
    let sg : Bool → ℚ := fun b => if b then 1 else -1
    let x : Bool × Bool → Fin 2 → ℚ := fun k => ![sg k.1, sg k.2]
    (∑ _k : Bool × Bool, (1 : ℚ) / 4 = 1) ∧ (∑ k : Bool × Bool, ((1 : ℚ) / 4) • x k = 0) ∧
      ∑ k : Bool × Bool, ((1 : ℚ) / 4) • vecMulVec (x k) (x k) = 1 := by
  refine ⟨by simp, ?_, ?_⟩
  · ext i
    fin_cases i <;> simp [Fintype.sum_prod_type]
  · ext i j
    fin_cases i <;> fin_cases j <;>
      simp [Fintype.sum_prod_type, Matrix.sum_apply] <;> norm_num

open Matrix in
/-- **The driver's decision `covOK` is the matrix identity `MᵀM = L Lᵀ`** on encodings of square
matrices. -/
theorem covOK_iff {d : Nat} (hd : 0 < d) (M L : Matrix (Fin d) (Fin d) ℚ) :
    covOK (toRows M) (toRows L) = true ↔ Mᵀ * M = L * Lᵀ :=
  covOK_toRows hd M L

open Matrix in
/-- **The required matrix**: multiplying by the transposed factor `M = Lᵀ` always yields the
configured covariance. -/
theorem covOK_transpose {d : Nat} (hd : 0 < d) (L : Matrix (Fin d) (Fin d) ℚ) :
    covOK (VOPy.Problem.transpose (toRows L)) (toRows L) = true := by
  rw [transpose_toRows hd, covOK_toRows hd, Matrix.transpose_transpose]

open Matrix in
/-- **Diagonal (more generally symmetric) factors hide the difference**: for `Lᵀ = L` — in
particular the factors `√noise_var · I` that `ProblemFromDataset` and `ContinuousProblem` build —
multiplying by `L` itself gives the configured covariance. -/
theorem covOK_of_symmetric {d : Nat} (hd : 0 < d) (L : Matrix (Fin d) (Fin d) ℚ) (hs : Lᵀ = L) :
    covOK (appliedM (toRows L)) (toRows L) = true := by
  unfold appliedM
  rw [covOK_toRows hd, hs]

open Matrix in
/-- the factors the problem classes build are diagonal, hence covered by `covOK_of_symmetric` -/
theorem covOK_of_diagonal {d : Nat} (hd : 0 < d) (v : Fin d → ℚ) :
    covOK (appliedM (toRows (diagonal v))) (toRows (diagonal v)) = true :=
  covOK_of_symmetric hd _ (diagonal_transpose v)

/-- **The tolerance form of the decision** (`covclose`, used when `√noise_var` is not exactly
representable) at tolerance 0 is exact equality `MᵀM = Σ`. -/
theorem covClose_zero_iff (M Sigma : Mat) : covClose 0 M Sigma = true ↔ gram M = Sigma :=
  matClose_zero_iff _ _

/-- **A correlated lower factor exposes it**: for `L = [[1, 0], [1/2, 1]]` the matrix the code
applies (`L` itself) does *not* give the configured covariance `L Lᵀ = [[1, 1/2], [1/2, 5/4]]`
(it gives `LᵀL = [[5/4, 1/2], [1/2, 1]]`), whereas `Lᵀ` does. -/
theorem covOK_correlated_counterexample :
    covOK (appliedM [[1, 0], [1/2, 1]]) [[1, 0], [1/2, 1]] = false ∧
    gram (appliedM [[1, 0], [1/2, 1]]) = [[5/4, 1/2], [1/2, 1]] ∧
    llt [[1, 0], [1/2, 1]] = [[1, 1/2], [1/2, 5/4]] ∧
    covOK (VOPy.Problem.transpose [[1, 0], [1/2, 1]]) [[1, 0], [1/2, 1]] = true := by
  decide +kernel

open MeasureTheory Matrix in
/-- **The sampling law, measure-theoretically.**  Let `X` be a random vector on any probability
space whose coordinates are integrable with mean 0 and whose products are integrable with
`E[X_i X_j] = δ_ij` (as for i.i.d. standard normals — the assumption made about numpy's generator).
Then the noisy evaluation `Y = f + X·M` has mean `f` and covariance
`E[(Y_a − f_a)(Y_b − f_b)] = (MᵀM)_{ab}`.  With the code's `M = L` this is `LᵀL`. -/
theorem noise_law {Ω : Type} [MeasurableSpace Ω] (μ : Measure Ω) [IsProbabilityMeasure μ]
    {d m : Nat} (X : Ω → Fin d → ℝ) (M : Matrix (Fin d) (Fin m) ℝ) (f : Fin m → ℝ)
    (hint1 : ∀ i, Integrable (fun ω => X ω i) μ) (h1 : ∀ i, ∫ ω, X ω i ∂μ = 0)
    (hint2 : ∀ i j, Integrable (fun ω => X ω i * X ω j) μ)
    (h2 : ∀ i j, ∫ ω, X ω i * X ω j ∂μ = if i = j then 1 else 0) :
    (∀ a, ∫ ω, (f + X ω ᵥ* M) a ∂μ = f a) ∧
    (∀ a b, ∫ ω, ((f + X ω ᵥ* M) a - f a) * ((f + X ω ᵥ* M) b - f b) ∂μ = (Mᵀ * M) a b) := by
  constructor
  · intro a
    simp only [Pi.add_apply]
    rw [integral_add (integrable_const _) (integrable_vecMul μ X M hint1 a),
      integral_vecMul μ X M hint1 h1 a]
    simp
  · intro a b
    simp only [Pi.add_apply, add_sub_cancel_left]
    exact integral_vecMul_mul_vecMul μ X M hint2 h2 a b

open MeasureTheory Matrix WithLp ProbabilityTheory in
/-- non-vacuity of `noise_law`: the standard Gaussian vector of `ℝᵈ` satisfies all four moment
hypotheses, so for it `E[f + x·M] = f` and `Cov(f + x·M) = MᵀM` -/
example {d m : Nat} (M : Matrix (Fin d) (Fin m) ℝ) (f : Fin m → ℝ) :
    let μ := stdGaussian (EuclideanSpace ℝ (Fin d))
    (∀ a, ∫ ω, (f + ofLp ω ᵥ* M) a ∂μ = f a) ∧
    (∀ a b, ∫ ω, ((f + ofLp ω ᵥ* M) a - f a) * ((f + ofLp ω ᵥ* M) b - f b) ∂μ = (Mᵀ * M) a b) :=
  noise_law (stdGaussian (EuclideanSpace ℝ (Fin d))) (fun ω => ofLp ω) M f
    (fun i => (stdGaussian_memLp_coord i).integrable (by norm_num))
    (fun i => stdGaussian_integral_coord i)
    (fun i j => (stdGaussian_memLp_coord i).integrable_mul (stdGaussian_memLp_coord j))
    (fun i j => stdGaussian_integral_coord_mul i j)

open MeasureTheory Matrix WithLp ProbabilityTheory in
/-- **The sampling law for Gaussian draws.**  If the row `x` is a standard Gaussian vector of `ℝᵈ`
(i.i.d. standard normal coordinates — what `np.random.normal(size=(n, d))` is assumed to deliver per
row), the noisy evaluation `f + x·M` is *exactly* multivariate Gaussian with mean `f` and
covariance matrix `MᵀM` (equality of measures on `ℝᵈ`). -/
theorem noise_gaussian_law {d : Nat} (f : EuclideanSpace ℝ (Fin d)) (M : Matrix (Fin d) (Fin d) ℝ) :
    (stdGaussian (EuclideanSpace ℝ (Fin d))).map (fun x => toLp 2 (ofLp f + ofLp x ᵥ* M)) =
      multivariateGaussian f (Mᵀ * M) :=
  noisyLaw_eq_multivariateGaussian f M

open MeasureTheory Matrix WithLp ProbabilityTheory in
/-- **…and it is the configured Gaussian `N(f, L Lᵀ)` iff `MᵀM = L Lᵀ`.** -/
theorem noise_gaussian_law_iff {d : Nat} (f : EuclideanSpace ℝ (Fin d))
    (M L : Matrix (Fin d) (Fin d) ℝ) :
    (stdGaussian (EuclideanSpace ℝ (Fin d))).map (fun x => toLp 2 (ofLp f + ofLp x ᵥ* M)) =
      multivariateGaussian f (L * Lᵀ) ↔ Mᵀ * M = L * Lᵀ := by
  have h := noisyLaw_eq_multivariateGaussian f M
  unfold noisyLaw noisyMap at h
  rw [h]
  have hS : (Mᵀ * M).PosSemidef := by
    simpa [Matrix.conjTranspose_eq_transpose_of_trivial] using
      Matrix.posSemidef_conjTranspose_mul_self M
  have hT : (L * Lᵀ).PosSemidef := by
    simpa [Matrix.conjTranspose_eq_transpose_of_trivial] using
      Matrix.posSemidef_self_mul_conjTranspose L
  constructor
  · intro heq
    ext i j
    rw [← covariance_eval_multivariateGaussian (μ := f) hS i j,
      ← covariance_eval_multivariateGaussian (μ := f) hT i j, heq]
  · intro heq; rw [heq]

open MeasureTheory Matrix WithLp ProbabilityTheory in
/-- **The defect, as a statement about laws.**  For the correlated lower factor
`L = [[1, 0], [1/2, 1]]`, multiplying standard Gaussian rows by `L` itself (what
`get_noisy_evaluations_chol` does) does **not** produce the configured law `N(f, L Lᵀ)`. -/
theorem noise_gaussian_law_code_wrong (f : EuclideanSpace ℝ (Fin 2)) :
    (stdGaussian (EuclideanSpace ℝ (Fin 2))).map
        (fun x => toLp 2 (ofLp f + ofLp x ᵥ* (!![1, 0; 1/2, 1] : Matrix (Fin 2) (Fin 2) ℝ))) ≠
      multivariateGaussian f ((!![1, 0; 1/2, 1] : Matrix (Fin 2) (Fin 2) ℝ) * !![1, 0; 1/2, 1]ᵀ) := by
  rw [Ne, noise_gaussian_law_iff]
  intro h
  have := congrFun (congrFun h 0) 0
  simp [Matrix.mul_apply, Fin.sum_univ_two] at this

/-! ## the `RealLike` standardisation formula at `ℝ` -/

/-- **`standardiseF`** — the term `(x − mean) / sqrt(population variance)` that the driver evaluates
at `Float` against `StandardScaler` — instantiated at `ℝ`: on a non-empty column with non-zero
variance the result has the same length, mean 0 and population variance 1. -/
theorem standardiseF_spec (col : List ℝ) (hcol : col ≠ []) (hv : popVarF col ≠ 0) :
    (standardiseF col).length = col.length ∧ meanF (standardiseF col) = 0 ∧
      popVarF (standardiseF col) = 1 :=
  standardiseF_moments col hcol hv

/-- non-vacuity: the column `[1, 3]` has population variance 1 -/
example : popVarF ([1, 3] : List ℝ) ≠ 0 := by
  rw [popVarF_real, meanF_real]
  norm_num

/-! ## the band relation used by the harness -/

/-- **`nearestBand`** (the relation (R) the harness evaluates on the implementation's output): with
at least one design, index `j` is in the band iff it is a valid design index whose squared distance
exceeds no other design's by more than `tol`; for `tol = 0` these are exactly the nearest designs. -/
theorem mem_nearestBand (x : Vec) (X : Mat) (tol : Rat) (hX : X ≠ []) (j : Nat) :
    j ∈ nearestBand x X tol ↔ ∃ hj : j < X.length,
      ∀ (k : Nat) (hk : k < X.length), sqDist x X[j] ≤ sqDist x X[k] + tol :=
  mem_nearestBand_iff x X tol hX j

end VOPy.C20

/-! # INVARIANCE — the nearest-design lookup depends on differences only

What the metamorphic checks of the harness rely on ("translated / rescaled designs and queries give the
identical index"): the *index* returned by `nearestFirst` (`np.argmin` of the squared distances, first
minimum) is unchanged — the tie rule included, because the whole list of distances is unchanged
(translation) or multiplied by one positive constant (scaling). -/
namespace VOPy.C20
open VOPy VOPy.Problem

/-- **Translation invariance.**  Translating every design and the query by a common vector `t` (all of
the length of `t`) leaves the list of squared distances literally unchanged, hence the returned index
(first among ties) and the band of near-ties. -/
theorem nearestFirst_translate (x t : Vec) (X : Mat) (hx : x.length = t.length)
    (hX : ∀ r ∈ X, r.length = t.length) :
    dists (vadd x t) (X.map (fun r => vadd r t)) = dists x X ∧
    nearestFirst (vadd x t) (X.map (fun r => vadd r t)) = nearestFirst x X ∧
    ∀ tol, nearestBand (vadd x t) (X.map (fun r => vadd r t)) tol = nearestBand x X tol := by
  have h := dists_translate x t X hx hX
  refine ⟨h, ?_, fun tol => ?_⟩
  · simp only [nearestFirst, h]
  · simp only [nearestBand, h]

/-- **Scaling invariance.**  Multiplying every design and the query by `c ≠ 0` multiplies every squared
distance by `c² > 0`; `np.argmin`'s first-minimum scan returns the same index: ties stay ties, strict
inequalities stay strict. -/
theorem nearestFirst_scale (c : Rat) (hc : c ≠ 0) (x : Vec) (X : Mat) :
    dists (smul c x) (X.map (smul c)) = (dists x X).map (fun d => c * c * d) ∧
    nearestFirst (smul c x) (X.map (smul c)) = nearestFirst x X := by
  have h := dists_scale c x X
  refine ⟨h, ?_⟩
  simp only [nearestFirst, h]
  exact argminFirst_map _ (mul_sq_lt_iff c hc) _

/-- **The first-minimum rule is order-theoretic**: `np.argmin` (first index of the minimum) commutes
with every strictly increasing re-labelling of the values. -/
theorem argmin_strictMono_invariant (f : Rat → Rat) (hf : ∀ x y, f x < f y ↔ x < y) (l : List Rat) :
    argminFirst (l.map f) = argminFirst l :=
  argminFirst_map f hf l

/-- **`evaluate` is invariant**: looking up the translated (resp. rescaled) queries among the
translated (resp. rescaled) designs returns the same objective rows. -/
theorem evaluate_translate_scale (X Y xs : Mat) (t : Vec) (c : Rat) (hc : c ≠ 0)
    (hX : ∀ r ∈ X, r.length = t.length) (hxs : ∀ x ∈ xs, x.length = t.length) :
    evaluate (X.map (fun r => vadd r t)) Y (xs.map (fun r => vadd r t)) = evaluate X Y xs ∧
    evaluate (X.map (smul c)) Y (xs.map (smul c)) = evaluate X Y xs := by
  have key : ∀ (T : Vec → Vec) (X' : Mat) (l : Mat),
      (∀ x ∈ l, nearestFirst (T x) X' = nearestFirst x X) →
      evaluate X' Y (l.map T) = evaluate X Y l := by
    intro T X' l
    induction l with
    | nil => intro _; rfl
    | cons x l ih =>
      intro h
      have ih' := ih (fun y hy => h y (by simp [hy]))
      simp only [evaluate, List.map_cons, List.mapM_cons] at ih' ⊢
      rw [h x (by simp), ih']
  exact ⟨key _ _ xs (fun x hx => (nearestFirst_translate x t X (hxs x hx) hX).2.1),
    key _ _ xs (fun x _ => (nearestFirst_scale c hc x X).2)⟩

/-! ### non-vacuity: offset `2^20`, distances of size `2^-10` -/

/-- a tie between designs 1 and 2 (both at squared distance `2^-22` from the query) next to the offset
`(2^20, −2^20)`: the first of the two is returned, before and after translation, and after scaling by
`2^20` -/
example :
    nearestFirst [1/2048, 0] [[2/1024, 0], [1/1024, 0], [0, 0], [1/2048, 5]] = some 1 ∧
    nearestFirst (vadd [1/2048, 0] [1048576, -1048576])
      ([[2/1024, 0], [1/1024, 0], [0, 0], [1/2048, 5]].map (fun r => vadd r [1048576, -1048576])) = some 1 ∧
    nearestFirst (smul 1048576 [1/2048, 0])
      ([[2/1024, 0], [1/1024, 0], [0, 0], [1/2048, 5]].map (smul 1048576)) = some 1 := by
  decide +kernel

example :
    nearestFirst (vadd [1/2048, 0] [1048576, -1048576])
      ([[2/1024, 0], [1/1024, 0], [0, 0], [1/2048, 5]].map (fun r => vadd r [1048576, -1048576])) =
    nearestFirst [1/2048, 0] [[2/1024, 0], [1/1024, 0], [0, 0], [1/2048, 5]] :=
  (nearestFirst_translate [1/2048, 0] [1048576, -1048576] [[2/1024, 0], [1/1024, 0], [0, 0], [1/2048, 5]]
    rfl (by decide)).2.1

end VOPy.C20
