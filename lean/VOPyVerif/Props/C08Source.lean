import VOPyVerif.Props.C08
import VOPyVerif.Proofs.GenAgreeC08
/-!
# C08 — SOURCE AGREEMENT obligations (second tie between model and code, DESIGN §2.10)

Property theorems only, same namespace `VOPy.C08` as `Props/C08.lean` (whose theorems are about the
hand-written model and do not depend on anything generated).  The theorems here say that the model's
definitions are the ones regenerated from the current Python source text (`Gen/C08.lean`, written by
`harness/translate*.py` on every `./check C08`; agreement lemmas in `Proofs/GenAgreeC08.lean`).  They live in
their own module so that a source edit the translator reads differently (or cannot read) makes exactly the
affected obligations fail — `harness/leanbuild.py` builds this module separately and, if it does not build,
attributes the failure per theorem — while the model theorems of `Props/C08.lean` stay discharged.
-/
open MeasureTheory ProbabilityTheory
open scoped NNReal

namespace VOPy.C08
open VOPy VOPy.Naive

/-! ## SOURCE AGREEMENT — the sample-count term is the term read off the current Python source

Second tie between model and code (DESIGN §2.10), beside the numeric comparison at `Float`:
`harness/translate.py` regenerates `Gen/C08.lean` from the *source text* of
`NaiveElimination.__init__` (branch `L is None`) and of `ConeTheta2D.beta` on every `./check C08`
(Python `ast`; `c`, `ordering_complexity` inlined / read as parameters; nothing executed), and the
theorems below are re-checked against the regenerated file.  Level: **polymorphic**
(`∀ α [RealLike α]`); `source_coneBeta` by `rfl`; the two `L` theorems under `2 ≤ K`, because the
source divides by `max(K·(K−1), 1)` over Python integers while the hand term has `ofNat (K·(K−1))`
— for `2 ≤ K` the integers are equal (`GenAgree.C08.pairCount_eq`), the rest is `rfl`.  The source
term carries `np.sqrt(noise_var)` in the position of σ: it agrees with `naiveLprop` (the count the
PAC theorem needs), not with the pre-repair `naiveLcode` (finding D1); a regression to the variance
breaks `source_naiveLreal` / `source_naiveL`. -/

section SourceAgreement
variable {α : Type} [RealLike α]

/-- `ConeTheta2D.beta` as written in the source = `coneBeta` (polymorphic, `rfl`). -/
theorem source_coneBeta [LtB α] (θdeg : α) : Gen.C08.gen_coneBeta θdeg = coneBeta θdeg :=
  GenAgree.C08.gen_coneBeta_eq θdeg

/-- The argument of `np.ceil` in `NaiveElimination.__init__` as written in the source =
`naiveLreal naiveC (sqrt noise_var) β ε δ m K` (polymorphic; for `2 ≤ K`). -/
theorem source_naiveLreal (nv β ε δ : α) (m K : Nat) (hK : 2 ≤ K) :
    Gen.C08.gen_naiveLreal nv β ε δ m K = naiveLreal naiveC (RealLike.sqrt nv) β ε δ m K :=
  GenAgree.C08.gen_naiveLreal_eq nv β ε δ m K hK

/-- `self.L = np.ceil(…).astype(int)` as written in the source, for a `ConeTheta2D` order
(`ordering_complexity = coneBeta θdeg`) = `naiveLprop` (polymorphic; for `2 ≤ K`). -/
theorem source_naiveL [LtB α] [CeilNat α] (nv ε δ θdeg : α) (m K : Nat) (hK : 2 ≤ K) :
    Gen.C08.gen_naiveL nv (coneBeta θdeg) ε δ m K = naiveLprop nv ε δ θdeg m K :=
  GenAgree.C08.gen_naiveL_eq nv ε δ θdeg m K hK

end SourceAgreement

/-- **(ε, δ)-PAC with the sample count read off the source.**  `naive_pac_accuracy` with the
hypothesis on `L` stated for the source-derived term: running at least
`gen_naiveL noise_var (β of the θ-cone) ε δ 2 K` rounds — the expression `naive_elimination.py`
assigns to `self.L`, with `ordering_cone.py`'s `beta` — makes the reported Pareto set inaccurate
with probability at most `δ`. -/
theorem source_naive_pac_accuracy (W : Cone2) (θdeg : ℝ) (hW : ThetaCone W θdeg)
    (K : ℕ) (hK : 2 ≤ K) (nv : ℝ≥0) (hnv : nv ≠ 0) (ε δ : ℝ)
    (hε : 0 < ε) (hδ : 0 < δ) (hδ1 : δ ≤ 1)
    (L : ℕ) (hL : Gen.C08.gen_naiveL (nv : ℝ) (Gen.C08.gen_coneBeta θdeg) ε δ 2 K ≤ L)
    (mu : ℕ → ℝ × ℝ) :
    (noiseMeasure (NoiseIdx K L) nv).real
        {ξ | ¬ Accurate W mu K ε (Pareto.fast W.domB (sampleMeansR mu ξ))} ≤ δ := by
  rw [source_coneBeta, source_naiveL _ _ _ _ _ _ hK] at hL
  exact naive_pac_accuracy W θdeg hW K hK nv hnv ε δ hε hδ hδ1 L hL mu

end VOPy.C08
