import VOPyVerif.Props.C19
import VOPyVerif.Proofs.GenAgreeC19
import VOPyVerif.Proofs.AdaptiveVh
/-!
# C19 — SOURCE AGREEMENT obligations (second tie between model and code, DESIGN §2.10)

Property theorems only, same namespace `VOPy.C19` as `Props/C19.lean`.  They say that the closing formula of
`calculate_epsilonF1_score` — how the score is put together from the count of predicted designs with gap ≤ ε,
the number of predictions and the count of uncovered missed Pareto designs — is the term regenerated from
the current Python source text (`Gen/C19.lean`), that on counts with `tp ≤ npred` it is exactly the model's
`Eval.f1Of` (the function `f1_range`, `f1_eq_one_iff`, … of `Props/C19.lean` are about), and that it lies in
`[0, 1]`.  Translated: the arithmetic of the last four statements; pinned: the definitions of `true_eps` and
`uncovered_missed_pareto_count`; modelled, not translated: `get_delta`, `get_uncovered_size`, the set
difference of the index lists.
-/
namespace VOPy.C19
open VOPy VOPy.Eval

/-- the closing formula as written in the source = `Eval.f1F` (polymorphic, `rfl`). -/
theorem source_f1_formula {α : Type} [RealLike α] (tp npred unc : Nat) :
    (Gen.C19.gen_f1 tp npred unc : α) = f1F tp npred unc :=
  GenAgree.C19.gen_f1_eq tp npred unc

/-- **The source-derived score is the model's `f1Of`.**  For counts with `tp ≤ npred` (true positives are
among the predictions) and a non-zero denominator, the real value of the source formula is the rational
`f1Of (tp, npred − tp, unc)` returns; with a zero denominator `f1Of` answers `none` (the code's `0/0 = nan`). -/
theorem source_f1_is_f1Of (tp npred unc : Nat) (h : tp ≤ npred) :
    (2 * tp + (npred - tp) + unc = 0 → f1Of (tp, npred - tp, unc) = none) ∧
    (2 * tp + (npred - tp) + unc ≠ 0 → ∃ q : Rat, f1Of (tp, npred - tp, unc) = some q ∧
      (Gen.C19.gen_f1 tp npred unc : ℝ) = (q : ℝ)) := by
  constructor
  · intro h0; simp [f1Of, h0]
  · intro h0
    refine ⟨((2 * tp : Nat) : Rat) / ((2 * tp + (npred - tp) + unc : Nat) : Rat), ?_, ?_⟩
    · unfold f1Of
      exact if_neg h0
    · show (RealLike.ofNat (2 * tp) : ℝ) / (Vh.ofInt (((2 * tp : Nat) : Int) + ((npred : Int) - (tp : Int)) + (unc : Int)) : ℝ) = _
      rw [Vh.ofInt_real, RealLike.ofNat_real]
      push_cast [Nat.cast_sub h]
      rfl

/-- **Range.**  With `tp ≤ npred` and a non-zero denominator the source-derived score lies in `[0, 1]`, and it
is `1` exactly when there is no false positive and no uncovered missed Pareto design. -/
theorem source_f1_range (tp npred unc : Nat) (h : tp ≤ npred) (h0 : 2 * tp + (npred - tp) + unc ≠ 0) :
    0 ≤ (Gen.C19.gen_f1 tp npred unc : ℝ) ∧ (Gen.C19.gen_f1 tp npred unc : ℝ) ≤ 1 ∧
    ((Gen.C19.gen_f1 tp npred unc : ℝ) = 1 ↔ npred = tp ∧ unc = 0) := by
  have hval : (Gen.C19.gen_f1 tp npred unc : ℝ) =
      (2 * (tp : ℝ)) / (2 * (tp : ℝ) + ((npred : ℝ) - (tp : ℝ)) + (unc : ℝ)) := by
    show (RealLike.ofNat (2 * tp) : ℝ) / (Vh.ofInt (((2 * tp : Nat) : Int) + ((npred : Int) - (tp : Int)) + (unc : Int)) : ℝ) = _
    rw [Vh.ofInt_real, RealLike.ofNat_real]
    push_cast; rfl
  have htp : (0 : ℝ) ≤ tp := Nat.cast_nonneg _
  have hunc : (0 : ℝ) ≤ unc := Nat.cast_nonneg _
  have hfp : (0 : ℝ) ≤ (npred : ℝ) - tp := by
    have : (tp : ℝ) ≤ npred := by exact_mod_cast h
    linarith
  have hden : (0 : ℝ) < 2 * (tp : ℝ) + ((npred : ℝ) - (tp : ℝ)) + (unc : ℝ) := by
    have hne : (2 * (tp : ℝ) + ((npred : ℝ) - (tp : ℝ)) + (unc : ℝ)) ≠ 0 := by
      intro hz
      apply h0
      have : ((2 * tp + (npred - tp) + unc : Nat) : ℝ) = 0 := by
        push_cast [Nat.cast_sub h]; exact hz
      exact_mod_cast this
    exact lt_of_le_of_ne (by linarith) (Ne.symm hne)
  rw [hval]
  refine ⟨by positivity, ?_, ?_⟩
  · rw [div_le_one hden]; linarith
  · rw [div_eq_one_iff_eq (ne_of_gt hden)]
    constructor
    · intro he
      have h1 : (npred : ℝ) - tp = 0 := by linarith
      have h2 : (unc : ℝ) = 0 := by linarith
      constructor
      · have : (npred : ℝ) = tp := by linarith
        exact_mod_cast this
      · exact_mod_cast h2
    · rintro ⟨rfl, rfl⟩; simp

/-- non-vacuity: 3 of 4 predictions within ε, one uncovered missed Pareto design: 6/8 = 3/4 -/
example : ∃ q : Rat, f1Of (3, 4 - 3, 1) = some q ∧ (Gen.C19.gen_f1 3 4 1 : ℝ) = (q : ℝ) :=
  (source_f1_is_f1Of 3 4 1 (by norm_num)).2 (by norm_num)

end VOPy.C19
