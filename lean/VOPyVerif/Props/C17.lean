import VOPyVerif.Proofs.ConeConst
import VOPyVerif.Proofs.ConeConstExist
import VOPyVerif.Proofs.ConeConstTheta
import VOPyVerif.Proofs.ConeConstBridge
/-!
# C17 — cone constants α, u*, d₁ and β are the optima they are defined as

Property theorems only.  Definitions (in `Proofs/ConeConst.lean`, over any real inner product
space `E`, the cone given by a finite list `ws` of facet normals):

* `InCone ws x`   : `∀ w ∈ ws, 0 ≤ ⟪w, x⟫`;   `Feas1 ws z` : `∀ w ∈ ws, 1 ≤ ⟪w, z⟫`;
* `alpha ws c`    : `sSup {⟪c, x⟫ | InCone ws x, ‖x‖ ≤ 1}`    (VOPy: `c = w_n`, `utils.get_alpha`);
* `d1 ws`         : `sInf {‖z‖ | Feas1 ws z}`;   `IsMinNorm ws z*` : feasible of minimum norm
                     (VOPy: `compute_u_star` returns `u* = z*/‖z*‖`, `d₁ = ‖z*‖`);
* `comb lam ws`   : `Σ_i λ_i • w_i` (`Wᵀλ`).

Concrete layer (`Proofs/ConeConstBridge.lean`): `toE m v` reads a rational list as a point of
`EuclideanSpace ℝ (Fin m)`, `facets m W` is the list of rows of the rational matrix `W` there, and the
checkers `alphaLo`, `alphaHi`, `d1Hi`, `d1Lo`, `ustarCert` of `Model/ConeConst.lean` are exactly the
functions the driver evaluates on the certificates proposed by the harness.

`coneBeta` is the `RealLike` term mirroring `ConeTheta2D.beta` (run at `Float` by the driver).
-/
namespace VOPy.C17
open VOPy VOPy.ConeConst
open scoped RealInnerProductSpace
open Real

variable {E : Type*} [NormedAddCommGroup E] [InnerProductSpace ℝ E]

/-! ### weak duality -/

/-- **Weak duality for α.**  For every `x` of the cone with `‖x‖ ≤ 1` and every non-negative
multiplier list `λ`: `⟪c, x⟫ ≤ ‖c + Σ λ_i w_i‖` (with `c = w_n`: `w_n·x ≤ ‖w_n + Wᵀλ‖`). -/
theorem alpha_weak_duality (ws : List E) (c x : E) (lam : List ℝ)
    (hx : ∀ w ∈ ws, 0 ≤ ⟪w, x⟫) (hn : ‖x‖ ≤ 1) (hl : ∀ l ∈ lam, 0 ≤ l) :
    ⟪c, x⟫ ≤ ‖c + comb lam ws‖ :=
  ConeConst.alpha_weak_duality ws c x lam hx hn hl

/-- **Weak duality for d₁.**  For every feasible `z` (`⟪w, z⟫ ≥ 1` on every facet) and every
non-negative multiplier list (at most one multiplier per facet): `Σλ ≤ ‖z‖ · ‖Σ λ_i w_i‖`. -/
theorem d1_weak_duality (ws : List E) (z : E) (lam : List ℝ)
    (hz : ∀ w ∈ ws, 1 ≤ ⟪w, z⟫) (hl : ∀ l ∈ lam, 0 ≤ l) (hlen : lam.length ≤ ws.length) :
    lam.sum ≤ ‖z‖ * ‖comb lam ws‖ :=
  ConeConst.d1_weak_duality ws z lam hz hl hlen

/-! ### α and d₁ are the optima; certified intervals -/

/-- **α is the optimum it is defined as**: the least upper bound of `⟪c, x⟫` over the unit-ball
part of the cone (the set of values is non-empty and bounded, so the supremum is a genuine one),
and any primal/dual certificate pair encloses it: `⟪c, x⟫ ≤ α ≤ ‖c + Σ λ_i w_i‖`. -/
theorem alpha_certified_interval (ws : List E) (c x : E) (lam : List ℝ)
    (hx : InCone ws x) (hn : ‖x‖ ≤ 1) (hl : NonnegL lam) :
    IsLUB (alphaSet ws c) (alpha ws c) ∧
    ⟪c, x⟫ ≤ alpha ws c ∧ alpha ws c ≤ ‖c + comb lam ws‖ :=
  ⟨isLUB_alpha ws c, le_alpha ws c x hx hn, alpha_le ws c lam hl⟩

/-- **α is a maximum.**  In finite dimension (in particular in `ℝ^m`) the supremum is attained: there
is a point of the cone in the unit ball whose `c`-value is `α` and dominates that of every other such
point — "α_n equals the maximum of the n-th facet functional over unit-norm vectors of the cone". -/
theorem alpha_is_maximum [FiniteDimensional ℝ E] (ws : List E) (c : E) :
    ∃ x, InCone ws x ∧ ‖x‖ ≤ 1 ∧ ⟪c, x⟫ = alpha ws c ∧
      ∀ y, InCone ws y → ‖y‖ ≤ 1 → ⟪c, y⟫ ≤ ⟪c, x⟫ := by
  obtain ⟨x, hx, hn, he⟩ := alpha_attained ws c
  exact ⟨x, hx, hn, he, fun y hy hyn => he ▸ le_alpha ws c y hy hyn⟩

/-- **d₁ is the optimum it is defined as**: for a feasible problem with minimum-norm point `z*`,
`d₁ = ‖z*‖`, and any primal/dual certificate pair with `Σ λ_i w_i ≠ 0` encloses it:
`Σλ / ‖Σ λ_i w_i‖ ≤ d₁ ≤ ‖z‖`. -/
theorem d1_certified_interval (ws : List E) (z : E) (lam : List ℝ)
    (hz : Feas1 ws z) (hl : NonnegL lam) (hlen : lam.length ≤ ws.length)
    (hq : 0 < ‖comb lam ws‖) :
    lam.sum / ‖comb lam ws‖ ≤ d1 ws ∧ d1 ws ≤ ‖z‖ ∧
    ∀ zs, IsMinNorm ws zs → d1 ws = ‖zs‖ := by
  refine ⟨?_, d1_le ws z hz, fun zs h => d1_eq_of_isMinNorm ws zs h⟩
  refine le_d1 ws _ ⟨z, hz⟩ (fun z' hz' => ?_)
  have := ConeConst.d1_weak_duality ws z' lam hz' hl hlen
  rw [div_le_iff₀ hq]
  exact this

/-! ### the minimum-norm point and u* -/

/-- **Strong-convexity stability.**  If `z*` is the minimum-norm feasible point, every feasible
`z` satisfies `‖z − z*‖² ≤ ‖z‖² − ‖z*‖²` — so a feasible point whose norm is within `ε` of optimal
lies within `√(2‖z‖ε)` of `z*`, which pins down `u* = z*/‖z*‖`. -/
theorem minNorm_stability (ws : List E) (zs z : E)
    (hs : Feas1 ws zs ∧ ∀ z', Feas1 ws z' → ‖zs‖ ≤ ‖z'‖) (hz : Feas1 ws z) :
    ‖z - zs‖ ^ 2 ≤ ‖z‖ ^ 2 - ‖zs‖ ^ 2 :=
  ConeConst.minNorm_stability ws zs z hs hz

/-- **Existence and uniqueness of `z*`** in a complete space (e.g. `ℝ^m`): a feasible `d₁` problem
has exactly one minimum-norm point, so `u*` and `d₁` are well defined. -/
theorem minNorm_exists_unique [CompleteSpace E] (ws : List E) (hf : ∃ z, Feas1 ws z) :
    ∃ zs, IsMinNorm ws zs ∧ ∀ z', IsMinNorm ws z' → z' = zs := by
  obtain ⟨zs, hzs⟩ := exists_isMinNorm ws hf
  exact ⟨zs, hzs, fun z' hz' => minNorm_unique ws z' zs hz' hzs⟩

/-- **`u* ∈ C`.**  For a cone with at least one facet, `u* = z*/‖z*‖` is a unit vector and lies in
the cone — indeed strictly inside: `⟪w, u*⟫ ≥ 1/‖z*‖ = 1/d₁ > 0` on every facet. -/
theorem ustar_in_cone (ws : List E) (zs : E) (hs : IsMinNorm ws zs) (hne : ws ≠ []) :
    ‖(1 / ‖zs‖) • zs‖ = 1 ∧ InCone ws ((1 / ‖zs‖) • zs) ∧
      ∀ w ∈ ws, 1 / ‖zs‖ ≤ ⟪w, (1 / ‖zs‖) • zs⟫ :=
  ustar_mem_cone ws zs hs hne

/-- **A near-optimal certified point pins down `u*`.**  With a feasible `z`, multipliers `λ ≥ 0`
(`Σ λ_i w_i ≠ 0`), the dual value `D² = (Σλ)²/‖Σ λ_i w_i‖²`, numbers `g ≥ 0`, `g² ≥ ‖z‖² − D²`,
`0 < lo`, `lo² ≤ D²`, and any non-zero point `zc` with `‖zc − z‖ ≤ e`: the minimum-norm point `z*`
satisfies `lo ≤ ‖z*‖`, `‖z − z*‖ ≤ g`, and the unit directions of `zc` and `z*` differ by at most
`2(e + g)/lo`. -/
theorem ustar_pinned (ws : List E) (z zs zc : E) (lam : List ℝ) (e g lo : ℝ)
    (hz : Feas1 ws z) (hl : NonnegL lam) (hlen : lam.length ≤ ws.length)
    (hq : 0 < ‖comb lam ws‖) (hs : IsMinNorm ws zs) (hc : zc ≠ 0)
    (he : ‖zc - z‖ ≤ e) (hg0 : 0 ≤ g)
    (hg : ‖z‖ ^ 2 - lam.sum ^ 2 / ‖comb lam ws‖ ^ 2 ≤ g ^ 2)
    (hlo0 : 0 < lo) (hlo : lo ^ 2 ≤ lam.sum ^ 2 / ‖comb lam ws‖ ^ 2) :
    lo ≤ ‖zs‖ ∧ ‖z - zs‖ ≤ g ∧
      ‖(1 / ‖zc‖) • zc - (1 / ‖zs‖) • zs‖ ≤ 2 * (e + g) / lo :=
  ustar_certificate ws z zs zc lam e g lo hz hl hlen hq hs hc he hg0 hg hlo0 hlo

/-! ### the 2-D θ-cone: α and β in closed form -/

/-- **α of the 2-D θ-cone.**  For unit normals `w₁, w₂` with `⟪w₁, w₂⟫ = −cos θ` and every
`θ ∈ (0, π)`: `α₁ = α₂ = sin θ` if `θ ≤ π/2` and `= 1` if `θ ≥ π/2` (explicit primal/dual witnesses:
`x = (w₁ + cos θ·w₂)/sin θ`, `λ = (0, cos θ)`, resp. `x = w₁`, `λ = 0`). -/
theorem alpha_theta2D (w1 w2 : E) (θ : ℝ) (h1 : ‖w1‖ = 1) (h2 : ‖w2‖ = 1)
    (h12 : ⟪w1, w2⟫ = -cos θ) (h0 : 0 < θ) (hπ : θ < π) :
    alpha [w1, w2] w1 = (if θ ≤ π / 2 then sin θ else 1) ∧
    alpha [w1, w2] w2 = (if θ ≤ π / 2 then sin θ else 1) :=
  alpha_theta w1 w2 θ h1 h2 h12 h0 hπ

/-- the supremum defining α of the θ-cone is attained (it is a maximum) -/
theorem alpha_theta2D_attained (w1 w2 : E) (θ : ℝ) (h1 : ‖w1‖ = 1) (h2 : ‖w2‖ = 1)
    (h12 : ⟪w1, w2⟫ = -cos θ) (h0 : 0 < θ) (hπ : θ < π) :
    IsGreatest (alphaSet [w1, w2] w1) (if θ ≤ π / 2 then sin θ else 1) := by
  by_cases hle : θ ≤ π / 2
  · rw [if_pos hle]; exact (alpha_theta_acute w1 w2 θ h1 h2 h12 h0 hle).2
  · rw [if_neg hle]
    exact (alpha_theta_obtuse w1 w2 θ h1 h12 (le_of_lt (not_le.mp hle)) hπ).2

/-- **β of the 2-D θ-cone.**  The `RealLike` term `coneBeta` (the one the driver evaluates at `Float`
against `ConeTheta2D.beta`), at `ℝ` and for every opening angle `deg ∈ (0°, 180°)`, equals `1/sin θ`
for acute and `1` for right or obtuse cones (`θ = deg/180·π`), and it is the reciprocal of `α₁` and of
`α₂` of the cone with unit normals at `⟪w₁, w₂⟫ = −cos θ`. -/
theorem beta_theta2D (w1 w2 : E) (deg : ℝ) (hd0 : 0 < deg) (hd1 : deg < 180) (h1 : ‖w1‖ = 1)
    (h2 : ‖w2‖ = 1) (h12 : ⟪w1, w2⟫ = -cos (deg / 180 * π)) :
    coneBeta deg = (if deg < 90 then 1 / sin (deg / 180 * π) else 1) ∧
    coneBeta deg = 1 / alpha [w1, w2] w1 ∧ coneBeta deg = 1 / alpha [w1, w2] w2 :=
  coneBeta_eq w1 w2 deg hd0 hd1 h1 h2 h12

/-- **The cone of `get_2d_w`.**  The closed form of `get_2d_w(deg)` (proved equal to the `RealLike` term
mirroring the code in C12: rows `(−sin(π/4 − θ/2), cos(π/4 − θ/2))`, `(sin(π/4 + θ/2), −cos(π/4 + θ/2))`,
`θ = deg/180·π`) consists of unit normals of `ℝ²` with inner product `−cos θ`; hence for every
`deg ∈ (0°, 180°)` its `α₁ = α₂` is `sin θ` (`deg ≤ 90`) resp. `1`, and `coneBeta deg = 1/α`. -/
theorem alpha_beta_get2dW_closed (deg : ℝ) (hd0 : 0 < deg) (hd1 : deg < 180) :
    let θ := deg / 180 * π
    let w1 : EuclideanSpace ℝ (Fin 2) := !₂[-sin (π / 4 - θ / 2), cos (π / 4 - θ / 2)]
    let w2 : EuclideanSpace ℝ (Fin 2) := !₂[sin (π / 4 + θ / 2), -cos (π / 4 + θ / 2)]
    alpha [w1, w2] w1 = (if θ ≤ π / 2 then sin θ else 1) ∧
    alpha [w1, w2] w2 = (if θ ≤ π / 2 then sin θ else 1) ∧
    coneBeta deg = 1 / alpha [w1, w2] w1 ∧ coneBeta deg = 1 / alpha [w1, w2] w2 := by
  intro θ w1 w2
  have hp := pi_pos
  have h0 : 0 < θ := by positivity
  have hπ : θ < π := by
    have : deg / 180 * π < 180 / 180 * π := mul_lt_mul_of_pos_right (by linarith) hp
    simpa using this
  have h1 : ‖w1‖ = 1 := by
    rw [EuclideanSpace.norm_eq, Real.sqrt_eq_one]
    simp [w1, Fin.sum_univ_two]
  have h2 : ‖w2‖ = 1 := by
    rw [EuclideanSpace.norm_eq, Real.sqrt_eq_one]
    simp [w2, Fin.sum_univ_two]
  have h12 : ⟪w1, w2⟫ = -cos θ := by
    have hc : cos θ = cos ((π / 4 + θ / 2) - (π / 4 - θ / 2)) := by congr 1; ring
    rw [hc, cos_sub]
    simp [w1, w2, EuclideanSpace.inner_toLp_toLp, dotProduct, Fin.sum_univ_two]
  obtain ⟨a1, a2⟩ := alpha_theta w1 w2 θ h1 h2 h12 h0 hπ
  obtain ⟨_, b1, b2⟩ := coneBeta_eq w1 w2 deg hd0 hd1 h1 h2 h12
  exact ⟨a1, a2, b1, b2⟩

/-- non-vacuity: for every angle there are unit vectors of `ℝ²` with `⟪w₁, w₂⟫ = −cos θ` -/
example (θ : ℝ) : ∃ w1 w2 : EuclideanSpace ℝ (Fin 2),
    ‖w1‖ = 1 ∧ ‖w2‖ = 1 ∧ ⟪w1, w2⟫ = -cos θ := by
  refine ⟨!₂[1, 0], !₂[-cos θ, sin θ], ?_, ?_, ?_⟩
  · simp [EuclideanSpace.norm_eq, Fin.sum_univ_two]
  · rw [EuclideanSpace.norm_eq, Real.sqrt_eq_one]
    simp [Fin.sum_univ_two]
  · simp [EuclideanSpace.inner_toLp_toLp, dotProduct, Fin.sum_univ_two]

/-! ### soundness of the certificate checkers the driver runs -/

/-- **Checker soundness, α.**  If the driver's `alphaLo W n x` answers `lo` and `alphaHi W n λ` answers
`hi` (rational proposals `x`, `λ` from the harness), then row `n` exists and the *real* optimum
`α_n = sup {w_n·x | Wx ≥ 0, ‖x‖ ≤ 1}` over `ℝ^m` lies in `[lo, hi]`. -/
theorem alpha_checker_sound (W : Mat) (n : ℕ) (x lam : Vec) (lo hi : Rat)
    (hlo : alphaLo W n x = some lo) (hhi : alphaHi W n lam = some hi) :
    ∃ wn, W[n]? = some wn ∧
      ((lo : ℚ) : ℝ) ≤ alpha (facets (dimOf W) W) (toE (dimOf W) wn) ∧
      alpha (facets (dimOf W) W) (toE (dimOf W) wn) ≤ ((hi : ℚ) : ℝ) := by
  obtain ⟨wn, hw, h1⟩ := alphaLo_sound W n x lo hlo
  obtain ⟨wn', hw', h2⟩ := alphaHi_sound W n lam hi hhi
  rw [hw] at hw'
  obtain rfl : wn = wn' := Option.some.inj hw'
  exact ⟨wn, hw, h1, h2⟩

/-- **Checker soundness, d₁.**  If `d1Hi W z` answers `hi` and `d1Lo W λ` answers `lo`, the real
problem `min {‖z‖ | Wz ≥ 𝟙}` over `ℝ^m` is feasible and its optimal value `d₁` lies in `[lo, hi]`. -/
theorem d1_checker_sound (W : Mat) (z lam : Vec) (lo hi : Rat)
    (hhi : d1Hi W z = some hi) (hlo : d1Lo W lam = some lo) :
    (∃ z', Feas1 (facets (dimOf W) W) z') ∧
      ((lo : ℚ) : ℝ) ≤ d1 (facets (dimOf W) W) ∧ d1 (facets (dimOf W) W) ≤ ((hi : ℚ) : ℝ) := by
  obtain ⟨hf, h2⟩ := d1Hi_sound W z hi hhi
  exact ⟨⟨_, hf⟩, le_d1 _ _ ⟨_, hf⟩ (fun z' hz' => d1Lo_sound W lam lo hlo z' hz'), h2⟩

/-- **Checker soundness, u\*.**  If `ustarCert W u d z λ` answers `c = (g, e, lo)` for the
implementation's output `(u, d)`, then for the minimum-norm point `z*` of the real problem over `ℝ^m`
(it exists and is unique): `lo ≤ ‖z*‖ = d₁`, the proposal `z` is within `g` of `z*`, and the unit
direction of `u` is within `dirBound c = 2(e+g)/lo` of `u* = z*/‖z*‖`. -/
theorem ustar_checker_sound (W : Mat) (u : Vec) (d : Rat) (z lam : Vec) (c : Rat × Rat × Rat)
    (h : ustarCert W u d z lam = some c) :
    ∃ zs : EuclideanSpace ℝ (Fin (dimOf W)), IsMinNorm (facets (dimOf W) W) zs ∧
      d1 (facets (dimOf W) W) = ‖zs‖ ∧ ((c.2.2 : ℚ) : ℝ) ≤ ‖zs‖ ∧
      ‖toE (dimOf W) z - zs‖ ≤ ((c.1 : ℚ) : ℝ) ∧
      ‖(1 / ‖toE (dimOf W) u‖) • toE (dimOf W) u - (1 / ‖zs‖) • zs‖ ≤ ((dirBound c : ℚ) : ℝ) := by
  have hfeas : ∃ z', Feas1 (facets (dimOf W) W) z' :=
    ⟨toE (dimOf W) z, ustarCert_feasible W u d z lam c h⟩
  obtain ⟨zs, hzs⟩ := exists_isMinNorm _ hfeas
  obtain ⟨h1, h2, h3⟩ := ustarCert_sound W u d z lam c h zs hzs
  exact ⟨zs, hzs, d1_eq_of_isMinNorm _ zs hzs, h1, h2, h3⟩

/-- non-vacuity of the checkers: the orthant in `ℝ²` — `α₁ ∈ [1, 1 + 2⁻¹⁰⁰]` from `x = e₁`, `λ = 0`;
`d₁ ≤ ‖(1,1)‖` from `z = (1,1)` -/
example : alphaLo [[1, 0], [0, 1]] 0 [1, 0] = some 1 := by decide +kernel
example : (alphaHi [[1, 0], [0, 1]] 0 [0, 0]).isSome = true := by decide +kernel
example : (d1Hi [[1, 0], [0, 1]] [1, 1]).isSome = true := by decide +kernel
example : (d1Lo [[1, 0], [0, 1]] [1, 1]).isSome = true := by decide +kernel
/-- an infeasible proposal is rejected -/
example : alphaLo [[1, 0], [0, 1]] 0 [1, -1] = none := by decide +kernel

/-- the `u*` certificate accepts a feasible/dual pair for the orthant and rejects an infeasible `z` -/
example : (ustarCert [[1, 0], [0, 1]] [3/5, 4/5] 2 [1, 1] [1, 1]).isSome = true := by decide +kernel
example : ustarCert [[1, 0], [0, 1]] [3/5, 4/5] 2 [1, 1/2] [1, 1] = none := by decide +kernel

end VOPy.C17
