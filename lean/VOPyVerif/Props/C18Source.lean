import VOPyVerif.Props.C18
import VOPyVerif.Proofs.GenAgreeC18
/-!
# C18 — SOURCE AGREEMENT obligations (second tie between model and code, DESIGN §2.10)

Property theorems only, same namespace `VOPy.C18` as `Props/C18.lean` (whose theorems are about the
hand-written model and do not depend on anything generated).  The theorems here say that the model's
definitions are the ones regenerated from the current Python source text (`Gen/C18.lean`, written by
`harness/translate*.py` on every `./check C18`; agreement lemmas in `Proofs/GenAgreeC18.lean`).  They live in
their own module so that a source edit the translator reads differently (or cannot read) makes exactly the
affected obligations fail — `harness/leanbuild.py` builds this module separately and, if it does not build,
attributes the failure per theorem — while the model theorems of `Props/C18.lean` stay discharged.
-/
namespace VOPy.C18
open VOPy VOPy.Adaptive

/-! ## SOURCE AGREEMENT — the `Vh` and `compute_beta` terms are the terms read off the Python source

Second tie between model and code (DESIGN §2.10), beside the numeric comparison at `Float`:
`harness/translate.py` regenerates `Gen/C18.lean` from the *source text* of
`AdaptivelyDiscretizedDesignSpace.calculate_design_vh` (`vopy/design_space.py`) and
`VOGP_AD.compute_beta` (`vopy/algorithms/vogp_ad.py`) on every `./check C18` (Python `ast`; the
locals `rho`, `alpha`, `N`, `diam_x`, `v1`, `Cki`, `C1…C3`, `term1…term4`, `rkhs_bound`, `beta_sqr`
inlined; integer sub-expressions kept integral; nothing executed), and the theorems below are
re-checked against the regenerated file.  Level: **polymorphic** (`∀ α [RealLike α] [LeB α]`), all
by `rfl` (`Proofs/GenAgreeC18.lean`; per-local agreements `gen_cki_eq … gen_term4_eq` there localise
a break).  Inputs of the generated terms: `depth = point_depths[design_index] + depth_offset`,
`ls = lengthscales[i]`, `var = variances[i]`, `det = np.linalg.det(Kn + np.eye(len(Kn)))`. -/

section SourceAgreement
variable {α : Type} [RealLike α]

/-- One entry `Vh[i]` of `calculate_design_vh` as written in the source, every local inlined =
`Vh.vhEntry` (polymorphic, `rfl`). -/
theorem source_vhEntry [LeB α] (d m : Nat) (δ : α) (depth : Int) (ls var : α) :
    Gen.C18.gen_vhEntry d m δ depth ls var = Vh.vhEntry d m δ depth ls var :=
  GenAgree.C18.gen_vhEntry_eq d m δ depth ls var

/-- The locals of `calculate_design_vh` the model names, as written in the source = the model's
sub-terms (polymorphic, `rfl`): `Cki`, `term1`, `C1`, `C2`, `C3`, `term2`, `term3`, `term4`. -/
theorem source_vh_locals [LeB α] (d m : Nat) (δ : α) (depth : Int) (ls var : α) :
    Gen.C18.gen_cki ls var = Vh.cki ls var ∧
    Gen.C18.gen_term1 d depth ls var = Vh.term1 d depth ls var ∧
    Gen.C18.gen_c1 d ls var = Vh.c1 d ls var ∧
    Gen.C18.gen_c2 d ls var = Vh.c2 d ls var ∧
    (Gen.C18.gen_c3 d : α) = Vh.c3 d ∧
    Gen.C18.gen_term2 m depth δ = Vh.term2 m depth δ ∧
    (Gen.C18.gen_term3 depth : α) = Vh.term3 depth ∧
    Gen.C18.gen_term4 d depth ls var = Vh.term4 d depth ls var :=
  ⟨GenAgree.C18.gen_cki_eq ls var, GenAgree.C18.gen_term1_eq d depth ls var,
    GenAgree.C18.gen_c1_eq d ls var, GenAgree.C18.gen_c2_eq d ls var, GenAgree.C18.gen_c3_eq d,
    GenAgree.C18.gen_term2_eq m depth δ, GenAgree.C18.gen_term3_eq depth,
    GenAgree.C18.gen_term4_eq d depth ls var⟩

/-- `VOGP_AD.compute_beta` as written in the source = `Vh.vogpAdBeta` (polymorphic, `rfl`). -/
theorem source_vogpAdBeta (noiseVar δ det c : α) :
    Gen.C18.gen_vogpAdBeta noiseVar δ det c = Vh.vogpAdBeta noiseVar δ det c :=
  GenAgree.C18.gen_vogpAdBeta_eq noiseVar δ det c

end SourceAgreement

/-- `vh_closed_form` and the closed form of `compute_beta` for the source-derived terms: the
expressions `design_space.py` / `vogp_ad.py` compute, at `ℝ`, are the stated closed forms. -/
theorem source_closed_forms (d m : Nat) (δ : ℝ) (depth : Int) (ls var nv det : ℝ) {c : ℝ}
    (hc : 0 < c) :
    let Cki := Real.sqrt var / ls
    let T := Cki * (1 / 2 * Real.sqrt d * (1 / 2 : ℝ) ^ depth)
    let C1 := ((Real.sqrt d + 1) * Real.sqrt d / 2) ^ d * Cki
    let C2 := 2 * Real.log (2 * C1 ^ 2 * Real.pi ^ 2 / 6)
    let C3 := 1 + 27 / 10 * Real.sqrt ((2 * d : ℕ) * Real.log 2)
    let t2 := Real.log (2 * ((depth : ℝ) + 1) ^ 2 * Real.pi ^ 2 * m / (6 * δ))
    let t3 := (depth : ℝ) * Real.log 4
    let t4 := max 0 (-(4 * (d : ℝ)) * Real.log T)
    (Gen.C18.gen_vhEntry d m δ depth ls var : ℝ) = 4 * T * (Real.sqrt (C2 + 2 * t2 + t3 + t4) + C3) ∧
    Gen.C18.gen_vogpAdBeta nv δ det c =
        (1 / 10 + Real.sqrt (nv * Real.log (det / nv) - 2 * Real.log δ)) / Real.sqrt c := by
  intro Cki T C1 C2 C3 t2 t3 t4
  rw [source_vhEntry, source_vogpAdBeta]
  exact ⟨vh_closed_form d m δ depth ls var, (vogpAdBeta_closed_form nv δ det hc).1⟩

end VOPy.C18
