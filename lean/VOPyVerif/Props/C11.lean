import VOPyVerif.Proofs.PessimisticOrthant
import VOPyVerif.Proofs.InvPess
/-!
# C11 — pessimistic rectangle comparison is sound, and complete for two-facet 2-D cones

Property theorems only.  They are about `Pess.checkDominates` / `Pess.pessimisticSet`
(`Model/Pessimistic.lean`), the exact-arithmetic instance (`rnd = id`, `snap = false`) of the
literal mirror of `RectangularConfidenceRegion.check_dominates` → `is_pt_in_extended_polytope` →
`line_seg_pt_intersect_at_dim` and of `compute_pessimistic_set`; the driver executes these very
definitions (`cd`, `pess`) and their binary64 instance (`cdf`, `pessf`).

Semantic side (`Proofs/PessimisticSpec.lean`): `PessDom W R₁ R₂` :=
`∀ x ∈ box R₁ ⊂ ℝᵐ, ∃ y ∈ box R₂, ∀ rows w of W, w·(x − y) ≥ 0`; `PessDomQ` is the same over rational
points in the model's own vocabulary (`dominates W x y = true`).  A region is `(lower, upper)`.

Floating point is *not* covered by the completeness theorems: in binary64 the edge path of the
original code could miss (the intersection's own coordinate rounds one ulp above the target) —
finding `complete2x2-float-rounding` of the correspondence harness, repaired in /repo (commit
2e45ea6) by snapping that coordinate; `snap_irrelevant_exact` shows the repair changes nothing in
exact arithmetic.
-/
namespace VOPy.C11
open VOPy VOPy.Pess

/-- **Soundness, every cone and dimension (rational points).**  For every cone matrix `W` (any
number of facets; rows of any length — the model's truncating `dot` is used on both sides), every
rectangle `R₁ = [l1,u1]` and every non-empty rectangle `R₂ = [l2,u2]` (`l2 ≤ u2`, as the
constructor of `RectangularConfidenceRegion` enforces) of the same dimension: if the model of
`check_dominates` answers `true`, then every rational point `x` of `R₁` dominates some point `y`
of `R₂` in the cone order (`dominates W x y`, i.e. `W (x − y) ≥ 0`). -/
theorem checkDominates_sound (W : Mat) (l1 u1 l2 u2 : Vec)
    (hl1 : l1.length = l2.length) (hu1 : u1.length = l2.length)
    (h2 : List.Forall₂ (· ≤ ·) l2 u2)
    (h : checkDominates W l1 u1 l2 u2 = true) :
    PessDomQ W (l1, u1) (l2, u2) := by
  intro x hx
  have hv := checkDominates_vertex W l1 u1 l2 u2 h2 h
  have hgood : ∀ v ∈ gvertices l1 u1, Good (W.map (fun w => (w, (0 : Rat)))) l2 u2 v := by
    intro v hv'
    rw [gvertices_eq_vertices] at hv'
    obtain ⟨y, hy, hd⟩ := hv v hv'
    refine ⟨(vertices_length l1 u1 (hl1.trans hu1.symm) v hv').trans hl1, y, hy, ?_⟩
    intro p hp
    simp only [List.mem_map] at hp
    obtain ⟨w, hw, rfl⟩ := hp
    have := hd w hw
    simp only [gdot_eq_dot]
    linarith
  obtain ⟨hlen, y, hy, hd⟩ := good_of_vertices _ l1 u1 l2 u2 hgood x hx
  refine ⟨y, hy, ?_⟩
  rw [dominates_iff W x y (hlen.trans (GInBox.length_eq hy).1.symm)]
  intro w hw
  have := hd (w, 0) (List.mem_map.mpr ⟨w, hw, rfl⟩)
  simp only [gdot_eq_dot] at this
  linarith

/-- **Soundness over the reals, every cone and dimension.**  Same hypotheses; the boxes are the
real boxes with the given (rational, e.g. binary64) bounds: a `true` answer implies that every real
point `x ∈ R₁` has a real `y ∈ R₂` with `w · (x − y) ≥ 0` for every facet row `w` of `W`.  (Every
reported point is a point of a segment between images of two vertices of `R₂`, and `R₂ + C` is
convex, so the vertices of `R₁` suffice.) -/
theorem checkDominates_sound_real (W : Mat) (l1 u1 l2 u2 : Vec)
    (hl1 : l1.length = l2.length) (hu1 : u1.length = l2.length)
    (h2 : List.Forall₂ (· ≤ ·) l2 u2)
    (h : checkDominates W l1 u1 l2 u2 = true) :
    PessDom W (l1, u1) (l2, u2) := by
  intro x hx
  have hv := checkDominates_vertex W l1 u1 l2 u2 h2 h
  have hgood : ∀ v ∈ gvertices (castV l1 : List ℝ) (castV u1),
      Good (W.map (fun w => ((castV w : List ℝ), (0 : ℝ)))) (castV l2) (castV u2) v := by
    intro v hv'
    rw [gvertices_castV, List.mem_map] at hv'
    obtain ⟨v0, hv0, rfl⟩ := hv'
    rw [gvertices_eq_vertices] at hv0
    obtain ⟨y, hy, hd⟩ := hv v0 hv0
    refine ⟨by simp [vertices_length l1 u1 (hl1.trans hu1.symm) v0 hv0, hl1], castV y,
      GInBox_castV hy, ?_⟩
    intro p hp
    simp only [List.mem_map] at hp
    obtain ⟨w, hw, rfl⟩ := hp
    have := hd w hw
    simp only [gdot_castV, gdot_eq_dot]
    have h' : ((dot w y : Rat) : ℝ) ≤ ((dot w v0 : Rat) : ℝ) := by exact_mod_cast this
    linarith
  obtain ⟨hlen, y, hy, hd⟩ := good_of_vertices _ _ _ _ _ hgood x hx
  refine ⟨y, hy, ?_⟩
  intro w hw
  rw [gdot_gsub _ x y (hlen.trans (GInBox.length_eq hy).1.symm)]
  exact hd (castV w, 0) (List.mem_map.mpr ⟨w, hw, rfl⟩)

/-- **Completeness for two-facet 2-D cones (real boxes), exact arithmetic.**  For
`W = [[a,b],[c,d]]` with `ad − bc ≠ 0` (any opening angle) and a non-empty `R₁` (`l1 ≤ u1`): if every
real point of `R₁` dominates some real point of `R₂`, the model of `check_dominates` answers `true`.
(Only the four vertices of `R₁` are used.  From a witness `y` one walks along `−W⁻¹(1,1)` to the
boundary of `R₂`, which lands on a segment between two vertices; the planar case analysis
`Pess.seg_hit` then exhibits a vertex hit or an edge hit of the pair loop.) -/
theorem checkDominates_complete_2x2 (a b c d : Rat) (hdet : a * d - b * c ≠ 0) (l1 u1 l2 u2 : Vec)
    (hl1 : l1.length = 2) (hu1 : u1.length = 2) (hl2 : l2.length = 2) (hu2 : u2.length = 2)
    (h1 : List.Forall₂ (· ≤ ·) l1 u1)
    (hsem : PessDom [[a, b], [c, d]] (l1, u1) (l2, u2)) :
    checkDominates [[a, b], [c, d]] l1 u1 l2 u2 = true := by
  apply checkDominates_complete_vertices (L := ℝ) a b c d hdet l1 u1 l2 u2 hl1 hu1 hl2 hu2
  intro x hx
  have hxbox : GInBox (castV l1 : List ℝ) (castV u1) (castV x) :=
    GInBox_castV (gvertices_in_box h1 x (by rw [gvertices_eq_vertices]; exact hx))
  obtain ⟨y, hy, hd⟩ := hsem (castV x) hxbox
  have hlen : (castV x : List ℝ).length = y.length := by
    rw [(GInBox.length_eq hy).1, castV_length, castV_length,
      vertices_length l1 u1 (hl1.trans hu1.symm) x hx, hl1, hl2]
  refine ⟨y, hy, ?_, ?_⟩
  · have := hd [a, b] (by simp)
    rw [gdot_gsub _ _ _ hlen] at this; linarith
  · have := hd [c, d] (by simp)
    rw [gdot_gsub _ _ _ hlen] at this; linarith

/-- **Completeness for two-facet 2-D cones, rational points.**  The same with the hypothesis over
rational points only, in the model's vocabulary. -/
theorem checkDominates_complete_2x2_rat (a b c d : Rat) (hdet : a * d - b * c ≠ 0)
    (l1 u1 l2 u2 : Vec)
    (hl1 : l1.length = 2) (hu1 : u1.length = 2) (hl2 : l2.length = 2) (hu2 : u2.length = 2)
    (h1 : List.Forall₂ (· ≤ ·) l1 u1)
    (hsem : PessDomQ [[a, b], [c, d]] (l1, u1) (l2, u2)) :
    checkDominates [[a, b], [c, d]] l1 u1 l2 u2 = true := by
  apply checkDominates_complete_vertices (L := Rat) a b c d hdet l1 u1 l2 u2 hl1 hu1 hl2 hu2
  intro x hx
  obtain ⟨y, hy, hd⟩ := hsem x (gvertices_in_box h1 x (by rw [gvertices_eq_vertices]; exact hx))
  have hlen : x.length = y.length := by
    rw [(GInBox.length_eq hy).1, vertices_length l1 u1 (hl1.trans hu1.symm) x hx, hl1, hl2]
  rw [dominates_iff _ x y hlen] at hd
  refine ⟨y, ?_, ?_, ?_⟩ <;> simp only [castV_rat]
  · exact hy
  · simpa only [gdot_eq_dot] using hd [a, b] (by simp)
  · simpa only [gdot_eq_dot] using hd [c, d] (by simp)

/-- **The comparison is exact for 2×2 cones.**  For an invertible 2×2 cone matrix and non-empty
2-D rectangles, the model's answer is `true` *iff* every real point of `R₁` dominates some real
point of `R₂`. -/
theorem checkDominates_iff_2x2 (a b c d : Rat) (hdet : a * d - b * c ≠ 0) (R1 R2 : Region)
    (h1 : R1.WF 2) (h2 : R2.WF 2) :
    checkDominates [[a, b], [c, d]] R1.1 R1.2 R2.1 R2.2 = true ↔ PessDom [[a, b], [c, d]] R1 R2 :=
  ⟨fun h => checkDominates_sound_real _ _ _ _ _ (h1.1.trans h2.1.symm) (h1.2.1.trans h2.1.symm) h2.2.2 h,
   fun h => checkDominates_complete_2x2 a b c d hdet _ _ _ _ h1.1 h1.2.1 h2.1 h2.2.1 h1.2.2 h⟩

/-- **Completeness for every 2-D polyhedral cone, any number of facets, exact arithmetic.**  For
any facet list `W` with rows of length 2 (`N = 1, 2, 3, …` facets, redundant or dependent rows
allowed) whose cone `{z | W z ≥ 0}` contains a non-zero vector `g`, and a non-empty `R₁`: if every
real point of `R₁` dominates some real point of `R₂`, the model of `check_dominates` answers `true`.
(The pair loop of `is_pt_in_extended_polytope` runs over *all* pairs of transformed vertices, so
the planar argument needs no structure of `W`: slide the witness along `−g` onto an edge of `R₂`,
then walk along the transformed edge to the first tight coordinate, `Pess.seg_hitN`.)  The property
only asks for the two-facet case; in three dimensions the routine is *not* complete, see the
counterexample below. -/
theorem checkDominates_complete_2d (W : Mat) (hW : ∀ w ∈ W, w.length = 2)
    (g0 g1 : Rat) (hg : g0 ≠ 0 ∨ g1 ≠ 0) (hgC : ∀ w ∈ W, 0 ≤ dot w [g0, g1])
    (l1 u1 l2 u2 : Vec)
    (hl1 : l1.length = 2) (hu1 : u1.length = 2) (hl2 : l2.length = 2) (hu2 : u2.length = 2)
    (h1 : List.Forall₂ (· ≤ ·) l1 u1)
    (hsem : PessDom W (l1, u1) (l2, u2)) :
    checkDominates W l1 u1 l2 u2 = true := by
  apply checkDominates_complete_vertices_2d (L := ℝ) W hW g0 g1 hg hgC l1 u1 l2 u2 hl1 hu1 hl2 hu2
  intro x hx
  have hxbox : GInBox (castV l1 : List ℝ) (castV u1) (castV x) :=
    GInBox_castV (gvertices_in_box h1 x (by rw [gvertices_eq_vertices]; exact hx))
  obtain ⟨y, hy, hd⟩ := hsem (castV x) hxbox
  have hlen : (castV x : List ℝ).length = y.length := by
    rw [(GInBox.length_eq hy).1, castV_length, castV_length,
      vertices_length l1 u1 (hl1.trans hu1.symm) x hx, hl1, hl2]
  refine ⟨y, hy, ?_⟩
  intro w hw
  have := hd w hw
  rw [gdot_gsub _ _ _ hlen, gdot_castV, gdot_eq_dot] at this
  linarith

/-- **Exactness for every 2-D cone.**  Under the hypotheses of `checkDominates_complete_2d` and
well-formed 2-D regions, the model's answer is `true` iff the real-box relation holds. -/
theorem checkDominates_iff_2d (W : Mat) (hW : ∀ w ∈ W, w.length = 2)
    (g0 g1 : Rat) (hg : g0 ≠ 0 ∨ g1 ≠ 0) (hgC : ∀ w ∈ W, 0 ≤ dot w [g0, g1])
    (R1 R2 : Region) (h1 : R1.WF 2) (h2 : R2.WF 2) :
    checkDominates W R1.1 R1.2 R2.1 R2.2 = true ↔ PessDom W R1 R2 :=
  ⟨fun h => checkDominates_sound_real _ _ _ _ _ (h1.1.trans h2.1.symm) (h1.2.1.trans h2.1.symm) h2.2.2 h,
   fun h => checkDominates_complete_2d W hW g0 g1 hg hgC _ _ _ _ h1.1 h1.2.1 h2.1 h2.2.1 h1.2.2 h⟩

/-- **Completeness for the componentwise order in every dimension.**  For `W = I_m` (the cone of
`ComponentwiseOrder(m)`, multi-objective optimisation) and any `m`: if every real point of a
non-empty `R₁` dominates some real point of `R₂`, the model answers `true` — already by the vertex
test against `lower₂`. -/
theorem checkDominates_complete_orthant (m : Nat) (l1 u1 l2 u2 : Vec)
    (hl1 : l1.length = m) (hu1 : u1.length = m) (hl2 : l2.length = m) (hu2 : u2.length = m)
    (h1 : List.Forall₂ (· ≤ ·) l1 u1)
    (hsem : PessDom (identMat m) (l1, u1) (l2, u2)) :
    checkDominates (identMat m) l1 u1 l2 u2 = true := by
  apply checkDominates_complete_orthant_vertices (L := ℝ) m l1 u1 l2 u2 hl1 hu1 hl2 hu2
  intro x hx
  exact hsem (castV x)
    (GInBox_castV (gvertices_in_box h1 x (by rw [gvertices_eq_vertices]; exact hx)))

/-- **No completeness in three dimensions.**  For the strictly acute 3×3 cone
`W = [[3,-1,-1],[-1,3,-1],[-1,-1,3]]` (invertible), `R₂ = [0,1]³` and `R₁` the single point
`x = (0, 3/8, 1/4)` — which lies *in* `R₂`, so it dominates a point of `R₂`, namely itself — the model
of `check_dominates` answers `false`: `x` sits in the interior of a 2-face of `R₂`, and the routine
only ever looks at segments between pairs of vertices.  So the restriction of the completeness
theorems to 2-D cones cannot be dropped. -/
theorem checkDominates_incomplete_3d :
    PessDomQ [[3, -1, -1], [-1, 3, -1], [-1, -1, 3]] ([0, 3/8, 1/4], [0, 3/8, 1/4]) ([0, 0, 0], [1, 1, 1]) ∧
    checkDominates [[3, -1, -1], [-1, 3, -1], [-1, -1, 3]] [0, 3/8, 1/4] [0, 3/8, 1/4] [0, 0, 0] [1, 1, 1]
      = false := by
  refine ⟨?_, by decide +kernel⟩
  intro x hx
  have hlen := (GInBox.length_eq hx).1
  obtain ⟨x0, x1, x2, rfl⟩ := List.length_eq_three.mp hlen
  simp only [GInBox] at hx
  obtain ⟨a0, b0, a1, b1, a2, b2, _⟩ := hx
  have e0 : x0 = 0 := le_antisymm b0 a0
  have e1 : x1 = 3/8 := le_antisymm b1 a1
  have e2 : x2 = 1/4 := le_antisymm b2 a2
  subst e0 e1 e2
  refine ⟨[0, 3/8, 1/4], ?_, by decide +kernel⟩
  simp only [GInBox]
  norm_num

/-- **Pessimistic set, every cone: nothing undominated is lost.**  For any cone and well-formed
`m`-dimensional regions, every active design that no other active design pessimistically dominates
(in the real-box sense) is in the set computed by the model of `compute_pessimistic_set`; and the
computed set is a sub-list of the active list. -/
theorem pess_set_keeps_undominated (W : Mat) (m : Nat) (regions : List Region) (active : List Nat)
    (hvalid : ∀ i ∈ active, i < regions.length) (hwf : ∀ R ∈ regions, R.WF m) :
    (pessimisticSet W regions active).Sublist active ∧
    ∀ i, ∀ hi : i ∈ active,
      (¬ ∃ j, ∃ hj : j ∈ active, j ≠ i ∧
        PessDom W (regions[j]'(hvalid j hj)) (regions[i]'(hvalid i hi))) →
      i ∈ pessimisticSet W regions active := by
  refine ⟨List.filter_sublist, ?_⟩
  intro i hi hno
  rw [mem_pessimisticSet W regions active hvalid]
  refine ⟨hi, ?_⟩
  rintro ⟨j, hj, hne, hcd⟩
  have wj := hwf _ (List.getElem_mem (hvalid j hj))
  have wi := hwf _ (List.getElem_mem (hvalid i hi))
  exact hno ⟨j, hj, hne,
    checkDominates_sound_real W _ _ _ _ (wj.1.trans wi.1.symm) (wj.2.1.trans wi.1.symm) wi.2.2 hcd⟩

/-- **Pessimistic set, 2×2 cones: exact.**  For an invertible 2×2 cone matrix and well-formed 2-D
regions, the set computed by the model of `compute_pessimistic_set` is exactly the set of active
designs that no *other* active design pessimistically dominates:
`i ∈ Pess ↔ i active ∧ ¬∃ j ≠ i active, ∀ x ∈ R_j ∃ y ∈ R_i, x ≽ y`. -/
theorem pess_set_exact_2x2 (a b c d : Rat) (hdet : a * d - b * c ≠ 0)
    (regions : List Region) (active : List Nat)
    (hvalid : ∀ i ∈ active, i < regions.length) (hwf : ∀ R ∈ regions, R.WF 2) (i : Nat) :
    i ∈ pessimisticSet [[a, b], [c, d]] regions active ↔
      ∃ hi : i ∈ active, ¬ ∃ j, ∃ hj : j ∈ active, j ≠ i ∧
        PessDom [[a, b], [c, d]] (regions[j]'(hvalid j hj)) (regions[i]'(hvalid i hi)) := by
  rw [mem_pessimisticSet _ regions active hvalid]
  constructor
  · rintro ⟨hi, hno⟩
    refine ⟨hi, ?_⟩
    rintro ⟨j, hj, hne, hdom⟩
    exact hno ⟨j, hj, hne, (checkDominates_iff_2x2 a b c d hdet _ _
      (hwf _ (List.getElem_mem (hvalid j hj))) (hwf _ (List.getElem_mem (hvalid i hi)))).mpr hdom⟩
  · rintro ⟨hi, hno⟩
    refine ⟨hi, ?_⟩
    rintro ⟨j, hj, hne, hcd⟩
    exact hno ⟨j, hj, hne, (checkDominates_iff_2x2 a b c d hdet _ _
      (hwf _ (List.getElem_mem (hvalid j hj))) (hwf _ (List.getElem_mem (hvalid i hi)))).mp hcd⟩

/-- **Pessimistic set, every 2-D cone: exact.**  The same for any facet list with rows of length 2
whose cone contains a non-zero vector (any number of facets). -/
theorem pess_set_exact_2d (W : Mat) (hW : ∀ w ∈ W, w.length = 2)
    (g0 g1 : Rat) (hg : g0 ≠ 0 ∨ g1 ≠ 0) (hgC : ∀ w ∈ W, 0 ≤ dot w [g0, g1])
    (regions : List Region) (active : List Nat)
    (hvalid : ∀ i ∈ active, i < regions.length) (hwf : ∀ R ∈ regions, R.WF 2) (i : Nat) :
    i ∈ pessimisticSet W regions active ↔
      ∃ hi : i ∈ active, ¬ ∃ j, ∃ hj : j ∈ active, j ≠ i ∧
        PessDom W (regions[j]'(hvalid j hj)) (regions[i]'(hvalid i hi)) := by
  rw [mem_pessimisticSet _ regions active hvalid]
  constructor
  · rintro ⟨hi, hno⟩
    refine ⟨hi, ?_⟩
    rintro ⟨j, hj, hne, hdom⟩
    exact hno ⟨j, hj, hne, (checkDominates_iff_2d W hW g0 g1 hg hgC _ _
      (hwf _ (List.getElem_mem (hvalid j hj))) (hwf _ (List.getElem_mem (hvalid i hi)))).mpr hdom⟩
  · rintro ⟨hi, hno⟩
    refine ⟨hi, ?_⟩
    rintro ⟨j, hj, hne, hcd⟩
    exact hno ⟨j, hj, hne, (checkDominates_iff_2d W hW g0 g1 hg hgC _ _
      (hwf _ (List.getElem_mem (hvalid j hj))) (hwf _ (List.getElem_mem (hvalid i hi)))).mp hcd⟩

/-- **The repair of the rounding defect is invisible in exact arithmetic.**  The variant of the
model in which `line_seg_pt_intersect_at_dim` ends with
`point_on_line[target_dim] = target_pt[target_dim]` (`snap = true`, the suggested fix for finding
`complete2x2-float-rounding`) returns the same answers as the model of the code as it stands, so
all theorems above apply to both. -/
theorem snap_irrelevant_exact (W : Mat) (l1 u1 l2 u2 : Vec) (regions : List Region)
    (active : List Nat) :
    checkDominatesR exact true W l1 u1 l2 u2 = checkDominates W l1 u1 l2 u2 ∧
    pessimisticSetR exact true W regions active = pessimisticSet W regions active := by
  have h : ∀ l1 u1 l2 u2, checkDominatesR exact true W l1 u1 l2 u2 = checkDominates W l1 u1 l2 u2 := by
    intro l1 u1 l2 u2
    simp only [checkDominates, checkDominatesR, isPtIn_snap]
  refine ⟨h _ _ _ _, ?_⟩
  simp only [pessimisticSet, pessimisticSetR, h]

/-! ## the exact reference used by the correspondence harness (`ref` op of the driver) -/

/-- **Reference verdict `1` is certified.**  If `refDominates` answers `some true` (every vertex of
`R₁` has a *checked* witness), then every real point of `R₁` has a real point `y ∈ R₂` with
`w_i·x − w_i·y ≥ s_i` for every facet row, `s` being the vector of allowances (margins). -/
theorem refDominates_true_certified (W : Mat) (l1 u1 l2 u2 s : Vec)
    (hl1 : l1.length = l2.length) (hu1 : u1.length = l2.length)
    (h : refDominates W l1 u1 l2 u2 s = some true) :
    PessDomS W s (l1, u1) (l2, u2) := by
  have hall : ∀ x ∈ vertices l1 u1, refPoint W x l2 u2 s = some true := by
    unfold refDominates at h
    simp only at h
    split at h
    · simp at h
    · split at h
      · rename_i hall
        simp only [List.all_map, List.all_eq_true, Function.comp, beq_iff_eq] at hall
        exact hall
      · simp at h
  intro x hx
  have hgood : ∀ v ∈ gvertices (castV l1 : List ℝ) (castV u1),
      Good ((facetList W s).map (fun p => ((castV p.1 : List ℝ), (p.2 : ℝ)))) (castV l2) (castV u2) v := by
    intro v hv'
    rw [gvertices_castV, List.mem_map] at hv'
    obtain ⟨v0, hv0, rfl⟩ := hv'
    rw [gvertices_eq_vertices] at hv0
    obtain ⟨y, hy⟩ := refPoint_true (hall v0 hv0)
    obtain ⟨hbox, hd⟩ := checkWitness_sound hy
    refine ⟨by simp [vertices_length l1 u1 (hl1.trans hu1.symm) v0 hv0, hl1], castV y,
      GInBox_castV hbox, ?_⟩
    intro p hp
    simp only [List.mem_map] at hp
    obtain ⟨q, hq, rfl⟩ := hp
    have := hd q hq
    simp only [gdot_castV, gdot_eq_dot]
    exact_mod_cast this
  obtain ⟨_, y, hy, hd⟩ := good_of_vertices _ _ _ _ _ hgood x hx
  exact ⟨y, hy, fun p hp => hd (castV p.1, (p.2 : ℝ)) (List.mem_map.mpr ⟨p, hp, rfl⟩)⟩

/-- **Reference verdict `0` is certified.**  If `refDominates` answers `some false` (some vertex of
`R₁` has a *checked* Farkas certificate) and `R₁` is non-empty (`l1 ≤ u1`), then the semantic
statement with allowances `s` fails: that vertex is a point of `R₁` for which no real `y ∈ R₂`
qualifies. -/
theorem refDominates_false_certified (W : Mat) (l1 u1 l2 u2 s : Vec)
    (h1 : List.Forall₂ (· ≤ ·) l1 u1)
    (h : refDominates W l1 u1 l2 u2 s = some false) :
    ¬ PessDomS W s (l1, u1) (l2, u2) := by
  have hex : ∃ x ∈ vertices l1 u1, refPoint W x l2 u2 s = some false := by
    unfold refDominates at h
    simp only at h
    split at h
    · rename_i hany
      simp only [List.any_map, List.any_eq_true, Function.comp, beq_iff_eq] at hany
      exact hany
    · split at h <;> simp at h
  obtain ⟨x, hx, hf⟩ := hex
  obtain ⟨lam, hlam⟩ := refPoint_false hf
  intro hsem
  have hxbox : GInBox (castV l1 : List ℝ) (castV u1) (castV x) :=
    GInBox_castV (gvertices_in_box h1 x (by rw [gvertices_eq_vertices]; exact hx))
  obtain ⟨y, hy, hd⟩ := hsem (castV x) hxbox
  exact checkFarkas_sound (L := ℝ) hlam ⟨y, hy, hd⟩

/-- **Margins only strengthen, relaxations only weaken.**  With non-negative allowances the
reference statement implies the property's relation `PessDom`; with non-positive allowances it is
implied by it.  (This is how the harness uses the two reference calls: code `True` must imply the
relaxed statement, the statement with margin must imply code `True` for 2×2 cones.) -/
theorem pessDomS_bracket (W : Mat) (s : Vec) (hs : s.length = W.length) (R1 R2 : Region)
    (hdim : R1.1.length = R2.1.length) :
    ((∀ c ∈ s, 0 ≤ c) → PessDomS W s R1 R2 → PessDom W R1 R2) ∧
    ((∀ c ∈ s, c ≤ 0) → PessDom W R1 R2 → PessDomS W s R1 R2) := by
  have lenxy : ∀ {x y : List ℝ}, GInBox (castV R1.1 : List ℝ) (castV R1.2) x →
      GInBox (castV R2.1 : List ℝ) (castV R2.2) y → x.length = y.length := by
    intro x y hx hy
    rw [(GInBox.length_eq hx).1, (GInBox.length_eq hy).1]; simp [hdim]
  constructor
  · intro hnn hS x hx
    obtain ⟨y, hy, hd⟩ := hS x hx
    refine ⟨y, hy, ?_⟩
    intro w hw
    obtain ⟨i, hi, rfl⟩ := List.getElem_of_mem hw
    have hi' : i < s.length := hs ▸ hi
    have hmem : (W[i], s[i]) ∈ facetList W s := by
      rw [List.mem_iff_getElem]
      exact ⟨i, by simp [hi, hi'], by simp⟩
    have h1 := hd _ hmem
    have h2 : (0 : ℝ) ≤ (s[i] : ℝ) := Rat.cast_nonneg.mpr (hnn _ (List.getElem_mem hi'))
    rw [gdot_gsub _ x y (lenxy hx hy)]
    simp only at h1
    linarith
  · intro hnp hP x hx
    obtain ⟨y, hy, hd⟩ := hP x hx
    refine ⟨y, hy, ?_⟩
    intro p hp
    have hw : p.1 ∈ W := (List.of_mem_zip hp).1
    have hsi : p.2 ∈ s := (List.of_mem_zip hp).2
    have h1 := hd p.1 hw
    have h2 : (p.2 : ℝ) ≤ 0 := by exact_mod_cast hnp _ hsi
    rw [gdot_gsub _ x y (lenxy hx hy)] at h1
    linarith

/-! ## non-vacuity -/

/-- vertex path: the orthant cone, `R₁ = [1,2]²` against `R₂ = [0,1]²` -/
example : checkDominates [[1, 0], [0, 1]] [1, 1] [2, 2] [0, 0] [1, 1] = true := by decide +kernel

/-- edge path only: `acute2` cone, `R₁` the point `(1/2, 1/8)` just above the bottom edge of
`R₂ = [0,1]²`; no vertex of `R₂` is dominated (path code 2), yet the answer is `true` … -/
example : checkDominates [[2, -1], [-1, 2]] [1/2, 1/8] [1/2, 1/8] [0, 0] [1, 1] = true ∧
    isPtInPath exact false (matVec [[2, -1], [-1, 2]] [1/2, 1/8])
      ((vertices [0, 0] [1, 1]).map (matVec [[2, -1], [-1, 2]])) = 2 := by
  decide +kernel

/-- … and a negative instance (the point `(1/2, -1/8)` below the edge). -/
example : checkDominates [[2, -1], [-1, 2]] [1/2, -1/8] [1/2, -1/8] [0, 0] [1, 1] = false := by
  decide +kernel

/-- the hypotheses of the 2×2 theorems are satisfiable: `acute2` is invertible, the regions are
well-formed -/
example : (2 : Rat) * 2 - (-1) * (-1) ≠ 0 ∧ Region.WF 2 ([1/2, 1/8], [1/2, 1/8]) ∧
    Region.WF 2 ([0, 0], [1, 1]) := by
  refine ⟨by norm_num, ⟨rfl, rfl, ?_⟩, ⟨rfl, rfl, ?_⟩⟩ <;> simp

/-- a three-design pessimistic set under the orthant cone: design 0 is dominated by design 1 -/
example : pessimisticSet [[1, 0], [0, 1]]
    [([0, 0], [1, 1]), ([1, 1], [2, 2]), ([5, -5], [6, -4])] [0, 1, 2] = [1, 2] := by
  decide +kernel

/-- hypotheses of the general 2-D theorem are satisfiable with three facets (`threefacet2`,
`g = (1,1)`), and the answer there goes through the edge path -/
example : (∀ w ∈ [[2, -1], [-1, 2], [1, 0]], w.length = 2) ∧ ((1 : Rat) ≠ 0 ∨ (1 : Rat) ≠ 0) ∧
    (∀ w ∈ [[2, -1], [-1, 2], [(1 : Rat), 0]], 0 ≤ dot w [1, 1]) ∧
    checkDominates [[2, -1], [-1, 2], [1, 0]] [1/2, 1/8] [1/2, 1/8] [0, 0] [1, 1] = true := by
  refine ⟨by decide, Or.inl one_ne_zero, by decide +kernel, by decide +kernel⟩

/-- the reference certifies both verdicts on the two instances above (margin `1/100`, relaxation
`-1/100`) -/
example : refDominates [[2, -1], [-1, 2]] [1/2, 1/8] [1/2, 1/8] [0, 0] [1, 1] [1/100, 1/100] = some true ∧
    refDominates [[2, -1], [-1, 2]] [1/2, -1/8] [1/2, -1/8] [0, 0] [1, 1] [-1/100, -1/100] = some false := by
  decide +kernel

/-! ## INVARIANCES — common translation and positive scaling

About the executable `checkDominates` / `pessimisticSet` the driver ops `cd` / `pess` evaluate
(helpers: `Proofs/InvPess.lean`); they hold for every cone matrix (no completeness hypothesis, any
number of facets, any dimension) and need neither `l ≤ u` nor row lengths.  They justify the
harness' large-offset and rescaled families: a relative tolerance in `is_pt_in_extended_polytope` /
`line_seg_pt_intersect_at_dim` would break exactly these equalities. -/

section Invariance

/-- **`check_dominates` is translation invariant**: translating BOTH rectangles by one vector `τ`
does not change the answer (every mapped vertex moves by `W τ`; the vertex test compares
differences, the edge path uses `(c−a)/(b−a)` and `x + t·(y−x)`). -/
theorem checkDominates_translate (W : Mat) (l1 u1 l2 u2 τ : Vec)
    (h1 : l1.length = τ.length) (h2 : u1.length = τ.length) (h3 : l2.length = τ.length)
    (h4 : u2.length = τ.length) :
    checkDominates W (vadd l1 τ) (vadd u1 τ) (vadd l2 τ) (vadd u2 τ) = checkDominates W l1 u1 l2 u2 :=
  PessInv.checkDominates_translate W l1 u1 l2 u2 τ h1 h2 h3 h4

/-- **`check_dominates` is invariant under a positive scaling** of both rectangles (no hypothesis on
lengths at all). -/
theorem checkDominates_scale (W : Mat) (k : Rat) (hk : 0 < k) (l1 u1 l2 u2 : Vec) :
    checkDominates W (smul k l1) (smul k u1) (smul k l2) (smul k u2) = checkDominates W l1 u1 l2 u2 :=
  PessInv.checkDominates_scale W k hk l1 u1 l2 u2

/-- **The pessimistic set is invariant under a common translation of all rectangles** (regions of one
dimension), and under a common positive scaling: the same designs are kept, in the same order, for
every active list (indices out of range included). -/
theorem pess_set_translate_scale (W : Mat) (regions : List Region) (active : List Nat) :
    (∀ τ : Vec, (∀ r ∈ regions, r.1.length = τ.length ∧ r.2.length = τ.length) →
      pessimisticSet W (regions.map fun r => (vadd r.1 τ, vadd r.2 τ)) active =
        pessimisticSet W regions active) ∧
    (∀ k : Rat, 0 < k →
      pessimisticSet W (regions.map fun r => (smul k r.1, smul k r.2)) active =
        pessimisticSet W regions active) := by
  constructor
  · intro τ h
    exact PessInv.pessimisticSet_map (fun r => (vadd r.1 τ, vadd r.2 τ)) W regions active
      (fun rj hj ri hi => PessInv.checkDominates_translate W rj.1 rj.2 ri.1 ri.2 τ (h rj hj).1 (h rj hj).2
        (h ri hi).1 (h ri hi).2)
  · intro k hk
    exact PessInv.pessimisticSet_map (fun r => (smul k r.1, smul k r.2)) W regions active
      (fun rj _ ri _ => PessInv.checkDominates_scale W k hk rj.1 rj.2 ri.1 ri.2)

/-- non-vacuity, large offset and tiny gap (edge path, `acute2`): the point `(1/2, 2⁻²⁰)` just above
the bottom edge of `[0,1]²` is pessimistically dominated, `(1/2, −2⁻²⁰)` is not; both answers
survive the offset `(2²⁰, −2²⁰)` and the scaling by `2⁻²⁰` -/
example :
    checkDominates [[2, -1], [-1, 2]] [1/2, 1/1048576] [1/2, 1/1048576] [0, 0] [1, 1] = true ∧
    checkDominates [[2, -1], [-1, 2]] (vadd [1/2, 1/1048576] [1048576, -1048576])
      (vadd [1/2, 1/1048576] [1048576, -1048576]) (vadd [0, 0] [1048576, -1048576])
      (vadd [1, 1] [1048576, -1048576]) = true ∧
    checkDominates [[2, -1], [-1, 2]] [1/2, -1/1048576] [1/2, -1/1048576] [0, 0] [1, 1] = false ∧
    checkDominates [[2, -1], [-1, 2]] (vadd [1/2, -1/1048576] [1048576, -1048576])
      (vadd [1/2, -1/1048576] [1048576, -1048576]) (vadd [0, 0] [1048576, -1048576])
      (vadd [1, 1] [1048576, -1048576]) = false ∧
    checkDominates [[2, -1], [-1, 2]] (smul (1/1048576) [1/2, 1/1048576]) (smul (1/1048576) [1/2, 1/1048576])
      (smul (1/1048576) [0, 0]) (smul (1/1048576) [1, 1]) = true := by
  decide +kernel

/-- the three-design pessimistic set of the example above, all rectangles moved by `(2²⁰, 2²⁰)` -/
example : pessimisticSet [[1, 0], [0, 1]]
    ([([0, 0], [1, 1]), ([1, 1], [2, 2]), ([5, -5], [6, -4])].map
      fun r => (vadd r.1 [1048576, 1048576], vadd r.2 [1048576, 1048576])) [0, 1, 2] = [1, 2] := by
  decide +kernel

end Invariance

end VOPy.C11
