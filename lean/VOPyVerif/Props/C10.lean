import VOPyVerif.Proofs.CoveredComplete
import VOPyVerif.Proofs.InvCovered
/-!
# C10 — "is covered" decides `∃ z ∈ R₁, ∃ z' ∈ R₂ : z' dominates z by the slack`

Property theorems only (helper lemmas: `Proofs/LinCert.lean`, `Proofs/LinCertComplete.lean`,
`Proofs/LinCertKKT.lean`, `Proofs/Covered.lean`, `Proofs/CoveredGeom.lean`,
`Proofs/CoveredComplete.lean`).  They are about the executable definitions the driver runs
(`Model/LinCert.lean`, `Model/Covered.lean`): every `1`/`0` the driver prints has been accepted by
one of the checkers below, so it is a *theorem* about the exported (rational) inputs; the harness
compares these certified verdicts with `confidence_region_is_covered`.

Two layers:

* **soundness** ("sound when it answers"): witness ⇒ ∃, Farkas ⇒ ¬∃, KKT ⇒ exact distance, and the
  verdict functions built on them (`rect_verdict_sound`, `ball_verdict_sound`, `ell_verdict_sound`);
* **decision** ("always answers"): Fourier–Motzkin elimination with multiplier tracking is complete
  (`fm_complete`, `feasible_complete`, `feasible_decides`), the active-set search finds the KKT point
  of every non-empty polyhedron (`nearest_complete`), hence the rectangle and the ball verdicts are
  genuine decision procedures for `Coverable` over `ℝ`: `rect_isCovered_iff`, `rect_band_iff`,
  `ball_isCovered_iff`, `ball_band_iff` — `inconclusive` is impossible on well-formed input.
  (General ellipsoids stay certificate-checked: their certificates come from the harness.)

Real vectors are lists (`RVec = List ℝ`); `castV` embeds the rational data.

* `Coverable R₁ R₂ W s`     : `∃ z ∈ R₁, z' ∈ R₂, ∀ facets w, w·(z' − z − s) ≥ 0`   (rectangles:
                               slack `s` in objective space, `z' ≽ z + s` in the cone order)
* `CoverableFacet R₁ R₂ W t` : `∃ z ∈ R₁, z' ∈ R₂, ∀ i, wᵢ·(z' − z) ≥ tᵢ`            (ellipsoids:
                               slack per facet)
* `Cov R₁ R₂ W s t`          : both at once (`wᵢ·(z' − z − s) ≥ tᵢ`); the borderline band of the
                               harness perturbs `t`.
-/
namespace VOPy.C10
open VOPy VOPy.LinCert VOPy.Covered

/-- objective-space slack: some `z' ∈ R₂` dominates `z + s` for some `z ∈ R₁` -/
def Coverable (R₁ R₂ : Set RVec) (W : Mat) (s : Vec) : Prop :=
  ∃ z ∈ R₁, ∃ z' ∈ R₂, ∀ w ∈ W, 0 ≤ rdot (castV w) (rsub (rsub z' z) (castV s))

/-- per-facet slack: `wᵢ·(z' − z) ≥ tᵢ` for every facet -/
def CoverableFacet (R₁ R₂ : Set RVec) (W : Mat) (t : Vec) : Prop :=
  ∃ z ∈ R₁, ∃ z' ∈ R₂, FacetGe W (rsub z' z) t

/-! ## The three generic checkers (untrusted search + verified checker, DESIGN §2.3) -/

/-- **Witness ⇒ ∃.**  If `checkWitness` accepts `x`, the (cast of) `x` has `n` entries and satisfies
every inequality `a·x ≥ b` of the system over `ℝ`. -/
theorem witness_sound (n : ℕ) (S : Sys) (x : Vec) (h : checkWitness n S x = true) :
    (castV x).length = n ∧ ∀ r ∈ S, (r.b : ℝ) ≤ rdot (castV r.a) (castV x) :=
  checkWitness_sound h

/-- **Farkas ⇒ ¬∃.**  If `checkFarkas` accepts `y` (`y ≥ 0`, `yᵀA = 0`, `yᵀb > 0`), no real vector
with `n` entries satisfies all inequalities of the system. -/
theorem farkas_sound (n : ℕ) (S : Sys) (y : Vec) (h : checkFarkas n S y = true) :
    ¬ ∃ x : RVec, x.length = n ∧ ∀ r ∈ S, (r.b : ℝ) ≤ rdot (castV r.a) x :=
  checkFarkas_sound h

/-- **KKT ⇒ exact squared distance.**  If `checkKKT` accepts `(x, lam)`, then `x` is feasible and
`‖x − c‖² ≤ ‖x' − c‖²` for every real feasible `x'`: `normSq (x − c)` *is* the squared distance of
`c` to the polyhedron. -/
theorem kkt_sound (n : ℕ) (S : Sys) (c x lam : Vec) (h : checkKKT n S c x lam = true) :
    RSat n S (castV x) ∧
    ∀ x' : RVec, RSat n S x' →
      ((normSq (vsub x c) : ℚ) : ℝ) ≤ rnormSq (rsub x' (castV c)) := by
  have := checkKKT_sound h
  refine ⟨this.1, fun x' hx' => ?_⟩
  rw [cast_normSq, castV_vsub]
  exact this.2 x' hx'

/-- `LinCert.feasible` only answers with a checked certificate. -/
theorem feasible_sound (n : ℕ) (S : Sys) :
    (feasible n S = some true → ∃ x : RVec, RSat n S x) ∧
    (feasible n S = some false → ¬ ∃ x : RVec, RSat n S x) := by
  constructor
  · intro h
    unfold feasible at h
    split at h
    · rename_i x _
      split at h
      · rename_i hw; exact ⟨castV x, checkWitness_sound hw⟩
      · cases h
    · split at h <;> simp at h
  · intro h
    obtain ⟨y, hy⟩ := feasible_false h
    exact checkFarkas_sound hy

/-! ## Semantic predicates: relation between the three forms, monotonicity -/

/-- `Cov` with zero margin is the objective-space predicate `Coverable`. -/
theorem cov_zero_margin_iff (R₁ R₂ : Set RVec) (W : Mat) (s : Vec) :
    Cov R₁ R₂ W s (zeros W.length) ↔ Coverable R₁ R₂ W s := by
  simp only [Cov, Coverable, facetGe_zeros_iff]

/-- `Cov` with zero shift is the per-facet predicate `CoverableFacet` (regions of `m`-vectors). -/
theorem cov_zero_shift_iff (m : ℕ) (R₁ R₂ : Set RVec) (W : Mat) (t : Vec)
    (h₁ : ∀ z ∈ R₁, z.length = m) (h₂ : ∀ z ∈ R₂, z.length = m) :
    Cov R₁ R₂ W (zeros m) t ↔ CoverableFacet R₁ R₂ W t := by
  constructor
  · rintro ⟨z, hz, z', hz', h⟩
    rw [rsub_castV_zeros _ _ (by simp [h₁ z hz, h₂ z' hz'])] at h
    exact ⟨z, hz, z', hz', h⟩
  · rintro ⟨z, hz, z', hz', h⟩
    refine ⟨z, hz, z', hz', ?_⟩
    rw [rsub_castV_zeros _ _ (by simp [h₁ z hz, h₂ z' hz'])]
    exact h

/-- **Monotone in the margin** (any regions, any cone): lowering every per-facet threshold keeps a
configuration coverable.  This is what makes the harness's borderline band sound: "covered with
margin `+τ`" implies covered, "not covered with margin `−τ`" implies not covered. -/
theorem coverable_mono_margin (R₁ R₂ : Set RVec) (W : Mat) (s t t' : Vec)
    (h : List.Forall₂ (· ≤ ·) t' t) : Cov R₁ R₂ W s t → Cov R₁ R₂ W s t' :=
  cov_mono_margin R₁ R₂ W s t t' h

/-- **Monotone in the slack, in the cone order**: if `s − s'` lies in the cone (`W (s − s') ≥ 0`),
covering with slack `s` implies covering with slack `s'`. -/
theorem coverable_mono_slack (m : ℕ) (R₁ R₂ : Set RVec) (W : Mat) (s s' : Vec)
    (hR₁ : ∀ z ∈ R₁, z.length = m) (hR₂ : ∀ z ∈ R₂, z.length = m)
    (hW : ∀ w ∈ W, w.length = m) (hs : s.length = m) (hs' : s'.length = m)
    (hc : ∀ w ∈ W, 0 ≤ dot w (vsub s s')) : Coverable R₁ R₂ W s → Coverable R₁ R₂ W s' := by
  rw [← cov_zero_margin_iff, ← cov_zero_margin_iff]
  exact cov_mono_shift m R₁ R₂ W s s' _ hR₁ hR₂ hW hs hs' hc

/-- per-facet form of the monotonicity -/
theorem coverableFacet_mono (R₁ R₂ : Set RVec) (W : Mat) (t t' : Vec)
    (h : List.Forall₂ (· ≤ ·) t' t) : CoverableFacet R₁ R₂ W t → CoverableFacet R₁ R₂ W t' := by
  rintro ⟨z, hz, z', hz', hf⟩
  exact ⟨z, hz, z', hz', FacetGe.mono W _ t t' h hf⟩

/-- **Objective-space slack versus per-facet slack.**  Shifting by `s` in objective space is the
same as the per-facet slack `wᵢ · s` (plus the margin): `Cov R₁ R₂ W s t ↔
CoverableFacet R₁ R₂ W (W s + t)`.  (For the orthant `W = I` the two notions coincide; for other
cones an `N`-vector `ε·α` handed to the rectangular test is *not* the per-facet slack `ε·α`.) -/
theorem shift_slack_is_facet_slack (m : ℕ) (R₁ R₂ : Set RVec) (W : Mat) (s t : Vec)
    (h₁ : ∀ z ∈ R₁, z.length = m) (h₂ : ∀ z ∈ R₂, z.length = m)
    (hW : ∀ w ∈ W, w.length = m) (hs : s.length = m) (ht : W.length = t.length) :
    Cov R₁ R₂ W s t ↔ CoverableFacet R₁ R₂ W (vadd (matVec W s) t) := by
  constructor
  · rintro ⟨z, hz, z', hz', h⟩
    exact ⟨z, hz, z', hz',
      (facetGe_shift_iff m _ s (by simp [h₁ z hz, h₂ z' hz']) hs W t hW ht).1 h⟩
  · rintro ⟨z, hz, z', hz', h⟩
    exact ⟨z, hz, z', hz',
      (facetGe_shift_iff m _ s (by simp [h₁ z hz, h₂ z' hz']) hs W t hW ht).2 h⟩

/-! ## Rectangles -/

/-- **The LP the code builds is the semantic predicate.**  A real point `z ++ z'` satisfies
`rectSys W l₁ u₁ l₂ u₂ s t` (rows in the order of `RectangularConfidenceRegion.is_covered`) iff
`z ∈ [l₁,u₁]`, `z' ∈ [l₂,u₂]` and `wᵢ·(z' − z − s) ≥ tᵢ` for every facet. -/
theorem rect_lp_iff (W : Mat) (l1 u1 l2 u2 s t : Vec) (z z' : RVec)
    (h1 : u1.length = l1.length) (h2 : l2.length = l1.length) (h3 : u2.length = l1.length)
    (hs : s.length = l1.length) (ht : W.length = t.length) (hW : ∀ w ∈ W, w.length = l1.length)
    (hz : z.length = l1.length) (hz' : z'.length = l1.length) :
    RSat (2 * l1.length) (rectSys W l1 u1 l2 u2 s t) (z ++ z') ↔
      z ∈ box l1 u1 ∧ z' ∈ box l2 u2 ∧ FacetGe W (rsub (rsub z' z) (castV s)) t :=
  rectSys_sat W l1 u1 l2 u2 s t z z' h1 h2 h3 hs ht hW hz hz'

/-- **Rectangles, certified verdicts are correct** (any per-facet margin `t`):
`rectVerdict = yes ⇒ ∃ z ∈ [l₁,u₁], z' ∈ [l₂,u₂], W (z' − z − s) ≥ t`, and `= no ⇒` no such pair. -/
theorem rect_verdict_sound (W : Mat) (l1 u1 l2 u2 s t : Vec)
    (h1 : u1.length = l1.length) (h2 : l2.length = l1.length) (h3 : u2.length = l1.length)
    (hs : s.length = l1.length) (ht : W.length = t.length) (hW : ∀ w ∈ W, w.length = l1.length) :
    (rectVerdict W l1 u1 l2 u2 s t = .yes → Cov (box l1 u1) (box l2 u2) W s t) ∧
    (rectVerdict W l1 u1 l2 u2 s t = .no → ¬ Cov (box l1 u1) (box l2 u2) W s t) :=
  ⟨rectVerdict_yes W l1 u1 l2 u2 s t h1 h2 h3 hs ht hW,
   rectVerdict_no W l1 u1 l2 u2 s t h1 h2 h3 hs ht hW⟩

/-- **`RectangularConfidenceRegion.is_covered`, model side.**  With the slack guard of the code
(size 1 → broadcast, size `m` → as is): the model's answer `yes` means some point of the second box
dominates some point of the first box shifted by the slack (`z' ≽ z + s` in the cone order); `no`
means no such pair exists. -/
theorem rect_isCovered_sound (W : Mat) (l1 u1 l2 u2 slack : Vec)
    (h1 : u1.length = l1.length) (h2 : l2.length = l1.length) (h3 : u2.length = l1.length)
    (hm : ncols W = l1.length) (hW : ∀ w ∈ W, w.length = l1.length) :
    (rectIsCovered W l1 u1 l2 u2 slack = some .yes →
      ∃ s, expandSlack l1.length slack = some s ∧ Coverable (box l1 u1) (box l2 u2) W s) ∧
    (rectIsCovered W l1 u1 l2 u2 slack = some .no →
      ∃ s, expandSlack l1.length slack = some s ∧ ¬ Coverable (box l1 u1) (box l2 u2) W s) := by
  unfold rectIsCovered
  rw [hm]
  cases hs : expandSlack l1.length slack with
  | none => simp
  | some s =>
    have hsl := expandSlack_length hs
    have hv := rect_verdict_sound W l1 u1 l2 u2 s (zeros W.length) h1 h2 h3 hsl (by simp [zeros]) hW
    simp only [Option.map_some, Option.some.injEq]
    refine ⟨fun h => ⟨s, rfl, (cov_zero_margin_iff _ _ W s).1 (hv.1 h)⟩,
      fun h => ⟨s, rfl, fun hc => hv.2 h ((cov_zero_margin_iff _ _ W s).2 hc)⟩⟩

/-- **The borderline band is sound for rectangles.**  For `τ ≥ 0`: if the model certifies `yes`
with every facet inequality tightened by `τ`, the exact configuration is coverable; if it certifies
`no` with every facet inequality relaxed by `τ`, the exact configuration is not coverable.  (The
harness compares the code only in these two cases.) -/
theorem rect_band_sound (W : Mat) (l1 u1 l2 u2 slack : Vec) (tau : ℚ) (htau : 0 ≤ tau)
    (h1 : u1.length = l1.length) (h2 : l2.length = l1.length) (h3 : u2.length = l1.length)
    (hm : ncols W = l1.length) (hW : ∀ w ∈ W, w.length = l1.length) :
    (rectIsCoveredTol W l1 u1 l2 u2 slack tau = some .yes →
      ∃ s, expandSlack l1.length slack = some s ∧ Coverable (box l1 u1) (box l2 u2) W s) ∧
    (rectIsCoveredTol W l1 u1 l2 u2 slack (-tau) = some .no →
      ∃ s, expandSlack l1.length slack = some s ∧ ¬ Coverable (box l1 u1) (box l2 u2) W s) := by
  unfold rectIsCoveredTol
  rw [hm]
  cases hs : expandSlack l1.length slack with
  | none => simp
  | some s =>
    have hsl := expandSlack_length hs
    simp only [Option.map_some, Option.some.injEq]
    constructor
    · intro h
      have := (rect_verdict_sound W l1 u1 l2 u2 s _ h1 h2 h3 hsl (by simp) hW).1 h
      exact ⟨s, rfl, (cov_zero_margin_iff _ _ W s).1
        (cov_mono_margin _ _ W s _ _ (forall₂_replicate_le _ 0 tau htau) this)⟩
    · intro h
      have := (rect_verdict_sound W l1 u1 l2 u2 s _ h1 h2 h3 hsl (by simp) hW).2 h
      refine ⟨s, rfl, fun hc => this ?_⟩
      exact cov_mono_margin _ _ W s _ _ (forall₂_replicate_le _ (-tau) 0 (by linarith))
        ((cov_zero_margin_iff _ _ W s).2 hc)

/-- **Box reduction.**  For non-empty boxes of equal dimension the two-point question is a
one-point question about the difference box:
`∃ z ∈ [l₁,u₁], z' ∈ [l₂,u₂] : W (z' − z − s) ≥ t  ↔  ∃ d ∈ [l₂ − u₁, u₂ − l₁] : W (d − s) ≥ t`. -/
theorem coverable_box_iff_diff (W : Mat) (l1 u1 l2 u2 s t : Vec)
    (h1 : List.Forall₂ (· ≤ ·) l1 u1) (h2 : List.Forall₂ (· ≤ ·) l2 u2)
    (hl : l2.length = l1.length) :
    Cov (box l1 u1) (box l2 u2) W s t ↔
      ∃ d ∈ box (vsub l2 u1) (vsub u2 l1), FacetGe W (rsub d (castV s)) t :=
  cov_box_iff W l1 u1 l2 u2 s t h1 h2 hl

/-! ## Balls (the PaVeBa case `Σ = I`) -/

/-- **Ball reduction.**  `B(c₁,a₁)`, `B(c₂,a₂)` are coverable with per-facet slack `t` iff some `d`
with `‖d − (c₂ − c₁)‖ ≤ a₁ + a₂` satisfies `W d ≥ t`, i.e. iff the distance of `c₂ − c₁` to the
polyhedron `{d | W d ≥ t}` is at most `a₁ + a₂`. -/
theorem coverable_ball_iff_dist (W : Mat) (c1 c2 t : Vec) (a1 a2 : ℚ) (ha1 : 0 ≤ a1) (ha2 : 0 ≤ a2)
    (hc : c2.length = c1.length) :
    CoverableFacet (ball c1 a1) (ball c2 a2) W t ↔
      ∃ d : RVec, d.length = c1.length ∧
        rnormSq (rsub d (castV (vsub c2 c1))) ≤ ((a1 : ℝ) + a2) ^ 2 ∧ FacetGe W d t := by
  rw [← cov_ball_iff W c1 c2 t a1 a2 ha1 ha2 hc]
  exact (cov_zero_shift_iff c1.length _ _ W t ball_length
    (fun z hz => (ball_length z hz).trans hc)).symm

/-- **Balls, certified verdicts are correct.**  `ballVerdict` (exact KKT projection of `c₂ − c₁` on
`{d | W d ≥ t}`, squared distance compared with `(a₁ + a₂)²`; Farkas if the polyhedron is empty):
`yes ⇒` coverable, `no ⇒` not coverable. -/
theorem ball_verdict_sound (W : Mat) (c1 c2 t : Vec) (a1 a2 : ℚ) (ht : W.length = t.length) :
    (ballVerdict W c1 a1 c2 a2 t = .yes → CoverableFacet (ball c1 a1) (ball c2 a2) W t) ∧
    (ballVerdict W c1 a1 c2 a2 t = .no → ¬ CoverableFacet (ball c1 a1) (ball c2 a2) W t) := by
  constructor
  · intro h
    obtain ⟨_, _, hc⟩ := ballVerdict_guard h (by simp)
    exact (cov_zero_shift_iff c1.length _ _ W t ball_length
      (fun z hz => (ball_length z hz).trans hc)).1 (ballVerdict_yes W c1 c2 t a1 a2 ht h)
  · intro h
    obtain ⟨_, _, hc⟩ := ballVerdict_guard h (by simp)
    exact fun hcov => ballVerdict_no W c1 c2 t a1 a2 ht h
      ((cov_zero_shift_iff c1.length _ _ W t ball_length
        (fun z hz => (ball_length z hz).trans hc)).2 hcov)

/-- **`EllipsoidalConfidenceRegion.is_covered` for `Σ = I`, model side, with the band.**  Slack
guard of the code (size 1 → one entry per facet, size `N` → as is).  For `τ ≥ 0`: `yes` with the
slack raised by `τ` ⇒ coverable with the exact slack; `no` with the slack lowered by `τ` ⇒ not
coverable with the exact slack (`τ = 0` is the exact statement). -/
theorem ball_band_sound (W : Mat) (c1 c2 slack : Vec) (a1 a2 tau : ℚ) (htau : 0 ≤ tau) :
    (ballIsCoveredTol W c1 a1 c2 a2 slack tau = some .yes →
      ∃ t, expandSlack W.length slack = some t ∧ CoverableFacet (ball c1 a1) (ball c2 a2) W t) ∧
    (ballIsCoveredTol W c1 a1 c2 a2 slack (-tau) = some .no →
      ∃ t, expandSlack W.length slack = some t ∧ ¬ CoverableFacet (ball c1 a1) (ball c2 a2) W t) := by
  unfold ballIsCoveredTol
  cases hs : expandSlack W.length slack with
  | none => simp
  | some t =>
    have htl := expandSlack_length hs
    have e0 : t.map (· + (0 : ℚ)) = t := by simp
    simp only [Option.map_some, Option.some.injEq]
    constructor
    · intro h
      have := (ball_verdict_sound W c1 c2 _ a1 a2 (by simp [htl])).1 h
      refine ⟨t, rfl, ?_⟩
      have m := coverableFacet_mono _ _ W _ _ (forall₂_map_add_le t 0 tau htau) this
      rwa [e0] at m
    · intro h
      have := (ball_verdict_sound W c1 c2 _ a1 a2 (by simp [htl])).2 h
      refine ⟨t, rfl, fun hc => this ?_⟩
      have m := coverableFacet_mono _ _ W _ _ (forall₂_map_add_le t (-tau) 0 (by linarith))
        (by rwa [e0])
      exact m

/-! ## General ellipsoids `{c + L u | ‖u‖ ≤ a}` (certificates proposed by the harness) -/

/-- **Witness pair ⇒ coverable.**  If `checkEllWitness` accepts `(u₁, u₂)` (`‖uᵢ‖² ≤ aᵢ²`, the
points `cᵢ + Lᵢuᵢ` satisfy `W (z' − z) ≥ t` exactly), the two ellipsoids are coverable. -/
theorem ell_witness_sound (W : Mat) (c1 : Vec) (L1 : Mat) (a1 : ℚ) (c2 : Vec) (L2 : Mat) (a2 : ℚ)
    (t u1 u2 : Vec) (ht : W.length = t.length)
    (h : checkEllWitness W c1 L1 a1 c2 L2 a2 t u1 u2 = true) :
    CoverableFacet (ell c1 L1 a1) (ell c2 L2 a2) W t := by
  obtain ⟨hL1, hc2, hL2⟩ := wf_of_witness h
  exact (cov_zero_shift_iff c1.length _ _ W t (ell_length rfl hL1) (ell_length hc2 hL2)).1
    (checkEllWitness_sound W c1 L1 a1 c2 L2 a2 t u1 u2 ht h)

/-- **Separating multiplier ⇒ not coverable** (Cauchy–Schwarz).  If `checkEllSep` accepts `lam`
(`lam ≥ 0` and, with `v = Wᵀlam`, `v·(c₂−c₁) + a₁‖L₁ᵀv‖ + a₂‖L₂ᵀv‖ < lam·t`, decided over `ℚ` by
squaring twice), no pair of points of the two ellipsoids satisfies `W (z' − z) ≥ t`. -/
theorem ell_sep_sound (W : Mat) (c1 : Vec) (L1 : Mat) (a1 : ℚ) (c2 : Vec) (L2 : Mat) (a2 : ℚ)
    (t lam : Vec) (h : checkEllSep W c1 L1 a1 c2 L2 a2 t lam = true) :
    ¬ CoverableFacet (ell c1 L1 a1) (ell c2 L2 a2) W t := by
  obtain ⟨hL1, hc2, hL2⟩ := wf_of_sep h
  exact fun hc => checkEllSep_sound W c1 L1 a1 c2 L2 a2 t lam h
    ((cov_zero_shift_iff c1.length _ _ W t (ell_length rfl hL1) (ell_length hc2 hL2)).2 hc)

/-- **General ellipsoids, certified verdicts are correct**: whatever certificates are proposed,
`ellVerdict = yes ⇒` coverable and `ellVerdict = no ⇒` not coverable. -/
theorem ell_verdict_sound (W : Mat) (c1 : Vec) (L1 : Mat) (a1 : ℚ) (c2 : Vec) (L2 : Mat) (a2 : ℚ)
    (t u1 u2 lam : Vec) (ht : W.length = t.length) :
    (ellVerdict W c1 L1 a1 c2 L2 a2 t u1 u2 lam = .yes →
      CoverableFacet (ell c1 L1 a1) (ell c2 L2 a2) W t) ∧
    (ellVerdict W c1 L1 a1 c2 L2 a2 t u1 u2 lam = .no →
      ¬ CoverableFacet (ell c1 L1 a1) (ell c2 L2 a2) W t) := by
  unfold ellVerdict
  constructor
  · intro h
    split at h
    · rename_i hw; exact ell_witness_sound W c1 L1 a1 c2 L2 a2 t u1 u2 ht hw
    · split at h <;> cases h
  · intro h
    split at h
    · cases h
    · split at h
      · rename_i hs; exact ell_sep_sound W c1 L1 a1 c2 L2 a2 t lam hs
      · cases h

/-- **The ellipsoid of the model is the ellipsoid of the code.**  If `M` inverts `L` (as maps on
real `m`-vectors) then `{c + L u | ‖u‖ ≤ a} = {z | ‖L⁻¹(z − c)‖ ≤ a}`, which for `L Lᵀ = Σ` is
`{z | (z − c)ᵀ Σ⁻¹ (z − c) ≤ a²}` — the set `‖Σ^{-1/2}(z − c)‖ ≤ α` the code hands to the solver. -/
theorem ellipsoid_code_form (m : ℕ) (c : Vec) (L M : Mat) (a : ℚ) (hc : c.length = m)
    (hL : L.length = m) (hM : M.length = m)
    (hML : ∀ u : RVec, u.length = m → rmatVec M (rmatVec L u) = u)
    (hLM : ∀ x : RVec, x.length = m → rmatVec L (rmatVec M x) = x) (z : RVec) :
    z ∈ ell c L a ↔
      0 ≤ a ∧ z.length = m ∧ rnormSq (rmatVec M (rsub z (castV c))) ≤ (a : ℝ) ^ 2 :=
  ell_iff_inverse m c L M a hc hL hM hML hLM z

/-- **Balls are the ellipsoids with `L = I`**: the two model paths (`ballVerdict` with the exact KKT
projection, `ellVerdict` with proposed certificates) speak about the same sets when `Σ = I`. -/
theorem ball_is_ell_identity (c : Vec) (a : ℚ) : ball c a = ell c (identMat c.length) a :=
  ball_eq_ell_identMat c a

/-! ## Decision theorems: the searches are complete, the verdicts are total -/

/-- **Fourier–Motzkin elimination with multiplier tracking is complete.**  For every rational system
`A x ≥ b` whose rows have `n` coefficients, the plain elimination `solvePlain` returns either a point
that `checkWitness` accepts or multipliers that `checkFarkas` accepts. -/
theorem fm_complete (n : ℕ) (S : Sys) (hwf : wf n S = true) :
    (∃ x, solvePlain n S = .witness x ∧ checkWitness n S x = true) ∨
    (∃ y, solvePlain n S = .farkas y ∧ checkFarkas n S y = true) := by
  cases h : solvePlain n S with
  | witness x => exact Or.inl ⟨x, rfl, solvePlain_witness hwf h⟩
  | farkas y => exact Or.inr ⟨y, rfl, solvePlain_farkas hwf h⟩

/-- **The certified feasibility decision never answers `none`**: `feasibleC` (fast pruned search,
then the complete search if that produced no accepted certificate) returns `some true` or
`some false` for every well-formed system; so does the complete search `feasibleFM` alone. -/
theorem feasible_complete (n : ℕ) (S : Sys) (hwf : wf n S = true) :
    (feasibleC n S = some true ∨ feasibleC n S = some false) ∧
    (feasibleFM n S = some true ∨ feasibleFM n S = some false) :=
  ⟨feasibleC_complete n S hwf, feasibleFM_complete n S hwf⟩

/-- **`feasibleC` decides feasibility over `ℝ`**: `some true` exactly when a real solution exists,
`some false` exactly when none exists. -/
theorem feasible_decides (n : ℕ) (S : Sys) (hwf : wf n S = true) :
    (feasibleC n S = some true ↔ ∃ x : RVec, RSat n S x) ∧
    (feasibleC n S = some false ↔ ¬ ∃ x : RVec, RSat n S x) :=
  ⟨feasibleC_true_iff n S hwf, feasibleC_false_iff n S hwf⟩

/-- **Farkas' lemma for rational data**, as a by-product: a well-formed system has a *rational*
solution or non-negative rational multipliers `y` with `yᵀA = 0`, `yᵀb > 0` — never both; in
particular a rational system with a real solution has a rational one. -/
theorem farkas_lemma (n : ℕ) (S : Sys) (hwf : wf n S = true) :
    ((∃ x : Vec, checkWitness n S x = true) ∨ (∃ y : Vec, checkFarkas n S y = true)) ∧
    ¬ ((∃ x : Vec, checkWitness n S x = true) ∧ (∃ y : Vec, checkFarkas n S y = true)) ∧
    ((∃ x : RVec, RSat n S x) → ∃ x : Vec, checkWitness n S x = true) := by
  refine ⟨farkas_alternative n S hwf, ?_, rat_solution_of_real hwf⟩
  rintro ⟨⟨x, hx⟩, ⟨y, hy⟩⟩
  exact checkFarkas_sound hy ⟨castV x, checkWitness_sound hx⟩

/-- **The active-set search for the nearest point is complete.**  For a well-formed system with a
(rational) solution and a centre `c` of the right dimension, `nearest` returns a point with
multipliers that `checkKKT` accepts: the nearest point of a non-empty rational polyhedron to a
rational point exists, is rational, and has KKT multipliers supported on linearly independent active
rows — which is exactly what the enumeration of active sets looks for. -/
theorem nearest_complete (n : ℕ) (S : Sys) (c : Vec) (hwf : wf n S = true) (hc : c.length = n)
    (hne : ∃ y : Vec, checkWitness n S y = true) :
    ∃ x lam, nearest n S c = some (x, lam) ∧ checkKKT n S c x lam = true := by
  obtain ⟨x, lam, h⟩ := LinCert.nearest_complete n S c hwf hc hne
  exact ⟨x, lam, h, nearest_some h⟩

/-- **The rectangle verdict is total**: with cone rows of `m` entries it is never `inconclusive`. -/
theorem rect_verdict_total (W : Mat) (l1 u1 l2 u2 s t : Vec) (hW : ∀ w ∈ W, w.length = l1.length) :
    rectVerdict W l1 u1 l2 u2 s t = .yes ∨ rectVerdict W l1 u1 l2 u2 s t = .no := by
  have := rectVerdict_total W l1 u1 l2 u2 s t hW
  cases h : rectVerdict W l1 u1 l2 u2 s t <;> simp_all

/-- **The rectangle verdict decides the semantic predicate** (any per-facet margin `t`):
`yes ↔ ∃ z ∈ [l₁,u₁], z' ∈ [l₂,u₂], W (z' − z − s) ≥ t` and `no ↔` no such pair. -/
theorem rect_verdict_iff (W : Mat) (l1 u1 l2 u2 s t : Vec)
    (h1 : u1.length = l1.length) (h2 : l2.length = l1.length) (h3 : u2.length = l1.length)
    (hs : s.length = l1.length) (ht : W.length = t.length) (hW : ∀ w ∈ W, w.length = l1.length) :
    (rectVerdict W l1 u1 l2 u2 s t = .yes ↔ Cov (box l1 u1) (box l2 u2) W s t) ∧
    (rectVerdict W l1 u1 l2 u2 s t = .no ↔ ¬ Cov (box l1 u1) (box l2 u2) W s t) :=
  ⟨rectVerdict_yes_iff W l1 u1 l2 u2 s t h1 h2 h3 hs ht hW,
   rectVerdict_no_iff W l1 u1 l2 u2 s t h1 h2 h3 hs ht hW⟩

/-- **`RectangularConfidenceRegion.is_covered`, model side, as a decision.**  For boxes of one
dimension `m`, a cone matrix with `m` columns and any slack: the model answers

* `1` exactly when the slack has an admissible size (1 or `m`) and some point of the second box
  dominates some point of the first box shifted by the slack (`Coverable` over `ℝ`),
* `0` exactly when the slack has an admissible size and no such pair exists,
* `ValueError` exactly when the slack size is not admissible,

and never `inconclusive`.  (`l ≤ u` is not needed: an empty box is not coverable and the verdict is
`0`; for `l ≤ u` see `coverable_box_iff_diff`.) -/
theorem rect_isCovered_iff (W : Mat) (l1 u1 l2 u2 slack : Vec)
    (h1 : u1.length = l1.length) (h2 : l2.length = l1.length) (h3 : u2.length = l1.length)
    (hm : ncols W = l1.length) (hW : ∀ w ∈ W, w.length = l1.length) :
    (rectIsCovered W l1 u1 l2 u2 slack = some .yes ↔
      ∃ s, expandSlack l1.length slack = some s ∧ Coverable (box l1 u1) (box l2 u2) W s) ∧
    (rectIsCovered W l1 u1 l2 u2 slack = some .no ↔
      ∃ s, expandSlack l1.length slack = some s ∧ ¬ Coverable (box l1 u1) (box l2 u2) W s) ∧
    (rectIsCovered W l1 u1 l2 u2 slack = none ↔ expandSlack l1.length slack = none) ∧
    rectIsCovered W l1 u1 l2 u2 slack ≠ some .inconclusive := by
  unfold rectIsCovered
  rw [hm]
  cases hs : expandSlack l1.length slack with
  | none => simp
  | some s =>
    have hsl := expandSlack_length hs
    obtain ⟨hy, hn⟩ := rect_verdict_iff W l1 u1 l2 u2 s (zeros W.length) h1 h2 h3 hsl
      (by simp [zeros]) hW
    rw [cov_zero_margin_iff] at hy hn
    simp only [Option.map_some, Option.some.injEq, reduceCtorEq, exists_eq_left', ne_eq, true_and]
    exact ⟨hy, hn, rectVerdict_total W l1 u1 l2 u2 s _ hW⟩

/-- `rect_isCovered_iff` for a slack of admissible size (`expandSlack` succeeds with `s`): the model
answers `1` iff `Coverable box₁ box₂ W s` holds over `ℝ`, and `0` iff it does not. -/
theorem rect_isCovered_decides (W : Mat) (l1 u1 l2 u2 slack s : Vec)
    (h1 : u1.length = l1.length) (h2 : l2.length = l1.length) (h3 : u2.length = l1.length)
    (hm : ncols W = l1.length) (hW : ∀ w ∈ W, w.length = l1.length)
    (hs : expandSlack l1.length slack = some s) :
    (rectIsCovered W l1 u1 l2 u2 slack = some .yes ↔ Coverable (box l1 u1) (box l2 u2) W s) ∧
    (rectIsCovered W l1 u1 l2 u2 slack = some .no ↔ ¬ Coverable (box l1 u1) (box l2 u2) W s) := by
  obtain ⟨hy, hn, -, -⟩ := rect_isCovered_iff W l1 u1 l2 u2 slack h1 h2 h3 hm hW
  rw [hy, hn, hs]
  simp

/-- **The band verdicts are decisions too.**  `rectIsCoveredTol … τ` (every facet inequality
tightened by the margin `τ`, any sign) answers `1` / `0` exactly according to
`∃ z ∈ [l₁,u₁], z' ∈ [l₂,u₂], ∀ i, wᵢ·(z' − z − s) ≥ τ`, and never `inconclusive`.  Together with
`coverable_mono_margin` this is the sandwich the harness uses: `1` at `+τ` ⇒ coverable ⇒ `1` at
`−τ`. -/
theorem rect_band_iff (W : Mat) (l1 u1 l2 u2 slack : Vec) (tau : ℚ)
    (h1 : u1.length = l1.length) (h2 : l2.length = l1.length) (h3 : u2.length = l1.length)
    (hm : ncols W = l1.length) (hW : ∀ w ∈ W, w.length = l1.length) :
    (rectIsCoveredTol W l1 u1 l2 u2 slack tau = some .yes ↔
      ∃ s, expandSlack l1.length slack = some s ∧
        Cov (box l1 u1) (box l2 u2) W s (List.replicate W.length tau)) ∧
    (rectIsCoveredTol W l1 u1 l2 u2 slack tau = some .no ↔
      ∃ s, expandSlack l1.length slack = some s ∧
        ¬ Cov (box l1 u1) (box l2 u2) W s (List.replicate W.length tau)) ∧
    rectIsCoveredTol W l1 u1 l2 u2 slack tau ≠ some .inconclusive := by
  unfold rectIsCoveredTol
  rw [hm]
  cases hs : expandSlack l1.length slack with
  | none => simp
  | some s =>
    have hsl := expandSlack_length hs
    obtain ⟨hy, hn⟩ := rect_verdict_iff W l1 u1 l2 u2 s (List.replicate W.length tau) h1 h2 h3 hsl
      (by simp) hW
    simp only [Option.map_some, Option.some.injEq, exists_eq_left', ne_eq]
    exact ⟨hy, hn, rectVerdict_total W l1 u1 l2 u2 s _ hW⟩

/-- **The certified rectangle verdicts are monotone in the margin** (what the harness's
`model-monotone` assertion checks at run time): for `τ ≤ τ'`, `1` at the larger margin `τ'` forces
`1` at `τ`, and `0` at `τ` forces `0` at `τ'`. -/
theorem rect_band_monotone (W : Mat) (l1 u1 l2 u2 slack : Vec) (tau tau' : ℚ) (hle : tau ≤ tau')
    (h1 : u1.length = l1.length) (h2 : l2.length = l1.length) (h3 : u2.length = l1.length)
    (hm : ncols W = l1.length) (hW : ∀ w ∈ W, w.length = l1.length) :
    (rectIsCoveredTol W l1 u1 l2 u2 slack tau' = some .yes →
      rectIsCoveredTol W l1 u1 l2 u2 slack tau = some .yes) ∧
    (rectIsCoveredTol W l1 u1 l2 u2 slack tau = some .no →
      rectIsCoveredTol W l1 u1 l2 u2 slack tau' = some .no) := by
  obtain ⟨hy, hn, -⟩ := rect_band_iff W l1 u1 l2 u2 slack tau h1 h2 h3 hm hW
  obtain ⟨hy', hn', -⟩ := rect_band_iff W l1 u1 l2 u2 slack tau' h1 h2 h3 hm hW
  have mono : ∀ s, Cov (box l1 u1) (box l2 u2) W s (List.replicate W.length tau') →
      Cov (box l1 u1) (box l2 u2) W s (List.replicate W.length tau) := fun s =>
    cov_mono_margin _ _ W s _ _ (forall₂_replicate_le _ tau tau' hle)
  constructor
  · intro h
    obtain ⟨s, hs, hc⟩ := hy'.1 h
    exact hy.2 ⟨s, hs, mono s hc⟩
  · intro h
    obtain ⟨s, hs, hc⟩ := hn.1 h
    exact hn'.2 ⟨s, hs, fun hc' => hc (mono s hc')⟩

/-- **The ball verdict is total** under the guard of the model (radii `≥ 0`, centres of one
dimension `m`, cone rows with `m` entries). -/
theorem ball_verdict_total (W : Mat) (c1 c2 t : Vec) (a1 a2 : ℚ) (ha1 : 0 ≤ a1) (ha2 : 0 ≤ a2)
    (hc : c2.length = c1.length) (hW : ∀ w ∈ W, w.length = c1.length) :
    ballVerdict W c1 a1 c2 a2 t = .yes ∨ ballVerdict W c1 a1 c2 a2 t = .no := by
  have := ballVerdict_total W c1 c2 t a1 a2 ha1 ha2 hc hW
  cases h : ballVerdict W c1 a1 c2 a2 t <;> simp_all

/-- **The ball verdict decides coverability of two balls** (per-facet slack `t`): `yes ↔` some
`z ∈ B(c₁,a₁)`, `z' ∈ B(c₂,a₂)` satisfy `W (z' − z) ≥ t`, `no ↔` none do. -/
theorem ball_verdict_iff (W : Mat) (c1 c2 t : Vec) (a1 a2 : ℚ) (ha1 : 0 ≤ a1) (ha2 : 0 ≤ a2)
    (hc : c2.length = c1.length) (hW : ∀ w ∈ W, w.length = c1.length) (ht : W.length = t.length) :
    (ballVerdict W c1 a1 c2 a2 t = .yes ↔ CoverableFacet (ball c1 a1) (ball c2 a2) W t) ∧
    (ballVerdict W c1 a1 c2 a2 t = .no ↔ ¬ CoverableFacet (ball c1 a1) (ball c2 a2) W t) := by
  have e := cov_zero_shift_iff c1.length (ball c1 a1) (ball c2 a2) W t ball_length
    (fun z hz => (ball_length z hz).trans hc)
  rw [← e]
  exact ⟨ballVerdict_yes_iff W c1 c2 t a1 a2 ha1 ha2 hc hW ht,
    ballVerdict_no_iff W c1 c2 t a1 a2 ha1 ha2 hc hW ht⟩

/-- **`EllipsoidalConfidenceRegion.is_covered` for `Σ = I`, model side, as a decision** (and its
band versions: `τ = 0` is the exact statement).  Under the guard (radii `≥ 0`, one dimension, cone
rows of that dimension) the model answers `1` / `0` exactly according to whether the slack has an
admissible size (1 or the number of facets) and the two balls are coverable with the per-facet slack
`t + τ`; it answers `ValueError` exactly for an inadmissible slack size and never `inconclusive`. -/
theorem ball_band_iff (W : Mat) (c1 c2 slack : Vec) (a1 a2 tau : ℚ) (ha1 : 0 ≤ a1) (ha2 : 0 ≤ a2)
    (hc : c2.length = c1.length) (hW : ∀ w ∈ W, w.length = c1.length) :
    (ballIsCoveredTol W c1 a1 c2 a2 slack tau = some .yes ↔
      ∃ t, expandSlack W.length slack = some t ∧
        CoverableFacet (ball c1 a1) (ball c2 a2) W (t.map (· + tau))) ∧
    (ballIsCoveredTol W c1 a1 c2 a2 slack tau = some .no ↔
      ∃ t, expandSlack W.length slack = some t ∧
        ¬ CoverableFacet (ball c1 a1) (ball c2 a2) W (t.map (· + tau))) ∧
    (ballIsCoveredTol W c1 a1 c2 a2 slack tau = none ↔ expandSlack W.length slack = none) ∧
    ballIsCoveredTol W c1 a1 c2 a2 slack tau ≠ some .inconclusive := by
  unfold ballIsCoveredTol
  cases hs : expandSlack W.length slack with
  | none => simp
  | some t =>
    have htl := expandSlack_length hs
    obtain ⟨hy, hn⟩ := ball_verdict_iff W c1 c2 (t.map (· + tau)) a1 a2 ha1 ha2 hc hW
      (by simp [htl])
    simp only [Option.map_some, Option.some.injEq, reduceCtorEq, exists_eq_left', ne_eq, true_and]
    exact ⟨hy, hn, ballVerdict_total W c1 c2 _ a1 a2 ha1 ha2 hc hW⟩

/-- **The certified ball verdicts are monotone in the margin**: for `τ ≤ τ'`, `1` at `τ'` forces `1`
at `τ`, and `0` at `τ` forces `0` at `τ'`. -/
theorem ball_band_monotone (W : Mat) (c1 c2 slack : Vec) (a1 a2 tau tau' : ℚ) (hle : tau ≤ tau')
    (ha1 : 0 ≤ a1) (ha2 : 0 ≤ a2) (hc : c2.length = c1.length)
    (hW : ∀ w ∈ W, w.length = c1.length) :
    (ballIsCoveredTol W c1 a1 c2 a2 slack tau' = some .yes →
      ballIsCoveredTol W c1 a1 c2 a2 slack tau = some .yes) ∧
    (ballIsCoveredTol W c1 a1 c2 a2 slack tau = some .no →
      ballIsCoveredTol W c1 a1 c2 a2 slack tau' = some .no) := by
  obtain ⟨hy, hn, -, -⟩ := ball_band_iff W c1 c2 slack a1 a2 tau ha1 ha2 hc hW
  obtain ⟨hy', hn', -, -⟩ := ball_band_iff W c1 c2 slack a1 a2 tau' ha1 ha2 hc hW
  have mono : ∀ t : Vec, CoverableFacet (ball c1 a1) (ball c2 a2) W (t.map (· + tau')) →
      CoverableFacet (ball c1 a1) (ball c2 a2) W (t.map (· + tau)) := fun t =>
    coverableFacet_mono _ _ W _ _ (forall₂_map_add_le t tau tau' hle)
  constructor
  · intro h
    obtain ⟨t, ht, hcv⟩ := hy'.1 h
    exact hy.2 ⟨t, ht, mono t hcv⟩
  · intro h
    obtain ⟨t, ht, hcv⟩ := hn.1 h
    exact hn'.2 ⟨t, ht, fun hc' => hcv (mono t hc')⟩

/-- the exact (`τ = 0`) form of `ball_band_iff` for `ballIsCovered` -/
theorem ball_isCovered_iff (W : Mat) (c1 c2 slack : Vec) (a1 a2 : ℚ) (ha1 : 0 ≤ a1) (ha2 : 0 ≤ a2)
    (hc : c2.length = c1.length) (hW : ∀ w ∈ W, w.length = c1.length) :
    (ballIsCovered W c1 a1 c2 a2 slack = some .yes ↔
      ∃ t, expandSlack W.length slack = some t ∧ CoverableFacet (ball c1 a1) (ball c2 a2) W t) ∧
    (ballIsCovered W c1 a1 c2 a2 slack = some .no ↔
      ∃ t, expandSlack W.length slack = some t ∧ ¬ CoverableFacet (ball c1 a1) (ball c2 a2) W t) ∧
    (ballIsCovered W c1 a1 c2 a2 slack = none ↔ expandSlack W.length slack = none) ∧
    ballIsCovered W c1 a1 c2 a2 slack ≠ some .inconclusive := by
  unfold ballIsCovered
  cases hs : expandSlack W.length slack with
  | none => simp
  | some t =>
    have htl := expandSlack_length hs
    obtain ⟨hy, hn⟩ := ball_verdict_iff W c1 c2 t a1 a2 ha1 ha2 hc hW (by simp [htl])
    simp only [Option.map_some, Option.some.injEq, reduceCtorEq, exists_eq_left', ne_eq, true_and]
    exact ⟨hy, hn, ballVerdict_total W c1 c2 _ a1 a2 ha1 ha2 hc hW⟩

/-! ## Non-vacuity: concrete instances evaluated by the kernel -/

/-- the unit box is covered by `[2,3]²` under the orthant order, even with margin 1 on each facet -/
example : rectVerdict [[1, 0], [0, 1]] [0, 0] [1, 1] [2, 2] [3, 3] [0, 0] [1, 1] = .yes := by
  decide +kernel

/-- … and not the other way round (Farkas certificate found and checked) -/
example : rectVerdict [[1, 0], [0, 1]] [2, 2] [3, 3] [0, 0] [1, 1] [0, 0] [0, 0] = .no := by
  decide +kernel

/-- a slack decides: `[0,1]²` vs `[1/2,2]×[-3,5/4]` with slack `(1/4,1/8)` is covered, with slack
`(1/4,11/8)` it is not -/
example : rectIsCovered [[1, 0], [0, 1]] [0, 0] [1, 1] [1/2, -3] [2, 5/4] [1/4, 1/8] = some .yes ∧
    rectIsCovered [[1, 0], [0, 1]] [0, 0] [1, 1] [1/2, -3] [2, 5/4] [1/4, 11/8] = some .no := by
  decide +kernel

/-- balls: `B((3,4),2)` vs `B(0,3)` touch under the orthant order (distance 5 = 2 + 3): covered;
with radii 2 and 2 they are not -/
example : ballVerdict [[1, 0], [0, 1]] [3, 4] 2 [0, 0] 3 [0, 0] = .yes ∧
    ballVerdict [[1, 0], [0, 1]] [3, 4] 2 [0, 0] 2 [0, 0] = .no := by
  decide +kernel

/-- a separating multiplier for two ellipsoids and a witness pair for two others -/
example : checkEllSep [[1, 0], [0, 1]] [3, 3] [[1, 0], [1/2, 1]] 1 [0, 0] [[1, 0], [0, 1/2]] 1
      [0, 0] [1, 1] = true ∧
    checkEllWitness [[1, 0], [0, 1]] [0, 0] [[1, 0], [1/2, 1]] 1 [1, 1] [[1, 0], [0, 1/2]] 1
      [0, 0] [1/2, 0] [1/2, 1/2] = true := by
  decide +kernel

/-- the complete search answers on its own: a feasible and an infeasible system in two unknowns
(`x ≥ 0, y ≥ 0, −x − y ≥ −1` and the same with `−x − y ≥ 1`) -/
example : feasibleFM 2 [⟨[1, 0], 0⟩, ⟨[0, 1], 0⟩, ⟨[-1, -1], -1⟩] = some true ∧
    feasibleFM 2 [⟨[1, 0], 0⟩, ⟨[0, 1], 0⟩, ⟨[-1, -1], 1⟩] = some false := by
  decide +kernel

/-- … and on the full LP of the code for the boxes of the first two examples (the fallback path of
`rectVerdict`, which the fast path never reaches in practice) -/
example : feasibleFM 4 (rectSys [[1, 0], [0, 1]] [0, 0] [1, 1] [2, 2] [3, 3] [0, 0] [1, 1]) =
      some true ∧
    feasibleFM 4 (rectSys [[1, 0], [0, 1]] [2, 2] [3, 3] [0, 0] [1, 1] [0, 0] [0, 0]) =
      some false := by
  decide +kernel

/-- the decision theorem applied: from the kernel-evaluated verdicts, `[0,1]²` is coverable by
`[1/2,2]×[-3,5/4]` with slack `(1/4,1/8)` over `ℝ` and *not* coverable with slack `(1/4,11/8)` -/
example : Coverable (box [0, 0] [1, 1]) (box [1/2, -3] [2, 5/4]) [[1, 0], [0, 1]] [1/4, 1/8] ∧
    ¬ Coverable (box [0, 0] [1, 1]) (box [1/2, -3] [2, 5/4]) [[1, 0], [0, 1]] [1/4, 11/8] := by
  have hW : ∀ w ∈ ([[1, 0], [0, 1]] : Mat), w.length = ([0, 0] : Vec).length := by decide
  constructor
  · obtain ⟨s, hs, h⟩ := (rect_isCovered_iff [[1, 0], [0, 1]] [0, 0] [1, 1] [1/2, -3] [2, 5/4]
      [1/4, 1/8] rfl rfl rfl rfl hW).1.1 (by decide +kernel)
    cases hs; exact h
  · obtain ⟨s, hs, h⟩ := (rect_isCovered_iff [[1, 0], [0, 1]] [0, 0] [1, 1] [1/2, -3] [2, 5/4]
      [1/4, 11/8] rfl rfl rfl rfl hW).2.1.1 (by decide +kernel)
    cases hs; exact h

/-- … and conversely a semantic fact forces the verdict: the unit box is coverable by itself
(`z = z'`), so the model must answer `1` -/
example : rectIsCovered [[1, 0], [0, 1]] [0, 0] [1, 1] [0, 0] [1, 1] [0] = some .yes := by
  have hW : ∀ w ∈ ([[1, 0], [0, 1]] : Mat), w.length = ([0, 0] : Vec).length := by decide
  refine (rect_isCovered_iff [[1, 0], [0, 1]] [0, 0] [1, 1] [0, 0] [1, 1] [0] rfl rfl rfl rfl
    hW).1.2 ⟨[0, 0], rfl, [0, 0], ?_, [0, 0], ?_, ?_⟩
  · simp [box, InBox]
  · simp [box, InBox]
  · intro w hw
    simp only [List.mem_cons, List.not_mem_nil, or_false] at hw
    rcases hw with rfl | rfl <;> simp [rsub]

/-- the active-set search on a polyhedron with a redundant (linearly dependent) active row: the
nearest point of `{x ≥ 1, y ≥ 1, x + y ≥ 2}` to the origin is `(1,1)` -/
example : (nearest 2 [⟨[1, 0], 1⟩, ⟨[0, 1], 1⟩, ⟨[1, 1], 2⟩] [0, 0]).map (·.1) = some [1, 1] := by
  decide +kernel

/-! ## INVARIANCES — translation, positive scaling, cone-row scaling and permutation

For the decisions the driver ops `rect` / `ball` evaluate (`rectVerdict`, `rectIsCovered(Tol)`,
`ballVerdict`, `ballIsCovered(Tol)`), for the certificate-checked verdict of general ellipsoids
(`ellVerdict`) and for the semantic predicate `Cov` over ellipsoids (helpers: `Proofs/InvCovered.lean`).
Hypotheses are the well-formedness conditions of `rect_verdict_iff` / `ball_verdict_iff` only (one
dimension, cone rows of that dimension); nothing about `l ≤ u` or the sign of the radii.  These are
the statements the metamorphic checks of the harness rely on (translated / rescaled / large-offset
cases, non-unit and re-ordered cone rows give the same verdict). -/

section Invariance

/-- **Rectangles: common translation.**  The certified verdict (any objective-space slack `s`, any
per-facet margins `t`) does not change when both boxes are translated by one vector `τ`; hence
neither do `is_covered` (`rectIsCovered`) and its band versions, whatever the slack argument. -/
theorem rect_isCovered_translate (W : Mat) (l1 u1 l2 u2 τ : Vec)
    (h1 : u1.length = l1.length) (h2 : l2.length = l1.length) (h3 : u2.length = l1.length)
    (hm : ncols W = l1.length) (hW : ∀ w ∈ W, w.length = l1.length) (hτ : τ.length = l1.length) :
    (∀ s t : Vec, s.length = l1.length → W.length = t.length →
      rectVerdict W (vadd l1 τ) (vadd u1 τ) (vadd l2 τ) (vadd u2 τ) s t = rectVerdict W l1 u1 l2 u2 s t) ∧
    (∀ (slack : Vec) (tau : ℚ),
      rectIsCoveredTol W (vadd l1 τ) (vadd u1 τ) (vadd l2 τ) (vadd u2 τ) slack tau =
        rectIsCoveredTol W l1 u1 l2 u2 slack tau) ∧
    (∀ slack : Vec,
      rectIsCovered W (vadd l1 τ) (vadd u1 τ) (vadd l2 τ) (vadd u2 τ) slack =
        rectIsCovered W l1 u1 l2 u2 slack) := by
  have base := fun s t hs ht => rectVerdict_translate W l1 u1 l2 u2 s t τ h1 h2 h3 hs ht hW hτ
  refine ⟨base, ?_, ?_⟩
  · intro slack tau
    unfold rectIsCoveredTol
    cases hs : expandSlack (ncols W) slack with
    | none => rfl
    | some sv =>
      simp only [Option.map_some, Option.some.injEq]
      exact base sv _ ((expandSlack_length hs).trans hm) (by simp)
  · intro slack
    unfold rectIsCovered
    cases hs : expandSlack (ncols W) slack with
    | none => rfl
    | some sv =>
      simp only [Option.map_some, Option.some.injEq]
      exact base sv _ ((expandSlack_length hs).trans hm) (by simp [zeros])

/-- **Rectangles: positive scaling.**  Scaling both boxes, the slack and the margins by `k > 0` leaves
the verdict unchanged (`is_covered` with the slack scaled; band margin `τ ↦ k·τ`). -/
theorem rect_isCovered_scale (W : Mat) (k : ℚ) (hk : 0 < k) (l1 u1 l2 u2 : Vec)
    (h1 : u1.length = l1.length) (h2 : l2.length = l1.length) (h3 : u2.length = l1.length)
    (hm : ncols W = l1.length) (hW : ∀ w ∈ W, w.length = l1.length) :
    (∀ s t : Vec, s.length = l1.length → W.length = t.length →
      rectVerdict W (smul k l1) (smul k u1) (smul k l2) (smul k u2) (smul k s) (smul k t) =
        rectVerdict W l1 u1 l2 u2 s t) ∧
    (∀ (slack : Vec) (tau : ℚ),
      rectIsCoveredTol W (smul k l1) (smul k u1) (smul k l2) (smul k u2) (smul k slack) (k * tau) =
        rectIsCoveredTol W l1 u1 l2 u2 slack tau) ∧
    (∀ slack : Vec,
      rectIsCovered W (smul k l1) (smul k u1) (smul k l2) (smul k u2) (smul k slack) =
        rectIsCovered W l1 u1 l2 u2 slack) := by
  have base := fun s t hs ht => rectVerdict_scale W k hk l1 u1 l2 u2 s t h1 h2 h3 hs ht hW
  refine ⟨base, ?_, ?_⟩
  · intro slack tau
    unfold rectIsCoveredTol
    rw [expandSlack_smul]
    cases hs : expandSlack (ncols W) slack with
    | none => rfl
    | some sv =>
      simp only [Option.map_some, Option.some.injEq]
      have := base sv (List.replicate W.length tau) ((expandSlack_length hs).trans hm) (by simp)
      rwa [Inv.smul_replicate] at this
  · intro slack
    unfold rectIsCovered
    rw [expandSlack_smul]
    cases hs : expandSlack (ncols W) slack with
    | none => rfl
    | some sv =>
      simp only [Option.map_some, Option.some.injEq]
      have := base sv (zeros W.length) ((expandSlack_length hs).trans hm) (by simp [zeros])
      rwa [Covered.smul_zeros k] at this

/-- **Rectangles: cone rows may be rescaled and re-ordered.**  Multiplying row `n` of `W` and margin
`t n` by the same `D n > 0` leaves the verdict unchanged; `is_covered` itself (margins 0,
objective-space slack) is therefore unchanged by a positive row scaling *with the same slack*, and
`is_covered` and all its band versions are unchanged by a permutation of the rows. -/
theorem rect_isCovered_rows (W : Mat) (l1 u1 l2 u2 : Vec)
    (h1 : u1.length = l1.length) (h2 : l2.length = l1.length) (h3 : u2.length = l1.length)
    (hm : ncols W = l1.length) (hW : ∀ w ∈ W, w.length = l1.length) :
    (∀ (D s t : Vec), (∀ e ∈ D, 0 < e) → D.length = W.length → s.length = l1.length →
      W.length = t.length →
      rectVerdict (List.zipWith smul D W) l1 u1 l2 u2 s (List.zipWith (· * ·) D t) =
        rectVerdict W l1 u1 l2 u2 s t) ∧
    (∀ (D slack : Vec), (∀ e ∈ D, 0 < e) → D.length = W.length →
      rectIsCovered (List.zipWith smul D W) l1 u1 l2 u2 slack = rectIsCovered W l1 u1 l2 u2 slack) ∧
    (∀ (W' : Mat) (slack : Vec) (tau : ℚ), W.Perm W' →
      rectIsCoveredTol W' l1 u1 l2 u2 slack tau = rectIsCoveredTol W l1 u1 l2 u2 slack tau) := by
  have base := fun (D s t : Vec) hD hlen hs ht =>
    rectVerdict_scaleRows D W l1 u1 l2 u2 s t hD hlen h1 h2 h3 hs ht hW
  refine ⟨base, ?_, ?_⟩
  · intro D slack hD hlen
    unfold rectIsCovered
    rw [ncols_scaleRows D W hlen]
    cases hs : expandSlack (ncols W) slack with
    | none => rfl
    | some sv =>
      simp only [Option.map_some, Option.some.injEq]
      have := base D sv (zeros W.length) hD hlen ((expandSlack_length hs).trans hm) (by simp [zeros])
      rw [zipWith_mul_zeros D W.length hlen] at this
      simpa [hlen] using this
  · intro W' slack tau hp
    have hnc : ncols W' = ncols W := by
      cases W with
      | nil => rw [List.nil_perm.mp hp]
      | cons w W0 =>
        cases W' with
        | nil => exact absurd hp.symm (by simp)
        | cons w' W0' =>
          simp only [ncols]
          rw [hW w (by simp), hW w' (hp.mem_iff.mpr (by simp))]
    unfold rectIsCoveredTol
    rw [hnc, ← hp.length_eq]
    cases hs : expandSlack (ncols W) slack with
    | none => rfl
    | some sv =>
      simp only [Option.map_some, Option.some.injEq]
      have hz : ∀ V : Mat, (V.zip (List.replicate V.length tau)).map Prod.fst = V ∧
          (V.zip (List.replicate V.length tau)).map Prod.snd = List.replicate V.length tau :=
        fun V => ⟨map_fst_zip V _ (by simp), map_snd_zip V _ (by simp)⟩
      have hperm : (W.zip (List.replicate W.length tau)).Perm (W'.zip (List.replicate W.length tau)) := by
        have : ∀ V : Mat, V.zip (List.replicate V.length tau) = V.map (fun w => (w, tau)) := by
          intro V; induction V with
          | nil => rfl
          | cons v V ih => simp [List.replicate_succ, ih]
        rw [this W, hp.length_eq, this W']
        exact hp.map _
      have := rectVerdict_perm hperm l1 u1 l2 u2 sv h1 h2 h3 ((expandSlack_length hs).trans hm)
        (by
          intro p hp'
          exact hW p.1 (by have := (List.of_mem_zip hp').1; exact this))
      rw [(hz W).1, (hz W).2] at this
      rw [hp.length_eq, (hz W').1, (hz W').2, ← hp.length_eq] at this
      exact this.symm

/-- **Balls: common translation, positive scaling.**  The certified ball verdict (per-facet slack `t`)
is unchanged when both centres are translated by `τ`, and when centres, both radii and the slack are
scaled by `k > 0`; so are `is_covered` for `Σ = I` (`ballIsCovered`) and its band versions.  No sign
condition on the radii. -/
theorem ball_isCovered_translate_scale (W : Mat) (c1 c2 : Vec) (a1 a2 : ℚ)
    (hc : c2.length = c1.length) (hW : ∀ w ∈ W, w.length = c1.length) :
    (∀ t τ : Vec, W.length = t.length → τ.length = c1.length →
      ballVerdict W (vadd c1 τ) a1 (vadd c2 τ) a2 t = ballVerdict W c1 a1 c2 a2 t) ∧
    (∀ (slack τ : Vec) (tau : ℚ), τ.length = c1.length →
      ballIsCoveredTol W (vadd c1 τ) a1 (vadd c2 τ) a2 slack tau = ballIsCoveredTol W c1 a1 c2 a2 slack tau) ∧
    (∀ (k : ℚ) (t : Vec), 0 < k → W.length = t.length →
      ballVerdict W (smul k c1) (k * a1) (smul k c2) (k * a2) (smul k t) = ballVerdict W c1 a1 c2 a2 t) ∧
    (∀ (k : ℚ) (slack : Vec) (tau : ℚ), 0 < k →
      ballIsCoveredTol W (smul k c1) (k * a1) (smul k c2) (k * a2) (smul k slack) (k * tau) =
        ballIsCoveredTol W c1 a1 c2 a2 slack tau) := by
  refine ⟨fun t τ ht hτ => ballVerdict_translate W c1 c2 t τ a1 a2 hc hW ht hτ, ?_,
    fun k t hk ht => ballVerdict_scale W k hk c1 c2 t a1 a2 hc hW ht, ?_⟩
  · intro slack τ tau hτ
    unfold ballIsCoveredTol
    cases hs : expandSlack W.length slack with
    | none => rfl
    | some sv =>
      simp only [Option.map_some, Option.some.injEq]
      exact ballVerdict_translate W c1 c2 _ τ a1 a2 hc hW (by simp [expandSlack_length hs]) hτ
  · intro k slack tau hk
    unfold ballIsCoveredTol
    rw [expandSlack_smul]
    cases hs : expandSlack W.length slack with
    | none => rfl
    | some sv =>
      simp only [Option.map_some, Option.some.injEq]
      have e : (smul k sv).map (· + k * tau) = smul k (sv.map (· + tau)) := by
        simp only [smul, List.map_map]
        apply List.map_congr_left
        intro x _; simp [mul_add]
      rw [e]
      exact ballVerdict_scale W k hk c1 c2 _ a1 a2 hc hW (by simp [expandSlack_length hs])

/-- **Balls: a cone row may be rescaled together with its slack entry, and the facets re-ordered.**
The ellipsoid slack is per facet: row `n` and slack entry `n` multiplied by the same `D n > 0`, or
the (row, slack) pairs permuted, give the same verdict. -/
theorem ball_isCovered_rows (c1 c2 : Vec) (a1 a2 : ℚ) (hc : c2.length = c1.length) :
    (∀ (W : Mat) (D t : Vec), (∀ e ∈ D, 0 < e) → D.length = W.length →
      (∀ w ∈ W, w.length = c1.length) → W.length = t.length →
      ballVerdict (List.zipWith smul D W) c1 a1 c2 a2 (List.zipWith (· * ·) D t) =
        ballVerdict W c1 a1 c2 a2 t) ∧
    (∀ ws ws' : List (Vec × ℚ), ws.Perm ws' → (∀ p ∈ ws, p.1.length = c1.length) →
      ballVerdict (ws.map Prod.fst) c1 a1 c2 a2 (ws.map Prod.snd) =
        ballVerdict (ws'.map Prod.fst) c1 a1 c2 a2 (ws'.map Prod.snd)) :=
  ⟨fun W D t hD hlen hW ht => ballVerdict_scaleRows D W c1 c2 t a1 a2 hD hlen hc hW ht,
   fun _ _ h hW => ballVerdict_perm h c1 c2 a1 a2 hc hW⟩

/-- **General ellipsoids.**  (i) The certificates of a case certify every translate of it: with the
same proposed witness `u₁, u₂` and multiplier `lam`, `ellVerdict` answers the same after a common
translation of the centres.  (ii) The semantic predicate itself (any slack `s`, margins `t`) is
invariant under a common translation of the centres and under scaling centres, radii `alpha`, slack
and margins by `k > 0` (the factors `L` fixed: `{k·c + L u | ‖u‖ ≤ k·a} = k·{c + L u | ‖u‖ ≤ a}`). -/
theorem ell_isCovered_translate_scale (W : Mat) (c1 c2 : Vec) (L1 L2 : Mat) (a1 a2 : ℚ) (s t : Vec) :
    (∀ (u1 u2 lam τ : Vec), c1.length = τ.length → c2.length = τ.length →
      ellVerdict W (vadd c1 τ) L1 a1 (vadd c2 τ) L2 a2 t u1 u2 lam =
        ellVerdict W c1 L1 a1 c2 L2 a2 t u1 u2 lam) ∧
    (∀ τ : Vec, c1.length = τ.length → c2.length = τ.length →
      (Cov (ell (vadd c1 τ) L1 a1) (ell (vadd c2 τ) L2 a2) W s t ↔
        Cov (ell c1 L1 a1) (ell c2 L2 a2) W s t)) ∧
    (∀ k : ℚ, 0 < k →
      (Cov (ell (smul k c1) L1 (k * a1)) (ell (smul k c2) L2 (k * a2)) W (smul k s) (smul k t) ↔
        Cov (ell c1 L1 a1) (ell c2 L2 a2) W s t)) :=
  ⟨fun u1 u2 lam τ h1 h2 => ellVerdict_translate W c1 L1 a1 c2 L2 a2 t u1 u2 lam τ h1 h2,
   fun τ h1 h2 => cov_ell_translate W c1 c2 s t τ L1 L2 a1 a2 h1 h2,
   fun k hk => cov_ell_scale W k hk c1 c2 s t L1 L2 a1 a2⟩

/-- non-vacuity, large offset and tiny gap: `[0,1]²` against `[−1, 2⁻²⁰]²` is covered under the
orthant order (the boxes overlap by `2⁻²⁰`) and `[−1, −2⁻²⁰]²` is not; both verdicts survive the
translation by `(2²⁰, −2²⁰)` -/
example :
    rectIsCovered [[1, 0], [0, 1]] [0, 0] [1, 1] [-1, -1] [1 / 1048576, 1 / 1048576] [0] = some .yes ∧
    rectIsCovered [[1, 0], [0, 1]] (vadd [0, 0] [1048576, -1048576]) (vadd [1, 1] [1048576, -1048576])
      (vadd [-1, -1] [1048576, -1048576]) (vadd [1 / 1048576, 1 / 1048576] [1048576, -1048576]) [0] = some .yes ∧
    rectIsCovered [[1, 0], [0, 1]] [0, 0] [1, 1] [-1, -1] [-1 / 1048576, -1 / 1048576] [0] = some .no ∧
    rectIsCovered [[1, 0], [0, 1]] (vadd [0, 0] [1048576, -1048576]) (vadd [1, 1] [1048576, -1048576])
      (vadd [-1, -1] [1048576, -1048576]) (vadd [-1 / 1048576, -1 / 1048576] [1048576, -1048576]) [0] = some .no := by
  decide +kernel

/-- … balls `B((3,4),2)`, `B(0,3)` (touching: distance 5) translated by `(2²⁰, 2²⁰)`, and scaled by
`2⁻²⁰` -/
example :
    ballVerdict [[1, 0], [0, 1]] (vadd [3, 4] [1048576, 1048576]) 2 (vadd [0, 0] [1048576, 1048576]) 3 [0, 0] = .yes ∧
    ballVerdict [[1, 0], [0, 1]] (vadd [3, 4] [1048576, 1048576]) 2 (vadd [0, 0] [1048576, 1048576]) (3 - 1 / 1048576) [0, 0] = .no ∧
    ballVerdict [[1, 0], [0, 1]] (smul (1 / 1048576) [3, 4]) (1 / 1048576 * 2) (smul (1 / 1048576) [0, 0])
      (1 / 1048576 * 3) (smul (1 / 1048576) [0, 0]) = .yes := by
  decide +kernel

end Invariance

end VOPy.C10
