import VOPyVerif.Proofs.Empirical
import VOPyVerif.Proofs.EmpiricalInvariance
import VOPyVerif.Proofs.EmpiricalRunning
/-!
# C16 — the empirical model reports per-design running statistics of all samples

Property theorems only (helper lemmas: `Proofs/Empirical.lean`).  They are about the executable
model `Empirical.add / clear / update / predict / run` (`Model/Empirical.lean`) that the driver
replays against the real `EmpiricalMeanVarModel`.

Vocabulary (defined next to the model, looking only at the list of calls): `heldFor count d ops` =
the samples added for design `d` since the last `clear_data()` of the history `ops`, in arrival order;
`flagsAfter` = the value of the two public flags after a history; `WF m count ops` = every
`add_sample` of the history is either well-formed (valid design numbers `0 ≤ i < count`, rows that are
`m`-vectors, as many indices as rows, at least one) or stopped by the guard at the top of the method.
`meanOf` / `varOf` are the statistics `update()` stores (`np.mean(axis=0)` or zeros;
`np.diag(np.var(axis=0))` for ≥ 2 samples, else `noise_var·I`); `mean_spec` / `var_spec` below spell
them out entry by entry.
-/
namespace VOPy.C16
open VOPy VOPy.Empirical

/-- **Main theorem (statistics after any history).**  Take any history that contains an `update()`:
`pre`, then the last `update()`, then `post` (any calls except `update`; its adds may even be
ill-formed).  For every list `I` of valid design numbers, `predict` succeeds and reports, for each
`i ∈ I` (in the order of `I`):
* if means are tracked now: `meanOf` of exactly the samples added for `i` since the last clear, as of
  the last update (`heldFor count i pre`) — the arithmetic mean, or the zero vector when there are
  none; otherwise the zero vector;
* if variances are tracked now: `varOf` of the same samples — the diagonal matrix of per-objective
  population variances when there are at least two, else `noise·I`; otherwise the identity.
"Tracked now" requires that the flag was also on at the last update (the stored attribute is `None`
otherwise and the real `predict` raises `TypeError`). -/
theorem predict_after_history {m count : Nat} (noise : Rat) (tm0 tv0 : Bool) (hm : 0 < m)
    (pre post : List Op) (hwf : WF m count pre) (hpost : ∀ o ∈ post, o.isUpdate = false)
    (I : List Nat) (hI : ∀ i ∈ I, i < count)
    (hM : (flagsAfter (tm0, tv0) (pre ++ .update :: post)).1 = true → (flagsAfter (tm0, tv0) pre).1 = true)
    (hV : (flagsAfter (tm0, tv0) (pre ++ .update :: post)).2 = true → (flagsAfter (tm0, tv0) pre).2 = true) :
    predict (run (init m count noise tm0 tv0) (pre ++ .update :: post)) (I.map (fun (i : Nat) => (i : Int))) =
      .ok (I.map (fun i => if (flagsAfter (tm0, tv0) (pre ++ .update :: post)).1
                           then meanOf m (heldFor count i pre) else zeros m),
           I.map (fun i => if (flagsAfter (tm0, tv0) (pre ++ .update :: post)).2
                           then varOf m noise (heldFor count i pre) else diagOf m (fun _ => 1))) := by
  set st0 := init m count noise tm0 tv0 with hst0
  set stU := run st0 pre with hstU
  have hrun : run st0 (pre ++ .update :: post) = run (update stU) post := by
    rw [run_append, run_cons]; rfl
  obtain ⟨pm, pc, pn⟩ := run_params st0 pre
  have hsamp : stU.samples = (List.range count).map (fun d => heldFor count d pre) :=
    run_samples hm st0 rfl rfl rfl pre hwf
  have hfU := run_flags st0 pre
  have hfN := run_flags st0 (pre ++ .update :: post)
  have hstats := run_noUpdate_stats (update stU) post hpost
  obtain ⟨qm, _, _⟩ := run_params (update stU) post
  have e1 : (flagsAfter (tm0, tv0) (pre ++ .update :: post)).1 = (run st0 (pre ++ .update :: post)).trackMeans := by
    rw [show (tm0, tv0) = (st0.trackMeans, st0.trackVars) from rfl, ← hfN]
  have e2 : (flagsAfter (tm0, tv0) (pre ++ .update :: post)).2 = (run st0 (pre ++ .update :: post)).trackVars := by
    rw [show (tm0, tv0) = (st0.trackMeans, st0.trackVars) from rfl, ← hfN]
  have u1 : (flagsAfter (tm0, tv0) pre).1 = stU.trackMeans := by
    rw [show (tm0, tv0) = (st0.trackMeans, st0.trackVars) from rfl, ← hfU]
  have u2 : (flagsAfter (tm0, tv0) pre).2 = stU.trackVars := by
    rw [show (tm0, tv0) = (st0.trackMeans, st0.trackVars) from rfl, ← hfU]
  rw [e1] at hM
  rw [e2] at hV
  rw [e1, e2]
  have pm' : stU.m = m := pm
  have pn' : stU.noise = noise := pn
  have hmm : (run st0 (pre ++ .update :: post)).m = m := by
    rw [hrun, qm]; exact pm
  have := predict_of_stats (run st0 (pre ++ .update :: post)) count I hI
    (fun i => meanOf m (heldFor count i pre)) (fun i => varOf m noise (heldFor count i pre))
    (by
      intro h
      have hu : stU.trackMeans = true := by rw [← u1]; exact hM h
      rw [hrun, hstats.1]
      simp only [update, hu, if_true, hsamp, List.map_map, Function.comp_def, pm'])
    (by
      intro h
      have hu : stU.trackVars = true := by rw [← u2]; exact hV h
      rw [hrun, hstats.2]
      simp only [update, hu, if_true, hsamp, List.map_map, Function.comp_def, pm', pn'])
  rw [this, hmm]

/-- non-vacuity: two designs, three interleaved batches, a clear in the middle, a rejected add, a
stale add after the last update, and the Auer-style flag toggle -/
example :
    predict (run (init 2 2 (1/4) true true)
      [.add [0, 1] [[9, 9], [9, 9]], .clear, .add [1, 0, 1] [[1, 2], [3, 4], [5, 6]],
       .add [2] [[7, 7]], .add [1] [[3, 1]], .update, .add [0] [[100, 100]],
       .setFlags true false, .setFlags true true]) [0, 1]
      = .ok ([[3, 4], [3, 3]], [[[1/4, 0], [0, 1/4]], [[8/3, 0], [0, 14/3]]]) := by
  decide +kernel

/-- **What `meanOf` is.**  For a non-empty sample list every entry `j < m` of the reported mean is the
sum of the `j`-th coordinates divided by the number of samples; for an empty list (design never
sampled) it is the zero vector. -/
theorem mean_spec (m : Nat) (S : List Vec) :
    (S ≠ [] → meanOf m S = (List.range m).map (fun j => (S.map (fun y => y.getD j 0)).sum / (S.length : Rat))) ∧
    (S = [] → meanOf m S = List.replicate m 0) := by
  constructor
  · intro h
    have : 0 < S.length := List.length_pos_iff.mpr h
    simp [meanOf, this, mean, colOf]
  · rintro rfl
    simp [meanOf, zeros]

/-- **What `varOf` is.**  With at least two samples the reported covariance is diagonal with, on the
diagonal, the population variance (divisor `n`, not `n − 1`) of each objective:
`Σ (y_j − ȳ_j)² / n`; with fewer than two samples it is `noise·I`.  (`diagOf m f` has `f i` at `(i, i)`
and `0` elsewhere.) -/
theorem var_spec (m : Nat) (noise : Rat) (S : List Vec) :
    (2 ≤ S.length → varOf m noise S = diagOf m (fun j =>
        let c := S.map (fun y => y.getD j 0)
        let μ := c.sum / (S.length : Rat)
        (c.map (fun x => (x - μ) * (x - μ))).sum / (S.length : Rat))) ∧
    (S.length < 2 → varOf m noise S = diagOf m (fun _ => noise)) ∧
    (∀ f : Nat → Rat, ∀ i j, i < m → j < m →
        ((diagOf m f)[i]?.bind (·[j]?)) = some (if i = j then f i else 0)) := by
  refine ⟨?_, ?_, fun f i j hi hj => diagOf_entry m f hi hj⟩
  · intro h
    have : 1 < S.length := h
    simp [varOf, this, popVar, mean, colOf]
  · intro h
    have : ¬ 1 < S.length := by omega
    simp [varOf, this]

/-- The population variance is the mean of squares minus the squared mean (König–Huygens) and is
never negative. -/
theorem popVar_alt (c : List Rat) (hc : c ≠ []) :
    popVar c = mean (c.map (fun x => x * x)) - mean c * mean c ∧ 0 ≤ popVar c :=
  ⟨popVar_eq_meanSq_sub c hc, popVar_nonneg c⟩

/-- **Order / batching / interleaving independence, general form.**  Two histories (each with a last
update, well-formed before it) whose held samples form the same multiset for every design
(`List.Perm`), with the same flags now and at the last update, give identical predictions for every
list of valid designs. -/
theorem predict_perm_invariant {m count : Nat} (noise : Rat) (tm0 tv0 : Bool) (hm : 0 < m)
    (pre₁ post₁ pre₂ post₂ : List Op) (hwf₁ : WF m count pre₁) (hwf₂ : WF m count pre₂)
    (hpost₁ : ∀ o ∈ post₁, o.isUpdate = false) (hpost₂ : ∀ o ∈ post₂, o.isUpdate = false)
    (hperm : ∀ d < count, (heldFor count d pre₁).Perm (heldFor count d pre₂))
    (hnow : flagsAfter (tm0, tv0) (pre₁ ++ .update :: post₁) = flagsAfter (tm0, tv0) (pre₂ ++ .update :: post₂))
    (hM₁ : (flagsAfter (tm0, tv0) (pre₁ ++ .update :: post₁)).1 = true → (flagsAfter (tm0, tv0) pre₁).1 = true)
    (hV₁ : (flagsAfter (tm0, tv0) (pre₁ ++ .update :: post₁)).2 = true → (flagsAfter (tm0, tv0) pre₁).2 = true)
    (hM₂ : (flagsAfter (tm0, tv0) (pre₂ ++ .update :: post₂)).1 = true → (flagsAfter (tm0, tv0) pre₂).1 = true)
    (hV₂ : (flagsAfter (tm0, tv0) (pre₂ ++ .update :: post₂)).2 = true → (flagsAfter (tm0, tv0) pre₂).2 = true)
    (I : List Nat) (hI : ∀ i ∈ I, i < count) :
    predict (run (init m count noise tm0 tv0) (pre₁ ++ .update :: post₁)) (I.map (fun (i : Nat) => (i : Int))) =
    predict (run (init m count noise tm0 tv0) (pre₂ ++ .update :: post₂)) (I.map (fun (i : Nat) => (i : Int))) := by
  rw [predict_after_history noise tm0 tv0 hm pre₁ post₁ hwf₁ hpost₁ I hI hM₁ hV₁,
    predict_after_history noise tm0 tv0 hm pre₂ post₂ hwf₂ hpost₂ I hI hM₂ hV₂, hnow]
  congr 2
  · apply List.map_congr_left
    intro i hi
    rw [meanOf_perm m (hperm i (hI i hi))]
  · apply List.map_congr_left
    intro i hi
    rw [varOf_perm m noise (hperm i (hI i hi))]

/-- **Re-batching.**  Any two lists of well-formed batches whose flattened `(design, sample)` pair
lists are permutations of each other — the same samples cut into different batches, batches in a
different order, designs interleaved differently — followed by `update()`, give identical
predictions for every list of valid designs; and that prediction is the mean / variance of the
design's samples among all pairs. -/
theorem rebatch_invariant {m count : Nat} (noise : Rat) (tm tv : Bool) (hm : 0 < m)
    (A B : List (List Nat × List Vec))
    (hA : ∀ b ∈ A, CleanBatch m count b) (hB : ∀ b ∈ B, CleanBatch m count b)
    (hperm : (A.flatMap (fun b => b.1.zip b.2)).Perm (B.flatMap (fun b => b.1.zip b.2)))
    (I : List Nat) (hI : ∀ i ∈ I, i < count) :
    predict (run (init m count noise tm tv) (A.map addOp ++ [.update])) (I.map (fun (i : Nat) => (i : Int))) =
      predict (run (init m count noise tm tv) (B.map addOp ++ [.update])) (I.map (fun (i : Nat) => (i : Int))) ∧
    predict (run (init m count noise tm tv) (A.map addOp ++ [.update])) (I.map (fun (i : Nat) => (i : Int))) =
      .ok (I.map (fun i => if tm then meanOf m (samplesFor i (A.flatMap (fun b => b.1.zip b.2))) else zeros m),
           I.map (fun i => if tv then varOf m noise (samplesFor i (A.flatMap (fun b => b.1.zip b.2)))
                           else diagOf m (fun _ => 1))) := by
  have hflags : ∀ bs : List (List Nat × List Vec), flagsAfter (tm, tv) (bs.map addOp) = (tm, tv) := by
    intro bs
    induction bs with
    | nil => rfl
    | cons b rest ih => simpa [addOp, flagsAfter] using ih
  have hflags' : ∀ bs : List (List Nat × List Vec),
      flagsAfter (tm, tv) (bs.map addOp ++ [.update]) = (tm, tv) := by
    intro bs
    induction bs with
    | nil => rfl
    | cons b rest ih => simpa [addOp, flagsAfter] using ih
  constructor
  · apply predict_perm_invariant noise tm tv hm (A.map addOp) [] (B.map addOp) []
      (WF_batches A hA) (WF_batches B hB) (by simp) (by simp)
    · intro d _
      rw [heldFor_batches d A hA, heldFor_batches d B hB]
      exact samplesFor_perm d hperm
    · rw [hflags', hflags']
    · rw [hflags' A, hflags A]; exact id
    · rw [hflags' A, hflags A]; exact id
    · rw [hflags' B, hflags B]; exact id
    · rw [hflags' B, hflags B]; exact id
    · exact hI
  · rw [predict_after_history noise tm tv hm (A.map addOp) [] (WF_batches A hA) (by simp) I hI
      (by rw [hflags' A, hflags A]; exact id) (by rw [hflags' A, hflags A]; exact id), hflags' A]
    congr 2
    · apply List.map_congr_left
      intro i _
      rw [heldFor_batches i A hA]
    · apply List.map_congr_left
      intro i _
      rw [heldFor_batches i A hA]

/-- non-vacuity: the same five samples as one batch and as three re-ordered batches -/
example :
    predict (run (init 1 2 1 true true)
      ([([0, 1, 0, 1, 0], [[1], [2], [3], [4], [8]])].map addOp ++ [.update])) [0, 1] =
    predict (run (init 1 2 1 true true)
      ([([1, 0], [[4], [8]]), ([0], [[1]]), ([0, 1], [[3], [2]])].map addOp ++ [.update])) [0, 1] := by
  decide +kernel

/-- **Unsampled designs.**  A design with no sample since the last clear (as of the last update) is
reported with the zero mean and covariance `noise·I`. -/
theorem unsampled_zero_mean {m count : Nat} (noise : Rat) (hm : 0 < m)
    (pre post : List Op) (hwf : WF m count pre) (hpost : ∀ o ∈ post, o.isUpdate = false)
    (i : Nat) (hi : i < count) (hnone : heldFor count i pre = [])
    (hnow : flagsAfter (true, true) (pre ++ .update :: post) = (true, true))
    (hupd : flagsAfter (true, true) pre = (true, true)) :
    predict (run (init m count noise true true) (pre ++ .update :: post)) [(i : Int)] =
      .ok ([List.replicate m 0], [diagOf m (fun _ => noise)]) := by
  have := predict_after_history noise true true hm pre post hwf hpost [i] (by simpa using hi)
    (by rw [hupd]; intro; rfl) (by rw [hupd]; intro; rfl)
  simp only [List.map_cons, List.map_nil, hnow, hnone, if_true] at this
  rw [this]
  simp [meanOf, varOf, zeros]

/-- **Untracked statistics.**  Whatever the object holds (even before any update, and for any index
list), with both flags off `predict` reports zero means and identity covariances; with only one
flag off the corresponding half is reported that way (see `predict_after_history`). -/
theorem untracked_zero_identity (st : State) (idx : List Int)
    (hM : st.trackMeans = false) (hV : st.trackVars = false) :
    predict st idx = .ok (idx.map (fun _ => List.replicate st.m 0), idx.map (fun _ => diagOf st.m (fun _ => 1))) := by
  simp [predict, hM, hV, zeros]

/-- **Rejection.**  `add_sample` raises `ValueError` and leaves the object exactly as it was when the
numbers of indices and rows differ, when there are no indices, or when some index is at or beyond
the design count — and only then does the guard stop the call (`guardOk_iff`). -/
theorem add_rejects (st : State) (idx : List Int) (Y : List Vec)
    (h : idx.length ≠ Y.length ∨ idx = [] ∨ ∃ i ∈ idx, (st.count : Int) ≤ i) :
    add st idx Y = (st, some .valueError) := by
  apply add_rejected
  cases hg : guardOk st.count idx Y.length with
  | false => rfl
  | true =>
    obtain ⟨h1, h2, h3⟩ := (guardOk_iff _ _ _).1 hg
    rcases h with h | h | ⟨i, hi, h⟩
    · exact absurd h1 h
    · exact absurd h h2
    · have := h3 i hi; omega

/-- **Accepted adds append per design.**  A well-formed batch (natural design numbers) is accepted and
appends to every design's store exactly that design's samples of the batch, in batch order (zip
pairing of indices with rows); nothing else changes. -/
theorem add_accepts (st : State) (hm : 0 < st.m) (hlen : st.samples.length = st.count)
    (b : List Nat × List Vec) (hb : CleanBatch st.m st.count b) :
    add st (b.1.map (fun (i : Nat) => (i : Int))) b.2 =
      ({ st with samples := (st.samples.mapIdx (fun d s => s ++ samplesFor d (b.1.zip b.2))) }, none) := by
  have h := add_clean hm hlen (addOp_clean hb)
  have e := addOp_pairs hb
  simp only [addOp] at e
  rw [e] at h
  exact h

/-- **Rejected adds can be ignored.**  Deleting from a history every `add_sample` that the guard
stops does not change the final state (hence no later prediction). -/
theorem rejected_adds_ignored (st : State) (ops : List Op) :
    run st ops = run st (ops.filter (fun o => !o.rejected st.count)) :=
  run_filter_rejected st ops

end VOPy.C16

/-! # INVARIANCE — shifting / scaling the samples

The statement behind the large-offset stream of the harness: the reported statistics are *exactly*
equivariant — means move with the data, variances see only deviations.  Any loss of accuracy at large
offsets in an implementation (e.g. a one-pass `E[x²] − E[x]²` formula) is therefore a floating-point
artefact, not something the specification allows.  `Op.affine a c` replaces every sample row `y` of
every `add_sample` of a history by `affRow a c y = a·y + c` (`c` holds one constant per objective). -/
namespace VOPy.C16
open VOPy VOPy.Empirical

/-- **Affine equivariance after any history.**  Under the hypotheses of `predict_after_history`, for
any factor `a` and any vector `c` of one constant per objective: after the history in which every
sample value `y` was replaced by `a·y + c`, `predict` reports for each design `i` of `I`
* mean: `a·mean + c` of the original held samples if the design holds at least one sample (as of the
  last update), and the zero vector if it holds none — the zero vector of an unsampled design does
  *not* move;
* covariance: `a²` times the original covariance if the design holds at least two samples, and the
  configured `noise·I` otherwise (the `< 2` samples branch does not see the data at all);
the untracked defaults (zero vector, identity) as before. -/
theorem predict_affine_history {m count : Nat} (noise : Rat) (tm0 tv0 : Bool) (hm : 0 < m)
    (a : Rat) (c : Vec) (hc : c.length = m)
    (pre post : List Op) (hwf : WF m count pre) (hpost : ∀ o ∈ post, o.isUpdate = false)
    (I : List Nat) (hI : ∀ i ∈ I, i < count)
    (hM : (flagsAfter (tm0, tv0) (pre ++ .update :: post)).1 = true → (flagsAfter (tm0, tv0) pre).1 = true)
    (hV : (flagsAfter (tm0, tv0) (pre ++ .update :: post)).2 = true → (flagsAfter (tm0, tv0) pre).2 = true) :
    predict (run (init m count noise tm0 tv0) ((pre ++ .update :: post).map (Op.affine a c)))
        (I.map (fun (i : Nat) => (i : Int))) =
      .ok (I.map (fun i => if (flagsAfter (tm0, tv0) (pre ++ .update :: post)).1
                           then (if heldFor count i pre = [] then zeros m
                                 else affRow a c (meanOf m (heldFor count i pre)))
                           else zeros m),
           I.map (fun i => if (flagsAfter (tm0, tv0) (pre ++ .update :: post)).2
                           then (if 1 < (heldFor count i pre).length
                                 then (varOf m noise (heldFor count i pre)).map (smul (a * a))
                                 else diagOf m (fun _ => noise))
                           else diagOf m (fun _ => 1))) := by
  subst hc
  have hmap : (pre ++ Op.update :: post).map (Op.affine a c) =
      pre.map (Op.affine a c) ++ Op.update :: post.map (Op.affine a c) := by
    simp [Op.affine]
  have hfl : ∀ l, flagsAfter (tm0, tv0) (l.map (Op.affine a c)) = flagsAfter (tm0, tv0) l :=
    fun l => flagsAfter_affine a c l _
  have hfl2 := hfl (pre ++ Op.update :: post)
  rw [hmap] at hfl2 ⊢
  rw [predict_after_history noise tm0 tv0 hm (pre.map (Op.affine a c)) (post.map (Op.affine a c))
    (WF_affine a c count pre hwf)
    (by
      intro o ho
      obtain ⟨o', ho', rfl⟩ := List.mem_map.mp ho
      rw [affine_isUpdate]; exact hpost o' ho')
    I hI (by rw [hfl2, hfl pre]; exact hM) (by rw [hfl2, hfl pre]; exact hV)]
  rw [hfl2]
  congr 2
  · apply List.map_congr_left
    intro i _
    rw [heldFor_affine, meanOf_affine a c _ (heldFor_rows i pre hwf)]
  · apply List.map_congr_left
    intro i _
    rw [heldFor_affine, varOf_affine a c noise _ (heldFor_rows i pre hwf)]
    by_cases h1 : 1 < (heldFor count i pre).length
    · simp [h1]
    · simp [h1, varOf]

/-- **Shift invariance** (`a = 1`): adding the constant `c_d` to every sample value of objective `d`
adds `c` to the reported mean of every sampled design and leaves **every reported covariance exactly
unchanged** — including the `noise·I` of designs with fewer than two samples. -/
theorem predict_shift_history {m count : Nat} (noise : Rat) (tm0 tv0 : Bool) (hm : 0 < m)
    (c : Vec) (hc : c.length = m)
    (pre post : List Op) (hwf : WF m count pre) (hpost : ∀ o ∈ post, o.isUpdate = false)
    (I : List Nat) (hI : ∀ i ∈ I, i < count)
    (hM : (flagsAfter (tm0, tv0) (pre ++ .update :: post)).1 = true → (flagsAfter (tm0, tv0) pre).1 = true)
    (hV : (flagsAfter (tm0, tv0) (pre ++ .update :: post)).2 = true → (flagsAfter (tm0, tv0) pre).2 = true) :
    predict (run (init m count noise tm0 tv0) ((pre ++ .update :: post).map (Op.affine 1 c)))
        (I.map (fun (i : Nat) => (i : Int))) =
      .ok (I.map (fun i => if (flagsAfter (tm0, tv0) (pre ++ .update :: post)).1
                           then (if heldFor count i pre = [] then zeros m
                                 else vadd (meanOf m (heldFor count i pre)) c)
                           else zeros m),
           I.map (fun i => if (flagsAfter (tm0, tv0) (pre ++ .update :: post)).2
                           then varOf m noise (heldFor count i pre) else diagOf m (fun _ => 1))) := by
  rw [predict_affine_history noise tm0 tv0 hm 1 c hc pre post hwf hpost I hI hM hV]
  congr 2
  · apply List.map_congr_left
    intro i _
    simp only [affRow_one_shift]
  · apply List.map_congr_left
    intro i _
    have e : (smul 1 : Vec → Vec) = id := by funext v; simp [smul]
    by_cases h1 : 1 < (heldFor count i pre).length
    · simp [h1, e]
    · simp [h1, varOf]

/-- **Scaling** (`c = 0`): multiplying every sample value by `a` multiplies every reported mean by `a`
and every data-dependent covariance by `a²` (designs with fewer than two samples keep `noise·I`). -/
theorem predict_scale_history {m count : Nat} (noise : Rat) (tm0 tv0 : Bool) (hm : 0 < m)
    (a : Rat)
    (pre post : List Op) (hwf : WF m count pre) (hpost : ∀ o ∈ post, o.isUpdate = false)
    (I : List Nat) (hI : ∀ i ∈ I, i < count)
    (hM : (flagsAfter (tm0, tv0) (pre ++ .update :: post)).1 = true → (flagsAfter (tm0, tv0) pre).1 = true)
    (hV : (flagsAfter (tm0, tv0) (pre ++ .update :: post)).2 = true → (flagsAfter (tm0, tv0) pre).2 = true) :
    predict (run (init m count noise tm0 tv0) ((pre ++ .update :: post).map (Op.affine a (zeros m))))
        (I.map (fun (i : Nat) => (i : Int))) =
      .ok (I.map (fun i => if (flagsAfter (tm0, tv0) (pre ++ .update :: post)).1
                           then smul a (meanOf m (heldFor count i pre)) else zeros m),
           I.map (fun i => if (flagsAfter (tm0, tv0) (pre ++ .update :: post)).2
                           then (if 1 < (heldFor count i pre).length
                                 then (varOf m noise (heldFor count i pre)).map (smul (a * a))
                                 else diagOf m (fun _ => noise))
                           else diagOf m (fun _ => 1))) := by
  rw [predict_affine_history noise tm0 tv0 hm a (zeros m) (by simp [zeros]) pre post hwf hpost I hI hM hV]
  congr 2
  apply List.map_congr_left
  intro i _
  have hlen : (meanOf m (heldFor count i pre)).length = m := by
    simp only [meanOf]; split <;> simp [zeros]
  by_cases h0 : heldFor count i pre = []
  · simp [h0, meanOf, zeros, smul]
  · simp only [h0, if_false, affRow_scale a m _ hlen]

/-- the per-design statements the three theorems rest on: for samples that are `m`-vectors,
`mean(a·y + c) = a·mean(y) + c` (none: zero vector) and `Var(a·y + c) = a²·Var(y)` (fewer than two:
`noise·I`) — `c` has one entry per objective. -/
theorem stats_affine (a : Rat) (c : Vec) (noise : Rat) (S : List Vec) (hS : ∀ y ∈ S, y.length = c.length) :
    meanOf c.length (S.map (affRow a c)) =
      (if S = [] then zeros c.length else affRow a c (meanOf c.length S)) ∧
    varOf c.length noise (S.map (affRow a c)) =
      (if 1 < S.length then (varOf c.length noise S).map (smul (a * a)) else varOf c.length noise S) :=
  ⟨meanOf_affine a c S hS, varOf_affine a c noise S hS⟩

/-! ### non-vacuity: offset `2^20`, spread `2^-10` -/

/-- design 0 receives `2^20 + k·2^-10` (k = 1, 3) in objective 0 and `−2^20 ± 2^-10` in objective 1;
design 1 a single sample; design 2 none.  The variances `(2^-10)²` are reported exactly, the single
sample gives `noise·I`, the unsampled design the zero vector. -/
example :
    predict (run (init 2 3 (1/4) true true)
      [.add [0, 0, 1] [[1048576 + 1/1024, -1048576 - 1/1024], [1048576 + 3/1024, -1048576 + 1/1024],
                       [1048576, -1048576]], .update]) [0, 1, 2]
      = .ok ([[1048576 + 2/1024, -1048576], [1048576, -1048576], [0, 0]],
             [[[1/1048576, 0], [0, 1/1048576]], [[1/4, 0], [0, 1/4]], [[1/4, 0], [0, 1/4]]]) := by
  decide +kernel

/-- the same result through the shift by `c = (2^20, −2^20)` of a history with values of size `2^-10`
(evaluated), and the hypotheses of `predict_shift_history` hold for it -/
example :
    predict (run (init 2 3 (1/4) true true)
      (([.add [0, 0, 1] [[1/1024, -1/1024], [3/1024, 1/1024], [0, 0]], .update] : List Op).map
        (Op.affine 1 [1048576, -1048576]))) [0, 1, 2]
      = .ok ([[1048576 + 2/1024, -1048576], [1048576, -1048576], [0, 0]],
             [[[1/1048576, 0], [0, 1/1048576]], [[1/4, 0], [0, 1/4]], [[1/4, 0], [0, 1/4]]]) ∧
    WF 2 3 [.add [0, 0, 1] [[1/1024, -1/1024], [3/1024, 1/1024], [0, 0]]] := by
  constructor
  · decide +kernel
  · intro o ho
    simp only [List.mem_singleton] at ho
    subst ho
    exact Or.inl (by decide +kernel)

end VOPy.C16

/-! # RUNNING STATISTICS — the batch formulas are what an incremental accumulator holds

`update()` recomputes `np.mean` / `np.var` over all stored samples.  The theorems below show that the
numbers it reports obey the one-sample-at-a-time (Welford) recurrences and stay inside the range of the
samples, so "per-design running statistics of all samples" holds literally: nothing is forgotten,
nothing is weighted differently, and no value outside the data can be reported.  They quantify over
every sample list and every new sample (helper lemmas: `Proofs/EmpiricalRunning.lean`). -/
namespace VOPy.C16
open VOPy VOPy.Empirical

/-- **Running mean.**  When one more sample `y` arrives for a design holding the samples `S`, every
entry `j < m` of the reported mean moves by `(y_j − old mean_j)/(n+1)`, `n = |S|` — also for the first
sample (`n = 0`, old "mean" the zero vector of an unsampled design). -/
theorem running_mean (m : Nat) (S : List Vec) (y : Vec) (j : Nat) (hj : j < m) :
    (meanOf m (S ++ [y])).getD j 0 =
      (meanOf m S).getD j 0 + (y.getD j 0 - (meanOf m S).getD j 0) / ((S.length : Rat) + 1) := by
  have hcol : colOf j (S ++ [y]) = colOf j S ++ [y.getD j 0] := by simp [colOf]
  by_cases hS : S = []
  · subst hS
    simp [meanOf, colOf, mean, zeros, hj]
  · have hpos : 0 < S.length := List.length_pos_iff.mpr hS
    have hlen : (colOf j S).length = S.length := by simp [colOf]
    simp only [meanOf, List.length_append, List.length_cons, List.length_nil, gt_iff_lt,
      Nat.lt_add_left_iff_pos, Nat.zero_lt_succ, ↓reduceIte, hpos]
    simp only [List.getD_eq_getElem?_getD, List.getElem?_map, List.getElem?_range hj,
      Option.map_some, Option.getD_some]
    rw [hcol, mean_snoc, hlen]
    simp [List.getD_eq_getElem?_getD]

/-- **Running variance (Welford).**  With `n = |S| ≥ 2` samples held and one more sample `y`, the
diagonal entry `j` of the reported covariance satisfies
`(n+1)·var' = n·var + (y_j − mean_j)·(y_j − mean'_j)` (entries read from the reported matrices and
means). -/
theorem running_variance (m : Nat) (noise : Rat) (S : List Vec) (y : Vec) (j : Nat) (hj : j < m)
    (hS : 2 ≤ S.length) :
    ((S.length : Rat) + 1) * (((varOf m noise (S ++ [y]))[j]?.bind (·[j]?)).getD 0) =
      (S.length : Rat) * (((varOf m noise S)[j]?.bind (·[j]?)).getD 0)
        + (y.getD j 0 - (meanOf m S).getD j 0) * (y.getD j 0 - (meanOf m (S ++ [y])).getD j 0) := by
  have hcol : colOf j (S ++ [y]) = colOf j S ++ [y.getD j 0] := by simp [colOf]
  have hlen : (colOf j S).length = S.length := by simp [colOf]
  have h1 : 1 < S.length := hS
  have h1' : 1 < (S ++ [y]).length := by simp; omega
  have h0 : 0 < S.length := by omega
  have h0' : 0 < (S ++ [y]).length := by simp
  have hv : ∀ T : List Vec, 1 < T.length →
      ((varOf m noise T)[j]?.bind (·[j]?)).getD 0 = popVar (colOf j T) := by
    intro T hT
    simp only [varOf, gt_iff_lt, hT, ↓reduceIte]
    rw [diagOf_entry m _ hj hj]
    simp
  have hmn : ∀ T : List Vec, 0 < T.length → (meanOf m T).getD j 0 = mean (colOf j T) := by
    intro T hT
    simp only [meanOf, gt_iff_lt, hT, ↓reduceIte]
    simp [List.getD_eq_getElem?_getD, List.getElem?_range hj]
  rw [hv _ h1', hv _ h1, hmn _ h0, hmn _ h0', hcol]
  have := sumSqDev_snoc (colOf j S) (y.getD j 0)
  rw [hlen] at this
  exact this

/-- **The reported mean stays inside the data.**  For a design holding at least one sample, every
entry `j < m` of the reported mean lies between any lower and upper bound of the `j`-th coordinates of
its samples (in particular between their minimum and maximum). -/
theorem mean_within_samples (m : Nat) (S : List Vec) (hS : S ≠ []) (j : Nat) (hj : j < m) (lo hi : Rat)
    (h : ∀ y ∈ S, lo ≤ y.getD j 0 ∧ y.getD j 0 ≤ hi) :
    lo ≤ (meanOf m S).getD j 0 ∧ (meanOf m S).getD j 0 ≤ hi := by
  have hpos : 0 < S.length := List.length_pos_iff.mpr hS
  have hmn : (meanOf m S).getD j 0 = mean (colOf j S) := by
    simp only [meanOf, gt_iff_lt, hpos, ↓reduceIte]
    simp [List.getD_eq_getElem?_getD, List.getElem?_range hj]
  have hne : colOf j S ≠ [] := by simpa [colOf] using hS
  rw [hmn]
  constructor
  · apply mean_ge_of_forall_ge _ _ hne
    intro x hx
    simp only [colOf, List.mem_map] at hx
    obtain ⟨y, hy, rfl⟩ := hx
    exact (h y hy).1
  · apply mean_le_of_forall_le _ _ hne
    intro x hx
    simp only [colOf, List.mem_map] at hx
    obtain ⟨y, hy, rfl⟩ := hx
    exact (h y hy).2

/-- **Repeated identical samples.**  A design that received the same vector `y` `n ≥ 2` times reports
mean `y` (entry by entry) and variance exactly `0` on the diagonal — never the `noise·I` fallback,
never a negative number. -/
theorem identical_samples (m : Nat) (noise : Rat) (y : Vec) (n : Nat) (hn : 2 ≤ n) (j : Nat) (hj : j < m) :
    (meanOf m (List.replicate n y)).getD j 0 = y.getD j 0 ∧
    ((varOf m noise (List.replicate n y))[j]?.bind (·[j]?)).getD 0 = 0 := by
  have h1 : 1 < (List.replicate n y).length := by simp; omega
  have h0 : 0 < (List.replicate n y).length := by simp; omega
  have hcol : colOf j (List.replicate n y) = List.replicate n (y.getD j 0) := by
    simp [colOf, List.map_replicate]
  have hq : (n : Rat) ≠ 0 := by
    have : 0 < n := by omega
    exact_mod_cast this.ne'
  constructor
  · simp only [meanOf, gt_iff_lt, h0, ↓reduceIte]
    simp only [List.getD_eq_getElem?_getD, List.getElem?_map, List.getElem?_range hj,
      Option.map_some, Option.getD_some, hcol]
    simp only [mean, List.sum_replicate, List.length_replicate, nsmul_eq_mul]
    field_simp
  · simp only [varOf, gt_iff_lt, h1, ↓reduceIte]
    rw [diagOf_entry m _ hj hj, hcol, popVar_const]
    simp

/-- non-vacuity: three samples `(1,5),(3,5),(8,5)` then a fourth `(0,1)`; the recurrences hold on the
evaluated reports and the means lie within the sample range -/
example :
    meanOf 2 [[1, 5], [3, 5], [8, 5]] = [4, 5] ∧ meanOf 2 [[1, 5], [3, 5], [8, 5], [0, 1]] = [3, 4] ∧
    varOf 2 (1/4) [[1, 5], [3, 5], [8, 5]] = [[26/3, 0], [0, 0]] ∧
    varOf 2 (1/4) [[1, 5], [3, 5], [8, 5], [0, 1]] = [[19/2, 0], [0, 3]] ∧
    ((3 : Rat) + 1) * (19/2) = 3 * (26/3) + (0 - 4) * (0 - 3) := by
  refine ⟨by decide +kernel, by decide +kernel, by decide +kernel, by decide +kernel, by norm_num⟩

end VOPy.C16
