import VOPyVerif.Proofs.RegionUpdate
import VOPyVerif.Proofs.InvRegion
/-!
# C14 — displayed confidence regions are exactly the model's prediction scaled

Property theorems only (helper lemmas: `Proofs/RegionUpdate.lean`).  They are about the executable
model `Region.update` / `Rect.update` / `Rect.intersect` / `Ell.update` / `Region.run`
(`Model/RegionUpdate.lean`) that the driver replays against `FixedPointsDesignSpace.update`,
`AdaptivelyDiscretizedDesignSpace.update` and the two region classes.

The model takes `std = sqrt(diag cov)` as an input next to `cov` (the harness exports numpy's value
and checks `std ≥ 0`, `std² ≈ cov_jj`); `rect_update_sqrt` turns the hypothesis
`0 ≤ std_j ∧ std_j² = cov_jj` into the statement with `Real.sqrt`.  "Disjoint" in the property is read
as *interior-disjoint*: rectangles that only touch are treated by the code as not intersecting
(`intersect_rule`).
-/
namespace VOPy.C14
open VOPy VOPy.Region

/-- **Rectangle update, entry by entry.**  Without iterative intersection a successful update
replaces the rectangle by `[mean_j − std_j·s_j, mean_j + std_j·s_j]` in every objective `j`, where
`s` is the scale row broadcast to the objective dimension (a row of size `m` as is, a row of size 1
repeated); the centre `(lower + upper)/2` is exactly the mean; the flag is kept. -/
theorem rect_update_entries (r r' : Rect) (p : Pred) (scale : Vec)
    (h : r.update p scale = .ok r') (hi : r.iter = false) :
    r'.iter = false ∧ r'.lower.length = p.std.length ∧ r'.upper.length = p.std.length ∧
    ∃ s', bcast p.std.length scale = some s' ∧
      ∀ (j : Nat) (μ σ a : Rat), p.mean[j]? = some μ → p.std[j]? = some σ → s'[j]? = some a →
        r'.lower[j]? = some (μ - σ * a) ∧ r'.upper[j]? = some (μ + σ * a) ∧ r'.center[j]? = some μ := by
  unfold Rect.update at h
  split at h
  · simp at h
  · split at h
    · simp at h
    · rename_i L U hb
      simp only [hi, Bool.false_eq_true, if_false, Except.ok.injEq] at h
      subst h
      obtain ⟨h1, h2, s', hs', hent⟩ := bounds_entry hb
      refine ⟨rfl, h1, h2, s', hs', ?_⟩
      intro j μ σ a hμ hσ ha
      obtain ⟨e1, e2⟩ := hent j μ σ a hμ hσ ha
      refine ⟨e1, e2, ?_⟩
      simp only [Rect.center, List.getElem?_zipWith, e1, e2]
      simp only [Option.some.injEq]
      ring

/-- The update succeeds exactly on well-shaped input: square covariance, mean and std of the same
length `m`, scale row of size `m` or 1; otherwise it is a `ValueError`. -/
theorem rect_update_ok_iff (r : Rect) (p : Pred) (scale : Vec) :
    (∃ r', r.update p scale = .ok r') ↔
      (isSquare p.cov = true ∧ p.mean.length = p.std.length ∧
        (scale.length = p.std.length ∨ scale.length = 1)) := by
  unfold Rect.update bounds bcast
  constructor
  · rintro ⟨r', h⟩
    split at h
    · simp at h
    · rename_i hsq
      simp only [Bool.not_eq_true', Bool.not_eq_false] at hsq
      split at h
      · simp at h
      · rename_i L U hb
        split at hb
        · simp at hb
        · rename_i s' hs'
          split at hb
          · rename_i hml
            refine ⟨hsq, hml, ?_⟩
            split at hs'
            · rename_i hsl; exact Or.inl hsl
            · split at hs'
              · exact Or.inr rfl
              · simp at hs'
          · simp at hb
  · rintro ⟨hsq, hml, hs⟩
    simp only [hsq, Bool.not_true, Bool.false_eq_true, if_false]
    rcases hs with hs | hs
    · simp [hs, hml]
    · by_cases hm : scale.length = p.std.length
      · simp [hm, hml]
      · obtain ⟨a, rfl⟩ := List.length_eq_one_iff.mp hs
        have hm' : ¬ (1 = p.std.length) := by simpa using hm
        simp [hm', hml]

/-- **The half-width is `scale × √cov_jj`.**  If the given `std` is the non-negative square root of
the covariance diagonal (`0 ≤ std_j`, `std_j² = cov_jj`), the updated rectangle is, over ℝ,
`[mean_j − s_j·√cov_jj, mean_j + s_j·√cov_jj]`. -/
theorem rect_update_sqrt (r r' : Rect) (p : Pred) (scale : Vec)
    (h : r.update p scale = .ok r') (hi : r.iter = false)
    (hstd : ∀ (j : Nat) (σ c : Rat), p.std[j]? = some σ → (p.cov[j]?.bind (·[j]?)) = some c → 0 ≤ σ ∧ σ * σ = c) :
    ∃ s', bcast p.std.length scale = some s' ∧
      ∀ (j : Nat) (μ σ a c lo up : Rat), p.mean[j]? = some μ → p.std[j]? = some σ → s'[j]? = some a →
        (p.cov[j]?.bind (·[j]?)) = some c → r'.lower[j]? = some lo → r'.upper[j]? = some up →
        (lo : ℝ) = (μ : ℝ) - (a : ℝ) * Real.sqrt (c : ℝ) ∧ (up : ℝ) = (μ : ℝ) + (a : ℝ) * Real.sqrt (c : ℝ) := by
  obtain ⟨_, _, _, s', hs', hent⟩ := rect_update_entries r r' p scale h hi
  refine ⟨s', hs', ?_⟩
  intro j μ σ a c lo up hμ hσ ha hc hlo hup
  obtain ⟨e1, e2, _⟩ := hent j μ σ a hμ hσ ha
  obtain ⟨h0, hsq⟩ := hstd j σ c hσ hc
  have hroot : Real.sqrt (c : ℝ) = (σ : ℝ) := by
    rw [← hsq]
    push_cast
    exact Real.sqrt_mul_self (by exact_mod_cast h0)
  rw [e1] at hlo
  rw [e2] at hup
  simp only [Option.some.injEq] at hlo hup
  subst hlo hup
  rw [hroot]
  push_cast
  constructor <;> ring

/-- non-vacuity: variance 1/4 and 4 (std 1/2 and 2), scalar scale 3 -/
example :
    ({ lower := [0, 0], upper := [1, 1], iter := false } : Rect).update
      { mean := [1, -2], cov := [[1/4, 1/8], [1/8, 4]], std := [1/2, 2] } [3]
      = .ok { lower := [-1/2, -8], upper := [5/2, 4], iter := false } := by decide +kernel

/-- **Ellipsoid update.**  With a square covariance and a scale of size one the ellipsoid becomes
exactly `(center, sigma, alpha) = (mean, cov, scale)`; any other scale size is a `ValueError`. -/
theorem ell_update (e : Ell) (p : Pred) (scale : Vec) (hsq : isSquare p.cov = true) :
    (∀ a, scale = [a] → e.update p scale = .ok { center := p.mean, sigma := p.cov, alpha := a }) ∧
    (scale.length ≠ 1 → e.update p scale = .error .valueError) := by
  constructor
  · rintro a rfl
    simp [Ell.update, hsq]
  · intro hl
    unfold Ell.update
    simp only [hsq, Bool.not_true, Bool.false_eq_true, if_false]
    split
    · simp at hl
    · rfl

/-- **Listed designs get their own prediction; the others are untouched.**  For a duplicate-free index
list and a call that raises nothing: the number of regions is unchanged; every design that is not
listed keeps its region; and the design at position `k` of the list, say `i`, ends with
`Region.update` of *its own previous region* by *row `i` of the full-matrix prediction* and the scale
row of position `k` (scalar: `[s]`; 1-D: the vector; 2-D: row `k`). -/
theorem update_listed_unlisted (regs : List Region) (table : List Pred) (sc : Scale) (idx : List Nat)
    (hnd : idx.Nodup) (hok : (update regs table sc idx).2 = none) :
    (update regs table sc idx).1.length = regs.length ∧
    (∀ d, d ∉ idx → (update regs table sc idx).1[d]? = regs[d]?) ∧
    (∀ k i, idx[k]? = some i → ∃ (r : Region) (p : Pred) (r' : Region), regs[i]? = some r ∧ table[i]? = some p ∧
        r.update p (scaleRow sc k) = .ok r' ∧ (update regs table sc idx).1[i]? = some r') :=
  ⟨update_length regs table sc idx, fun d hd => update_unlisted regs table sc idx d hd,
   fun k i hk => update_listed regs table sc idx hnd hok k i hk⟩

/-- **The property for hyper-rectangles, end to end.**  After `update` with a duplicate-free list
(no exception), the design `i` at position `k`, if its rectangle does not intersect iteratively, is
displayed as `[mean_j − s_j·std_j, mean_j + s_j·std_j]` with centre `mean`, where `(mean, std)` is row
`i` of the full-matrix prediction and `s` the broadcast of the scale row of position `k`. -/
theorem listed_rect_is_prediction_scaled (regs : List Region) (table : List Pred) (sc : Scale)
    (idx : List Nat) (hnd : idx.Nodup) (hok : (update regs table sc idx).2 = none)
    (k i : Nat) (hk : idx[k]? = some i) (r : Rect) (hr : regs[i]? = some (.rect r)) (hi : r.iter = false) :
    ∃ (p : Pred) (r' : Rect), table[i]? = some p ∧ (update regs table sc idx).1[i]? = some (.rect r') ∧
      r'.iter = false ∧
      ∃ s', bcast p.std.length (scaleRow sc k) = some s' ∧
        ∀ (j : Nat) (μ σ a : Rat), p.mean[j]? = some μ → p.std[j]? = some σ → s'[j]? = some a →
          r'.lower[j]? = some (μ - σ * a) ∧ r'.upper[j]? = some (μ + σ * a) ∧ r'.center[j]? = some μ := by
  obtain ⟨r0, p, r1, h0, hp, hupd, hres⟩ := update_listed regs table sc idx hnd hok k i hk
  rw [hr] at h0
  simp only [Option.some.injEq] at h0
  subst h0
  simp only [VOPy.Region.Region.update] at hupd
  cases hq : r.update p (scaleRow sc k) with
  | error e => simp [hq, Except.map] at hupd
  | ok r' =>
    simp only [hq, Except.map, Except.ok.injEq] at hupd
    subst hupd
    obtain ⟨e1, _, _, s', hs', hent⟩ := rect_update_entries r r' p (scaleRow sc k) hq hi
    exact ⟨p, r', hp, hres, e1, s', hs', hent⟩

/-- **The property for ellipsoids, end to end.**  After `update` with a duplicate-free list (no
exception), the ellipsoid of the design `i` at position `k` is `(mean, cov, s)`: row `i` of the
full-matrix prediction and the single entry of the scale row of position `k`. -/
theorem listed_ell_is_prediction (regs : List Region) (table : List Pred) (sc : Scale)
    (idx : List Nat) (hnd : idx.Nodup) (hok : (update regs table sc idx).2 = none)
    (k i : Nat) (hk : idx[k]? = some i) (e : Ell) (he : regs[i]? = some (.ell e)) :
    ∃ (p : Pred) (a : Rat), table[i]? = some p ∧ scaleRow sc k = [a] ∧
      (update regs table sc idx).1[i]? = some (.ell { center := p.mean, sigma := p.cov, alpha := a }) := by
  obtain ⟨r0, p, r1, h0, hp, hupd, hres⟩ := update_listed regs table sc idx hnd hok k i hk
  rw [he] at h0
  simp only [Option.some.injEq] at h0
  subst h0
  simp only [VOPy.Region.Region.update, Ell.update] at hupd
  split at hupd
  · simp [Except.map] at hupd
  · split at hupd
    · rename_i a hsc
      simp only [Except.map, Except.ok.injEq] at hupd
      subst hupd
      exact ⟨p, a, hp, hsc, hres⟩
    · simp [Except.map] at hupd

/-- non-vacuity: three rectangles, designs 2 and 0 updated (in this order) with per-design scales -/
example :
    (update [.rect (Rect.init 1), .rect (Rect.init 1), .rect (Rect.init 1)]
      [{ mean := [1], cov := [[1]], std := [1] }, { mean := [5], cov := [[1]], std := [1] },
       { mean := [-1], cov := [[4]], std := [2] }]
      (.mat [[2], [3]]) [2, 0]) =
    ([.rect { lower := [-2], upper := [4], iter := false }, .rect (Rect.init 1),
      .rect { lower := [-5], upper := [3], iter := false }], none) := by decide +kernel

/-- **Unlisted designs are untouched in every case** — also with duplicates in the list and when the
call stops with an exception half-way. -/
theorem unlisted_untouched (regs : List Region) (table : List Pred) (sc : Scale) (idx : List Nat) (d : Nat)
    (hd : d ∉ idx) : (update regs table sc idx).1[d]? = regs[d]? :=
  update_unlisted regs table sc idx d hd

/-- **Duplicates.**  The loop is sequential: running it over `a ++ b` is running it over `a` and then,
if nothing was raised, over `b` from the regions `a` left.  So a design listed twice is updated twice,
in list order, each time with the prediction of that design and the scale row of that *position*;
for an ellipsoid or a rectangle without iterative intersection the last occurrence wins
(`rect_update_entries` does not mention the previous bounds), with iterative intersection both
rectangles are intersected in turn. -/
theorem duplicates_sequential (a b : List (Nat × Pred × Vec)) (regs : List Region) :
    updLoop regs (a ++ b) =
      if (updLoop regs a).2 = none then updLoop (updLoop regs a).1 b else updLoop regs a :=
  updLoop_append a b regs

/-- **Malformed scale.**  A 2-D scale whose number of rows differs from the number of listed designs,
or a scale with more than two axes, raises `ValueError` before anything is touched. -/
theorem bad_scale_rejected (regs : List Region) (table : List Pred) (idx : List Nat) :
    (∀ M : Mat, M.length ≠ idx.length → update regs table (.mat M) idx = (regs, some .valueError)) ∧
    update regs table .other idx = (regs, some .valueError) := by
  constructor
  · intro M hM
    simp [update, scaleRows, hM]
  · simp [update, scaleRows]

/-- **`lower ≤ upper` is an invariant of every call sequence with non-negative scales.**  Starting
from fresh regions, after any sequence of `update` (any index lists, duplicates, exceptions half-way),
child creation and toggling of `intersect_iteratively` — with and without intersection — every
rectangle satisfies `lower_j ≤ upper_j` for all `j`, provided every scale entry and every predicted
standard deviation is non-negative. -/
theorem lower_le_upper_invariant (n m : Nat) (ops : List Op) (hops : ∀ o ∈ ops, opNonneg o) :
    AllValid (run (List.replicate n (.rect (Rect.init m))) ops) :=
  run_valid ops _ hops (init_valid n m).1

/-- non-vacuity of the invariant's hypotheses: an intersecting update sequence -/
example : opNonneg (.upd [{ mean := [1], cov := [[1]], std := [1] }] (.scalar 2) [0]) := by
  refine ⟨?_, ?_⟩
  · intro p hp σ hσ
    simp only [List.mem_singleton] at hp
    subst hp
    simp only [List.mem_singleton] at hσ
    subst hσ
    norm_num
  · show (0 : Rat) ≤ 2
    norm_num

/-- **Iterative intersection, as sets.**  Let `K` be any ordered field (ℚ, ℝ).  For a rectangle `r`
and a new rectangle `[l, u]` of the same dimension:
* if the code's test `checkIntersection` succeeds, the result has corners `max`/`min` and is, as a
  set of points, exactly the intersection of the two closed boxes;
* otherwise the result is the new rectangle, and no point lies strictly inside both (the two are
  interior-disjoint — they may touch);
* if both rectangles have non-empty interior (`lower_j < upper_j`), the test succeeds *iff* the
  interiors meet. -/
theorem intersect_rule (K : Type) [Field K] [LinearOrder K] [IsStrictOrderedRing K]
    (r : Rect) (l u : Vec) (hl : r.lower.length = l.length) (hu : r.upper.length = u.length) :
    (checkIntersection r.lower r.upper l u = true →
      (r.intersect l u).lower = List.zipWith max r.lower l ∧ (r.intersect l u).upper = List.zipWith min r.upper u ∧
      ∀ x : List K, memBox K (r.intersect l u).lower (r.intersect l u).upper x ↔
        memBox K r.lower r.upper x ∧ memBox K l u x) ∧
    (checkIntersection r.lower r.upper l u = false →
      (r.intersect l u).lower = l ∧ (r.intersect l u).upper = u ∧
      ¬ ∃ x : List K, memInt K r.lower r.upper x ∧ memInt K l u x) ∧
    (List.Forall₂ (· < ·) r.lower r.upper → List.Forall₂ (· < ·) l u →
      (checkIntersection r.lower r.upper l u = true ↔ ∃ x : List K, memInt K r.lower r.upper x ∧ memInt K l u x)) := by
  refine ⟨?_, ?_, ?_⟩
  · intro hc
    simp only [Rect.intersect, hc, if_true, true_and]
    intro x
    exact memBox_inter hl hu x
  · intro hc
    refine ⟨by simp [Rect.intersect, hc], by simp [Rect.intersect, hc], ?_⟩
    rintro ⟨x, hx⟩
    exact interiors_disjoint_of_not_check hc hx
  · intro h1 h2
    constructor
    · intro hc
      exact interiors_meet_of_check h1 h2 hl hc
    · rintro ⟨x, hx⟩
      by_contra hc
      exact interiors_disjoint_of_not_check (by simpa using hc) hx

/-- With iterative intersection the update is `intersect` applied to the new rectangle
`[mean ∓ std·s]` (so `intersect_rule` describes it), and the result again has `lower ≤ upper`
when the previous rectangle had, `std ≥ 0` and `scale ≥ 0`. -/
theorem rect_update_iter (r r' : Rect) (p : Pred) (scale : Vec)
    (h : r.update p scale = .ok r') (hi : r.iter = true) :
    (∃ L U, bounds p.mean p.std scale = some (L, U) ∧ r' = r.intersect L U) ∧
    (r.valid → (∀ σ ∈ p.std, 0 ≤ σ) → (∀ a ∈ scale, 0 ≤ a) → r'.valid) := by
  constructor
  · unfold Rect.update at h
    split at h
    · simp at h
    · split at h
      · simp at h
      · rename_i L U hb
        simp only [Except.ok.injEq] at h
        exact ⟨L, U, hb, h.symm⟩
  · intro hv hstd hs
    exact Rect.update_valid h hstd hs (fun _ => hv)

/-- non-vacuity: touching rectangles are *not* intersected (the new one is taken), overlapping
ones are -/
example :
    (({ lower := [-1, 0], upper := [1, 2], iter := true } : Rect).intersect [-3, 0] [-1, 2]).lower = [-3, 0] ∧
    (({ lower := [-1, 0], upper := [1, 2], iter := true } : Rect).intersect [-3, 1] [0, 5]) =
      { lower := [-1, 1], upper := [0, 2], iter := true } := by decide +kernel

/-! ## INVARIANCES — the displayed-region law is offset-free

About the executable `checkIntersection` / `Rect.intersect` / `Rect.update` / `updLoop` / `update`
the driver ops `rect` / `seq` (and C09's `intersect`) evaluate (helpers: `Proofs/InvRegion.lean`).
`Rect.translate r t`, `Ell.translate e t`, `Region.translate R t`, `Pred.translate p t` move the
bounds / the centre / the predicted mean by `t` and leave everything else (widths, covariance,
`intersect_iteratively`) alone.  No `l ≤ u` hypothesis.  These equalities are what the harness'
large-offset histories rely on: an intersection test or a bound computed with a relative tolerance
would not commute with the offset. -/

section Invariance

/-- **The intersection test depends on differences only**: moving both rectangles by `t` changes
neither `hyperrectangle_check_intersection` (overlap and disjointness are preserved, touching
included) nor its `±τ` band versions (so neither the driver's "borderline" flag). -/
theorem checkIntersection_translate (l1 u1 l2 u2 t : Vec)
    (h1 : l1.length = t.length) (h2 : u1.length = t.length) (h3 : l2.length = t.length)
    (h4 : u2.length = t.length) :
    checkIntersection (vadd l1 t) (vadd u1 t) (vadd l2 t) (vadd u2 t) = checkIntersection l1 u1 l2 u2 ∧
    ∀ τ : ℚ, borderline τ (vadd l1 t) (vadd u1 t) (vadd l2 t) (vadd u2 t) = borderline τ l1 u1 l2 u2 := by
  refine ⟨Region.checkIntersection_translate l1 u1 l2 u2 t h1 h2 h3 h4, fun τ => ?_⟩
  unfold borderline
  rw [checkIntersectionSlack_translate τ l1 u1 l2 u2 t h1 h2 h3 h4,
    checkIntersectionSlack_translate (-τ) l1 u1 l2 u2 t h1 h2 h3 h4]

/-- **`intersect` commutes with translation**: the intersection of the translated rectangles is the
translated intersection (componentwise `max`/`min` when they overlap, the new rectangle otherwise —
the same branch is taken before and after the move). -/
theorem intersect_translate (r : Rect) (l u t : Vec)
    (h1 : r.lower.length = t.length) (h2 : r.upper.length = t.length) (h3 : l.length = t.length)
    (h4 : u.length = t.length) :
    (r.translate t).intersect (vadd l t) (vadd u t) = (r.intersect l u).translate t :=
  Region.intersect_translate r l u t h1 h2 h3 h4

/-- **One `update` commutes with translation**, for rectangles (with or without
`intersect_iteratively`) and ellipsoids: old region and predicted mean moved by `t`, same std /
covariance / scale ⇒ the new region is the old answer moved by `t`, and the same exception is raised
when one is raised. -/
theorem region_update_translate (R : Region) (p : Pred) (scale t : Vec) (hR : R.dim t.length)
    (hm : p.mean.length = t.length) :
    (R.translate t).update (p.translate t) scale = (R.update p scale).map (fun R' => R'.translate t) :=
  Region.region_update_translate R p scale t hR hm

/-- **The whole design-space `update` commutes with translation**: all regions and all predicted means
moved by `t` (rectangles and means of dimension `|t|`), same scale and index list ⇒ every displayed
region afterwards is the original one moved by `t`, with the same exception (if any) at the same
point of the loop. -/
theorem update_translate (regs : List Region) (table : List Pred) (sc : Scale) (idx : List Nat) (t : Vec)
    (hregs : ∀ R ∈ regs, R.dim t.length) (htab : ∀ p ∈ table, p.mean.length = t.length) :
    update (regs.map (·.translate t)) (table.map (·.translate t)) sc idx =
      ((update regs table sc idx).1.map (·.translate t), (update regs table sc idx).2) := by
  unfold update
  cases hs : scaleRows sc idx.length with
  | none => rfl
  | some rows =>
    have hl : ∀ (idx : List Nat), lookupAll (table.map (·.translate t)) idx =
        (lookupAll table idx).map (List.map (·.translate t)) := by
      intro idx
      induction idx with
      | nil => rfl
      | cons i is ih =>
        simp only [lookupAll, List.getElem?_map]
        cases table[i]? with
        | none => rfl
        | some p =>
          simp only [Option.map_some, ih]
          cases lookupAll table is <;> rfl
    simp only [hl]
    cases hp : lookupAll table idx with
    | none => rfl
    | some preds =>
      simp only [Option.map_some]
      have hz : ∀ (idx : List Nat) (preds : List Pred) (rows : List Vec),
          idx.zip ((preds.map (·.translate t)).zip rows) =
            (idx.zip (preds.zip rows)).map fun x => (x.1, x.2.1.translate t, x.2.2) := by
        intro idx
        induction idx with
        | nil => intros; rfl
        | cons i is ih =>
          intro preds rows
          cases preds with
          | nil => simp
          | cons q qs =>
            cases rows with
            | nil => simp
            | cons r rs => simp [ih qs rs]
      rw [hz idx preds rows]
      apply updLoop_translate t _ regs hregs
      intro x hx
      have h1 : x.2.1 ∈ preds := (List.of_mem_zip (List.of_mem_zip hx).2).1
      exact htab _ (lookupAll_mem idx table preds hp _ h1)

/-- non-vacuity, large offset and tiny gap: `[0,1]²` and `[1 − 2⁻²⁰, 2]²` overlap, `[1, 2]²` only
touches (counts as disjoint); the same after the offset `(2²⁰, −2²⁰)`, and the intersection moves
with it -/
example :
    checkIntersection [0, 0] [1, 1] [1 - 1/1048576, 1 - 1/1048576] [2, 2] = true ∧
    checkIntersection (vadd [0, 0] [1048576, -1048576]) (vadd [1, 1] [1048576, -1048576])
      (vadd [1 - 1/1048576, 1 - 1/1048576] [1048576, -1048576]) (vadd [2, 2] [1048576, -1048576]) = true ∧
    checkIntersection [0, 0] [1, 1] [1, 1] [2, 2] = false ∧
    checkIntersection (vadd [0, 0] [1048576, -1048576]) (vadd [1, 1] [1048576, -1048576])
      (vadd [1, 1] [1048576, -1048576]) (vadd [2, 2] [1048576, -1048576]) = false ∧
    (Rect.intersect { lower := vadd [0, 0] [1048576, -1048576], upper := vadd [1, 1] [1048576, -1048576], iter := true }
      (vadd [1 - 1/1048576, 1 - 1/1048576] [1048576, -1048576]) (vadd [2, 2] [1048576, -1048576])).lower =
      [1048577 - 1/1048576, -1048575 - 1/1048576] := by
  decide +kernel

end Invariance

end VOPy.C14
