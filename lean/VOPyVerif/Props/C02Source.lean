import VOPyVerif.Props.C02
import VOPyVerif.Proofs.GenAgreePhases
/-!
# C02 — SOURCE AGREEMENT obligations (second tie between model and code, DESIGN §2.10)

Property theorems only, same namespace `VOPy.C02` as `Props/C02.lean` (whose theorems are about the
hand-written model and do not depend on anything generated).  The theorems here say that the model's
definitions are the ones regenerated from the current Python source text (`Gen/Phases.lean`, written by
`harness/translate*.py` on every `./check C02`; agreement lemmas in `Proofs/GenAgreePhases.lean`).  They live in
their own module so that a source edit the translator reads differently (or cannot read) makes exactly the
affected obligations fail — `harness/leanbuild.py` builds this module separately and, if it does not build,
attributes the failure per theorem — while the model theorems of `Props/C02.lean` stay discharged.
-/
namespace VOPy.C02
open VOPy VOPy.Steps

/-! ## SOURCE AGREEMENT — the elimination phases are the definitions read off the Python source

Second tie between model and code (DESIGN §2.10.2), beside the behavioural comparison of the
harness: `harness/translate_phases.py` regenerates `Gen/Phases.lean` from the *source text* of the
phase methods on every `./check` (Python `ast`; nothing executed; each algorithm file separately):
the loops `for pt in X: … for pt_prime in A: [if pt_prime == pt: continue] … if ORACLE(order, R_a, R_b,
slack): … break [else: …]`, the accumulators, `S.remove` / `P.add`, set unions / differences are read
into list combinators, tracking which design each `*_conf` local denotes, which sets are scanned and
changed, the polarity (`break` vs `for … else`) and the slack expression (a symbolic `Slack` tag
indexing the oracle family).  Every generated definition takes all oracles and all state sets and
returns the whole new state.  The theorems below (proved in `Proofs/GenAgreePhases.lean`, re-checked
against the regenerated file on every run) hold **for all oracles and all lists**. -/

section SourceAgreement
open VOPy.Gen.Phases VOPy.GenAgree.Phases
variable (isDom isCov : Slack → Rel) (pessDom : Rel)

/-- `discarding()` as written in `paveba.py`, `paveba_gp.py`, `paveba_partial_gp.py` (each file read
separately): the new state is `(pavebaDiscard isDom₀ S U, P, U)` — witnesses from `S ∪ U`, the
self-comparison skipped, oracle `confidence_region_is_dominated(order, R_pt, R_pt', 0)`, only `S`
changed (`rfl`). -/
theorem source_paveba_discarding (S P U : List Nat) :
    gen_paveba_discarding isDom isCov pessDom S P U = (pavebaDiscard (isDom zeroSlack) S U, P, U) ∧
    gen_pavebagp_discarding isDom isCov pessDom S P U = (pavebaDiscard (isDom zeroSlack) S U, P, U) ∧
    gen_partialgp_discarding isDom isCov pessDom S P U = (pavebaDiscard (isDom zeroSlack) S U, P, U) :=
  ⟨gen_paveba_discarding_eq .., gen_pavebagp_discarding_eq .., gen_partialgp_discarding_eq ..⟩

/-- `compute_pessimistic_set()` as written in `vogp.py`, `epal.py`, `vogp_ad.py` = `pessimisticSet`
over `S ∪ P` with `confidence_region_check_dominates(order, R_pt', R_pt)` (`rfl`). -/
theorem source_pessimistic_set (depth : Nat → Nat) (maxDepth : Nat) (enabled : Bool) (S P : List Nat) :
    gen_vogp_compute_pessimistic_set isDom isCov pessDom S P = pessimisticSet pessDom S P ∧
    gen_epal_compute_pessimistic_set isDom isCov pessDom S P = pessimisticSet pessDom S P ∧
    gen_vogpad_compute_pessimistic_set isDom isCov pessDom depth maxDepth enabled S P
      = pessimisticSet pessDom S P :=
  ⟨gen_vogp_compute_pessimistic_set_eq .., gen_epal_compute_pessimistic_set_eq ..,
    gen_vogpad_compute_pessimistic_set_eq ..⟩

/-- `discarding()` as written in `vogp.py`, `vogp_ad.py` (slack `u_star * epsilon`) and `epal.py`
(slack `epsilon`): the new state is `(vogpDiscard isDom pessDom S P, P[, latch])` — scan over
`S − pessimistic_set`, witnesses from the pessimistic set, only `S` changed (`rfl`). -/
theorem source_vogp_discarding (depth : Nat → Nat) (maxDepth : Nat) (enabled : Bool) (S P : List Nat) :
    gen_vogp_discarding isDom isCov pessDom S P = (vogpDiscard (isDom uStarEps) pessDom S P, P) ∧
    gen_epal_discarding isDom isCov pessDom S P = (vogpDiscard (isDom Slack.eps) pessDom S P, P) ∧
    gen_vogpad_discarding isDom isCov pessDom depth maxDepth enabled S P
      = (vogpDiscard (isDom uStarEps) pessDom S P, P, enabled) :=
  ⟨gen_vogp_discarding_eq .., gen_epal_discarding_eq .., gen_vogpad_discarding_eq ..⟩

/-- `Auer.discarding()` and `Auer.small_m` as written in `auer.py`: `m(i,j) = max(0, min(j − i))`, and
the new state is `(auerDiscard centre width S, P)` — every width looked up **by design**
(`self.beta_t[pt]`; a positional lookup is rejected by the translator), certificate
`np.all(m(c_pt, c_pt') > β_pt + β_pt')` (list lemmas relating the model's (design, width) pairs to
the source's lookups). -/
theorem source_auer_discarding (eps : Rat) (centre width : Nat → Vec) (S P : List Nat) (ci cj : Vec) :
    gen_auer_small_m ci cj = smallM ci cj ∧
    gen_auer_discarding eps centre width S P = (auerDiscard centre width S, P) :=
  ⟨gen_auer_small_m_eq .., gen_auer_discarding_eq ..⟩

end SourceAgreement

end VOPy.C02
