import VOPyVerif.Props.C14
import VOPyVerif.Proofs.GenAgreeC14
import VOPyVerif.Proofs.RealInst
import Mathlib.Tactic.Ring
import Mathlib.Tactic.Linarith
/-!
# C14 — SOURCE AGREEMENT obligations (second tie between model and code, DESIGN §2.10)

Property theorems only, same namespace `VOPy.C14` as `Props/C14.lean` (whose theorems are about the
hand-written model and do not depend on anything generated).  The theorems here say that the bounds a
rectangle `update` writes and the centre it reports are the terms regenerated from the current Python source
text (`Gen/C14.lean`, written by `harness/translate.py` on every `./check C14`), that on rational data they
are exactly the entries `rect_update_entries` is about (`μ − σ·a`, `μ + σ·a`), and transfer "centred at
the mean, extends scale × std" to the generated terms.  Translated: `L`, `U`, `center`; pinned: the
definition of `std`; modelled, not translated: `np.sqrt ∘ np.diag` (C14's `std² = cov_jj` check), the
`intersect_iteratively` branch (`Rect.intersect`).
-/
namespace VOPy.C14
open VOPy VOPy.Region

/-- the bounds and the centre as written in the source = the model's terms (polymorphic, `rfl`). -/
theorem source_rect_bounds {α : Type} [RealLike α] (μ σ a lo hi : α) :
    Gen.C14.gen_rectLower μ σ a = rectLowerF μ σ a ∧ Gen.C14.gen_rectUpper μ σ a = rectUpperF μ σ a ∧
    Gen.C14.gen_rectCenter lo hi = rectCenterF lo hi :=
  ⟨GenAgree.C14.gen_rectLower_eq μ σ a, GenAgree.C14.gen_rectUpper_eq μ σ a,
   GenAgree.C14.gen_rectCenter_eq lo hi⟩

/-- **On rational data the source-derived bounds are the entries of `rect_update_entries`**: the casts of
`μ − σ·a` and `μ + σ·a`. -/
theorem source_rect_cast (μ σ a : Rat) :
    Gen.C14.gen_rectLower (μ : ℝ) (σ : ℝ) (a : ℝ) = ((μ - σ * a : Rat) : ℝ) ∧
    Gen.C14.gen_rectUpper (μ : ℝ) (σ : ℝ) (a : ℝ) = ((μ + σ * a : Rat) : ℝ) := by
  constructor
  · show (μ : ℝ) - (σ : ℝ) * (a : ℝ) = _
    push_cast; rfl
  · show (μ : ℝ) + (σ : ℝ) * (a : ℝ) = _
    push_cast; rfl

/-- **Centred at the mean, extending scale × std — for the source-derived terms, over ℝ.**  The centre the
code reports for the bounds it writes is the predictive mean; the half-width is `σ·a`; and
`lower ≤ upper` exactly when `σ·a ≥ 0`. -/
theorem source_rect_centred (μ σ a : ℝ) :
    Gen.C14.gen_rectCenter (Gen.C14.gen_rectLower μ σ a) (Gen.C14.gen_rectUpper μ σ a) = μ ∧
    Gen.C14.gen_rectUpper μ σ a - Gen.C14.gen_rectLower μ σ a = 2 * (σ * a) ∧
    (Gen.C14.gen_rectLower μ σ a ≤ Gen.C14.gen_rectUpper μ σ a ↔ 0 ≤ σ * a) := by
  refine ⟨?_, ?_, ?_⟩
  · show ((μ - σ * a) + (μ + σ * a)) / ((2 : ℕ) : ℝ) = μ
    push_cast; ring
  · show (μ + σ * a) - (μ - σ * a) = 2 * (σ * a)
    ring
  · show μ - σ * a ≤ μ + σ * a ↔ 0 ≤ σ * a
    constructor <;> intro h <;> linarith

/-- non-vacuity: mean 3, std 1/2, scale 4 ↦ [1, 5], centre 3 -/
example : Gen.C14.gen_rectLower (3 : ℝ) (1/2) 4 = 1 ∧ Gen.C14.gen_rectUpper (3 : ℝ) (1/2) 4 = 5 := by
  constructor
  · show (3 : ℝ) - 1/2 * 4 = 1; norm_num
  · show (3 : ℝ) + 1/2 * 4 = 5; norm_num

end VOPy.C14
