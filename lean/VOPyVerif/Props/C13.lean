import VOPyVerif.Proofs.Pareto
/-!
# C13 — Pareto-set extraction is exact for every finite set and cone

Property theorems only (helper lemmas live in `Proofs/Pareto.lean`).  They are about the
executable model `Pareto.fast` / `Pareto.naive` that the driver runs against
`PolyhedralConeOrder.get_pareto_set(_naive)`.
-/
namespace VOPy.C13
open VOPy VOPy.Pareto

variable {α : Type}

/-- **Fast routine, any preorder.**  For every finite list of elements and every reflexive,
transitive relation: the kept (index, element) pairs are a sublist of the indexed input (so the
returned indices are valid, distinct and increasing), kept elements are pairwise unrelated (an
antichain: in particular equal values are represented once), every input is dominated by a kept
element, and no kept element is strictly dominated by any input. -/
theorem fast_spec (dom : α → α → Bool)
    (hrefl : ∀ a, dom a a = true)
    (htrans : ∀ a b c, dom a b = true → dom b c = true → dom a c = true)
    (xs : List α) :
    let R := loop dom [] (indexed xs)
    R.Sublist (indexed xs) ∧
    (∀ e ∈ R, ∀ f ∈ R, e ≠ f → dom e.2 f.2 = false) ∧
    (∀ x ∈ xs, ∃ f ∈ R, dom f.2 x = true) ∧
    (∀ e ∈ R, ∀ x ∈ xs, dom x e.2 = true → dom e.2 x = true) := by
  have h := loop_spec dom hrefl htrans (indexed xs)
  have hmem : ∀ x ∈ xs, ∃ p ∈ indexed xs, p.2 = x := by
    intro x hx
    obtain ⟨i, hi, rfl⟩ := List.getElem_of_mem hx
    refine ⟨(i, xs[i]), ?_, rfl⟩
    simp only [indexed, List.mem_map, Prod.mk.injEq]
    exact ⟨(xs[i], i), by simp [List.mem_zipIdx_iff_getElem?, hi], rfl, rfl⟩
  refine ⟨h.1, h.2.1, ?_, ?_⟩
  · intro x hx
    obtain ⟨p, hp, rfl⟩ := hmem x hx
    exact h.2.2.1 p hp
  · intro e he x hx hxe
    obtain ⟨p, hp, rfl⟩ := hmem x hx
    exact h.2.2.2 e he p hp hxe

/-- non-vacuity: the six-point example of the design notes under the componentwise order -/
example : fast (dominates (identMat 2)) [[1,2],[2,1],[0,0],[2,1],[3,0],[1,1]] = [0,1,4] := by
  decide +kernel

end VOPy.C13
