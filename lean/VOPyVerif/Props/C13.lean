import VOPyVerif.Proofs.Pareto
import VOPyVerif.Proofs.ParetoDominates
import VOPyVerif.Proofs.ParetoInvariance
/-!
# C13 — Pareto-set extraction is exact for every finite set and cone

Property theorems only (helper lemmas live in `Proofs/Pareto.lean`, `Proofs/ParetoDominates.lean`).
They are about the executable model `Pareto.fast` / `Pareto.naive` and the decidable relations
`Pareto.specOk` / `Pareto.naiveSpecOk` that the driver runs against
`PolyhedralConeOrder.get_pareto_set(_naive)`.

* `fast_spec`, `fast_indices`, `specOk_fast`, `specOk_sound` — the fast routine, any preorder.
* `naive_mem_iff`, `naive_copies`, `naive_cover`, `naive_values_eq_fast`, `naiveSpecOk_naive` — the
  naive routine with `eqv` = equality and a partial order (pointed cone).
* `dominates_fast_spec`, `dominates_specOk_fast`, `dominates_naive` — the same statements for the
  relation the driver actually uses, `VOPy.dominates W` for *any* matrix `W`, on lists of vectors of
  one common length (there `dominates W` is reflexive and transitive).
-/
namespace VOPy.C13
open VOPy VOPy.Pareto

variable {α : Type}

/-- **Fast routine, any preorder.**  For every finite list of elements and every reflexive,
transitive relation: the kept (index, element) pairs are a sublist of the indexed input (so the
returned indices are valid, distinct and increasing), kept elements are pairwise unrelated (an
antichain: in particular equal values are represented once), every input is dominated by a kept
element, and no kept element is strictly dominated by any input. -/
theorem fast_spec (dom : α → α → Bool)
    (hrefl : ∀ a, dom a a = true)
    (htrans : ∀ a b c, dom a b = true → dom b c = true → dom a c = true)
    (xs : List α) :
    let R := loop dom [] (indexed xs)
    R.Sublist (indexed xs) ∧
    (∀ e ∈ R, ∀ f ∈ R, e ≠ f → dom e.2 f.2 = false) ∧
    (∀ x ∈ xs, ∃ f ∈ R, dom f.2 x = true) ∧
    (∀ e ∈ R, ∀ x ∈ xs, dom x e.2 = true → dom e.2 x = true) :=
  fast_pairs_on dom xs (PreorderOn.of_global hrefl htrans xs)

/-- non-vacuity: the six-point example of the design notes under the componentwise order -/
example : fast (dominates (identMat 2)) [[1,2],[2,1],[0,0],[2,1],[3,0],[1,1]] = [0,1,4] := by
  decide +kernel

/-- **Returned indices** (no hypothesis on the relation at all): the index list of the fast routine
is strictly increasing — hence duplicate-free — and every entry is a valid position of the input. -/
theorem fast_indices (dom : α → α → Bool) (xs : List α) :
    (fast dom xs).Pairwise (· < ·) ∧ ∀ i ∈ fast dom xs, i < xs.length :=
  ⟨List.Pairwise.sublist (fast_sublist_range dom xs) List.pairwise_lt_range,
   fun _ hi => List.mem_range.mp ((fast_sublist_range dom xs).subset hi)⟩

/-- **The model satisfies the relation (R) the harness evaluates on the implementation's output.**
For a reflexive transitive relation `specOk dom xs (fast dom xs)` is `true`. -/
theorem specOk_fast (dom : α → α → Bool)
    (hrefl : ∀ a, dom a a = true)
    (htrans : ∀ a b c, dom a b = true → dom b c = true → dom a c = true)
    (xs : List α) : specOk dom xs (fast dom xs) = true :=
  (specOk_iff dom xs _).mpr (fast_isParetoIdx_on dom xs (PreorderOn.of_global hrefl htrans xs))

/-- **Soundness of the decidable relation (R).**  Whenever `specOk dom xs idx` evaluates to `true`
(for *any* index list, e.g. the one returned by the Python code) the Prop-level Pareto
specification holds: indices valid and strictly increasing; kept elements pairwise unrelated;
every input dominated by a kept element; no kept element strictly dominated by an input.
(The converse holds as well: `Pareto.specOk_iff`.) -/
theorem specOk_sound (dom : α → α → Bool) (xs : List α) (idx : List Nat)
    (h : specOk dom xs idx = true) :
    (∀ i ∈ idx, i < xs.length) ∧
    idx.Pairwise (· < ·) ∧
    (∀ i ∈ idx, ∀ j ∈ idx, i ≠ j → ∀ a b, xs[i]? = some a → xs[j]? = some b → dom a b = false) ∧
    (∀ x ∈ xs, ∃ i ∈ idx, ∃ a, xs[i]? = some a ∧ dom a x = true) ∧
    (∀ i ∈ idx, ∀ a, xs[i]? = some a → ∀ x ∈ xs, dom x a = true → dom a x = true) := by
  have := (specOk_iff dom xs idx).mp h
  exact ⟨this.valid, this.incr, this.anti, this.cover, this.maximal⟩

example : specOk (dominates (identMat 2)) [[1,2],[2,1],[0,0],[2,1],[3,0],[1,1]] [0,1,4] = true := by
  decide +kernel
/-- the relation is not trivially true: keeping the duplicate `[2,1]` twice is rejected -/
example : specOk (dominates (identMat 2)) [[1,2],[2,1],[0,0],[2,1],[3,0],[1,1]] [0,1,3,4] = false := by
  decide +kernel

/-! ### the naive routine (`eqv` = equality, partial order = pointed cone) -/

/-- **Naive routine: kept ⇔ not dominated by a different value.**  With `eqv` deciding equality,
index `i` is returned iff it is a valid position and no input element of a *different* value
dominates `xs[i]` (no hypothesis on `dom`). -/
theorem naive_mem_iff (eqv dom : α → α → Bool) (heqv : ∀ a b, eqv a b = true ↔ a = b)
    (xs : List α) (i : Nat) :
    i ∈ naive eqv dom xs ↔ ∃ a, xs[i]? = some a ∧ ∀ o ∈ xs, o ≠ a → dom o a = false := by
  rw [mem_naive_iff]
  constructor
  · rintro ⟨a, ha, hk⟩
    refine ⟨a, ha, fun o ho hne => hk o ho ?_⟩
    cases hq : eqv a o with
    | false => rfl
    | true => exact absurd ((heqv _ _).mp hq).symm hne
  · rintro ⟨a, ha, hk⟩
    refine ⟨a, ha, fun o ho hq => hk o ho ?_⟩
    intro hoa
    rw [hoa, (heqv a a).mpr rfl] at hq
    exact absurd hq (by simp)

/-- **All copies of a kept value are kept** by the naive routine, and its index list is strictly
increasing with valid entries. -/
theorem naive_copies (eqv dom : α → α → Bool) (xs : List α) :
    (∀ i ∈ naive eqv dom xs, ∀ j a, xs[i]? = some a → xs[j]? = some a → j ∈ naive eqv dom xs) ∧
    (naive eqv dom xs).Pairwise (· < ·) ∧ ∀ i ∈ naive eqv dom xs, i < xs.length := by
  refine ⟨?_, List.Pairwise.sublist (naive_sublist_range eqv dom xs) List.pairwise_lt_range,
    fun _ hi => List.mem_range.mp ((naive_sublist_range eqv dom xs).subset hi)⟩
  intro i hi j a hia hja
  rw [mem_naive_iff] at hi ⊢
  obtain ⟨b, hb, hk⟩ := hi
  rw [hia] at hb
  rw [← Option.some.inj hb] at hk
  exact ⟨a, hja, hk⟩

/-- **Covering for the naive routine** (finite maximality): for a reflexive, transitive,
antisymmetric relation (a pointed cone) every input is dominated by an element the naive routine
keeps. -/
theorem naive_cover (eqv dom : α → α → Bool) (heqv : ∀ a b, eqv a b = true ↔ a = b)
    (hrefl : ∀ a, dom a a = true)
    (htrans : ∀ a b c, dom a b = true → dom b c = true → dom a c = true)
    (hanti : ∀ a b, dom a b = true → dom b a = true → a = b)
    (xs : List α) :
    ∀ x ∈ xs, ∃ i ∈ naive eqv dom xs, ∃ a, xs[i]? = some a ∧ dom a x = true :=
  naive_cover_on eqv dom xs heqv (PreorderOn.of_global hrefl htrans xs)
    (fun a _ b _ => hanti a b)

/-- **Naive and fast keep the same values** for a partial order: a value occurs among the elements
kept by `naive` iff it occurs among those kept by `fast` (naive keeps all its copies, fast one). -/
theorem naive_values_eq_fast (eqv dom : α → α → Bool) (heqv : ∀ a b, eqv a b = true ↔ a = b)
    (hrefl : ∀ a, dom a a = true)
    (htrans : ∀ a b c, dom a b = true → dom b c = true → dom a c = true)
    (hanti : ∀ a b, dom a b = true → dom b a = true → a = b)
    (xs : List α) (v : α) :
    (∃ i ∈ naive eqv dom xs, xs[i]? = some v) ↔ (∃ i ∈ fast dom xs, xs[i]? = some v) :=
  naive_values_eq_fast_on eqv dom xs heqv (PreorderOn.of_global hrefl htrans xs)
    (fun a _ b _ => hanti a b) v

/-- **The naive model satisfies its relation** `naiveSpecOk` (any `eqv`, any `dom`): this is the
relation the harness evaluates on `get_pareto_set_naive`'s output. -/
theorem naiveSpecOk_naive (eqv dom : α → α → Bool) (xs : List α) :
    naiveSpecOk eqv dom xs (naive eqv dom xs) = true :=
  Pareto.naiveSpecOk_naive eqv dom xs

example : naive (fun a b => decide (a = b)) (dominates (identMat 2))
    [[1,2],[2,1],[0,0],[2,1],[3,0],[1,1]] = [0,1,3,4] := by
  decide +kernel

/-! ### instantiation at the cone order `VOPy.dominates W` the driver runs -/

/-- **`dominates W` is a preorder on vectors of one length**: reflexive for all vectors, transitive
for vectors of equal length — for any matrix `W` (any number of facets, `K > m` included). -/
theorem dominates_preorder (W : Mat) :
    (∀ a, dominates W a a = true) ∧
    (∀ a b c : Vec, a.length = b.length → b.length = c.length →
      dominates W a b = true → dominates W b c = true → dominates W a c = true) :=
  ⟨dominates_refl W, dominates_trans W⟩

/-- **Fast routine under a polyhedral cone order.**  For any cone matrix `W` and any finite list of
vectors of one common length `m`, `Pareto.fast (dominates W)` — exactly the function the driver
evaluates — returns valid, strictly increasing indices of pairwise non-dominating vectors such that
every input is dominated by a kept vector and no kept vector is strictly dominated. -/
theorem dominates_fast_spec (W : Mat) (m : Nat) (xs : List Vec) (hlen : ∀ x ∈ xs, x.length = m) :
    let idx := fast (dominates W) xs
    (∀ i ∈ idx, i < xs.length) ∧
    idx.Pairwise (· < ·) ∧
    (∀ i ∈ idx, ∀ j ∈ idx, i ≠ j → ∀ a b, xs[i]? = some a → xs[j]? = some b →
      dominates W a b = false) ∧
    (∀ x ∈ xs, ∃ i ∈ idx, ∃ a, xs[i]? = some a ∧ dominates W a x = true) ∧
    (∀ i ∈ idx, ∀ a, xs[i]? = some a → ∀ x ∈ xs, dominates W x a = true →
      dominates W a x = true) := by
  have := fast_isParetoIdx_on (dominates W) xs (dominates_preorderOn W m xs hlen)
  exact ⟨this.valid, this.incr, this.anti, this.cover, this.maximal⟩

/-- the relation (R) holds for the model under every cone order -/
theorem dominates_specOk_fast (W : Mat) (m : Nat) (xs : List Vec)
    (hlen : ∀ x ∈ xs, x.length = m) : specOk (dominates W) xs (fast (dominates W) xs) = true :=
  (specOk_iff _ xs _).mpr (fast_isParetoIdx_on _ xs (dominates_preorderOn W m xs hlen))

/-- **Naive routine under a pointed polyhedral cone order.**  If `dominates W` is antisymmetric on
the input vectors (pointed cone) and `eqv` decides equality, then every input is dominated by a
vector the naive routine keeps, and the naive and fast routines keep the same values. -/
theorem dominates_naive (W : Mat) (m : Nat) (xs : List Vec) (hlen : ∀ x ∈ xs, x.length = m)
    (eqv : Vec → Vec → Bool) (heqv : ∀ a b, eqv a b = true ↔ a = b)
    (hpointed : ∀ a ∈ xs, ∀ b ∈ xs, dominates W a b = true → dominates W b a = true → a = b) :
    (∀ x ∈ xs, ∃ i ∈ naive eqv (dominates W) xs, ∃ a, xs[i]? = some a ∧ dominates W a x = true) ∧
    (∀ v, (∃ i ∈ naive eqv (dominates W) xs, xs[i]? = some v) ↔
      (∃ i ∈ fast (dominates W) xs, xs[i]? = some v)) :=
  ⟨naive_cover_on eqv _ xs heqv (dominates_preorderOn W m xs hlen) hpointed,
   naive_values_eq_fast_on eqv _ xs heqv (dominates_preorderOn W m xs hlen) hpointed⟩

/-- non-vacuity of the pointedness hypothesis: the componentwise order on a concrete list -/
example : ∀ a ∈ ([[1,2],[2,1],[0,0],[2,1]] : List Vec), ∀ b ∈ ([[1,2],[2,1],[0,0],[2,1]] : List Vec),
    dominates (identMat 2) a b = true → dominates (identMat 2) b a = true → a = b := by
  decide +kernel

end VOPy.C13

/-! # INVARIANCE — the routines depend on differences only

The metamorphic checks of the harness ("translated / rescaled inputs give the identical index list")
rely on the model having exactly these invariances, for every input.  All statements are equalities
of the returned **index lists** (what the harness compares), for any cone matrix `W`, any finite list
(duplicates included); the length hypotheses are the ones under which `vadd` does not truncate. -/
namespace VOPy.C13
open VOPy VOPy.Pareto

variable {α β : Type}

/-- **General form.**  If `f` carries the relation used on the members of `xs` to the relation used on
their images (`dom' (f a) (f b) = dom a b` for `a, b ∈ xs`), the fast routine returns the same index
list on `xs.map f` (with `dom'`) as on `xs` (with `dom`); likewise the naive routine when `f` also
preserves its `eqv`.  No order axioms are needed. -/
theorem pareto_map_congr (eqv dom : α → α → Bool) (eqv' dom' : β → β → Bool) (f : α → β) (xs : List α)
    (hd : ∀ a ∈ xs, ∀ b ∈ xs, dom' (f a) (f b) = dom a b) :
    fast dom' (xs.map f) = fast dom xs ∧
    ((∀ a ∈ xs, ∀ b ∈ xs, eqv' (f a) (f b) = eqv a b) →
      naive eqv' dom' (xs.map f) = naive eqv dom xs) :=
  ⟨fast_map_congr dom dom' f xs hd, fun he => naive_map_congr eqv dom eqv' dom' f xs hd he⟩

/-- **Translation invariance (fast routine).**  For any cone matrix `W` and any list of vectors of the
length of `t`: translating every point by `t` does not change the returned index list. -/
theorem fast_translate (W : Mat) (t : Vec) (xs : List Vec) (hlen : ∀ x ∈ xs, x.length = t.length) :
    fast (dominates W) (xs.map (fun x => vadd x t)) = fast (dominates W) xs :=
  fast_map_congr _ _ _ xs (fun a ha b hb => dominates_translate_eq W a b t (hlen a ha) (hlen b hb))

/-- **Positive scaling invariance (fast routine)**: `c > 0`, no hypothesis on lengths. -/
theorem fast_scale (W : Mat) (c : Rat) (hc : 0 < c) (xs : List Vec) :
    fast (dominates W) (xs.map (smul c)) = fast (dominates W) xs :=
  fast_map_congr _ _ _ xs (fun a _ b _ => dominates_scale_eq W c hc a b)

/-- **Translation / scaling invariance (naive routine).**  With an `eqv` that is itself translation
(resp. scaling) invariant on the input — in particular exact equality — the naive routine returns the
same index list.  (`np.allclose`, which the code uses, is *relative* to the values and is not
translation invariant: see the example below.) -/
theorem naive_translate (W : Mat) (t : Vec) (xs : List Vec) (hlen : ∀ x ∈ xs, x.length = t.length)
    (eqv : Vec → Vec → Bool)
    (he : ∀ a ∈ xs, ∀ b ∈ xs, eqv (vadd a t) (vadd b t) = eqv a b) :
    naive eqv (dominates W) (xs.map (fun x => vadd x t)) = naive eqv (dominates W) xs :=
  naive_map_congr eqv _ eqv _ _ xs
    (fun a ha b hb => dominates_translate_eq W a b t (hlen a ha) (hlen b hb)) he

theorem naive_scale (W : Mat) (c : Rat) (hc : 0 < c) (xs : List Vec) (eqv : Vec → Vec → Bool)
    (he : ∀ a ∈ xs, ∀ b ∈ xs, eqv (smul c a) (smul c b) = eqv a b) :
    naive eqv (dominates W) (xs.map (smul c)) = naive eqv (dominates W) xs :=
  naive_map_congr eqv _ eqv _ _ xs (fun a _ b _ => dominates_scale_eq W c hc a b) he

/-- the naive routine with exact equality as `eqv` is translation and scaling invariant -/
theorem naive_eq_translate_scale (W : Mat) (t : Vec) (c : Rat) (hc : 0 < c) (xs : List Vec)
    (hlen : ∀ x ∈ xs, x.length = t.length) :
    naive (fun a b => decide (a = b)) (dominates W) (xs.map (fun x => vadd x t)) =
      naive (fun a b => decide (a = b)) (dominates W) xs ∧
    naive (fun a b => decide (a = b)) (dominates W) (xs.map (smul c)) =
      naive (fun a b => decide (a = b)) (dominates W) xs := by
  refine ⟨naive_translate W t xs hlen _ (fun a ha b hb => ?_), naive_scale W c hc xs _ (fun a _ b _ => ?_)⟩
  · rw [decide_eq_decide]; exact vadd_right_cancel_iff a b t (hlen a ha) (hlen b hb)
  · rw [decide_eq_decide]; exact smul_left_cancel_iff c (ne_of_gt hc) a b

/-- **Invariance under the presentation of the cone.**  Multiplying the rows of `W` by positive factors
(`rowScale cs W`, one factor per row) or replacing `W` by any matrix with the same set of rows (a row
permutation, repeated rows) changes neither routine's index list — for any `eqv`. -/
theorem pareto_cone_presentation (W : Mat) (xs : List Vec) (eqv : Vec → Vec → Bool) :
    (∀ cs : Vec, cs.length = W.length → (∀ c ∈ cs, 0 < c) →
      fast (dominates (rowScale cs W)) xs = fast (dominates W) xs ∧
      naive eqv (dominates (rowScale cs W)) xs = naive eqv (dominates W) xs) ∧
    (∀ W' : Mat, (∀ w, w ∈ W' ↔ w ∈ W) →
      fast (dominates W') xs = fast (dominates W) xs ∧
      naive eqv (dominates W') xs = naive eqv (dominates W) xs) := by
  constructor
  · intro cs hl hp
    have h : dominates (rowScale cs W) = dominates W := by
      funext a b; exact dominates_rowScale cs W hl hp a b
    rw [h]; exact ⟨rfl, rfl⟩
  · intro W' hW
    have h : dominates W' = dominates W := by
      funext a b; exact dominates_of_same_rows W W' hW a b
    rw [h]; exact ⟨rfl, rfl⟩

/-- row permutations in particular -/
theorem pareto_rowPerm (W W' : Mat) (h : W'.Perm W) (xs : List Vec) (eqv : Vec → Vec → Bool) :
    fast (dominates W') xs = fast (dominates W) xs ∧
    naive eqv (dominates W') xs = naive eqv (dominates W) xs :=
  (pareto_cone_presentation W xs eqv).2 W' (fun _ => h.mem_iff)

/-! ### non-vacuity: offset `2^20`, gaps `2^-10` -/

/-- six points with gaps of `2^-10`, as they are and translated by `(2^20, −2^20)`: same index list
`[0, 1, 4]` (a duplicate at positions 1 and 3, kept once by the fast routine) -/
example :
    fast (dominates (identMat 2))
      [[1/1024, 2/1024], [2/1024, 1/1024], [0, 0], [2/1024, 1/1024], [3/1024, 0], [1/1024, 1/1024]] = [0, 1, 4] ∧
    fast (dominates (identMat 2))
      ([[1/1024, 2/1024], [2/1024, 1/1024], [0, 0], [2/1024, 1/1024], [3/1024, 0], [1/1024, 1/1024]].map
        (fun x => vadd x [1048576, -1048576])) = [0, 1, 4] := by
  decide +kernel

/-- … as an instance of the theorem (non-orthant cone, scaling by `2^20` as well) -/
example :
    fast (dominates [[2, -1], [-1, 2]])
      (([[1/1024, 2/1024], [2/1024, 1/1024], [0, 0]] : List Vec).map (fun x => vadd x [1048576, -1048576])) =
    fast (dominates [[2, -1], [-1, 2]]) [[1/1024, 2/1024], [2/1024, 1/1024], [0, 0]] ∧
    fast (dominates [[2, -1], [-1, 2]])
      (([[1/1024, 2/1024], [2/1024, 1/1024], [0, 0]] : List Vec).map (smul 1048576)) =
    fast (dominates [[2, -1], [-1, 2]]) [[1/1024, 2/1024], [2/1024, 1/1024], [0, 0]] :=
  ⟨fast_translate _ _ _ (by decide), fast_scale _ _ (by norm_num) _⟩

/-- **`np.allclose` is not translation invariant** (the `eqv` hypothesis of `naive_translate` cannot be
dropped): with `eqv a b := |a − b| ≤ 1e-8 + 1e-5·|b|` entrywise, the points `(0,0)` and `(2^-10, 2^-10)`
are different values and the dominated one is dropped, but after translation by `2^20` they are
"close", so the naive routine keeps both. -/
example :
    let eqv : Vec → Vec → Bool := fun a b =>
      (List.zipWith (fun x y => decide ((if x - y < 0 then y - x else x - y) ≤
        (1 : Rat) / 100000000 + (1 : Rat) / 100000 * (if y < 0 then -y else y))) a b).all id
    naive eqv (dominates (identMat 2)) [[0, 0], [1/1024, 1/1024]] = [1] ∧
    naive eqv (dominates (identMat 2))
      ([[0, 0], [1/1024, 1/1024]].map (fun x => vadd x [1048576, 1048576])) = [0, 1] := by
  decide +kernel

end VOPy.C13

/-! # EXACTNESS — the relation (R) determines the answer

`specOk` is the relation the harness evaluates on the index list returned by the real
`get_pareto_set`.  The theorems below show that (R) leaves no freedom beyond the choice of a
representative among mutually dominating (for a pointed cone: equal) elements — so "the code's output
satisfies (R)" means "the code returned *the* Pareto set", for every finite input. -/
namespace VOPy.C13
open VOPy VOPy.Pareto

variable {α : Type}

/-- **Uniqueness up to equivalent representatives** (no hypothesis on the relation).  If two index
lists both satisfy (R) for the same input, every element kept by the first is matched by an element
kept by the second that dominates it and is dominated by it. -/
theorem specOk_unique_up_to_equiv (dom : α → α → Bool) (xs : List α) (idx₁ idx₂ : List Nat)
    (h₁ : specOk dom xs idx₁ = true) (h₂ : specOk dom xs idx₂ = true) :
    ∀ i ∈ idx₁, ∀ a, xs[i]? = some a →
      ∃ j ∈ idx₂, ∃ b, xs[j]? = some b ∧ dom a b = true ∧ dom b a = true := by
  have H₁ := (specOk_iff dom xs idx₁).mp h₁
  have H₂ := (specOk_iff dom xs idx₂).mp h₂
  intro i hi a ha
  have hax : a ∈ xs := List.mem_of_getElem? ha
  obtain ⟨j, hj, b, hb, hba⟩ := H₂.cover a hax
  have hbx : b ∈ xs := List.mem_of_getElem? hb
  exact ⟨j, hj, b, hb, H₁.maximal i hi a ha b hbx hba, hba⟩

/-- **The kept values are unique for a partial order** (antisymmetric on the input, e.g. a pointed
cone): any two index lists satisfying (R) keep exactly the same set of values.  In particular the
values kept by the real code (whenever its output passes (R)) are the values kept by the model. -/
theorem specOk_values_unique (dom : α → α → Bool) (xs : List α) (idx₁ idx₂ : List Nat)
    (hanti : ∀ a ∈ xs, ∀ b ∈ xs, dom a b = true → dom b a = true → a = b)
    (h₁ : specOk dom xs idx₁ = true) (h₂ : specOk dom xs idx₂ = true) (v : α) :
    (∃ i ∈ idx₁, xs[i]? = some v) ↔ (∃ j ∈ idx₂, xs[j]? = some v) := by
  constructor
  · rintro ⟨i, hi, hv⟩
    obtain ⟨j, hj, b, hb, hab, hba⟩ := specOk_unique_up_to_equiv dom xs idx₁ idx₂ h₁ h₂ i hi v hv
    have : v = b := hanti v (List.mem_of_getElem? hv) b (List.mem_of_getElem? hb) hab hba
    exact ⟨j, hj, this ▸ hb⟩
  · rintro ⟨i, hi, hv⟩
    obtain ⟨j, hj, b, hb, hab, hba⟩ := specOk_unique_up_to_equiv dom xs idx₂ idx₁ h₂ h₁ i hi v hv
    have : v = b := hanti v (List.mem_of_getElem? hv) b (List.mem_of_getElem? hb) hab hba
    exact ⟨j, hj, this ▸ hb⟩

/-- **Anything passing (R) keeps the model's values.**  For a reflexive, transitive, antisymmetric
relation, an index list accepted by (R) keeps exactly the values `Pareto.fast` keeps. -/
theorem specOk_values_eq_fast (dom : α → α → Bool)
    (hrefl : ∀ a, dom a a = true)
    (htrans : ∀ a b c, dom a b = true → dom b c = true → dom a c = true)
    (hanti : ∀ a b, dom a b = true → dom b a = true → a = b)
    (xs : List α) (idx : List Nat) (h : specOk dom xs idx = true) (v : α) :
    (∃ i ∈ idx, xs[i]? = some v) ↔ (∃ j ∈ fast dom xs, xs[j]? = some v) :=
  specOk_values_unique dom xs idx (fast dom xs) (fun a _ b _ => hanti a b) h
    (specOk_fast dom hrefl htrans xs) v

/-- non-vacuity: with a duplicated optimum two different index lists pass (R) — `[0,1,4]` and
`[0,3,4]` keep different positions but the same values -/
example :
    specOk (dominates (identMat 2)) [[1,2],[2,1],[0,0],[2,1],[3,0],[1,1]] [0,1,4] = true ∧
    specOk (dominates (identMat 2)) [[1,2],[2,1],[0,0],[2,1],[3,0],[1,1]] [0,3,4] = true := by
  constructor <;> decide +kernel

end VOPy.C13
