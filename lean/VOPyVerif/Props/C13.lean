import VOPyVerif.Proofs.Pareto
import VOPyVerif.Proofs.ParetoDominates
/-!
# C13 — Pareto-set extraction is exact for every finite set and cone

Property theorems only (helper lemmas live in `Proofs/Pareto.lean`, `Proofs/ParetoDominates.lean`).
They are about the executable model `Pareto.fast` / `Pareto.naive` and the decidable relations
`Pareto.specOk` / `Pareto.naiveSpecOk` that the driver runs against
`PolyhedralConeOrder.get_pareto_set(_naive)`.

* `fast_spec`, `fast_indices`, `specOk_fast`, `specOk_sound` — the fast routine, any preorder.
* `naive_mem_iff`, `naive_copies`, `naive_cover`, `naive_values_eq_fast`, `naiveSpecOk_naive` — the
  naive routine with `eqv` = equality and a partial order (pointed cone).
* `dominates_fast_spec`, `dominates_specOk_fast`, `dominates_naive` — the same statements for the
  relation the driver actually uses, `VOPy.dominates W` for *any* matrix `W`, on lists of vectors of
  one common length (there `dominates W` is reflexive and transitive).
-/
namespace VOPy.C13
open VOPy VOPy.Pareto

variable {α : Type}

/-- **Fast routine, any preorder.**  For every finite list of elements and every reflexive,
transitive relation: the kept (index, element) pairs are a sublist of the indexed input (so the
returned indices are valid, distinct and increasing), kept elements are pairwise unrelated (an
antichain: in particular equal values are represented once), every input is dominated by a kept
element, and no kept element is strictly dominated by any input. -/
theorem fast_spec (dom : α → α → Bool)
    (hrefl : ∀ a, dom a a = true)
    (htrans : ∀ a b c, dom a b = true → dom b c = true → dom a c = true)
    (xs : List α) :
    let R := loop dom [] (indexed xs)
    R.Sublist (indexed xs) ∧
    (∀ e ∈ R, ∀ f ∈ R, e ≠ f → dom e.2 f.2 = false) ∧
    (∀ x ∈ xs, ∃ f ∈ R, dom f.2 x = true) ∧
    (∀ e ∈ R, ∀ x ∈ xs, dom x e.2 = true → dom e.2 x = true) :=
  fast_pairs_on dom xs (PreorderOn.of_global hrefl htrans xs)

/-- non-vacuity: the six-point example of the design notes under the componentwise order -/
example : fast (dominates (identMat 2)) [[1,2],[2,1],[0,0],[2,1],[3,0],[1,1]] = [0,1,4] := by
  decide +kernel

/-- **Returned indices** (no hypothesis on the relation at all): the index list of the fast routine
is strictly increasing — hence duplicate-free — and every entry is a valid position of the input. -/
theorem fast_indices (dom : α → α → Bool) (xs : List α) :
    (fast dom xs).Pairwise (· < ·) ∧ ∀ i ∈ fast dom xs, i < xs.length :=
  ⟨List.Pairwise.sublist (fast_sublist_range dom xs) List.pairwise_lt_range,
   fun _ hi => List.mem_range.mp ((fast_sublist_range dom xs).subset hi)⟩

/-- **The model satisfies the relation (R) the harness evaluates on the implementation's output.**
For a reflexive transitive relation `specOk dom xs (fast dom xs)` is `true`. -/
theorem specOk_fast (dom : α → α → Bool)
    (hrefl : ∀ a, dom a a = true)
    (htrans : ∀ a b c, dom a b = true → dom b c = true → dom a c = true)
    (xs : List α) : specOk dom xs (fast dom xs) = true :=
  (specOk_iff dom xs _).mpr (fast_isParetoIdx_on dom xs (PreorderOn.of_global hrefl htrans xs))

/-- **Soundness of the decidable relation (R).**  Whenever `specOk dom xs idx` evaluates to `true`
(for *any* index list, e.g. the one returned by the Python code) the Prop-level Pareto
specification holds: indices valid and strictly increasing; kept elements pairwise unrelated;
every input dominated by a kept element; no kept element strictly dominated by an input.
(The converse holds as well: `Pareto.specOk_iff`.) -/
theorem specOk_sound (dom : α → α → Bool) (xs : List α) (idx : List Nat)
    (h : specOk dom xs idx = true) :
    (∀ i ∈ idx, i < xs.length) ∧
    idx.Pairwise (· < ·) ∧
    (∀ i ∈ idx, ∀ j ∈ idx, i ≠ j → ∀ a b, xs[i]? = some a → xs[j]? = some b → dom a b = false) ∧
    (∀ x ∈ xs, ∃ i ∈ idx, ∃ a, xs[i]? = some a ∧ dom a x = true) ∧
    (∀ i ∈ idx, ∀ a, xs[i]? = some a → ∀ x ∈ xs, dom x a = true → dom a x = true) := by
  have := (specOk_iff dom xs idx).mp h
  exact ⟨this.valid, this.incr, this.anti, this.cover, this.maximal⟩

example : specOk (dominates (identMat 2)) [[1,2],[2,1],[0,0],[2,1],[3,0],[1,1]] [0,1,4] = true := by
  decide +kernel
/-- the relation is not trivially true: keeping the duplicate `[2,1]` twice is rejected -/
example : specOk (dominates (identMat 2)) [[1,2],[2,1],[0,0],[2,1],[3,0],[1,1]] [0,1,3,4] = false := by
  decide +kernel

/-! ### the naive routine (`eqv` = equality, partial order = pointed cone) -/

/-- **Naive routine: kept ⇔ not dominated by a different value.**  With `eqv` deciding equality,
index `i` is returned iff it is a valid position and no input element of a *different* value
dominates `xs[i]` (no hypothesis on `dom`). -/
theorem naive_mem_iff (eqv dom : α → α → Bool) (heqv : ∀ a b, eqv a b = true ↔ a = b)
    (xs : List α) (i : Nat) :
    i ∈ naive eqv dom xs ↔ ∃ a, xs[i]? = some a ∧ ∀ o ∈ xs, o ≠ a → dom o a = false := by
  rw [mem_naive_iff]
  constructor
  · rintro ⟨a, ha, hk⟩
    refine ⟨a, ha, fun o ho hne => hk o ho ?_⟩
    cases hq : eqv a o with
    | false => rfl
    | true => exact absurd ((heqv _ _).mp hq).symm hne
  · rintro ⟨a, ha, hk⟩
    refine ⟨a, ha, fun o ho hq => hk o ho ?_⟩
    intro hoa
    rw [hoa, (heqv a a).mpr rfl] at hq
    exact absurd hq (by simp)

/-- **All copies of a kept value are kept** by the naive routine, and its index list is strictly
increasing with valid entries. -/
theorem naive_copies (eqv dom : α → α → Bool) (xs : List α) :
    (∀ i ∈ naive eqv dom xs, ∀ j a, xs[i]? = some a → xs[j]? = some a → j ∈ naive eqv dom xs) ∧
    (naive eqv dom xs).Pairwise (· < ·) ∧ ∀ i ∈ naive eqv dom xs, i < xs.length := by
  refine ⟨?_, List.Pairwise.sublist (naive_sublist_range eqv dom xs) List.pairwise_lt_range,
    fun _ hi => List.mem_range.mp ((naive_sublist_range eqv dom xs).subset hi)⟩
  intro i hi j a hia hja
  rw [mem_naive_iff] at hi ⊢
  obtain ⟨b, hb, hk⟩ := hi
  rw [hia] at hb
  rw [← Option.some.inj hb] at hk
  exact ⟨a, hja, hk⟩

/-- **Covering for the naive routine** (finite maximality): for a reflexive, transitive,
antisymmetric relation (a pointed cone) every input is dominated by an element the naive routine
keeps. -/
theorem naive_cover (eqv dom : α → α → Bool) (heqv : ∀ a b, eqv a b = true ↔ a = b)
    (hrefl : ∀ a, dom a a = true)
    (htrans : ∀ a b c, dom a b = true → dom b c = true → dom a c = true)
    (hanti : ∀ a b, dom a b = true → dom b a = true → a = b)
    (xs : List α) :
    ∀ x ∈ xs, ∃ i ∈ naive eqv dom xs, ∃ a, xs[i]? = some a ∧ dom a x = true :=
  naive_cover_on eqv dom xs heqv (PreorderOn.of_global hrefl htrans xs)
    (fun a _ b _ => hanti a b)

/-- **Naive and fast keep the same values** for a partial order: a value occurs among the elements
kept by `naive` iff it occurs among those kept by `fast` (naive keeps all its copies, fast one). -/
theorem naive_values_eq_fast (eqv dom : α → α → Bool) (heqv : ∀ a b, eqv a b = true ↔ a = b)
    (hrefl : ∀ a, dom a a = true)
    (htrans : ∀ a b c, dom a b = true → dom b c = true → dom a c = true)
    (hanti : ∀ a b, dom a b = true → dom b a = true → a = b)
    (xs : List α) (v : α) :
    (∃ i ∈ naive eqv dom xs, xs[i]? = some v) ↔ (∃ i ∈ fast dom xs, xs[i]? = some v) :=
  naive_values_eq_fast_on eqv dom xs heqv (PreorderOn.of_global hrefl htrans xs)
    (fun a _ b _ => hanti a b) v

/-- **The naive model satisfies its relation** `naiveSpecOk` (any `eqv`, any `dom`): this is the
relation the harness evaluates on `get_pareto_set_naive`'s output. -/
theorem naiveSpecOk_naive (eqv dom : α → α → Bool) (xs : List α) :
    naiveSpecOk eqv dom xs (naive eqv dom xs) = true :=
  Pareto.naiveSpecOk_naive eqv dom xs

example : naive (fun a b => decide (a = b)) (dominates (identMat 2))
    [[1,2],[2,1],[0,0],[2,1],[3,0],[1,1]] = [0,1,3,4] := by
  decide +kernel

/-! ### instantiation at the cone order `VOPy.dominates W` the driver runs -/

/-- **`dominates W` is a preorder on vectors of one length**: reflexive for all vectors, transitive
for vectors of equal length — for any matrix `W` (any number of facets, `K > m` included). -/
theorem dominates_preorder (W : Mat) :
    (∀ a, dominates W a a = true) ∧
    (∀ a b c : Vec, a.length = b.length → b.length = c.length →
      dominates W a b = true → dominates W b c = true → dominates W a c = true) :=
  ⟨dominates_refl W, dominates_trans W⟩

/-- **Fast routine under a polyhedral cone order.**  For any cone matrix `W` and any finite list of
vectors of one common length `m`, `Pareto.fast (dominates W)` — exactly the function the driver
evaluates — returns valid, strictly increasing indices of pairwise non-dominating vectors such that
every input is dominated by a kept vector and no kept vector is strictly dominated. -/
theorem dominates_fast_spec (W : Mat) (m : Nat) (xs : List Vec) (hlen : ∀ x ∈ xs, x.length = m) :
    let idx := fast (dominates W) xs
    (∀ i ∈ idx, i < xs.length) ∧
    idx.Pairwise (· < ·) ∧
    (∀ i ∈ idx, ∀ j ∈ idx, i ≠ j → ∀ a b, xs[i]? = some a → xs[j]? = some b →
      dominates W a b = false) ∧
    (∀ x ∈ xs, ∃ i ∈ idx, ∃ a, xs[i]? = some a ∧ dominates W a x = true) ∧
    (∀ i ∈ idx, ∀ a, xs[i]? = some a → ∀ x ∈ xs, dominates W x a = true →
      dominates W a x = true) := by
  have := fast_isParetoIdx_on (dominates W) xs (dominates_preorderOn W m xs hlen)
  exact ⟨this.valid, this.incr, this.anti, this.cover, this.maximal⟩

/-- the relation (R) holds for the model under every cone order -/
theorem dominates_specOk_fast (W : Mat) (m : Nat) (xs : List Vec)
    (hlen : ∀ x ∈ xs, x.length = m) : specOk (dominates W) xs (fast (dominates W) xs) = true :=
  (specOk_iff _ xs _).mpr (fast_isParetoIdx_on _ xs (dominates_preorderOn W m xs hlen))

/-- **Naive routine under a pointed polyhedral cone order.**  If `dominates W` is antisymmetric on
the input vectors (pointed cone) and `eqv` decides equality, then every input is dominated by a
vector the naive routine keeps, and the naive and fast routines keep the same values. -/
theorem dominates_naive (W : Mat) (m : Nat) (xs : List Vec) (hlen : ∀ x ∈ xs, x.length = m)
    (eqv : Vec → Vec → Bool) (heqv : ∀ a b, eqv a b = true ↔ a = b)
    (hpointed : ∀ a ∈ xs, ∀ b ∈ xs, dominates W a b = true → dominates W b a = true → a = b) :
    (∀ x ∈ xs, ∃ i ∈ naive eqv (dominates W) xs, ∃ a, xs[i]? = some a ∧ dominates W a x = true) ∧
    (∀ v, (∃ i ∈ naive eqv (dominates W) xs, xs[i]? = some v) ↔
      (∃ i ∈ fast (dominates W) xs, xs[i]? = some v)) :=
  ⟨naive_cover_on eqv _ xs heqv (dominates_preorderOn W m xs hlen) hpointed,
   naive_values_eq_fast_on eqv _ xs heqv (dominates_preorderOn W m xs hlen) hpointed⟩

/-- non-vacuity of the pointedness hypothesis: the componentwise order on a concrete list -/
example : ∀ a ∈ ([[1,2],[2,1],[0,0],[2,1]] : List Vec), ∀ b ∈ ([[1,2],[2,1],[0,0],[2,1]] : List Vec),
    dominates (identMat 2) a b = true → dominates (identMat 2) b a = true → a = b := by
  decide +kernel

end VOPy.C13
