import VOPyVerif.Proofs.StepsAuer
import VOPyVerif.Props.C09
/-!
# C02 — a design is eliminated only on, and always on, a confidence-region certificate

Property theorems only.  They are about the executable transitions of `Model/Steps.lean` that
driver_c02 runs against the real `discarding()` methods.  All statements are *parametric in the
oracle predicates* `isDom`, `isCov`, `pessDom` (arbitrary Boolean relations on design indices):
they hold for every geometry.  C09 (`isDom` ⇔ ∀z∈R_i ∀z'∈R_j : z' + slack ≽ z), C10 (`isCov`) and
C11 (`pessDom`) connect the Booleans to the regions; for Auer the certificate is spelled out on
centres and widths here.

Index lists stand for Python sets; the hypothesis `S.Nodup` is exactly "S is a set".
-/
namespace VOPy.C02
open VOPy VOPy.Steps

/-! ## PaVeBa, PaVeBaGP, PaVeBaPartialGP -/

/-- **Discarded ⇔ certificate (PaVeBa family).**  A candidate leaves `S` in `discarding()` exactly
when some *other* active design `j ∈ A = S ∪ U` has a region that dominates its region (oracle
`isDom i j`, slack 0). -/
theorem paveba_discard_iff (isDom : Rel) {S U : List Nat} (hS : S.Nodup) (i : Nat) :
    (i ∈ S ∧ i ∉ pavebaDiscard isDom S U) ↔
      (i ∈ S ∧ ∃ j, (j ∈ S ∨ j ∈ U) ∧ j ≠ i ∧ isDom i j = true) := by
  rw [mem_pavebaDiscard hS]
  constructor
  · rintro ⟨h1, h2⟩
    refine ⟨h1, ?_⟩
    apply Classical.byContradiction
    intro h; exact h2 ⟨h1, h⟩
  · rintro ⟨h1, h2⟩; exact ⟨h1, fun h => h.2 h2⟩

/-- **Kept ⇔ no certificate**: designs without a certificate stay, all others are removed in that
same call. -/
theorem paveba_kept_iff (isDom : Rel) {S U : List Nat} (hS : S.Nodup) (i : Nat) :
    i ∈ pavebaDiscard isDom S U ↔
      (i ∈ S ∧ ∀ j, (j ∈ S ∨ j ∈ U) → j ≠ i → isDom i j = false) := by
  rw [mem_pavebaDiscard hS]
  constructor
  · rintro ⟨h1, h2⟩
    refine ⟨h1, fun j hj hne => ?_⟩
    by_cases h : isDom i j = true
    · exact absurd ⟨j, hj, hne, h⟩ h2
    · simpa using h
  · rintro ⟨h1, h2⟩
    refine ⟨h1, ?_⟩
    rintro ⟨j, hj, hne, h⟩
    rw [h2 j hj hne] at h; exact absurd h (by simp)

/-- **Closed form.**  The literal loop (scan with `break`, collect, then remove) equals the
one-line specification `S' = [i ∈ S | no certificate]`, order preserved. -/
theorem paveba_discard_eq_filter (isDom : Rel) {S : List Nat} (U : List Nat) (hS : S.Nodup) :
    pavebaDiscard isDom S U =
      S.filter (fun i => !anyOther (fun j => isDom i j) i (union S U)) := by
  unfold pavebaDiscard pavebaToDiscard
  exact removeAll_filter hS _

/-- `S' ⊆ S` (as a sublist: order and multiplicity preserved), and `S'` is again a set. -/
theorem paveba_discard_subset (isDom : Rel) (S U : List Nat) :
    (pavebaDiscard isDom S U).Sublist S ∧ (S.Nodup → (pavebaDiscard isDom S U).Nodup) :=
  ⟨removeAll_sublist _ _, fun h => nodup_removeAll _ h⟩

/-- **Eliminated over the whole round ⇔ certificate (PaVeBa family).**  With `S ∩ P = ∅` (an
invariant of the algorithm): a design of `S` is neither in the new `S` nor in the new `P` after
`discarding(); pareto_updating(); useful_updating()` exactly when it had an elimination
certificate on the regions displayed in this round. -/
theorem paveba_eliminated_iff (isDom isCov : Rel) {S P U : List Nat} (hS : S.Nodup)
    (hSP : ∀ x ∈ S, x ∉ P) (i : Nat) :
    (i ∈ S ∧ i ∉ (pavebaRound isDom isCov S P U).1 ∧ i ∉ (pavebaRound isDom isCov S P U).2.1) ↔
      (i ∈ S ∧ ∃ j, (j ∈ S ∨ j ∈ U) ∧ j ≠ i ∧ isDom i j = true) := by
  rw [← paveba_discard_iff isDom hS]
  have hS1 : (pavebaDiscard isDom S U).Nodup := nodup_removeAll _ hS
  simp only [pavebaRound, pavebaPareto]
  constructor
  · rintro ⟨h1, h2, h3⟩
    refine ⟨h1, fun h4 => ?_⟩
    apply h2
    rw [mem_removeAll _ hS1]
    refine ⟨h4, fun h5 => h3 ?_⟩
    exact (mem_addAll _ _).mpr (Or.inr h5)
  · rintro ⟨h1, h2⟩
    refine ⟨h1, fun h3 => h2 ((removeAll_sublist _ _).subset h3), fun h3 => ?_⟩
    rcases (mem_addAll _ _).mp h3 with h | h
    · exact hSP i h1 h
    · exact h2 (mem_pavebaNewPareto.mp h).1

/-- **The property's wording (PaVeBa family).**  Let `R i` be the displayed region of design `i`
(any type of points, any relation `dom z' z` = "`z'` with the slack dominates `z`") and suppose the
oracle decides the ∀∀ statement over the two regions (this is what C09 establishes for rectangles
and ellipsoids).  Then a design leaves the candidate set without entering `P` exactly when another
active design's region dominates every point of its region. -/
theorem paveba_eliminated_semantic {α : Type} (R : Nat → α → Prop) (dom : α → α → Prop)
    (isDom isCov : Rel)
    (hC09 : ∀ i j, isDom i j = true ↔ ∀ z, R i z → ∀ z', R j z' → dom z' z)
    {S P U : List Nat} (hS : S.Nodup) (hSP : ∀ x ∈ S, x ∉ P) (i : Nat) :
    (i ∈ S ∧ i ∉ (pavebaRound isDom isCov S P U).1 ∧ i ∉ (pavebaRound isDom isCov S P U).2.1) ↔
      (i ∈ S ∧ ∃ j, (j ∈ S ∨ j ∈ U) ∧ j ≠ i ∧ ∀ z, R i z → ∀ z', R j z' → dom z' z) := by
  rw [paveba_eliminated_iff isDom isCov hS hSP]
  simp only [hC09]

/-- **Order independence (PaVeBa family).**  The code iterates Python sets; permuting the iteration
order of `S` and of `U` permutes the result, so its canonical (sorted) form is the same. -/
theorem paveba_discard_perm (isDom : Rel) {S S₂ U U₂ : List Nat} (hS : S.Nodup)
    (h1 : S.Perm S₂) (h2 : U.Perm U₂) :
    (pavebaDiscard isDom S U).Perm (pavebaDiscard isDom S₂ U₂) ∧
      sortNat (pavebaDiscard isDom S U) = sortNat (pavebaDiscard isDom S₂ U₂) := by
  have hS₂ : S₂.Nodup := (h1.nodup_iff).mp hS
  have hp : (pavebaDiscard isDom S U).Perm (pavebaDiscard isDom S₂ U₂) := by
    have n1 : (pavebaDiscard isDom S U).Nodup := nodup_removeAll _ hS
    have n2 : (pavebaDiscard isDom S₂ U₂).Nodup := nodup_removeAll _ hS₂
    refine (List.perm_ext_iff_of_nodup n1 n2).mpr ?_
    intro a
    rw [mem_pavebaDiscard hS, mem_pavebaDiscard hS₂]
    simp only [h1.mem_iff, h2.mem_iff]
  exact ⟨hp, sortNat_eq_of_perm hp⟩

/-- **Single-design active set**: the only active design is never eliminated. -/
theorem paveba_single (isDom : Rel) (i : Nat) (U : List Nat) (hU : ∀ u ∈ U, u = i) :
    pavebaDiscard isDom [i] U = [i] := by
  have h : anyOther (fun j => isDom i j) i (union [i] U) = false := by
    rw [anyOther_eq_false_iff]
    intro j hj hne
    rcases mem_union.mp hj with hj | hj
    · exact absurd (by simpa using hj) hne
    · exact absurd (hU j hj) hne
  simp [pavebaDiscard, pavebaToDiscard, h, removeAll]

/-- **Identical regions** (same answers as first argument, symmetric between the two): two
candidates with identical regions are either both eliminated or both kept. -/
theorem paveba_identical (isDom : Rel) {S U : List Nat} (hS : S.Nodup) {i j : Nat}
    (hi : i ∈ S) (hj : j ∈ S) (hrow : ∀ k, isDom i k = isDom j k) (hsym : isDom i j = isDom j i) :
    i ∈ pavebaDiscard isDom S U ↔ j ∈ pavebaDiscard isDom S U := by
  rw [mem_pavebaDiscard hS, mem_pavebaDiscard hS]
  have key : ∀ {a b : Nat}, a ∈ S → b ∈ S → (∀ k, isDom a k = isDom b k) → isDom a b = isDom b a →
      (∃ k, (k ∈ S ∨ k ∈ U) ∧ k ≠ a ∧ isDom a k = true) →
      (∃ k, (k ∈ S ∨ k ∈ U) ∧ k ≠ b ∧ isDom b k = true) := by
    intro a b ha hb hr hs
    rintro ⟨k, hk, hne, hd⟩
    by_cases hkb : k = b
    · subst hkb
      exact ⟨a, Or.inl ha, fun h => hne h.symm, by rw [← hs]; exact hd⟩
    · exact ⟨k, hk, hkb, by rw [← hr k]; exact hd⟩
  constructor
  · rintro ⟨_, h⟩
    exact ⟨hj, fun h' => h (key hj hi (fun k => (hrow k).symm) hsym.symm h')⟩
  · rintro ⟨_, h⟩
    exact ⟨hi, fun h' => h (key hi hj hrow hsym h')⟩

/-- non-vacuity: design 0 is dominated by the useful design 2 ∈ U only; design 1 stays -/
example : pavebaDiscard (fun i j => i == 0 && j == 2) [0, 1] [2] = [1] := by decide

/-! ## VOGP, VOGP_AD, ε-PAL -/

/-- **Pessimistic set.**  `i` is in the pessimistic Pareto set of `W = S ∪ P` exactly when it is
active and no other active region pessimistically dominates its region. -/
theorem pessimistic_iff (pessDom : Rel) (S P : List Nat) (i : Nat) :
    i ∈ pessimisticSet pessDom S P ↔
      ((i ∈ S ∨ i ∈ P) ∧ ∀ j, (j ∈ S ∨ j ∈ P) → j ≠ i → pessDom j i = false) :=
  mem_pessimisticSet

/-- **Discarded ⇔ certificate (VOGP / VOGP_AD / ε-PAL).**  A candidate leaves `S` in
`discarding()` exactly when it is not in the pessimistic set and some member `j` of the
pessimistic set has a region dominating its region with the ε-slack (oracle `isDom i j`; the
witness is automatically another design). -/
theorem vogp_discard_iff (isDom pessDom : Rel) {S P : List Nat} (hS : S.Nodup) (i : Nat) :
    (i ∈ S ∧ i ∉ vogpDiscard isDom pessDom S P) ↔
      (i ∈ S ∧ i ∉ pessimisticSet pessDom S P ∧
        ∃ j, j ∈ pessimisticSet pessDom S P ∧ j ≠ i ∧ isDom i j = true) := by
  rw [mem_vogpDiscard hS]
  constructor
  · rintro ⟨h1, h2⟩
    have h3 : i ∉ pessimisticSet pessDom S P ∧
        ∃ j ∈ pessimisticSet pessDom S P, isDom i j = true := by
      apply Classical.byContradiction
      intro h; exact h2 ⟨h1, h⟩
    obtain ⟨h4, j, hj, hd⟩ := h3
    exact ⟨h1, h4, j, hj, fun h => h4 (h ▸ hj), hd⟩
  · rintro ⟨h1, h2, j, hj, _, hd⟩
    exact ⟨h1, fun h => h.2 ⟨h2, j, hj, hd⟩⟩

/-- **Kept ⇔ no certificate** for the pessimistic family. -/
theorem vogp_kept_iff (isDom pessDom : Rel) {S P : List Nat} (hS : S.Nodup) (i : Nat) :
    i ∈ vogpDiscard isDom pessDom S P ↔
      (i ∈ S ∧ (i ∈ pessimisticSet pessDom S P ∨
        ∀ j ∈ pessimisticSet pessDom S P, isDom i j = false)) := by
  rw [mem_vogpDiscard hS]
  constructor
  · rintro ⟨h1, h2⟩
    refine ⟨h1, ?_⟩
    by_cases hp : i ∈ pessimisticSet pessDom S P
    · exact Or.inl hp
    · refine Or.inr (fun j hj => ?_)
      by_cases hd : isDom i j = true
      · exact absurd ⟨hp, j, hj, hd⟩ h2
      · simpa using hd
  · rintro ⟨h1, h2⟩
    refine ⟨h1, ?_⟩
    rintro ⟨hp, j, hj, hd⟩
    rcases h2 with h2 | h2
    · exact hp h2
    · rw [h2 j hj] at hd; exact absurd hd (by simp)

/-- `S' ⊆ S` and `S'` is again a set. -/
theorem vogp_discard_subset (isDom pessDom : Rel) (S P : List Nat) :
    (vogpDiscard isDom pessDom S P).Sublist S ∧
      (S.Nodup → (vogpDiscard isDom pessDom S P).Nodup) :=
  ⟨removeAll_sublist _ _, fun h => nodup_removeAll _ h⟩

/-- **Eliminated over the whole round ⇔ certificate (VOGP / ε-PAL).** -/
theorem vogp_eliminated_iff (isDom isCov pessDom : Rel) {S P : List Nat} (hS : S.Nodup)
    (hSP : ∀ x ∈ S, x ∉ P) (i : Nat) :
    (i ∈ S ∧ i ∉ (vogpRound isDom isCov pessDom S P).1 ∧
        i ∉ (vogpRound isDom isCov pessDom S P).2) ↔
      (i ∈ S ∧ i ∉ pessimisticSet pessDom S P ∧
        ∃ j, j ∈ pessimisticSet pessDom S P ∧ j ≠ i ∧ isDom i j = true) := by
  rw [← vogp_discard_iff isDom pessDom hS]
  have hS1 : (vogpDiscard isDom pessDom S P).Nodup := nodup_removeAll _ hS
  simp only [vogpRound, epsilonCovering]
  constructor
  · rintro ⟨h1, h2, h3⟩
    refine ⟨h1, fun h4 => ?_⟩
    apply h2
    rw [mem_removeAll _ hS1]
    exact ⟨h4, fun h5 => h3 ((mem_addAll _ _).mpr (Or.inr h5))⟩
  · rintro ⟨h1, h2⟩
    refine ⟨h1, fun h3 => h2 ((removeAll_sublist _ _).subset h3), fun h3 => ?_⟩
    rcases (mem_addAll _ _).mp h3 with h | h
    · exact hSP i h1 h
    · exact h2 (mem_coverNew.mp h).1

/-- **The property's wording (VOGP / ε-PAL).**  With regions `R i`, `dom` = "dominates with the
ε-slack" decided by `isDom` (C09) and `pdom j i` = "region j pessimistically dominates region i"
decided by `pessDom` (C11): a design leaves the candidate set without entering `P` exactly when it
is not pessimistic-Pareto among the active designs and the region of a pessimistic-Pareto design
dominates every point of its region with the ε-slack. -/
theorem vogp_eliminated_semantic {α : Type} (R : Nat → α → Prop) (dom : α → α → Prop)
    (pdom : Nat → Nat → Prop) (isDom isCov pessDom : Rel)
    (hC09 : ∀ i j, isDom i j = true ↔ ∀ z, R i z → ∀ z', R j z' → dom z' z)
    (hC11 : ∀ j i, pessDom j i = true ↔ pdom j i)
    {S P : List Nat} (hS : S.Nodup) (hSP : ∀ x ∈ S, x ∉ P) (i : Nat) :
    let pess := fun k => (k ∈ S ∨ k ∈ P) ∧ ∀ j, (j ∈ S ∨ j ∈ P) → j ≠ k → ¬ pdom j k
    (i ∈ S ∧ i ∉ (vogpRound isDom isCov pessDom S P).1 ∧
        i ∉ (vogpRound isDom isCov pessDom S P).2) ↔
      (i ∈ S ∧ ¬ pess i ∧ ∃ j, pess j ∧ j ≠ i ∧ ∀ z, R i z → ∀ z', R j z' → dom z' z) := by
  intro pess
  have hp : ∀ k, k ∈ pessimisticSet pessDom S P ↔ pess k :=
    fun k => mem_pessimisticSet_bridge pdom hC11
  rw [vogp_eliminated_iff isDom isCov pessDom hS hSP]
  simp only [hp, hC09]

/-- **Eliminated over the whole round ⇔ certificate (VOGP_AD)** — whatever the depths and the
state of the ε-covering latch. -/
theorem vogpAD_eliminated_iff (isDom isCov pessDom : Rel) (depth : Nat → Nat) (maxDepth : Nat)
    (enabled : Bool) {S P : List Nat} (hS : S.Nodup) (hSP : ∀ x ∈ S, x ∉ P) (i : Nat) :
    (i ∈ S ∧ i ∉ (vogpADRound isDom isCov pessDom depth maxDepth enabled S P).1 ∧
        i ∉ (vogpADRound isDom isCov pessDom depth maxDepth enabled S P).2.1) ↔
      (i ∈ S ∧ i ∉ pessimisticSet pessDom S P ∧
        ∃ j, j ∈ pessimisticSet pessDom S P ∧ j ≠ i ∧ isDom i j = true) := by
  unfold vogpADRound epsilonCoveringAD
  split
  · -- gate closed: S, P unchanged by the covering phase
    rw [← vogp_discard_iff isDom pessDom hS]
    simp only
    constructor
    · rintro ⟨h1, h2, _⟩; exact ⟨h1, h2⟩
    · rintro ⟨h1, h2⟩; exact ⟨h1, h2, hSP i h1⟩
  · exact vogp_eliminated_iff isDom isCov pessDom hS hSP i

/-- **Order independence (pessimistic family)**: pessimistic set and new `S`. -/
theorem vogp_discard_perm (isDom pessDom : Rel) {S S₂ P P₂ : List Nat} (hS : S.Nodup)
    (h1 : S.Perm S₂) (h2 : P.Perm P₂) :
    (∀ x, x ∈ pessimisticSet pessDom S P ↔ x ∈ pessimisticSet pessDom S₂ P₂) ∧
    (vogpDiscard isDom pessDom S P).Perm (vogpDiscard isDom pessDom S₂ P₂) ∧
      sortNat (vogpDiscard isDom pessDom S P) = sortNat (vogpDiscard isDom pessDom S₂ P₂) := by
  have hS₂ : S₂.Nodup := (h1.nodup_iff).mp hS
  have hpess : ∀ x, x ∈ pessimisticSet pessDom S P ↔ x ∈ pessimisticSet pessDom S₂ P₂ := by
    intro x
    simp only [mem_pessimisticSet, h1.mem_iff, h2.mem_iff]
  have hp : (vogpDiscard isDom pessDom S P).Perm (vogpDiscard isDom pessDom S₂ P₂) := by
    have n1 : (vogpDiscard isDom pessDom S P).Nodup := nodup_removeAll _ hS
    have n2 : (vogpDiscard isDom pessDom S₂ P₂).Nodup := nodup_removeAll _ hS₂
    refine (List.perm_ext_iff_of_nodup n1 n2).mpr ?_
    intro a
    rw [mem_vogpDiscard hS, mem_vogpDiscard hS₂]
    simp only [h1.mem_iff, hpess]
  exact ⟨hpess, hp, sortNat_eq_of_perm hp⟩

/-- **Single-design active set**: with `W = S ∪ P = {i}` the design is pessimistic-Pareto and is
never eliminated. -/
theorem vogp_single (isDom pessDom : Rel) (i : Nat) (P : List Nat) (hP : ∀ p ∈ P, p = i) :
    pessimisticSet pessDom [i] P = [i] ∧ vogpDiscard isDom pessDom [i] P = [i] := by
  have hW : union [i] P = [i] := by
    unfold union
    have : P.filter (fun u => !([i] : List Nat).contains u) = [] := by
      rw [List.filter_eq_nil_iff]
      intro p hp
      simp [hP p hp]
    rw [this]; rfl
  have hpess : pessimisticSet pessDom [i] P = [i] := by
    unfold pessimisticSet
    simp [hW, anyOther]
  refine ⟨hpess, ?_⟩
  unfold vogpDiscard vogpToDiscard
  simp [hpess, removeAll]

/-- **Identical regions (pessimistic family)**: two candidates whose regions are identical (same
oracle answers in either argument position, symmetric between the two) have the same pessimistic
status and are either both eliminated or both kept. -/
theorem vogp_identical (isDom pessDom : Rel) {S P : List Nat} (hS : S.Nodup) {i j : Nat}
    (hi : i ∈ S) (hj : j ∈ S) (hrow : ∀ k, isDom i k = isDom j k)
    (hp1 : ∀ k, pessDom k i = pessDom k j) (hp2 : pessDom i j = pessDom j i) :
    (i ∈ pessimisticSet pessDom S P ↔ j ∈ pessimisticSet pessDom S P) ∧
    (i ∈ vogpDiscard isDom pessDom S P ↔ j ∈ vogpDiscard isDom pessDom S P) := by
  have key : ∀ {a b : Nat}, b ∈ S → (∀ k, pessDom k a = pessDom k b) →
      pessDom a b = pessDom b a →
      a ∈ pessimisticSet pessDom S P → b ∈ pessimisticSet pessDom S P := by
    intro a b hb h1 h2
    rw [mem_pessimisticSet, mem_pessimisticSet]
    rintro ⟨_, h⟩
    refine ⟨Or.inl hb, fun k hk hne => ?_⟩
    by_cases hka : k = a
    · subst hka
      rw [h2]
      exact h b (Or.inl hb) (fun h' => hne h'.symm)
    · rw [← h1 k]; exact h k hk hka
  have hpess : i ∈ pessimisticSet pessDom S P ↔ j ∈ pessimisticSet pessDom S P :=
    ⟨key hj hp1 hp2, key hi (fun k => (hp1 k).symm) hp2.symm⟩
  refine ⟨hpess, ?_⟩
  rw [mem_vogpDiscard hS, mem_vogpDiscard hS, hpess]
  simp only [hrow, hi, hj, true_and]

/-- non-vacuity: 1 pessimistically dominates 0, and dominates it with the slack → 0 is discarded;
2 is not pessimistic either (dominated by 1) but has no certificate → stays -/
example : vogpDiscard (fun i j => i == 0 && j == 1) (fun j i => j == 1 && (i == 0 || i == 2))
    [0, 1, 2] [] = [1, 2] := by decide

/-! ## End to end with the geometry of C09 (no oracle left for the elimination certificate) -/

/-- **Rectangular regions (PaVeBaGP type "IH", PaVeBaPartialGP "hyperrectangle"), real points.**
Let design `k` display the box `[L k, U k]` (`L k ≤ U k`), let `W` be any cone matrix and `s` the
objective-space slack (0 for this family), and let `discarding()` decide with the model of the
rectangular `is_dominated` (C09: `Rect.isDominated`).  Then a design leaves the candidate set without
entering `P` **exactly when** some other active design `j` satisfies
`∀ z ∈ box_i, ∀ z' ∈ box_j, ∀ n, w_n·(z' + s − z) ≥ 0` over the reals. -/
theorem paveba_rect_eliminated_real {m N : ℕ} (W : Fin N → Fin m → ℚ) (L U : Nat → Fin m → ℚ)
    (s : Fin m → ℚ) (hLU : ∀ k i, L k i ≤ U k i) (isCov : Rel) {S P Us : List Nat} (hS : S.Nodup)
    (hSP : ∀ x ∈ S, x ∉ P) (i : Nat) :
    let isDom : Rel := fun a b => Rect.isDominated (toMat W) (toVec (L a)) (toVec (U a))
      (toVec (L b)) (toVec (U b)) (toVec s)
    (i ∈ S ∧ i ∉ (pavebaRound isDom isCov S P Us).1 ∧ i ∉ (pavebaRound isDom isCov S P Us).2.1) ↔
      (i ∈ S ∧ ∃ j, (j ∈ S ∨ j ∈ Us) ∧ j ≠ i ∧ Rect.Dominated W (L i) (U i) (L j) (U j) s) := by
  intro isDom
  rw [paveba_eliminated_iff isDom isCov hS hSP]
  have h : ∀ a b, isDom a b = true ↔ Rect.Dominated W (L a) (U a) (L b) (U b) s :=
    fun a b => VOPy.C09.rect_isDominated_iff W _ _ _ _ s (hLU a) (hLU b)
  simp only [h]

/-- **Ellipsoidal regions (PaVeBa, PaVeBaGP type "DE", PaVeBaPartialGP "hyperellipsoid"), real
points.**  Design `k` displays `{z | (z − c_k)ᵀ Σ_k⁻¹ (z − c_k) ≤ a_k², 0 ≤ a_k}` with `Σ_k` positive
definite; `s` is the per-facet slack (0 for this family).  With the model of the ellipsoidal
`is_dominated` (C09: `Ellipsoid.isDominated`, closed form decided exactly) a design is eliminated
exactly when some other active design's ellipsoid dominates every point of its ellipsoid. -/
theorem paveba_ell_eliminated_real {m N : ℕ} (W : Fin N → Fin m → ℚ) (c : Nat → Fin m → ℚ)
    (Sg : Nat → Fin m → Fin m → ℚ) (a : Nat → ℚ) (s : Fin N → ℚ)
    (hpd : ∀ k, (Matrix.of fun i j => (Sg k i j : ℝ)).PosDef) (isCov : Rel) {S P Us : List Nat}
    (hS : S.Nodup) (hSP : ∀ x ∈ S, x ∉ P) (i : Nat) :
    let isDom : Rel := fun p q => Ellipsoid.isDominated (toMat W) (toVec (c p)) (toMat (Sg p)) (a p)
      (toVec (c q)) (toMat (Sg q)) (a q) (toVec s)
    (i ∈ S ∧ i ∉ (pavebaRound isDom isCov S P Us).1 ∧ i ∉ (pavebaRound isDom isCov S P Us).2.1) ↔
      (i ∈ S ∧ ∃ j, (j ∈ S ∨ j ∈ Us) ∧ j ≠ i ∧
        Ellipsoid.DominatedQ W (c i) (Matrix.of fun x y => (Sg i x y : ℝ)) (a i)
          (c j) (Matrix.of fun x y => (Sg j x y : ℝ)) (a j) s) := by
  intro isDom
  rw [paveba_eliminated_iff isDom isCov hS hSP]
  have h : ∀ p q, isDom p q = true ↔
      Ellipsoid.DominatedQ W (c p) (Matrix.of fun x y => (Sg p x y : ℝ)) (a p)
        (c q) (Matrix.of fun x y => (Sg q x y : ℝ)) (a q) s :=
    fun p q => VOPy.C09.ell_isDominated_iff_posDef W _ _ _ _ _ _ s (hpd p) (hpd q)
  simp only [h]

/-- **Rectangular regions, VOGP / VOGP_AD / ε-PAL, real points.**  As above with the ε-slack `s`
(`ε·u*`, or `ε` in every objective) and the witness restricted to the pessimistic Pareto set of the
active designs (`pdom` decided by `pessDom`, C11). -/
theorem vogp_rect_eliminated_real {m N : ℕ} (W : Fin N → Fin m → ℚ) (L U : Nat → Fin m → ℚ)
    (s : Fin m → ℚ) (hLU : ∀ k i, L k i ≤ U k i) (pdom : Nat → Nat → Prop) (isCov pessDom : Rel)
    (hC11 : ∀ j i, pessDom j i = true ↔ pdom j i)
    {S P : List Nat} (hS : S.Nodup) (hSP : ∀ x ∈ S, x ∉ P) (i : Nat) :
    let isDom : Rel := fun a b => Rect.isDominated (toMat W) (toVec (L a)) (toVec (U a))
      (toVec (L b)) (toVec (U b)) (toVec s)
    let pess := fun k => (k ∈ S ∨ k ∈ P) ∧ ∀ j, (j ∈ S ∨ j ∈ P) → j ≠ k → ¬ pdom j k
    (i ∈ S ∧ i ∉ (vogpRound isDom isCov pessDom S P).1 ∧
        i ∉ (vogpRound isDom isCov pessDom S P).2) ↔
      (i ∈ S ∧ ¬ pess i ∧ ∃ j, pess j ∧ j ≠ i ∧ Rect.Dominated W (L i) (U i) (L j) (U j) s) := by
  intro isDom pess
  have hp : ∀ k, k ∈ pessimisticSet pessDom S P ↔ pess k :=
    fun k => mem_pessimisticSet_bridge pdom hC11
  have hd : ∀ a b, isDom a b = true ↔ Rect.Dominated W (L a) (U a) (L b) (U b) s :=
    fun a b => VOPy.C09.rect_isDominated_iff W _ _ _ _ s (hLU a) (hLU b)
  rw [vogp_eliminated_iff isDom isCov pessDom hS hSP]
  simp only [hp, hd]

/-! ## Auer -/

/-- **Auer's certificate in words.**  `auerDomCert` holds exactly when `m(c_i, c_j)` exceeds the
*summed widths* `β_i^d + β_j^d` in every objective `d`; and for non-negative widths
`b < m(c_i, c_j)` means that every coordinate of `c_j − c_i` exceeds `b`. -/
theorem auer_cert_iff (centre : Nat → Vec) (i j : Nat) (bi bj : Vec) :
    (auerDomCert centre (i, bi) (j, bj) = true ↔
      ∀ b ∈ vadd bi bj, b < smallM (centre i) (centre j)) ∧
    (vsub (centre j) (centre i) ≠ [] → ∀ b : Rat, 0 ≤ b →
      (b < smallM (centre i) (centre j) ↔ ∀ x ∈ vsub (centre j) (centre i), b < x)) :=
  ⟨allGt_iff _ _, fun hv _ hb => lt_smallM_iff hv hb⟩

/-- **Auer's certificate on coordinates.**  For non-negative width rows and a non-empty objective
vector the certificate says: every coordinate of `c_j − c_i` exceeds every summed width
`β_i^d + β_j^d` — design `j` beats design `i` in *every* objective by more than the two designs'
summed confidence widths in *every* objective. -/
theorem auer_cert_semantic (centre : Nat → Vec) (i j : Nat) (bi bj : Vec)
    (hv : vsub (centre j) (centre i) ≠ []) (hb : ∀ b ∈ vadd bi bj, 0 ≤ b) :
    auerDomCert centre (i, bi) (j, bj) = true ↔
      ∀ b ∈ vadd bi bj, ∀ x ∈ vsub (centre j) (centre i), b < x := by
  unfold auerDomCert
  rw [allGt_iff]
  constructor
  · intro h b hbm; exact (lt_smallM_iff hv (hb b hbm)).mp (h b hbm)
  · intro h b hbm; exact (lt_smallM_iff hv (hb b hbm)).mpr (h b hbm)

/-- **Discarded ⇔ certificate (Auer), each design's own width.**  With widths looked up by design
(`width i` is design `i`'s row), a candidate leaves `S` exactly when another candidate `j`
satisfies `∀ d, m(c_i, c_j) > β_i^d + β_j^d`. -/
theorem auer_discard_iff (centre width : Nat → Vec) {S : List Nat} (hS : S.Nodup) (i : Nat) :
    (i ∈ S ∧ i ∉ auerDiscard centre width S) ↔
      (i ∈ S ∧ ∃ j ∈ S, j ≠ i ∧ auerDomCert centre (i, width i) (j, width j) = true) := by
  rw [mem_auerDiscard hS]
  constructor
  · rintro ⟨h1, h2⟩
    refine ⟨h1, ?_⟩
    apply Classical.byContradiction
    intro h; exact h2 ⟨h1, h⟩
  · rintro ⟨h1, h2⟩; exact ⟨h1, fun h => h.2 h2⟩

/-- **The code's positional lookup is the own-width lookup in `discarding()`**: there `beta_t` is
aligned with the iteration order of the very set that is scanned (`rows = S.map width`). -/
theorem auer_discard_position_ok (centre width : Nat → Vec) (S : List Nat) :
    auerDiscardPos centre (S.map width) S = auerDiscard centre width S := by
  unfold auerDiscardPos auerDiscard
  rw [byPosition_aligned]

/-- `S' ⊆ S`, `S'` a set. -/
theorem auer_discard_subset (centre width : Nat → Vec) (S : List Nat) :
    (auerDiscard centre width S).Sublist S ∧ (S.Nodup → (auerDiscard centre width S).Nodup) :=
  ⟨removeAll_sublist _ _, fun h => nodup_removeAll _ h⟩

/-- **Eliminated over the whole round ⇔ certificate (Auer, own widths).** -/
theorem auer_eliminated_iff (eps : Rat) (centre width : Nat → Vec) {S P : List Nat}
    (hS : S.Nodup) (hSP : ∀ x ∈ S, x ∉ P) (i : Nat) :
    (i ∈ S ∧ i ∉ (auerRound eps centre width S P).1 ∧ i ∉ (auerRound eps centre width S P).2) ↔
      (i ∈ S ∧ ∃ j ∈ S, j ≠ i ∧ auerDomCert centre (i, width i) (j, width j) = true) := by
  rw [← auer_discard_iff centre width hS]
  have hS1 : (auerDiscard centre width S).Nodup := nodup_removeAll _ hS
  simp only [auerRound, auerPareto]
  constructor
  · rintro ⟨h1, h2, h3⟩
    refine ⟨h1, fun h4 => ?_⟩
    apply h2
    rw [mem_removeAll _ hS1]
    exact ⟨h4, fun h5 => h3 ((mem_addAll _ _).mpr (Or.inr h5))⟩
  · rintro ⟨h1, h2⟩
    refine ⟨h1, fun h3 => h2 ((removeAll_sublist _ _).subset h3), fun h3 => ?_⟩
    rcases (mem_addAll _ _).mp h3 with h | h
    · exact hSP i h1 h
    · exact h2 (mem_auerNewPareto.mp h).1.1

/-- **Order independence (Auer, own widths).** -/
theorem auer_discard_perm (centre width : Nat → Vec) {S S₂ : List Nat} (hS : S.Nodup)
    (h1 : S.Perm S₂) :
    (auerDiscard centre width S).Perm (auerDiscard centre width S₂) ∧
      sortNat (auerDiscard centre width S) = sortNat (auerDiscard centre width S₂) := by
  have hS₂ : S₂.Nodup := (h1.nodup_iff).mp hS
  have hp : (auerDiscard centre width S).Perm (auerDiscard centre width S₂) := by
    have n1 : (auerDiscard centre width S).Nodup := nodup_removeAll _ hS
    have n2 : (auerDiscard centre width S₂).Nodup := nodup_removeAll _ hS₂
    refine (List.perm_ext_iff_of_nodup n1 n2).mpr ?_
    intro a
    rw [mem_auerDiscard hS, mem_auerDiscard hS₂]
    simp only [h1.mem_iff]
  exact ⟨hp, sortNat_eq_of_perm hp⟩

/-- **Single-design active set (Auer)**. -/
theorem auer_single (centre width : Nat → Vec) (i : Nat) : auerDiscard centre width [i] = [i] := by
  simp [auerDiscard, auerToDiscardCore, byDesign, anyOtherP, removeAll]

/-- non-vacuity: one objective; design 0 sits 3 below design 1, widths 1 + 1 < 3 → discarded;
design 2 sits 1 below design 1, 1 + 1 ≥ 1 → stays -/
example : auerDiscard (fun i => if i = 0 then [0] else if i = 1 then [3] else [2]) (fun _ => [1])
    [0, 1, 2] = [1, 2] := by decide +kernel

end VOPy.C02
