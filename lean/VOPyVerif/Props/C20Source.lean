import VOPyVerif.Props.C20
import VOPyVerif.Proofs.GenAgreeC20
import VOPyVerif.Proofs.RealInst
import Mathlib.Tactic.FieldSimp
import Mathlib.Tactic.Ring
/-!
# C20 — SOURCE AGREEMENT obligations (second tie between model and code, DESIGN §2.10)

Property theorems only, same namespace `VOPy.C20` as `Props/C20.lean` (whose theorems are about the
hand-written model and do not depend on anything generated).  The theorems here say that the column
formulas of the model's `normalize` / `unnormalize` are the ones regenerated from the current Python
source text (`Gen/C20.lean`, written by `harness/translate.py` on every `./check C20`; agreement lemmas in
`Proofs/GenAgreeC20.lean`), and transfer the mutual-inverse law to the generated terms.  Own module, so a
source edit the translator reads differently makes exactly these obligations fail while the model
theorems of `Props/C20.lean` stay discharged.
-/
namespace VOPy.C20
open VOPy VOPy.Problem

/-- `normalize`'s column formula as written in the source = `normalizeColF` (polymorphic, `rfl`). -/
theorem source_normalizeCol {α : Type} [RealLike α] (lo hi x : α) :
    Gen.C20.gen_normalizeCol lo hi x = normalizeColF lo hi x :=
  GenAgree.C20.gen_normalizeCol_eq lo hi x

/-- `unnormalize`'s column formula as written in the source = `unnormalizeColF` (polymorphic, `rfl`). -/
theorem source_unnormalizeCol {α : Type} [RealLike α] (lo hi x : α) :
    Gen.C20.gen_unnormalizeCol lo hi x = unnormalizeColF lo hi x :=
  GenAgree.C20.gen_unnormalizeCol_eq lo hi x

/-- **The source-derived terms are the model's rational column maps.**  At `ℝ`, on rational data, the
generated terms take exactly the values of `normalizeCol` / `unnormalizeCol` — the functions
`unnormalize_normalize` / `normalize_unnormalize` of `Props/C20.lean` are proved about. -/
theorem source_cols_cast (lo hi x : Rat) :
    Gen.C20.gen_normalizeCol (lo : ℝ) (hi : ℝ) (x : ℝ) = ((normalizeCol lo hi x : Rat) : ℝ) ∧
    Gen.C20.gen_unnormalizeCol (lo : ℝ) (hi : ℝ) (x : ℝ) = ((unnormalizeCol lo hi x : Rat) : ℝ) := by
  constructor
  · show ((x : ℝ) - lo) / ((hi : ℝ) - lo) = _
    unfold normalizeCol; push_cast; rfl
  · show (x : ℝ) * ((hi : ℝ) - lo) + lo = _
    unfold unnormalizeCol; push_cast; rfl

/-- **Mutual inverses, for the source-derived terms, over ℝ.**  With `upper ≠ lower` the two expressions
written in `vopy/utils/utils.py` undo each other in both orders, for every real entry. -/
theorem source_normalize_roundtrip (lo hi x : ℝ) (h : lo ≠ hi) :
    Gen.C20.gen_unnormalizeCol lo hi (Gen.C20.gen_normalizeCol lo hi x) = x ∧
    Gen.C20.gen_normalizeCol lo hi (Gen.C20.gen_unnormalizeCol lo hi x) = x := by
  have hne : hi - lo ≠ 0 := sub_ne_zero.mpr (Ne.symm h)
  constructor
  · show (x - lo) / (hi - lo) * (hi - lo) + lo = x
    field_simp; ring
  · show (x * (hi - lo) + lo - lo) / (hi - lo) = x
    field_simp; ring

/-- non-vacuity: bounds (−2, 6), entry 1 ↦ 3/8 ↦ 1 -/
example : Gen.C20.gen_unnormalizeCol (-2 : ℝ) 6 (Gen.C20.gen_normalizeCol (-2 : ℝ) 6 1) = 1 :=
  (source_normalize_roundtrip (-2) 6 1 (by norm_num)).1

end VOPy.C20
