import VOPyVerif.Proofs.GPWrap
import VOPyVerif.Proofs.GPWrapAlg
import VOPyVerif.Proofs.GPWrapBridge
import VOPyVerif.Proofs.GPWrapPerm
import VOPyVerif.Proofs.GPWrapJoint
import Mathlib.Data.Rat.Star
/-!
# C15 — GP models return the exact posterior of exactly the data they hold

Property theorems only (helper lemmas: `Proofs/GPWrap*.lean`).  Three layers:

1. **state machine** (`GPWrap.run / predict`, the definitions the driver executes): `predict` reads
   `conditioned`, `update` sets `conditioned := held`; hence predictions are a function of the
   samples held at the last update, of their multiset when the posterior is permutation invariant;
   `clear; update` forgets; the train-and-freeze helpers' op sequence is up to date (and the pre-fix
   sequence iff it ends with an `update`);
2. **algebra** over Mathlib matrices (`quad A k r = kᵀA⁻¹r`): permutation invariance, block-diagonal
   structure of the model list, non-negative and antitone posterior variance, prior for no data;
3. **refinement**: whenever the executable exact posterior `GPWrap.posterior` (checked rational
   solve) answers, its answer *is* the closed form of layer 2; so layer 2 speaks about the numbers
   the driver compares with `predict()`;
4. **executable consequences** for the three model classes (`postScalar`/`mlistPost`/`indepPost`,
   `jointPost`/`corrPost`): closed forms on the data's own index types, invariance under any
   permutation of the samples (all three classes, end to end with the state machine), locality of
   the model list, prior for no data, variance `≥ 0`, variance antitone under `data ++ extra`
   (per-objective classes), and the `(N, m)`/`(N, m, m)` shapes.

Not proved (stated here once): that the untrusted Bareiss solve always *answers* for a non-singular
system (all executable theorems are conditional on `= some q`; the driver reports `X` otherwise and
the harness treats that as an infrastructure error, never as agreement); the antitone statement for
the *joint* executable posterior (proved for every positive-definite system in layer 2, and for the
per-objective executable posterior); the executable identity "joint = per objective" for the
independent model with scalar noise (layer 2: `modellist_block_diagonal`; the harness compares the
two Lean computations exactly on small cases).
-/
namespace VOPy.C15
open VOPy VOPy.GPWrap VOPy.GPWrap.Alg Matrix

variable {D B β σ : Type}

/-! ## 1. wrapper state machine -/

/-- `predict` is defined exactly when a gpytorch model exists and then is the posterior of
`conditioned` — the samples reported by `held` play no role. -/
theorem predict_reads_conditioned (post : D → β) (s : State D) :
    predict post s = if s.initialised then some (post s.conditioned) else none := rfl

/-- `update` conditions the model on what is held (and creates it if necessary); it is the only
op that changes `conditioned`. -/
theorem update_conditions_on_held (S : Store D B) (s : State D) :
    (step S s .update).conditioned = s.held ∧ (step S s .update).initialised = true ∧
    (step S s .update).held = s.held ∧
    ∀ o : Op B, o.isUpdate = false →
      (step S s o).conditioned = s.conditioned ∧ (step S s o).initialised = s.initialised := by
  refine ⟨rfl, rfl, rfl, ?_⟩
  intro o ho
  cases o with
  | add b => exact ⟨rfl, rfl⟩
  | clear => exact ⟨rfl, rfl⟩
  | update => simp [Op.isUpdate] at ho

/-- **Predictions are the posterior of the data held at the last update.**  For every history:
if it contains no `update` the prediction is that of the start state; otherwise, splitting it at its
last `update`, the prediction is `post` of what was held when that update ran — later `add`s and
`clear`s are invisible. -/
theorem predict_after_history (S : Store D B) (post : D → β) (s : State D) (ops : List (Op B)) :
    ((∀ o ∈ ops, o.isUpdate = false) ∧ predict post (run S s ops) = predict post s) ∨
    ∃ pre tail, ops = pre ++ .update :: tail ∧ (∀ o ∈ tail, o.isUpdate = false) ∧
      predict post (run S s ops) = some (post (run S s pre).held) := by
  rcases split_last_update ops with h | ⟨pre, tail, rfl, ht⟩
  · left
    refine ⟨h, ?_⟩
    have := run_noUpdate S ops s h
    simp [predict, this.1, this.2]
  · right
    refine ⟨pre, tail, rfl, ht, ?_⟩
    have := run_last_update S s pre tail ht
    simp [predict, this.1, this.2]

/-- **Order and batching independence (state-machine part).**  Two multi-output histories, each
split at its last update; if the samples held at those updates are permutations of one another
(e.g. the same rows added in another order or cut into other batches) and the posterior is a
function of the multiset, the predictions coincide. -/
theorem predictions_depend_only_on_multiset (post : List σ → β)
    (hpost : ∀ l l' : List σ, l.Perm l' → post l = post l')
    (s₁ s₂ : State (List σ)) (pre₁ tail₁ pre₂ tail₂ : List (Op (List σ)))
    (h₁ : ∀ o ∈ tail₁, o.isUpdate = false) (h₂ : ∀ o ∈ tail₂, o.isUpdate = false)
    (hperm : (run (moStore σ) s₁ pre₁).held.Perm (run (moStore σ) s₂ pre₂).held) :
    predict post (run (moStore σ) s₁ (pre₁ ++ .update :: tail₁)) =
      predict post (run (moStore σ) s₂ (pre₂ ++ .update :: tail₂)) := by
  have a := run_last_update (moStore σ) s₁ pre₁ tail₁ h₁
  have b := run_last_update (moStore σ) s₂ pre₂ tail₂ h₂
  simp [predict, a.1, a.2, b.1, b.2, hpost _ _ hperm]

/-- what a multi-output wrapper holds after `clear` and a run of `add_sample` calls: the rows of the
batches in arrival order, whatever the batching -/
theorem held_after_clear_adds (s : State (List σ)) (pre : List (Op (List σ)))
    (batches : List (List σ)) :
    (run (moStore σ) s (pre ++ .clear :: batches.map .add)).held = batches.flatten := by
  rw [run_append, run_cons]
  have := mo_run_adds (step (moStore σ) (run (moStore σ) s pre) .clear) (batches.map .add)
    (by intro o ho; simp only [List.mem_map] at ho; obtain ⟨b, -, rfl⟩ := ho; rfl)
  rw [this.1, addsOf_map_add]
  rfl

/-- **`clear; update` forgets.**  After `clear_data()` and `update()` (and any later ops other than
`update`) the prediction is the posterior of the empty store: the prior. -/
theorem clear_update_forgets (S : Store D B) (post : D → β) (s : State D)
    (pre tail : List (Op B)) (ht : ∀ o ∈ tail, o.isUpdate = false) :
    predict post (run S s (pre ++ .clear :: .update :: tail)) = some (post S.empty) := by
  have h : pre ++ .clear :: .update :: tail = (pre ++ [.clear]) ++ .update :: tail := by simp
  rw [h]
  have := run_last_update S s (pre ++ [.clear]) tail ht
  simp only [predict, this.1, this.2, ↓reduceIte]
  rw [run_append]
  rfl

/-- a history that ends with `update` leaves the wrapper up to date (conditioned = held) -/
theorem upToDate_of_ends_with_update [DecidableEq D] (S : Store D B) (s : State D)
    (ops : List (Op B)) : upToDate (run S s (ops ++ [.update])) = true :=
  upToDate_snoc_update S s ops

/-- **Train-and-freeze helpers.**  The op sequence the helpers perform — add the training set,
update, clear, add the initial samples if any, update — always returns an up-to-date model
(`conditioned = held`): the model predicts from exactly the initial samples it reports (its prior
when there are none). -/
theorem helperOps_upToDate [DecidableEq D] (S : Store D B) (train : List B)
    (initial : Option B) : upToDate (run S (init S) (helperOps train initial)) = true := by
  unfold helperOps
  exact upToDate_snoc_update S (init S) _

/-- **The regression the check `helper-stale-after-clear` guards (D3c).**  If the final `update()`
is performed only when `initial_sample_cnt > 0` (the helpers before the fix), the returned model
is up to date iff the sequence ends with an `update`, provided the training set is not empty: with
`initial_sample_cnt = 0` it reports no data but is conditioned on the whole training set. -/
theorem helperOpsConditional_upToDate_iff_ends_with_update [DecidableEq D] (S : Store D B)
    (train : List B) (initial : Option B) (hne : train.foldl S.add S.empty ≠ S.empty) :
    upToDate (run S (init S) (helperOpsConditional train initial)) = true ↔
      (helperOpsConditional train initial).getLast? = some .update := by
  cases initial with
  | none =>
    rw [run_helperOpsConditional_none]
    have hl : (helperOpsConditional train (none : Option B)).getLast? = some .clear := by
      simp [helperOpsConditional]
    rw [hl]
    simp [upToDate, hne]
  | some b =>
    have h : helperOpsConditional train (some b) =
        (train.map .add ++ [.update, .clear, .add b]) ++ [.update] := by
      simp [helperOpsConditional]
    constructor
    · intro _
      rw [h]; simp
    · intro _
      rw [h]; exact upToDate_snoc_update S (init S) _

/-- the state the pre-fix sequence returns for `initial_sample_cnt = 0`: nothing held, everything
the hyper-parameters were trained on still conditioned on -/
theorem helperOpsConditional_zero_initial_state (S : Store D B) (train : List B) :
    run S (init S) (helperOpsConditional train none) =
      ⟨S.empty, train.foldl S.add S.empty, true⟩ :=
  run_helperOpsConditional_none S train

/-- **Model list: an observation of objective `j` changes only objective `j`.**  Integer routing
touches list `j` only; list routing appends to every objective exactly the rows carrying its index,
in order — in particular nothing to an objective that does not occur in `dim_index`. -/
theorem mlist_add_locality (d : List (List σ)) (b : List σ) (i : Nat) :
    (∀ j, j ≠ i → (mlAdd d (.single j, b))[i]? = d[i]?) ∧
    (∀ idx : List Nat, idx.length = b.length →
      (mlAdd d (.each idx, b))[i]? = d[i]?.map (· ++ masked idx b i)) ∧
    (∀ idx : List Nat, idx.length = b.length → i ∉ idx → (mlAdd d (.each idx, b))[i]? = d[i]?) := by
  refine ⟨?_, ?_, ?_⟩
  · intro j hj
    rw [getElem?_mlAdd_single]; simp [hj]
  · intro idx hlen
    exact getElem?_mlAdd_each d idx b hlen i
  · intro idx hlen hi
    rw [getElem?_mlAdd_each d idx b hlen i, masked_of_not_mem idx b i hi]
    cases d[i]? <;> simp

/-! ## 2. algebra of the exact posterior (`quad A k r = kᵀ A⁻¹ r`) -/

section Algebra
variable {𝕜 : Type*} [Field 𝕜]
variable {n n' p : Type*} [Fintype n] [DecidableEq n] [Fintype n'] [DecidableEq n']
  [Fintype p] [DecidableEq p]

/-- **Order independence (algebra).**  Re-indexing the training rows by any bijection `e` — in
particular permuting them — simultaneously in the Gram-plus-noise matrix `A`, the cross-covariances
`k, k'` and the residual `y − m₀` leaves posterior mean and (co)variance unchanged:
`(k∘e)ᵀ (PAPᵀ)⁻¹ ((y−m₀)∘e) = kᵀ A⁻¹ (y−m₀)`. -/
theorem posterior_perm_invariant (e : n' ≃ n) (A : Matrix n n 𝕜) (k k' y m₀ : n → 𝕜) (c kss : 𝕜) :
    c + quad (A.submatrix e e) (k ∘ e) ((y - m₀) ∘ e) = c + quad A k (y - m₀) ∧
    kss - quad (A.submatrix e e) (k ∘ e) (k' ∘ e) = kss - quad A k k' := by
  rw [quad_reindex, quad_reindex]
  exact ⟨rfl, rfl⟩

/-- **Prior for empty data.**  With no training sample the posterior mean is the prior mean and the
posterior covariance the prior covariance. -/
theorem prior_for_empty_data [IsEmpty n] (A : Matrix n n 𝕜) (k k' r : n → 𝕜) (c kss : 𝕜) :
    c + quad A k r = c ∧ kss - quad A k k' = kss := by
  rw [quad_of_isEmpty, quad_of_isEmpty]
  simp

/-- **Block-diagonal structure of the model list.**  In the joint GP of independent objectives
(`A = blockDiagonal' (A_j)`, one block per objective on that objective's own inputs) the posterior
of objective `i` at any target — whose cross-covariance vanishes outside block `i` — is computed
from block `i` and objective `i`'s residuals alone; hence observations of another objective (which
change other blocks and other residual entries only) do not change it. -/
theorem modellist_block_diagonal {o : Type*} [Fintype o] [DecidableEq o] {m' : o → Type*}
    [∀ j, Fintype (m' j)] [∀ j, DecidableEq (m' j)]
    (A : ∀ j, Matrix (m' j) (m' j) 𝕜) (hA : ∀ j, IsUnit (A j).det)
    (i : o) (ki : m' i → 𝕜) (r : (Σ j, m' j) → 𝕜) :
    quad (blockDiagonal' A) (fun x => if h : x.1 = i then ki (h ▸ x.2) else 0) r =
      quad (A i) ki (fun b => r ⟨i, b⟩) :=
  quad_blockDiagonal' A hA i ki r

end Algebra

section Order
variable {R : Type*} [Field R] [PartialOrder R] [StarRing R] [StarOrderedRing R] [AddLeftMono R]
variable {n p t : Type*} [Fintype n] [DecidableEq n] [Fintype p] [DecidableEq p] [Fintype t]

/-- **Posterior variances are non-negative.**  If the joint prior Gram `[[K, B], [Bᴴ, D]]` over
training and test outputs is positive semidefinite and the noise `N` positive definite, the
posterior covariance `D − Bᴴ (K+N)⁻¹ B` is positive semidefinite; in particular every posterior
variance `D i i − kᵢᵀ (K+N)⁻¹ kᵢ` is `≥ 0`. -/
theorem posterior_variance_nonneg (Kt : Matrix n n R) (B : Matrix n t R) (Dm : Matrix t t R)
    (N : Matrix n n R) (hG : (fromBlocks Kt B Bᴴ Dm).PosSemidef) (hN : N.PosDef) :
    (Dm - Bᴴ * (Kt + N)⁻¹ * B).PosSemidef ∧ ∀ i, 0 ≤ (Dm - Bᴴ * (Kt + N)⁻¹ * B) i i := by
  have h := posterior_cov_posSemidef Kt B Dm N hG hN
  exact ⟨h, fun i => h.diag_nonneg⟩

/-- **Variances never grow with more data.**  Enlarging the training system `A` (positive
definite) by further points — `A' = [[A, b], [bᵀ, C]]` positive definite, cross-covariance
`(k, κ)` — lowers the posterior variance `k** − kᵀA⁻¹k` at any target by exactly
`wᵀ S⁻¹ w ≥ 0` (`S` the Schur complement, `w = κ − bᵀA⁻¹k`). -/
theorem posterior_variance_antitone [TrivialStar R] (A : Matrix n n R) (b : Matrix n p R)
    (C : Matrix p p R) (hA : A.PosDef) (hA' : (fromBlocks A b bᵀ C).PosDef) (k : n → R)
    (κ : p → R) (kss : R) :
    kss - quad (fromBlocks A b bᵀ C) (Sum.elim k κ) (Sum.elim k κ) ≤ kss - quad A k k ∧
    kss - quad (fromBlocks A b bᵀ C) (Sum.elim k κ) (Sum.elim k κ) =
      kss - quad A k k -
        quad (C - bᵀ * A⁻¹ * b) (κ - bᵀ *ᵥ (A⁻¹ *ᵥ k)) (κ - bᵀ *ᵥ (A⁻¹ *ᵥ k)) := by
  constructor
  · exact sub_le_sub_left (quad_le_quad_add_points A b C hA hA' k κ) kss
  · rw [quad_add_points A b C hA hA' k κ]; ring

end Order

/-! ## 3. the executable exact posterior refines the closed form -/

/-- **Refinement.**  Whenever the driver's `posterior K noise k*ᵀ k** y m₀ m₀*` answers `q` (its
untrusted Bareiss solve passed the `A·z = δ·b` re-check) and `K + noise` is non-singular, then
`q.mean i = m₀* i + k*ᵢᵀ (K+noise)⁻¹ (y − m₀)` and `q.cov i j = k** i j − k*ᵢᵀ (K+noise)⁻¹ k*ⱼ`,
with shapes `t` and `t × t`. -/
theorem posterior_refines_closed_form (K noise kT kss : Mat) (y m0 m0s : Vec) (q : Post)
    (h : posterior K noise kT kss y m0 m0s = some q)
    (hdet : IsUnit (toMatN y.length y.length (madd K noise)).det) :
    q.mean.length = m0s.length ∧ q.cov.length = m0s.length ∧
    (∀ i : Fin m0s.length, q.mean.getD i 0 = m0s.getD i 0 +
      quad (toMatN y.length y.length (madd K noise)) (toVecN y.length (kT.getD i []))
        (toVecN y.length (vsub y m0))) ∧
    (∀ i j : Fin m0s.length, (q.cov.getD i []).getD j 0 = (kss.getD i []).getD j 0 -
      quad (toMatN y.length y.length (madd K noise)) (toVecN y.length (kT.getD i []))
        (toVecN y.length (kT.getD j []))) :=
  posterior_spec K noise kT kss y m0 m0s q h hdet

/-- **Shapes.**  Every answer of `posterior` for `t` targets has a mean of length `t` and a
`t × t` covariance (the `(N, m)` / `(N, m, m)` shape of `predict`, per test point). -/
theorem posterior_answer_shapes (K noise kT kss : Mat) (y m0 m0s : Vec) (q : Post)
    (h : posterior K noise kT kss y m0 m0s = some q) :
    q.mean.length = m0s.length ∧ q.cov.length = m0s.length ∧
      ∀ row ∈ q.cov, row.length = m0s.length :=
  posterior_shapes K noise kT kss y m0 m0s q h

/-! ## 4. consequences for the executable model classes (what the driver answers `hist` with)

`Amat T s data = K(X,X) + s·I`, `kvec T p data = k(p, X)`, `rvec c data = y − c` are the Mathlib
views of one objective's data `(point id, value)` with kernel table `T` (`tval T a b` = entry
`(a, b)`); `jointGram T data p` is the prior Gram of the data points and the test point. -/

/-- **Closed form of the per-objective executable posterior** (model list; independent model with
scalar noise): `mean = c + k(p,X)ᵀ (K+sI)⁻¹ (y − c)`, `var = k(p,p) − k(p,X)ᵀ (K+sI)⁻¹ k(p,X)`,
shapes `1` and `1 × 1`. -/
theorem postScalar_closed_form (T : Mat) (s c : ℚ) (data : List (Nat × ℚ)) (p : Nat) (q : Post)
    (h : postScalar T s c data p = some q) (hdet : IsUnit (Amat T s data).det) :
    q.mean = [c + quad (Amat T s data) (kvec T p data) (rvec c data)] ∧
    q.cov = [[tval T p p - quad (Amat T s data) (kvec T p data) (kvec T p data)]] :=
  postScalar_spec T s c data p q h hdet

/-- **Order independence, executable.**  The per-objective exact posterior is the same for any
two orderings of the same multiset of samples (whenever both exact solves answer and the system is
non-singular). -/
theorem postScalar_multiset_invariant (T : Mat) (s c : ℚ) (data data' : List (Nat × ℚ)) (p : Nat)
    (q q' : Post) (hperm : data.Perm data') (h : postScalar T s c data p = some q)
    (h' : postScalar T s c data' p = some q') (hdet : IsUnit (Amat T s data').det) :
    q.mean = q'.mean ∧ q.cov = q'.cov :=
  postScalar_perm T s c data data' p q q' hperm h h' hdet

/-- **Model list, executable: predictions depend only on each objective's multiset of samples.** -/
theorem mlistPost_multiset_invariant (cfg : Cfg) (data data' : List (List (Nat × ℚ))) (p : Nat)
    (q q' : Post) (hperm : List.Forall₂ List.Perm data data')
    (h : mlistPost cfg data p = some q) (h' : mlistPost cfg data' p = some q')
    (hdet : ∀ s, cfg.scalarNoise = some s → ∀ j (hj : j < cfg.tables.length) (hj' : j < data'.length),
      IsUnit (Amat cfg.tables[j] s data'[j]).det) :
    q.mean = q'.mean ∧ q.cov = q'.cov :=
  mlistPost_perm cfg data data' p q q' hperm h h' hdet

/-- **Independent model with scalar noise, executable: predictions depend only on the multiset of
samples.** -/
theorem indepPost_multiset_invariant (cfg : Cfg) (s : ℚ) (hs : cfg.scalarNoise = some s)
    (data data' : List (Nat × Vec)) (p : Nat) (q q' : Post) (hperm : data.Perm data')
    (h : indepPost cfg data p = some q) (h' : indepPost cfg data' p = some q')
    (hdet : ∀ j (hj : j < cfg.tables.length),
      IsUnit (Amat cfg.tables[j] s (data'.map (fun d => (d.1, d.2[j]?.getD 0)))).det) :
    q.mean = q'.mean ∧ q.cov = q'.cov :=
  indepPost_perm cfg s hs data data' p q q' hperm h h' hdet

/-- **End to end, model list.**  Two histories of the model-list wrapper, each split at its last
update: if every objective held the same multiset of samples at those updates, the executable
predictions (mean and covariance) coincide — whatever the order, the batching and the `dim_index`
style of the `add_sample` calls, and whatever was added or cleared afterwards without `update`. -/
theorem mlist_wrapper_predictions_depend_only_on_multisets (cfg : Cfg) (m p : Nat)
    (s₁ s₂ : State (List (List (Nat × ℚ))))
    (pre₁ tail₁ pre₂ tail₂ : List (Op (Route × List (Nat × ℚ))))
    (h₁ : ∀ o ∈ tail₁, o.isUpdate = false) (h₂ : ∀ o ∈ tail₂, o.isUpdate = false)
    (hperm : List.Forall₂ List.Perm (run (mlStore _ m) s₁ pre₁).held (run (mlStore _ m) s₂ pre₂).held)
    (q q' : Post)
    (hq : predict (fun d => mlistPost cfg d p) (run (mlStore _ m) s₁ (pre₁ ++ .update :: tail₁)) =
      some (some q))
    (hq' : predict (fun d => mlistPost cfg d p) (run (mlStore _ m) s₂ (pre₂ ++ .update :: tail₂)) =
      some (some q'))
    (hdet : ∀ s, cfg.scalarNoise = some s → ∀ j (hj : j < cfg.tables.length)
      (hj' : j < (run (mlStore _ m) s₂ pre₂).held.length),
      IsUnit (Amat cfg.tables[j] s (run (mlStore _ m) s₂ pre₂).held[j]).det) :
    q.mean = q'.mean ∧ q.cov = q'.cov := by
  have a := run_last_update (mlStore _ m) s₁ pre₁ tail₁ h₁
  have b := run_last_update (mlStore _ m) s₂ pre₂ tail₂ h₂
  simp only [predict, a.1, a.2, b.1, b.2, ↓reduceIte, Option.some.injEq] at hq hq'
  exact mlistPost_perm cfg _ _ p q q' hperm hq hq' hdet

/-- **Locality, executable.**  In the model list, objective `i`'s predicted mean and variance are
determined by objective `i`'s own samples: changing the data of other objectives (e.g. an
observation routed to objective `j ≠ i`, see `mlist_add_locality`) leaves them unchanged. -/
theorem mlistPost_objective_locality (cfg : Cfg) (data data' : List (List (Nat × ℚ))) (p i : Nat)
    (q q' : Post) (hi : data[i]? = data'[i]?)
    (h : mlistPost cfg data p = some q) (h' : mlistPost cfg data' p = some q') :
    q.mean[i]? = q'.mean[i]? ∧ (q.cov[i]?.bind (·[i]?)) = (q'.cov[i]?.bind (·[i]?)) :=
  mlistPost_local cfg data data' p i q q' hi h h'

/-- **End to end, independent model (scalar noise).**  Two histories of the multi-output wrapper,
each split at its last update: if the rows held at those updates are permutations of one another,
the executable predictions coincide. -/
theorem indep_wrapper_predictions_depend_only_on_multiset (cfg : Cfg) (s : ℚ)
    (hs : cfg.scalarNoise = some s) (p : Nat) (s₁ s₂ : State (List (Nat × Vec)))
    (pre₁ tail₁ pre₂ tail₂ : List (Op (List (Nat × Vec))))
    (h₁ : ∀ o ∈ tail₁, o.isUpdate = false) (h₂ : ∀ o ∈ tail₂, o.isUpdate = false)
    (hperm : (run (moStore _) s₁ pre₁).held.Perm (run (moStore _) s₂ pre₂).held)
    (q q' : Post)
    (hq : predict (fun d => indepPost cfg d p) (run (moStore _) s₁ (pre₁ ++ .update :: tail₁)) =
      some (some q))
    (hq' : predict (fun d => indepPost cfg d p) (run (moStore _) s₂ (pre₂ ++ .update :: tail₂)) =
      some (some q'))
    (hdet : ∀ j (hj : j < cfg.tables.length), IsUnit (Amat cfg.tables[j] s
      ((run (moStore _) s₂ pre₂).held.map (fun d => (d.1, d.2[j]?.getD 0)))).det) :
    q.mean = q'.mean ∧ q.cov = q'.cov := by
  have a := run_last_update (moStore _) s₁ pre₁ tail₁ h₁
  have b := run_last_update (moStore _) s₂ pre₂ tail₂ h₂
  simp only [predict, a.1, a.2, b.1, b.2, ↓reduceIte, Option.some.injEq] at hq hq'
  exact indepPost_perm cfg s hs _ _ p q q' hperm hq hq' hdet

/-- **Closed form of the joint executable posterior** (correlated model; independent model with a
noise matrix), over the index type (sample position × task): system matrix
`AJ = K_joint + I_N ⊗ Σ`, `mean_j = k_jᵀ AJ⁻¹ y`, `cov_ij = k(p,i;p,j) − k_iᵀ AJ⁻¹ k_j`. -/
theorem jointPost_closed_form (m : Nat) (kfun : Nat → Nat → Nat → Nat → Option ℚ) (Sg : Mat)
    (data : List (Nat × Vec)) (p : Nat) (q : Post)
    (h : jointPost m kfun Sg data p = some q) (hdet : IsUnit (AJ m kfun Sg data).det) :
    (∀ j : Fin m, q.mean.getD j 0 = quad (AJ m kfun Sg data) (kJ m kfun data p j) (yJ m data)) ∧
    (∀ i j : Fin m, (q.cov.getD i []).getD j 0 = (kfun p i p j).getD 0 -
      quad (AJ m kfun Sg data) (kJ m kfun data p i) (kJ m kfun data p j)) :=
  jointPost_spec m kfun Sg data p q h hdet

/-- **Correlated model, executable: predictions depend only on the multiset of samples** (mean and
the full `m × m` covariance at every test point). -/
theorem corrPost_multiset_invariant (cfg : Cfg) (Sg : Mat) (hSg : cfg.taskNoise = some Sg)
    (data data' : List (Nat × Vec)) (p : Nat) (q q' : Post) (hperm : data.Perm data')
    (h : corrPost cfg data p = some q) (h' : corrPost cfg data' p = some q')
    (hdet : IsUnit (AJ cfg.m (corrK cfg) Sg data').det) : q.mean = q'.mean ∧ q.cov = q'.cov :=
  corrPost_perm cfg Sg hSg data data' p q q' hperm h h' hdet

/-- **Independent model with a full noise matrix, executable** (gpytorch conditions jointly):
predictions depend only on the multiset of samples. -/
theorem indepPost_matrix_noise_multiset_invariant (cfg : Cfg) (Sg : Mat)
    (hs : cfg.scalarNoise = none) (hSg : cfg.taskNoise = some Sg)
    (data data' : List (Nat × Vec)) (p : Nat) (q q' : Post) (hperm : data.Perm data')
    (h : indepPost cfg data p = some q) (h' : indepPost cfg data' p = some q')
    (hdet : IsUnit (AJ cfg.m (indepK cfg) Sg data').det) : q.mean = q'.mean ∧ q.cov = q'.cov := by
  unfold indepPost at h h'
  simp only [hs] at h h'
  exact indepJoint_perm cfg Sg hSg data data' p q q' hperm h h' hdet

/-- **End to end, correlated model.**  Two histories of the multi-output wrapper, each split at
its last update: if the rows held at those updates are permutations of one another, the executable
predictions of the correlated model coincide. -/
theorem corr_wrapper_predictions_depend_only_on_multiset (cfg : Cfg) (Sg : Mat)
    (hSg : cfg.taskNoise = some Sg) (p : Nat) (s₁ s₂ : State (List (Nat × Vec)))
    (pre₁ tail₁ pre₂ tail₂ : List (Op (List (Nat × Vec))))
    (h₁ : ∀ o ∈ tail₁, o.isUpdate = false) (h₂ : ∀ o ∈ tail₂, o.isUpdate = false)
    (hperm : (run (moStore _) s₁ pre₁).held.Perm (run (moStore _) s₂ pre₂).held)
    (q q' : Post)
    (hq : predict (fun d => corrPost cfg d p) (run (moStore _) s₁ (pre₁ ++ .update :: tail₁)) =
      some (some q))
    (hq' : predict (fun d => corrPost cfg d p) (run (moStore _) s₂ (pre₂ ++ .update :: tail₂)) =
      some (some q'))
    (hdet : IsUnit (AJ cfg.m (corrK cfg) Sg (run (moStore _) s₂ pre₂).held).det) :
    q.mean = q'.mean ∧ q.cov = q'.cov := by
  have a := run_last_update (moStore _) s₁ pre₁ tail₁ h₁
  have b := run_last_update (moStore _) s₂ pre₂ tail₂ h₂
  simp only [predict, a.1, a.2, b.1, b.2, ↓reduceIte, Option.some.injEq] at hq hq'
  exact corrPost_perm cfg Sg hSg _ _ p q q' hperm hq hq' hdet

/-- **Variance ≥ 0, joint executable posterior.**  If the prior Gram is positive semidefinite on
the training and test outputs involved and the noise part `I_N ⊗ Σ` is positive definite, every
predicted variance of the correlated model (independent model with a noise matrix) is `≥ 0`. -/
theorem jointPost_variance_nonneg (m : Nat) (kfun : Nat → Nat → Nat → Nat → Option ℚ) (Sg : Mat)
    (data : List (Nat × Vec)) (p : Nat) (q : Post)
    (h : jointPost m kfun Sg data p = some q) (hG : (jointGramJ m kfun data p).PosSemidef)
    (hN : (NJ m Sg data).PosDef) : ∀ i : Fin m, 0 ≤ (q.cov.getD i []).getD i 0 :=
  jointPost_var_nonneg m kfun Sg data p q h hG hN

/-- **Shapes of `predict`.**  For each of the three model classes every executable prediction at a
test point has a mean of length `m` and an `m × m` covariance; predicting at `N` test points gives
`N` of them — the `(N, m)` and `(N, m, m)` arrays, for every `N` including `N = 1`. -/
theorem predict_shapes (cfg : Cfg) (p : Nat) (q : Post) :
    (∀ data, indepPost cfg data p = some q →
      q.mean.length = cfg.m ∧ q.cov.length = cfg.m ∧ ∀ row ∈ q.cov, row.length = cfg.m) ∧
    (∀ data, corrPost cfg data p = some q →
      q.mean.length = cfg.m ∧ q.cov.length = cfg.m ∧ ∀ row ∈ q.cov, row.length = cfg.m) ∧
    (∀ data, mlistPost cfg data p = some q →
      q.mean.length = cfg.m ∧ q.cov.length = cfg.m ∧ ∀ row ∈ q.cov, row.length = cfg.m) :=
  ⟨fun data h => indepPost_shapes cfg data p q h, fun data h => corrPost_shapes cfg data p q h,
    fun data h => mlistPost_shapes cfg data p q h⟩

/-- one answer per test point, each the class's posterior at that point -/
theorem predictAt_shapes {Dt : Type} (post : Dt → Nat → Option Post) (data : Dt) (ps : List Nat)
    (qs : List Post) (h : predictAt post data ps = some qs) :
    qs.length = ps.length ∧ ∀ q ∈ qs, ∃ p ∈ ps, post data p = some q :=
  predictAt_length post data ps qs h

/-- **Prior for empty data, executable.**  With no sample the per-objective posterior exists (the
exact solve of the empty system passes its check) and is the prior: mean constant `c`, variance
`k(p,p)`. -/
theorem postScalar_prior_for_empty_data (T : Mat) (s c v : ℚ) (p : Nat)
    (hv : lookup T p p = some v) : postScalar T s c [] p = some ⟨[c], [[v]], none⟩ :=
  postScalar_nil_eq T s c v p hv

/-- **Variance ≥ 0, executable.**  If the kernel table is positive semidefinite on the data points
and the test point, and the noise variance is positive, the executable posterior variance is
non-negative. -/
theorem postScalar_variance_nonneg (T : Mat) (s c : ℚ) (data : List (Nat × ℚ)) (p : Nat) (q : Post)
    (h : postScalar T s c data p = some q) (hs : 0 < s) (hG : (jointGram T data p).PosSemidef) :
    ∃ v, q.cov = [[v]] ∧ 0 ≤ v :=
  postScalar_var_nonneg T s c data p q h hs hG

/-- **Variance never grows with more data, executable.**  `add_sample(extra); update()` turns the
conditioned list `data` into `data ++ extra`; the executable posterior variance at any test point
does not increase. -/
theorem postScalar_variance_antitone (T : Mat) (s c : ℚ) (data extra : List (Nat × ℚ)) (p : Nat)
    (q q' : Post) (h : postScalar T s c data p = some q)
    (h' : postScalar T s c (data ++ extra) p = some q') (hs : 0 < s)
    (hG : (jointGram T (data ++ extra) p).PosSemidef) :
    ∃ v v', q.cov = [[v]] ∧ q'.cov = [[v']] ∧ v' ≤ v :=
  postScalar_var_antitone T s c data extra p q q' h h' hs hG

/-! ## non-vacuity -/

/-- the correlated model on a 2-task, 2-point joint table (index `pid·2 + task`), two samples in
either order, test point 2: both orders answer, with the same mean and 2×2 covariance -/
example :
    let G : Mat := [[2, 1, 1, 1/2, 1/2, 1/4], [1, 2, 1/2, 1, 1/4, 1/2], [1, 1/2, 2, 1, 1, 1/2],
      [1/2, 1, 1, 2, 1/2, 1], [1/2, 1/4, 1, 1/2, 2, 1], [1/4, 1/2, 1/2, 1, 1, 2]]
    let cfg : Cfg := { m := 2, noise := [[1/4, 1/8], [1/8, 1/2]], consts := [0, 0], tables := [G] }
    (corrPost cfg [(0, [1, 2]), (1, [0, -1])] 2).map (fun q => (q.mean, q.cov)) =
      (corrPost cfg [(1, [0, -1]), (0, [1, 2])] 2).map (fun q => (q.mean, q.cov)) ∧
    (corrPost cfg [(0, [1, 2]), (1, [0, -1])] 2).isSome = true := by
  decide +kernel

/-- a 2×2 kernel table, two samples at points 0 and 1 in either order, test point 2: both orders
answer, with the same numbers -/
example :
    let T : Mat := [[1, 1/2, 1/4], [1/2, 1, 1/2], [1/4, 1/2, 1]]
    (postScalar T (1/4) (1/2) [(0, 1), (1, 2)] 2).map (fun q => (q.mean, q.cov)) =
      (postScalar T (1/4) (1/2) [(1, 2), (0, 1)] 2).map (fun q => (q.mean, q.cov)) ∧
    (postScalar T (1/4) (1/2) [(0, 1), (1, 2)] 2).isSome = true := by
  decide +kernel


/-- the pre-fix sequence on concrete data: stale with 0 initial samples, fine with ≥ 1; the
helpers' sequence fine in both cases -/
example :
    upToDate (run (moStore Nat) (init (moStore Nat)) (helperOpsConditional [[1, 2, 3]] none)) = false ∧
    upToDate (run (moStore Nat) (init (moStore Nat)) (helperOpsConditional [[1, 2, 3]] (some [2]))) = true ∧
    upToDate (run (moStore Nat) (init (moStore Nat)) (helperOps [[1, 2, 3]] none)) = true ∧
    (run (moStore Nat) (init (moStore Nat)) (helperOps [[1, 2, 3]] none)).conditioned = [] ∧
    (run (moStore Nat) (init (moStore Nat)) (helperOpsConditional [[1, 2, 3]] none)).conditioned =
      [1, 2, 3] := by
  decide

/-- list routing of the model list: rows go to the objective they name, order kept -/
example : mlAdd [[], [7], []] (.each [2, 0, 2], [10, 11, 12]) = [[11], [7], [10, 12]] := by decide

/-- the exact solver on a 2-sample, one-target problem: `K = [[1, 1/2], [1/2, 1]]`, noise `1/4 I`,
`k* = (1/2, 1/4)`, `k** = 1`, `y = (1, 2)`, constant mean `1/2`. -/
example : (posterior [[1, 1/2], [1/2, 1]] (scalarMat 2 (1/4)) [[1/2, 1/4]] [[1]] [1, 2]
    [1/2, 1/2] [1/2]).map (fun q => (q.mean, q.cov)) = some ([16/21], [[67/84]]) := by
  decide +kernel

/-- no data: the prior -/
example : (posterior [] [] [[]] [[3]] [] [] [1/2]).map (fun q => (q.mean, q.cov)) =
    some ([1/2], [[3]]) := by decide +kernel

/-- hypotheses of the two order theorems are satisfiable over `ℚ` with genuinely correlated
points: `A = [2]`, one added point with `b = [1]`, `C = [2]`; `[[2,1],[1,2]] = I + 𝟙𝟙ᵀ` is positive
definite. -/
example : ∃ (A b C : Matrix (Fin 1) (Fin 1) ℚ),
    A.PosDef ∧ (fromBlocks A b bᵀ C).PosDef ∧ b ≠ 0 := by
  refine ⟨2, 1, 2, Matrix.PosDef.ofNat 2, ?_, one_ne_zero⟩
  have h : fromBlocks (2 : Matrix (Fin 1) (Fin 1) ℚ) (1 : Matrix (Fin 1) (Fin 1) ℚ)
      (1 : Matrix (Fin 1) (Fin 1) ℚ)ᵀ (2 : Matrix (Fin 1) (Fin 1) ℚ) =
      1 + vecMulVec (fun _ => (1 : ℚ)) (star fun _ => (1 : ℚ)) := by
    ext i j
    rcases i with i | i <;> rcases j with j | j <;>
      simp [vecMulVec, Matrix.ofNat_apply, Subsingleton.elim i j] <;> norm_num
  rw [h]
  exact Matrix.PosDef.one.add_posSemidef (posSemidef_vecMulVec_self_star _)

end VOPy.C15
