import VOPyVerif.Props.C05
import VOPyVerif.Proofs.GenAgreePhases
/-!
# C05 — SOURCE AGREEMENT obligations (second tie between model and code, DESIGN §2.10)

Property theorems only, same namespace `VOPy.C05` as `Props/C05.lean` (whose theorems are about the
hand-written model and do not depend on anything generated).  The theorems here say that the model's
definitions are the ones regenerated from the current Python source text (`Gen/Phases.lean`, written by
`harness/translate*.py` on every `./check C05`; agreement lemmas in `Proofs/GenAgreePhases.lean`).  They live in
their own module so that a source edit the translator reads differently (or cannot read) makes exactly the
affected obligations fail — `harness/leanbuild.py` builds this module separately and, if it does not build,
attributes the failure per theorem — while the model theorems of `Props/C05.lean` stay discharged.
-/
namespace VOPy.C05
open VOPy VOPy.Steps VOPy.Accuracy

/-! ## SOURCE AGREEMENT — the VOGP / ε-PAL round is the composition read off the Python source

Second tie between model and code (DESIGN §2.10.2), beside the behavioural comparison of the
harness: `harness/translate_phases.py` regenerates `Gen/Phases.lean` from the *source text* of the
phase methods on every `./check` (Python `ast`; nothing executed; each algorithm file separately):
the loops `for pt in X: … for pt_prime in A: [if pt_prime == pt: continue] … if ORACLE(order, R_a, R_b,
slack): … break [else: …]`, the accumulators, `S.remove` / `P.add`, set unions / differences are read
into list combinators, tracking which design each `*_conf` local denotes, which sets are scanned and
changed, the polarity (`break` vs `for … else`) and the slack expression (a symbolic `Slack` tag
indexing the oracle family).  Every generated definition takes all oracles and all state sets and
returns the whole new state.  The theorems below (proved in `Proofs/GenAgreePhases.lean`, re-checked
against the regenerated file on every run) hold **for all oracles and all lists**.
(The per-phase agreements are audited obligations of C02 and C03.) -/

/-- One round of VOGP and of ε-PAL as `run_one_step` of `vogp.py` / `epal.py` composes the source's
`discarding` and `epsiloncovering` = `vogpRound` at the slack the source passes (`u_star * epsilon`,
resp. the scalar `epsilon`), for all oracles and all `S`, `P`. -/
theorem source_vogp_epal_round (isDom isCov : Gen.Phases.Slack → Rel) (pessDom : Rel) (S P : List Nat) :
    Gen.Phases.gen_vogp_round isDom isCov pessDom S P
      = vogpRound (isDom GenAgree.Phases.uStarEps) (isCov GenAgree.Phases.uStarEps) pessDom S P ∧
    Gen.Phases.gen_epal_round isDom isCov pessDom S P
      = vogpRound (isDom Gen.Phases.Slack.eps) (isCov Gen.Phases.Slack.eps) pessDom S P :=
  ⟨GenAgree.Phases.gen_vogp_round_eq .., GenAgree.Phases.gen_epal_round_eq ..⟩

end VOPy.C05
