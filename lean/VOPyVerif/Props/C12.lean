import VOPyVerif.Proofs.ConePointed
/-!
# C12 — cone orders are their cones' preorders; bundled cones have the stated geometry

Property theorems only (helper lemmas: `Proofs/ConeOrder.lean`, `ConeTheta.lean`, `ConeIce.lean`,
`ConeVec.lean`, `ConePointed.lean`).

* Part A is about the executable relation of `Model/Basic.lean` that the driver runs against
  `PolyhedralConeOrder.dominates` / `OrderingCone.is_inside`: `VOPy.dominates`, `VOPy.inCone` over `Rat`
  (vectors are lists; the length hypotheses are the ones the list model needs because `zipWith`
  truncates).  `Dom`/`MemCone` are the same relation over an arbitrary linearly ordered field.
* Parts B–D are about the `RealLike` constructor terms of `Model/ConeFormulas.lean` (`get2dW`, `cone3D`,
  `iceCreamW`) — the very terms the driver evaluates at `Float` — instantiated at `ℝ`.
  `rdot` is the terms' own dot product; at `ℝ` it is `gdot` (`rdot_is_gdot`), so `MemCone W x` below is
  `∀ w ∈ W, 0 ≤ w · x`.
-/
namespace VOPy.C12
open VOPy VOPy.ConeOrd VOPy.ConeFormulas Real

/-! ## A. The relation -/

/-- `is_inside`: membership in the cone is exactly "every facet inequality `w · x ≥ 0` holds". -/
theorem inCone_iff_facets (W : Mat) (x : Vec) :
    inCone W x = true ↔ ∀ w ∈ W, 0 ≤ dot w x := by
  rw [inCone_iff]; simp only [MemCone, dot_eq_gdot]

/-- `dominates(a, b)` is membership of the difference `a − b` in the cone (by definition of the model,
mirroring `is_inside(a - b)`), i.e. every facet inequality holds for the difference. -/
theorem dominates_iff_inCone_diff (W : Mat) (a b : Vec) :
    dominates W a b = inCone W (vsub a b) ∧
    (dominates W a b = true ↔ ∀ w ∈ W, 0 ≤ dot w (vsub a b)) :=
  ⟨rfl, by rw [dominates, inCone_iff_facets]⟩

/-- For vectors of equal length: `a` dominates `b` iff `w · b ≤ w · a` for every facet normal `w`. -/
theorem dominates_iff_facets (W : Mat) (a b : Vec) (h : a.length = b.length) :
    dominates W a b = true ↔ ∀ w ∈ W, dot w b ≤ dot w a := by
  rw [dominates_iff, Dom.iff_facets h]; simp only [dot_eq_gdot]

/-- Reflexive (no hypothesis on lengths or on `W`). -/
theorem dominates_refl (W : Mat) (a : Vec) : dominates W a a = true :=
  (dominates_iff W a a).mpr (Dom.refl W a)

/-- Transitive on vectors of a common length. -/
theorem dominates_trans (W : Mat) (a b c : Vec) (hab : a.length = b.length) (hbc : b.length = c.length)
    (h1 : dominates W a b = true) (h2 : dominates W b c = true) : dominates W a c = true :=
  (dominates_iff W a c).mpr
    (Dom.trans hab hbc ((dominates_iff W a b).mp h1) ((dominates_iff W b c).mp h2))

/-- Invariant under a common translation `t` (all three vectors of the same length). -/
theorem dominates_translate (W : Mat) (a b t : Vec) (ha : a.length = t.length) (hb : b.length = t.length) :
    dominates W (vadd a t) (vadd b t) = dominates W a b := by
  rw [Bool.eq_iff_iff, dominates_iff, dominates_iff]
  exact Dom.translate W a b t ha hb

/-- Invariant under scaling by a positive constant. -/
theorem dominates_scale (W : Mat) (c : Rat) (hc : 0 < c) (a b : Vec) :
    dominates W (smul c a) (smul c b) = dominates W a b := by
  rw [Bool.eq_iff_iff, dominates_iff, dominates_iff]
  exact Dom.scale W c hc a b

/-- **Antisymmetric iff pointed.**  On vectors of length `m` the order of `W` is antisymmetric exactly when
`ker W = 0` (the cone `{x | W x ≥ 0}` contains no line). -/
theorem dominates_antisymm_iff_pointed (W : Mat) (m : Nat) :
    (∀ a b : Vec, a.length = m → b.length = m →
        dominates W a b = true → dominates W b a = true → a = b) ↔
    (∀ x : Vec, x.length = m → (∀ w ∈ W, dot w x = 0) → x = List.replicate m 0) := by
  have h := Dom.antisymm_iff_pointed (K := ℚ) W m
  simp only [← dominates_iff, ← dot_eq_gdot] at h
  exact h

/-- The componentwise order is the non-negative orthant: `I x = x`, so membership is `x ≥ 0` entrywise and
`a` dominates `b` iff `b ≤ a` componentwise (`vle`). -/
theorem componentwise_is_orthant (m : Nat) :
    (∀ x : Vec, x.length = m → (inCone (identMat m) x = true ↔ ∀ v ∈ x, 0 ≤ v)) ∧
    (∀ a b : Vec, a.length = m → b.length = m → dominates (identMat m) a b = vle b a) := by
  have hin : ∀ x : Vec, x.length = m → inCone (identMat m) x = allNonneg x := by
    intro x hx; rw [inCone, matVec_identMat m x hx]
  constructor
  · intro x hx
    rw [hin x hx]
    simp [allNonneg]
  · intro a b ha hb
    rw [dominates, hin _ (by simp [vsub, ha, hb])]
    clear hin
    induction a generalizing b m with
    | nil => simp [vsub, vle, allNonneg]
    | cons x a ih =>
      cases b with
      | nil => simp [vsub, vle, allNonneg]
      | cons y b =>
        have := ih (m - 1) b (by simp at ha; omega) (by simp at hb; omega)
        simp only [vsub, vle, allNonneg, List.zipWith_cons_cons, List.all_cons] at this ⊢
        rw [this]
        congr 1
        simp

/-- The same laws over **any linearly ordered field** (`Dom W a b := ∀ w ∈ W, 0 ≤ w · (a − b)`), and the
`Rat` model is that relation at `ℚ` and is preserved by the cast into any ordered field (e.g. `ℝ`). -/
theorem order_laws_ordered_field {K : Type} [Field K] [LinearOrder K] [IsStrictOrderedRing K]
    (W : List (List K)) :
    (∀ a, Dom W a a) ∧
    (∀ a b c, a.length = b.length → b.length = c.length → Dom W a b → Dom W b c → Dom W a c) ∧
    (∀ a b t, a.length = t.length → b.length = t.length →
        (Dom W (List.zipWith (· + ·) a t) (List.zipWith (· + ·) b t) ↔ Dom W a b)) ∧
    (∀ (c : K) a b, 0 < c → (Dom W (a.map (c * ·)) (b.map (c * ·)) ↔ Dom W a b)) ∧
    (∀ m, (∀ a b : List K, a.length = m → b.length = m → Dom W a b → Dom W b a → a = b) ↔
        (∀ x : List K, x.length = m → (∀ w ∈ W, gdot w x = 0) → x = List.replicate m 0)) :=
  ⟨Dom.refl W, fun _ _ _ h1 h2 => Dom.trans h1 h2, Dom.translate W,
    fun c a b hc => Dom.scale W c hc a b, Dom.antisymm_iff_pointed W⟩

/-- The `Rat` relation the driver runs is the real-number relation on the casted data. -/
theorem dominates_iff_real (W : Mat) (a b : Vec) :
    (dominates W a b = true ↔
      Dom (W.map (·.map (Rat.cast : ℚ → ℝ))) (a.map (Rat.cast : ℚ → ℝ)) (b.map (Rat.cast : ℚ → ℝ))) ∧
    (inCone W a = true ↔ MemCone (W.map (·.map (Rat.cast : ℚ → ℝ))) (a.map (Rat.cast : ℚ → ℝ))) :=
  ⟨by rw [dom_cast, dominates_iff], by rw [memCone_cast, inCone_iff]⟩

/-- non-vacuity: a 3-facet cone in the plane, a tie on a facet, a strict failure, and a non-pointed cone -/
example : dominates [[2, -1], [-1, 2], [1, 0]] [2, 1] [1, -1] = true ∧
    dominates [[2, -1], [-1, 2], [1, 0]] [1, -1] [2, 1] = false ∧
    dominates [[1, 1]] [1, -1] [0, 0] = true ∧ dominates [[1, 1]] [0, 0] [1, -1] = true := by
  decide +kernel

/-- **The cone is a convex cone** (what makes the induced relation an order compatible with the vector
structure): it contains the origin, is closed under addition of vectors of one length and under
multiplication by non-negative numbers. -/
theorem inCone_convex_cone (W : Mat) :
    (∀ n, inCone W (List.replicate n 0) = true) ∧
    (∀ x y : Vec, x.length = y.length → inCone W x = true → inCone W y = true →
        inCone W (vadd x y) = true) ∧
    (∀ (c : Rat) (x : Vec), 0 ≤ c → inCone W x = true → inCone W (smul c x) = true) := by
  refine ⟨?_, ?_, ?_⟩
  · intro n
    rw [inCone_iff]
    intro w _
    rw [gdot_replicate_zero]
  · intro x y hlen hx hy
    rw [inCone_iff] at hx hy ⊢
    intro w hw
    show 0 ≤ gdot w (List.zipWith (· + ·) x y)
    rw [gdot_add w x y hlen]
    exact add_nonneg (hx w hw) (hy w hw)
  · intro c x hc hx
    rw [inCone_iff] at hx ⊢
    intro w hw
    show 0 ≤ gdot w (x.map (c * ·))
    rw [gdot_smul]
    exact mul_nonneg hc (hx w hw)

/-- **Dominations add up**: if `a` dominates `b` and `c` dominates `d` (all of one length) then `a + c`
dominates `b + d` — the order is compatible with addition on both sides at once, not only with
translating both arguments by the same vector. -/
theorem dominates_add (W : Mat) (a b c d : Vec) (hab : a.length = b.length) (hcd : c.length = d.length)
    (hac : a.length = c.length) (h₁ : dominates W a b = true) (h₂ : dominates W c d = true) :
    dominates W (vadd a c) (vadd b d) = true := by
  rw [dominates_iff] at h₁ h₂ ⊢
  intro w hw
  have e : List.zipWith (· - ·) (vadd a c) (vadd b d) =
      List.zipWith (· + ·) (List.zipWith (· - ·) a b) (List.zipWith (· - ·) c d) := by
    clear h₁ h₂ hw
    induction a generalizing b c d with
    | nil => simp [vadd]
    | cons x a ih =>
      cases b with
      | nil => simp at hab
      | cons y b =>
        cases c with
        | nil => simp at hac
        | cons z c =>
          cases d with
          | nil => simp at hcd
          | cons u d =>
            simp only [List.length_cons, Nat.add_right_cancel_iff] at hab hcd hac
            have := ih b c d hab hcd hac
            simp only [vadd, List.zipWith_cons_cons, List.cons.injEq] at this ⊢
            exact ⟨by ring, this⟩
  rw [e, gdot_add _ _ _ (by simp only [List.length_zipWith]; omega)]
  exact add_nonneg (h₁ w hw) (h₂ w hw)

/-- non-vacuity for the two laws above on a 3-facet cone -/
example : inCone [[2, -1], [-1, 2], [1, 0]] [1, 1] = true ∧ inCone [[2, -1], [-1, 2], [1, 0]] [2, 3] = true ∧
    inCone [[2, -1], [-1, 2], [1, 0]] (vadd [1, 1] [2, 3]) = true ∧
    dominates [[2, -1], [-1, 2], [1, 0]] (vadd [2, 1] [1, 1]) (vadd [1, 0] [0, 0]) = true := by
  decide +kernel

/-! ## B. The 2-D θ-cone (`get_2d_w`) -/

/-- the terms' dot product at `ℝ` is the generic one used by `MemCone` -/
theorem rdot_is_gdot (a b : List ℝ) : rdot a b = gdot a b := rdot_eq_gdot a b

/-- **The closed form has the angle semantics — for EVERY `θ ∈ (0°, 180°)`, 90° included.**
`get2dWClosed θ` has rows `(-sin(π/4 − h), cos(π/4 − h))`, `(sin(π/4 + h), -cos(π/4 + h))`, `h = θ/2` in radians:
the inward unit normals of the rays at angles `π/4 ∓ h`.  (1) both rows are unit vectors; (2) polar form: a vector
`r·(cos φ, sin φ)` (`r > 0`, polar angle chosen with `|φ − π/4| ≤ π`) lies in the cone iff `|φ − π/4| ≤ θ/2`
— exactly the directions within `θ/2` of the diagonal, boundary included; (3) vector form, no polar angle:
EVERY `x = (x₁, x₂)` lies in the cone iff the angle between `x` and the diagonal is at most `θ/2`, i.e.
`cos(θ/2)·‖x‖ ≤ x·(1,1)/√2`. -/
theorem theta2D_closed_semantics (θdeg : ℝ) (h0 : 0 < θdeg) (h180 : θdeg < 180) :
    (∀ w ∈ get2dWClosed θdeg, w.length = 2 ∧ rdot w w = 1) ∧
    (∀ r φ : ℝ, 0 < r → |φ - π / 4| ≤ π →
      (MemCone (get2dWClosed θdeg) [r * cos φ, r * sin φ] ↔ |φ - π / 4| ≤ (θdeg / 180 * π) / 2)) ∧
    (∀ x1 x2 : ℝ, MemCone (get2dWClosed θdeg) [x1, x2] ↔
      cos ((θdeg / 180 * π) / 2) * √(x1 * x1 + x2 * x2) ≤ (x1 + x2) / √2) := by
  have hπ := Real.pi_pos
  have hh0 : 0 < (θdeg / 180 * π) / 2 := by positivity
  have hh2 : (θdeg / 180 * π) / 2 < π / 2 := by
    have : θdeg / 180 < 1 := by linarith
    nlinarith
  rw [get2dWClosed_real]
  refine ⟨?_, ?_, ?_⟩
  · intro w hw
    simp only [List.mem_cons, List.not_mem_nil, or_false] at hw
    rcases hw with rfl | rfl
    · refine ⟨rfl, ?_⟩
      simp only [rdot_cons, rdot_nil_left]
      nlinarith [Real.sin_sq_add_cos_sq (π / 4 - (θdeg / 180 * π) / 2)]
    · refine ⟨rfl, ?_⟩
      simp only [rdot_cons, rdot_nil_left]
      nlinarith [Real.sin_sq_add_cos_sq (π / 4 + (θdeg / 180 * π) / 2)]
  · intro r φ hr hφ
    rw [← wedge_iff (φ - π / 4) _ hφ hh0 hh2]
    have e : [r * cos φ, r * sin φ] = [cos φ, sin φ].map (r * ·) := by simp
    simp only [MemCone, List.forall_mem_cons, List.not_mem_nil, false_imp_iff, imp_true_iff, and_true, e,
      gdot_smul, facet1_dir, facet2_dir, mul_nonneg_iff_of_pos_left hr]
    have e1 : φ - (π / 4 - θdeg / 180 * π / 2) = φ - π / 4 + θdeg / 180 * π / 2 := by ring
    have e2 : π / 4 + θdeg / 180 * π / 2 - φ = θdeg / 180 * π / 2 - (φ - π / 4) := by ring
    rw [e1, e2]
  · intro x1 x2
    have hc : 0 < cos ((θdeg / 180 * π) / 2) := Real.cos_pos_of_mem_Ioo ⟨by linarith, hh2⟩
    have hs : 0 < sin ((θdeg / 180 * π) / 2) := Real.sin_pos_of_pos_of_lt_pi hh0 (by linarith)
    have hcs : cos ((θdeg / 180 * π) / 2) ^ 2 + sin ((θdeg / 180 * π) / 2) ^ 2 = 1 := by
      linarith [Real.sin_sq_add_cos_sq ((θdeg / 180 * π) / 2)]
    have hdiv : (x1 + x2) / √2 = √2 / 2 * (x1 + x2) := by
      rw [div_eq_mul_one_div, one_div_sqrt2]; ring
    rw [hdiv, ← diag_frame_norm x1 x2,
      ← wedge_vec _ _ (√2 / 2 * (x1 + x2)) (√2 / 2 * (x2 - x1)) hc hs hcs]
    simp only [MemCone, List.forall_mem_cons, List.not_mem_nil, false_imp_iff, imp_true_iff, and_true,
      facet1_vec, facet2_vec]

/- Full statement of the next two theorems: for every `θdeg ∈ (0, 180)`, `get2dW θdeg = get2dWClosed θdeg`
   (and hence `get2dW θdeg` has the three properties of `theta2D_closed_semantics`).
   NOT provable for the real-number reading of the term at exactly `θdeg = 90`: there the `≤ 90` branch
   evaluates `tan (π/2)`, which is `0` in Mathlib (`Real.tan_pi_div_two`), and the term degenerates
   (`theta2D_term_at_90`).  The Python code is correct at 90 only because `fl(π)/2 ≠ π/2`, so `np.tan` returns
   1.6e16 and the normalised row is `(1, -6e-17)`; that case is covered on the floats by the harness (the real
   matrix is compared with the Float value of `get2dWClosed` and sign-tested at θ = 90).  Everything else —
   both branches of the code — is proved. -/

/-- **`get_2d_w` equals its closed form, both branches** (`0 < θ < 180`): the lower branch (`θ < 90`, rows
`(-tan α, 1)/‖·‖`, `(tan β, -1)/‖·‖`) and the upper branch (`θ > 90`, second row `(-tan β, 1)/‖·‖`) both
normalise to the inward unit normals `get2dWClosed θ`.  Missing for the full statement: `θ = 90` exactly. -/
theorem theta2D_rows_partial (θdeg : ℝ) (h0 : 0 < θdeg) (h180 : θdeg < 180) (h90 : θdeg ≠ 90) :
    get2dW θdeg = get2dWClosed θdeg := by
  rw [get2dWClosed_real]; exact get2dW_closed θdeg h0 h180 h90

/-- **The θ-cone of the code contains exactly the directions within `θ/2` of the diagonal** (`0 < θ < 180`,
`θ ≠ 90`): unit rows; polar form; vector form — the three statements of `theta2D_closed_semantics` for the
matrix `get2dW θ` that mirrors `get_2d_w`.  Missing for the full statement: `θ = 90` exactly. -/
theorem theta2D_semantics_partial (θdeg : ℝ) (h0 : 0 < θdeg) (h180 : θdeg < 180) (h90 : θdeg ≠ 90) :
    (∀ w ∈ get2dW θdeg, w.length = 2 ∧ rdot w w = 1) ∧
    (∀ r φ : ℝ, 0 < r → |φ - π / 4| ≤ π →
      (MemCone (get2dW θdeg) [r * cos φ, r * sin φ] ↔ |φ - π / 4| ≤ (θdeg / 180 * π) / 2)) ∧
    (∀ x1 x2 : ℝ, MemCone (get2dW θdeg) [x1, x2] ↔
      cos ((θdeg / 180 * π) / 2) * √(x1 * x1 + x2 * x2) ≤ (x1 + x2) / √2) := by
  rw [theta2D_rows_partial θdeg h0 h180 h90]
  exact theta2D_closed_semantics θdeg h0 h180

/-- Why `θ = 90` is excluded above: at exactly 90 the real-number term is the degenerate cone with rows
`(0, 1)`, `(0, -1)` (the line `x₂ = 0`), because `Real.tan (π/2) = 0`. -/
theorem theta2D_term_at_90 : get2dW (90 : ℝ) = [[0, 1], [0, -1]] := by
  have e1 : (π / 4 - (90 : ℝ) / 180 * π / 2) = 0 := by ring
  have e2 : (π / 4 + (90 : ℝ) / 180 * π / 2) = π / 2 := by ring
  simp only [get2dW, degToRad_real, RealLike.tan_real, RealLike.pi_real, RealLike.ofNat_real, leb_real,
    Nat.cast_ofNat, Nat.cast_one, le_refl, decide_true, if_true, e1, e2, Real.tan_zero,
    Real.tan_pi_div_two, rnormalize, rnorm, rdivs, rdot_cons, rdot_nil_left, RealLike.sqrt_real,
    List.map_cons, List.map_nil]
  norm_num

/-- non-vacuity (θ = 60°, lower branch; θ = 120°, upper branch): the diagonal is inside, the axis `(1, 0)`
is outside the 60° cone and inside the 120° cone -/
example : MemCone (get2dW (60 : ℝ)) [1, 1] ∧ ¬ MemCone (get2dW (60 : ℝ)) [1, 0] ∧
    MemCone (get2dW (120 : ℝ)) [1, 0] := by
  have h3 : (1 : ℝ) < √2 := by
    rw [show (1 : ℝ) = √1 by simp]; exact Real.sqrt_lt_sqrt (by norm_num) (by norm_num)
  have hpos := sqrt2_pos
  have c60 : cos ((60 : ℝ) / 180 * π / 2) = √3 / 2 := by
    rw [show (60 : ℝ) / 180 * π / 2 = π / 6 by ring, Real.cos_pi_div_six]
  have c120 : cos ((120 : ℝ) / 180 * π / 2) = 1 / 2 := by
    rw [show (120 : ℝ) / 180 * π / 2 = π / 3 by ring, Real.cos_pi_div_three]
  have s3 : √(3 : ℝ) * √3 = 3 := Real.mul_self_sqrt (by norm_num)
  have s3p : 0 < √(3 : ℝ) := Real.sqrt_pos.mpr (by norm_num)
  refine ⟨?_, ?_, ?_⟩
  · rw [(theta2D_semantics_partial 60 (by norm_num) (by norm_num) (by norm_num)).2.2, c60]
    have : √((1 : ℝ) * 1 + 1 * 1) = √2 := by norm_num
    rw [this, le_div_iff₀ hpos]
    nlinarith [sqrt2_mul_self]
  · rw [(theta2D_semantics_partial 60 (by norm_num) (by norm_num) (by norm_num)).2.2, c60]
    have : √((1 : ℝ) * 1 + 0 * 0) = 1 := by norm_num
    rw [this, not_le, div_lt_iff₀ hpos]
    nlinarith [sqrt2_mul_self]
  · rw [(theta2D_semantics_partial 120 (by norm_num) (by norm_num) (by norm_num)).2.2, c120]
    have : √((1 : ℝ) * 1 + 0 * 0) = 1 := by norm_num
    rw [this, le_div_iff₀ hpos]
    nlinarith [sqrt2_mul_self]

/-! ## C. The 3-D acute / right / obtuse cones (`ConeOrder3D`) -/

/-- Every bundled 3-D cone has three facet normals of length 3, each a **unit** vector, and the diagonal
`(1,1,1)` is **strictly** inside (every facet value positive). -/
theorem cone3D_unit_rows_diagonal_inside (k : Kind3D) :
    (cone3D (α := ℝ) k).length = 3 ∧
    ∀ w ∈ cone3D (α := ℝ) k, w.length = 3 ∧ rdot w w = 1 ∧ 0 < rdot w [1, 1, 1] := by
  have h21 := sqrt21_mul_self
  have p21 := sqrt21_pos
  have ho := sqrt_obtuse_mul_self
  have po := sqrt_obtuse_pos
  cases k
  · rw [acute_closed]
    refine ⟨rfl, ?_⟩
    intro w hw
    simp only [List.mem_cons, List.not_mem_nil, or_false] at hw
    rcases hw with rfl | rfl | rfl <;>
      (refine ⟨rfl, ?_, ?_⟩ <;> simp only [rdot_cons, rdot_nil_left] <;> field_simp <;> nlinarith)
  · rw [right_closed]
    refine ⟨rfl, ?_⟩
    intro w hw
    simp only [List.mem_cons, List.not_mem_nil, or_false] at hw
    rcases hw with rfl | rfl | rfl <;> (refine ⟨rfl, ?_, ?_⟩ <;> simp)
  · rw [obtuse_closed]
    refine ⟨rfl, ?_⟩
    intro w hw
    simp only [List.mem_cons, List.not_mem_nil, or_false] at hw
    rcases hw with rfl | rfl | rfl <;>
      (refine ⟨rfl, ?_, ?_⟩ <;> simp only [rdot_cons, rdot_nil_left] <;> field_simp <;> nlinarith)

/-- The code divides the whole matrix by the norm of its **first** row; this normalises every row because the
rows of the raw acute/obtuse matrices are cyclic shifts of each other and hence have the same squared norm. -/
theorem cone3D_raw_rows_same_norm :
    (∀ r ∈ acuteRaw (α := ℝ), rdot r r = 21) ∧ (∀ r ∈ obtuseRaw (α := ℝ), rdot r r = 93 / 25) := by
  constructor
  · intro r hr
    simp only [acuteRaw, RealLike.ofNat_real, List.mem_cons, List.not_mem_nil, or_false] at hr
    rcases hr with rfl | rfl | rfl <;> (simp only [rdot_cons, rdot_nil_left]; norm_num)
  · intro r hr
    simp only [obtuseRaw, RealLike.ofFrac, RealLike.ofNat_real, List.mem_cons, List.not_mem_nil,
      or_false] at hr
    rcases hr with rfl | rfl | rfl <;> (simp only [rdot_cons, rdot_nil_left]; norm_num)

/-- The names mean what they say: the acute cone lies inside the non-negative orthant, the right cone *is*
the orthant, and the obtuse cone contains the orthant. -/
theorem cone3D_names (x1 x2 x3 : ℝ) :
    (MemCone (cone3D .acute) [x1, x2, x3] → 0 ≤ x1 ∧ 0 ≤ x2 ∧ 0 ≤ x3) ∧
    (MemCone (cone3D .right) [x1, x2, x3] ↔ 0 ≤ x1 ∧ 0 ≤ x2 ∧ 0 ≤ x3) ∧
    (0 ≤ x1 ∧ 0 ≤ x2 ∧ 0 ≤ x3 → MemCone (cone3D .obtuse) [x1, x2, x3]) := by
  have p21 := sqrt21_pos
  have po := sqrt_obtuse_pos
  refine ⟨?_, ?_, ?_⟩
  · rw [acute_closed]
    simp only [MemCone, List.forall_mem_cons, List.not_mem_nil, false_imp_iff, imp_true_iff, and_true,
      gdot_cons, gdot_nil_left, add_zero]
    rintro ⟨f1, f2, f3⟩
    have g1 : 0 ≤ x1 - 2 * x2 + 4 * x3 := by
      have : 1 / √21 * x1 + (-2 / √21 * x2 + 4 / √21 * x3) = (x1 - 2 * x2 + 4 * x3) / √21 := by ring
      rw [this] at f1; exact (div_nonneg_iff.mp f1).elim (·.1) (fun h => absurd h.2 (not_le.mpr p21))
    have g2 : 0 ≤ 4 * x1 + x2 - 2 * x3 := by
      have : 4 / √21 * x1 + (1 / √21 * x2 + -2 / √21 * x3) = (4 * x1 + x2 - 2 * x3) / √21 := by ring
      rw [this] at f2; exact (div_nonneg_iff.mp f2).elim (·.1) (fun h => absurd h.2 (not_le.mpr p21))
    have g3 : 0 ≤ -2 * x1 + 4 * x2 + x3 := by
      have : -2 / √21 * x1 + (4 / √21 * x2 + 1 / √21 * x3) = (-2 * x1 + 4 * x2 + x3) / √21 := by ring
      rw [this] at f3; exact (div_nonneg_iff.mp f3).elim (·.1) (fun h => absurd h.2 (not_le.mpr p21))
    exact ⟨by linarith, by linarith, by linarith⟩
  · rw [right_closed]
    simp [MemCone]
  · rw [obtuse_closed]
    simp only [MemCone, List.forall_mem_cons, List.not_mem_nil, false_imp_iff, imp_true_iff, and_true,
      gdot_cons, gdot_nil_left, add_zero]
    rintro ⟨a1, a2, a3⟩
    refine ⟨?_, ?_, ?_⟩ <;> positivity

/-! ## D. The ice-cream cone (`compute_ice_cream_cone`) -/

/-- **The rotation used is orthogonal.**  `iceRot = I + C sin(π/4) + C²(1 − cos(π/4))` for the axis
`(-1/√2, 1/√2, 0)` has the closed form `rotC`; it preserves dot products (`RᵀR = I`), its rows are orthonormal
(`R Rᵀ = I`), and it maps `e₃` to `iceAxis = (1/2, 1/2, √2/2)`, a unit vector. -/
theorem iceRot_orthogonal :
    iceRot (α := ℝ) = [[1 / 2 + √2 / 4, -1 / 2 + √2 / 4, 1 / 2],
                       [-1 / 2 + √2 / 4, 1 / 2 + √2 / 4, 1 / 2],
                       [-1 / 2, -1 / 2, √2 / 2]] ∧
    (∀ x y z p q r : ℝ,
        rdot (rmatVec iceRot [x, y, z]) (rmatVec iceRot [p, q, r]) = rdot [x, y, z] [p, q, r]) ∧
    (∀ ri ∈ iceRot (α := ℝ), rdot ri ri = 1) ∧
    (∀ r0 r1 r2 : List ℝ, iceRot (α := ℝ) = [r0, r1, r2] → rdot r0 r1 = 0 ∧ rdot r0 r2 = 0 ∧ rdot r1 r2 = 0) ∧
    iceAxis (α := ℝ) = [1 / 2, 1 / 2, √2 / 2] ∧ rdot (iceAxis (α := ℝ)) iceAxis = 1 := by
  have hrows := rotC_rows
  refine ⟨iceRot_closed, ?_, ?_, ?_, ?_, ?_⟩
  · intro x y z p q r
    rw [iceRot_closed, rotC_dot]; simp only [rdot_cons, rdot_nil_left, add_zero, add_assoc]
  · rw [iceRot_closed]
    intro ri hri
    simp only [rotC, List.mem_cons, List.not_mem_nil, or_false] at hri
    rcases hri with rfl | rfl | rfl
    · exact hrows.1
    · exact hrows.2.1
    · exact hrows.2.2.1
  · rw [iceRot_closed]
    intro r0 r1 r2 h
    simp only [rotC, List.cons.injEq, and_true] at h
    obtain ⟨rfl, rfl, rfl⟩ := h
    exact ⟨hrows.2.2.2.1, hrows.2.2.2.2.1, hrows.2.2.2.2.2⟩
  · simp only [iceAxis, iceRot_closed, RealLike.ofNat_real, Nat.cast_zero, Nat.cast_one, rotC_apply]
    simp
  · simp only [iceAxis, iceRot_closed, RealLike.ofNat_real, Nat.cast_zero, Nat.cast_one, rotC_dot]
    ring

/-- **Rows of the ice-cream cone** (`0 < θ < 180`, any `K`): there are `K` rows and row `i` is the rotation of
the unit vector `(cos θ cos aᵢ, cos θ sin aᵢ, sin θ)`, `aᵢ = i·2π/K` — equally spaced around the axis. -/
theorem iceCream_rows (K : Nat) (θdeg : ℝ) (h0 : 0 < θdeg) (h180 : θdeg < 180) :
    iceCreamW K θdeg = (List.range K).map (fun i : Nat =>
      rmatVec iceRot [cos (θdeg * (π / 180)) * cos ((i : ℝ) * (2 * π / K)),
                      cos (θdeg * (π / 180)) * sin ((i : ℝ) * (2 * π / K)),
                      sin (θdeg * (π / 180))]) := by
  unfold iceCreamW
  apply List.map_congr_left
  intro i _
  rw [iceRow_closed K i θdeg h0 h180, iceRot_closed]

/-- **Every facet is tangent to the circular cone.**  For every facet count `K` (in particular all `K ≥ 3`) and
half-angle `θ ∈ (0°, 90°)`, with `d = iceAxis` the rotated axis: the matrix has `K` rows; every row `w` is a
unit 3-vector with `w · d = cos(π/2 − θ)` (angle `π/2 − θ` with the axis); the half-space `{x | w·x ≥ 0}`
contains the whole circular cone `{x | cos θ ‖x‖ ≤ x·d}` of half-angle `θ` about `d` (supporting half-space);
and it touches that cone: some unit vector `x` on the boundary of the circular cone (`cos θ ‖x‖ = x·d`) has
`w·x = 0`, so the facet plane contains the ray through `x`. -/
theorem iceCream_facets_tangent (K : Nat) (θdeg : ℝ) (h0 : 0 < θdeg) (h90 : θdeg < 90) :
    (iceCreamW K θdeg).length = K ∧
    ∀ w ∈ iceCreamW K θdeg,
      w.length = 3 ∧ rdot w w = 1 ∧ rdot w iceAxis = cos (π / 2 - θdeg * (π / 180)) ∧
      (∀ x1 x2 x3 : ℝ, cos (θdeg * (π / 180)) * √(rdot [x1, x2, x3] [x1, x2, x3]) ≤ rdot [x1, x2, x3] iceAxis →
          0 ≤ rdot w [x1, x2, x3]) ∧
      (∃ x : List ℝ, x.length = 3 ∧ rdot x x = 1 ∧
          cos (θdeg * (π / 180)) * √(rdot x x) = rdot x iceAxis ∧ rdot w x = 0) := by
  have hπ := Real.pi_pos
  have ht0 : 0 < θdeg * (π / 180) := by positivity
  have ht2 : θdeg * (π / 180) < π / 2 := by nlinarith
  have hs : 0 < sin (θdeg * (π / 180)) := Real.sin_pos_of_pos_of_lt_pi ht0 (by linarith)
  have hc : 0 < cos (θdeg * (π / 180)) := Real.cos_pos_of_mem_Ioo ⟨by linarith, ht2⟩
  have hsc := Real.sin_sq_add_cos_sq (θdeg * (π / 180))
  obtain ⟨_, _, _, _, hax, _⟩ := iceRot_orthogonal
  have hax' : iceAxis (α := ℝ) = rmatVec rotC [0, 0, 1] := by
    simp only [iceAxis, iceRot_closed, RealLike.ofNat_real, Nat.cast_zero, Nat.cast_one]
  refine ⟨by simp [iceCreamW], ?_⟩
  intro w hw
  rw [iceCream_rows K θdeg h0 (by linarith), iceRot_closed] at hw
  obtain ⟨i, _, rfl⟩ := List.mem_map.mp hw
  have hsa := Real.sin_sq_add_cos_sq ((i : ℝ) * (2 * π / K))
  generalize cos ((i : ℝ) * (2 * π / K)) = ca at *
  generalize sin ((i : ℝ) * (2 * π / K)) = sa at *
  generalize hS : sin (θdeg * (π / 180)) = S at *
  generalize hC : cos (θdeg * (π / 180)) = C at *
  have hww : rdot (rmatVec rotC [C * ca, C * sa, S]) (rmatVec rotC [C * ca, C * sa, S]) = 1 := by
    rw [rotC_dot]; linear_combination C ^ 2 * hsa + hsc
  have hwd : rdot (rmatVec rotC [C * ca, C * sa, S]) (rmatVec rotC [0, 0, 1]) = S := by
    rw [rotC_dot]; ring
  refine ⟨by simp [rmatVec, rotC], hww, ?_, ?_, ?_⟩
  · rw [hax', hwd, Real.cos_pi_div_two_sub, hS]
  · intro x1 x2 x3 hx
    rw [hax] at hx
    have hdd : rdot [(1 / 2 : ℝ), 1 / 2, √2 / 2] [1 / 2, 1 / 2, √2 / 2] = 1 := by
      simp only [rdot_cons, rdot_nil_left, add_zero]
      linear_combination (1 / 4 : ℝ) * sqrt2_mul_self
    have hwd2 : rdot (rmatVec rotC [C * ca, C * sa, S]) [1 / 2, 1 / 2, √2 / 2] = S := by
      rw [show ([1 / 2, 1 / 2, √2 / 2] : List ℝ) = rmatVec rotC [0, 0, 1] from hax.symm.trans hax']
      exact hwd
    rw [rotC_apply] at hww hwd2 ⊢
    exact support_list _ _ _ _ _ _ x1 x2 x3 S C hww hdd hwd2 hs hc (by linarith) hx
  · refine ⟨rmatVec rotC [-(S * ca), -(S * sa), C], by simp [rmatVec, rotC], ?_, ?_, ?_⟩
    · rw [rotC_dot]; linear_combination S ^ 2 * hsa + hsc
    · rw [hax', rotC_dot, rotC_dot]
      have : -(S * ca) * -(S * ca) + -(S * sa) * -(S * sa) + C * C = 1 := by
        linear_combination S ^ 2 * hsa + hsc
      rw [this]; simp
    · rw [rotC_dot]; linear_combination (-(S * C)) * hsa

/-- Consequently the `K`-facet polyhedral cone contains the circular cone of half-angle `θ` about the rotated
axis (it is an outer approximation whose every facet touches it), and the axis itself is strictly inside. -/
theorem iceCream_contains_circular_cone (K : Nat) (θdeg : ℝ) (h0 : 0 < θdeg) (h90 : θdeg < 90)
    (x1 x2 x3 : ℝ)
    (hx : cos (θdeg * (π / 180)) * √(rdot [x1, x2, x3] [x1, x2, x3]) ≤ rdot [x1, x2, x3] iceAxis) :
    MemCone (iceCreamW K θdeg) [x1, x2, x3] ∧
    ∀ w ∈ iceCreamW K θdeg, 0 < rdot w iceAxis := by
  have h := (iceCream_facets_tangent K θdeg h0 h90).2
  constructor
  · intro w hw
    rw [← rdot_eq_gdot]
    exact (h w hw).2.2.2.1 x1 x2 x3 hx
  · intro w hw
    rw [(h w hw).2.2.1, Real.cos_pi_div_two_sub]
    have hπ := Real.pi_pos
    exact Real.sin_pos_of_pos_of_lt_pi (by positivity) (by nlinarith)

/-- non-vacuity: the hypotheses are satisfiable and the matrices are the expected size (K = 3 facets, θ = 30°) -/
example : (iceCreamW 3 (30 : ℝ)).length = 3 ∧
    ∀ w ∈ iceCreamW 3 (30 : ℝ), rdot w w = 1 ∧ rdot w iceAxis = cos (π / 2 - 30 * (π / 180)) := by
  have h := iceCream_facets_tangent 3 30 (by norm_num) (by norm_num)
  exact ⟨h.1, fun w hw => ⟨(h.2 w hw).2.1, (h.2 w hw).2.2.1⟩⟩

/-! ## E. The bundled cones are pointed -/

/-- **Every bundled cone is pointed, so its order is antisymmetric (a partial order)**: the componentwise order
in every dimension (on the `Rat` model); the θ-cone for every `θ ∈ (0°, 180°)` (closed form; equal to `get2dW θ`
for `θ ≠ 90` by `theta2D_rows_partial`); the three 3-D cones; and the ice-cream cone for every `K ≥ 3` and
`θ ∈ (0°, 90°)` — this is where `K ≥ 3` is needed: rows 0, 1, 2 are linearly independent because
`2π/K ∈ (0, π)`. -/
theorem bundled_cones_antisymmetric :
    (∀ (m : Nat) (a b : Vec), a.length = m → b.length = m →
        dominates (identMat m) a b = true → dominates (identMat m) b a = true → a = b) ∧
    (∀ θdeg : ℝ, 0 < θdeg → θdeg < 180 → ∀ a b : List ℝ, a.length = 2 → b.length = 2 →
        Dom (get2dWClosed θdeg) a b → Dom (get2dWClosed θdeg) b a → a = b) ∧
    (∀ (k : Kind3D) (a b : List ℝ), a.length = 3 → b.length = 3 →
        Dom (cone3D k) a b → Dom (cone3D k) b a → a = b) ∧
    (∀ K : Nat, 3 ≤ K → ∀ θdeg : ℝ, 0 < θdeg → θdeg < 90 → ∀ a b : List ℝ, a.length = 3 → b.length = 3 →
        Dom (iceCreamW K θdeg) a b → Dom (iceCreamW K θdeg) b a → a = b) := by
  refine ⟨?_, ?_, ?_, ?_⟩
  · intro m
    apply (dominates_antisymm_iff_pointed (identMat m) m).mpr
    intro x hx hk
    have h1 : matVec (identMat m) x = List.replicate m 0 := by
      unfold matVec
      rw [List.map_congr_left hk, List.map_const']
      simp [identMat]
    rw [← matVec_identMat m x hx, h1]
  · intro θdeg h0 h180
    exact (Dom.antisymm_iff_pointed (get2dWClosed θdeg) 2).mpr
      (fun x hx hk => theta2D_kernel θdeg h0 h180 x hx hk)
  · intro k
    exact (Dom.antisymm_iff_pointed (cone3D k) 3).mpr (fun x hx hk => cone3D_kernel k x hx hk)
  · intro K hK θdeg h0 h90
    exact (Dom.antisymm_iff_pointed (iceCreamW K θdeg) 3).mpr
      (fun x hx hk => iceCream_kernel K hK θdeg h0 h90 x hx hk)

/-- non-vacuity of the `K ≥ 3` hypothesis: with `K = 2` facets (opposite azimuths) the cone is NOT pointed in
general — e.g. the model relation for the two facet normals `(1,0,1)`, `(-1,0,1)` has the line `ℝ·(0,1,0)`. -/
example : dominates [[1, 0, 1], [-1, 0, 1]] [0, 1, 0] [0, 0, 0] = true ∧
    dominates [[1, 0, 1], [-1, 0, 1]] [0, 0, 0] [0, 1, 0] = true := by decide +kernel

end VOPy.C12
