import VOPyVerif.Proofs.Rect
import VOPyVerif.Proofs.Ellipsoid
import VOPyVerif.Proofs.EllipsoidPosDef
import VOPyVerif.Proofs.InvDominated
import Mathlib.LinearAlgebra.Matrix.Notation
/-!
# C09 — region "is dominated" decides `∀ z ∈ R₁, ∀ z' ∈ R₂ : z' + slack ≽ z`

Property theorems only (helpers in `Proofs/Rect.lean`, `Proofs/Ellipsoid.lean`).  They are about
the executable definitions the driver runs against `confidence_region_is_dominated`:
`Rect.isDominated(Checked/Tol)` and `Ellipsoid.isDominated(Checked/Tol)`, `Ellipsoid.sqrtIneq`.

Inputs of the list model are written `toVec f = List.ofFn f`, `toMat W = List.ofFn (List.ofFn ∘ W)`
for `Fin`-indexed rational data; every well-formed list input (vectors of length `m`, `N × m`
matrix) is of this form.  Real points are `Fin m → ℝ`; rationals enter `ℝ` through `Rat.cast`.

Ellipsoids: the region `(c, Σ, a)` is stated through a factor `L` with `Σ = L Lᵀ`
(`Ell c L a = {c + a·L u | ‖u‖₂ ≤ 1}`, which for invertible `L` is `{z | (z−c)ᵀΣ⁻¹(z−c) ≤ a²}`, the
set the code's constraint `‖Σ^{-1/2}(z − c)‖ ≤ a` describes); the theorems hold for *every* such
factor (`L` real, not necessarily triangular or rational).
-/
namespace VOPy.C09
open VOPy Matrix

variable {m N : ℕ}

/-! ## Shape of the inputs -/

/-- Every vector of length `m` handed to the list model is `toVec f` for its coordinate function. -/
theorem vec_wellformed (l : Vec) (h : l.length = m) : ∃ f : Fin m → ℚ, l = toVec f := by
  subst h
  exact ⟨fun i => l[i], by simp [toVec]⟩

/-- Every `N × m` matrix (list of `N` rows, each of length `m`) is `toMat F`. -/
theorem mat_wellformed (W : Mat) (hN : W.length = N) (hrows : ∀ w ∈ W, w.length = m) :
    ∃ F : Fin N → Fin m → ℚ, W = toMat F := by
  subst hN
  refine ⟨fun n i => (W[n.1])[i.1]'(by have := hrows _ (List.getElem_mem n.2); omega), ?_⟩
  apply List.ext_getElem
  · simp [toMat]
  · intro n h1 h2
    simp only [toMat, List.getElem_ofFn]
    apply List.ext_getElem
    · simp [hrows _ (List.getElem_mem h1)]
    · intro i h3 h4
      simp

/-! ## Rectangles -/

/-- **`hyperrectangle_get_vertices`.**  The model's vertex list of the box `[l, u]` has `2^m`
entries and contains exactly the corner points (each coordinate `l i` or `u i`). -/
theorem rect_vertices_spec (l u : Fin m → ℚ) :
    (Rect.vertices (toVec l) (toVec u)).length = 2 ^ m ∧
    ∀ v, v ∈ Rect.vertices (toVec l) (toVec u) ↔ ∃ f, Rect.IsVertex l u f ∧ v = toVec f :=
  ⟨Rect.vertices_length l u, Rect.mem_vertices_toVec l u⟩

/-- non-vacuity / order: `itertools.product` order, first coordinate slowest, lower before upper -/
example : Rect.vertices [0, 1] [2, 3] = [[0, 1], [0, 3], [2, 1], [2, 3]] := by decide +kernel

/-- **Rectangles, vector slack.**  For boxes with `l ≤ u`, any cone matrix `W` (any number of
facets) and an `m`-vector slack, the vertex-pair double loop of
`RectangularConfidenceRegion.is_dominated` answers `true` exactly when every real point of box 2,
shifted by the slack, dominates every real point of box 1: `∀ z ∈ R₁, ∀ z' ∈ R₂, ∀ n,
0 ≤ w_n·(z' + s − z)`.  The boundary (some functional exactly 0) counts as dominated. -/
theorem rect_isDominated_iff (W : Fin N → Fin m → ℚ) (l1 u1 l2 u2 s : Fin m → ℚ)
    (h1 : ∀ i, l1 i ≤ u1 i) (h2 : ∀ i, l2 i ≤ u2 i) :
    Rect.isDominated (toMat W) (toVec l1) (toVec u1) (toVec l2) (toVec u2) (toVec s) = true ↔
      Rect.Dominated W l1 u1 l2 u2 s := by
  rw [← Rect.isDominatedTol_zero, Rect.isDominatedTol_iff W l1 u1 l2 u2 s 0 h1 h2,
    Rect.dominatedTol_zero]

/-- non-vacuity: two unit squares touching at a corner under the componentwise order — boundary
counts as dominated; moving box 2 down by 1/2 breaks it. -/
example : Rect.isDominated (toMat ![![1, 0], ![0, 1]]) (toVec ![0, 0]) (toVec ![1, 1])
    (toVec ![1, 1]) (toVec ![2, 2]) (toVec ![0, 0]) = true := by decide +kernel
example : Rect.isDominated (toMat ![![1, 0], ![0, 1]]) (toVec ![0, 0]) (toVec ![1, 1])
    (toVec ![1, 1/2]) (toVec ![2, 2]) (toVec ![0, 0]) = false := by decide +kernel
/-- non-vacuity with a non-orthant three-facet cone and a vector slack -/
example : Rect.isDominated (toMat ![![2, -1], ![-1, 2], ![1, 0]]) (toVec ![0, 0]) (toVec ![1, 1])
    (toVec ![5, 5]) (toVec ![6, 6]) (toVec ![1/2, 0]) = true := by decide +kernel

/-- **Rectangles with the slack guard, vector slack.**  With a slack of `m` entries the guard of
`is_dominated` accepts and the answer is the ∀∀ statement with that shift. -/
theorem rect_isDominatedChecked_vector (W : Fin N → Fin m → ℚ) (l1 u1 l2 u2 s : Fin m → ℚ)
    (h1 : ∀ i, l1 i ≤ u1 i) (h2 : ∀ i, l2 i ≤ u2 i) :
    ∃ b, Rect.isDominatedChecked (toMat W) (toVec l1) (toVec u1) (toVec l2) (toVec u2) (toVec s)
        = some b ∧ (b = true ↔ Rect.Dominated W l1 u1 l2 u2 s) := by
  refine ⟨_, ?_, rect_isDominated_iff W l1 u1 l2 u2 s h1 h2⟩
  have he : Rect.expandSlack m (toVec s) = some (toVec s) := by
    unfold Rect.expandSlack
    split
    · rename_i x hx
      have hm : m = 1 := by simpa using congrArg List.length hx
      subst hm
      simp [hx]
    · simp
  simp [Rect.isDominatedChecked, he]

/-- **Rectangles with the slack guard, scalar slack.**  A slack with a single entry `x` (Python
scalar / 0-d / size-1 array) is accepted for every dimension and acts as the shift `(x, …, x)`:
the answer is `true` exactly when `∀ z ∈ R₁, ∀ z' ∈ R₂, ∀ n, 0 ≤ w_n·(z' + x·𝟙 − z)`. -/
theorem rect_isDominatedChecked_scalar (W : Fin N → Fin m → ℚ) (l1 u1 l2 u2 : Fin m → ℚ) (x : ℚ)
    (h1 : ∀ i, l1 i ≤ u1 i) (h2 : ∀ i, l2 i ≤ u2 i) :
    ∃ b, Rect.isDominatedChecked (toMat W) (toVec l1) (toVec u1) (toVec l2) (toVec u2) [x]
        = some b ∧ (b = true ↔ Rect.Dominated W l1 u1 l2 u2 (fun _ => x)) := by
  refine ⟨_, ?_, rect_isDominated_iff W l1 u1 l2 u2 (fun _ => x) h1 h2⟩
  have : List.replicate m x = toVec (fun _ : Fin m => x) := by
    simp [toVec, List.ofFn_const]
  simp [Rect.isDominatedChecked, Rect.expandSlack, this]

/-- **The slack-size guard of the rectangle predicate** (`ValueError`): the model rejects a slack
exactly when its size is neither 1 nor the dimension of the first rectangle — for arbitrary list
inputs. -/
theorem rect_guard (W : Mat) (l1 u1 l2 u2 s : Vec) :
    Rect.isDominatedChecked W l1 u1 l2 u2 s = none ↔ s.length ≠ 1 ∧ s.length ≠ l1.length := by
  unfold Rect.isDominatedChecked Rect.expandSlack
  split
  · simp
  · rename_i hs
    have h1 : s.length ≠ 1 := by
      intro h
      obtain ⟨x, rfl⟩ := List.length_eq_one_iff.1 h
      exact hs x rfl
    by_cases hl : s.length = l1.length <;> simp [hl, h1]

/-- **Band (rectangles).**  The threshold loop the harness uses for its borderline band decides the
threshold ∀∀ statement `∀ z ∈ R₁, ∀ z' ∈ R₂, ∀ n, t ≤ w_n·(z' + s − z)` … -/
theorem rect_isDominatedTol_iff (W : Fin N → Fin m → ℚ) (l1 u1 l2 u2 s : Fin m → ℚ) (t : ℚ)
    (h1 : ∀ i, l1 i ≤ u1 i) (h2 : ∀ i, l2 i ≤ u2 i) :
    Rect.isDominatedTol (toMat W) (toVec l1) (toVec u1) (toVec l2) (toVec u2) (toVec s) t = true ↔
      Rect.DominatedTol W l1 u1 l2 u2 s t :=
  Rect.isDominatedTol_iff W l1 u1 l2 u2 s t h1 h2

/-- … and is monotone in the threshold, so "true at `+t`" implies the exact verdict `true` and
"false at `−t`" implies the exact verdict `false` (arbitrary list inputs, `t ≥ 0`). -/
theorem rect_band_sandwich (W : Mat) (l1 u1 l2 u2 s : Vec) (t : ℚ) (ht : 0 ≤ t) :
    (Rect.isDominatedTol W l1 u1 l2 u2 s t = true → Rect.isDominated W l1 u1 l2 u2 s = true) ∧
    (Rect.isDominated W l1 u1 l2 u2 s = true → Rect.isDominatedTol W l1 u1 l2 u2 s (-t) = true) := by
  simp only [Rect.isDominatedTol_eq_true, Rect.isDominated_eq_true]
  constructor
  · intro h v1 hv1 v2 hv2 w hw
    exact le_trans ht (h v1 hv1 v2 hv2 w hw)
  · intro h v1 hv1 v2 hv2 w hw
    exact le_trans (neg_nonpos.mpr ht) (h v1 hv1 v2 hv2 w hw)

/-! ## Ellipsoids -/

/-- **The rational decision procedure is correct.**  For rationals `p, b, c, d` with `b, c ≥ 0`:
`sqrtIneq p b c d = true ↔ p − √b − √c ≥ d` over `ℝ` (no square root is computed: two case
distinctions and two squarings). -/
theorem sqrtIneq_correct (p b c d : ℚ) (hb : 0 ≤ b) (hc : 0 ≤ c) :
    Ellipsoid.sqrtIneq p b c d = true ↔ (d : ℝ) ≤ (p : ℝ) - Real.sqrt b - Real.sqrt c :=
  Ellipsoid.sqrtIneq_iff p b c d hb hc

/-- non-vacuity: `5 − √4 − √9 ≥ 0` holds with equality, and fails against `1/1000`;
an irrational instance: `3 − √2 − √2 ≥ 0` (`2√2 ≈ 2.83`) but not `≥ 1/5`. -/
example : Ellipsoid.sqrtIneq 5 4 9 0 = true ∧ Ellipsoid.sqrtIneq 5 4 9 (1/1000) = false ∧
    Ellipsoid.sqrtIneq 3 2 2 0 = true ∧ Ellipsoid.sqrtIneq 3 2 2 (1/5) = false := by decide +kernel

/-- **Minimum of a facet functional over a pair of ellipsoids** (Cauchy–Schwarz, attained):
`t ≤ w·(z' − z)` for all `z ∈ E₁ = {c₁ + a₁L₁u}`, `z' ∈ E₂` iff
`t ≤ w·(c₂ − c₁) − a₁‖L₁ᵀw‖ − a₂‖L₂ᵀw‖`, where `‖Lᵀw‖ = √(wᵀ L Lᵀ w)`. -/
theorem ell_support_min (w c1 c2 : Fin m → ℝ) (L1 L2 : Matrix (Fin m) (Fin m) ℝ) (a1 a2 t : ℝ)
    (ha1 : 0 ≤ a1) (ha2 : 0 ≤ a2) :
    (∀ z ∈ Ellipsoid.Ell c1 L1 a1, ∀ z' ∈ Ellipsoid.Ell c2 L2 a2, t ≤ w ⬝ᵥ (z' - z)) ↔
      t ≤ w ⬝ᵥ (c2 - c1) - a1 * Real.sqrt (w ⬝ᵥ ((L1 * L1ᵀ) *ᵥ w))
        - a2 * Real.sqrt (w ⬝ᵥ ((L2 * L2ᵀ) *ᵥ w)) := by
  rw [Ellipsoid.ell_pair_min w c1 c2 L1 L2 a1 a2 t ha1 ha2, Ellipsoid.suppNorm, Ellipsoid.suppNorm,
    Ellipsoid.quad_eq_sum_sq, Ellipsoid.quad_eq_sum_sq]

/-- … and that value is attained, so it *is* the optimal value of the code's per-facet SOCP
`min { w·(z' − z) | z ∈ E₁, z' ∈ E₂ }`. -/
theorem ell_support_attained (w c1 c2 : Fin m → ℝ) (L1 L2 : Matrix (Fin m) (Fin m) ℝ) (a1 a2 : ℝ) :
    ∃ z ∈ Ellipsoid.Ell c1 L1 a1, ∃ z' ∈ Ellipsoid.Ell c2 L2 a2,
      w ⬝ᵥ (z' - z) = w ⬝ᵥ (c2 - c1) - a1 * Real.sqrt (w ⬝ᵥ ((L1 * L1ᵀ) *ᵥ w))
        - a2 * Real.sqrt (w ⬝ᵥ ((L2 * L2ᵀ) *ᵥ w)) := by
  have h := Ellipsoid.ell_pair_attained w c1 c2 L1 L2 a1 a2
  simpa only [Ellipsoid.suppNorm, ← Ellipsoid.quad_eq_sum_sq] using h

/-- **Ellipsoids, per-facet slack vector.**  For rational centres, rational symmetric shape
matrices `Σᵢ` that factor as `Σᵢ = Lᵢ Lᵢᵀ` over `ℝ` (i.e. positive semidefinite), radii `aᵢ ≥ 0`,
any cone matrix `W` with `N` facets and a slack with one entry per facet: the model's facet loop
(closed form decided by `sqrtIneq`) answers `true` exactly when
`∀ z ∈ E₁, ∀ z' ∈ E₂, ∀ n, w_n·(z' − z) ≥ −s_n`. -/
theorem ell_isDominated_iff (W : Fin N → Fin m → ℚ) (c1 c2 : Fin m → ℚ)
    (S1 S2 : Fin m → Fin m → ℚ) (a1 a2 : ℚ) (s : Fin N → ℚ) (L1 L2 : Matrix (Fin m) (Fin m) ℝ)
    (hL1 : (Matrix.of fun i j => (S1 i j : ℝ)) = L1 * L1ᵀ)
    (hL2 : (Matrix.of fun i j => (S2 i j : ℝ)) = L2 * L2ᵀ)
    (ha1 : 0 ≤ a1) (ha2 : 0 ≤ a2) :
    Ellipsoid.isDominated (toMat W) (toVec c1) (toMat S1) a1 (toVec c2) (toMat S2) a2 (toVec s)
        = true ↔ Ellipsoid.Dominated W c1 L1 a1 c2 L2 a2 s := by
  rw [← Ellipsoid.isDominatedTol_zero,
    Ellipsoid.isDominatedTol_iff W c1 c2 S1 S2 a1 a2 s 0 L1 L2 hL1 hL2 ha1 ha2,
    Ellipsoid.dominatedTol_zero]

/-- non-vacuity: unit discs at `(0,0)` and `(2,2)` touch the boundary on both facets of the
componentwise order (`2 − 1 − 1 = 0`): dominated; at `(2, 3/2)` not; with allowance `1/2` again. -/
example :
    Ellipsoid.isDominated (toMat ![![1, 0], ![0, 1]]) (toVec ![0, 0]) (toMat ![![1, 0], ![0, 1]]) 1
      (toVec ![2, 2]) (toMat ![![1, 0], ![0, 1]]) 1 (toVec ![0, 0]) = true ∧
    Ellipsoid.isDominated (toMat ![![1, 0], ![0, 1]]) (toVec ![0, 0]) (toMat ![![1, 0], ![0, 1]]) 1
      (toVec ![2, 3/2]) (toMat ![![1, 0], ![0, 1]]) 1 (toVec ![0, 0]) = false ∧
    Ellipsoid.isDominated (toMat ![![1, 0], ![0, 1]]) (toVec ![0, 0]) (toMat ![![1, 0], ![0, 1]]) 1
      (toVec ![2, 3/2]) (toMat ![![1, 0], ![0, 1]]) 1 (toVec ![0, 1/2]) = true := by
  decide +kernel
/-- the factorisation hypothesis is satisfiable for a correlated, anisotropic shape:
`[[4, 2], [2, 2]] = L Lᵀ` with `L = [[2, 0], [1, 1]]`. -/
example : (Matrix.of fun i j => ((![![4, 2], ![2, 2]] : Fin 2 → Fin 2 → ℚ) i j : ℝ)) =
    (!![2, 0; 1, 1] : Matrix (Fin 2) (Fin 2) ℝ) * (!![2, 0; 1, 1] : Matrix (Fin 2) (Fin 2) ℝ)ᵀ := by
  ext i j
  fin_cases i <;> fin_cases j <;> simp [Matrix.mul_apply, Fin.sum_univ_two] <;> norm_num

/-- **Ellipsoids, regions exactly as the code states them.**  For rational shape matrices that are
positive definite (as real matrices) and radii of *any* sign, the model answers `true` exactly when
`∀ z, z'` with `(z − c₁)ᵀ Σ₁⁻¹ (z − c₁) ≤ a₁²`, `0 ≤ a₁` and `(z' − c₂)ᵀ Σ₂⁻¹ (z' − c₂) ≤ a₂²`, `0 ≤ a₂`
(the feasible sets of the code's constraints `‖Σ^{-1/2}(z − c)‖ ≤ a`), and every facet `n`:
`w_n·(z' − z) ≥ −s_n`.  A negative radius makes its region empty and the answer `true`. -/
theorem ell_isDominated_iff_posDef (W : Fin N → Fin m → ℚ) (c1 c2 : Fin m → ℚ)
    (S1 S2 : Fin m → Fin m → ℚ) (a1 a2 : ℚ) (s : Fin N → ℚ)
    (h1 : (Matrix.of fun i j => (S1 i j : ℝ)).PosDef)
    (h2 : (Matrix.of fun i j => (S2 i j : ℝ)).PosDef) :
    Ellipsoid.isDominated (toMat W) (toVec c1) (toMat S1) a1 (toVec c2) (toMat S2) a2 (toVec s)
        = true ↔
      Ellipsoid.DominatedQ W c1 (Matrix.of fun i j => (S1 i j : ℝ)) a1
        c2 (Matrix.of fun i j => (S2 i j : ℝ)) a2 s := by
  obtain ⟨L1, hL1, hd1⟩ := Ellipsoid.exists_factor_of_posDef _ h1
  obtain ⟨L2, hL2, hd2⟩ := Ellipsoid.exists_factor_of_posDef _ h2
  exact Ellipsoid.isDominated_iff_quad W c1 c2 S1 S2 a1 a2 s L1 L2 hL1 hL2 hd1 hd2

/-- the positive-definiteness hypothesis is satisfiable for a correlated shape:
`xᵀ [[4, 2], [2, 2]] x = (2x₀ + x₁)² + x₁²`. -/
example : (Matrix.of fun i j => ((![![4, 2], ![2, 2]] : Fin 2 → Fin 2 → ℚ) i j : ℝ)).PosDef := by
  refine Matrix.PosDef.of_dotProduct_mulVec_pos ?_ fun x hx => ?_
  · ext i j
    fin_cases i <;> fin_cases j <;> simp [Matrix.conjTranspose_apply]
  · have hne : x 0 ≠ 0 ∨ x 1 ≠ 0 := by
      by_contra h
      push Not at h
      exact hx (funext fun i => by fin_cases i <;> simp [h.1, h.2])
    simp only [dotProduct, Matrix.mulVec, Fin.sum_univ_two, Matrix.of_apply, Pi.star_apply,
      star_trivial]
    norm_num
    rcases hne with h | h
    · nlinarith [sq_nonneg (2 * x 0 + x 1), sq_nonneg (x 1), sq_nonneg (x 0), sq_pos_of_ne_zero h,
        sq_nonneg (x 0 + x 1)]
    · nlinarith [sq_nonneg (2 * x 0 + x 1), sq_pos_of_ne_zero h]

/-- **Ellipsoids with the slack guard.**  A slack with one entry per facet is accepted and used
as is; a single entry `x` is accepted and repeated for every facet. -/
theorem ell_isDominatedChecked (W : Fin N → Fin m → ℚ) (c1 c2 : Fin m → ℚ)
    (S1 S2 : Fin m → Fin m → ℚ) (a1 a2 : ℚ) (s : Fin N → ℚ) (x : ℚ)
    (L1 L2 : Matrix (Fin m) (Fin m) ℝ)
    (hL1 : (Matrix.of fun i j => (S1 i j : ℝ)) = L1 * L1ᵀ)
    (hL2 : (Matrix.of fun i j => (S2 i j : ℝ)) = L2 * L2ᵀ)
    (ha1 : 0 ≤ a1) (ha2 : 0 ≤ a2) :
    (∃ b, Ellipsoid.isDominatedChecked (toMat W) (toVec c1) (toMat S1) a1 (toVec c2) (toMat S2) a2
        (toVec s) = some b ∧ (b = true ↔ Ellipsoid.Dominated W c1 L1 a1 c2 L2 a2 s)) ∧
    (∃ b, Ellipsoid.isDominatedChecked (toMat W) (toVec c1) (toMat S1) a1 (toVec c2) (toMat S2) a2
        [x] = some b ∧ (b = true ↔ Ellipsoid.Dominated W c1 L1 a1 c2 L2 a2 (fun _ => x))) := by
  constructor
  · refine ⟨_, ?_, ell_isDominated_iff W c1 c2 S1 S2 a1 a2 s L1 L2 hL1 hL2 ha1 ha2⟩
    have he : Ellipsoid.expandSlack N (toVec s) = some (toVec s) := by
      unfold Ellipsoid.expandSlack
      split
      · rename_i y hy
        have hm : N = 1 := by simpa using congrArg List.length hy
        subst hm
        simp [hy]
      · simp
    simp [Ellipsoid.isDominatedChecked, he]
  · refine ⟨_, ?_, ell_isDominated_iff W c1 c2 S1 S2 a1 a2 (fun _ => x) L1 L2 hL1 hL2 ha1 ha2⟩
    have : List.replicate N x = toVec (fun _ : Fin N => x) := by
      simp [toVec, List.ofFn_const]
    simp [Ellipsoid.isDominatedChecked, Ellipsoid.expandSlack, this]

/-- **The slack-size guard of the ellipsoid predicate** (`ValueError`): rejected exactly when the
slack size is neither 1 nor the number of facets — arbitrary list inputs. -/
theorem ell_guard (W : Mat) (c1 : Vec) (S1 : Mat) (a1 : ℚ) (c2 : Vec) (S2 : Mat) (a2 : ℚ) (s : Vec) :
    Ellipsoid.isDominatedChecked W c1 S1 a1 c2 S2 a2 s = none ↔
      s.length ≠ 1 ∧ s.length ≠ W.length := by
  unfold Ellipsoid.isDominatedChecked Ellipsoid.expandSlack
  split
  · simp
  · rename_i hs
    have h1 : s.length ≠ 1 := by
      intro h
      obtain ⟨x, rfl⟩ := List.length_eq_one_iff.1 h
      exact hs x rfl
    by_cases hl : s.length = W.length <;> simp [hl, h1]

/-- **Band (ellipsoids).**  The threshold loop used for the borderline band decides
`∀ z ∈ E₁, ∀ z' ∈ E₂, ∀ n, w_n·(z' − z) ≥ −s_n + t`; hence (the right-hand sides being monotone
in `t`) "true at `+t`" implies the exact verdict `true`, "false at `−t`" implies `false`. -/
theorem ell_isDominatedTol_iff (W : Fin N → Fin m → ℚ) (c1 c2 : Fin m → ℚ)
    (S1 S2 : Fin m → Fin m → ℚ) (a1 a2 : ℚ) (s : Fin N → ℚ) (t : ℚ)
    (L1 L2 : Matrix (Fin m) (Fin m) ℝ)
    (hL1 : (Matrix.of fun i j => (S1 i j : ℝ)) = L1 * L1ᵀ)
    (hL2 : (Matrix.of fun i j => (S2 i j : ℝ)) = L2 * L2ᵀ)
    (ha1 : 0 ≤ a1) (ha2 : 0 ≤ a2) :
    Ellipsoid.isDominatedTol (toMat W) (toVec c1) (toMat S1) a1 (toVec c2) (toMat S2) a2 (toVec s) t
        = true ↔ Ellipsoid.DominatedTol W c1 L1 a1 c2 L2 a2 s t :=
  Ellipsoid.isDominatedTol_iff W c1 c2 S1 S2 a1 a2 s t L1 L2 hL1 hL2 ha1 ha2

/-! ## INVARIANCES — translation, positive scaling, cone-row scaling and permutation

About the executable decisions the driver ops `rect` / `recttol` / `ell` / `elltol` evaluate
(helpers: `Proofs/InvBasic.lean`, `Proofs/InvDominated.lean`).  They hold for *all* inputs of
consistent lengths, with no ordering (`l ≤ u`), positive-definiteness or radius hypotheses; they are
what the harness' metamorphic checks (translated / rescaled / large-offset cases, non-unit and
re-ordered cone rows must give the same verdict) rely on: a decision that looked at relative sizes
(`rtol·|value|`) instead of differences would break them. -/

section Invariance
open VOPy.Inv

/-- **Rectangles: common translation.**  Translating BOTH rectangles by one vector `t` changes neither
the checked verdict (`rect`, any cone matrix, any slack, guard included) nor any band verdict
(`recttol`, any threshold `τ`). -/
theorem rect_isDominated_translate (W : Mat) (l1 u1 l2 u2 s t : Vec)
    (h1 : l1.length = t.length) (h2 : u1.length = t.length) (h3 : l2.length = t.length)
    (h4 : u2.length = t.length) :
    Rect.isDominatedChecked W (vadd l1 t) (vadd u1 t) (vadd l2 t) (vadd u2 t) s =
        Rect.isDominatedChecked W l1 u1 l2 u2 s ∧
    ∀ (s' : Vec) (τ : ℚ),
      Rect.isDominatedTol W (vadd l1 t) (vadd u1 t) (vadd l2 t) (vadd u2 t) s' τ =
        Rect.isDominatedTol W l1 u1 l2 u2 s' τ := by
  refine ⟨?_, fun s' τ => rect_tol_translate W l1 u1 l2 u2 s' t τ h1 h2 h3 h4⟩
  unfold Rect.isDominatedChecked
  rw [vadd_length_eq h1, ← h1]
  cases Rect.expandSlack l1.length s with
  | none => rfl
  | some s' => simp [rect_translate W l1 u1 l2 u2 s' t h1 h2 h3 h4]

/-- **Rectangles: positive scaling.**  Scaling both rectangles AND the slack by `c > 0` changes neither
the checked verdict nor the band verdicts (threshold scaled alike).  No length hypothesis at all. -/
theorem rect_isDominated_scale (W : Mat) (c : ℚ) (hc : 0 < c) (l1 u1 l2 u2 s : Vec) :
    Rect.isDominatedChecked W (smul c l1) (smul c u1) (smul c l2) (smul c u2) (smul c s) =
        Rect.isDominatedChecked W l1 u1 l2 u2 s ∧
    ∀ (s' : Vec) (τ : ℚ),
      Rect.isDominatedTol W (smul c l1) (smul c u1) (smul c l2) (smul c u2) (smul c s') (c * τ) =
        Rect.isDominatedTol W l1 u1 l2 u2 s' τ := by
  refine ⟨?_, fun s' τ => rect_tol_scale W c hc l1 u1 l2 u2 s' τ⟩
  unfold Rect.isDominatedChecked
  rw [smul_length, rect_expandSlack_smul]
  cases Rect.expandSlack l1.length s with
  | none => rfl
  | some s' => simp [rect_scale W c hc l1 u1 l2 u2 s']

/-- **Rectangles: cone rows may be rescaled and re-ordered.**  Multiplying the rows of `W` by positive
factors `D` (one per row) or permuting them leaves the rectangle verdict unchanged *with the same
slack*: the rectangle slack is an objective-space shift, not a per-facet quantity. -/
theorem rect_isDominated_rows (W : Mat) (l1 u1 l2 u2 s : Vec) :
    (∀ D : Vec, (∀ d ∈ D, 0 < d) → D.length = W.length →
      Rect.isDominatedChecked (List.zipWith smul D W) l1 u1 l2 u2 s =
        Rect.isDominatedChecked W l1 u1 l2 u2 s) ∧
    (∀ W' : Mat, W.Perm W' →
      Rect.isDominatedChecked W' l1 u1 l2 u2 s = Rect.isDominatedChecked W l1 u1 l2 u2 s) := by
  constructor
  · intro D hD hlen
    unfold Rect.isDominatedChecked
    cases Rect.expandSlack l1.length s with
    | none => rfl
    | some s' => simp [← rect_scaleRows D W hD hlen l1 u1 l2 u2 s', scaleRows]
  · intro W' h
    unfold Rect.isDominatedChecked
    cases Rect.expandSlack l1.length s with
    | none => rfl
    | some s' => simp [rect_perm h l1 u1 l2 u2 s']

/-- **Ellipsoids: common translation of the centres** leaves the checked verdict (`ell`) and every
band verdict (`elltol`) unchanged — any covariances, radii, cone and slack. -/
theorem ell_isDominated_translate (W : Mat) (c1 : Vec) (S1 : Mat) (a1 : ℚ) (c2 : Vec) (S2 : Mat)
    (a2 : ℚ) (s t : Vec) (h1 : c1.length = t.length) (h2 : c2.length = t.length) :
    Ellipsoid.isDominatedChecked W (vadd c1 t) S1 a1 (vadd c2 t) S2 a2 s =
        Ellipsoid.isDominatedChecked W c1 S1 a1 c2 S2 a2 s ∧
    ∀ (s' : Vec) (τ : ℚ),
      Ellipsoid.isDominatedTol W (vadd c1 t) S1 a1 (vadd c2 t) S2 a2 s' τ =
        Ellipsoid.isDominatedTol W c1 S1 a1 c2 S2 a2 s' τ := by
  refine ⟨?_, fun s' τ => ell_tol_translate W c1 S1 a1 c2 S2 a2 s' t τ h1 h2⟩
  unfold Ellipsoid.isDominatedChecked
  cases Ellipsoid.expandSlack W.length s with
  | none => rfl
  | some s' =>
    simp [isDominated_eq_tol, ell_tol_translate W c1 S1 a1 c2 S2 a2 s' t 0 h1 h2]

/-- **Ellipsoids: homogeneity.**  For `k > 0`: centres `↦ k·c`, slack `↦ k·s` and EITHER every
covariance entry `↦ k²·Σ` (radii `alpha` fixed) OR radii `↦ k·alpha` (covariances fixed) leave the
checked verdict unchanged; band thresholds scale with `k`. -/
theorem ell_isDominated_scale (W : Mat) (k : ℚ) (hk : 0 < k) (c1 : Vec) (S1 : Mat) (a1 : ℚ) (c2 : Vec)
    (S2 : Mat) (a2 : ℚ) (s : Vec) :
    Ellipsoid.isDominatedChecked W (smul k c1) (S1.map (smul (k * k))) a1 (smul k c2)
        (S2.map (smul (k * k))) a2 (smul k s) = Ellipsoid.isDominatedChecked W c1 S1 a1 c2 S2 a2 s ∧
    Ellipsoid.isDominatedChecked W (smul k c1) S1 (k * a1) (smul k c2) S2 (k * a2) (smul k s) =
        Ellipsoid.isDominatedChecked W c1 S1 a1 c2 S2 a2 s ∧
    ∀ (s' : Vec) (τ : ℚ),
      Ellipsoid.isDominatedTol W (smul k c1) (S1.map (smul (k * k))) a1 (smul k c2)
          (S2.map (smul (k * k))) a2 (smul k s') (k * τ) =
        Ellipsoid.isDominatedTol W c1 S1 a1 c2 S2 a2 s' τ := by
  refine ⟨?_, ?_, fun s' τ => ell_tol_scale_sigma W k hk c1 S1 a1 c2 S2 a2 s' τ⟩
  · unfold Ellipsoid.isDominatedChecked
    rw [ell_expandSlack_smul]
    cases Ellipsoid.expandSlack W.length s with
    | none => rfl
    | some s' =>
      have := ell_tol_scale_sigma W k hk c1 S1 a1 c2 S2 a2 s' 0
      simp only [mul_zero, scaleMat] at this
      simp [isDominated_eq_tol, this]
  · unfold Ellipsoid.isDominatedChecked
    rw [ell_expandSlack_smul]
    cases Ellipsoid.expandSlack W.length s with
    | none => rfl
    | some s' =>
      have := ell_tol_scale_alpha W k hk c1 S1 a1 c2 S2 a2 s' 0
      simp only [mul_zero] at this
      simp [isDominated_eq_tol, this]

/-- **Ellipsoids: a cone row may be rescaled together with its slack entry.**  The ellipsoid slack is
per facet: multiplying row `n` of `W` and entry `n` of the slack by the same `D n > 0` leaves the
verdict unchanged (so non-unit rows with the matching slack `ε·‖w_n‖` decide like unit rows with
`ε`). -/
theorem ell_isDominated_row_scale (W : Mat) (D s : Vec) (hD : ∀ d ∈ D, 0 < d) (hlen : D.length = W.length)
    (hs : s.length = W.length) (c1 : Vec) (S1 : Mat) (a1 : ℚ) (c2 : Vec) (S2 : Mat) (a2 : ℚ) :
    Ellipsoid.isDominatedChecked (List.zipWith smul D W) c1 S1 a1 c2 S2 a2 (List.zipWith (· * ·) D s) =
      Ellipsoid.isDominatedChecked W c1 S1 a1 c2 S2 a2 s := by
  have guard : ∀ (N : Nat) (v : Vec), v.length = N → Ellipsoid.expandSlack N v = some v := by
    intro N v hv
    unfold Ellipsoid.expandSlack
    match v, hv with
    | [x], hv => simp at hv; subst hv; simp
    | [], hv => simp [hv]
    | _ :: _ :: _, hv => simp [hv]
  unfold Ellipsoid.isDominatedChecked
  rw [guard _ _ (by simp [hlen, hs]), guard _ _ hs]
  simp only [Option.map_some, Option.some.injEq]
  exact ell_scaleRows D W hD hlen c1 S1 a1 c2 S2 a2 s

/-- **Ellipsoids: the facets may be re-ordered** (rows and their slack entries permuted alike). -/
theorem ell_isDominated_row_perm (ws ws' : List (Vec × ℚ)) (h : ws.Perm ws') (c1 : Vec) (S1 : Mat)
    (a1 : ℚ) (c2 : Vec) (S2 : Mat) (a2 : ℚ) :
    Ellipsoid.isDominated (ws.map Prod.fst) c1 S1 a1 c2 S2 a2 (ws.map Prod.snd) =
      Ellipsoid.isDominated (ws'.map Prod.fst) c1 S1 a1 c2 S2 a2 (ws'.map Prod.snd) :=
  ell_perm h c1 S1 a1 c2 S2 a2

/-- non-vacuity, large offset and tiny gap: `[0,1]²` against `[1 + 2⁻²⁰, 2]²` is dominated with
slack 0 and stays so after a translation by `(2²⁰, −2²⁰)`; with the gap reversed (`1 − 2⁻²⁰`) it is
not, before and after -/
example :
    Rect.isDominatedChecked [[1, 0], [0, 1]] [0, 0] [1, 1] [1 + 1 / 1048576, 1 + 1 / 1048576] [2, 2] [0] = some true ∧
    Rect.isDominatedChecked [[1, 0], [0, 1]] (vadd [0, 0] [1048576, -1048576]) (vadd [1, 1] [1048576, -1048576])
      (vadd [1 + 1 / 1048576, 1 + 1 / 1048576] [1048576, -1048576]) (vadd [2, 2] [1048576, -1048576]) [0] = some true ∧
    Rect.isDominatedChecked [[1, 0], [0, 1]] [0, 0] [1, 1] [1 - 1 / 1048576, 1] [2, 2] [0] = some false ∧
    Rect.isDominatedChecked [[1, 0], [0, 1]] (vadd [0, 0] [1048576, -1048576]) (vadd [1, 1] [1048576, -1048576])
      (vadd [1 - 1 / 1048576, 1] [1048576, -1048576]) (vadd [2, 2] [1048576, -1048576]) [0] = some false := by
  decide +kernel

/-- … and for ellipsoids: unit balls with centres `3 + 2⁻²⁰` apart on the first axis
(`3 + 2⁻²⁰ − 1 − 2 ≥ 0`), before and after the offset; radius 2 replaced by `2 + 2⁻¹⁹` flips it -/
example :
    Ellipsoid.isDominatedChecked [[1, 0]] [0, 0] [[1, 0], [0, 1]] 1 [3 + 1 / 1048576, 0] [[1, 0], [0, 1]] 2 [0] = some true ∧
    Ellipsoid.isDominatedChecked [[1, 0]] (vadd [0, 0] [1048576, 7]) [[1, 0], [0, 1]] 1
      (vadd [3 + 1 / 1048576, 0] [1048576, 7]) [[1, 0], [0, 1]] 2 [0] = some true ∧
    Ellipsoid.isDominatedChecked [[1, 0]] (vadd [0, 0] [1048576, 7]) [[1, 0], [0, 1]] 1
      (vadd [3 + 1 / 1048576, 0] [1048576, 7]) [[1, 0], [0, 1]] (2 + 1 / 524288) [0] = some false := by
  decide +kernel

end Invariance

end VOPy.C09
