import VOPyVerif.Proofs.NaiveModel
import VOPyVerif.Proofs.NaiveCompose
import VOPyVerif.Props.C13
/-!
# C08 — NaiveElimination with its default sample count is (ε, δ)-PAC; its reported P is always the
exact Pareto set of the per-design means of all observations so far

Property theorems only.  They are about the definitions of `Model/Naive.lean` the driver executes:
the run state machine `init/step/runSteps/State.P`, `rowMeans`, `naiveP` (the shared `Pareto.fast`
under `dominates W`), and the formula terms `coneBeta`, `naiveC`, `naiveLreal`, `naiveLcode`
(what the constructor computes), `naiveLprop` (what the property's mechanism states: σ is the noise
standard deviation) instantiated at `ℝ`.

Definitions used in the statements (in `Proofs/NaiveDet.lean`, `Proofs/NaiveCompose.lean`):
* `GapExceeds W mu K i ε` — some design `j < K` has `m(i,j) > ε`: `∃ s > ε, ∀ u ∈ C, ‖u‖ ≤ 1 →
  μ_j − μ_i − s·u ∈ C` (the paper's gap; `Δ_i = max_j m(i,j)` is what `vopy.utils.get_delta`
  computes, so `Δ_i > ε` implies `GapExceeds`);
* `Covered W ε x y` — `∃ z ∈ C, ‖z‖ ≤ ε, y + z − x ∈ C`: the feasibility problem of
  `vopy.utils.is_covered(x, y, ε, W)`;
* `Accurate W mu K ε P` — every `i ∈ P` is a valid index whose gap does not exceed `ε`, and every
  design `i < K` (in particular every Pareto-optimal one) is `ε`-covered by some member of `P`.
-/
open MeasureTheory ProbabilityTheory
open scoped NNReal

namespace VOPy.C08
open VOPy VOPy.Naive

/-- **State of a run after any history.**  Feed `run_one_step` any list `news` of observation
matrices (`K` rows each), starting from the constructor's state: exactly the first `L` matrices are
consumed (calls after completion change nothing), `round` is their number, `sample_count = K·round`,
the tensor has `K` rows and row `i` lists the `i`-th rows of the consumed matrices in order. -/
theorem run_state (K L : Nat) (news : List (List Vec)) (hshape : ∀ new ∈ news, new.length = K) :
    let s := runSteps (init K L) news
    s.L = L ∧ s.K = K ∧ s.round = (news.take L).length ∧ s.sampleCount = K * (news.take L).length ∧
    s.samples.length = K ∧
    ∀ i, i < K → s.samples[i]? = some ((news.take L).filterMap (·[i]?)) :=
  run_init K L news hshape

/-- the call that reaches round `L` returns `True`, earlier calls `False`, later calls `True` without
touching the state -/
theorem step_done (s : State) (new : List Vec) :
    (step s new).2 = true ↔ (s.round = s.L ∨ s.round + 1 = s.L) := by
  unfold step
  by_cases h : s.round = s.L
  · simp [h]
  · simp [h]

/-- **P is the exact Pareto set of the per-design arithmetic means of all observations so far.**
For every cone matrix `W`, every `K`, `L`, `m` and every history `news` of `K × m` observation
matrices with at least one consumed: the model's `P` is `Pareto.fast (dominates W)` of
`rowMeans samples`; mean `i`, coordinate `c` is the sum over all consumed rounds of observation
`(i, c)` divided by the number of rounds; and hence (C13, `dominates_fast_spec`) `P` consists of
valid, strictly increasing indices of pairwise non-dominating means, every design's mean is
dominated by the mean of a member of `P`, and no member's mean is strictly dominated. -/
theorem naive_P_is_pareto_of_means (W : Mat) (K L m : Nat) (news : List (List Vec))
    (hshape : ∀ new ∈ news, new.length = K ∧ ∀ o ∈ new, o.length = m)
    (hpos : 0 < (news.take L).length) :
    let s := runSteps (init K L) news
    let means := rowMeans s.samples
    let idx := s.P W
    idx = Pareto.fast (dominates W) means ∧
    means.length = K ∧
    (∀ i c, i < K → c < m → ∃ mean, means[i]? = some mean ∧
      mean[c]? = some ((((news.take L).filterMap (·[i]?)).map (fun o => o[c]?.getD 0)).sum
                        / ((news.take L).length : Rat))) ∧
    (∀ i ∈ idx, i < K) ∧
    idx.Pairwise (· < ·) ∧
    (∀ i ∈ idx, ∀ j ∈ idx, i ≠ j → ∀ a b, means[i]? = some a → means[j]? = some b →
      dominates W a b = false) ∧
    (∀ x ∈ means, ∃ i ∈ idx, ∃ a, means[i]? = some a ∧ dominates W a x = true) ∧
    (∀ i ∈ idx, ∀ a, means[i]? = some a → ∀ x ∈ means, dominates W x a = true →
      dominates W a x = true) := by
  intro s means idx
  have hfacts : s.round = (news.take L).length ∧ s.samples.length = K ∧
      ∀ i, i < K → s.samples[i]? = some ((news.take L).filterMap (·[i]?)) := by
    obtain ⟨-, -, h1, -, h2, h3⟩ := run_init K L news (fun n hn => (hshape n hn).1)
    exact ⟨h1, h2, h3⟩
  obtain ⟨hround, hlenS, hrows⟩ := hfacts
  have hP : idx = Pareto.fast (dominates W) means := by
    show s.P W = _
    have : s.round ≠ 0 := by rw [hround]; exact Nat.ne_of_gt hpos
    simp [State.P, naiveP, this, means]
  have hmlen : means.length = K := by
    show (s.samples.map rowMean).length = K
    rw [List.length_map]; exact hlenS
  -- facts about row i
  have hrow : ∀ i, i < K →
      ((news.take L).filterMap (·[i]?)).length = (news.take L).length ∧
      ∀ o ∈ (news.take L).filterMap (·[i]?), o.length = m := by
    intro i hi
    have h1 : ∀ new ∈ news.take L, i < new.length := by
      intro new hn; rw [(hshape new (List.mem_of_mem_take hn)).1]; exact hi
    obtain ⟨hl, hmem⟩ := filterMap_row i (news.take L) h1
    refine ⟨hl, ?_⟩
    intro o ho
    obtain ⟨new, hn, hon⟩ := hmem o ho
    exact (hshape new (List.mem_of_mem_take hn)).2 o hon
  have hmean : ∀ i, i < K →
      means[i]? = some (rowMean ((news.take L).filterMap (·[i]?))) := by
    intro i hi
    show (s.samples.map rowMean)[i]? = _
    rw [List.getElem?_map, hrows i hi]; rfl
  have hlen : ∀ x ∈ means, x.length = m := by
    intro x hx
    obtain ⟨i, hi, hxi⟩ := List.getElem_of_mem hx
    rw [hmlen] at hi
    have := hmean i hi
    rw [List.getElem?_eq_getElem (by rw [hmlen]; exact hi), hxi] at this
    obtain ⟨hl, hall⟩ := hrow i hi
    rw [Option.some.inj this]
    apply rowMean_length m _ _ hall
    intro hnil
    rw [hnil, List.length_nil] at hl
    omega
  have hspec := C13.dominates_fast_spec W m means hlen
  rw [← hP, hmlen] at hspec
  refine ⟨hP, hmlen, ?_, hspec.1, hspec.2.1, hspec.2.2.1, hspec.2.2.2.1, hspec.2.2.2.2⟩
  intro i c hi hc
  obtain ⟨hl, hall⟩ := hrow i hi
  refine ⟨_, hmean i hi, ?_⟩
  have hne : (news.take L).filterMap (·[i]?) ≠ [] := by
    intro hnil; rw [hnil, List.length_nil] at hl; omega
  have := rowMean_getElem? _ c hne (fun o ho =>
    ⟨o[c]'(by rw [hall o ho]; exact hc), List.getElem?_eq_getElem (by rw [hall o ho]; exact hc)⟩)
  rw [this, hl]

/-- non-vacuity: three designs, two rounds consumed of three fed (`L = 2`), orthant cone -/
example :
    (runSteps (init 3 2) [[[1, 2], [0, 0], [5, 0]], [[3, 4], [0, 0], [5, 0]], [[9, 9], [9, 9], [9, 9]]]).P
      (identMat 2) = [0, 2] := by decide +kernel

/-- **Relation of `GapExceeds` to VOPy's `m(i,j)` formula.**  If `α₁, α₂` bound the facet
functionals on the unit ball of the cone (`α_n ≥ max{w_n·u | u ∈ C, ‖u‖ ≤ 1}`, which is how
`OrderingCone.alpha` is defined) and some design `j` has `w_n·(μ_j − μ_i) ≥ s·α_n` on both facets
for some `s > ε` — i.e. `m(i,j) = min_n max(0, w_n·(μ_j − μ_i))/α_n > ε`, the quantity
`get_smallmij`/`get_delta` compute — then `GapExceeds` holds.  So the designs the theorems exclude
include every design whose VOPy gap `Δ_i` exceeds `ε`. -/
theorem gapExceeds_of_facet_margins (W : Cone2) (mu : ℕ → ℝ × ℝ) (K i j : ℕ) (hj : j < K)
    (ε s α1 α2 : ℝ) (hs : ε < s) (hs0 : 0 ≤ s)
    (hα1 : ∀ u, W.mem u → nsq u ≤ 1 → W.f1 u ≤ α1) (hα2 : ∀ u, W.mem u → nsq u ≤ 1 → W.f2 u ≤ α2)
    (h1 : s * α1 ≤ W.f1 (mu j - mu i)) (h2 : s * α2 ≤ W.f2 (mu j - mu i)) :
    GapExceeds W mu K i ε := by
  refine ⟨j, hj, s, hs, ?_⟩
  intro u hu hun
  constructor
  · rw [W.f1_sub, W.f1_smul]
    have := mul_le_mul_of_nonneg_left (hα1 u hu hun) hs0
    linarith
  · rw [W.f2_sub, W.f2_smul]
    have := mul_le_mul_of_nonneg_left (hα2 u hu hun) hs0
    linarith

/-- **Deterministic accuracy, general 2 × 2 rational cone (the matrix the driver is given).**
`W = [[a1, a2], [c1, c2]]` with linearly independent rows; `B2 ≥ 1` and, when the cone is acute
(`w₁·w₂ < 0`), `B2 ≥ ‖w₁‖²‖w₂‖² / (‖w₁‖²‖w₂‖² − (w₁·w₂)²)` (`B2 = β²`).  If every rational sample
mean of the model is within `ρ` (Euclidean) of its true mean `mu i` and `β·2ρ ≤ ε`
(stated as `B2·4ρ² ≤ ε²`), then `naiveP W samples` — the executable definition — is accurate:
no member's gap exceeds `ε` and every design is `ε`-covered by a member. -/
theorem naive_deterministic_gram (a1 a2 c1 c2 : ℚ) (hdet : a1 * c2 - a2 * c1 ≠ 0)
    (B2 : ℝ) (hB1 : 1 ≤ B2)
    (hB : (coneOfRat a1 a2 c1 c2).g < 0 →
      (coneOfRat a1 a2 c1 c2).p * (coneOfRat a1 a2 c1 c2).q
        ≤ B2 * ((coneOfRat a1 a2 c1 c2).p * (coneOfRat a1 a2 c1 c2).q - (coneOfRat a1 a2 c1 c2).g ^ 2))
    (samples : List (List Vec)) (hlen : ∀ x ∈ rowMeans samples, x.length = 2)
    (mu : ℕ → ℝ × ℝ) (ε ρ : ℝ) (hε : 0 < ε) (hρ : B2 * (4 * ρ ^ 2) ≤ ε ^ 2)
    (hclose : ∀ i (h : i < (rowMeans samples).length),
      nsq (toR2 (rowMeans samples)[i] - mu i) ≤ ρ ^ 2) :
    Accurate (coneOfRat a1 a2 c1 c2) mu samples.length ε (naiveP [[a1, a2], [c1, c2]] samples) := by
  have hdetR : (coneOfRat a1 a2 c1 c2).det ≠ 0 := by
    simp only [Cone2.det, coneOfRat]
    exact_mod_cast hdet
  have hP : naiveP [[a1, a2], [c1, c2]] samples
      = Pareto.fast (coneOfRat a1 a2 c1 c2).domB ((rowMeans samples).map toR2) :=
    fast_rat_eq_real a1 a2 c1 c2 (rowMeans samples) hlen
  have hl : ((rowMeans samples).map toR2).length = samples.length := by simp [rowMeans]
  have := det_real (coneOfRat a1 a2 c1 c2) B2 (by linarith)
    (planar _ hdetR B2 hB1 hB) (exists_interior _ hdetR) ((rowMeans samples).map toR2) mu ε ρ hε hρ
    (by
      intro i hi
      rw [List.getElem_map]
      exact hclose i (by simpa using hi))
  rw [hP]
  rw [hl] at this
  exact this

/-- non-vacuity of `naive_deterministic_gram`: the acute integer cone `[[2,-1],[-1,2]]`
(`p = q = 5`, `g = -4`, `pq/(pq − g²) = 25/9`), `B2 = 25/9`, two designs. -/
example : Accurate (coneOfRat 2 (-1) (-1) 2) (fun i => if i = 0 then (0, 0) else (3, 3)) 2 1
    (naiveP [[2, -1], [-1, 2]] [[[0, 0]], [[3, 3]]]) := by
  have h := naive_deterministic_gram 2 (-1) (-1) 2 (by norm_num) (25 / 9) (by norm_num)
    (by intro _; simp only [Cone2.p, Cone2.q, Cone2.g, coneOfRat]; norm_num)
    [[[0, 0]], [[3, 3]]] (by decide +kernel)
    (fun i => if i = 0 then (0, 0) else (3, 3)) 1 0 (by norm_num) (by norm_num)
    (by
      intro i hi
      have hi' : i < 2 := by simpa [rowMeans] using hi
      have e : rowMeans [[[0, 0]], [[3, 3]]] = [[0, 0], [3, 3]] := by decide +kernel
      interval_cases i <;> simp [e, toR2, nsq])
  exact h

/-- **Deterministic accuracy for the θ-cone (the statement of the property's mechanism).**
2-D cone with rational unit facet normals `w₁ = (a1, a2)`, `w₂ = (c1, c2)`, `w₁·w₂ = −cos θ`,
`θ ∈ (0°, 180°)`, and `β = coneBeta θ` — the same term `ConeTheta2D.beta` is compared against
(`1/sin θ` for `θ < 90°`, else `1`).  If every sample mean of the model is within
`ρ ≤ ε/(2β)` of its true mean, the Pareto set of the sample means `naiveP W samples` contains no
design whose gap exceeds `ε` and `ε`-covers every design (so every truly Pareto-optimal one). -/
theorem naive_deterministic (a1 a2 c1 c2 : ℚ) (θdeg : ℝ)
    (hθ : ThetaCone (coneOfRat a1 a2 c1 c2) θdeg)
    (samples : List (List Vec)) (hlen : ∀ x ∈ rowMeans samples, x.length = 2)
    (mu : ℕ → ℝ × ℝ) (ε ρ : ℝ) (hε : 0 < ε) (hρ0 : 0 ≤ ρ) (hρ : ρ ≤ ε / (2 * coneBeta θdeg))
    (hclose : ∀ i (h : i < (rowMeans samples).length),
      nsq (toR2 (rowMeans samples)[i] - mu i) ≤ ρ ^ 2) :
    Accurate (coneOfRat a1 a2 c1 c2) mu samples.length ε (naiveP [[a1, a2], [c1, c2]] samples) := by
  have hP : naiveP [[a1, a2], [c1, c2]] samples
      = Pareto.fast (coneOfRat a1 a2 c1 c2).domB ((rowMeans samples).map toR2) :=
    fast_rat_eq_real a1 a2 c1 c2 (rowMeans samples) hlen
  have hl : ((rowMeans samples).map toR2).length = samples.length := by simp [rowMeans]
  have := det_theta (coneOfRat a1 a2 c1 c2) θdeg hθ ((rowMeans samples).map toR2) mu ε ρ hε hρ0 hρ
    (by
      intro i hi
      rw [List.getElem_map]
      exact hclose i (by simpa using hi))
  rw [hP]
  rw [hl] at this
  exact this

/-- non-vacuity of the θ-cone hypotheses: the orthant is the 90° cone (`−cos 90° = 0`) -/
example : ThetaCone (coneOfRat 1 0 0 1) 90 := by
  refine ⟨by norm_num, by norm_num, by simp [coneOfRat], by simp [coneOfRat], ?_⟩
  simp only [coneOfRat]
  have : (90 : ℝ) / 180 * Real.pi = Real.pi / 2 := by ring
  rw [this, Real.cos_pi_div_two]; simp

/-- **The constructor's pre-ceiling value is the property's multiplied by the noise variance.**
`NaiveElimination.__init__` evaluates the formula with `noise_var` where the standard deviation
`σ = √noise_var` belongs; therefore it asks for `noise_var` times the samples the property's
mechanism states — fewer whenever the variance is below 1 (suspected defect D1). -/
theorem naive_code_formula_scales_with_variance (nv β ε δ : ℝ) (hnv : 0 ≤ nv) (m K : ℕ) :
    naiveLreal (naiveC : ℝ) nv β ε δ m K
      = nv * naiveLreal (naiveC : ℝ) (RealLike.sqrt nv) β ε δ m K := by
  rw [naiveLreal_real, naiveLreal_real, RealLike.sqrt_real]
  have h : nv = √nv * √nv := (Real.mul_self_sqrt hnv).symm
  have : (naiveC * nv * β / ε) ^ 2 = nv * (naiveC * √nv * β / ε) ^ 2 := by
    rw [div_pow, div_pow, mul_pow, mul_pow, mul_pow, mul_pow, Real.sq_sqrt hnv]; ring
  rw [this]; ring

/-- **PAC, probabilistic half, with the property's sample count.**  `K ≥ 2` designs, `m = 2`
objectives, noise coordinates i.i.d. `N(0, noise_var)` (a product Gaussian measure indexed by
design × round × objective), `θ ∈ (0°, 180°)`, `0 < δ ≤ 1`, `ε > 0`.  If the number of rounds `L`
is at least `naiveLprop = ⌈4 (cσβ/ε)² log(4·2 / (2δ/(K(K−1))))⌉` with `c = 1 + √2`,
`σ = √noise_var` (the STANDARD DEVIATION) and `β = coneBeta θ`, then the probability that some
design's sample mean deviates from its true mean by more than `ε/(2β)` in Euclidean norm is at
most `δ`. -/
theorem naive_pac (K : ℕ) (hK : 2 ≤ K) (nv : ℝ≥0) (hnv : nv ≠ 0) (ε δ θdeg : ℝ)
    (hε : 0 < ε) (hδ : 0 < δ) (hδ1 : δ ≤ 1) (hθ0 : 0 < θdeg) (hθ1 : θdeg < 180)
    (L : ℕ) (hL : naiveLprop (nv : ℝ) ε δ θdeg 2 K ≤ L) :
    (noiseMeasure (NoiseIdx K L) nv).real
        {ξ | ∃ i : Fin K, (ε / (2 * coneBeta θdeg)) ^ 2 < ∑ c : Fin 2, (dev ξ i c) ^ 2} ≤ δ := by
  have hnv0 : (0 : ℝ) < nv := by
    have : (0 : ℝ≥0) < nv := pos_iff_ne_zero.mpr hnv
    exact_mod_cast this
  have hσ : 0 < √(nv : ℝ) := Real.sqrt_pos.mpr hnv0
  have hβ : (0 : ℝ) < coneBeta θdeg := by
    have := coneBeta_ge_one θdeg hθ0 hθ1; linarith
  have hLr : naiveLreal (naiveC : ℝ) (√(nv : ℝ)) (coneBeta θdeg) ε δ 2 K ≤ (L : ℝ) := by
    have h1 : naiveLreal (naiveC : ℝ) (√(nv : ℝ)) (coneBeta θdeg) ε δ 2 K
        ≤ ((naiveLprop (nv : ℝ) ε δ θdeg 2 K : ℕ) : ℝ) := by
      simp only [naiveLprop, CeilNat.ceilNat, RealLike.sqrt_real]
      exact Nat.le_ceil _
    exact le_trans h1 (by exact_mod_cast hL)
  have hLpos : 0 < L := by
    have := naiveLreal_pos K hK _ _ ε δ hσ hβ hε hδ hδ1
    have h2 : (0 : ℝ) < L := lt_of_lt_of_le this hLr
    exact_mod_cast h2
  have hb := dev_event_bound K L hLpos nv hnv (ε / (2 * coneBeta θdeg))
  have ha := pac_arith K hK _ _ ε δ hσ hβ hε hδ hδ1 (L : ℝ) hLr
  rw [Real.sq_sqrt hnv0.le] at ha
  exact le_trans hb ha

/-- non-vacuity of `naive_pac`: variance 1/100 (σ = 1/10), ε = 1/10, δ = 1/20, θ = 90°, K = 3, and `L`
the property's count itself -/
example :
    (noiseMeasure (NoiseIdx 3 (naiveLprop (((1 / 100 : ℝ≥0)) : ℝ) (1 / 10) (1 / 20) 90 2 3)) (1 / 100)).real
        {ξ | ∃ i : Fin 3, ((1 / 10 : ℝ) / (2 * coneBeta (90 : ℝ))) ^ 2 < ∑ c : Fin 2, (dev ξ i c) ^ 2}
      ≤ 1 / 20 :=
  naive_pac 3 (by norm_num) (1 / 100) (by norm_num) (1 / 10) (1 / 20) 90 (by norm_num) (by norm_num)
    (by norm_num) (by norm_num) (by norm_num) _ le_rfl

/-- **(ε, δ)-PAC for the θ-cone with the property's sample count (composition, over `ℝ`).**
True means `mu`, observations `mu i + ξ(i, t, ·)` with i.i.d. `N(0, noise_var)` noise, `L ≥
naiveLprop` rounds, a 2-D cone with unit normals at angle `θ`: the probability that the Pareto set
(shared `Pareto.fast` loop, real cone order) of the `K` sample means is NOT accurate — contains a
design whose gap exceeds `ε`, or fails to `ε`-cover some design — is at most `δ`. -/
theorem naive_pac_accuracy (W : Cone2) (θdeg : ℝ) (hW : ThetaCone W θdeg)
    (K : ℕ) (hK : 2 ≤ K) (nv : ℝ≥0) (hnv : nv ≠ 0) (ε δ : ℝ)
    (hε : 0 < ε) (hδ : 0 < δ) (hδ1 : δ ≤ 1)
    (L : ℕ) (hL : naiveLprop (nv : ℝ) ε δ θdeg 2 K ≤ L) (mu : ℕ → ℝ × ℝ) :
    (noiseMeasure (NoiseIdx K L) nv).real
        {ξ | ¬ Accurate W mu K ε (Pareto.fast W.domB (sampleMeansR mu ξ))} ≤ δ := by
  have hpac := naive_pac K hK nv hnv ε δ θdeg hε hδ hδ1 hW.pos hW.lt L hL
  refine le_trans (measureReal_mono ?_) hpac
  intro ξ hξ
  simp only [Set.mem_ofPred_eq] at hξ ⊢
  by_contra hcon
  push Not at hcon
  apply hξ
  -- L > 0 (otherwise the sample count bound fails)
  have hnv0 : (0 : ℝ) < nv := by
    have : (0 : ℝ≥0) < nv := pos_iff_ne_zero.mpr hnv
    exact_mod_cast this
  have hβ : (0 : ℝ) < coneBeta θdeg := by
    have := coneBeta_ge_one θdeg hW.pos hW.lt; linarith
  have hLpos : 0 < L := by
    have h0 := naiveLreal_pos K hK _ _ ε δ (Real.sqrt_pos.mpr hnv0) hβ hε hδ hδ1
    have h1 : naiveLreal (naiveC : ℝ) (√(nv : ℝ)) (coneBeta θdeg) ε δ 2 K
        ≤ ((naiveLprop (nv : ℝ) ε δ θdeg 2 K : ℕ) : ℝ) := by
      simp only [naiveLprop, CeilNat.ceilNat, RealLike.sqrt_real]
      exact Nat.le_ceil _
    have h2 : (0 : ℝ) < L := lt_of_lt_of_le h0 (le_trans h1 (by exact_mod_cast hL))
    exact_mod_cast h2
  have hacc := det_theta W θdeg hW (sampleMeansR mu ξ) mu ε (ε / (2 * coneBeta θdeg)) hε
    (by positivity) (le_refl _)
    (by
      intro i hi
      rw [sampleMeansR_dev hLpos mu ξ i hi]
      exact hcon _)
  rwa [sampleMeansR_length] at hacc

/-- non-vacuity of `naive_pac_accuracy`: the orthant (90° cone), three designs -/
example (mu : ℕ → ℝ × ℝ) :
    (noiseMeasure (NoiseIdx 3 (naiveLprop (((1 / 100 : ℝ≥0)) : ℝ) (1 / 10) (1 / 20) 90 2 3)) (1 / 100)).real
        {ξ | ¬ Accurate ⟨1, 0, 0, 1⟩ mu 3 (1 / 10)
              (Pareto.fast (Cone2.domB ⟨1, 0, 0, 1⟩) (sampleMeansR mu ξ))} ≤ 1 / 20 := by
  refine naive_pac_accuracy ⟨1, 0, 0, 1⟩ 90 ⟨by norm_num, by norm_num, by norm_num, by norm_num, ?_⟩
    3 (by norm_num) (1 / 100) (by norm_num) (1 / 10) (1 / 20) (by norm_num) (by norm_num) (by norm_num)
    _ le_rfl mu
  have : (90 : ℝ) / 180 * Real.pi = Real.pi / 2 := by ring
  rw [this, Real.cos_pi_div_two]; simp

/-- **Where the constructor's own count suffices.**  For noise variance `≥ 1` the code's default
`L` (`naiveLcode`, variance in place of σ) is at least the property's `naiveLprop`, so the PAC
bound holds for the code as written; for variance `< 1` it is smaller by the factor `noise_var`
(`naive_code_formula_scales_with_variance`) and the harness exhibits failing inputs. -/
theorem naive_code_count_suffices_of_var_ge_one (K : ℕ) (hK : 2 ≤ K) (nv ε δ θdeg : ℝ)
    (hnv : 1 ≤ nv) (hε : 0 < ε) (hδ : 0 < δ) (hδ1 : δ ≤ 1) (hθ0 : 0 < θdeg) (hθ1 : θdeg < 180) :
    naiveLprop nv ε δ θdeg 2 K ≤ naiveLcode nv ε δ θdeg 2 K := by
  simp only [naiveLprop, naiveLcode, CeilNat.ceilNat]
  apply Nat.ceil_le_ceil
  rw [naive_code_formula_scales_with_variance nv _ ε δ (by linarith) 2 K]
  have hβ : (0 : ℝ) < coneBeta θdeg := by
    have := coneBeta_ge_one θdeg hθ0 hθ1; linarith
  have hpos := naiveLreal_pos K hK (√nv) (coneBeta θdeg) ε δ
    (Real.sqrt_pos.mpr (by linarith)) hβ hε hδ hδ1
  rw [RealLike.sqrt_real]
  nlinarith

/-! ### monotonicity of the required sample count -/

/-- **A stricter request never needs fewer samples.**  The real number handed to `np.ceil` is antitone in
the accuracy `ε` and in the confidence parameter `δ`: for `0 < ε' ≤ ε`, `0 < δ' ≤ δ ≤ 1`, `K ≥ 2`,
`m ≥ 1`, the value for `(ε', δ')` is at least the value for `(ε, δ)` (any `c, s, β`).  Together with the
monotonicity of `ceil` the default `L` can only grow when `ε` or `δ` shrinks. -/
theorem naiveLreal_antitone (c s β ε ε' δ δ' : ℝ) (m K : ℕ) (hK : 2 ≤ K) (hm : 1 ≤ m)
    (hε' : 0 < ε') (hε : ε' ≤ ε) (hδ' : 0 < δ') (hδ : δ' ≤ δ) (hδ1 : δ ≤ 1) :
    naiveLreal c s β ε δ m K ≤ naiveLreal c s β ε' δ' m K := by
  rw [naiveLreal_real, naiveLreal_real]
  have hε0 : 0 < ε := lt_of_lt_of_le hε' hε
  have hδ0 : 0 < δ := lt_of_lt_of_le hδ' hδ
  have hKK : (2 : ℝ) ≤ ((K * (K - 1) : ℕ) : ℝ) := by
    have : 2 ≤ K * (K - 1) := by
      have h1 : 1 ≤ K - 1 := by omega
      calc 2 = 2 * 1 := by norm_num
        _ ≤ K * (K - 1) := Nat.mul_le_mul hK h1
    exact_mod_cast this
  have hKpos : (0 : ℝ) < ((K * (K - 1) : ℕ) : ℝ) := by linarith
  have hm4 : (4 : ℝ) ≤ ((4 * m : ℕ) : ℝ) := by
    have : 4 ≤ 4 * m := by omega
    exact_mod_cast this
  -- the argument of the logarithm is ≥ 1 and grows when δ shrinks
  have harg : ∀ d : ℝ, 0 < d → d ≤ 1 → 1 ≤ ((4 * m : ℕ) : ℝ) / (2 * d / ((K * (K - 1) : ℕ) : ℝ)) := by
    intro d hd hd1
    have hden : 0 < 2 * d / ((K * (K - 1) : ℕ) : ℝ) := by positivity
    rw [le_div_iff₀ hden, one_mul, div_le_iff₀ hKpos]
    nlinarith
  have hmono : ((4 * m : ℕ) : ℝ) / (2 * δ / ((K * (K - 1) : ℕ) : ℝ))
      ≤ ((4 * m : ℕ) : ℝ) / (2 * δ' / ((K * (K - 1) : ℕ) : ℝ)) := by
    apply div_le_div_of_nonneg_left (by linarith) (by positivity)
    apply div_le_div_of_nonneg_right (by linarith) hKpos.le
  have hlog0 : 0 ≤ Real.log (((4 * m : ℕ) : ℝ) / (2 * δ / ((K * (K - 1) : ℕ) : ℝ))) :=
    Real.log_nonneg (harg δ hδ0 hδ1)
  have hlog : Real.log (((4 * m : ℕ) : ℝ) / (2 * δ / ((K * (K - 1) : ℕ) : ℝ)))
      ≤ Real.log (((4 * m : ℕ) : ℝ) / (2 * δ' / ((K * (K - 1) : ℕ) : ℝ))) :=
    Real.log_le_log (lt_of_lt_of_le one_pos (harg δ hδ0 hδ1)) hmono
  have hsq : (c * s * β / ε) ^ 2 ≤ (c * s * β / ε') ^ 2 := by
    rw [div_pow, div_pow]
    apply div_le_div_of_nonneg_left (sq_nonneg _) (by positivity)
    exact pow_le_pow_left₀ hε'.le hε 2
  have h4 : 0 ≤ 4 * (c * s * β / ε) ^ 2 := by positivity
  calc 4 * (c * s * β / ε) ^ 2 * Real.log (((4 * m : ℕ) : ℝ) / (2 * δ / ((K * (K - 1) : ℕ) : ℝ)))
      ≤ 4 * (c * s * β / ε) ^ 2 * Real.log (((4 * m : ℕ) : ℝ) / (2 * δ' / ((K * (K - 1) : ℕ) : ℝ))) :=
        mul_le_mul_of_nonneg_left hlog h4
    _ ≤ 4 * (c * s * β / ε') ^ 2 * Real.log (((4 * m : ℕ) : ℝ) / (2 * δ' / ((K * (K - 1) : ℕ) : ℝ))) := by
        apply mul_le_mul_of_nonneg_right _ (le_trans hlog0 hlog)
        linarith


/-- **The default sample count is a genuine count: at least one round.**  For `K ≥ 2` designs, `m ≥ 1`
objectives, `0 < δ ≤ 1` and positive `c, s, β, ε` the real number handed to `np.ceil` is strictly positive
(the argument of the logarithm is at least `4`), so the default `L = ⌈·⌉` is a positive integer: the run
samples every design at least once and `round == L` becomes true after finitely many steps.  (A
reformulation of the logarithm's argument that can reach 0 or a negative value — `log(2mK(K−1)/δ)` at
`K = 1` — has no such bound: `ceil(-inf).astype(int)` is −2⁶³ and the run never completes.) -/
theorem naiveLreal_pos (c s β ε δ : ℝ) (m K : ℕ) (hK : 2 ≤ K) (hm : 1 ≤ m)
    (hc : 0 < c) (hs : 0 < s) (hβ : 0 < β) (hε : 0 < ε) (hδ : 0 < δ) (hδ1 : δ ≤ 1) :
    0 < naiveLreal c s β ε δ m K := by
  rw [naiveLreal_real]
  have hKK : (2 : ℝ) ≤ ((K * (K - 1) : ℕ) : ℝ) := by
    have : 2 ≤ K * (K - 1) := by
      have h1 : 1 ≤ K - 1 := by omega
      calc 2 = 2 * 1 := by norm_num
        _ ≤ K * (K - 1) := Nat.mul_le_mul hK h1
    exact_mod_cast this
  have hKpos : (0 : ℝ) < ((K * (K - 1) : ℕ) : ℝ) := by linarith
  have hm4 : (4 : ℝ) ≤ ((4 * m : ℕ) : ℝ) := by
    have : 4 ≤ 4 * m := by omega
    exact_mod_cast this
  have harg : (4 : ℝ) ≤ ((4 * m : ℕ) : ℝ) / (2 * δ / ((K * (K - 1) : ℕ) : ℝ)) := by
    have hden : 0 < 2 * δ / ((K * (K - 1) : ℕ) : ℝ) := by positivity
    rw [le_div_iff₀ hden]
    have h2 : 2 * δ / ((K * (K - 1) : ℕ) : ℝ) ≤ 1 := by
      rw [div_le_one hKpos]; linarith
    nlinarith
  have hlog : 0 < Real.log (((4 * m : ℕ) : ℝ) / (2 * δ / ((K * (K - 1) : ℕ) : ℝ))) :=
    Real.log_pos (by linarith)
  have hsq : 0 < 4 * (c * s * β / ε) ^ 2 := by positivity
  exact mul_pos hsq hlog

/-- non-vacuity: K = 2, m = 2, δ = 1/10, c = s = β = ε = 1 -/
example : 0 < naiveLreal (1 : ℝ) 1 1 1 (1/10) 2 2 :=
  naiveLreal_pos 1 1 1 1 (1/10) 2 2 (by norm_num) (by norm_num) one_pos one_pos one_pos one_pos
    (by norm_num) (by norm_num)


end VOPy.C08
