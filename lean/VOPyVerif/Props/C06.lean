import VOPyVerif.Proofs.RunSpec
import VOPyVerif.Proofs.RunAD
import VOPyVerif.Proofs.RunCover
/-!
# C06 — runs are monotone, terminate cleanly, and account for every sample

Property theorems only (helper lemmas: `Proofs/RunSets.lean`, `RunStep.lean`, `RunInv.lean`,
`RunSpec.lean`).  They are about the executable state machine `Run.step` / `Run.run`
(`Model/Run.lean`, one family per algorithm class, mirrors `run_one_step()`), which the driver
replays on the recorded environment of every real run, and about the decidable relation
`Run.specOk` that the driver evaluates on the attributes of the real object before and after every
real call.

All statements quantify over **every** configuration `c`, **every** finite sequence of
environments (oracle answers of any geometry, any acquisition picks, any refinement answers) and —
through `run_append` — every prefix of every run.  `es₁ ++ es₂` reads "the run continued".

* invariants: `invariant_disjoint_useful`, `sets_within_designs`, `ad_sets_are_nodes`, `S_antitone`, `P_monotone`, `never_returns`,
  `ad_nodes_and_candidates`, `ad_never_returns`, `ad_P_modulo_children`,
  `ad_P_monotone_from_constructor`, `ad_P_monotone_modulo_children`
* termination flag: `done_iff_S_empty`, `done_iff_partial`, `done_iff_naive`,
  `done_iff_decoupled`, `done_is_fixpoint`, `finished_stays_finished`, `naive_terminates`
* counters: `round_step`, `round_counts_active_calls`, `accounting`, `requests_le_cap`,
  `requests_eq_cap_evalAll`, `batch_is_clamped_batch_size`
* relation (R): `specOk_step`, `specOk_sound_done`, `specOk_sound_active`, `specOk_sound_requests`,
  `specOk_sound_sets`, `specOk_sound_ad`
-/
namespace VOPy.C06
open VOPy VOPy.Steps VOPy.Run

/-! ### concrete instances used by the non-vacuity examples -/

/-- an environment in which every geometry test answers "covered", nothing else -/
def envQuiet : Env :=
  { isDom := fun _ _ => false, isCov := fun _ _ => true, pessDom := fun _ _ => false,
    centre := fun _ => [], width := fun _ => [], picks := [], refineTest := false, pareto := [] }

/-- PaVeBa on three designs -/
def cfgPaveba : Cfg :=
  { alg := .paveba, K := 3, m := 2, batch := 1, costs := none, budget := none, L := 0, eps := 0,
    maxDepth := 0, branch := 0 }

/-- round 1: design 0 is dominated by design 1; round 2: nobody is covered any more -/
def envsPaveba : List Env :=
  [{ envQuiet with isDom := fun i j => i == 0 && j == 1 },
   { envQuiet with isCov := fun _ _ => false },
   envQuiet]

/-- PaVeBaPartialGP, two designs, batch 2, costs (1, 1/2), budget 2 -/
def cfgPartial : Cfg :=
  { alg := .pavebaPartial, K := 2, m := 2, batch := 2, costs := some [1, 1/2], budget := some 2,
    L := 0, eps := 0, maxDepth := 0, branch := 0 }

def envsPartial : List Env :=
  [{ envQuiet with picks := [(0, 0), (1, 1)] }, { envQuiet with picks := [(0, 1), (1, 1), (0, 0)] },
   { envQuiet with picks := [(0, 0)] }]

/-- VOGP_AD over a one-dimensional domain (2 children per refinement), maximum depth 2 -/
def cfgAD : Cfg :=
  { alg := .vogpAD, K := 0, m := 2, batch := 1, costs := none, budget := none, L := 0, eps := 0,
    maxDepth := 2, branch := 2 }

/-- round 1: the root is refined; round 2: child 2 is sampled; round 3: nothing is covered → P -/
def envsAD : List Env :=
  [{ envQuiet with picks := [(0, 0)], refineTest := true },
   { envQuiet with picks := [(2, 0)], refineTest := true },
   { envQuiet with isCov := fun _ _ => false }]

/-- NaiveElimination with `L = 2` on three designs -/
def cfgNaive : Cfg :=
  { alg := .naive, K := 3, m := 2, batch := 1, costs := none, budget := none, L := 2, eps := 0,
    maxDepth := 0, branch := 0 }

/-! ### invariants -/

/-- **`S ∩ P = ∅` and `U ⊆ P` at every point of every run.**  For every elimination algorithm
(all but NaiveElimination and DecoupledGP), starting from the state the constructor leaves, after
any sequence of calls with any oracle answers / picks: `S` and `P` are duplicate free and disjoint,
and every useful design is a member of `P`. -/
theorem invariant_disjoint_useful (c : Cfg) (hel : c.alg.elim = true) (es : List Env) :
    (run c (init c) es).1.S.Nodup ∧ (run c (init c) es).1.P.Nodup ∧
    (∀ i ∈ (run c (init c) es).1.S, i ∉ (run c (init c) es).1.P) ∧
    (∀ i ∈ (run c (init c) es).1.U, i ∈ (run c (init c) es).1.P) :=
  let w := wf_run c (init c) es (wf_init c) hel
  ⟨w.nodupS, w.nodupP, w.disj, w.useful⟩

/-- **`S` and `P` only ever contain designs of the problem** (fixed-design elimination algorithms):
every index in `S ∪ P` at any point of any run from the constructor is below the number of
designs `K`. -/
theorem sets_within_designs (c : Cfg) (hel : c.alg.elim = true) (hne : c.alg ≠ .vogpAD)
    (es : List Env) :
    (∀ i ∈ (run c (init c) es).1.S, i < c.K) ∧ (∀ i ∈ (run c (init c) es).1.P, i < c.K) := by
  have T := run_trans c (init c) es (wf_init c) hel hne
  have hS : ∀ i ∈ (init c).S, i < c.K := by
    intro i hi
    unfold init at hi
    cases hc : c.alg <;> simp_all [Alg.elim]
  have hP : (init c).P = [] := rfl
  refine ⟨fun i hi => hS i (T.sub.subset hi), fun i hi => ?_⟩
  rcases T.from_ i hi with h | h
  · rw [hP] at h; cases h
  · exact hS i h

/-- **VOGP_AD: `S` and `P` only ever contain existing nodes** — every index in `S ∪ P` at any
point of any run from the constructor is below the number of nodes created so far. -/
theorem ad_sets_are_nodes (c : Cfg) (hc : c.alg = .vogpAD) (es : List Env) :
    ∀ i, i ∈ (run c (init c) es).1.S ∨ i ∈ (run c (init c) es).1.P →
      i < (run c (init c) es).1.depths.length :=
  (wf_run c (init c) es (wf_init c) (by simp [hc, Alg.elim])).bound hc

example : (run cfgPaveba (init cfgPaveba) envsPaveba).1.S = [] ∧
    (run cfgPaveba (init cfgPaveba) envsPaveba).1.P = [1, 2] ∧
    (run cfgPaveba (init cfgPaveba) (envsPaveba.take 1)).1.S = [1, 2] := by decide +kernel

/-- **`S` only shrinks** (fixed-design elimination algorithms: PaVeBa family, Auer, VOGP, ε-PAL).
From any well-formed state — in particular any state reached from the constructor — the
candidate list after the continued run `es₁ ++ es₂` is a sublist of the candidate list after the
prefix `es₁`. -/
theorem S_antitone (c : Cfg) (hel : c.alg.elim = true) (hne : c.alg ≠ .vogpAD) (s : State)
    (hw : WF c s) (es1 es2 : List Env) :
    (run c s (es1 ++ es2)).1.S.Sublist (run c s es1).1.S := by
  rw [run_append]
  exact (run_trans c _ es2 (wf_run c s es1 hw hel) hel hne).sub

/-- **`P` only grows, and only by former candidates** (fixed-design elimination algorithms):
every member of `P` after the prefix `es₁` is still a member after `es₁ ++ es₂`, and every member
after `es₁ ++ es₂` was a member of `P` or of `S` after `es₁`. -/
theorem P_monotone (c : Cfg) (hel : c.alg.elim = true) (hne : c.alg ≠ .vogpAD) (s : State)
    (hw : WF c s) (es1 es2 : List Env) :
    (∀ i ∈ (run c s es1).1.P, i ∈ (run c s (es1 ++ es2)).1.P) ∧
    (∀ i ∈ (run c s (es1 ++ es2)).1.P, i ∈ (run c s es1).1.P ∨ i ∈ (run c s es1).1.S) := by
  rw [run_append]
  have T := run_trans c _ es2 (wf_run c s es1 hw hel) hel hne
  exact ⟨T.keep, T.from_⟩

/-- **A design that left `S` never returns** (fixed-design elimination algorithms). -/
theorem never_returns (c : Cfg) (hel : c.alg.elim = true) (hne : c.alg ≠ .vogpAD) (s : State)
    (hw : WF c s) (es1 es2 : List Env) (i : Nat) (h : i ∉ (run c s es1).1.S) :
    i ∉ (run c s (es1 ++ es2)).1.S :=
  fun hi => h ((S_antitone c hel hne s hw es1 es2).subset hi)

example : WF cfgPaveba (init cfgPaveba) := wf_init _

/-- **VOGP_AD: nodes are never forgotten, and candidates are old candidates or new nodes.**
After `es₁ ++ es₂` the depth table extends the one after `es₁`, and every candidate is a candidate
after `es₁` or a node created later (index ≥ the number of nodes after `es₁`). -/
theorem ad_nodes_and_candidates (c : Cfg) (hc : c.alg = .vogpAD) (s : State) (hw : WF c s)
    (es1 es2 : List Env) :
    (∃ t, (run c s (es1 ++ es2)).1.depths = (run c s es1).1.depths ++ t) ∧
    (∀ i ∈ (run c s (es1 ++ es2)).1.S,
      i ∈ (run c s es1).1.S ∨ (run c s es1).1.depths.length ≤ i) := by
  have hel : c.alg.elim = true := by simp [hc, Alg.elim]
  rw [run_append]
  exact ad_run c _ es2 (wf_run c s es1 hw hel) hc

/-- **VOGP_AD: a node that left `S` never returns.**  An existing node (index below the number of
nodes after `es₁`) that is not a candidate after `es₁` is not a candidate after `es₁ ++ es₂`. -/
theorem ad_never_returns (c : Cfg) (hc : c.alg = .vogpAD) (s : State) (hw : WF c s)
    (es1 es2 : List Env) (i : Nat) (hi : i < (run c s es1).1.depths.length)
    (h : i ∉ (run c s es1).1.S) : i ∉ (run c s (es1 ++ es2)).1.S := by
  intro hin
  rcases (ad_nodes_and_candidates c hc s hw es1 es2).2 i hin with h1 | h1
  · exact h h1
  · omega

/-- **VOGP_AD: `P` grows up to replacing a refined node by its children.**  In one call on a
well-formed state every member `p` of `P` stays a member, or it is the node refined in this call,
it is not a candidate afterwards, and *all* its children (`branch` fresh nodes) are members of
`P`. -/
theorem ad_P_modulo_children (c : Cfg) (hc : c.alg = .vogpAD) (s : State) (hw : WF c s) (e : Env) :
    ∀ p ∈ s.P, p ∈ (step c s e).1.P ∨
      ((step c s e).2.refined = some p ∧ p ∉ (step c s e).1.S ∧
        ∀ k ∈ childIds c s.depths.length, k ∈ (step c s e).1.P) :=
  (ad_step c s e hw hc).2.2

/-- **VOGP_AD from the constructor: `P` only grows — literally — and only candidates are ever
refined.**  In every state reachable from the constructor all members of `P` sit at the maximum
depth (ε-covering is gated on all candidates having reached it), so the refinement test never fires
for them: members of `P` after the prefix `es₁` are members after `es₁ ++ es₂`, and no call of the
continuation refines a node that was in `P` after `es₁`. -/
theorem ad_P_monotone_from_constructor (c : Cfg) (hc : c.alg = .vogpAD) (es1 es2 : List Env) :
    (∀ p ∈ (run c (init c) es1).1.P, depthOf (run c (init c) es1).1 p = c.maxDepth) ∧
    (∀ p ∈ (run c (init c) es1).1.P, p ∈ (run c (init c) (es1 ++ es2)).1.P) ∧
    (∀ o ∈ (run c (run c (init c) es1).1 es2).2, ∀ d, o.refined = some d →
      d ∉ (run c (init c) es1).1.P) := by
  have hel : c.alg.elim = true := by simp [hc, Alg.elim]
  have I1 := (ad_run_inv c (init c) es1 hc (wf_init c) (adInv_init c)).1
  have hw1 := wf_run c (init c) es1 (wf_init c) hel
  obtain ⟨_, k, r⟩ := ad_run_inv c _ es2 hc hw1 I1
  rw [run_append]
  exact ⟨I1.pdepth, k, r⟩

/-- **VOGP_AD, whole runs: `P` is monotone up to replacing a refined node by its children**, stated
with the tree recorded in `State.parent`.  `Covers s p` = "`p ∈ P`, or `p` has been refined and every
child of `p` is covered".  From any well-formed state with a consistent tree (`TreeInv`: one parent
entry per node, refined nodes are in neither set — the constructor's state is one) every member of
`P` after the prefix `es₁` is covered after `es₁ ++ es₂`, whatever was refined in between. -/
theorem ad_P_monotone_modulo_children (c : Cfg) (hc : c.alg = .vogpAD) (hbr : 0 < c.branch)
    (s : State) (hw : WF c s) (ht : TreeInv s) (es1 es2 : List Env) :
    ∀ p ∈ (run c s es1).1.P, Covers (run c s (es1 ++ es2)).1 p := by
  have hel : c.alg.elim = true := by simp [hc, Alg.elim]
  intro p hp
  rw [run_append]
  obtain ⟨t1, _⟩ := cover_run c s es1 hc hbr hw ht
  exact (cover_run c _ es2 hc hbr (wf_run c s es1 hw hel) t1).2 p (Covers.here hp)

/-- a state in which a member of `P` is below the maximum depth (not reachable from the
constructor, reachable by assignment): root refined, child 1 a candidate, child 2 in `P` -/
def stForced : State :=
  { S := [1], P := [2], U := [], round := 1, sampleCount := 0, totalCost := 0, latch := false,
    depths := [1, 2, 2], parent := [0, 0, 0] }

example : WF { cfgAD with maxDepth := 3 } stForced ∧ TreeInv stForced := by
  refine ⟨⟨by decide, by decide, by decide, by decide, fun _ i hi => ?_, fun _ => rfl⟩,
    ⟨rfl, ?_⟩⟩
  · have : i = 1 ∨ i = 2 := by simpa [stForced] using hi
    rcases this with h | h <;> subst h <;> decide
  intro k p ⟨hlt, hk⟩
  have hk3 : k < 3 := by
    rcases Nat.lt_or_ge k 3 with h | h
    · exact h
    · have : stForced.parent[k]? = none := List.getElem?_eq_none h
      rw [this] at hk; cases hk
  have : p = 0 := by
    match k, hk3, hk with
    | 0, _, hk => exact (Option.some.inj hk).symm
    | 1, _, hk => exact (Option.some.inj hk).symm
    | 2, _, hk => exact (Option.some.inj hk).symm
  subst this
  decide

/-- in that state the member 2 of `P` is picked and refined: its children 3, 4 replace it in `P` -/
example :
    (step { cfgAD with maxDepth := 3 } stForced
      { envQuiet with picks := [(2, 0)], refineTest := true }).1.P = [3, 4] ∧
    (step { cfgAD with maxDepth := 3 } stForced
      { envQuiet with picks := [(2, 0)], refineTest := true }).2.refined = some 2 ∧
    (step { cfgAD with maxDepth := 3 } stForced
      { envQuiet with picks := [(2, 0)], refineTest := true }).1.parent = [0, 0, 0, 2, 2] := by
  decide +kernel

example : (run cfgAD (init cfgAD) envsAD).1.S = [] ∧ (run cfgAD (init cfgAD) envsAD).1.P = [1, 2] ∧
    (run cfgAD (init cfgAD) envsAD).1.depths = [1, 2, 2] ∧
    (run cfgAD (init cfgAD) envsAD).1.sampleCount = 1 ∧
    ((run cfgAD (init cfgAD) envsAD).2.map (·.refined)) = [some 0, none, none] := by decide +kernel

/-! ### the returned flag -/

/-- **PaVeBa, PaVeBaGP, Auer, VOGP, ε-PAL, VOGP_AD: a call reports completion exactly when no
candidates remain** in the state it leaves. -/
theorem done_iff_S_empty (c : Cfg) (hel : c.alg.elim = true) (hp : c.alg ≠ .pavebaPartial)
    (s : State) (e : Env) : (step c s e).2.done = true ↔ (step c s e).1.S = [] := by
  rw [step_done_flag]
  unfold isDone
  cases hc : c.alg <;> simp_all [Alg.elim, List.isEmpty_iff]

/-- **PaVeBaPartialGP: completion ⇔ no candidates remain or the cost budget is reached.** -/
theorem done_iff_partial (c : Cfg) (hc : c.alg = .pavebaPartial) (s : State) (e : Env) :
    (step c s e).2.done = true ↔
      ((step c s e).1.S = [] ∨ ∃ b, c.budget = some b ∧ b ≤ (step c s e).1.totalCost) := by
  rw [step_done_flag]
  unfold isDone budgetReached
  cases hb : c.budget <;> simp [hc, List.isEmpty_iff]

/-- **NaiveElimination: completion ⇔ the fixed number of sampling rounds is used up.** -/
theorem done_iff_naive (c : Cfg) (hc : c.alg = .naive) (s : State) (e : Env) :
    (step c s e).2.done = true ↔ (step c s e).1.round = c.L := by
  rw [step_done_flag]
  simp [isDone, hc]

/-- **DecoupledGP: completion ⇔ the cost budget is reached.** -/
theorem done_iff_decoupled (c : Cfg) (hc : c.alg = .decoupled) (s : State) (e : Env) :
    (step c s e).2.done = true ↔ ∃ b, c.budget = some b ∧ b ≤ (step c s e).1.totalCost := by
  rw [step_done_flag]
  unfold isDone budgetReached
  cases hb : c.budget <;> simp [hc]

example : ((run cfgPartial (init cfgPartial) envsPartial).2.map (·.done)) = [false, true, true] ∧
    (run cfgPartial (init cfgPartial) envsPartial).1.totalCost = 5/2 ∧
    (run cfgPartial (init cfgPartial) envsPartial).1.S = [0, 1] ∧
    (run cfgPartial (init cfgPartial) envsPartial).1.sampleCount = 4 := by decide +kernel

/-- **Steps after completion change nothing and take no samples.**  If the termination test holds
for a state, every call returns that very state, reports completion and requests no evaluation —
for any number of further calls. -/
theorem done_is_fixpoint (c : Cfg) (s : State) (h : isDone c s = true) (es : List Env) :
    run c s es = (s, List.replicate es.length doneOut) ∧ doneOut.req = [] ∧ doneOut.done = true :=
  ⟨run_of_done c s es h, rfl, rfl⟩

/-- **Once a call has reported completion, the run is frozen**: every later call (with whatever
environment) returns the same state and requests nothing. -/
theorem finished_stays_finished (c : Cfg) (s : State) (e : Env) (h : (step c s e).2.done = true)
    (es : List Env) :
    run c (step c s e).1 es = ((step c s e).1, List.replicate es.length doneOut) :=
  run_of_done c _ es (by rw [← step_done_flag]; exact h)

/-- **NaiveElimination terminates after exactly `L` rounds with `K·L` samples**: after `n` calls
from the constructor's state the round counter is `min L n`, the sample counter `K · min L n`, and
the `n`-th call reports completion iff `n ≥ L` (`n ≥ 1`). -/
theorem naive_terminates (c : Cfg) (hc : c.alg = .naive) (es : List Env) :
    (run c (init c) es).1.round = min c.L es.length ∧
    (run c (init c) es).1.sampleCount = c.K * min c.L es.length := by
  have h := naive_run c hc (init c) es (by simp [init])
  have h0 : (init c).round = 0 := rfl
  have h1 : (init c).sampleCount = 0 := rfl
  rw [h0, h1] at h
  simp only [Nat.zero_add, Nat.sub_zero] at h
  exact ⟨h.1, by rw [h.2, h.1]⟩

example : (run cfgNaive (init cfgNaive) [envQuiet, envQuiet, envQuiet]).1.sampleCount = 6 ∧
    ((run cfgNaive (init cfgNaive) [envQuiet, envQuiet, envQuiet]).2.map (·.done)) =
      [false, true, true] := by decide +kernel

/-! ### counters -/

/-- **The round counter advances by exactly one per active call and not at all afterwards.** -/
theorem round_step (c : Cfg) (s : State) (e : Env) :
    (step c s e).1.round = if isDone c s then s.round else s.round + 1 :=
  step_round c s e

/-- **Round counter = number of calls that found the run unfinished**, over every run prefix. -/
theorem round_counts_active_calls (c : Cfg) (es : List Env) :
    (run c (init c) es).1.round = activeCalls c (init c) es := by
  have := run_round c (init c) es
  have h0 : (init c).round = 0 := rfl
  rw [h0, Nat.zero_add] at this
  exact this

/-- **Every sample and every unit of cost is accounted for**: after any run prefix from the
constructor's state, `sample_count` is the number of evaluations requested from the problem so far
and `total_cost` is the sum of `costs[objective]` over these requests. -/
theorem accounting (c : Cfg) (es : List Env) :
    (run c (init c) es).1.sampleCount = (allReqs (run c (init c) es).2).length ∧
    (run c (init c) es).1.totalCost = reqsCost c (allReqs (run c (init c) es).2) := by
  obtain ⟨h1, h2⟩ := run_account c (init c) es
  have h0 : (init c).sampleCount = 0 := rfl
  have h3 : (init c).totalCost = 0 := rfl
  rw [h0, Nat.zero_add] at h1
  rw [h3, Rat.zero_add] at h2
  exact ⟨h1, h2⟩

/-- **A call never requests more than its batch**: the number of requested evaluations is at most
`Out.cap` — `|active|` for PaVeBa / Auer / NaiveElimination, `min(batch, |active|)` for the batched
algorithms (`min(batch, m·|active|)` (design, objective) pairs for the decoupled problems), `1` for
VOGP_AD, `0` once finished.  (The harness additionally demands *equality* from the implementation,
which is what a batch of size `batch_size` clamped to the active set means.) -/
theorem requests_le_cap (c : Cfg) (s : State) (e : Env) :
    (step c s e).2.req.length ≤ (step c s e).2.cap := by
  cases h : isDone c s
  · rw [step_of_not_done e h]; exact req_le_cap c s e
  · rw [step_of_done e h]; simp [doneOut]

/-- **PaVeBa, Auer, NaiveElimination sample every active design**: an active call requests exactly
`cap = |active|` evaluations. -/
theorem requests_eq_cap_evalAll (c : Cfg) (s : State) (e : Env) (h : c.alg.evalAll = true)
    (hd : isDone c s = false) : (step c s e).2.req.length = (step c s e).2.cap := by
  rw [step_of_not_done e hd]; exact req_eq_cap_evalAll c s e h

/-- **A batch is `batch_size` clamped to what the active set offers — no fewer.**  The two batch
selections of the model return exactly `min(batch, |active|)` (decoupled: `min(batch, m·|active|)`)
requests whenever the environment offers at least that many valid picks (designs of the active set,
objective indices `< m`), and all of the valid picks otherwise. -/
theorem batch_is_clamped_batch_size (c : Cfg) (act : List Nat) (picks : List (Nat × Nat)) :
    (cappedC c act picks).length =
      min (min c.batch act.length) (picks.filter (fun p => act.contains p.1)).length ∧
    (cappedD c act picks).length =
      min (min c.batch (c.m * act.length))
        (picks.filter (fun p => act.contains p.1 && decide (p.2 < c.m))).length :=
  ⟨cappedC_length c act picks, cappedD_length c act picks⟩

example : (run cfgPartial (init cfgPartial) envsPartial).2.map (·.cap) = [2, 2, 0] := by
  decide +kernel

example : allReqs (run cfgPartial (init cfgPartial) envsPartial).2 =
    [(0, some 0), (1, some 1), (0, some 1), (1, some 1)] := by decide +kernel

/-! ### relation (R) evaluated on the implementation -/

/-- **The model satisfies relation (R)**: on every well-formed state (every state reachable from
the constructor is one) and for every environment, what `Run.step` produces passes `Run.specOk` —
the relation the driver evaluates on the attributes of the real object before / after every real
`run_one_step()` call.  (`VOGP_AD` accepts `batch_size = 1` only.) -/
theorem specOk_step (c : Cfg) (s : State) (e : Env) (hw : WF c s)
    (hb : c.alg = .vogpAD → c.batch = 1) :
    specOk c s (step c s e).1 (step c s e).2 = true :=
  Run.specOk_step c s e hw hb

example : specOk cfgPaveba (init cfgPaveba) (step cfgPaveba (init cfgPaveba) envQuiet).1
    (step cfgPaveba (init cfgPaveba) envQuiet).2 = true := by decide +kernel
/-- the relation is not trivially true: a call that forgets to advance the round counter fails it -/
example : specOk cfgPaveba (init cfgPaveba)
    { (step cfgPaveba (init cfgPaveba) envQuiet).1 with round := 0 }
    (step cfgPaveba (init cfgPaveba) envQuiet).2 = false := by decide +kernel

/-- **Soundness of (R), finished run.**  If the termination test held before the call and
`specOk` accepts the observed call, then the call changed nothing (sets compared as sets), reported
completion and requested no evaluation. -/
theorem specOk_sound_done {c : Cfg} {s s' : State} {o : Out} (h : specOk c s s' o = true)
    (hd : isDone c s = true) :
    (∀ i, i ∈ s.S ↔ i ∈ s'.S) ∧ (∀ i, i ∈ s.P ↔ i ∈ s'.P) ∧ (∀ i, i ∈ s.U ↔ i ∈ s'.U) ∧
    s'.round = s.round ∧ s'.sampleCount = s.sampleCount ∧ s'.totalCost = s.totalCost ∧
    s'.latch = s.latch ∧ s'.depths = s.depths ∧ o.done = true ∧ o.req = [] ∧ o.refined = none :=
  Run.specOk_sound_done h hd

/-- **Soundness of (R), active call.**  If the run was unfinished and `specOk` accepts the observed
call: the round counter advanced by one, the sample counter by the number of requested
evaluations, the cost by their summed per-objective costs, the returned flag is the termination
test on the new state, and (elimination algorithms) `S ∩ P = ∅`, `U ⊆ P` afterwards. -/
theorem specOk_sound_active {c : Cfg} {s s' : State} {o : Out} (h : specOk c s s' o = true)
    (hd : isDone c s = false) :
    s'.round = s.round + 1 ∧ s'.sampleCount = s.sampleCount + o.req.length ∧
    s'.totalCost = s.totalCost + reqsCost c o.req ∧ o.done = isDone c s' ∧
    (c.alg.elim = true → (∀ i ∈ s'.S, i ∉ s'.P) ∧ (∀ i ∈ s'.U, i ∈ s'.P)) :=
  Run.specOk_sound_active h hd

/-- **Soundness of (R), requests.**  In an accepted active call every requested evaluation concerns
a design of the active set of that call (`A = S ∪ U` at the start for the PaVeBa family, `S` for
Auer, `W = S ∪ P` after the decision phases — and nothing at all once `S` is empty — for VOGP /
ε-PAL / VOGP_AD, all designs for NaiveElimination and DecoupledGP); PaVeBa, Auer and
NaiveElimination request every active design; the batched algorithms request at most `batch_size`
evaluations. -/
theorem specOk_sound_requests {c : Cfg} {s s' : State} {o : Out} (h : specOk c s s' o = true)
    (hd : isDone c s = false) :
    (∀ r ∈ o.req, r.1 ∈ activeAt c s s') ∧
    (c.alg.evalAll = true → o.req.length = (activeAt c s s').length ∧
      ∀ d ∈ activeAt c s s', ∃ r ∈ o.req, r.1 = d) ∧
    (c.alg.evalAll = false → o.req.length ≤ c.batch) :=
  Run.specOk_sound_requests h hd

/-- **Soundness of (R), set transitions of the fixed-design elimination algorithms**: accepted
calls shrink `S`, keep every member of `P`, and add to `P` only former candidates. -/
theorem specOk_sound_sets {c : Cfg} {s s' : State} {o : Out} (h : specOk c s s' o = true)
    (hd : isDone c s = false) (hel : c.alg.elim = true) (hne : c.alg ≠ .vogpAD) :
    (∀ i ∈ s'.S, i ∈ s.S) ∧ (∀ i ∈ s.P, i ∈ s'.P) ∧ (∀ i ∈ s'.P, i ∈ s.P ∨ i ∈ s.S) :=
  Run.specOk_sound_sets h hd hel hne

/-- **Soundness of (R), VOGP_AD**: accepted calls leave as candidates only old candidates or nodes
created in this call; a member of `P` stays unless it is the refined node, whose children are then
all in `P`; a refined node was below the maximum depth, is in neither set afterwards, and no
evaluation was requested in that call. -/
theorem specOk_sound_ad {c : Cfg} {s s' : State} {o : Out} (h : specOk c s s' o = true)
    (hd : isDone c s = false) (hc : c.alg = .vogpAD) :
    (∀ i ∈ s'.S, i ∈ s.S ∨ s.depths.length ≤ i) ∧
    (∀ p ∈ s.P, p ∈ s'.P ∨ (o.refined = some p ∧ ∀ k ∈ childIds c s.depths.length, k ∈ s'.P)) ∧
    (∀ d, o.refined = some d → d ∉ s'.S ∧ d ∉ s'.P ∧ depthOf s d < c.maxDepth ∧ o.req = []) :=
  Run.specOk_sound_ad h hd hc

end VOPy.C06
