import VOPyVerif.Proofs.StepsAuer
import VOPyVerif.Proofs.StepsCover
/-!
# C03 — a design enters P exactly when no active region can still ε-cover it; U; Auer's hold-back

Property theorems only, about the executable transitions of `Model/Steps.lean` that driver_c03
runs against the real `pareto_updating()` / `useful_updating()` / `epsiloncovering()`.  As in C02
everything is *parametric in the oracle* `isCov i j` ("region i can be ε-covered by region j with
the algorithm's slack"); C10 connects it to `∃z∈R_i ∃z'∈R_j : z' ≽ z ⊕ slack`.  For Auer the rule is
spelled out on centres and on each design's own width row, and the code's positional lookup is
related to it (equal when nothing was discarded in between, different in general — DESIGN §5 D2).
-/
namespace VOPy.C03
open VOPy VOPy.Steps

/-! ## PaVeBa, PaVeBaGP, PaVeBaPartialGP -/

/-- **P-entry ⇔ nothing can still ε-cover (PaVeBa family).**  `S` is the candidate set after
discarding.  A design is new in `P` exactly when it was a candidate and no *other* active design
`j ∈ A = S ∪ U` has a region that can still ε-cover its region. -/
theorem paveba_pareto_new_iff (isCov : Rel) (S P U : List Nat) (i : Nat) :
    (i ∈ (pavebaPareto isCov S P U).2 ∧ i ∉ P) ↔
      (i ∈ S ∧ i ∉ P ∧ ∀ j, (j ∈ S ∨ j ∈ U) → j ≠ i → isCov i j = false) := by
  simp only [pavebaPareto, mem_addAll, mem_pavebaNewPareto]
  constructor
  · rintro ⟨h | h, hp⟩
    · exact absurd h hp
    · exact ⟨h.1, hp, h.2⟩
  · rintro ⟨h1, hp, h2⟩; exact ⟨Or.inr ⟨h1, h2⟩, hp⟩

/-- **Members never leave P**: the old `P` is a prefix of the new one; the new `P` is a set. -/
theorem paveba_P_mono (isCov : Rel) (S P U : List Nat) :
    P <+: (pavebaPareto isCov S P U).2 ∧ (∀ x ∈ P, x ∈ (pavebaPareto isCov S P U).2) ∧
      (P.Nodup → (pavebaPareto isCov S P U).2.Nodup) :=
  ⟨addAll_prefix _ _, fun _ hx => (mem_addAll _ _).mpr (Or.inl hx), fun h => nodup_addAll _ h⟩

/-- **Remaining candidates**: a candidate stays in `S` exactly when some other active region can
still ε-cover it. -/
theorem paveba_pareto_S_iff (isCov : Rel) {S : List Nat} (P U : List Nat) (hS : S.Nodup) (i : Nat) :
    i ∈ (pavebaPareto isCov S P U).1 ↔
      (i ∈ S ∧ ∃ j, (j ∈ S ∨ j ∈ U) ∧ j ≠ i ∧ isCov i j = true) := by
  simp only [pavebaPareto]
  rw [mem_removeAll _ hS, mem_pavebaNewPareto]
  constructor
  · rintro ⟨h1, h2⟩
    refine ⟨h1, ?_⟩
    apply Classical.byContradiction
    intro h3
    apply h2
    refine ⟨h1, fun j hj hne => ?_⟩
    by_cases hc : isCov i j = true
    · exact absurd ⟨j, hj, hne, hc⟩ h3
    · simpa using hc
  · rintro ⟨h1, j, hj, hne, hc⟩
    refine ⟨h1, fun h => ?_⟩
    rw [h.2 j hj hne] at hc; exact absurd hc (by simp)

/-- **Closed form**: the literal loops equal the one-line specification (order preserved):
`S' = [i ∈ S | some other active region can cover i]`. -/
theorem paveba_pareto_eq_filter (isCov : Rel) {S : List Nat} (P U : List Nat) (hS : S.Nodup) :
    (pavebaPareto isCov S P U).1 =
      S.filter (fun i => anyOther (fun j => isCov i j) i (union S U)) := by
  simp only [pavebaPareto, pavebaNewPareto]
  rw [removeAll_filter hS]
  congr 1
  funext i
  simp

/-- Every candidate is accounted for: it either stays in `S` or is in the new `P`, never both
(given `S ∩ P = ∅`). -/
theorem paveba_pareto_partition (isCov : Rel) {S : List Nat} (P U : List Nat) (hS : S.Nodup)
    (hSP : ∀ x ∈ S, x ∉ P) (i : Nat) (hi : i ∈ S) :
    (i ∈ (pavebaPareto isCov S P U).1 ∧ i ∉ (pavebaPareto isCov S P U).2) ∨
      (i ∉ (pavebaPareto isCov S P U).1 ∧ i ∈ (pavebaPareto isCov S P U).2) := by
  simp only [pavebaPareto]
  rw [mem_removeAll _ hS, mem_addAll]
  by_cases h : i ∈ pavebaNewPareto isCov S U
  · exact Or.inr ⟨fun h' => h'.2 h, Or.inr h⟩
  · refine Or.inl ⟨⟨hi, h⟩, ?_⟩
    rintro (h' | h')
    · exact hSP i hi h'
    · exact h h'

/-- **Useful set.**  `U'` is exactly the set of members of `P` whose region can still ε-cover the
region of a remaining candidate (`isCov s p`: region `s` covered by region `p`). -/
theorem paveba_useful_iff (isCov : Rel) (S P : List Nat) (p : Nat) :
    p ∈ pavebaUseful isCov S P ↔ (p ∈ P ∧ ∃ s ∈ S, isCov s p = true) :=
  mem_pavebaUseful

/-- `U' ⊆ P` (sublist), so `U'` is a set when `P` is. -/
theorem paveba_useful_subset (isCov : Rel) (S P : List Nat) :
    (pavebaUseful isCov S P).Sublist P := List.filter_sublist

/-- **The property's wording (PaVeBa family).**  With regions `R i` and `cov z z'` = "`z'`
dominates `z` shifted by the ε-slack", the oracle deciding the ∃∃ statement (C10): a candidate
moves to `P` exactly when no other active design's region can still ε-cover its region — there
are no points `z ∈ R_i`, `z' ∈ R_j` with `cov z z'`. -/
theorem paveba_entry_semantic {α : Type} (R : Nat → α → Prop) (cov : α → α → Prop) (isCov : Rel)
    (hC10 : ∀ i j, isCov i j = true ↔ ∃ z, R i z ∧ ∃ z', R j z' ∧ cov z z')
    (S P U : List Nat) (i : Nat) :
    (i ∈ (pavebaPareto isCov S P U).2 ∧ i ∉ P) ↔
      (i ∈ S ∧ i ∉ P ∧ ∀ j, (j ∈ S ∨ j ∈ U) → j ≠ i →
        ¬ ∃ z, R i z ∧ ∃ z', R j z' ∧ cov z z') := by
  rw [paveba_pareto_new_iff]
  have h : ∀ j, isCov i j = false ↔ ¬ ∃ z, R i z ∧ ∃ z', R j z' ∧ cov z z' := by
    intro j; rw [← hC10 i j]; simp
  simp only [h]

/-- **The property's wording for `U`**: the useful designs are exactly the members of `P` whose
region can still ε-cover the region of a remaining candidate. -/
theorem paveba_useful_semantic {α : Type} (R : Nat → α → Prop) (cov : α → α → Prop) (isCov : Rel)
    (hC10 : ∀ i j, isCov i j = true ↔ ∃ z, R i z ∧ ∃ z', R j z' ∧ cov z z')
    (S P : List Nat) (p : Nat) :
    p ∈ pavebaUseful isCov S P ↔
      (p ∈ P ∧ ∃ s ∈ S, ∃ z, R s z ∧ ∃ z', R p z' ∧ cov z z') := by
  rw [paveba_useful_iff]
  simp only [hC10]

/-- **Whole round (PaVeBa family).**  After `discarding(); pareto_updating(); useful_updating()`:
a design is new in `P` iff it survived discarding and no other design of
`A' = S_afterDiscard ∪ U` can still ε-cover it; and `U'` is the set of members of the new `P`
that can still ε-cover a member of the new `S`. -/
theorem paveba_round_iff (isDom isCov : Rel) (S P U : List Nat) (i : Nat) :
    ((i ∈ (pavebaRound isDom isCov S P U).2.1 ∧ i ∉ P) ↔
      (i ∈ pavebaDiscard isDom S U ∧ i ∉ P ∧
        ∀ j, (j ∈ pavebaDiscard isDom S U ∨ j ∈ U) → j ≠ i → isCov i j = false)) ∧
    (i ∈ (pavebaRound isDom isCov S P U).2.2 ↔
      (i ∈ (pavebaRound isDom isCov S P U).2.1 ∧
        ∃ s ∈ (pavebaRound isDom isCov S P U).1, isCov s i = true)) := by
  constructor
  · exact paveba_pareto_new_iff isCov (pavebaDiscard isDom S U) P U i
  · simp only [pavebaRound]
    exact mem_pavebaUseful

/-- **Order independence (PaVeBa family)**: permuting the iteration orders of `S`, `P`, `U`
permutes the new `S`, the new `P` and the new `U`; their canonical forms coincide. -/
theorem paveba_pareto_perm (isCov : Rel) {S S₂ P P₂ U U₂ : List Nat} (hS : S.Nodup) (hP : P.Nodup)
    (h1 : S.Perm S₂) (h2 : P.Perm P₂) (h3 : U.Perm U₂) :
    sortNat (pavebaPareto isCov S P U).1 = sortNat (pavebaPareto isCov S₂ P₂ U₂).1 ∧
    sortNat (pavebaPareto isCov S P U).2 = sortNat (pavebaPareto isCov S₂ P₂ U₂).2 ∧
    sortNat (pavebaUseful isCov S P) = sortNat (pavebaUseful isCov S₂ P₂) := by
  have hS₂ : S₂.Nodup := (h1.nodup_iff).mp hS
  have hP₂ : P₂.Nodup := (h2.nodup_iff).mp hP
  refine ⟨?_, ?_, ?_⟩
  · have n1 : (pavebaPareto isCov S P U).1.Nodup := nodup_removeAll _ hS
    have n2 : (pavebaPareto isCov S₂ P₂ U₂).1.Nodup := nodup_removeAll _ hS₂
    refine sortNat_eq_of_mem_iff n1 n2 (fun x => ?_)
    rw [paveba_pareto_S_iff isCov P U hS, paveba_pareto_S_iff isCov P₂ U₂ hS₂]
    simp only [h1.mem_iff, h3.mem_iff]
  · have n1 : (pavebaPareto isCov S P U).2.Nodup := nodup_addAll _ hP
    have n2 : (pavebaPareto isCov S₂ P₂ U₂).2.Nodup := nodup_addAll _ hP₂
    refine sortNat_eq_of_mem_iff n1 n2 (fun x => ?_)
    simp only [pavebaPareto, mem_addAll, mem_pavebaNewPareto, h1.mem_iff, h2.mem_iff, h3.mem_iff]
  · have n1 : (pavebaUseful isCov S P).Nodup := hP.sublist List.filter_sublist
    have n2 : (pavebaUseful isCov S₂ P₂).Nodup := hP₂.sublist List.filter_sublist
    refine sortNat_eq_of_mem_iff n1 n2 (fun x => ?_)
    simp only [mem_pavebaUseful, h1.mem_iff, h2.mem_iff]

/-- **Single-design active set**: nothing else is active, so nothing can cover: the design
enters `P`. -/
theorem paveba_pareto_single (isCov : Rel) (i : Nat) (P U : List Nat) (hU : ∀ u ∈ U, u = i) :
    pavebaPareto isCov [i] P U = ([], addAll P [i]) := by
  have h : anyOther (fun j => isCov i j) i (union [i] U) = false := by
    rw [anyOther_eq_false_iff]
    intro j hj hne
    rcases mem_union.mp hj with hj | hj
    · exact absurd (by simpa using hj) hne
    · exact absurd (hU j hj) hne
  simp [pavebaPareto, pavebaNewPareto, h, removeAll]

/-- **Identical regions**: two candidates with identical regions (same oracle answers as first
argument, symmetric between the two) enter `P` together or not at all. -/
theorem paveba_pareto_identical (isCov : Rel) {S : List Nat} (U : List Nat) {i j : Nat}
    (hi : i ∈ S) (hj : j ∈ S) (hrow : ∀ k, isCov i k = isCov j k) (hsym : isCov i j = isCov j i) :
    i ∈ pavebaNewPareto isCov S U ↔ j ∈ pavebaNewPareto isCov S U := by
  rw [mem_pavebaNewPareto, mem_pavebaNewPareto]
  have key : ∀ {a b : Nat}, a ∈ S → b ∈ S → (∀ k, isCov a k = isCov b k) → isCov a b = isCov b a →
      (∀ k, (k ∈ S ∨ k ∈ U) → k ≠ a → isCov a k = false) →
      (∀ k, (k ∈ S ∨ k ∈ U) → k ≠ b → isCov b k = false) := by
    intro a b ha hb hr hs h k hk hne
    by_cases hka : k = a
    · subst hka
      rw [← hs]; exact h b (Or.inl hb) (fun h' => hne h'.symm)
    · rw [← hr k]; exact h k hk hka
  constructor
  · rintro ⟨_, h⟩; exact ⟨hj, key hi hj hrow hsym h⟩
  · rintro ⟨_, h⟩; exact ⟨hi, key hj hi (fun k => (hrow k).symm) hsym.symm h⟩

/-- non-vacuity: candidates 0, 1, useful design 2; only 2 can cover 0; nothing covers 1;
0 can be covered by 2 so 2 stays useful -/
example : pavebaRound (fun _ _ => false) (fun i j => i == 0 && j == 2) [0, 1] [2] [2]
    = ([0], [2, 1], [2]) := by decide

/-! ## VOGP, VOGP_AD, ε-PAL -/

/-- **P-entry ⇔ nothing can still ε-cover (VOGP / ε-PAL)**, the scan running over `W = S ∪ P`. -/
theorem cover_new_iff (isCov : Rel) (S P : List Nat) (i : Nat) :
    (i ∈ (epsilonCovering isCov S P).2 ∧ i ∉ P) ↔
      (i ∈ S ∧ i ∉ P ∧ ∀ j, (j ∈ S ∨ j ∈ P) → j ≠ i → isCov i j = false) := by
  simp only [epsilonCovering, mem_addAll, mem_coverNew]
  constructor
  · rintro ⟨h | h, hp⟩
    · exact absurd h hp
    · exact ⟨h.1, hp, h.2⟩
  · rintro ⟨h1, hp, h2⟩; exact ⟨Or.inr ⟨h1, h2⟩, hp⟩

/-- **The property's wording (VOGP / ε-PAL)**, as `paveba_entry_semantic` with `W = S ∪ P`. -/
theorem cover_entry_semantic {α : Type} (R : Nat → α → Prop) (cov : α → α → Prop) (isCov : Rel)
    (hC10 : ∀ i j, isCov i j = true ↔ ∃ z, R i z ∧ ∃ z', R j z' ∧ cov z z')
    (S P : List Nat) (i : Nat) :
    (i ∈ (epsilonCovering isCov S P).2 ∧ i ∉ P) ↔
      (i ∈ S ∧ i ∉ P ∧ ∀ j, (j ∈ S ∨ j ∈ P) → j ≠ i →
        ¬ ∃ z, R i z ∧ ∃ z', R j z' ∧ cov z z') := by
  rw [cover_new_iff]
  have h : ∀ j, isCov i j = false ↔ ¬ ∃ z, R i z ∧ ∃ z', R j z' ∧ cov z z' := by
    intro j; rw [← hC10 i j]; simp
  simp only [h]

/-- members never leave `P` -/
theorem cover_P_mono (isCov : Rel) (S P : List Nat) :
    P <+: (epsilonCovering isCov S P).2 ∧ (∀ x ∈ P, x ∈ (epsilonCovering isCov S P).2) ∧
      (P.Nodup → (epsilonCovering isCov S P).2.Nodup) :=
  ⟨addAll_prefix _ _, fun _ hx => (mem_addAll _ _).mpr (Or.inl hx), fun h => nodup_addAll _ h⟩

/-- a candidate stays exactly when some other active region can still ε-cover it -/
theorem cover_S_iff (isCov : Rel) {S : List Nat} (P : List Nat) (hS : S.Nodup) (i : Nat) :
    i ∈ (epsilonCovering isCov S P).1 ↔
      (i ∈ S ∧ ∃ j, (j ∈ S ∨ j ∈ P) ∧ j ≠ i ∧ isCov i j = true) := by
  simp only [epsilonCovering]
  rw [mem_removeAll _ hS, mem_coverNew]
  constructor
  · rintro ⟨h1, h2⟩
    refine ⟨h1, ?_⟩
    apply Classical.byContradiction
    intro h3
    apply h2
    refine ⟨h1, fun j hj hne => ?_⟩
    by_cases hc : isCov i j = true
    · exact absurd ⟨j, hj, hne, hc⟩ h3
    · simpa using hc
  · rintro ⟨h1, j, hj, hne, hc⟩
    refine ⟨h1, fun h => ?_⟩
    rw [h.2 j hj hne] at hc; exact absurd hc (by simp)

/-- order independence of `epsiloncovering()` -/
theorem cover_perm (isCov : Rel) {S S₂ P P₂ : List Nat} (hS : S.Nodup) (hP : P.Nodup)
    (h1 : S.Perm S₂) (h2 : P.Perm P₂) :
    sortNat (epsilonCovering isCov S P).1 = sortNat (epsilonCovering isCov S₂ P₂).1 ∧
    sortNat (epsilonCovering isCov S P).2 = sortNat (epsilonCovering isCov S₂ P₂).2 := by
  have hS₂ : S₂.Nodup := (h1.nodup_iff).mp hS
  have hP₂ : P₂.Nodup := (h2.nodup_iff).mp hP
  refine ⟨?_, ?_⟩
  · have n1 : (epsilonCovering isCov S P).1.Nodup := nodup_removeAll _ hS
    have n2 : (epsilonCovering isCov S₂ P₂).1.Nodup := nodup_removeAll _ hS₂
    refine sortNat_eq_of_mem_iff n1 n2 (fun x => ?_)
    rw [cover_S_iff isCov P hS, cover_S_iff isCov P₂ hS₂]
    simp only [h1.mem_iff, h2.mem_iff]
  · have n1 : (epsilonCovering isCov S P).2.Nodup := nodup_addAll _ hP
    have n2 : (epsilonCovering isCov S₂ P₂).2.Nodup := nodup_addAll _ hP₂
    refine sortNat_eq_of_mem_iff n1 n2 (fun x => ?_)
    simp only [epsilonCovering, mem_addAll, mem_coverNew, h1.mem_iff, h2.mem_iff]

/-- single-design active set: the design enters `P` -/
theorem cover_single (isCov : Rel) (i : Nat) (P : List Nat) (hP : ∀ p ∈ P, p = i) :
    (epsilonCovering isCov [i] P).1 = [] := by
  have h : anyOther (fun j => isCov i j) i (union [i] P) = false := by
    rw [anyOther_eq_false_iff]
    intro j hj hne
    rcases mem_union.mp hj with hj | hj
    · exact absurd (by simpa using hj) hne
    · exact absurd (hP j hj) hne
  simp [epsilonCovering, coverNew, h, removeAll]

/-- **VOGP_AD gate closed**: while the latch is off and some candidate is not at the maximum
discretisation depth, ε-covering changes nothing and the latch stays off. -/
theorem coverAD_closed (isCov : Rel) (depth : Nat → Nat) (maxDepth : Nat) (S P : List Nat)
    (h : ∃ i ∈ S, depth i ≠ maxDepth) :
    epsilonCoveringAD isCov depth maxDepth false S P = (S, P, false) := by
  obtain ⟨i, hi, hd⟩ := h
  have : S.all (fun i => depth i == maxDepth) = false := by
    rw [List.all_eq_false]
    exact ⟨i, hi, by simpa using hd⟩
  simp [epsilonCoveringAD, this]

/-- **VOGP_AD gate open**: once every candidate is at the maximum depth (or the latch is already
on) the step is exactly VOGP's ε-covering and the latch is on afterwards. -/
theorem coverAD_open (isCov : Rel) (depth : Nat → Nat) (maxDepth : Nat) (enabled : Bool)
    (S P : List Nat) (h : enabled = true ∨ ∀ i ∈ S, depth i = maxDepth) :
    epsilonCoveringAD isCov depth maxDepth enabled S P =
      ((epsilonCovering isCov S P).1, (epsilonCovering isCov S P).2, true) := by
  unfold epsilonCoveringAD
  rcases h with h | h
  · simp [h]
  · have : S.all (fun i => depth i == maxDepth) = true := by
      rw [List.all_eq_true]; intro i hi; simpa using h i hi
    simp [this]

/-- **The latch**: once on, depths are never consulted again (the result does not depend on
`depth` / `maxDepth`) and it stays on. -/
theorem coverAD_latch (isCov : Rel) (depth depth' : Nat → Nat) (maxDepth maxDepth' : Nat)
    (S P : List Nat) :
    epsilonCoveringAD isCov depth maxDepth true S P =
      epsilonCoveringAD isCov depth' maxDepth' true S P ∧
    (epsilonCoveringAD isCov depth maxDepth true S P).2.2 = true := by
  simp [epsilonCoveringAD]

/-- **P-entry in VOGP_AD**: a design is new in `P` exactly when the gate is open (latch on, or all
candidates at the maximum depth) and nothing active can still ε-cover it. -/
theorem coverAD_new_iff (isCov : Rel) (depth : Nat → Nat) (maxDepth : Nat) (enabled : Bool)
    (S P : List Nat) (i : Nat) :
    (i ∈ (epsilonCoveringAD isCov depth maxDepth enabled S P).2.1 ∧ i ∉ P) ↔
      ((enabled = true ∨ ∀ k ∈ S, depth k = maxDepth) ∧
        i ∈ S ∧ i ∉ P ∧ ∀ j, (j ∈ S ∨ j ∈ P) → j ≠ i → isCov i j = false) := by
  by_cases hg : enabled = true ∨ ∀ k ∈ S, depth k = maxDepth
  · rw [coverAD_open isCov depth maxDepth enabled S P hg]
    simp only [hg, true_and]
    exact cover_new_iff isCov S P i
  · have he : enabled = false := by
      cases enabled with
      | false => rfl
      | true => exact absurd (Or.inl rfl) hg
    have hd : ∃ k ∈ S, depth k ≠ maxDepth := by
      apply Classical.byContradiction
      intro h
      apply hg
      refine Or.inr (fun k hk => ?_)
      apply Classical.byContradiction
      intro hne; exact h ⟨k, hk, hne⟩
    subst he
    rw [coverAD_closed isCov depth maxDepth S P hd]
    simp only [hg, false_and, iff_false, not_and, not_not]
    exact fun h => h

/-- non-vacuity: design 1 is one level short of the maximum depth: gate closed; with the latch on
the same state moves both designs to `P` -/
example : epsilonCoveringAD (fun _ _ => false) (fun i => if i = 1 then 1 else 2) 2 false [0, 1] []
      = ([0, 1], [], false) ∧
    epsilonCoveringAD (fun _ _ => false) (fun i => if i = 1 then 1 else 2) 2 true [0, 1] []
      = ([], [0, 1], true) := by decide

/-! ## Auer -/

/-- **Auer's comparisons in words**: `np.all(M < β)`, `np.all(M ≤ β)` and `M(c_i, c_j)` itself. -/
theorem auer_M_iff (eps : Rat) (ci cj : Vec) (beta : Vec) :
    (allLt (bigM eps ci cj) beta = true ↔ ∀ b ∈ beta, bigM eps ci cj < b) ∧
    (allLe (bigM eps ci cj) beta = true ↔ ∀ b ∈ beta, bigM eps ci cj ≤ b) ∧
    (vsub (ci.map (· + eps)) cj ≠ [] → ∀ b : Rat,
      (bigM eps ci cj < b ↔ 0 < b ∧ ∀ x ∈ vsub (ci.map (· + eps)) cj, x < b) ∧
      (bigM eps ci cj ≤ b ↔ 0 ≤ b ∧ ∀ x ∈ vsub (ci.map (· + eps)) cj, x ≤ b)) :=
  ⟨allLt_iff _ _, allLe_iff _ _, fun hv b => ⟨bigM_lt_iff hv b, bigM_le_iff hv b⟩⟩

/-- **Stage 1 (own widths).**  Design `i` passes stage 1 exactly when it is a candidate and for
no other candidate `j` the test `∀ d, M(c_i, c_j) < β_i^d + β_j^d` succeeds. -/
theorem auer_stage1_iff (eps : Rat) (centre width : Nat → Vec) (S : List Nat) (i : Nat) :
    i ∈ (auerP1Core eps centre (byDesign width S)).map (·.1) ↔
      (i ∈ S ∧ ∀ j ∈ S, j ≠ i →
        allLt (bigM eps (centre i) (centre j)) (vadd (width i) (width j)) = false) :=
  mem_auerP1_pts

/-- **P-entry (Auer, own widths).**  `i` is new in `P` exactly when it passes stage 1 and for
every candidate `j` that does *not* pass stage 1 the hold-back test
`∀ d, M(c_j, c_i) ≤ β_i^d + β_j^d` fails. -/
theorem auer_pareto_new_iff (eps : Rat) (centre width : Nat → Vec) (S P : List Nat) (i : Nat) :
    (i ∈ (auerPareto eps centre width S P).2 ∧ i ∉ P) ↔
      (i ∉ P ∧ passesP1 eps centre width S i ∧
        ∀ j ∈ S, ¬ passesP1 eps centre width S j →
          allLe (bigM eps (centre j) (centre i)) (vadd (width i) (width j)) = false) := by
  simp only [auerPareto, mem_addAll, mem_auerNewPareto]
  constructor
  · rintro ⟨h | h, hp⟩
    · exact absurd h hp
    · exact ⟨hp, h.1, h.2⟩
  · rintro ⟨hp, h1, h2⟩; exact ⟨Or.inr ⟨h1, h2⟩, hp⟩

/-- **Hold-back (Auer, own widths).**  A design that passes stage 1 stays in `S` exactly while
some non-passing candidate `j` may still need it: `∀ d, M(c_j, c_i) ≤ β_i^d + β_j^d`. -/
theorem auer_heldback_iff (eps : Rat) (centre width : Nat → Vec) {S : List Nat} (P : List Nat)
    (hS : S.Nodup) (i : Nat) :
    (passesP1 eps centre width S i ∧ i ∈ (auerPareto eps centre width S P).1) ↔
      (passesP1 eps centre width S i ∧ ∃ j ∈ S, ¬ passesP1 eps centre width S j ∧
        allLe (bigM eps (centre j) (centre i)) (vadd (width i) (width j)) = true) := by
  simp only [auerPareto]
  rw [mem_removeAll _ hS, mem_auerNewPareto]
  constructor
  · rintro ⟨h1, _, h3⟩
    refine ⟨h1, ?_⟩
    apply Classical.byContradiction
    intro h4
    apply h3
    refine ⟨h1, fun j hj hnp => ?_⟩
    by_cases hc : allLe (bigM eps (centre j) (centre i)) (vadd (width i) (width j)) = true
    · exact absurd ⟨j, hj, hnp, hc⟩ h4
    · simpa using hc
  · rintro ⟨h1, j, hj, hnp, hc⟩
    refine ⟨h1, h1.1, fun h => ?_⟩
    rw [h.2 j hj hnp] at hc; exact absurd hc (by simp)

/-- Designs that fail stage 1 always stay in `S`; `S' ⊆ S`; members never leave `P`. -/
theorem auer_pareto_mono (eps : Rat) (centre width : Nat → Vec) {S : List Nat} (P : List Nat)
    (hS : S.Nodup) :
    (∀ i ∈ S, ¬ passesP1 eps centre width S i → i ∈ (auerPareto eps centre width S P).1) ∧
    (auerPareto eps centre width S P).1.Sublist S ∧
    P <+: (auerPareto eps centre width S P).2 := by
  refine ⟨fun i hi hnp => ?_, removeAll_sublist _ _, addAll_prefix _ _⟩
  simp only [auerPareto]
  rw [mem_removeAll _ hS, mem_auerNewPareto]
  exact ⟨hi, fun h => hnp h.1⟩

/-- **Where the code's positional lookup is right**: if `beta_t` is aligned with the iteration
order of the set that `pareto_updating()` scans (nothing was discarded in between,
`rows = S.map width`), position lookup is own-width lookup. -/
theorem auer_pareto_position_ok (eps : Rat) (centre width : Nat → Vec) (S P : List Nat) :
    auerParetoPos eps centre (S.map width) S P = auerPareto eps centre width S P := by
  unfold auerParetoPos auerPareto
  rw [byPosition_aligned]

/-- **What the code's positional lookup reads in general.**  When `S` has at most as many
elements as `beta_t` has rows, `pareto_updating()` behaves as the own-width rule would with the
width function "row at my *position* in the current `S`". -/
theorem auer_pareto_position_reads (eps : Rat) (centre : Nat → Vec) (rows : List Vec)
    {S : List Nat} (P : List Nat) (hS : S.Nodup) (hlen : S.length ≤ rows.length) :
    auerParetoPos eps centre rows S P =
      auerPareto eps centre (fun i => rows.getD (S.idxOf i) []) S P := by
  unfold auerParetoPos auerPareto
  rw [byPosition_eq_byDesign_idx hS rows hlen]

/-- **D2 stated exactly.**  In a round of the code (`beta_t` aligned with `S` before discarding),
after `discarding()` left `S₁ ⊆ S`, design `i ∈ S₁` is compared using the row at its position in
`S₁` of the table computed for `S` — the width of the design `S[S₁.idxOf i]`, which is `i` itself
only if nothing before it was discarded. -/
theorem auer_round_position_reads (eps : Rat) (centre width : Nat → Vec) {S : List Nat}
    (P : List Nat) (hS : S.Nodup) :
    auerRoundPos eps centre (S.map width) S P =
      auerPareto eps centre
        (fun i => (S.map width).getD ((auerDiscard centre width S).idxOf i) [])
        (auerDiscard centre width S) P := by
  have h1 : auerDiscardPos centre (S.map width) S = auerDiscard centre width S := by
    unfold auerDiscardPos auerDiscard
    rw [byPosition_aligned]
  unfold auerRoundPos
  rw [h1]
  apply auer_pareto_position_reads
  · exact nodup_removeAll _ hS
  · have := (removeAll_sublist S (auerToDiscardCore centre (byDesign width S))).length_le
    simpa [auerDiscard] using this

/-- If `discarding()` removes nothing, the whole round as the code runs it equals the round with
own widths. -/
theorem auer_round_position_ok_of_no_discard (eps : Rat) (centre width : Nat → Vec) (S P : List Nat)
    (h : auerDiscard centre width S = S) :
    auerRoundPos eps centre (S.map width) S P = auerRound eps centre width S P := by
  unfold auerRoundPos auerRound
  rw [C03_aux_discard centre width S, h, auer_pareto_position_ok]
where
  C03_aux_discard (centre width : Nat → Vec) (S : List Nat) :
      auerDiscardPos centre (S.map width) S = auerDiscard centre width S := by
    unfold auerDiscardPos auerDiscard
    rw [byPosition_aligned]

/-- **…and where it is not (DESIGN §5 D2).**  With `beta_t` aligned to the *pre-discard* order and
re-read by position after `S` shrank, the round differs from the own-width rule: one objective,
design 0 far below (discarded), designs 1 and 2 at the same centre with widths 1/32 and 1/2,
ε = 1/16.  Own widths: `M = 1/16 < 1/32 + 1/2`, nobody passes stage 1, `P` stays empty.  By
position design 1 reads row 0 and design 2 reads row 1 (sum 1/16, not `> M`), both pass and both
enter `P`. -/
theorem auer_position_defect :
    ∃ (eps : Rat) (centre width : Nat → Vec) (S P : List Nat), S.Nodup ∧
      auerRoundPos eps centre (S.map width) S P ≠ auerRound eps centre width S P := by
  refine ⟨1/16, fun i => if i = 0 then [-8] else [5/4],
    fun i => if i = 2 then [1/2] else [1/32], [0, 1, 2], [], by decide, ?_⟩
  decide +kernel

/-- **Order independence (Auer, own widths).** -/
theorem auer_pareto_perm (eps : Rat) (centre width : Nat → Vec) {S S₂ P P₂ : List Nat}
    (hS : S.Nodup) (hP : P.Nodup) (h1 : S.Perm S₂) (h2 : P.Perm P₂) :
    sortNat (auerPareto eps centre width S P).1 = sortNat (auerPareto eps centre width S₂ P₂).1 ∧
    sortNat (auerPareto eps centre width S P).2 = sortNat (auerPareto eps centre width S₂ P₂).2 := by
  have hS₂ : S₂.Nodup := (h1.nodup_iff).mp hS
  have hP₂ : P₂.Nodup := (h2.nodup_iff).mp hP
  have hpass : ∀ x, passesP1 eps centre width S x ↔ passesP1 eps centre width S₂ x := by
    intro x; simp only [passesP1, h1.mem_iff]
  have hnew : ∀ x, x ∈ auerNewParetoCore eps centre (byDesign width S) ↔
      x ∈ auerNewParetoCore eps centre (byDesign width S₂) := by
    intro x; simp only [mem_auerNewPareto, hpass, h1.mem_iff]
  refine ⟨?_, ?_⟩
  · have n1 : (auerPareto eps centre width S P).1.Nodup := nodup_removeAll _ hS
    have n2 : (auerPareto eps centre width S₂ P₂).1.Nodup := nodup_removeAll _ hS₂
    refine sortNat_eq_of_mem_iff n1 n2 (fun x => ?_)
    simp only [auerPareto]
    rw [mem_removeAll _ hS, mem_removeAll _ hS₂, hnew, h1.mem_iff]
  · have n1 : (auerPareto eps centre width S P).2.Nodup := nodup_addAll _ hP
    have n2 : (auerPareto eps centre width S₂ P₂).2.Nodup := nodup_addAll _ hP₂
    refine sortNat_eq_of_mem_iff n1 n2 (fun x => ?_)
    simp only [auerPareto, mem_addAll, hnew, h2.mem_iff]

/-- **Single candidate (Auer)**: it passes both stages and enters `P`. -/
theorem auer_pareto_single (eps : Rat) (centre width : Nat → Vec) (i : Nat) (P : List Nat) :
    auerPareto eps centre width [i] P = ([], addAll P [i]) := by
  simp [auerPareto, auerNewParetoCore, auerP1Core, byDesign, anyOtherP, removeAll]

/-- non-vacuity (hold-back): one objective, ε = 0, centres 0, 1, 10, widths 1.  Design 2 passes
stage 1 (`M(c_2, ·) ≥ 9 > 2`) but the non-passing designs 0, 1 (`M(c_0, c_1) = 0 < 2`) have
`M(c_j, c_2) = 0 ≤ 2`: it may still be needed to dominate them and is held back. -/
example : auerPareto 0 (fun i => if i = 0 then [0] else if i = 1 then [1] else [10]) (fun _ => [1])
    [0, 1, 2] [] = ([0, 1, 2], []) := by decide +kernel

/-- non-vacuity (entry): two objectives; design 2 at (10, −10) is incomparable with 0 and 1 by more
than the widths in both directions → passes both stages and enters `P`. -/
example : auerPareto 0 (fun i => if i = 0 then [0, 0] else if i = 1 then [1, 1] else [10, -10])
    (fun _ => [1, 1]) [0, 1, 2] [] = ([0, 1], [2]) := by decide +kernel

/-! ## End to end with the geometry of C10 (no oracle left for rectangles and balls)

Here the oracle is the EXECUTABLE exact predicate — `Steps.rectCov` / `Steps.ballCov`: "the model of
`is_covered` answers `1`" (`Covered.rectIsCovered`, `Covered.ballIsCovered`, the functions the
drivers run) — and the bridge hypothesis of the `*_semantic` theorems above is discharged by the
decision theorems of C10 (`rect_isCovered_iff`, `ball_isCovered_iff`: Fourier–Motzkin / active-set
completeness, never `inconclusive`).  Regions and points are over `ℝ` (`Covered.box`, `Covered.ball`,
`C10.Coverable`: `∃ z ∈ R_i, ∃ z' ∈ R_j, ∀ facets w, w·(z' − z − s) ≥ 0`, i.e. `z' ≽ z ⊕ s`;
`C10.CoverableFacet`: `w_n·(z' − z) ≥ t_n`).

General ellipsoids (arbitrary `Σ`: PaVeBaGP type "DE", PaVeBaPartialGP "hyperellipsoid") stay
parametric — `paveba_entry_semantic`, `paveba_useful_semantic` with the hypothesis `hC10` — because
C10 proves certificate *soundness* for them (`ell_verdict_sound`), not a decision procedure. -/

/-- **P-entry, rectangular regions (PaVeBaGP type "IH", PaVeBaPartialGP "hyperrectangle"), real
points.**  Design `k` displays the box `[L k, U k]` in `m` objectives, `W` has `m` columns, the
slack is handed over as the code does (a scalar or an `m`-vector; `s` is its broadcast form, applied
as a shift in objective space).  `S` is the candidate set after discarding.  A design enters `P` in
this round exactly when it is a candidate and NO other active design's displayed box contains a
point `z'` such that `z' ≽ z ⊕ s` for some point `z` of its own box. -/
theorem paveba_rect_entry_real (W : Mat) (L U : Nat → Vec) (slack s : Vec) (m : Nat)
    (hL : ∀ k, (L k).length = m) (hU : ∀ k, (U k).length = m) (hm : Covered.ncols W = m)
    (hW : ∀ w ∈ W, w.length = m) (hs : Covered.expandSlack m slack = some s)
    (S P Us : List Nat) (i : Nat) :
    (i ∈ (pavebaPareto (rectCov W L U slack) S P Us).2 ∧ i ∉ P) ↔
      (i ∈ S ∧ i ∉ P ∧ ∀ j, (j ∈ S ∨ j ∈ Us) → j ≠ i →
        ¬ VOPy.C10.Coverable (Covered.box (L i) (U i)) (Covered.box (L j) (U j)) W s) := by
  rw [paveba_pareto_new_iff]
  have h : ∀ j, rectCov W L U slack i j = false ↔
      ¬ VOPy.C10.Coverable (Covered.box (L i) (U i)) (Covered.box (L j) (U j)) W s := by
    intro j; rw [← rectCov_iff W L U slack s m hL hU hm hW hs i j]; simp
  simp only [h]

/-- **Useful set, rectangular regions, real points.**  `U'` is exactly the set of members `p` of `P`
for which some remaining candidate `c ∈ S` has a point `z` in its box and `p`'s box a point `z'`
with `z' ≽ z ⊕ s`. -/
theorem paveba_rect_useful_real (W : Mat) (L U : Nat → Vec) (slack s : Vec) (m : Nat)
    (hL : ∀ k, (L k).length = m) (hU : ∀ k, (U k).length = m) (hm : Covered.ncols W = m)
    (hW : ∀ w ∈ W, w.length = m) (hs : Covered.expandSlack m slack = some s)
    (S P : List Nat) (p : Nat) :
    p ∈ pavebaUseful (rectCov W L U slack) S P ↔
      (p ∈ P ∧ ∃ c ∈ S,
        VOPy.C10.Coverable (Covered.box (L c) (U c)) (Covered.box (L p) (U p)) W s) := by
  rw [paveba_useful_iff]
  simp only [rectCov_iff W L U slack s m hL hU hm hW hs]

/-- **ε-covering, rectangular regions (VOGP, ε-PAL), real points.**  The slack is `ε·u*` (an
`m`-vector) or the scalar `ε` (broadcast to every objective); the scan runs over `W = S ∪ P`. -/
theorem cover_rect_entry_real (W : Mat) (L U : Nat → Vec) (slack s : Vec) (m : Nat)
    (hL : ∀ k, (L k).length = m) (hU : ∀ k, (U k).length = m) (hm : Covered.ncols W = m)
    (hW : ∀ w ∈ W, w.length = m) (hs : Covered.expandSlack m slack = some s)
    (S P : List Nat) (i : Nat) :
    (i ∈ (epsilonCovering (rectCov W L U slack) S P).2 ∧ i ∉ P) ↔
      (i ∈ S ∧ i ∉ P ∧ ∀ j, (j ∈ S ∨ j ∈ P) → j ≠ i →
        ¬ VOPy.C10.Coverable (Covered.box (L i) (U i)) (Covered.box (L j) (U j)) W s) := by
  rw [cover_new_iff]
  have h : ∀ j, rectCov W L U slack i j = false ↔
      ¬ VOPy.C10.Coverable (Covered.box (L i) (U i)) (Covered.box (L j) (U j)) W s := by
    intro j; rw [← rectCov_iff W L U slack s m hL hU hm hW hs i j]; simp
  simp only [h]

/-- **ε-covering of VOGP_AD with the depth gate and the latch, rectangular regions, real points.**
A node enters `P` exactly when the gate is open (latch already on, or every candidate at the maximum
discretisation depth) and no other active node's box contains a point that ε-dominates a point of
its box. -/
theorem coverAD_rect_entry_real (W : Mat) (L U : Nat → Vec) (slack s : Vec) (m : Nat)
    (hL : ∀ k, (L k).length = m) (hU : ∀ k, (U k).length = m) (hm : Covered.ncols W = m)
    (hW : ∀ w ∈ W, w.length = m) (hs : Covered.expandSlack m slack = some s)
    (depth : Nat → Nat) (maxDepth : Nat) (enabled : Bool) (S P : List Nat) (i : Nat) :
    (i ∈ (epsilonCoveringAD (rectCov W L U slack) depth maxDepth enabled S P).2.1 ∧ i ∉ P) ↔
      ((enabled = true ∨ ∀ k ∈ S, depth k = maxDepth) ∧ i ∈ S ∧ i ∉ P ∧
        ∀ j, (j ∈ S ∨ j ∈ P) → j ≠ i →
          ¬ VOPy.C10.Coverable (Covered.box (L i) (U i)) (Covered.box (L j) (U j)) W s) := by
  rw [coverAD_new_iff]
  have h : ∀ j, rectCov W L U slack i j = false ↔
      ¬ VOPy.C10.Coverable (Covered.box (L i) (U i)) (Covered.box (L j) (U j)) W s := by
    intro j; rw [← rectCov_iff W L U slack s m hL hU hm hW hs i j]; simp
  simp only [h]

/-- **P-entry, PaVeBa (balls `B(c_k, a_k)`, `Σ = I`), real points.**  The slack is per facet
(`ε·α`, one entry per row of `W`, or a scalar repeated; `t` is its expanded form).  A design enters
`P` exactly when it is a candidate and no other active design's ball contains a point `z'` with
`w_n·(z' − z) ≥ t_n` on every facet for some point `z` of its own ball. -/
theorem paveba_ball_entry_real (W : Mat) (c : Nat → Vec) (a : Nat → Rat) (slack t : Vec) (m : Nat)
    (hc : ∀ k, (c k).length = m) (ha : ∀ k, 0 ≤ a k) (hW : ∀ w ∈ W, w.length = m)
    (hs : Covered.expandSlack W.length slack = some t) (S P Us : List Nat) (i : Nat) :
    (i ∈ (pavebaPareto (ballCov W c a slack) S P Us).2 ∧ i ∉ P) ↔
      (i ∈ S ∧ i ∉ P ∧ ∀ j, (j ∈ S ∨ j ∈ Us) → j ≠ i →
        ¬ VOPy.C10.CoverableFacet (Covered.ball (c i) (a i)) (Covered.ball (c j) (a j)) W t) := by
  rw [paveba_pareto_new_iff]
  have h : ∀ j, ballCov W c a slack i j = false ↔
      ¬ VOPy.C10.CoverableFacet (Covered.ball (c i) (a i)) (Covered.ball (c j) (a j)) W t := by
    intro j; rw [← ballCov_iff W c a slack t m hc ha hW hs i j]; simp
  simp only [h]

/-- **Useful set, PaVeBa balls, real points.** -/
theorem paveba_ball_useful_real (W : Mat) (c : Nat → Vec) (a : Nat → Rat) (slack t : Vec) (m : Nat)
    (hc : ∀ k, (c k).length = m) (ha : ∀ k, 0 ≤ a k) (hW : ∀ w ∈ W, w.length = m)
    (hs : Covered.expandSlack W.length slack = some t) (S P : List Nat) (p : Nat) :
    p ∈ pavebaUseful (ballCov W c a slack) S P ↔
      (p ∈ P ∧ ∃ d ∈ S,
        VOPy.C10.CoverableFacet (Covered.ball (c d) (a d)) (Covered.ball (c p) (a p)) W t) := by
  rw [paveba_useful_iff]
  simp only [ballCov_iff W c a slack t m hc ha hW hs]

/-- non-vacuity (rectangles, componentwise order, scalar slack 1/4): boxes `[0,1]²` (design 0),
`[2,3]²` (design 1) and `[5,6]×[−4,−3]` (design 2 ∈ P, useful so far).  Design 1 can cover design 0
(`z' = (2,2) ≽ (0,0) + 1/4`), nothing can cover design 1, design 2 is incomparable with both →
1 enters `P`, 0 stays; `U'` = {1}: design 1 can still cover candidate 0, design 2 cannot. -/
example :
    let L : Nat → Vec := fun k => if k = 0 then [0, 0] else if k = 1 then [2, 2] else [5, -4]
    let U : Nat → Vec := fun k => if k = 0 then [1, 1] else if k = 1 then [3, 3] else [6, -3]
    pavebaPareto (rectCov [[1, 0], [0, 1]] L U [1/4]) [0, 1] [2] [2] = ([0], [2, 1]) ∧
    pavebaUseful (rectCov [[1, 0], [0, 1]] L U [1/4]) [0] [2, 1] = [1] := by
  decide +kernel

/-- non-vacuity (balls of radius 1/2 at (0,0), (2,2); per-facet slack (1/4, 1/4)): the upper ball
can cover the lower one, not conversely → the upper design enters `P` and stays useful. -/
example :
    let c : Nat → Vec := fun k => if k = 0 then [0, 0] else [2, 2]
    pavebaPareto (ballCov [[1, 0], [0, 1]] c (fun _ => 1/2) [1/4, 1/4]) [0, 1] [] [] = ([0], [1]) ∧
    pavebaUseful (ballCov [[1, 0], [0, 1]] c (fun _ => 1/2) [1/4, 1/4]) [0] [1] = [1] := by
  decide +kernel

/-- the hypotheses of the end-to-end theorems are satisfiable: scalar and vector slack forms -/
example : Covered.expandSlack 2 [1/4] = some [1/4, 1/4] ∧
    Covered.expandSlack 2 [1/8, 1/4] = some [1/8, 1/4] ∧ Covered.ncols [[1, 0], [0, 1]] = 2 := by
  decide +kernel

/-! ## State invariants (the hypotheses `S.Nodup`, `S ∩ P = ∅` used above hold in every round) -/

/-- **PaVeBa family**: if `S`, `P` are sets with `S ∩ P = ∅`, then after a whole round the new
`S`, `P` are again disjoint sets, `S' ⊆ S`, and `U' ⊆ P'`. -/
theorem paveba_round_invariant (isDom isCov : Rel) {S P : List Nat} (U : List Nat) (hS : S.Nodup)
    (hP : P.Nodup) (hSP : ∀ x ∈ S, x ∉ P) :
    (pavebaRound isDom isCov S P U).1.Nodup ∧ (pavebaRound isDom isCov S P U).2.1.Nodup ∧
    (pavebaRound isDom isCov S P U).1.Sublist S ∧
    (∀ x ∈ (pavebaRound isDom isCov S P U).1, x ∉ (pavebaRound isDom isCov S P U).2.1) ∧
    (pavebaRound isDom isCov S P U).2.2.Sublist (pavebaRound isDom isCov S P U).2.1 := by
  have hS1 : (pavebaDiscard isDom S U).Nodup := nodup_removeAll _ hS
  have hsub1 : (pavebaDiscard isDom S U).Sublist S := removeAll_sublist _ _
  simp only [pavebaRound, pavebaPareto]
  refine ⟨nodup_removeAll _ hS1, nodup_addAll _ hP, (removeAll_sublist _ _).trans hsub1, ?_,
    List.filter_sublist⟩
  intro x hx hx'
  rw [mem_removeAll _ hS1] at hx
  rcases (mem_addAll _ _).mp hx' with h | h
  · exact hSP x (hsub1.subset hx.1) h
  · exact hx.2 h

/-- **VOGP / ε-PAL**: the same invariant for discarding + ε-covering. -/
theorem vogp_round_invariant (isDom isCov pessDom : Rel) {S P : List Nat} (hS : S.Nodup)
    (hP : P.Nodup) (hSP : ∀ x ∈ S, x ∉ P) :
    (vogpRound isDom isCov pessDom S P).1.Nodup ∧ (vogpRound isDom isCov pessDom S P).2.Nodup ∧
    (vogpRound isDom isCov pessDom S P).1.Sublist S ∧
    (∀ x ∈ (vogpRound isDom isCov pessDom S P).1, x ∉ (vogpRound isDom isCov pessDom S P).2) := by
  have hS1 : (vogpDiscard isDom pessDom S P).Nodup := nodup_removeAll _ hS
  have hsub1 : (vogpDiscard isDom pessDom S P).Sublist S := removeAll_sublist _ _
  simp only [vogpRound, epsilonCovering]
  refine ⟨nodup_removeAll _ hS1, nodup_addAll _ hP, (removeAll_sublist _ _).trans hsub1, ?_⟩
  intro x hx hx'
  rw [mem_removeAll _ hS1] at hx
  rcases (mem_addAll _ _).mp hx' with h | h
  · exact hSP x (hsub1.subset hx.1) h
  · exact hx.2 h

/-- **Auer** (own widths): the same invariant for discarding + pareto_updating. -/
theorem auer_round_invariant (eps : Rat) (centre width : Nat → Vec) {S P : List Nat}
    (hS : S.Nodup) (hP : P.Nodup) (hSP : ∀ x ∈ S, x ∉ P) :
    (auerRound eps centre width S P).1.Nodup ∧ (auerRound eps centre width S P).2.Nodup ∧
    (auerRound eps centre width S P).1.Sublist S ∧
    (∀ x ∈ (auerRound eps centre width S P).1, x ∉ (auerRound eps centre width S P).2) := by
  have hS1 : (auerDiscard centre width S).Nodup := nodup_removeAll _ hS
  have hsub1 : (auerDiscard centre width S).Sublist S := removeAll_sublist _ _
  simp only [auerRound, auerPareto]
  refine ⟨nodup_removeAll _ hS1, nodup_addAll _ hP, (removeAll_sublist _ _).trans hsub1, ?_⟩
  intro x hx hx'
  rw [mem_removeAll _ hS1] at hx
  rcases (mem_addAll _ _).mp hx' with h | h
  · exact hSP x (hsub1.subset hx.1) h
  · exact hx.2 h

end VOPy.C03
