import VOPyVerif.Proofs.SchedulesChi
import VOPyVerif.Proofs.SchedulesRegion
import VOPyVerif.Proofs.SchedulesUnion
import VOPyVerif.Proofs.SchedulesMean
/-!
# C04 — at contraction 1 the confidence schedules are valid with probability ≥ 1 − δ

Property theorems only (helper lemmas: `Proofs/Tails.lean`, `Proofs/Schedules*.lean`).  Every schedule
theorem is about the `RealLike` term of `Model/Schedules.lean` that the driver runs at `Float`
against the real `compute_radius / compute_alpha / compute_beta`, instantiated at `ℝ` with
`conf_contraction = 1`.

Conventions.  `K` = number of designs, `m` = number of objectives, `δ ∈ (0,1)`.  The series index
`t : ℕ` enumerates rounds; PaVeBa, PaVeBaGP, PaVeBaPartialGP and Auer increment `self.round` before
modelling, so their `t`-th round has `self.round = t+1`; VOGP and ε-PAL model first (their `t`-th
round has `self.round = t` and the code itself uses `round + 1`).  Every series statement has the form
`Summable f ∧ ∑' t, f t ≤ δ` (or `HasSum`): summability is proved, never assumed.

Modelling assumptions appear as the *measures* in the statements (they are not axioms):
GP algorithms — the posterior marginal of objective `j` of design `i` in round `t` is
`N(μ t i j, v t i j)` for arbitrary `μ`, `v` (hyper-rectangles), resp. the whitened posterior error
`Σ^{-1/2}(f − μ)` is standard Gaussian on `Fin m → ℝ` (hyper-ellipsoids, see `ell_outside_prob`);
PaVeBa / Auer — the mean of the `t+1` samples of an active design has independent `N(f, σ²/(t+1))`
coordinates (Auer: variance at most `1/(t+1)`).
-/
namespace VOPy.C04
open Real MeasureTheory ProbabilityTheory VOPy VOPy.Sched VOPy.SchedR Matrix
open scoped NNReal

/-! ## Tail bounds -/

/-- **Sharp two-sided Gaussian tail.**  For `X ~ N(μ, v)` (any mean, any variance `v ≥ 0`) and
`c ≥ 0`: `P(|X − μ| > c·√v) ≤ exp(−c²/2)` — constant 1, not the factor 2 of the Chernoff bound;
ε-PAL's schedule sums to exactly `δ` with this constant. -/
theorem gauss_two_sided_tail (μ : ℝ) (v : ℝ≥0) (c : ℝ) (hc : 0 ≤ c) :
    (gaussianReal μ v).real {x | c * √(v:ℝ) < |x - μ|} ≤ rexp (-c^2/2) :=
  Tails.gauss_two_sided μ v c hc

example : (gaussianReal 3 4).real {x | 2 * √((4:ℝ≥0):ℝ) < |x - 3|} ≤ rexp (-2^2/2) :=
  gauss_two_sided_tail 3 4 2 (by norm_num)

/-- **χ²-type tail.**  For the standard Gaussian on `Fin m → ℝ` (`m` i.i.d. `N(0,1)` coordinates):
`P(‖z‖² > x) ≤ 2^{m/2}·exp(−x/4)`, every `m` and every real `x`. -/
theorem chi2_tail (m : ℕ) (x : ℝ) :
    (Measure.pi (fun _ : Fin m => gaussianReal 0 1)).real {z | x < ∑ i, (z i)^2}
      ≤ (2:ℝ)^((m:ℝ)/2) * rexp (-x/4) := by
  have h : (2:ℝ)^((m:ℝ)/2) = (√2)^m := by
    rw [Real.sqrt_eq_rpow, ← Real.rpow_natCast, ← Real.rpow_mul (by norm_num)]
    congr 1; ring
  rw [h]; exact Tails.chi2_tail_std m x

example : (Measure.pi (fun _ : Fin 3 => gaussianReal 0 1)).real {z | 20 < ∑ i, (z i)^2}
    ≤ (2:ℝ)^(((3:ℕ):ℝ)/2) * rexp (-20/4) := chi2_tail 3 20

/-- χ²-type tail for `m` i.i.d. `N(0, s)` coordinates, `s > 0` (the error of a sample mean):
`P(‖z‖² > x) ≤ (√2)^m·exp(−x/(4s))`. -/
theorem chi2_tail_scaled (m : ℕ) (s : ℝ≥0) (hs : s ≠ 0) (x : ℝ) :
    (Measure.pi (fun _ : Fin m => gaussianReal 0 s)).real {z | x < ∑ i, (z i)^2}
      ≤ (√2)^m * rexp (-x/(4*s)) :=
  Tails.chi2_tail_var m s hs x

/-! ## Regions: what a scale becomes -/

/-- **Hyper-rectangle.**  The truth `f` lies in the box that the model's `rectLower/rectUpper`
(= `RectangularConfidenceRegion.update(mean, cov, scale)`: `mean ∓ sqrt(diag cov)·scale`) builds iff
`|f_j − mean_j| ≤ s_j·√cov_jj` for every objective `j`.  Hence "`f` outside the displayed region" is
exactly `∃ j, s_j·√cov_jj < |f_j − mean_j|`, the events summed in the rectangle theorems below. -/
theorem rect_region_iff {m : ℕ} (mean : Fin m → ℝ) (cov : Matrix (Fin m) (Fin m) ℝ)
    (s f : Fin m → ℝ) :
    f ∈ rectRegion mean cov s ↔ ∀ j, |f j - mean j| ≤ s j * √(cov j j) :=
  rectRegion_mem_iff mean cov s f

example : (![1, 5] : Fin 2 → ℝ) ∈ rectRegion ![0, 4] (1 : Matrix (Fin 2) (Fin 2) ℝ) ![2, 2] := by
  rw [rect_region_iff]; intro j; fin_cases j <;> norm_num

/-- The list-level `rectUpdate` that the driver executes is, coordinate by coordinate, the pair
`rectLower/rectUpper` used in `rectRegion` (any carrier, in particular `Float` and `ℝ`). -/
theorem rectUpdate_coordinatewise {α : Type} [RealLike α] {m : ℕ} (mean covd s : Fin m → α) :
    rectUpdate (List.ofFn mean) (List.ofFn covd) (List.ofFn s)
      = (List.ofFn fun j => rectLower (mean j) (covd j) (s j),
         List.ofFn fun j => rectUpper (mean j) (covd j) (s j)) :=
  rectUpdate_ofFn mean covd s

/-- **Hyper-ellipsoid.**  `EllipsoidalConfidenceRegion.update` stores `(mean, cov, scale)` unchanged
and the code constrains points by `‖sqrtm(inv(cov))·(x − mean)‖₂ ≤ scale`.  With `W` the whitening
matrix, that set is `{x | (x−c)ᵀ(WᵀW)(x−c) ≤ α²}` (`α ≥ 0`; `WᵀW = Σ⁻¹`): the radius enters
*squared* in the quadratic form, which is why passing `α_t` rather than `√α_t` over-sizes the region. -/
theorem ell_region_iff {m : ℕ} (c x : Fin m → ℝ) (W : Matrix (Fin m) (Fin m) ℝ) (α : ℝ)
    (hα : 0 ≤ α) :
    x ∈ ellRegion c W α ↔ (x - c) ⬝ᵥ ((Wᵀ * W) *ᵥ (x - c)) ≤ α^2 :=
  ellRegion_mem_iff_quadForm c x W α hα

/-- With the identity covariance (what PaVeBa's model reports) the ellipsoid is the Euclidean ball
of radius `r` around the sample mean: `f ∈ region ↔ ‖f − c‖₂ ≤ r`. -/
theorem ell_region_ball {m : ℕ} (c x : Fin m → ℝ) (r : ℝ) :
    x ∈ ellRegion c (1 : Matrix (Fin m) (Fin m) ℝ) r ↔ √(∑ j, (x j - c j)^2) ≤ r :=
  ellRegion_one_mem_iff c x r

/-- `ellUpdate` (the model of `EllipsoidalConfidenceRegion.update`) stores centre, covariance and
radius exactly as given. -/
theorem ellUpdate_stores {β : Type} (mean : List β) (cov : List (List β)) (scale : β) :
    (ellUpdate mean cov scale).center = mean ∧ (ellUpdate mean cov scale).sigma = cov ∧
      (ellUpdate mean cov scale).alpha = scale := ⟨rfl, rfl, rfl⟩

/-- **From the posterior to the norm tail.**  If under the law `P` of the unknown value the whitened
error `W(f − c)` is standard Gaussian on `Fin m → ℝ`, then `P(f ∉ ellipsoid(c, W, α))` equals the
standard-Gaussian norm tail `P(‖z‖₂ > α)` that the ellipsoid theorems below sum. -/
theorem ell_outside_prob {m : ℕ} (c : Fin m → ℝ) (W : Matrix (Fin m) (Fin m) ℝ) (α : ℝ)
    (P : Measure (Fin m → ℝ))
    (hP : P.map (fun f => W *ᵥ (f - c)) = Measure.pi (fun _ : Fin m => gaussianReal 0 1)) :
    P.real (ellRegion c W α)ᶜ
      = (Measure.pi (fun _ : Fin m => gaussianReal 0 1)).real {z | α < √(∑ j, (z j)^2)} :=
  SchedR.ell_outside_prob c W α P hP

/-! ## VOGP -/

/-- VOGP, explicit chain: with the proven tail bound `exp(−β²/2)` in place of the tail, the series
over all rounds of `K·m·exp(−β_t²/2)` converges to exactly `δ/2`. -/
theorem vogp_union_exp (K m : ℕ) (hK : 1 ≤ K) (hm : 1 ≤ m) (δ : ℝ) (h0 : 0 < δ) (h1 : δ < 1) :
    HasSum (fun t : ℕ => (K:ℝ) * m * rexp (-(vogpBeta t m K δ (1:ℝ))^2/2)) (δ/2) := by
  have h := hasSum_inv_sq_succ.mul_left (3*δ/π^2)
  have hpi : π^2 ≠ 0 := by positivity
  have e : 3*δ/π^2 * (π^2/6) = δ/2 := by field_simp; ring
  rw [e] at h
  exact h.congr_fun (fun t => vogp_term t m K δ hm hK h0 h1)

/-- **VOGP is valid at contraction 1.**  For arbitrary Gaussian posterior marginals
`N(μ t i j, v t i j)`, the sum over all rounds `t = 0,1,…`, designs `i < K` and objectives `j < m`
of the *actual* probabilities that the value lies outside `μ ± β_t·√v`, with `β_t` the code's
`VOGP.compute_beta` at round `t`, converges and is at most `δ` (indeed `δ/2`). -/
theorem vogp_union (K m : ℕ) (hK : 1 ≤ K) (hm : 1 ≤ m) (δ : ℝ) (h0 : 0 < δ) (h1 : δ < 1)
    (μ : ℕ → Fin K → Fin m → ℝ) (v : ℕ → Fin K → Fin m → ℝ≥0) :
    Summable (fun t => ∑ i, ∑ j, (gaussianReal (μ t i j) (v t i j)).real
        {x | vogpBeta t m K δ (1:ℝ) * √(v t i j : ℝ) < |x - μ t i j|}) ∧
    ∑' t, (∑ i, ∑ j, (gaussianReal (μ t i j) (v t i j)).real
        {x | vogpBeta t m K δ (1:ℝ) * √(v t i j : ℝ) < |x - μ t i j|}) ≤ δ := by
  have hs := vogp_union_exp K m hK hm δ h0 h1
  obtain ⟨s1, s2⟩ := union_gauss_le (fun t => vogpBeta t m K δ (1:ℝ))
    (fun t => vogpBeta_nonneg t m K δ) μ v (fun t => le_rfl) hs.summable
  exact ⟨s1, s2.trans (by rw [hs.tsum_eq]; linarith)⟩

example : ∑' t : ℕ, (∑ _i : Fin 32, ∑ _j : Fin 2, (gaussianReal 0 1).real
    {x | vogpBeta t 2 32 (1/10) (1:ℝ) * √((1:ℝ≥0):ℝ) < |x - 0|}) ≤ 1/10 :=
  (vogp_union 32 2 (by norm_num) (by norm_num) (1/10) (by norm_num) (by norm_num)
    (fun _ _ _ => 0) (fun _ _ _ => 1)).2

/-! ## ε-PAL -/

/-- ε-PAL, explicit chain: `∑_t K·m·exp(−β_t²/2) = δ` exactly — no slack; this is why the sharp
constant of `gauss_two_sided_tail` is needed. -/
theorem epal_union_exp (K m : ℕ) (hK : 1 ≤ K) (hm : 1 ≤ m) (δ : ℝ) (h0 : 0 < δ) (h1 : δ < 1) :
    HasSum (fun t : ℕ => (K:ℝ) * m * rexp (-(epalBeta t m K δ (1:ℝ))^2/2)) δ := by
  have h := hasSum_inv_sq_succ.mul_left (6*δ/π^2)
  have hpi : π^2 ≠ 0 := by positivity
  have e : 6*δ/π^2 * (π^2/6) = δ := by field_simp
  rw [e] at h
  exact h.congr_fun (fun t => epal_term t m K δ hm hK h0 h1)

/-- **ε-PAL is valid at contraction 1**: as `vogp_union` with `EpsilonPAL.compute_beta`; the sum of
the actual outside-probabilities over all rounds, designs and objectives is at most `δ`. -/
theorem epal_union (K m : ℕ) (hK : 1 ≤ K) (hm : 1 ≤ m) (δ : ℝ) (h0 : 0 < δ) (h1 : δ < 1)
    (μ : ℕ → Fin K → Fin m → ℝ) (v : ℕ → Fin K → Fin m → ℝ≥0) :
    Summable (fun t => ∑ i, ∑ j, (gaussianReal (μ t i j) (v t i j)).real
        {x | epalBeta t m K δ (1:ℝ) * √(v t i j : ℝ) < |x - μ t i j|}) ∧
    ∑' t, (∑ i, ∑ j, (gaussianReal (μ t i j) (v t i j)).real
        {x | epalBeta t m K δ (1:ℝ) * √(v t i j : ℝ) < |x - μ t i j|}) ≤ δ := by
  have hs := epal_union_exp K m hK hm δ h0 h1
  obtain ⟨s1, s2⟩ := union_gauss_le (fun t => epalBeta t m K δ (1:ℝ))
    (fun t => epalBeta_nonneg t m K δ) μ v (fun t => le_rfl) hs.summable
  exact ⟨s1, s2.trans (by rw [hs.tsum_eq])⟩

example : ∑' t : ℕ, (∑ _i : Fin 500, ∑ _j : Fin 3, (gaussianReal 0 2).real
    {x | epalBeta t 3 500 (1/20) (1:ℝ) * √((2:ℝ≥0):ℝ) < |x - 0|}) ≤ 1/20 :=
  (epal_union 500 3 (by norm_num) (by norm_num) (1/20) (by norm_num) (by norm_num)
    (fun _ _ _ => 0) (fun _ _ _ => 2)).2

/-! ## PaVeBaPartialGP, hyper-rectangle -/

/-- **PaVeBaPartialGP (hyper-rectangle) is valid at contraction 1 for `m ≤ 6`.**  The code passes
`α_t = 2·log(π²t²K/(3δ))` itself (not `√α_t`) as the scale and the schedule carries no factor `m`;
because `log(π²t²K/(3δ)) ≥ 1` the over-sized scale is valid and the sum over rounds (`self.round =
t+1`), designs and objectives of the actual outside-probabilities is at most `3mδ/(2π²) ≤ δ`
exactly when `3m ≤ 2π²`, i.e. `m ≤ 6`. -/
theorem partialgp_rect_union (K m : ℕ) (hK : 1 ≤ K) (hm : m ≤ 6) (δ : ℝ) (h0 : 0 < δ)
    (h1 : δ < 1) (μ : ℕ → Fin K → Fin m → ℝ) (v : ℕ → Fin K → Fin m → ℝ≥0) :
    Summable (fun t => ∑ i, ∑ j, (gaussianReal (μ t i j) (v t i j)).real
        {x | partialGpAlpha (t+1) K δ (1:ℝ) * √(v t i j : ℝ) < |x - μ t i j|}) ∧
    ∑' t, (∑ i, ∑ j, (gaussianReal (μ t i j) (v t i j)).real
        {x | partialGpAlpha (t+1) K δ (1:ℝ) * √(v t i j : ℝ) < |x - μ t i j|}) ≤ δ := by
  have hs := hasSum_inv_sq_succ.mul_left (9*m*δ/π^4)
  obtain ⟨s1, s2⟩ := union_gauss_le (fun t => partialGpAlpha (t+1) K δ (1:ℝ))
    (fun t => partialGpAlpha_nonneg t K δ hK h0 h1) μ v
    (fun t => partialgp_rect_term t m K δ hK h0 h1) hs.summable
  refine ⟨s1, s2.trans ?_⟩
  rw [hs.tsum_eq]
  have hm' : (m:ℝ) ≤ 6 := by exact_mod_cast hm
  have hpi := pi_sq_gt_nine
  have hpi0 : (0:ℝ) < π^2 := by positivity
  have e : 9*m*δ/π^4 * (π^2/6) = (3*m/(2*π^2)) * δ := by field_simp; ring
  rw [e]
  have : 3*(m:ℝ)/(2*π^2) ≤ 1 := by rw [div_le_one (by positivity)]; nlinarith
  nlinarith

example : ∑' t : ℕ, (∑ _i : Fin 100, ∑ _j : Fin 6, (gaussianReal 0 1).real
    {x | partialGpAlpha (t+1) 100 (999/1000) (1:ℝ) * √((1:ℝ≥0):ℝ) < |x - 0|}) ≤ 999/1000 :=
  (partialgp_rect_union 100 6 (by norm_num) (by norm_num) (999/1000) (by norm_num) (by norm_num)
    (fun _ _ _ => 0) (fun _ _ _ => 1)).2

/-! ## Auer -/

/-- Auer, explicit chain: the means of `n = t+1` samples of per-sample variance ≤ 1 have variance
≤ `1/n`, giving the per-coordinate bound `exp(−β_n²·n/2)`; the series of `K·m·exp(−β_n²·n/2)` over
all rounds converges to exactly `δ·π²/24`. -/
theorem auer_union_exp (K m : ℕ) (hK : 1 ≤ K) (hm : 1 ≤ m) (δ : ℝ) (h0 : 0 < δ) (h1 : δ < 1) :
    HasSum (fun t : ℕ => (K:ℝ) * m * rexp (-(auerBeta (t+1) m K δ (1:ℝ))^2 * ((t:ℝ)+1) / 2))
      (δ * π^2 / 24) := by
  have h := hasSum_inv_sq_succ.mul_left (δ/4)
  have e : δ/4 * (π^2/6) = δ * π^2 / 24 := by ring
  rw [e] at h
  exact h.congr_fun (fun t => auer_term t m K δ hm hK h0 h1)

/-- **Auer (original β) is valid at contraction 1.**  Truth `f i j`; in round `n = t+1` the empirical
mean of design `i`, objective `j` is `N(f i j, s t i j)` with `s t i j ≤ 1/(t+1)` (per-sample
variance at most 1, `t+1` samples); the model reports the identity covariance, so the region is
`mean ± β_n`.  The sum over all rounds, designs, objectives of the actual probabilities that the
truth is outside is at most `δ·π²/24 ≤ δ`. -/
theorem auer_union (K m : ℕ) (hK : 1 ≤ K) (hm : 1 ≤ m) (δ : ℝ) (h0 : 0 < δ) (h1 : δ < 1)
    (f : Fin K → Fin m → ℝ) (s : ℕ → Fin K → Fin m → ℝ≥0)
    (hs : ∀ t i j, (s t i j : ℝ) ≤ 1 / ((t:ℝ)+1)) :
    Summable (fun t => ∑ i, ∑ j, (gaussianReal (f i j) (s t i j)).real
        {x | auerBeta (t+1) m K δ (1:ℝ) < |x - f i j|}) ∧
    ∑' t, (∑ i, ∑ j, (gaussianReal (f i j) (s t i j)).real
        {x | auerBeta (t+1) m K δ (1:ℝ) < |x - f i j|}) ≤ δ := by
  have hS := auer_union_exp K m hK hm δ h0 h1
  have hle : ∀ t, (∑ i, ∑ j, (gaussianReal (f i j) (s t i j)).real
        {x | auerBeta (t+1) m K δ (1:ℝ) < |x - f i j|})
      ≤ (K:ℝ) * m * rexp (-(auerBeta (t+1) m K δ (1:ℝ))^2 * ((t:ℝ)+1) / 2) := by
    intro t
    have ht : (0:ℝ) < (t:ℝ)+1 := by positivity
    calc (∑ i, ∑ j, (gaussianReal (f i j) (s t i j)).real
            {x | auerBeta (t+1) m K δ (1:ℝ) < |x - f i j|})
        ≤ ∑ _i : Fin K, ∑ _j : Fin m,
            rexp (-(auerBeta (t+1) m K δ (1:ℝ))^2 * ((t:ℝ)+1) / 2) := by
          refine Finset.sum_le_sum fun i _ => Finset.sum_le_sum fun j _ => ?_
          have h := gauss_abs_tail_of_var_le (f i j) (s t i j) (1 / ((t:ℝ)+1))
            (auerBeta (t+1) m K δ (1:ℝ)) (hs t i j) (auerBeta_nonneg t m K δ)
          refine h.trans (le_of_eq ?_)
          congr 1; field_simp
      _ = (K:ℝ) * m * rexp (-(auerBeta (t+1) m K δ (1:ℝ))^2 * ((t:ℝ)+1) / 2) := by
          simp [Finset.sum_const, Finset.card_univ, mul_assoc]
  have h0' : ∀ t, 0 ≤ ∑ i, ∑ j, (gaussianReal (f i j) (s t i j)).real
        {x | auerBeta (t+1) m K δ (1:ℝ) < |x - f i j|} :=
    fun t => Finset.sum_nonneg fun i _ => Finset.sum_nonneg fun j _ => measureReal_nonneg
  have sa := Summable.of_nonneg_of_le h0' hle hS.summable
  refine ⟨sa, (sa.tsum_le_tsum hle hS.summable).trans ?_⟩
  rw [hS.tsum_eq]
  have hpi : π^2 < 16 := by nlinarith [Real.pi_lt_four, Real.pi_pos]
  nlinarith

example : ∑' t : ℕ, (∑ _i : Fin 10, ∑ _j : Fin 2,
    (gaussianReal 0 (1 / ((t:ℝ≥0)+1))).real {x | auerBeta (t+1) 2 10 (1/10) (1:ℝ) < |x - 0|})
    ≤ 1/10 :=
  (auer_union 10 2 (by norm_num) (by norm_num) (1/10) (by norm_num) (by norm_num)
    (fun _ _ => 0) (fun t _ _ => 1 / ((t:ℝ≥0)+1)) (fun t _ _ => by push_cast; exact le_rfl)).2

/-! ## PaVeBa -/

/-- **PaVeBa is valid at contraction 1** whenever `2^{m/2}·2·δ ≤ 5·(m+1)²·K` (the exact arithmetic
condition under which the `2^{m/2}e^{−x/4}` tail closes; see `paveba_union_of_le` for `m ≤ 20`).
Truth fixed; in round `n = t+1` the error of the sample mean of a design has `m` i.i.d.
`N(0, σ²/(t+1))` coordinates; the region is the Euclidean ball of radius
`r_n = PaVeBa.compute_radius` around the sample mean (identity covariance, `ell_region_ball`).
The sum over all rounds and designs of the actual probabilities `P(‖error‖₂ > r_n)` converges and is
at most `2^{m/2}·(2/5)·δ²/((m+1)²K) ≤ δ`. -/
theorem paveba_union (K m : ℕ) (hK : 1 ≤ K) (δ : ℝ) (h0 : 0 < δ) (h1 : δ < 1)
    (σ2 : ℝ≥0) (hσ : σ2 ≠ 0) (hcond : (√2)^m * 2 * δ ≤ 5 * ((m:ℝ)+1)^2 * K) :
    Summable (fun t : ℕ => ∑ _i : Fin K,
      (Measure.pi (fun _ : Fin m => gaussianReal 0 (σ2 / ((t:ℝ≥0)+1)))).real
        {e | pavebaRadius (σ2:ℝ) (t+1) m K δ (1:ℝ) < √(∑ j, (e j)^2)}) ∧
    ∑' t : ℕ, (∑ _i : Fin K,
      (Measure.pi (fun _ : Fin m => gaussianReal 0 (σ2 / ((t:ℝ≥0)+1)))).real
        {e | pavebaRadius (σ2:ℝ) (t+1) m K δ (1:ℝ) < √(∑ j, (e j)^2)}) ≤ δ := by
  have hσ0 : (0:ℝ) < σ2 := by positivity
  have hK0 : (0:ℝ) < K := by exact_mod_cast hK
  have hm0 : (0:ℝ) < (m:ℝ)+1 := by positivity
  have hle : ∀ t : ℕ, (∑ _i : Fin K,
      (Measure.pi (fun _ : Fin m => gaussianReal 0 (σ2 / ((t:ℝ≥0)+1)))).real
        {e | pavebaRadius (σ2:ℝ) (t+1) m K δ (1:ℝ) < √(∑ j, (e j)^2)})
      ≤ ((√2)^m * 36 * δ^2 / (π^4 * ((m:ℝ)+1)^2 * K)) * (1 / ((t:ℝ)+1)^4) := by
    intro t
    have hs : σ2 / ((t:ℝ≥0)+1) ≠ 0 := by positivity
    have h := norm_tail m (σ2 / ((t:ℝ≥0)+1)) hs (pavebaRadius (σ2:ℝ) (t+1) m K δ (1:ℝ))
      (pavebaRadius_nonneg t m K δ σ2)
    rw [← paveba_term t m K δ hK h0 h1 σ2 hσ0]
    simp only [Finset.sum_const, Finset.card_univ, Fintype.card_fin, nsmul_eq_mul]
    apply mul_le_mul_of_nonneg_left _ hK0.le
    have hc : ((σ2 / ((t:ℝ≥0)+1) : ℝ≥0) : ℝ) = (σ2:ℝ) / ((t:ℝ)+1) := by push_cast; rfl
    rw [hc] at h
    exact h
  obtain ⟨s1, s2⟩ := summable_tsum_le_four
    (fun t => Finset.sum_nonneg fun _ _ => measureReal_nonneg) hle
  refine ⟨s1, s2.trans ?_⟩
  have hpi : (0:ℝ) < π^4 := by positivity
  have e : (√2)^m * 36 * δ^2 / (π^4 * ((m:ℝ)+1)^2 * K) * (π^4/90)
      = ((√2)^m * 2 * δ) * δ / (5 * ((m:ℝ)+1)^2 * K) := by field_simp; ring
  rw [e, div_le_iff₀ (by positivity)]
  nlinarith

/-- the arithmetic condition of `paveba_union` holds for every `m ≤ 20` (so for `m = 2…6`) -/
theorem paveba_cond_of_le {K m : ℕ} (hK : 1 ≤ K) (hm : m ≤ 20) {δ : ℝ} (h0 : 0 < δ) (h1 : δ < 1) :
    (√2)^m * 2 * δ ≤ 5 * ((m:ℝ)+1)^2 * K := by
  have hK' : (1:ℝ) ≤ K := by exact_mod_cast hK
  have hsq : ((√2)^m * 2)^2 ≤ (5 * ((m:ℝ)+1)^2)^2 := by
    have : ((√2)^m * 2)^2 = 2^m * 4 := by
      rw [mul_pow, ← pow_mul, mul_comm m 2, pow_mul, Real.sq_sqrt (by norm_num)]; norm_num
    rw [this]
    interval_cases m <;> norm_num
  have hle : (√2)^m * 2 ≤ 5 * ((m:ℝ)+1)^2 :=
    (pow_le_pow_iff_left₀ (by positivity) (by positivity) (by norm_num)).mp hsq
  have hpos : 0 ≤ (√2)^m * 2 := by positivity
  nlinarith

/-- **PaVeBa, `m ≤ 20`** (in particular the property's range `m = 2…6`): the union bound over all
rounds and designs is at most `δ`, every `K ≥ 1`, `δ ∈ (0,1)`, noise variance `σ² > 0`. -/
theorem paveba_union_of_le (K m : ℕ) (hK : 1 ≤ K) (hm : m ≤ 20) (δ : ℝ) (h0 : 0 < δ) (h1 : δ < 1)
    (σ2 : ℝ≥0) (hσ : σ2 ≠ 0) :
    Summable (fun t : ℕ => ∑ _i : Fin K,
      (Measure.pi (fun _ : Fin m => gaussianReal 0 (σ2 / ((t:ℝ≥0)+1)))).real
        {e | pavebaRadius (σ2:ℝ) (t+1) m K δ (1:ℝ) < √(∑ j, (e j)^2)}) ∧
    ∑' t : ℕ, (∑ _i : Fin K,
      (Measure.pi (fun _ : Fin m => gaussianReal 0 (σ2 / ((t:ℝ≥0)+1)))).real
        {e | pavebaRadius (σ2:ℝ) (t+1) m K δ (1:ℝ) < √(∑ j, (e j)^2)}) ≤ δ :=
  paveba_union K m hK δ h0 h1 σ2 hσ (paveba_cond_of_le hK hm h0 h1)

example : ∑' t : ℕ, (∑ _i : Fin 50,
      (Measure.pi (fun _ : Fin 6 => gaussianReal 0 ((1/100 : ℝ≥0) / ((t:ℝ≥0)+1)))).real
        {e | pavebaRadius (((1/100 : ℝ≥0)):ℝ) (t+1) 6 50 (1/20) (1:ℝ) < √(∑ j, (e j)^2)}) ≤ 1/20 :=
  (paveba_union_of_le 50 6 (by norm_num) (by norm_num) (1/20) (by norm_num) (by norm_num)
    (1/100) (by norm_num)).2

/-! ## PaVeBaGP -/

/-- **The PaVeBaGP scale is over-sized, not under-sized.**  The code feeds `α_t` where the analysis
uses `√α_t`; at contraction 1, `α_t ≥ 8m·log 6 ≥ 8 > 1` (for `m = 2`: `≥ 16·log 6`), hence
`√α_t ≤ α_t`: the displayed regions contain the regions of the analysis. -/
theorem pavebagp_scale_oversized (t K m : ℕ) (hK : 1 ≤ K) (hm : 1 ≤ m) (δ : ℝ) (h0 : 0 < δ)
    (h1 : δ < 1) :
    8 * (m:ℝ) * Real.log 6 ≤ pavebaGpAlpha (t+1) m K δ (1:ℝ) ∧
    √(pavebaGpAlpha (t+1) m K δ (1:ℝ)) ≤ pavebaGpAlpha (t+1) m K δ (1:ℝ) := by
  have hge := pavebaGpAlpha_ge t m K δ
  have hL := Real.log_nonneg (one_le_pavebagp_arg t K δ hK h0 h1)
  have h6 := one_le_log_six
  have hm' : (1:ℝ) ≤ m := by exact_mod_cast hm
  have h8 : 8 * (m:ℝ) * Real.log 6 ≤ pavebaGpAlpha (t+1) m K δ (1:ℝ) := by linarith
  have h1' : 1 ≤ pavebaGpAlpha (t+1) m K δ (1:ℝ) := by nlinarith
  refine ⟨h8, ?_⟩
  rw [Real.sqrt_le_left (by linarith)]
  nlinarith

/-- The PaVeBaPartialGP scale `α_t = 2·log(π²t²K/(3δ))` is at least 2 at contraction 1, hence
`√α_t ≤ α_t`: feeding `α_t` instead of `√α_t` over-sizes the region. -/
theorem partialgp_scale_oversized (t K : ℕ) (hK : 1 ≤ K) (δ : ℝ) (h0 : 0 < δ) (h1 : δ < 1) :
    2 ≤ partialGpAlpha (t+1) K δ (1:ℝ) ∧
    √(partialGpAlpha (t+1) K δ (1:ℝ)) ≤ partialGpAlpha (t+1) K δ (1:ℝ) := by
  have h2 : 2 ≤ partialGpAlpha (t+1) K δ (1:ℝ) := by
    rw [partialGpAlpha_real]; push_cast
    have := one_le_log_partial_arg t K δ hK h0 h1
    linarith
  refine ⟨h2, ?_⟩
  rw [Real.sqrt_le_left (by linarith)]
  nlinarith

/-- **PaVeBaGP, type IH (hyper-rectangles), is valid at contraction 1.**  The code passes
`α_t = 8m·log 6 + 4·log(π²t²K/(6δ))` itself as the scale (half-widths `α_t·√v`), where the analysis
would use `√α_t`; since `α_t ≥ 8m·log 6 ≥ 2` the over-sized scale is valid: the sum over rounds
(`self.round = t+1`), designs and objectives of the actual outside-probabilities is at most `δ`. -/
theorem pavebagp_rect_union (K m : ℕ) (hK : 1 ≤ K) (hm : 1 ≤ m) (δ : ℝ) (h0 : 0 < δ)
    (h1 : δ < 1) (μ : ℕ → Fin K → Fin m → ℝ) (v : ℕ → Fin K → Fin m → ℝ≥0) :
    Summable (fun t => ∑ i, ∑ j, (gaussianReal (μ t i j) (v t i j)).real
        {x | pavebaGpAlpha (t+1) m K δ (1:ℝ) * √(v t i j : ℝ) < |x - μ t i j|}) ∧
    ∑' t, (∑ i, ∑ j, (gaussianReal (μ t i j) (v t i j)).real
        {x | pavebaGpAlpha (t+1) m K δ (1:ℝ) * √(v t i j : ℝ) < |x - μ t i j|}) ≤ δ := by
  have hs := hasSum_inv_sq_succ.mul_left (6*δ/π^2)
  obtain ⟨s1, s2⟩ := union_gauss_le (fun t => pavebaGpAlpha (t+1) m K δ (1:ℝ))
    (fun t => pavebaGpAlpha_nonneg t m K δ hK h0 h1) μ v
    (fun t => pavebagp_rect_term t m K δ hm hK h0 h1) hs.summable
  refine ⟨s1, s2.trans (le_of_eq ?_)⟩
  rw [hs.tsum_eq]
  have hpi : π^2 ≠ 0 := by positivity
  field_simp

example : ∑' t : ℕ, (∑ _i : Fin 7, ∑ _j : Fin 2, (gaussianReal 0 1).real
    {x | pavebaGpAlpha (t+1) 2 7 (1/2) (1:ℝ) * √((1:ℝ≥0):ℝ) < |x - 0|}) ≤ 1/2 :=
  (pavebagp_rect_union 7 2 (by norm_num) (by norm_num) (1/2) (by norm_num) (by norm_num)
    (fun _ _ _ => 0) (fun _ _ _ => 1)).2

/-- **PaVeBaGP, type DE (hyper-ellipsoids), is valid at contraction 1.**  The ellipsoid has radius
`α_t` (quadratic form `≤ α_t²`, `ell_region_iff`) where the analysis uses `≤ α_t`; since
`α_t ≥ 8m·log 6 ≥ 4` the over-sized region is valid: with the whitened posterior error standard
Gaussian on `Fin m → ℝ` (`ell_outside_prob`), the sum over all rounds and designs of the actual
probabilities `P(‖z‖₂ > α_t)` converges and is at most `δ`. -/
theorem pavebagp_ell_union (K m : ℕ) (hK : 1 ≤ K) (hm : 1 ≤ m) (δ : ℝ) (h0 : 0 < δ)
    (h1 : δ < 1) :
    Summable (fun t : ℕ => ∑ _i : Fin K, (Measure.pi (fun _ : Fin m => gaussianReal 0 1)).real
        {z | pavebaGpAlpha (t+1) m K δ (1:ℝ) < √(∑ j, (z j)^2)}) ∧
    ∑' t : ℕ, (∑ _i : Fin K, (Measure.pi (fun _ : Fin m => gaussianReal 0 1)).real
        {z | pavebaGpAlpha (t+1) m K δ (1:ℝ) < √(∑ j, (z j)^2)}) ≤ δ := by
  have hK0 : (0:ℝ) < K := by exact_mod_cast hK
  have hle : ∀ t : ℕ, (∑ _i : Fin K, (Measure.pi (fun _ : Fin m => gaussianReal 0 1)).real
        {z | pavebaGpAlpha (t+1) m K δ (1:ℝ) < √(∑ j, (z j)^2)})
      ≤ (6*δ/π^2) * (1 / ((t:ℝ)+1)^2) := by
    intro t
    have h := norm_tail m 1 one_ne_zero (pavebaGpAlpha (t+1) m K δ (1:ℝ))
      (pavebaGpAlpha_nonneg t m K δ hK h0 h1)
    refine le_trans ?_ (pavebagp_ell_term t m K δ hm hK h0 h1)
    simp only [Finset.sum_const, Finset.card_univ, Fintype.card_fin, nsmul_eq_mul]
    exact mul_le_mul_of_nonneg_left h hK0.le
  obtain ⟨s1, s2⟩ := summable_tsum_le_sq
    (fun t => Finset.sum_nonneg fun _ _ => measureReal_nonneg) hle
  refine ⟨s1, s2.trans (le_of_eq ?_)⟩
  have hpi : π^2 ≠ 0 := by positivity
  field_simp

example : ∑' t : ℕ, (∑ _i : Fin 1000, (Measure.pi (fun _ : Fin 3 => gaussianReal 0 1)).real
    {z | pavebaGpAlpha (t+1) 3 1000 (1/10) (1:ℝ) < √(∑ j, (z j)^2)}) ≤ 1/10 :=
  (pavebagp_ell_union 1000 3 (by norm_num) (by norm_num) (1/10) (by norm_num) (by norm_num)).2

/-! ## PaVeBaPartialGP, hyper-ellipsoid -/

/-- PaVeBaPartialGP (hyper-ellipsoid), general form: under the arithmetic condition
`2^{m/2}·exp(−L₁(L₁−1)) ≤ 2` with `L₁ = log(π²K/(3δ))` the sum over all rounds and designs of the
actual probabilities `P(‖z‖₂ > α_t)`, `α_t = 2·log(π²t²K/(3δ))` the code's radius, is at most `δ`. -/
theorem partialgp_ell_union_of_cond (K m : ℕ) (hK : 1 ≤ K) (δ : ℝ) (h0 : 0 < δ) (h1 : δ < 1)
    (hc : (√2)^m * rexp (-(Real.log (π^2 * K / (3*δ)) * (Real.log (π^2 * K / (3*δ)) - 1))) ≤ 2) :
    Summable (fun t : ℕ => ∑ _i : Fin K, (Measure.pi (fun _ : Fin m => gaussianReal 0 1)).real
        {z | partialGpAlpha (t+1) K δ (1:ℝ) < √(∑ j, (z j)^2)}) ∧
    ∑' t : ℕ, (∑ _i : Fin K, (Measure.pi (fun _ : Fin m => gaussianReal 0 1)).real
        {z | partialGpAlpha (t+1) K δ (1:ℝ) < √(∑ j, (z j)^2)}) ≤ δ := by
  have hK0 : (0:ℝ) < K := by exact_mod_cast hK
  have hle : ∀ t : ℕ, (∑ _i : Fin K, (Measure.pi (fun _ : Fin m => gaussianReal 0 1)).real
        {z | partialGpAlpha (t+1) K δ (1:ℝ) < √(∑ j, (z j)^2)})
      ≤ (6*δ/π^2) * (1 / ((t:ℝ)+1)^2) := by
    intro t
    have h := norm_tail m 1 one_ne_zero (partialGpAlpha (t+1) K δ (1:ℝ))
      (partialGpAlpha_nonneg t K δ hK h0 h1)
    refine le_trans ?_ (partialgp_ell_term t m K δ hK h0 h1 hc)
    simp only [Finset.sum_const, Finset.card_univ, Fintype.card_fin, nsmul_eq_mul]
    exact mul_le_mul_of_nonneg_left h hK0.le
  obtain ⟨s1, s2⟩ := summable_tsum_le_sq
    (fun t => Finset.sum_nonneg fun _ _ => measureReal_nonneg) hle
  refine ⟨s1, s2.trans (le_of_eq ?_)⟩
  have hpi : π^2 ≠ 0 := by positivity
  field_simp

/- FULL STATEMENT (not proved; true numerically — worst ratio sum/δ ≈ 0.46 at K = 1, m = 6, δ → 1 —
and covered by the numeric scan of the harness, which is a test):

  theorem partialgp_ell_union (K m : ℕ) (hK : 1 ≤ K) (hm : m ≤ 6) (δ : ℝ) (h0 : 0 < δ) (h1 : δ < 1) :
      Summable (fun t : ℕ => ∑ _i : Fin K, (Measure.pi (fun _ : Fin m => gaussianReal 0 1)).real
          {z | partialGpAlpha (t+1) K δ (1:ℝ) < √(∑ j, (z j)^2)}) ∧
      ∑' t : ℕ, (∑ _i : Fin K, (Measure.pi (fun _ : Fin m => gaussianReal 0 1)).real
          {z | partialGpAlpha (t+1) K δ (1:ℝ) < √(∑ j, (z j)^2)}) ≤ δ

What is proved below covers everything except `K = 1 ∧ δ > 1/2 ∧ 3 ≤ m ≤ 6`.  There, for δ close to 1,
the first-round radius² `4·log²(π²/(3δ))` is below `m`, where every Chernoff-type bound of the χ²_m
tail is trivial; closing the gap needs the exact χ²_m survival function. -/

/-- **PaVeBaPartialGP (hyper-ellipsoid), partial:** valid at contraction 1 for `m ≤ 6` whenever
`2δ ≤ K` — that is, for every `δ ∈ (0,1)` as soon as there are `K ≥ 2` designs, and for `δ ≤ 1/2`
when `K = 1`.  Missing from the full statement above: only `K = 1` with `δ ∈ (1/2, 1)` and
`3 ≤ m ≤ 6` (`partialgp_ell_union_two` covers `m ≤ 2` for every `K`, `δ`). -/
theorem partialgp_ell_union_partial (K m : ℕ) (hK : 1 ≤ K) (hm : m ≤ 6) (δ : ℝ) (h0 : 0 < δ)
    (h1 : δ < 1) (h2 : 2 * δ ≤ K) :
    Summable (fun t : ℕ => ∑ _i : Fin K, (Measure.pi (fun _ : Fin m => gaussianReal 0 1)).real
        {z | partialGpAlpha (t+1) K δ (1:ℝ) < √(∑ j, (z j)^2)}) ∧
    ∑' t : ℕ, (∑ _i : Fin K, (Measure.pi (fun _ : Fin m => gaussianReal 0 1)).real
        {z | partialGpAlpha (t+1) K δ (1:ℝ) < √(∑ j, (z j)^2)}) ≤ δ :=
  partialgp_ell_union_of_cond K m hK δ h0 h1 (partialgp_ell_cond_half hm h0 h2)

/-- PaVeBaPartialGP (hyper-ellipsoid), `m ≤ 2`: valid at contraction 1 for every `δ ∈ (0,1)`. -/
theorem partialgp_ell_union_two (K m : ℕ) (hK : 1 ≤ K) (hm : m ≤ 2) (δ : ℝ) (h0 : 0 < δ)
    (h1 : δ < 1) :
    Summable (fun t : ℕ => ∑ _i : Fin K, (Measure.pi (fun _ : Fin m => gaussianReal 0 1)).real
        {z | partialGpAlpha (t+1) K δ (1:ℝ) < √(∑ j, (z j)^2)}) ∧
    ∑' t : ℕ, (∑ _i : Fin K, (Measure.pi (fun _ : Fin m => gaussianReal 0 1)).real
        {z | partialGpAlpha (t+1) K δ (1:ℝ) < √(∑ j, (z j)^2)}) ≤ δ :=
  partialgp_ell_union_of_cond K m hK δ h0 h1 (partialgp_ell_cond_two hm hK h0 h1)

example : ∑' t : ℕ, (∑ _i : Fin 20, (Measure.pi (fun _ : Fin 6 => gaussianReal 0 1)).real
    {z | partialGpAlpha (t+1) 20 (1/2) (1:ℝ) < √(∑ j, (z j)^2)}) ≤ 1/2 :=
  (partialgp_ell_union_partial 20 6 (by norm_num) (by norm_num) (1/2) (by norm_num) (by norm_num)
    (by norm_num)).2

example : ∑' t : ℕ, (∑ _i : Fin 2, (Measure.pi (fun _ : Fin 6 => gaussianReal 0 1)).real
    {z | partialGpAlpha (t+1) 2 (999/1000) (1:ℝ) < √(∑ j, (z j)^2)}) ≤ 999/1000 :=
  (partialgp_ell_union_partial 2 6 (by norm_num) (by norm_num) (999/1000) (by norm_num)
    (by norm_num) (by norm_num)).2

/-! ## From the union-bound sums to "with probability ≥ 1 − δ" -/

/-- **Coverage from a union bound** (any probability space).  `E t i j` = "in round `t` the value of
design `i`, objective `j` is outside its region".  If the series `∑_t ∑_i ∑_j P(E t i j)` converges
and is `≤ δ` — what every `*_union` theorem above establishes for its schedule — then with
probability `≥ 1 − δ` no value is ever outside its region. -/
theorem coverage_of_union_bound {Ω : Type*} [MeasurableSpace Ω] (P : Measure Ω)
    [IsProbabilityMeasure P] {K m : ℕ} (E : ℕ → Fin K → Fin m → Set Ω)
    (hE : ∀ t i j, MeasurableSet (E t i j)) {δ : ℝ}
    (hs : Summable fun t => ∑ i, ∑ j, P.real (E t i j))
    (hle : ∑' t, ∑ i, ∑ j, P.real (E t i j) ≤ δ) :
    1 - δ ≤ P.real {ω | ∀ t i j, ω ∉ E t i j} :=
  SchedR.coverage_of_union_bound P E hE hs hle

/-- **VOGP: valid with probability ≥ 1 − δ.**  On any probability space, let `X t i j` be the value
of objective `j` at design `i` as seen in round `t`, with law `N(μ t i j, v t i j)` (means and
variances deterministic).  Then with probability at least `1 − δ`, in every round, for every design
and objective, the value lies in the displayed interval `μ ± β_t·√v` built from the code's
`VOGP.compute_beta` at contraction 1 (`rect_region_iff`). -/
theorem vogp_valid {Ω : Type*} [MeasurableSpace Ω] (P : Measure Ω) [IsProbabilityMeasure P]
    (K m : ℕ) (hK : 1 ≤ K) (hm : 1 ≤ m) (δ : ℝ) (h0 : 0 < δ) (h1 : δ < 1)
    (X : ℕ → Fin K → Fin m → Ω → ℝ) (hX : ∀ t i j, Measurable (X t i j))
    (μ : ℕ → Fin K → Fin m → ℝ) (v : ℕ → Fin K → Fin m → ℝ≥0)
    (hlaw : ∀ t i j, P.map (X t i j) = gaussianReal (μ t i j) (v t i j)) :
    1 - δ ≤ P.real {ω | ∀ t i j,
      |X t i j ω - μ t i j| ≤ vogpBeta t m K δ (1:ℝ) * √(v t i j : ℝ)} :=
  gauss_coverage P (fun t => vogpBeta t m K δ (1:ℝ)) X hX μ v hlaw
    (vogp_union K m hK hm δ h0 h1 μ v).1 (vogp_union K m hK hm δ h0 h1 μ v).2

/-- **ε-PAL: valid with probability ≥ 1 − δ** (same setting as `vogp_valid`). -/
theorem epal_valid {Ω : Type*} [MeasurableSpace Ω] (P : Measure Ω) [IsProbabilityMeasure P]
    (K m : ℕ) (hK : 1 ≤ K) (hm : 1 ≤ m) (δ : ℝ) (h0 : 0 < δ) (h1 : δ < 1)
    (X : ℕ → Fin K → Fin m → Ω → ℝ) (hX : ∀ t i j, Measurable (X t i j))
    (μ : ℕ → Fin K → Fin m → ℝ) (v : ℕ → Fin K → Fin m → ℝ≥0)
    (hlaw : ∀ t i j, P.map (X t i j) = gaussianReal (μ t i j) (v t i j)) :
    1 - δ ≤ P.real {ω | ∀ t i j,
      |X t i j ω - μ t i j| ≤ epalBeta t m K δ (1:ℝ) * √(v t i j : ℝ)} :=
  gauss_coverage P (fun t => epalBeta t m K δ (1:ℝ)) X hX μ v hlaw
    (epal_union K m hK hm δ h0 h1 μ v).1 (epal_union K m hK hm δ h0 h1 μ v).2

/-- **PaVeBaGP (IH): valid with probability ≥ 1 − δ** (setting of `vogp_valid`, `self.round = t+1`,
half-widths `α_t·√v` as the code builds them). -/
theorem pavebagp_rect_valid {Ω : Type*} [MeasurableSpace Ω] (P : Measure Ω)
    [IsProbabilityMeasure P] (K m : ℕ) (hK : 1 ≤ K) (hm : 1 ≤ m) (δ : ℝ) (h0 : 0 < δ) (h1 : δ < 1)
    (X : ℕ → Fin K → Fin m → Ω → ℝ) (hX : ∀ t i j, Measurable (X t i j))
    (μ : ℕ → Fin K → Fin m → ℝ) (v : ℕ → Fin K → Fin m → ℝ≥0)
    (hlaw : ∀ t i j, P.map (X t i j) = gaussianReal (μ t i j) (v t i j)) :
    1 - δ ≤ P.real {ω | ∀ t i j,
      |X t i j ω - μ t i j| ≤ pavebaGpAlpha (t+1) m K δ (1:ℝ) * √(v t i j : ℝ)} :=
  gauss_coverage P (fun t => pavebaGpAlpha (t+1) m K δ (1:ℝ)) X hX μ v hlaw
    (pavebagp_rect_union K m hK hm δ h0 h1 μ v).1 (pavebagp_rect_union K m hK hm δ h0 h1 μ v).2

/-- **PaVeBaPartialGP (hyper-rectangle), `m ≤ 6`: valid with probability ≥ 1 − δ.** -/
theorem partialgp_rect_valid {Ω : Type*} [MeasurableSpace Ω] (P : Measure Ω)
    [IsProbabilityMeasure P] (K m : ℕ) (hK : 1 ≤ K) (hm : m ≤ 6) (δ : ℝ) (h0 : 0 < δ) (h1 : δ < 1)
    (X : ℕ → Fin K → Fin m → Ω → ℝ) (hX : ∀ t i j, Measurable (X t i j))
    (μ : ℕ → Fin K → Fin m → ℝ) (v : ℕ → Fin K → Fin m → ℝ≥0)
    (hlaw : ∀ t i j, P.map (X t i j) = gaussianReal (μ t i j) (v t i j)) :
    1 - δ ≤ P.real {ω | ∀ t i j,
      |X t i j ω - μ t i j| ≤ partialGpAlpha (t+1) K δ (1:ℝ) * √(v t i j : ℝ)} :=
  gauss_coverage P (fun t => partialGpAlpha (t+1) K δ (1:ℝ)) X hX μ v hlaw
    (partialgp_rect_union K m hK hm δ h0 h1 μ v).1 (partialgp_rect_union K m hK hm δ h0 h1 μ v).2

/-- **Auer (original β): valid with probability ≥ 1 − δ.**  `X t i j` = empirical mean of objective
`j` of design `i` after `t+1` samples, law `N(f i j, s t i j)` with `s t i j ≤ 1/(t+1)` (per-sample
variance ≤ 1).  With probability `≥ 1 − δ` the truth `f i j` is within `β_{t+1}` of the empirical
mean (the displayed region, identity covariance) in every round, for every design and objective. -/
theorem auer_valid {Ω : Type*} [MeasurableSpace Ω] (P : Measure Ω) [IsProbabilityMeasure P]
    (K m : ℕ) (hK : 1 ≤ K) (hm : 1 ≤ m) (δ : ℝ) (h0 : 0 < δ) (h1 : δ < 1)
    (f : Fin K → Fin m → ℝ) (s : ℕ → Fin K → Fin m → ℝ≥0)
    (hs : ∀ t i j, (s t i j : ℝ) ≤ 1 / ((t:ℝ)+1))
    (X : ℕ → Fin K → Fin m → Ω → ℝ) (hX : ∀ t i j, Measurable (X t i j))
    (hlaw : ∀ t i j, P.map (X t i j) = gaussianReal (f i j) (s t i j)) :
    1 - δ ≤ P.real {ω | ∀ t i j, |X t i j ω - f i j| ≤ auerBeta (t+1) m K δ (1:ℝ)} := by
  have hu := auer_union K m hK hm δ h0 h1 f s hs
  have h := law_coverage P (ι := Fin K × Fin m) (fun t a => X t a.1 a.2) (fun t a => hX t a.1 a.2)
    (fun t a => gaussianReal (f a.1 a.2) (s t a.1 a.2)) (fun t a => hlaw t a.1 a.2)
    (fun t a => {x | auerBeta (t+1) m K δ (1:ℝ) < |x - f a.1 a.2|})
    (fun t a => measurableSet_lt measurable_const (by fun_prop)) (δ := δ)
    (by simpa only [Fintype.sum_prod_type] using hu.1)
    (by simpa only [Fintype.sum_prod_type] using hu.2)
  refine h.trans (le_of_eq ?_)
  congr 1
  ext ω
  simp [not_lt]

/-- **Auer from the sampling model.**  `Y i j k` = `k`-th noisy observation of objective `j` of
design `i`: independent over `k`, law `N(f i j, v i j)` with `v i j ≤ 1` (nothing is assumed about
dependence between designs or objectives).  The empirical mean after `t+1` samples is then
`N(f, v/(t+1))` (`sample_mean_gaussian`), so with probability `≥ 1 − δ` every empirical mean stays
within `β_{t+1}` (the code's `Auer.compute_beta`, contraction 1) of the truth, in all rounds. -/
theorem auer_valid_iid {Ω : Type*} [MeasurableSpace Ω] (P : Measure Ω) [IsProbabilityMeasure P]
    (K m : ℕ) (hK : 1 ≤ K) (hm : 1 ≤ m) (δ : ℝ) (h0 : 0 < δ) (h1 : δ < 1)
    (f : Fin K → Fin m → ℝ) (v : Fin K → Fin m → ℝ≥0) (hv : ∀ i j, v i j ≤ 1)
    (Y : Fin K → Fin m → ℕ → Ω → ℝ) (hY : ∀ i j k, Measurable (Y i j k))
    (hind : ∀ i j, iIndepFun (Y i j) P)
    (hlaw : ∀ i j k, P.map (Y i j k) = gaussianReal (f i j) (v i j)) :
    1 - δ ≤ P.real {ω | ∀ t i j,
      |(∑ k ∈ Finset.range (t+1), Y i j k ω) / ((t+1 : ℕ):ℝ) - f i j|
        ≤ auerBeta (t+1) m K δ (1:ℝ)} := by
  refine auer_valid P K m hK hm δ h0 h1 f (fun t i j => v i j / ((t+1 : ℕ) : ℝ≥0)) ?_
    (fun t i j ω => (∑ k ∈ Finset.range (t+1), Y i j k ω) / ((t+1 : ℕ):ℝ)) ?_ ?_
  · intro t i j
    push_cast
    have hv' : ((v i j : ℝ≥0) : ℝ) ≤ 1 := by exact_mod_cast hv i j
    exact div_le_div_of_nonneg_right hv' (by positivity)
  · intro t i j
    exact (Finset.measurable_sum _ (fun k _ => hY i j k)).div_const _
  · intro t i j
    exact sample_mean_gaussian P (Y i j) (hY i j) (hind i j) (f i j) (v i j) (hlaw i j) (t+1)
      (Nat.succ_pos t)

/-- **PaVeBa: valid with probability ≥ 1 − δ** (under the arithmetic condition of `paveba_union`,
which holds for `m ≤ 20`, `paveba_cond_of_le`).  `e t i` = error (sample mean − truth) of design `i`
after `t+1` samples, with `m` i.i.d. `N(0, σ²/(t+1))` coordinates.  With probability `≥ 1 − δ`,
`‖e t i‖₂ ≤ r_{t+1}` in every round for every design, i.e. (`ell_region_ball`) the truth is always
inside the displayed ball. -/
theorem paveba_valid {Ω : Type*} [MeasurableSpace Ω] (P : Measure Ω) [IsProbabilityMeasure P]
    (K m : ℕ) (hK : 1 ≤ K) (δ : ℝ) (h0 : 0 < δ) (h1 : δ < 1) (σ2 : ℝ≥0) (hσ : σ2 ≠ 0)
    (hcond : (√2)^m * 2 * δ ≤ 5 * ((m:ℝ)+1)^2 * K)
    (e : ℕ → Fin K → Ω → (Fin m → ℝ)) (he : ∀ t i, Measurable (e t i))
    (hlaw : ∀ t i, P.map (e t i)
      = Measure.pi (fun _ : Fin m => gaussianReal 0 (σ2 / ((t:ℝ≥0)+1)))) :
    1 - δ ≤ P.real {ω | ∀ t i,
      √(∑ j, (e t i ω j)^2) ≤ pavebaRadius (σ2:ℝ) (t+1) m K δ (1:ℝ)} := by
  have hu := paveba_union K m hK δ h0 h1 σ2 hσ hcond
  have h := law_coverage P (ι := Fin K) e he
    (fun t _ => Measure.pi (fun _ : Fin m => gaussianReal 0 (σ2 / ((t:ℝ≥0)+1)))) hlaw
    (fun t _ => {z | pavebaRadius (σ2:ℝ) (t+1) m K δ (1:ℝ) < √(∑ j, (z j)^2)})
    (fun t _ => measurableSet_lt measurable_const (by fun_prop)) (δ := δ) hu.1 hu.2
  refine h.trans (le_of_eq ?_)
  congr 1
  ext ω
  simp [not_lt]

/-- **PaVeBaGP (DE): valid with probability ≥ 1 − δ.**  `z t i` = whitened posterior error
`Σ^{-1/2}(f − μ)` of design `i` in round `t+1`, standard Gaussian on `Fin m → ℝ`.  With probability
`≥ 1 − δ`, `‖z t i‖₂ ≤ α_{t+1}` always, i.e. (`ell_outside_prob`, `ell_region_iff`) the value is
always inside the displayed ellipsoid of radius `α_t`. -/
theorem pavebagp_ell_valid {Ω : Type*} [MeasurableSpace Ω] (P : Measure Ω)
    [IsProbabilityMeasure P] (K m : ℕ) (hK : 1 ≤ K) (hm : 1 ≤ m) (δ : ℝ) (h0 : 0 < δ) (h1 : δ < 1)
    (z : ℕ → Fin K → Ω → (Fin m → ℝ)) (hz : ∀ t i, Measurable (z t i))
    (hlaw : ∀ t i, P.map (z t i) = Measure.pi (fun _ : Fin m => gaussianReal 0 1)) :
    1 - δ ≤ P.real {ω | ∀ t i,
      √(∑ j, (z t i ω j)^2) ≤ pavebaGpAlpha (t+1) m K δ (1:ℝ)} := by
  have hu := pavebagp_ell_union K m hK hm δ h0 h1
  have h := law_coverage P (ι := Fin K) z hz
    (fun _ _ => Measure.pi (fun _ : Fin m => gaussianReal 0 1)) hlaw
    (fun t _ => {y | pavebaGpAlpha (t+1) m K δ (1:ℝ) < √(∑ j, (y j)^2)})
    (fun t _ => measurableSet_lt measurable_const (by fun_prop)) (δ := δ) hu.1 hu.2
  refine h.trans (le_of_eq ?_)
  congr 1
  ext ω
  simp [not_lt]

/-- **PaVeBaPartialGP (hyper-ellipsoid), partial: valid with probability ≥ 1 − δ** for `m ≤ 6` and
`2δ ≤ K` (same gap as `partialgp_ell_union_partial`: `K = 1`, `δ > 1/2`, `3 ≤ m ≤ 6`); `z t i` the
whitened posterior error as in `pavebagp_ell_valid`. -/
theorem partialgp_ell_valid_partial {Ω : Type*} [MeasurableSpace Ω] (P : Measure Ω)
    [IsProbabilityMeasure P] (K m : ℕ) (hK : 1 ≤ K) (hm : m ≤ 6) (δ : ℝ) (h0 : 0 < δ) (h1 : δ < 1)
    (h2 : 2 * δ ≤ K)
    (z : ℕ → Fin K → Ω → (Fin m → ℝ)) (hz : ∀ t i, Measurable (z t i))
    (hlaw : ∀ t i, P.map (z t i) = Measure.pi (fun _ : Fin m => gaussianReal 0 1)) :
    1 - δ ≤ P.real {ω | ∀ t i,
      √(∑ j, (z t i ω j)^2) ≤ partialGpAlpha (t+1) K δ (1:ℝ)} := by
  have hu := partialgp_ell_union_partial K m hK hm δ h0 h1 h2
  have h := law_coverage P (ι := Fin K) z hz
    (fun _ _ => Measure.pi (fun _ : Fin m => gaussianReal 0 1)) hlaw
    (fun t _ => {y | partialGpAlpha (t+1) K δ (1:ℝ) < √(∑ j, (y j)^2)})
    (fun t _ => measurableSet_lt measurable_const (by fun_prop)) (δ := δ) hu.1 hu.2
  refine h.trans (le_of_eq ?_)
  congr 1
  ext ω
  simp [not_lt]

/-- non-vacuity of the coverage setting: `Ω = ℝ`, `P = N(0,1)`, every `X t i j` the identity -/
example : 1 - (1/10 : ℝ) ≤ (gaussianReal 0 1).real {ω : ℝ | ∀ (t : ℕ) (_i : Fin 4) (_j : Fin 2),
    |ω - 0| ≤ vogpBeta t 2 4 (1/10) (1:ℝ) * √((1:ℝ≥0):ℝ)} :=
  vogp_valid (gaussianReal 0 1) 4 2 (by norm_num) (by norm_num) (1/10) (by norm_num) (by norm_num)
    (fun _ _ _ ω => ω) (fun _ _ _ => measurable_id) (fun _ _ _ => 0) (fun _ _ _ => 1)
    (fun _ _ _ => Measure.map_id)

end VOPy.C04
