import VOPyVerif.Proofs.AccuracyRegions
import VOPyVerif.Proofs.AccuracyAuerGeom
import VOPyVerif.Proofs.IntegrationReal
import VOPyVerif.Proofs.StepsCongr
/-!
# C01 — valid confidence regions imply an ε-accurate Pareto set (PaVeBa family, Auer)

Property theorems only.  They are about the executable set transitions `Steps.pavebaRound` /
`Steps.auerRound` iterated by `Accuracy.pavebaRun` / `Accuracy.auerRun`, and about the executable
conclusions `Accuracy.accA`, `accB`, `accT` that the driver evaluates on the final `P` of a real run.

The chain is explicit:

  valid regions (+ the oracles deciding the semantic ∀∀ / ∃∃ predicates: C09 / C10)
    ⇒ per-round oracle soundness at the true means   (`paveba_roundSound_of_valid_regions`)
    ⇒ invariant over rounds                          (`paveba_invariant`)
    ⇒ conclusions at termination                     (`paveba_final_accurate`, `…_of_valid_regions`)
    ⇒ gap ≤ ε in the property's units                (`paveba_ellipsoid_final_accurate`,
                                                       `paveba_rect_final_accurate` with its side condition).

* `region_domination_strict_order`, `box_regions_nondegenerate` — the acyclicity hypothesis holds for
  non-empty, non-degenerate regions; boxes of positive size are non-degenerate.
* `inBox_spec`, `inEll_spec`, `auer_premise_uniform_is_box` — what the per-round premise checks mean.
* `rect_slack_is_threshold_Ws` — what the rectangular variants' slack means (suspected defect D6).
* `accB_of_accT` — thresholds `≤ ε·α` turn the code-units conclusion into `m(i,j) ≤ ε`.
* `gapLe_is_min_gap`, `accA_spec`, `accB_spec` — what the executable checks mean.
* `auer_final_accurate` — Auer's `m/M` rules with summed widths.
-/
namespace VOPy.C01
open VOPy VOPy.Steps VOPy.Accuracy

/-! ## the invariant, for any relations standing for the truth -/

/-- **Invariant of the PaVeBa family, abstractly.**  For any number of designs `K`, any relations
`dom` ("μ_j ≽ μ_i": transitive) and `good` ("j does not exceed i beyond the tolerance": reflexive,
downward closed along `dom`) and any sequence of per-round oracles that are sound for them
(`RoundSound`: region domination implies `dom` and is a strict partial order on the active designs
S ∪ U; a failed covering test between living designs implies `good`), after *every* number `T` of
rounds of `Steps.pavebaRound` from `(S, P, U) = (all, ∅, ∅)`:
(I1) `S`, `P` are disjoint duplicate-free sets of designs `< K` and `U ⊆ P`;
(I2) every design outside `S ∪ P` (discarded) is `dom`-inated by a design in `S ∪ P`;
(I3) every member of `P` is `good` against every design. -/
theorem paveba_invariant {K : Nat} {dom good : Nat → Nat → Prop} (htruth : Truth K dom good)
    (isDom isCov : Nat → Rel) (T : Nat)
    (hs : ∀ r, r < T → RoundSound dom good (isDom r) (isCov r)
      (pavebaRun K isDom isCov r).1 (pavebaRun K isDom isCov r).2.1 (pavebaRun K isDom isCov r).2.2) :
    let S := (pavebaRun K isDom isCov T).1
    let P := (pavebaRun K isDom isCov T).2.1
    let U := (pavebaRun K isDom isCov T).2.2
    (S.Nodup ∧ P.Nodup ∧ (∀ x, x ∈ S → x ∉ P) ∧ (∀ x, x ∈ S ∨ x ∈ P → x < K) ∧ (∀ x, x ∈ U → x ∈ P)) ∧
    (∀ i, i < K → i ∉ S → i ∉ P → ∃ j, (j ∈ S ∨ j ∈ P) ∧ dom j i) ∧
    (∀ i, i ∈ P → ∀ j, j < K → good i j) := by
  have h := paveba_run_inv htruth isDom isCov T hs
  exact ⟨⟨h.nodupS, h.nodupP, h.disj, h.lt, h.subU⟩, h.covered, h.acc⟩

/-! ## the conclusions at termination, for a cone `W` and facet thresholds `t` -/

/-- **Final accuracy from sound oracles.**  Any cone matrix `W` (any number of facets), any number
of designs `K` with true means `μ i` of one length `m`, any facet-threshold vector `t` (one entry
per facet, some entry positive) and any per-round oracles.  If in every round `r < T` the oracles
are sound at the true means — `isDom_r i j → μ_j ≽ μ_i`, `isDom_r` a strict partial order on the
active designs, `isCov_r i j = false → ∃ n, w_n·(μ_j − μ_i) < t_n` for living `i ≠ j` — and no
candidate is left after round `T`, then the final `P` satisfies
(a) `accA`: every design outside `P` is weakly dominated by a member of `P`, and
(b, in the units of `t`) `accT`: for every `i ∈ P` and every other design `j` some facet has
`w_n·(μ_j − μ_i) < t_n`. -/
theorem paveba_final_accurate (W : Mat) (t : Vec) (m K : Nat) (mu : Nat → Vec)
    (hmu : ∀ i, i < K → (mu i).length = m)
    (hpos : ∃ n, ∃ _ : n < W.length, ∃ h2 : n < t.length, 0 < t[n])
    (isDom isCov : Nat → Rel) (T : Nat)
    (hs : ∀ r, r < T → RoundSound (fun j i => dominates W (mu j) (mu i) = true)
      (fun i j => notCovers W t (mu i) (mu j) = true) (isDom r) (isCov r)
      (pavebaRun K isDom isCov r).1 (pavebaRun K isDom isCov r).2.1 (pavebaRun K isDom isCov r).2.2)
    (hfinal : (pavebaRun K isDom isCov T).1 = []) :
    accA W K mu (pavebaRun K isDom isCov T).2.1 = true ∧
    accT W t K mu (pavebaRun K isDom isCov T).2.1 = true := by
  have h := paveba_run_inv (truth_of_means W t m K mu hmu hpos) isDom isCov T hs
  constructor
  · rw [accA_iff]
    intro i hi
    by_cases hiP : i ∈ (pavebaRun K isDom isCov T).2.1
    · exact Or.inl hiP
    · right
      obtain ⟨j, hj, hji⟩ := h.covered i hi (by rw [hfinal]; simp) hiP
      rcases hj with hj | hj
      · rw [hfinal] at hj; simp at hj
      · exact ⟨j, hj, hji⟩
  · rw [accT_iff]
    intro i hi j hj
    exact Or.inr (h.acc i hi j hj)

/-- **Region domination is a strict partial order on non-empty, non-degenerate regions.**  With
`SemDominated W R₁ R₂ := ∀ z ∈ R₁, ∀ z' ∈ R₂, z' ≽ z`: it is transitive through a non-empty middle
region, and a region on which some facet functional takes two different values (every ball / box /
ellipsoid of positive size, for a cone with at least one non-zero facet) does not dominate itself.
This is the acyclicity hypothesis of `RoundSound`. -/
theorem region_domination_strict_order (W : Mat) (m : Nat) (R1 R2 R3 : Region)
    (h1 : ∀ z, R1 z → z.length = m) (h2 : ∀ z, R2 z → z.length = m) (h3 : ∀ z, R3 z → z.length = m) :
    ((∃ z, R2 z) → SemDominated W R1 R2 → SemDominated W R2 R3 → SemDominated W R1 R3) ∧
    ((∃ z, R1 z ∧ ∃ z', R1 z' ∧ ∃ w ∈ W, dot w z ≠ dot w z') → ¬ SemDominated W R1 R1) :=
  ⟨fun hne h12 h23 => semDominated_trans W m R1 R2 R3 h1 h2 h3 hne h12 h23,
   fun hnd => semDominated_irrefl W m R1 h1 hnd⟩

/-- **Boxes of positive size are non-degenerate.**  A displayed rectangle `[l, u]` (`l ≤ u`) that has
positive width in some coordinate on which some facet of the cone has a non-zero entry contains two
points separated by that facet functional — the `hnondeg` hypothesis of
`paveba_oracles_sound_of_valid_regions` for `R := fun z => inBox l u z = true`. -/
theorem box_regions_nondegenerate (W : Mat) (l u : Vec) (hlen : l.length = u.length) (hle : vle l u = true)
    (w : Vec) (hwW : w ∈ W) (d : Nat) (hd : d < l.length) (hwd : d < w.length)
    (hw : w[d] ≠ 0) (hlt : l[d] < u[d]'(by omega)) :
    ∃ z, inBox l u z = true ∧ ∃ z', inBox l u z' = true ∧ ∃ w ∈ W, dot w z ≠ dot w z' :=
  box_nondegenerate W l u hlen hle w hwW d hd hwd hw hlt

/-- **Valid regions give sound oracles.**  `R r i` is the region of design `i` as the decision
phases of round `r` see it.  If the two oracles decide the semantic predicates (`is_dominated` ⇔
∀∀ with zero slack; `is_covered = False` ⇒ ¬∃∃ with thresholds `t`), the true mean of every design
active in round `r` (S ∪ U — the ones `modeling()` refreshes) is inside its displayed region, a
design that is not active keeps the region it had, and active regions are non-degenerate, then
every round is `RoundSound` at the true means.  (Members of `P ∖ U` are handled by persistence:
their last displayed region still contains the truth.) -/
theorem paveba_oracles_sound_of_valid_regions (W : Mat) (t : Vec) (m K : Nat) (mu : Nat → Vec)
    (R : Nat → Nat → Region) (isDom isCov : Nat → Rel) (T : Nat)
    (hlen : ∀ r i z, R r i z → z.length = m)
    (hDom : ∀ r, r < T → ∀ i j, isDom r i j = true ↔ SemDominated W (R r i) (R r j))
    (hCov : ∀ r, r < T → ∀ i j, isCov r i j = false → ¬ SemCoverable W t (R r i) (R r j))
    (hvalid : ∀ r, r < T → ∀ i,
      (i ∈ (pavebaRun K isDom isCov r).1 ∨ i ∈ (pavebaRun K isDom isCov r).2.2) → R r i (mu i))
    (hpersist : ∀ r, r + 1 < T → ∀ i,
      ¬ (i ∈ (pavebaRun K isDom isCov (r + 1)).1 ∨ i ∈ (pavebaRun K isDom isCov (r + 1)).2.2) →
      R (r + 1) i = R r i)
    (hnondeg : ∀ r, r < T → ∀ i,
      (i ∈ (pavebaRun K isDom isCov r).1 ∨ i ∈ (pavebaRun K isDom isCov r).2.2) →
      ∃ z, R r i z ∧ ∃ z', R r i z' ∧ ∃ w ∈ W, dot w z ≠ dot w z') :
    ∀ r, r < T → RoundSound (fun j i => dominates W (mu j) (mu i) = true)
      (fun i j => notCovers W t (mu i) (mu j) = true) (isDom r) (isCov r)
      (pavebaRun K isDom isCov r).1 (pavebaRun K isDom isCov r).2.1 (pavebaRun K isDom isCov r).2.2 :=
  paveba_roundSound_of_valid_regions W t m K mu R isDom isCov T hlen hDom hCov hvalid hpersist hnondeg

/-- **C01 for the PaVeBa family, end to end.**  Valid, non-degenerate displayed regions in every
round (premise of the property), oracles that decide the semantic predicates, and termination
(`S = ∅` after round `T`) imply conclusions (a) `accA` and (b) `accT` for the thresholds `t` the
covering test really used. -/
theorem paveba_final_accurate_of_valid_regions (W : Mat) (t : Vec) (m K : Nat) (mu : Nat → Vec)
    (hmu : ∀ i, i < K → (mu i).length = m)
    (hpos : ∃ n, ∃ _ : n < W.length, ∃ h2 : n < t.length, 0 < t[n])
    (R : Nat → Nat → Region) (isDom isCov : Nat → Rel) (T : Nat)
    (hlen : ∀ r i z, R r i z → z.length = m)
    (hDom : ∀ r, r < T → ∀ i j, isDom r i j = true ↔ SemDominated W (R r i) (R r j))
    (hCov : ∀ r, r < T → ∀ i j, isCov r i j = false → ¬ SemCoverable W t (R r i) (R r j))
    (hvalid : ∀ r, r < T → ∀ i,
      (i ∈ (pavebaRun K isDom isCov r).1 ∨ i ∈ (pavebaRun K isDom isCov r).2.2) → R r i (mu i))
    (hpersist : ∀ r, r + 1 < T → ∀ i,
      ¬ (i ∈ (pavebaRun K isDom isCov (r + 1)).1 ∨ i ∈ (pavebaRun K isDom isCov (r + 1)).2.2) →
      R (r + 1) i = R r i)
    (hnondeg : ∀ r, r < T → ∀ i,
      (i ∈ (pavebaRun K isDom isCov r).1 ∨ i ∈ (pavebaRun K isDom isCov r).2.2) →
      ∃ z, R r i z ∧ ∃ z', R r i z' ∧ ∃ w ∈ W, dot w z ≠ dot w z')
    (hfinal : (pavebaRun K isDom isCov T).1 = []) :
    accA W K mu (pavebaRun K isDom isCov T).2.1 = true ∧
    accT W t K mu (pavebaRun K isDom isCov T).2.1 = true :=
  paveba_final_accurate W t m K mu hmu hpos isDom isCov T
    (paveba_roundSound_of_valid_regions W t m K mu R isDom isCov T hlen hDom hCov hvalid hpersist hnondeg)
    hfinal

/-! ## from the code's threshold units to `m(i,j) ≤ ε` -/

/-- **Thresholds `≤ ε·α` give gap `≤ ε`.**  If `α_n > 0`, `ε ≥ 0`, the threshold vector has one entry
per entry of `α` and `t_n ≤ ε·α_n` for every facet, the code-units conclusion `accT W t` implies
conclusion (b) `accB W α ε`: `∀ i ∈ P, ∀ j, m(i,j) = min_n max(0, w_n·(μ_j − μ_i))/α_n ≤ ε`. -/
theorem accB_of_accT (W : Mat) (alpha t : Vec) (eps : Rat) (K : Nat) (mu : Nat → Vec) (P : List Nat)
    (heps : 0 ≤ eps) (hal : ∀ n, ∀ h : n < alpha.length, 0 < alpha[n])
    (hne : ∃ n, n < W.length ∧ n < alpha.length)
    (hlen : t.length = alpha.length)
    (hle : ∀ n, ∀ h1 : n < t.length, ∀ h2 : n < alpha.length, t[n] ≤ eps * alpha[n])
    (h : accT W t K mu P = true) : accB W alpha eps K mu P = true := by
  rw [accT_iff] at h
  rw [accB_iff]
  intro i hi j hj
  rcases h i hi j hj with rfl | hnc
  · exact gapLe_self W alpha eps (mu j) heps hne
  · exact gapLe_of_notCovers W alpha t eps (mu i) (mu j) heps hal hlen hle hnc

/-- **C01 (b) for the ellipsoidal variants** (PaVeBa, PaVeBaGP-DE, PaVeBaPartialGP-ellipsoid): there
the covering test receives the per-facet slack `ε·α` as per-facet thresholds, `t = ε·α`, and the
final `P` satisfies (a) and (b) `∀ i ∈ P, ∀ j, m(i,j) ≤ ε` — for any cone, `ε > 0`, `α > 0`. -/
theorem paveba_ellipsoid_final_accurate (W : Mat) (alpha : Vec) (eps : Rat) (m K : Nat) (mu : Nat → Vec)
    (hmu : ∀ i, i < K → (mu i).length = m)
    (heps : 0 < eps) (hal : ∀ n, ∀ h : n < alpha.length, 0 < alpha[n])
    (hne : ∃ n, n < W.length ∧ n < alpha.length)
    (isDom isCov : Nat → Rel) (T : Nat)
    (hs : ∀ r, r < T → RoundSound (fun j i => dominates W (mu j) (mu i) = true)
      (fun i j => notCovers W (smul eps alpha) (mu i) (mu j) = true) (isDom r) (isCov r)
      (pavebaRun K isDom isCov r).1 (pavebaRun K isDom isCov r).2.1 (pavebaRun K isDom isCov r).2.2)
    (hfinal : (pavebaRun K isDom isCov T).1 = []) :
    accA W K mu (pavebaRun K isDom isCov T).2.1 = true ∧
    accB W alpha eps K mu (pavebaRun K isDom isCov T).2.1 = true := by
  have hl : (smul eps alpha).length = alpha.length := by simp [smul]
  have hget : ∀ n, ∀ h1 : n < (smul eps alpha).length, ∀ h2 : n < alpha.length,
      (smul eps alpha)[n] = eps * alpha[n] := by
    intro n h1 h2; simp [smul]
  obtain ⟨n, hn1, hn2⟩ := hne
  have hpos : ∃ n, ∃ _ : n < W.length, ∃ h2 : n < (smul eps alpha).length, 0 < (smul eps alpha)[n] :=
    ⟨n, hn1, by omega, by rw [hget n (by omega) hn2]; exact mul_pos heps (hal n hn2)⟩
  obtain ⟨hA, hT⟩ := paveba_final_accurate W (smul eps alpha) m K mu hmu hpos isDom isCov T hs hfinal
  exact ⟨hA, accB_of_accT W alpha (smul eps alpha) eps K mu _ (le_of_lt heps) hal ⟨n, hn1, hn2⟩ hl
    (fun k h1 h2 => le_of_eq (hget k h1 h2)) hT⟩


/-! ### non-vacuity: three designs, one is discarded, two reach `P` -/

/-- true means of the examples: design 0 is dominated, designs 1 and 2 are within ε of each other -/
private def exMu : Nat → Vec := fun i => ([[0, 0], [2, 2], [2, 9/4]] : List Vec).getD i []
/-- region 0 is dominated by regions 1 and 2 -/
private def exDom : Nat → Rel := fun _ i j => i == 0 && (j == 1 || j == 2)
/-- region 0 can be ε-covered by every region, nothing else can -/
private def exCov : Nat → Rel := fun _ i _ => i == 0

/-- The hypotheses of `paveba_ellipsoid_final_accurate` are satisfiable with a non-trivial outcome:
orthant cone, `ε = 1/2`, `α = (1,1)`; the single round is sound, the run terminates with
`P = {1, 2}` and design 0 discarded, and the theorem yields both conclusions. -/
example :
    pavebaRun 3 exDom exCov 1 = ([], [1, 2], []) ∧
    accA (identMat 2) 3 exMu (pavebaRun 3 exDom exCov 1).2.1 = true ∧
    accB (identMat 2) [1, 1] (1/2) 3 exMu (pavebaRun 3 exDom exCov 1).2.1 = true := by
  refine ⟨by decide +kernel, ?_⟩
  apply paveba_ellipsoid_final_accurate (identMat 2) [1, 1] (1/2) 2 3 exMu
  · decide +kernel
  · norm_num
  · decide +kernel
  · exact ⟨0, by decide +kernel⟩
  · intro r hr
    have : r = 0 := by omega
    subst this
    exact roundSound_of_check _ _ _ _ _ _ _ _ (by decide +kernel)
  · decide +kernel

/-- **What the rectangular variants' slack means.**  `RectangularConfidenceRegion.is_covered` adds its
slack `s` in objective space (`∃∃ z' ≽ z + s`); for regions of vectors of the length of `s` this is
the covering predicate with facet thresholds `W·s` — not `s` itself. -/
theorem rect_slack_is_threshold_Ws (W : Mat) (s : Vec) (R1 R2 : Region)
    (h1 : ∀ z, R1 z → z.length = s.length) (h2 : ∀ z, R2 z → z.length = s.length) :
    SemCoverableS W s R1 R2 ↔ SemCoverable W (matVec W s) R1 R2 :=
  semCoverableS_iff W s R1 R2 h1 h2

/-- **C01 (b) for the rectangular variants** (PaVeBaGP-IH, PaVeBaPartialGP-hyperrectangle), stated
with the slack semantics the code uses: the vector `s = ε·α` (which must then have `m` entries,
i.e. `N = m` facets) is an objective-space shift, so the thresholds are `t = W·s`.  Under the
side condition `W·(εα) ≤ εα` componentwise (`slackSideCondition`; equality for the orthant) the
final `P` satisfies (a) and (b).  Where the side condition fails (e.g. obtuse cones) only the
weaker `accT W (W·s)` of `paveba_final_accurate` is available — suspected defect D6. -/
theorem paveba_rect_final_accurate (W : Mat) (alpha : Vec) (eps : Rat) (m K : Nat) (mu : Nat → Vec)
    (hmu : ∀ i, i < K → (mu i).length = m)
    (heps : 0 ≤ eps) (hal : ∀ n, ∀ h : n < alpha.length, 0 < alpha[n])
    (hne : ∃ n, n < W.length ∧ n < alpha.length)
    (hpos : ∃ n, ∃ _ : n < W.length, ∃ h2 : n < (matVec W (smul eps alpha)).length,
      0 < (matVec W (smul eps alpha))[n])
    (hside : slackSideCondition W (smul eps alpha) (smul eps alpha) = true)
    (isDom isCov : Nat → Rel) (T : Nat)
    (hs : ∀ r, r < T → RoundSound (fun j i => dominates W (mu j) (mu i) = true)
      (fun i j => notCovers W (matVec W (smul eps alpha)) (mu i) (mu j) = true) (isDom r) (isCov r)
      (pavebaRun K isDom isCov r).1 (pavebaRun K isDom isCov r).2.1 (pavebaRun K isDom isCov r).2.2)
    (hfinal : (pavebaRun K isDom isCov T).1 = []) :
    accA W K mu (pavebaRun K isDom isCov T).2.1 = true ∧
    accB W alpha eps K mu (pavebaRun K isDom isCov T).2.1 = true := by
  obtain ⟨hA, hT⟩ := paveba_final_accurate W (matVec W (smul eps alpha)) m K mu hmu hpos isDom isCov T
    hs hfinal
  refine ⟨hA, ?_⟩
  unfold slackSideCondition at hside
  simp only [Bool.and_eq_true, decide_eq_true_eq] at hside
  obtain ⟨hl, hv⟩ := hside
  have hl2 : (smul eps alpha).length = alpha.length := by simp [smul]
  unfold vle at hv
  rw [all_zipWith_iff] at hv
  apply accB_of_accT W alpha (matVec W (smul eps alpha)) eps K mu _ heps hal hne (hl.trans hl2)
  · intro n h1 h2
    have := hv n h1 (by omega)
    simp only [decide_eq_true_eq] at this
    have hg : (smul eps alpha)[n]'(by omega) = eps * alpha[n] := by simp [smul]
    rw [hg] at this
    exact this
  · exact hT

/-- **C01 for the rectangular variants, end to end, in the code's units.**  As
`paveba_final_accurate_of_valid_regions`, but with the covering oracle read the way
`RectangularConfidenceRegion.is_covered` works: `is_covered = False ⇒ ¬ ∃∃ z' ≽ z + s` with the slack
`s` an objective-space vector (`SemCoverableS`).  The conclusion is (a) and `accT` with the thresholds
`W·s`; (b) follows under the side condition by `accB_of_accT` / `paveba_rect_final_accurate`. -/
theorem paveba_rect_final_accurate_of_valid_regions (W : Mat) (s : Vec) (K : Nat) (mu : Nat → Vec)
    (hmu : ∀ i, i < K → (mu i).length = s.length)
    (hpos : ∃ n, ∃ _ : n < W.length, ∃ h2 : n < (matVec W s).length, 0 < (matVec W s)[n])
    (R : Nat → Nat → Region) (isDom isCov : Nat → Rel) (T : Nat)
    (hlen : ∀ r i z, R r i z → z.length = s.length)
    (hDom : ∀ r, r < T → ∀ i j, isDom r i j = true ↔ SemDominated W (R r i) (R r j))
    (hCov : ∀ r, r < T → ∀ i j, isCov r i j = false → ¬ SemCoverableS W s (R r i) (R r j))
    (hvalid : ∀ r, r < T → ∀ i,
      (i ∈ (pavebaRun K isDom isCov r).1 ∨ i ∈ (pavebaRun K isDom isCov r).2.2) → R r i (mu i))
    (hpersist : ∀ r, r + 1 < T → ∀ i,
      ¬ (i ∈ (pavebaRun K isDom isCov (r + 1)).1 ∨ i ∈ (pavebaRun K isDom isCov (r + 1)).2.2) →
      R (r + 1) i = R r i)
    (hnondeg : ∀ r, r < T → ∀ i,
      (i ∈ (pavebaRun K isDom isCov r).1 ∨ i ∈ (pavebaRun K isDom isCov r).2.2) →
      ∃ z, R r i z ∧ ∃ z', R r i z' ∧ ∃ w ∈ W, dot w z ≠ dot w z')
    (hfinal : (pavebaRun K isDom isCov T).1 = []) :
    accA W K mu (pavebaRun K isDom isCov T).2.1 = true ∧
    accT W (matVec W s) K mu (pavebaRun K isDom isCov T).2.1 = true :=
  paveba_final_accurate_of_valid_regions W (matVec W s) s.length K mu hmu hpos R isDom isCov T hlen hDom
    (fun r hr i j h hc => hCov r hr i j h
      ((semCoverableS_iff W s (R r i) (R r j) (hlen r i) (hlen r j)).mpr hc))
    hvalid hpersist hnondeg hfinal

/-! ## what the executable checks mean -/

/-- `gapLe` (decided facet by facet) is `m(i,j) ≤ ε` for the literal minimum
`m(i,j) = min_n max(0, w_n·(μ_j − μ_i))/α_n` computed by `mGap`. -/
theorem gapLe_is_min_gap (W : Mat) (alpha : Vec) (eps : Rat) (a b : Vec) (g : Rat)
    (hg : mGap W alpha a b = some g) : g ≤ eps ↔ gapLe W alpha eps a b = true :=
  mGap_le_iff W alpha eps a b g hg

/-- `accA` says: every design outside `P` is weakly dominated by a member of `P`. -/
theorem accA_spec (W : Mat) (K : Nat) (mu : Nat → Vec) (P : List Nat) :
    accA W K mu P = true ↔ ∀ i, i < K → i ∈ P ∨ ∃ j ∈ P, dominates W (mu j) (mu i) = true :=
  accA_iff W K mu P

/-- `accB` says: every member of `P` has `m(i,j) ≤ ε` against every design `j`. -/
theorem accB_spec (W : Mat) (alpha : Vec) (eps : Rat) (K : Nat) (mu : Nat → Vec) (P : List Nat) :
    accB W alpha eps K mu P = true ↔ ∀ i ∈ P, ∀ j, j < K → gapLe W alpha eps (mu i) (mu j) = true :=
  accB_iff W alpha eps K mu P

/-- `inBox l u x` (the per-round premise check for rectangles) says `l ≤ x ≤ u` in every coordinate,
the three vectors having one common length. -/
theorem inBox_spec (l u x : Vec) :
    inBox l u x = true ↔
      l.length = x.length ∧ u.length = x.length ∧
        ∀ n, ∀ h : n < x.length, ∀ hl : n < l.length, ∀ hu : n < u.length, l[n] ≤ x[n] ∧ x[n] ≤ u[n] :=
  inBox_iff l u x

/-- `inEll c Σ a x = some true` (the per-round premise check for ellipsoids / balls) certifies
`(x − c)ᵀ Σ⁻¹ (x − c) ≤ a²`: it exhibits `y` with `Σ y = x − c` and `(x − c)·y ≤ a²`, `a ≥ 0`. -/
theorem inEll_spec (c : Vec) (Sg : Mat) (a : Rat) (x : Vec) (h : inEll c Sg a x = some true) :
    ∃ y : Vec, matVec Sg y = vsub x c ∧ dot (vsub x c) y ≤ a * a ∧ 0 ≤ a :=
  inEll_sound c Sg a x h

/-- For a width row with equal entries (Auer with `use_empirical_beta = False`) the premise of
`auer_final_accurate` is exactly "μ_i inside the displayed box `[c − b, c + b]`". -/
theorem auer_premise_uniform_is_box (m : Nat) (hm : 0 < m) (c mu : Vec) (b : Rat)
    (hc : c.length = m) (hmu : mu.length = m) :
    errWithin c (List.replicate m b) mu = true ↔ inBox (c.map (· - b)) (c.map (· + b)) mu = true :=
  errWithin_uniform_iff_inBox m hm c mu b hc hmu

/-! ## Auer -/

/-- **C01 for Auer's algorithm.**  `m ≥ 1` objectives, componentwise order, `ε ≥ 0`.  If in every
round `r < T` every candidate `i ∈ S_r` has a centre `c_r(i)` and a positive width row `β_r(i)` with
`‖c_r(i) − μ_i‖_∞ ≤ min_d β_r(i)[d]` (`errWithin`; for rows with equal entries this is exactly
"μ_i inside the displayed box") and no candidate is left after round `T` of `Steps.auerRound`
(every width looked up by design), then (a) every design outside `P` is weakly dominated by a
member of `P` and (b) every member of `P` has `m(i,j) = min_d max(0, μ_j[d] − μ_i[d]) ≤ ε` against
every design. -/
theorem auer_final_accurate (m K : Nat) (hm : 0 < m) (eps : Rat) (heps : 0 ≤ eps) (mu : Nat → Vec)
    (hmu : ∀ i, i < K → (mu i).length = m) (centre width : Nat → Nat → Vec) (T : Nat)
    (hvalid : ∀ r, r < T → ∀ i, i ∈ (auerRun K eps centre width r).1 →
      (centre r i).length = m ∧ (width r i).length = m ∧
      errWithin (centre r i) (width r i) (mu i) = true ∧ widthsPos (width r i) = true)
    (hfinal : (auerRun K eps centre width T).1 = []) :
    accA (identMat m) K mu (auerRun K eps centre width T).2 = true ∧
    accB (identMat m) (ones m) eps K mu (auerRun K eps centre width T).2 = true := by
  have hones : ∀ n, ∀ h : n < (ones m).length, 0 < (ones m)[n] := by
    intro n h; simp [ones]
  have htruth : ATruth K (fun i j => sltB (mu i) (mu j) = true)
      (fun j i => dominates (identMat m) (mu j) (mu i) = true)
      (fun i j => gapLe (identMat m) (ones m) eps (mu i) (mu j) = true) := by
    refine ⟨?_, ?_, ?_, ?_, ?_, ?_⟩
    · intro i j k hi hj hk h1 h2
      rw [sltB_iff] at h1 h2 ⊢
      intro n hn1 hn2
      have hn : n < m := (hmu i hi) ▸ hn1
      exact lt_trans (h1 n hn1 (by rw [hmu j hj]; exact hn)) (h2 n (by rw [hmu j hj]; exact hn) hn2)
    · intro i hi h
      rw [sltB_iff] at h
      exact lt_irrefl _ (h 0 (by rw [hmu i hi]; exact hm) (by rw [hmu i hi]; exact hm))
    · intro i j hi hj h
      exact sltB_dominates m _ _ (hmu i hi) (hmu j hj) h
    · intro i j k hi hj hk h1 h2
      exact dominates_trans _ _ _ _ ((hmu i hi).trans (hmu j hj).symm) ((hmu j hj).trans (hmu k hk).symm) h1 h2
    · intro i _
      exact gapLe_self _ _ _ _ heps ⟨0, by rw [identMat_length]; exact hm, by rw [ones_length]; exact hm⟩
    · intro i k j hi hk hj h1 h2
      exact gapLe_mono _ _ _ _ _ _ hones ((hmu i hi).trans (hmu k hk).symm)
        ((hmu k hk).trans (hmu j hj).symm) h1 h2
  have hsound : ∀ r, r < T → ARoundSound (fun i j => sltB (mu i) (mu j) = true)
      (fun i j => gapLe (identMat m) (ones m) eps (mu i) (mu j) = true)
      (dcert (centre r) (width r)) (p1brk eps (centre r) (width r)) (p2brk eps (centre r) (width r))
      (auerRun K eps centre width r).1 := by
    intro r hr
    -- designs of S_r are < K (the invariant of the earlier rounds is not needed: S_r ⊆ range K)
    have hsub : ∀ t, ∀ x, x ∈ (auerRun K eps centre width t).1 → x < K := by
      intro t
      induction t with
      | zero => intro x hx; exact List.mem_range.mp hx
      | succ t ih =>
        intro x hx
        have hnd : ∀ t, (auerRun K eps centre width t).1.Nodup := by
          intro t
          induction t with
          | zero => exact List.nodup_range
          | succ t iht =>
            have : (auerRun K eps centre width (t + 1)).1 =
                removeAll (auerDiscard (centre t) (width t) (auerRun K eps centre width t).1)
                  (auerNewParetoCore eps (centre t) (byDesign (width t)
                    (auerDiscard (centre t) (width t) (auerRun K eps centre width t).1))) := rfl
            rw [this]
            exact nodup_removeAll (nodup_removeAll iht)
        have : (auerRun K eps centre width (t + 1)).1 =
            removeAll (auerDiscard (centre t) (width t) (auerRun K eps centre width t).1)
              (auerNewParetoCore eps (centre t) (byDesign (width t)
                (auerDiscard (centre t) (width t) (auerRun K eps centre width t).1))) := rfl
        rw [this] at hx
        have h1 := ((mem_removeAll (nodup_removeAll (hnd t))).mp hx).1
        exact ih x ((mem_auerDiscard (hnd t)).mp h1).1
    refine ⟨?_, ?_, ?_⟩
    · intro i hi j hj _ hc
      obtain ⟨a1, a2, a3, a4⟩ := hvalid r hr i hi
      obtain ⟨b1, b2, b3, b4⟩ := hvalid r hr j hj
      exact cert_sound_coord a1 b1 a2 b2 (hmu i (hsub r i hi)) (hmu j (hsub r j hj)) a3 b3 a4 b4 hc
    · intro i hi j hj _ hc
      obtain ⟨a1, a2, a3, a4⟩ := hvalid r hr i hi
      obtain ⟨b1, b2, b3, b4⟩ := hvalid r hr j hj
      exact gapLe_identMat_of_coord m eps heps _ _ (hmu i (hsub r i hi)) (hmu j (hsub r j hj))
        (p1_sound_coord a1 b1 a2 b2 (hmu i (hsub r i hi)) (hmu j (hsub r j hj)) a3 b3 a4 b4 hc)
    · intro i hi j hj _ hc
      obtain ⟨a1, a2, a3, a4⟩ := hvalid r hr i hi
      obtain ⟨b1, b2, b3, b4⟩ := hvalid r hr j hj
      exact gapLe_identMat_of_coord m eps heps _ _ (hmu j (hsub r j hj)) (hmu i (hsub r i hi))
        (p2_sound_coord a1 b1 a2 b2 (hmu i (hsub r i hi)) (hmu j (hsub r j hj)) a3 b3 a4 b4 hc)
  have h := auer_run_inv htruth eps centre width T hsound
  constructor
  · rw [accA_iff]
    intro i hi
    by_cases hiP : i ∈ (auerRun K eps centre width T).2
    · exact Or.inl hiP
    · right
      obtain ⟨j, hj, hji⟩ := h.covered i hi (by rw [hfinal]; simp) hiP
      rcases hj with hj | hj
      · rw [hfinal] at hj; simp at hj
      · exact ⟨j, hj, hji⟩
  · rw [accB_iff]
    intro i hi j hj
    exact h.acc i hi j hj

/-- The hypotheses of `auer_final_accurate` are satisfiable with a non-trivial outcome: centres equal
to the true means, all widths `1/4`, `ε = 1/2`: design 0 is eliminated, designs 1 and 2 reach `P`
in the first round. -/
example :
    auerRun 3 (1/2) (fun _ => exMu) (fun _ _ => [1/4, 1/4]) 1 = ([], [1, 2]) ∧
    accA (identMat 2) 3 exMu (auerRun 3 (1/2) (fun _ => exMu) (fun _ _ => [1/4, 1/4]) 1).2 = true ∧
    accB (identMat 2) (ones 2) (1/2) 3 exMu
      (auerRun 3 (1/2) (fun _ => exMu) (fun _ _ => [1/4, 1/4]) 1).2 = true := by
  refine ⟨by decide +kernel, ?_⟩
  apply auer_final_accurate 2 3 (by norm_num) (1/2) (by norm_num) exMu
  · decide +kernel
  · intro r hr
    have : r = 0 := by omega
    subst this
    decide +kernel
  · decide +kernel

/-! ### the two places where the implication is *not* provable (genuine defects found by the harness) -/

/-- Without the side condition `W·(εα) ≤ εα` the code-units conclusion does not give (b): obtuse cone
`W = [[2,1],[1,2]]`, `ε·α = (1,1)` read as an objective-space shift gives thresholds `W·s = (3,3)`;
with `μ₀ = (0,0)`, `μ₁ = (1/2,1/2)` and `P = {0,1}` the conclusion `accT` holds while design 1
exceeds design 0 by `3/2 > ε·α_n = 1` on every facet (defect D6, key `rect-slack-objective-space-units`). -/
example :
    let W : Mat := [[2, 1], [1, 2]]
    let mu : Nat → Vec := fun i => ([[0, 0], [1/2, 1/2]] : List Vec).getD i []
    slackSideCondition W [1, 1] [1, 1] = false ∧
    accT W (matVec W [1, 1]) 2 mu [0, 1] = true ∧ accB W [1, 1] 1 2 mu [0, 1] = false := by
  decide +kernel

/-- For Auer the premise "the truth is inside the displayed box" (per-objective widths) is *not*
enough once width rows are not uniform across objectives: two designs, `ε = 1`, `μ₁ − μ₀ = (5/4, 5/4)`;
in both rounds the truth is inside both boxes, yet two rounds of `Steps.auerRound` put both designs
into `P` (key `auer-scalar-M-vs-smallest-width`; the theorem `auer_final_accurate` needs
`‖c − μ‖_∞ ≤ min_d β_d`, which fails here in round 2). -/
example :
    let mu : Nat → Vec := fun i => ([[0, 0], [5/4, 5/4]] : List Vec).getD i []
    let centre : Nat → Nat → Vec := fun r i =>
      ([[[-3, -5], [17/4, 25/4]], [[-7/2, 35/2], [19/4, -65/4]]] : List (List Vec)).getD r [] |>.getD i []
    let width : Nat → Nat → Vec := fun r _ => ([[6, 6], [4, 50]] : List Vec).getD r []
    (∀ r, r < 2 → ∀ i, i < 2 →
      inBox (vsub (centre r i) (width r i)) (vadd (centre r i) (width r i)) (mu i) = true) ∧
    auerRun 2 1 centre width 2 = ([], [0, 1]) ∧
    accB (identMat 2) (ones 2) 1 2 mu (auerRun 2 1 centre width 2).2 = false ∧
    errWithin (centre 1 0) (width 1 0) (mu 0) = false := by
  decide +kernel

end VOPy.C01

/-! # INTEGRATION — end-to-end statements about the executable decision core

The theorems above take the per-round oracles as given and assume that they decide the semantic
predicates.  Here the oracles are the *executable exact geometry models* (`Core.ballDom`,
`Core.ballCov`, `Core.rectDom`, `Core.rectCov` = `Ellipsoid.isDominatedChecked`,
`Covered.ballIsCovered`, `Rect.isDominatedChecked`, `Covered.rectIsCovered` applied to the displayed
regions), the run is `Core.pavebaCore` (a table of displayed regions threaded through
`Steps.pavebaRound`; `Core.pavebaCore_eq_run`: it *is* `Accuracy.pavebaRun` with the computed
oracles), and that hypothesis is discharged by C09 (`ell_isDominated_iff_posDef`,
`rect_isDominated_iff`) and C10 (`ball_isCovered_iff`, `rect_isCovered_iff`):

  truth inside every refreshed displayed region
    ⇒ (C09, C10)  the computed oracles are sound at the true means, region domination is a strict order
    ⇒ (`Core.pavebaCore_roundSound`, persistence of the regions of `P ∖ U` through the table)  `RoundSound`
    ⇒ (`paveba_invariant`)  (a), (b) at termination.

What remains assumed is only the premise of the property (the truth is in the displayed regions) and
that the real geometry predicates agree with their exact models (C09/C10 correspondence). -/
namespace VOPy.C01
open VOPy VOPy.Steps VOPy.Accuracy

/-- **C01 for PaVeBa, end to end on the executable core.**  Any cone matrix `W` with rows of `m`
entries and some non-zero entry, `α_n > 0` with one entry per facet, `ε > 0`, any number `K` of
designs with true means of `m` entries, any initial region table and any sequence `fresh r i` of
displayed balls.  `Core.ballCore` runs `Steps.pavebaRound` with the oracles *computed* from the
displayed balls: `is_dominated` with scalar slack `0` (`Ellipsoid.isDominatedChecked`, `Σ = I`) and
`is_covered` with the per-facet slack `ε·α` (`Covered.ballIsCovered`); only the balls of `S ∪ U` are
refreshed in a round, the others keep their last displayed value.  If in every round `r < T` every
refreshed design has a displayed ball of dimension `m` and positive radius that contains its true
mean, and no candidate is left after round `T`, then the final `P` satisfies (a) every design outside
`P` is weakly dominated by a member of `P`, and (b) `m(i,j) ≤ ε` for every `i ∈ P` and every `j`.
No hypothesis about the oracles is left: C09 and C10 discharge it. -/
theorem paveba_ball_end_to_end (W : Mat) (alpha : Vec) (eps : Rat) (m K : Nat) (mu : Nat → Vec)
    (hW : ∀ w ∈ W, w.length = m) (hWne : ∃ w ∈ W, ∃ x ∈ w, x ≠ 0)
    (hmu : ∀ i, i < K → (mu i).length = m)
    (heps : 0 < eps) (hal : ∀ n, ∀ h : n < alpha.length, 0 < alpha[n])
    (hlen : alpha.length = W.length)
    (init : Nat → Core.Ball) (fresh : Nat → Nat → Core.Ball) (T : Nat)
    (hvalid : ∀ r, r < T → ∀ i,
      (i ∈ (Core.ballCore W alpha eps K init fresh r).S ∨
        i ∈ (Core.ballCore W alpha eps K init fresh r).U) →
      (fresh r i).c.length = m ∧ 0 < (fresh r i).a ∧ (fresh r i).mem (mu i) = true)
    (hfinal : (Core.ballCore W alpha eps K init fresh T).S = []) :
    accA W K mu (Core.ballCore W alpha eps K init fresh T).P = true ∧
    accB W alpha eps K mu (Core.ballCore W alpha eps K init fresh T).P = true := by
  have hl : (smul eps alpha).length = alpha.length := by simp [smul]
  have hget : ∀ n, ∀ h1 : n < (smul eps alpha).length, ∀ h2 : n < alpha.length,
      (smul eps alpha)[n] = eps * alpha[n] := by
    intro n h1 h2; simp [smul]
  have hWpos : 0 < W.length := by
    obtain ⟨w, hw, _⟩ := hWne
    exact List.length_pos_of_mem hw
  have hpos : ∃ n, ∃ _ : n < W.length, ∃ h2 : n < (smul eps alpha).length, 0 < (smul eps alpha)[n] :=
    ⟨0, hWpos, by omega, by rw [hget 0 (by omega) (by omega)]; exact mul_pos heps (hal 0 (by omega))⟩
  obtain ⟨hA, hT⟩ := Core.pavebaCore_final W (smul eps alpha) m K mu hmu hpos
    (Core.ballDom W) (Core.ballCov W (smul eps alpha))
    (fun b x => b.mem x = true) (fun b => b.c.length = m ∧ 0 < b.a)
    (fun a b x y wa wb mx my h => Core.ballDom_sound W m hW a b x y wa.1 wb.1 mx my h)
    (fun a b c _ wa wb wc _ h1 h2 =>
      Core.ballDom_trans W m hW a b c wa.1 wb.1 wc.1 (le_of_lt wb.2) h1 h2)
    (fun a wa => Core.ballDom_irrefl W m hW hWne a wa.1 wa.2)
    (fun a b x y wa wb mx my h => Core.ballCov_sound W m hW (smul eps alpha) (hl.trans hlen) a b x y
      wa.1 wb.1 (le_of_lt wa.2) (le_of_lt wb.2) mx my h)
    init fresh T
    (fun r hr i hi => ⟨⟨(hvalid r hr i hi).1, (hvalid r hr i hi).2.1⟩, (hvalid r hr i hi).2.2⟩)
    hfinal
  exact ⟨hA, accB_of_accT W alpha (smul eps alpha) eps K mu _ (le_of_lt heps) hal
    ⟨0, hWpos, by omega⟩ hl (fun k h1 h2 => le_of_eq (hget k h1 h2)) hT⟩

/-- **C01 for the rectangular variants (PaVeBaGP-IH, PaVeBaPartialGP-hyperrectangle), end to end on
the executable core.**  As `paveba_ball_end_to_end` with displayed boxes: `Core.rectCore` computes
`is_dominated` with the scalar slack `0` (`Rect.isDominatedChecked`, the vertex-pair loop) and
`is_covered` with the vector `ε·α` read as an objective-space shift (`Covered.rectIsCovered`, the LP
the code builds; `ε·α` must then have `m` entries).  If every refreshed design has a displayed box of
dimension `m` with positive width in every coordinate that contains its true mean, and `S = ∅` after
round `T`, then (a) holds, and (b) holds under the side condition `W·(εα) ≤ εα` (equality for the
orthant) exactly as in `paveba_rect_final_accurate`; without it only `accT W (W·(εα))` is available
(defect D6). -/
theorem paveba_rect_end_to_end (W : Mat) (alpha : Vec) (eps : Rat) (m K : Nat) (mu : Nat → Vec)
    (hW : ∀ w ∈ W, w.length = m) (hWne : ∃ w ∈ W, ∃ x ∈ w, x ≠ 0)
    (hmu : ∀ i, i < K → (mu i).length = m)
    (heps : 0 ≤ eps) (hal : ∀ n, ∀ h : n < alpha.length, 0 < alpha[n])
    (hlen : alpha.length = m)
    (hpos : ∃ n, ∃ _ : n < W.length, ∃ h2 : n < (matVec W (smul eps alpha)).length,
      0 < (matVec W (smul eps alpha))[n])
    (hside : slackSideCondition W (smul eps alpha) (smul eps alpha) = true)
    (init : Nat → Core.Box) (fresh : Nat → Nat → Core.Box) (T : Nat)
    (hvalid : ∀ r, r < T → ∀ i,
      (i ∈ (Core.rectCore W alpha eps K init fresh r).S ∨
        i ∈ (Core.rectCore W alpha eps K init fresh r).U) →
      (fresh r i).wfB m = true ∧ (fresh r i).mem (mu i) = true)
    (hfinal : (Core.rectCore W alpha eps K init fresh T).S = []) :
    accA W K mu (Core.rectCore W alpha eps K init fresh T).P = true ∧
    accB W alpha eps K mu (Core.rectCore W alpha eps K init fresh T).P = true := by
  have hl2 : (smul eps alpha).length = alpha.length := by simp [smul]
  have hsm : (smul eps alpha).length = m := hl2.trans hlen
  have hWnil : W ≠ [] := by
    obtain ⟨w, hw, _⟩ := hWne
    exact List.ne_nil_of_mem hw
  have hxlen : ∀ (b : Core.Box) (x : Vec), b.wfB m = true → b.mem x = true → x.length = m := by
    intro b x wb mx
    rw [Core.Box.wfB_iff] at wb
    exact (Core.Box.mem_length mx).1.symm.trans wb.1
  have hvle : ∀ b : Core.Box, b.wfB m = true → vle b.l b.u = true := by
    intro b wb
    rw [Core.Box.wfB_iff] at wb
    rw [vle_iff]
    intro n h1 h2
    exact le_of_lt (wb.2.2 n h1 h2)
  obtain ⟨hA, hT⟩ := Core.pavebaCore_final W (matVec W (smul eps alpha)) m K mu hmu hpos
    (Core.rectDom W [0]) (Core.rectCov W (smul eps alpha))
    (fun b x => b.mem x = true) (fun b => b.wfB m = true)
    (fun a b x y wa wb mx my h => Core.rectDom_zero_sound W m hW a b x y
      ((Core.Box.wfB_iff m a).1 wa).1 mx my (hxlen a x wa mx) (hxlen b y wb my) h)
    (fun a b c _ wa wb wc _ h1 h2 => Core.rectDom_trans W m hW a b c
      ((Core.Box.wfB_iff m a).1 wa).1 ((Core.Box.wfB_iff m a).1 wa).2.1
      ((Core.Box.wfB_iff m b).1 wb).1 ((Core.Box.wfB_iff m b).1 wb).2.1
      ((Core.Box.wfB_iff m c).1 wc).1 ((Core.Box.wfB_iff m c).1 wc).2.1
      (hvle a wa) (hvle b wb) (hvle c wc) h1 h2)
    (fun a wa => Core.rectDom_irrefl W m hW hWne a ((Core.Box.wfB_iff m a).1 wa).1
      ((Core.Box.wfB_iff m a).1 wa).2.1 ((Core.Box.wfB_iff m a).1 wa).2.2)
    (fun a b x y wa wb mx my h => by
      have hd := Core.rectCov_sound W m hW hWnil (smul eps alpha) (smul eps alpha)
        (Core.expandSlack_self m _ hsm) a b x y mx my (hxlen a x wa mx) (hxlen b y wb my) h
      cases hc : notCovers W (matVec W (smul eps alpha)) x y with
      | true => rfl
      | false =>
        rw [(notCovers_matVec_iff W (smul eps alpha) x y ((hxlen a x wa mx).trans hsm.symm)
          ((hxlen b y wb my).trans (hxlen a x wa mx).symm)).1 hc] at hd
        exact absurd hd (by simp))
    init fresh T hvalid hfinal
  refine ⟨hA, ?_⟩
  unfold slackSideCondition at hside
  simp only [Bool.and_eq_true, decide_eq_true_eq] at hside
  obtain ⟨hl, hv⟩ := hside
  unfold vle at hv
  rw [all_zipWith_iff] at hv
  have hWpos : 0 < W.length := List.length_pos_of_ne_nil hWnil
  have hlW : (matVec W (smul eps alpha)).length = W.length := by simp [matVec]
  apply accB_of_accT W alpha (matVec W (smul eps alpha)) eps K mu _ heps hal
    ⟨0, hWpos, by omega⟩ (hl.trans hl2)
  · intro n h1 h2
    have := hv n h1 (by omega)
    simp only [decide_eq_true_eq] at this
    have hg : (smul eps alpha)[n]'(by omega) = eps * alpha[n] := by simp [smul]
    rw [hg] at this
    exact this
  · exact hT

/-- **C01 for Auer with uniform width rows, end to end.**  Auer's rules read the displayed centres
and width rows directly (`Steps.auerRound`), so the decision core is `Accuracy.auerRun`; with the
uniform rows `(b, …, b)` of `use_empirical_beta = False` (`Core.auerUniformCore`) the premise of the
property — the true mean lies in the displayed box `[c − b, c + b]` — is all that is needed: if it
holds for every candidate in every round (`b > 0`, centres of `m ≥ 1` entries) and `S = ∅` after round
`T`, the final `P` satisfies (a) and (b) for the componentwise order. -/
theorem auer_box_end_to_end (m K : Nat) (hm : 0 < m) (eps : Rat) (heps : 0 ≤ eps) (mu : Nat → Vec)
    (hmu : ∀ i, i < K → (mu i).length = m)
    (centre : Nat → Nat → Vec) (width : Nat → Nat → Rat) (T : Nat)
    (hvalid : ∀ r, r < T → ∀ i, i ∈ (Core.auerUniformCore K eps centre width r).1 →
      (centre r i).length = m ∧ 0 < width r i ∧
      inBox ((centre r i).map (· - width r i)) ((centre r i).map (· + width r i)) (mu i) = true)
    (hfinal : (Core.auerUniformCore K eps centre width T).1 = []) :
    accA (identMat m) K mu (Core.auerUniformCore K eps centre width T).2 = true ∧
    accB (identMat m) (ones m) eps K mu (Core.auerUniformCore K eps centre width T).2 = true := by
  apply auer_final_accurate m K hm eps heps mu hmu centre
    (fun k i => List.replicate (centre k i).length (width k i)) T _ hfinal
  intro r hr i hi
  obtain ⟨hc, hb, hbox⟩ := hvalid r hr i hi
  have hmul : (mu i).length = m := by
    have := ((inBox_iff _ _ _).1 hbox).1
    simpa [hc] using this.symm
  refine ⟨hc, by simp [hc], ?_, ?_⟩
  · rw [hc]
    exact (errWithin_uniform_iff_inBox m hm (centre r i) (mu i) (width r i) hc hmul).2 hbox
  · simp [widthsPos, hb]

/-! ### non-vacuity of the end-to-end theorems: two rounds evaluated by the kernel

Three designs with true means `(0,0)`, `(2,2)`, `(2,9/4)`, orthant cone, `α = (1,1)`, `ε = 1/2`.  The
displayed regions are centred at the true means: radius / half-width `2` in round 0 (nothing can be
decided: all three designs stay in `S`), `1/4` resp. `1/8` in round 1 (design 0 is discarded, designs
1 and 2 — within `ε` of each other — reach `P`).  Every oracle answer is computed by the exact
geometry models inside the kernel. -/

private def exBalls : Nat → Nat → Core.Ball := fun r i => ⟨exMu i, if r = 0 then 2 else 1/4⟩
private def exBoxes : Nat → Nat → Core.Box := fun r i =>
  let h : Rat := if r = 0 then 2 else 1/8
  ⟨(exMu i).map (· - h), (exMu i).map (· + h)⟩

/-- `paveba_ball_end_to_end`: the hypotheses hold, the run of the core is
`S = {0,1,2}` after round 0, then `S = ∅`, `P = {1,2}`, design 0 discarded; the theorem yields (a), (b). -/
example :
    (Core.ballCore (identMat 2) [1, 1] (1/2) 3 (fun _ => ⟨[], 0⟩) exBalls 1).S = [0, 1, 2] ∧
    (Core.ballCore (identMat 2) [1, 1] (1/2) 3 (fun _ => ⟨[], 0⟩) exBalls 2).P = [1, 2] ∧
    accA (identMat 2) 3 exMu (Core.ballCore (identMat 2) [1, 1] (1/2) 3 (fun _ => ⟨[], 0⟩) exBalls 2).P = true ∧
    accB (identMat 2) [1, 1] (1/2) 3 exMu
      (Core.ballCore (identMat 2) [1, 1] (1/2) 3 (fun _ => ⟨[], 0⟩) exBalls 2).P = true := by
  refine ⟨by decide +kernel, by decide +kernel, ?_⟩
  apply paveba_ball_end_to_end (identMat 2) [1, 1] (1/2) 2 3 exMu
  · decide +kernel
  · exact ⟨[1, 0], by decide +kernel, 1, by decide +kernel, by decide +kernel⟩
  · decide +kernel
  · norm_num
  · decide +kernel
  · rfl
  · have h := Core.pavebaPremise_spec (Core.Ball.wfB 2) Core.Ball.mem 3 (Core.ballDom (identMat 2))
      (Core.ballCov (identMat 2) (smul (1/2) [1, 1])) (fun _ => ⟨[], 0⟩) exBalls exMu 2 (by decide +kernel)
    intro r hr i hi
    obtain ⟨h1, h2⟩ := h r hr i hi
    rw [Core.Ball.wfB_iff] at h1
    exact ⟨h1.1, h1.2, h2⟩
  · decide +kernel

/-- `paveba_rect_end_to_end`: same scenario with boxes (orthant: the side condition holds with
equality). -/
example :
    (Core.rectCore (identMat 2) [1, 1] (1/2) 3 (fun _ => ⟨[], []⟩) exBoxes 1).S = [0, 1, 2] ∧
    (Core.rectCore (identMat 2) [1, 1] (1/2) 3 (fun _ => ⟨[], []⟩) exBoxes 2).P = [1, 2] ∧
    accA (identMat 2) 3 exMu (Core.rectCore (identMat 2) [1, 1] (1/2) 3 (fun _ => ⟨[], []⟩) exBoxes 2).P = true ∧
    accB (identMat 2) [1, 1] (1/2) 3 exMu
      (Core.rectCore (identMat 2) [1, 1] (1/2) 3 (fun _ => ⟨[], []⟩) exBoxes 2).P = true := by
  refine ⟨by decide +kernel, by decide +kernel, ?_⟩
  apply paveba_rect_end_to_end (identMat 2) [1, 1] (1/2) 2 3 exMu
  · decide +kernel
  · exact ⟨[1, 0], by decide +kernel, 1, by decide +kernel, by decide +kernel⟩
  · decide +kernel
  · norm_num
  · decide +kernel
  · rfl
  · exact ⟨0, by decide +kernel⟩
  · decide +kernel
  · exact Core.pavebaPremise_spec (Core.Box.wfB 2) Core.Box.mem 3 (Core.rectDom (identMat 2) [0])
      (Core.rectCov (identMat 2) (smul (1/2) [1, 1])) (fun _ => ⟨[], []⟩) exBoxes exMu 2 (by decide +kernel)
  · decide +kernel

/-- `auer_box_end_to_end`: displayed boxes `[μ − 1/4, μ + 1/4]`, `ε = 1/2`: one round, design 0
eliminated, designs 1 and 2 in `P`. -/
example :
    Core.auerUniformCore 3 (1/2) (fun _ => exMu) (fun _ _ => 1/4) 1 = ([], [1, 2]) ∧
    accA (identMat 2) 3 exMu (Core.auerUniformCore 3 (1/2) (fun _ => exMu) (fun _ _ => 1/4) 1).2 = true ∧
    accB (identMat 2) (ones 2) (1/2) 3 exMu
      (Core.auerUniformCore 3 (1/2) (fun _ => exMu) (fun _ _ => 1/4) 1).2 = true := by
  refine ⟨by decide +kernel, ?_⟩
  apply auer_box_end_to_end 2 3 (by norm_num) (1/2) (by norm_num) exMu
  · decide +kernel
  · intro r hr i hi
    have : r = 0 := by omega
    subst this
    have hi' : i ∈ [0, 1, 2] := hi
    simp only [List.mem_cons, List.not_mem_nil, or_false] at hi'
    rcases hi' with rfl | rfl | rfl <;> exact ⟨by decide +kernel, by norm_num, by decide +kernel⟩
  · decide +kernel

/-! ## real true means -/

/-- **C01 for PaVeBa with real true means.**  `paveba_ball_end_to_end` for true means that are arbitrary
*real* vectors `μ i : Fin m → ℝ` (the displayed balls are rational data — floats — given by their
coordinate functions `c r i`, radii `a r i`; every well-formed list input has this form,
`C09.vec_wellformed`).  If in every round the true mean of every refreshed design lies in its displayed
ball (`‖μ_i − c_r(i)‖² ≤ a_r(i)²`, `a_r(i) > 0`) and `S = ∅` after round `T` of the executable core, then
(a) every design outside `P` is dominated by a member of `P` and (b) `m(i,j) ≤ ε` for `i ∈ P` — over `ℝ`.
C09 and C10 are statements about the real points of the regions, so no rationality is needed. -/
theorem paveba_ball_end_to_end_real {m N : ℕ} (W : Fin N → Fin m → ℚ) (alpha : Fin N → ℚ) (eps : ℚ)
    (K : ℕ) (mu : ℕ → Fin m → ℝ) (hWne : ∃ n d, W n d ≠ 0) (heps : 0 < eps) (hal : ∀ n, 0 < alpha n)
    (init : ℕ → Core.Ball) (c : ℕ → ℕ → Fin m → ℚ) (a : ℕ → ℕ → ℚ) (T : ℕ)
    (hvalid : ∀ r, r < T → ∀ i,
      (i ∈ (Core.ballCore (toMat W) (toVec alpha) eps K init (fun r i => ⟨toVec (c r i), a r i⟩) r).S ∨
        i ∈ (Core.ballCore (toMat W) (toVec alpha) eps K init (fun r i => ⟨toVec (c r i), a r i⟩) r).U) →
      0 < a r i ∧ ∑ d, (mu i d - (c r i d : ℝ)) ^ 2 ≤ (a r i : ℝ) ^ 2)
    (hfinal : (Core.ballCore (toMat W) (toVec alpha) eps K init (fun r i => ⟨toVec (c r i), a r i⟩) T).S = []) :
    (∀ i, i < K →
      i ∉ (Core.ballCore (toMat W) (toVec alpha) eps K init (fun r i => ⟨toVec (c r i), a r i⟩) T).P →
      ∃ j ∈ (Core.ballCore (toMat W) (toVec alpha) eps K init (fun r i => ⟨toVec (c r i), a r i⟩) T).P,
        ∀ n, 0 ≤ ∑ d, (W n d : ℝ) * (mu j d - mu i d)) ∧
    (∀ i ∈ (Core.ballCore (toMat W) (toVec alpha) eps K init (fun r i => ⟨toVec (c r i), a r i⟩) T).P,
      ∀ j, j < K →
        ∃ n, max 0 (∑ d, (W n d : ℝ) * (mu j d - mu i d)) / (alpha n : ℝ) ≤ (eps : ℝ)) := by
  have hWrows : ∀ w ∈ toMat W, w.length = m := by
    intro w hw; obtain ⟨n, rfl⟩ := mem_toMat.1 hw; simp
  have hWne' : ∃ w ∈ toMat W, ∃ x ∈ w, x ≠ 0 := by
    obtain ⟨n, d, hnd⟩ := hWne
    exact ⟨toVec (W n), mem_toMat.2 ⟨n, rfl⟩, W n d, by simp [toVec, List.mem_ofFn], hnd⟩
  have hsm : smul eps (toVec alpha) = toVec (fun n => eps * alpha n) := by
    simp [smul, toVec, List.map_ofFn, Function.comp_def]
  have hpos : ∃ n, 0 < (fun n => eps * alpha n) n := by
    obtain ⟨n, _, _⟩ := hWne
    exact ⟨n, mul_pos heps (hal n)⟩
  have hinv := Core.pavebaCore_inv_gen (Core.ballDom (toMat W)) (Core.ballCov (toMat W) (smul eps (toVec alpha)))
    (fun (b : Core.Ball) (x : Fin m → ℝ) => ∃ cb : Fin m → ℚ, b.c = toVec cb ∧ Core.RBallMem cb b.a x)
    (fun b => b.c.length = m ∧ 0 < b.a)
    (Core.RDom W) (Core.RGood W (fun n => eps * alpha n))
    (by
      rintro ⟨ca, ra⟩ ⟨cb, rb⟩ x y _ _ ⟨ca', ha, mx⟩ ⟨cb', hb, my⟩ h
      simp only at ha hb mx my
      subst ha hb
      exact Core.ballDom_sound_real W ca' cb' ra rb x y mx my h)
    (fun a b c _ wa wb wc _ h1 h2 =>
      Core.ballDom_trans (toMat W) m hWrows a b c wa.1 wb.1 wc.1 (le_of_lt wb.2) h1 h2)
    (fun a wa => Core.ballDom_irrefl (toMat W) m hWrows hWne' a wa.1 wa.2)
    (by
      rintro ⟨ca, ra⟩ ⟨cb, rb⟩ x y _ _ ⟨ca', ha, mx⟩ ⟨cb', hb, my⟩ h
      simp only at ha hb mx my
      subst ha hb
      rw [hsm] at h
      exact Core.ballCov_sound_real W _ ca' cb' ra rb x y mx my h)
    K mu (Core.truth_real W _ K mu hpos) init (fun r i => ⟨toVec (c r i), a r i⟩) T
    (fun r hr i hi => by
      obtain ⟨h1, h2⟩ := hvalid r hr i hi
      exact ⟨⟨by simp, h1⟩, c r i, rfl, le_of_lt h1, h2⟩)
  constructor
  · intro i hi hiP
    obtain ⟨j, hj, hji⟩ := hinv.covered i hi (by rw [show (Core.pavebaCore K _ _ init _ T).S = [] from hfinal]; simp) hiP
    rcases hj with hj | hj
    · rw [show (Core.pavebaCore K _ _ init _ T).S = [] from hfinal] at hj; simp at hj
    · exact ⟨j, hj, hji⟩
  · intro i hi j hj
    obtain ⟨n, hn⟩ := hinv.acc i hi j hj
    refine ⟨n, ?_⟩
    have hapos : (0 : ℝ) < (alpha n : ℝ) := by exact_mod_cast hal n
    have hepos : (0 : ℝ) < (eps : ℝ) := by exact_mod_cast heps
    rw [div_le_iff₀ hapos]
    push_cast at hn
    exact max_le (by positivity) (le_of_lt hn)

/-- **C01 for the rectangular variants with real true means** (`N = m` facets, as the slack vector
`ε·α` must have `m` entries): as `paveba_rect_end_to_end`, conclusion (b) under the side condition
`W·(εα) ≤ εα`. -/
theorem paveba_rect_end_to_end_real {m : ℕ} (W : Fin m → Fin m → ℚ) (alpha : Fin m → ℚ) (eps : ℚ)
    (K : ℕ) (mu : ℕ → Fin m → ℝ) (hWne : ∃ n d, W n d ≠ 0) (heps : 0 ≤ eps) (hal : ∀ n, 0 < alpha n)
    (hpos : ∃ n, 0 < ∑ d, W n d * (eps * alpha d))
    (hside : ∀ n, ∑ d, W n d * (eps * alpha d) ≤ eps * alpha n)
    (init : ℕ → Core.Box) (l u : ℕ → ℕ → Fin m → ℚ) (T : ℕ)
    (hvalid : ∀ r, r < T → ∀ i,
      (i ∈ (Core.rectCore (toMat W) (toVec alpha) eps K init (fun r i => ⟨toVec (l r i), toVec (u r i)⟩) r).S ∨
        i ∈ (Core.rectCore (toMat W) (toVec alpha) eps K init (fun r i => ⟨toVec (l r i), toVec (u r i)⟩) r).U) →
      (∀ d, l r i d < u r i d) ∧ ∀ d, (l r i d : ℝ) ≤ mu i d ∧ mu i d ≤ (u r i d : ℝ))
    (hfinal : (Core.rectCore (toMat W) (toVec alpha) eps K init
      (fun r i => ⟨toVec (l r i), toVec (u r i)⟩) T).S = []) :
    (∀ i, i < K →
      i ∉ (Core.rectCore (toMat W) (toVec alpha) eps K init (fun r i => ⟨toVec (l r i), toVec (u r i)⟩) T).P →
      ∃ j ∈ (Core.rectCore (toMat W) (toVec alpha) eps K init (fun r i => ⟨toVec (l r i), toVec (u r i)⟩) T).P,
        ∀ n, 0 ≤ ∑ d, (W n d : ℝ) * (mu j d - mu i d)) ∧
    (∀ i ∈ (Core.rectCore (toMat W) (toVec alpha) eps K init (fun r i => ⟨toVec (l r i), toVec (u r i)⟩) T).P,
      ∀ j, j < K →
        ∃ n, max 0 (∑ d, (W n d : ℝ) * (mu j d - mu i d)) / (alpha n : ℝ) ≤ (eps : ℝ)) := by
  have hWrows : ∀ w ∈ toMat W, w.length = m := by
    intro w hw; obtain ⟨n, rfl⟩ := mem_toMat.1 hw; simp
  have hWne' : ∃ w ∈ toMat W, ∃ x ∈ w, x ≠ 0 := by
    obtain ⟨n, d, hnd⟩ := hWne
    exact ⟨toVec (W n), mem_toMat.2 ⟨n, rfl⟩, W n d, by simp [toVec, List.mem_ofFn], hnd⟩
  have hmpos : 0 < m := by
    obtain ⟨n, _, _⟩ := hWne
    exact Fin.pos n
  have hsm : smul eps (toVec alpha) = toVec (fun d => eps * alpha d) := by
    simp [smul, toVec, List.map_ofFn, Function.comp_def]
  have hvle : ∀ b : Core.Box, b.wfB m = true → vle b.l b.u = true := by
    intro b wb
    rw [Core.Box.wfB_iff] at wb
    rw [vle_iff]
    intro n h1 h2
    exact le_of_lt (wb.2.2 n h1 h2)
  have hinv := Core.pavebaCore_inv_gen (Core.rectDom (toMat W) [0])
    (Core.rectCov (toMat W) (smul eps (toVec alpha)))
    (fun (b : Core.Box) (x : Fin m → ℝ) => ∃ lb ub : Fin m → ℚ, b.l = toVec lb ∧ b.u = toVec ub ∧
      Core.RBoxMem lb ub x)
    (fun b => b.wfB m = true)
    (Core.RDom W) (Core.RGood W (fun n => ∑ d, W n d * (eps * alpha d)))
    (by
      rintro ⟨la, ua⟩ ⟨lb, ub⟩ x y _ _ ⟨la', ua', h1, h2, mx⟩ ⟨lb', ub', h3, h4, my⟩ h
      simp only at h1 h2 h3 h4
      subst h1 h2 h3 h4
      have := Core.rectDom_sound_real W [0] (fun _ => 0)
        (by rw [← Core.replicate_eq_toVec]; rfl) la' ua' lb' ub' x y mx my h
      intro n
      simpa using this n)
    (fun a b c _ wa wb wc _ h1 h2 => Core.rectDom_trans (toMat W) m hWrows a b c
      ((Core.Box.wfB_iff m a).1 wa).1 ((Core.Box.wfB_iff m a).1 wa).2.1
      ((Core.Box.wfB_iff m b).1 wb).1 ((Core.Box.wfB_iff m b).1 wb).2.1
      ((Core.Box.wfB_iff m c).1 wc).1 ((Core.Box.wfB_iff m c).1 wc).2.1
      (hvle a wa) (hvle b wb) (hvle c wc) h1 h2)
    (fun a wa => Core.rectDom_irrefl (toMat W) m hWrows hWne' a ((Core.Box.wfB_iff m a).1 wa).1
      ((Core.Box.wfB_iff m a).1 wa).2.1 ((Core.Box.wfB_iff m a).1 wa).2.2)
    (by
      rintro ⟨la, ua⟩ ⟨lb, ub⟩ x y _ _ ⟨la', ua', h1, h2, mx⟩ ⟨lb', ub', h3, h4, my⟩ h
      simp only at h1 h2 h3 h4
      subst h1 h2 h3 h4
      rw [hsm] at h
      obtain ⟨n, hn⟩ := Core.rectCov_sound_real W hmpos _ (fun d => eps * alpha d)
        (Core.expandSlack_self m _ (by simp)) la' ua' lb' ub' x y mx my h
      refine ⟨n, ?_⟩
      have e : ∑ d, (W n d : ℝ) * (y d - x d - ((eps * alpha d : ℚ) : ℝ)) =
          ∑ d, (W n d : ℝ) * (y d - x d) - ((∑ d, W n d * (eps * alpha d) : ℚ) : ℝ) := by
        push_cast
        rw [← Finset.sum_sub_distrib]
        apply Finset.sum_congr rfl; intro d _; ring
      rw [e] at hn
      linarith)
    K mu (Core.truth_real W _ K mu hpos) init (fun r i => ⟨toVec (l r i), toVec (u r i)⟩) T
    (fun r hr i hi => by
      obtain ⟨h1, h2⟩ := hvalid r hr i hi
      refine ⟨?_, l r i, u r i, rfl, rfl, h2⟩
      rw [Core.Box.wfB_iff]
      refine ⟨by simp, by simp, ?_⟩
      intro d hd1 hd2
      simpa [Core.getElem_toVec] using h1 ⟨d, by simpa using hd1⟩)
  constructor
  · intro i hi hiP
    obtain ⟨j, hj, hji⟩ := hinv.covered i hi
      (by rw [show (Core.pavebaCore K _ _ init _ T).S = [] from hfinal]; simp) hiP
    rcases hj with hj | hj
    · rw [show (Core.pavebaCore K _ _ init _ T).S = [] from hfinal] at hj; simp at hj
    · exact ⟨j, hj, hji⟩
  · intro i hi j hj
    obtain ⟨n, hn⟩ := hinv.acc i hi j hj
    refine ⟨n, ?_⟩
    have hapos : (0 : ℝ) < (alpha n : ℝ) := by exact_mod_cast hal n
    have hepos : (0 : ℝ) ≤ (eps : ℝ) := by exact_mod_cast heps
    have hs' : ((∑ d, W n d * (eps * alpha d) : ℚ) : ℝ) ≤ ((eps * alpha n : ℚ) : ℝ) := by
      exact_mod_cast hside n
    rw [div_le_iff₀ hapos]
    push_cast at hs' hn
    exact max_le (by positivity) (by linarith)

/-! ### non-vacuity of the real-valued statements (the scenario of the examples above, means cast to `ℝ`) -/

private def rMu : ℕ → Fin 2 → ℚ := fun i => if i = 0 then ![0, 0] else if i = 1 then ![2, 2] else ![2, 9/4]

/-- `paveba_ball_end_to_end_real` applies: the core run ends with `P = {1,2}`, and conclusion (a) for
design 0 follows over `ℝ`. -/
example :
    (Core.ballCore (toMat ![![1, 0], ![0, 1]]) (toVec ![1, 1]) (1/2) 3 (fun _ => ⟨[], 0⟩)
      (fun r i => ⟨toVec (rMu i), if r = 0 then 2 else 1/4⟩) 2).P = [1, 2] ∧
    ∃ j ∈ (Core.ballCore (toMat ![![1, 0], ![0, 1]]) (toVec ![1, 1]) (1/2) 3 (fun _ => ⟨[], 0⟩)
      (fun r i => ⟨toVec (rMu i), if r = 0 then 2 else 1/4⟩) 2).P,
      ∀ n, 0 ≤ ∑ d, ((![![1, 0], ![0, 1]] : Fin 2 → Fin 2 → ℚ) n d : ℝ) * ((rMu j d : ℝ) - (rMu 0 d : ℝ)) := by
  refine ⟨by decide +kernel, ?_⟩
  refine (paveba_ball_end_to_end_real ![![1, 0], ![0, 1]] ![1, 1] (1/2) 3 (fun i d => (rMu i d : ℝ))
    ⟨0, 0, by norm_num⟩ (by norm_num) (by intro n; fin_cases n <;> norm_num) (fun _ => ⟨[], 0⟩)
    (fun _ i => rMu i) (fun r _ => if r = 0 then 2 else 1/4) 2 ?_ (by decide +kernel)).1 0 (by norm_num)
    (by decide +kernel)
  intro r _ i _
  refine ⟨by split_ifs <;> norm_num, ?_⟩
  simp only [sub_self, ne_eq, OfNat.ofNat_ne_zero, not_false_eq_true, zero_pow, Finset.sum_const_zero]
  exact sq_nonneg _

/-- `paveba_rect_end_to_end_real` applies to the box scenario. -/
example :
    ∃ j ∈ (Core.rectCore (toMat ![![1, 0], ![0, 1]]) (toVec ![1, 1]) (1/2) 3 (fun _ => ⟨[], []⟩)
      (fun r i => ⟨toVec (fun d => rMu i d - (if r = 0 then 2 else 1/8)),
        toVec (fun d => rMu i d + (if r = 0 then 2 else 1/8))⟩) 2).P,
      ∀ n, 0 ≤ ∑ d, ((![![1, 0], ![0, 1]] : Fin 2 → Fin 2 → ℚ) n d : ℝ) * ((rMu j d : ℝ) - (rMu 0 d : ℝ)) := by
  refine (paveba_rect_end_to_end_real ![![1, 0], ![0, 1]] ![1, 1] (1/2) 3 (fun i d => (rMu i d : ℝ))
    ⟨0, 0, by norm_num⟩ (by norm_num) (by intro n; fin_cases n <;> norm_num)
    ⟨0, by norm_num [Fin.sum_univ_two]⟩ (by intro n; fin_cases n <;> norm_num [Fin.sum_univ_two])
    (fun _ => ⟨[], []⟩) (fun r i d => rMu i d - (if r = 0 then 2 else 1/8))
    (fun r i d => rMu i d + (if r = 0 then 2 else 1/8)) 2 ?_ (by decide +kernel)).1 0 (by norm_num)
    (by decide +kernel)
  intro r _ i _
  refine ⟨fun d => by split_ifs <;> linarith, fun d => ?_⟩
  push_cast
  constructor <;> split_ifs <;> norm_num

end VOPy.C01

/-! # INVARIANCE — translation twins of whole runs

`translation_twin_check` of the harness runs every history a second time with all values translated by
a large common vector and demands the identical trajectory `(S, P, U)`.  Stated once for the model: the
rounds consult their oracles only on the designs `0 … K−1`, so two runs whose oracles agree there are
identical; for the executable core it suffices that the two geometry predicates are invariant under
the transformation of the regions (the invariance theorems of C09 / C10 / C11); Auer's rules are
computed from differences of centres inside `Steps.lean` and are invariant outright. -/
namespace VOPy.C01
open VOPy VOPy.Steps VOPy.Accuracy

/-- **Twin runs of the PaVeBa family.**  If the oracles of two runs agree on all pairs of designs `< K`
in every round `< T` (e.g. because the geometry predicates are translation invariant and the second
run displays the translated regions), the trajectories `(S, P, U)` are identical up to round `T`. -/
theorem paveba_translation_twin (K : Nat) (isDom isDom' isCov isCov' : Nat → Rel) (T : Nat)
    (h : ∀ r, r < T → ∀ i, i < K → ∀ j, j < K →
      isDom' r i j = isDom r i j ∧ isCov' r i j = isCov r i j) :
    ∀ t, t ≤ T → pavebaRun K isDom' isCov' t = pavebaRun K isDom isCov t :=
  pavebaRun_congr K isDom isDom' isCov isCov' T h

/-- **Twin runs of the executable core.**  Let `Tr` transform regions (a translation by a common
vector, say) and let the two computed oracles be invariant under `Tr` on well-formed regions (`ok`).
Then the core on the transformed displayed regions visits the same `(S, P, U)` in every round. -/
theorem paveba_core_translation_twin {ρ : Type} (Tr : ρ → ρ) (ok : ρ → Prop) (dom cov : ρ → ρ → Bool)
    (hd : ∀ a b, ok a → ok b → dom (Tr a) (Tr b) = dom a b)
    (hc : ∀ a b, ok a → ok b → cov (Tr a) (Tr b) = cov a b)
    (K : Nat) (init : Nat → ρ) (fresh : Nat → Nat → ρ)
    (hinit : ∀ i, ok (init i)) (hfresh : ∀ r i, ok (fresh r i)) (t : Nat) :
    (Core.pavebaCore K dom cov (fun i => Tr (init i)) (fun r i => Tr (fresh r i)) t).S =
      (Core.pavebaCore K dom cov init fresh t).S ∧
    (Core.pavebaCore K dom cov (fun i => Tr (init i)) (fun r i => Tr (fresh r i)) t).P =
      (Core.pavebaCore K dom cov init fresh t).P ∧
    (Core.pavebaCore K dom cov (fun i => Tr (init i)) (fun r i => Tr (fresh r i)) t).U =
      (Core.pavebaCore K dom cov init fresh t).U := by
  obtain ⟨h1, h2, h3, _, _⟩ := Core.pavebaCore_map Tr ok dom cov hd hc K init fresh hinit hfresh t
  exact ⟨h1, h2, h3⟩

/-- **Auer's trajectory is translation invariant** — no hypothesis about oracles: for centres of the
designs `< K` of the length of `t`, translating every displayed centre by `t` (widths untouched) gives
the identical `(S, P)` in every round: `m(i,j)` and `M(i,j)` see differences of centres only. -/
theorem auer_translation_twin (K : Nat) (eps : Rat) (centre width : Nat → Nat → Vec) (t : Vec) (T : Nat)
    (h : ∀ r, r < T → ∀ i, i < K → (centre r i).length = t.length) :
    ∀ k, k ≤ T →
      auerRun K eps (fun r i => vadd (centre r i) t) width k = auerRun K eps centre width k :=
  auerRun_translate K eps centre width t T h

/-- non-vacuity: the Auer example above next to the offset `(2^20, −2^20)` — evaluated, and as an
instance of the theorem -/
example :
    auerRun 3 (1/2) (fun _ i => vadd (exMu i) [1048576, -1048576]) (fun _ _ => [1/4, 1/4]) 1 = ([], [1, 2]) ∧
    auerRun 3 (1/2) (fun _ i => vadd (exMu i) [1048576, -1048576]) (fun _ _ => [1/4, 1/4]) 1 =
      auerRun 3 (1/2) (fun _ => exMu) (fun _ _ => [1/4, 1/4]) 1 :=
  ⟨by decide +kernel,
   auer_translation_twin 3 (1/2) (fun _ => exMu) (fun _ _ => [1/4, 1/4]) [1048576, -1048576] 1
     (by intro r _ i hi; interval_cases i <;> rfl) 1 (le_refl _)⟩

/-- non-vacuity of `paveba_translation_twin`: oracles that differ from `exDom` / `exCov` only outside
the designs `0, 1, 2` give the same run -/
example :
    pavebaRun 3 (fun r i j => exDom r i j || decide (3 ≤ i)) (fun r i j => exCov r i j && decide (j < 3)) 1 =
      pavebaRun 3 exDom exCov 1 :=
  paveba_translation_twin 3 exDom _ exCov _ 1
    (fun r _ i hi j hj => by
      have h1 : decide (3 ≤ i) = false := by simp; omega
      have h2 : decide (j < 3) = true := by simp; omega
      simp [h1, h2]) 1 (le_refl _)

end VOPy.C01
