import VOPyVerif.Props.C04
import VOPyVerif.Proofs.GenAgreeC04
/-!
# C04 — SOURCE AGREEMENT obligations (second tie between model and code, DESIGN §2.10)

Property theorems only, same namespace `VOPy.C04` as `Props/C04.lean` (whose theorems are about the
hand-written model and do not depend on anything generated).  The theorems here say that the model's
definitions are the ones regenerated from the current Python source text (`Gen/C04.lean`, written by
`harness/translate*.py` on every `./check C04`; agreement lemmas in `Proofs/GenAgreeC04.lean`).  They live in
their own module so that a source edit the translator reads differently (or cannot read) makes exactly the
affected obligations fail — `harness/leanbuild.py` builds this module separately and, if it does not build,
attributes the failure per theorem — while the model theorems of `Props/C04.lean` stay discharged.
-/
namespace VOPy.C04
open Real MeasureTheory ProbabilityTheory VOPy VOPy.Sched VOPy.SchedR Matrix
open scoped NNReal

/-! ## SOURCE AGREEMENT — the schedule terms are the terms read off the current Python source

Second tie between model and code (DESIGN §2.10), beside the numeric comparison at `Float`:
`harness/translate.py` regenerates `Gen/C04.lean` from the *source text* of `compute_radius` /
`compute_alpha` / `compute_beta` on every `./check C04` (Python `ast`; locals inlined; integer
sub-expressions kept integral; nothing executed), and the theorems below are re-checked against the
regenerated file.  All seven are proved at the **polymorphic level** (`∀ α [RealLike α]`, by `rfl`
in `Proofs/GenAgreeC04.lean`): the hand-written term every theorem above is about *is* the
generated term, in every carrier — `Float` (what the driver runs) and `ℝ` (what is proved).  A
changed constant, operator or association in the source breaks the corresponding obligation. -/

section SourceAgreement
variable {α : Type} [RealLike α]

/-- `PaVeBa.compute_radius` as written in the source = `pavebaRadius` (polymorphic, `rfl`). -/
theorem source_pavebaRadius (noiseVar : α) (round m K : Nat) (δ c : α) :
    Gen.C04.gen_pavebaRadius noiseVar round m K δ c = Sched.pavebaRadius noiseVar round m K δ c :=
  GenAgree.C04.gen_pavebaRadius_eq noiseVar round m K δ c

/-- `PaVeBaGP.compute_alpha` as written in the source = `pavebaGpAlpha` (polymorphic, `rfl`). -/
theorem source_pavebaGpAlpha (round m K : Nat) (δ c : α) :
    Gen.C04.gen_pavebaGpAlpha round m K δ c = Sched.pavebaGpAlpha round m K δ c :=
  GenAgree.C04.gen_pavebaGpAlpha_eq round m K δ c

/-- `PaVeBaPartialGP.compute_alpha` as written in the source = `partialGpAlpha` (polymorphic, `rfl`). -/
theorem source_partialGpAlpha (round K : Nat) (δ c : α) :
    Gen.C04.gen_partialGpAlpha round K δ c = Sched.partialGpAlpha round K δ c :=
  GenAgree.C04.gen_partialGpAlpha_eq round K δ c

/-- `VOGP.compute_beta` as written in the source = `vogpBeta` (polymorphic, `rfl`). -/
theorem source_vogpBeta (round m K : Nat) (δ c : α) :
    Gen.C04.gen_vogpBeta round m K δ c = Sched.vogpBeta round m K δ c :=
  GenAgree.C04.gen_vogpBeta_eq round m K δ c

/-- `EpsilonPAL.compute_beta` as written in the source = `epalBeta` (polymorphic, `rfl`). -/
theorem source_epalBeta (round m K : Nat) (δ c : α) :
    Gen.C04.gen_epalBeta round m K δ c = Sched.epalBeta round m K δ c :=
  GenAgree.C04.gen_epalBeta_eq round m K δ c

/-- `Auer.compute_beta`, original branch, as written in the source (every entry of the returned
array) = `auerBeta` (polymorphic, `rfl`). -/
theorem source_auerBeta (round m K : Nat) (δ c : α) :
    Gen.C04.gen_auerBeta round m K δ c = Sched.auerBeta round m K δ c :=
  GenAgree.C04.gen_auerBeta_eq round m K δ c

/-- `Auer.compute_beta`, empirical branch, as written in the source (`v_hat` an input) =
`auerBetaEmp` (polymorphic, `rfl`). -/
theorem source_auerBetaEmp (round m K : Nat) (δ c vHat : α) :
    Gen.C04.gen_auerBetaEmp round m K δ c vHat = Sched.auerBetaEmp round m K δ c vHat :=
  GenAgree.C04.gen_auerBetaEmp_eq round m K δ c vHat

end SourceAgreement

/-- The explicit chains restated for the source-derived terms: with `β_t` the expression *read off
`vogp.py` / `epal.py`*, `∑_t K·m·exp(−β_t²/2)` is `δ/2` resp. exactly `δ` (transfer of
`vogp_union_exp`, `epal_union_exp` along the agreement). -/
theorem source_vogp_epal_union_exp (K m : ℕ) (hK : 1 ≤ K) (hm : 1 ≤ m) (δ : ℝ) (h0 : 0 < δ)
    (h1 : δ < 1) :
    HasSum (fun t : ℕ => (K:ℝ) * m * rexp (-(Gen.C04.gen_vogpBeta t m K δ (1:ℝ))^2/2)) (δ/2) ∧
    HasSum (fun t : ℕ => (K:ℝ) * m * rexp (-(Gen.C04.gen_epalBeta t m K δ (1:ℝ))^2/2)) δ := by
  simp only [source_vogpBeta, source_epalBeta]
  exact ⟨vogp_union_exp K m hK hm δ h0 h1, epal_union_exp K m hK hm δ h0 h1⟩

end VOPy.C04
