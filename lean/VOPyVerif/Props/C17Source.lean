import VOPyVerif.Props.C17
import VOPyVerif.Proofs.GenAgreeC17
/-!
# C17 — SOURCE AGREEMENT obligations (second tie between model and code, DESIGN §2.10)

Property theorems only, same namespace `VOPy.C17` as `Props/C17.lean` (whose theorems are about the
hand-written model and do not depend on anything generated).  The theorems here say that the model's
definitions are the ones regenerated from the current Python source text (`Gen/C17.lean`, written by
`harness/translate*.py` on every `./check C17`; agreement lemmas in `Proofs/GenAgreeC17.lean`).  They live in
their own module so that a source edit the translator reads differently (or cannot read) makes exactly the
affected obligations fail — `harness/leanbuild.py` builds this module separately and, if it does not build,
attributes the failure per theorem — while the model theorems of `Props/C17.lean` stay discharged.
-/
namespace VOPy.C17
open VOPy VOPy.ConeConst
open scoped RealInnerProductSpace
open Real

variable {E : Type*} [NormedAddCommGroup E] [InnerProductSpace ℝ E]

/-! ## SOURCE AGREEMENT — `coneBeta` is the term read off the current Python source

Second tie between model and code (DESIGN §2.10), beside the numeric comparison at `Float`:
`harness/translate.py` regenerates `Gen/C17.lean` from the *source text* of the property
`ConeTheta2D.beta` (`vopy/ordering_cone.py`) on every `./check C17` (Python `ast`; `cone_rad`
inlined; the `if`/`else` becomes the term's branch; nothing executed), and the theorems below are
re-checked against the regenerated file.  Level: **polymorphic** (`∀ α [RealLike α] [LtB α]`), by
`rfl` (`Proofs/GenAgreeC17.lean`): the term `beta_theta2D` is about *is* the generated term. -/

/-- `ConeTheta2D.beta` as written in the source = `coneBeta` (polymorphic, `rfl`). -/
theorem source_coneBeta {α : Type} [RealLike α] [LtB α] (deg : α) :
    Gen.C17.gen_coneBeta deg = coneBeta deg :=
  GenAgree.C17.gen_coneBeta_eq deg

/-- `beta_theta2D` for the source-derived term: the expression `ordering_cone.py` returns, at `ℝ`,
is `1/sin θ` for acute and `1` for right or obtuse cones, and the reciprocal of `α₁`, `α₂`. -/
theorem source_beta_theta2D (w1 w2 : E) (deg : ℝ) (hd0 : 0 < deg) (hd1 : deg < 180) (h1 : ‖w1‖ = 1)
    (h2 : ‖w2‖ = 1) (h12 : ⟪w1, w2⟫ = -cos (deg / 180 * π)) :
    Gen.C17.gen_coneBeta deg = (if deg < 90 then 1 / sin (deg / 180 * π) else 1) ∧
    Gen.C17.gen_coneBeta deg = 1 / alpha [w1, w2] w1 ∧
    Gen.C17.gen_coneBeta deg = 1 / alpha [w1, w2] w2 := by
  rw [source_coneBeta]
  exact beta_theta2D w1 w2 deg hd0 hd1 h1 h2 h12

end VOPy.C17
