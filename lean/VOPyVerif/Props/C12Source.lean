import VOPyVerif.Props.C12
import VOPyVerif.Proofs.GenAgreeC12
/-!
# C12 — SOURCE AGREEMENT obligations (second tie between model and code, DESIGN §2.10)

Property theorems only, same namespace `VOPy.C12` as `Props/C12.lean` (whose theorems are about the
hand-written model and do not depend on anything generated).  The theorems here say that the model's
`get_2d_w` (`ConeFormulas.get2dW`, the matrix behind `ConeTheta2D` / `ConeTheta2DOrder`) is assembled from
the entries regenerated from the current Python source text (`Gen/C12.lean`, written by
`harness/translate.py` on every `./check C12`; agreement lemmas in `Proofs/GenAgreeC12.lean`), and transfer
the angle semantics to that assembled matrix.  Own module, so a source edit the translator reads
differently makes exactly these obligations fail while the model theorems of `Props/C12.lean` stay
discharged.  Translated: `angle_radian`, both branches of `cone_degree <= 90`, the four row entries per
branch, the presence of the normalisation statements.  Modelled, not translated: `np.linalg.norm`
(`rnormalize`), `np.vstack` (row order W_1, W_2).
-/
namespace VOPy.C12
open VOPy VOPy.ConeOrd VOPy.ConeFormulas Real

/-- the matrix assembled from the source-derived entries: per branch of `cone_degree <= 90` the two rows
`np.array([…])`, each divided by its norm -/
def sourceW {α : Type} [RealLike α] [ConeFormulas.LeB α] (deg : α) : List (List α) :=
  [rnormalize (if ConeFormulas.LeB.leb deg (RealLike.ofNat 90) then [Gen.C12.gen_w1xLe deg, Gen.C12.gen_w1yLe]
     else [Gen.C12.gen_w1xGt deg, Gen.C12.gen_w1yGt]),
   rnormalize (if ConeFormulas.LeB.leb deg (RealLike.ofNat 90) then [Gen.C12.gen_w2xLe deg, Gen.C12.gen_w2yLe]
     else [Gen.C12.gen_w2xGt deg, Gen.C12.gen_w2yGt])]

/-- **The entries of `get_2d_w` as written in the source** are the entries of the hand-written term, in both
branches (polymorphic; `-1` is read as the integer literal it is). -/
theorem source_get2dW_entries {α : Type} [RealLike α] (deg : α) :
    Gen.C12.gen_w1xLe deg = -(RealLike.tan (RealLike.pi / RealLike.ofNat 4 - degToRad deg / RealLike.ofNat 2)) ∧
    (Gen.C12.gen_w1yLe : α) = RealLike.ofNat 1 ∧
    Gen.C12.gen_w2xLe deg = RealLike.tan (RealLike.pi / RealLike.ofNat 4 + degToRad deg / RealLike.ofNat 2) ∧
    (Gen.C12.gen_w2yLe : α) = -(RealLike.ofNat 1) ∧
    Gen.C12.gen_w1xGt deg = -(RealLike.tan (RealLike.pi / RealLike.ofNat 4 - degToRad deg / RealLike.ofNat 2)) ∧
    (Gen.C12.gen_w1yGt : α) = RealLike.ofNat 1 ∧
    Gen.C12.gen_w2xGt deg = -(RealLike.tan (RealLike.pi / RealLike.ofNat 4 + degToRad deg / RealLike.ofNat 2)) ∧
    (Gen.C12.gen_w2yGt : α) = RealLike.ofNat 1 :=
  ⟨GenAgree.C12.gen_w1xLe_eq deg, GenAgree.C12.gen_w1yLe_eq, GenAgree.C12.gen_w2xLe_eq deg,
   GenAgree.C12.gen_w2yLe_eq, GenAgree.C12.gen_w1xGt_eq deg, GenAgree.C12.gen_w1yGt_eq,
   GenAgree.C12.gen_w2xGt_eq deg, GenAgree.C12.gen_w2yGt_eq⟩

/-- **`get2dW` is the matrix assembled from the source** (polymorphic: the `Float` evaluation of the driver
and the `ℝ` theorems are about literally these entries). -/
theorem source_get2dW {α : Type} [RealLike α] [ConeFormulas.LeB α] (deg : α) :
    get2dW deg = sourceW deg :=
  GenAgree.C12.get2dW_eq_gen deg

/-- **Angle semantics for the source-derived matrix** (`0 < θ < 180`, `θ ≠ 90`, as for
`theta2D_semantics_partial`): unit rows, and a vector is in the cone exactly when it lies within `θ/2` of
the diagonal. -/
theorem source_theta2D_semantics (θdeg : ℝ) (h0 : 0 < θdeg) (h180 : θdeg < 180) (h90 : θdeg ≠ 90) :
    sourceW θdeg = get2dWClosed θdeg ∧
    (∀ w ∈ sourceW θdeg, w.length = 2 ∧ rdot w w = 1) ∧
    (∀ x1 x2 : ℝ, MemCone (sourceW θdeg) [x1, x2] ↔
      cos ((θdeg / 180 * π) / 2) * √(x1 * x1 + x2 * x2) ≤ (x1 + x2) / √2) := by
  rw [← source_get2dW]
  have h := theta2D_semantics_partial θdeg h0 h180 h90
  exact ⟨theta2D_rows_partial θdeg h0 h180 h90, h.1, h.2.2⟩

end VOPy.C12
