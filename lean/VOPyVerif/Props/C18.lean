import VOPyVerif.Proofs.AdaptiveVol
import VOPyVerif.Proofs.AdaptivePoints
import VOPyVerif.Proofs.AdaptiveVh
import Mathlib.Data.Real.Basic
/-!
# C18 — adaptive discretisation tiles the domain; VOGP_AD declares only finest leaves

Property theorems only (helper lemmas: `Proofs/Adaptive.lean` — geometry of one refinement,
`Proofs/AdaptiveInv.lean` — invariants of the cell tree, `Proofs/AdaptiveAlgo.lean` — VOGP_AD's set
surgery, `Proofs/AdaptiveOps.lean` — operation sequences, `Proofs/AdaptiveVol.lean` — leaf volumes,
`Proofs/AdaptivePoints.lean` — distinct points).  They are about the executable model
`VOPy.Adaptive` (`Model/Adaptive.lean`) that the driver runs against
`AdaptivelyDiscretizedDesignSpace` and `VOGP_AD`.

Geometry is stated for points `x : List K` over an arbitrary ordered field `K` (instantiate `K := ℝ`
for "subsets of ℝ^d", `K := ℚ` for the rationals): `InCell x c` = `x` has `d` coordinates and lies in
the closed box `c`, `InInt x c` = in the open box, `IntDisjoint K a b` = no point of `K^d` lies in both
open boxes, `unitCell d` = `[0,1]^d`.  A node is a *leaf* (`Space.isLeaf`) iff `refine` was never
called on it.
-/
namespace VOPy.C18
open VOPy VOPy.Adaptive

variable {K : Type*} [Field K] [LinearOrder K] [IsStrictOrderedRing K]

/-! ## One refinement -/

/-- **`refine_design(i)` appends exactly `2^d` nodes and returns their indices.**  If node `i` exists
(with cell of dimension `d = p.cell.length`) the new node list is the old one followed by
`children p`, there are `2^d` of them, and the returned list is `n, n+1, …, n + 2^d − 1`
(`n` = old number of nodes); nothing else of the space changes except the ghost `refined`. -/
theorem refine_appends_children {s s' : Space} {i : Nat} {ch : List Nat} {p : Node}
    (hp : s.nodes[i]? = some p) (h : s.refine i = some (s', ch)) :
    s'.nodes = s.nodes ++ children p ∧ (children p).length = 2 ^ p.cell.length ∧
      ch = (List.range (2 ^ p.cell.length)).map (fun k => s.nodes.length + k) ∧
      s'.maxDepth = s.maxDepth ∧ s'.refined = i :: s.refined := by
  obtain ⟨p', hp', hs, hch⟩ := Space.refine_eq h
  rw [hp] at hp'; cases hp'
  obtain ⟨h1, h2, h3⟩ := refine_nodes hp hs
  exact ⟨h1, children_length p, by rw [hch, children_length], h3, h2⟩

/-- **Every child**: its cell is one of the product cells of the parent, has the parent's number
of dimensions and half the parent's side length in every dimension; its point is the centre of its
cell; its depth is the parent's plus one; its confidence region is the parent's. -/
theorem child_spec {p nd : Node} (h : nd ∈ children p) :
    nd.cell ∈ childCells p.cell ∧ nd.cell.length = p.cell.length ∧
      nd.cell.map (fun q => q.2 - q.1) = p.cell.map (fun q => (q.2 - q.1) / 2) ∧
      nd.point = centre nd.cell ∧ nd.depth = p.depth + 1 ∧
      nd.lower = p.lower ∧ nd.upper = p.upper := by
  obtain ⟨c, hc, rfl⟩ := mem_children h
  exact ⟨hc, length_of_mem_childCells hc, sides_of_mem_childCells hc, rfl, rfl, rfl, rfl⟩

/-- **The children tile the parent cell** (as subsets of `K^d`): every point of the parent cell lies
in some child cell, every child cell is contained in the parent cell, and two distinct children
(distinct positions in the list) share no interior point. -/
theorem children_tile_parent (K : Type*) [Field K] [LinearOrder K] [IsStrictOrderedRing K] (c : Cell) :
    (∀ x : List K, InCell x c → ∃ c' ∈ childCells c, InCell x c') ∧
    (∀ c' ∈ childCells c, ∀ x : List K, InCell x c' → InCell x c) ∧
    (childCells c).Pairwise (IntDisjoint K) :=
  ⟨fun _ hx => exists_child_of_inCell hx, fun _ hc _ hx => inCell_of_child hc hx,
   childCells_pairwise K c⟩

/-- the cells of `children p` are exactly `childCells p.cell`, in the same order -/
theorem children_cells (p : Node) : (children p).map Node.cell = childCells p.cell := by
  simp only [children, List.map_map]
  exact List.map_id'' (fun _ => rfl) _

/-- **Volumes**: the children's volumes add up to the parent's. -/
theorem children_volume (c : Cell) : ((childCells c).map vol).sum = vol c := childCells_vol_sum c

/-- **Depth gate of `should_refine_design`**: it answers `True` exactly when the node exists, is
strictly below the maximum depth and the `Vh`-vs-std comparison `vh` holds. -/
theorem shouldRefine_iff {s : Space} {i : Nat} {vh : Bool} :
    s.shouldRefine i vh = some true ↔ ∃ p, s.nodes[i]? = some p ∧ p.depth < s.maxDepth ∧ vh = true := by
  constructor
  · exact shouldRefine_true
  · rintro ⟨p, hp, hlt, rfl⟩
    simp [Space.shouldRefine, hp, Nat.not_le.mpr hlt]

/-! ## Set surgery of `evaluate_refine`, for an arbitrary state -/

/-- **A refined node is replaced by its children in the same set.**  Whatever the state, if
`evaluate_refine` with candidate `c` succeeds then `c` was active and either (sampling) only the
sample counter changed — this is the case whenever `c` is at or beyond the maximum depth — or
(refinement) `c` was below the maximum depth, the design space was refined at `c` with new indices
`ch`, and: if `c ∈ S` then `S` loses `c` and gains `ch` while `P` is untouched; otherwise `c ∈ P`,
and `P` loses `c` and gains `ch` while `S` is untouched. -/
theorem evalRefine_same_set {a a' : Algo} {c : Nat} {vh : Bool} (h : a.evalRefine c vh = some a') :
    (c ∈ a.S ∨ c ∈ a.P) ∧ ∃ p, a.space.nodes[c]? = some p ∧
    (((a.space.maxDepth ≤ p.depth ∨ vh = false) ∧ a' = { a with samples := a.samples + 1 }) ∨
     (p.depth < a.space.maxDepth ∧ vh = true ∧ ∃ sp ch, a.space.refine c = some (sp, ch) ∧
        ((c ∈ a.S ∧ a' = { a with space := sp, S := a.S.filter (fun i => i != c) ++ ch }) ∨
         (c ∉ a.S ∧ c ∈ a.P ∧
            a' = { a with space := sp, P := a.P.filter (fun i => i != c) ++ ch })))) :=
  evalRefine_cases h

/-! ## Invariants over every sequence of operations from the root -/

/-- **Main invariant.**  For every domain dimension `d`, number of objectives `m`, maximum depth
`md` and **every** sequence `ops` of modeling / discarding / ε-covering / evaluate-refine / end-of-round
operations (with arbitrary inputs) that the model can execute from the initial VOGP_AD state:

* `S` and `P` are duplicate-free and disjoint, and every active node (`S ∪ P`) is a leaf;
* the leaves (active ∪ discarded ∪ declared) tile `[0,1]^d`: every point of the cube lies in a leaf
  cell, every leaf cell lies in the cube, two distinct leaves share no interior point
  (in particular the active nodes have pairwise interior-disjoint cells);
* every node has a `d`-dimensional cell whose centre is its point, depth ≥ 1, and side length
  `2^-(depth-1)` in every dimension;
* every member of `P` is at depth exactly `md` (declared designs are finest leaves);
* `max_discretization_depth` and the design space's `max_depth` are still `md`. -/
theorem run_invariant (K : Type*) [Field K] [LinearOrder K] [IsStrictOrderedRing K]
    (d m md : Nat) (ops : List Op) (a : Algo) (h : (Algo.init d m md).run ops = some a) :
    (a.S.Nodup ∧ a.P.Nodup ∧ (∀ i ∈ a.S, i ∉ a.P) ∧ ∀ i, i ∈ a.S ∨ i ∈ a.P → a.space.isLeaf i = true) ∧
    a.space.Tiles K d ∧
    a.space.WF d ∧
    (∀ i ∈ a.P, a.space.depthAt i = some md) ∧
    (a.maxDepth = md ∧ a.space.maxDepth = md) := by
  have hrun := run_inv (d := d) (P := fun s => s.Tiles K d ∧ s.maxDepth = md)
    (fun s s' i lo up hp hs => ⟨setRegion_tiles hp.1 hs, by rw [(setRegion_facts hs).2.1]; exact hp.2⟩)
    (fun s s' i ch p hp hwf hl hpn _ hr => by
      obtain ⟨p', hp', hs, _⟩ := Space.refine_eq hr
      exact ⟨refine_tiles hwf hp.1 hl hr, by rw [(refine_nodes hp' hs).2.2]; exact hp.2⟩)
    ops (init_inv d m md) ⟨root_tiles d m md, rfl⟩ h
  obtain ⟨hi, ht, hm⟩ := hrun
  have hmd : a.maxDepth = md := by rw [hi.maxEq, hm]
  refine ⟨⟨hi.sNodup, hi.pNodup, hi.disj, fun i h => h.elim (hi.sLeaf i) (hi.pLeaf i)⟩, ht, hi.wf, ?_,
    hmd, hm⟩
  intro i hiP
  cases hl : a.latch with
  | true => rw [← hmd]; exact hi.latched hl i (Or.inr hiP)
  | false => rw [hi.unlatched hl] at hiP; exact absurd hiP (by simp)

/-- **Active nodes have pairwise interior-disjoint cells** (corollary of the tiling, spelled out):
two distinct members of `S ∪ P` share no interior point. -/
theorem run_active_disjoint (K : Type*) [Field K] [LinearOrder K] [IsStrictOrderedRing K]
    (d m md : Nat) (ops : List Op) (a : Algo) (h : (Algo.init d m md).run ops = some a)
    (i j : Nat) (hi : i ∈ a.S ∨ i ∈ a.P) (hj : j ∈ a.S ∨ j ∈ a.P) (hne : i ≠ j) :
    ∃ ni nj, a.space.nodes[i]? = some ni ∧ a.space.nodes[j]? = some nj ∧
      IntDisjoint K ni.cell nj.cell := by
  obtain ⟨⟨_, _, _, hleaf⟩, ht, _, _, _⟩ := run_invariant K d m md ops a h
  have hli := hleaf i hi
  have hlj := hleaf j hj
  have hi' := ((Space.isLeaf_iff _ _).mp hli).1
  have hj' := ((Space.isLeaf_iff _ _).mp hlj).1
  refine ⟨a.space.nodes[i], a.space.nodes[j], List.getElem?_eq_getElem hi', List.getElem?_eq_getElem hj', ?_⟩
  exact ht.disjoint i j _ _ hli hlj hne (by simp [Space.cellAt, List.getElem?_eq_getElem hi'])
    (by simp [Space.cellAt, List.getElem?_eq_getElem hj'])

/-- **No leaf is lost: leaves = active ∪ discarded.**  After every operation sequence a node is a leaf
(never refined) iff it is in `S`, in `P`, or was removed by some `discarding()` (ghost list `dropped`);
discarded designs never become active again.  Together with `run_invariant` this is "active plus
discarded leaves always tile the unit cube". -/
theorem run_leaves_accounted (d m md : Nat) (ops : List Op) (a : Algo)
    (h : (Algo.init d m md).run ops = some a) :
    (∀ i, a.space.isLeaf i = true ↔ i ∈ a.S ∨ i ∈ a.P ∨ i ∈ a.dropped) ∧
    (∀ i ∈ a.dropped, i ∉ a.S ∧ i ∉ a.P) := by
  have hrun := run_inv (d := d) (P := fun _ => True) (fun _ _ _ _ _ _ _ => trivial)
    (fun _ _ _ _ _ _ _ _ _ _ _ => trivial) ops (init_inv d m md) trivial h
  obtain ⟨hi, _⟩ := hrun
  refine ⟨fun i => ⟨hi.account i, ?_⟩, hi.dDisj⟩
  rintro (h | h | h)
  · exact hi.sLeaf i h
  · exact hi.pLeaf i h
  · exact hi.dLeaf i h

/-- **Node points are pairwise distinct** (domain dimension ≥ 1): `evaluate_refine` recovers the
candidate's index by comparing its point with the rows of `points`; after every operation sequence no
two nodes of the tree (leaves or internal) share a point, so that lookup is unambiguous. -/
theorem run_points_distinct (d m md : Nat) (hd : 1 ≤ d) (ops : List Op) (a : Algo)
    (h : (Algo.init d m md).run ops = some a) (i j : Nat) (ni nj : Node)
    (hi : a.space.nodes[i]? = some ni) (hj : a.space.nodes[j]? = some nj)
    (heq : ni.point = nj.point) : i = j := by
  have hrun := run_inv (d := d) (P := fun s => s.Tiles ℚ d ∧ s.PointsOk)
    (fun s s' i lo up hp hs => ⟨setRegion_tiles hp.1 hs, setRegion_pointsOk hp.2 hs⟩)
    (fun s s' i ch p hp hwf hl _ _ hr =>
      ⟨refine_tiles hwf hp.1 hl hr, refine_pointsOk hd hwf hp.1 hp.2 hl hr⟩)
    ops (init_inv d m md) ⟨root_tiles d m md, root_pointsOk d m md⟩ h
  exact hrun.2.2.inj i j ni.point (by simp [Space.pointAt, hi]) (by simp [Space.pointAt, hj, heq])

/-- **Leaf volumes add up to 1** after every operation sequence (`Space.leafVolume` sums the cell
volumes over `Space.leaves`, the list of never-refined indices): the exact quantity the harness
evaluates on the real arrays. -/
theorem run_leaf_volume (d m md : Nat) (ops : List Op) (a : Algo)
    (h : (Algo.init d m md).run ops = some a) : a.space.leafVolume = 1 := by
  have hrun := run_inv (d := d) (P := fun s => s.leafVolume = 1)
    (fun s s' i lo up hp hs => by rw [setRegion_leafVolume hs]; exact hp)
    (fun s s' i ch p hp hwf hl _ _ hr => by rw [refine_leafVolume hwf hl hr]; exact hp)
    ops (init_inv d m md) (root_leafVolume d m md) h
  exact hrun.2

/-- **No node exceeds the maximum depth** when the maximum depth is at least the root's depth 1:
in a VOGP_AD run every refinement goes through `should_refine_design`. -/
theorem run_depth_bound (d m md : Nat) (hmd : 1 ≤ md) (ops : List Op) (a : Algo)
    (h : (Algo.init d m md).run ops = some a) : ∀ n ∈ a.space.nodes, n.depth ≤ md := by
  have hrun := run_inv (d := d) (P := fun s => s.DepthOk ∧ s.maxDepth = md)
    (fun s s' i lo up hp hs => ⟨setRegion_depthOk hp.1 hs, by rw [(setRegion_facts hs).2.1]; exact hp.2⟩)
    (fun s s' i ch p hp _ _ hpn hlt hr => by
      obtain ⟨p', hp', hs, _⟩ := Space.refine_eq hr
      exact ⟨refine_depthOk hp.1 hpn hlt hr, by rw [(refine_nodes hp' hs).2.2]; exact hp.2⟩)
    ops (init_inv d m md) ⟨root_depthOk d m md hmd, rfl⟩ h
  intro n hn
  have := hrun.2.1 n hn
  rw [hrun.2.2] at this; exact this

/-- **The latch**: once `enable_epsilon_covering` is set, every active node is at the maximum depth
(so nothing is ever refined again); while it is not set, `P` is empty. -/
theorem run_latch (d m md : Nat) (ops : List Op) (a : Algo)
    (h : (Algo.init d m md).run ops = some a) :
    (a.latch = true → ∀ i, i ∈ a.S ∨ i ∈ a.P → a.space.depthAt i = some md) ∧
    (a.latch = false → a.P = []) := by
  have hrun := run_inv (d := d) (P := fun s => s.maxDepth = md)
    (fun s s' i lo up hp hs => by rw [(setRegion_facts hs).2.1]; exact hp)
    (fun s s' i ch p hp _ _ _ _ hr => by
      obtain ⟨p', hp', hs, _⟩ := Space.refine_eq hr
      rw [(refine_nodes hp' hs).2.2]; exact hp)
    ops (init_inv d m md) rfl h
  obtain ⟨hi, hm⟩ := hrun
  have hmd : a.maxDepth = md := by rw [hi.maxEq, hm]
  exact ⟨fun hl i hmem => by rw [← hmd]; exact hi.latched hl i hmem, hi.unlatched⟩

/-- **Whole rounds.**  Every sequence of `run_one_step()` calls (`Algo.steps`, each with arbitrary
inputs) is a special case of an operation sequence, so all invariants above hold after every round. -/
theorem steps_invariant (K : Type*) [Field K] [LinearOrder K] [IsStrictOrderedRing K]
    (d m md : Nat) (ins : List StepIn) (a : Algo) (h : (Algo.init d m md).steps ins = some a) :
    (a.S.Nodup ∧ a.P.Nodup ∧ (∀ i ∈ a.S, i ∉ a.P) ∧ ∀ i, i ∈ a.S ∨ i ∈ a.P → a.space.isLeaf i = true) ∧
    a.space.Tiles K d ∧ a.space.WF d ∧ (∀ i ∈ a.P, a.space.depthAt i = some md) ∧
    (1 ≤ md → ∀ n ∈ a.space.nodes, n.depth ≤ md) := by
  obtain ⟨ops, ho⟩ := steps_is_run ins h
  obtain ⟨h1, h2, h3, h4, _⟩ := run_invariant K d m md ops a ho
  exact ⟨h1, h2, h3, h4, fun hmd => run_depth_bound d m md hmd ops a ho⟩

/-! ## The design space alone, under any refinement order -/

/-- **Random refinement orders.**  For every sequence of design-space operations (direct
`refine_design`, guarded `should_refine_design → refine_design`, region updates) executed from the
root in which every refinement targets a node that is a leaf at that moment (`Space.leafOnly`): the
node list is well formed (centres, side `2^-(depth-1)`, depth ≥ 1), the leaves tile `[0,1]^d`, and — if
no operation bypasses `should_refine_design` and `md ≥ 1` — no node is deeper than `md`. -/
theorem space_ops_invariant (K : Type*) [Field K] [LinearOrder K] [IsStrictOrderedRing K]
    (d m md : Nat) (ops : List SOp) (s : Space) (ans : List Bool)
    (h : (Space.root d m md).runOps ops = some (s, ans))
    (hleaf : (Space.root d m md).leafOnly ops = true) :
    s.WF d ∧ s.Tiles K d ∧
      (1 ≤ md → ops.all SOp.isGuarded = true → ∀ n ∈ s.nodes, n.depth ≤ md) := by
  obtain ⟨h1, h2, h3, h4⟩ := runOps_inv (K := K) ops (root_wf d m md) (root_tiles d m md) hleaf h
  refine ⟨h1, h2, fun hmd hg n hn => ?_⟩
  have := h3 hg (root_depthOk d m md hmd) n hn
  rw [h4] at this; exact this

/-- leaf volumes add up to 1 under any refinement order of leaves -/
theorem space_ops_leaf_volume (d m md : Nat) (ops : List SOp) (s : Space) (ans : List Bool)
    (h : (Space.root d m md).runOps ops = some (s, ans))
    (hleaf : (Space.root d m md).leafOnly ops = true) : s.leafVolume = 1 := by
  rw [runOps_leafVolume ops (root_wf d m md) hleaf h]
  exact root_leafVolume d m md

/-! ## Non-vacuity -/

/-- the four children of the unit square, in `itertools.product` order -/
example : childCells [(0, 1), (0, 1)] =
    [[(0, 1/2), (0, 1/2)], [(0, 1/2), (1/2, 1)], [(1/2, 1), (0, 1/2)], [(1/2, 1), (1/2, 1)]] := by
  decide +kernel

/-- d = 2, maximum depth 3: refine the root, then node 1, then node 6; a fourth guarded request
(node 9, already at depth 3) is refused.  13 nodes, leaves 2,3,4,5,7,8 and 9..12. -/
example :
    ((Space.root 2 2 3).runOps [.guarded 0 true, .guarded 1 true, .refine 6, .guarded 9 true]).map
      (fun r => (r.1.nodes.length, r.1.leaves, r.2, r.1.nodes.map (·.depth))) =
    some (13, [2, 3, 4, 5, 7, 8, 9, 10, 11, 12], [true, true, false],
      [1, 2, 2, 2, 2, 3, 3, 3, 3, 4, 4, 4, 4]) := by
  decide +kernel

example : (Space.root 2 2 3).leafOnly [.guarded 0 true, .guarded 1 true, .refine 6, .guarded 9 true] = true := by
  decide +kernel

/-- a VOGP_AD history in d = 2 with maximum depth 2: round 1 refines the root (children 1..4 join S),
round 2 discards node 3, the latch closes (all of S at depth 2), node 2 is declared, and node 1 — at
maximum depth — is sampled instead of refined. -/
example :
    ((Algo.init 2 2 2).run [.update [(0, [-1, -1], [1, 1])], .discard [], .cover [], .evalRefine 0 true,
        .endRound, .discard [3], .cover [2], .evalRefine 1 true, .endRound]).map
      (fun a => ((a.S, a.P, a.latch, a.dropped), (a.samples, a.round), (a.space.nodes.length, a.space.leaves))) =
    some (([1, 4], [2], true, [3]), (1, 2), (5, [1, 2, 3, 4])) := by
  decide +kernel

/-- the same history as two `run_one_step()` calls -/
example :
    ((Algo.init 2 2 2).steps
        [⟨[(0, [-1, -1], [1, 1])], [], [], 0, true⟩, ⟨[], [3], [2], 1, true⟩]).map
      (fun a => (a.S, a.P, a.latch, a.samples, a.round)) =
    some ([1, 4], [2], true, 1, 2) := by
  decide +kernel

/-- the ε-covering gate is closed while some member of `S` is above the finest level: nothing is
declared even though the geometry says "not covered" -/
example : ((Algo.init 1 2 3).run [.evalRefine 0 true, .cover [1, 2]]).map (fun a => (a.S, a.P, a.latch)) =
    some ([1, 2], [], false) := by
  decide +kernel

/-- an (unreachable) state with a member of `P` below the maximum depth: its children stay in `P` -/
example :
    (Algo.evalRefine { (Algo.init 1 2 3) with S := [], P := [0] } 0 true).map (fun a => (a.S, a.P)) =
    some ([], [1, 2]) := by
  decide +kernel

/-- a concrete point: (1/3, 3/4) of the unit square lies in the second child (here over `ℚ`) -/
example : InCell ([1/3, 3/4] : List ℚ) [(0, 1/2), (1/2, 1)] := by
  simp only [inCell_cons, inCell_nil]
  norm_num

/-- the theorems instantiate at `K := ℝ` ("subsets of ℝ^d"): after the d = 2 history above the leaves
tile `[0,1]²` ⊆ ℝ² -/
example : ∀ a, (Algo.init 2 2 2).run [.evalRefine 0 true, .endRound, .discard [3], .cover [2]] = some a →
    a.space.Tiles ℝ 2 :=
  fun a h => (run_invariant ℝ 2 2 2 _ a h).2.1

example (c : Cell) (x : List ℝ) (hx : InCell x c) : ∃ c' ∈ childCells c, InCell x c' :=
  (children_tile_parent ℝ c).1 x hx

/-! ## EXTENSION — `calculate_design_vh`, `should_refine_design`'s comparison, `compute_beta`

About the `RealLike` terms of `Model/AdaptiveVh.lean` (helpers: `Proofs/AdaptiveVh.lean`), which the
driver evaluates at `Float` against the real functions (ops `vh`, `refine`, `cmp`, `adbeta`).  The
Boolean input `vh` of `Space.shouldRefine` above is no longer opaque: it is `Vh.allLe` of these
terms.  Statements about values are at `ℝ` (the same term). -/

section VhTerms

/-- **The term equals the stated closed form** (every constant of the code visible):
`Vh_i = 4·T·(√(C2 + 2·t2 + t3 + t4) + C3)` with `Cki = √var_i / ls_i`,
`T = Cki·(√d/2)·(1/2)^depth`, `C1 = ((√d+1)·√d/2)^d·Cki`, `C2 = 2·log(2·C1²·π²/6)`,
`C3 = 1 + 2.7·√(2d·log 2)`, `t2 = log(2·(depth+1)²·π²·m/(6δ))`, `t3 = depth·log 4`,
`t4 = max(0, −4d·log T)`. -/
theorem vh_closed_form (d m : Nat) (δ : ℝ) (depth : Int) (ls var : ℝ) :
    let Cki := Real.sqrt var / ls
    let T := Cki * (1 / 2 * Real.sqrt d * (1 / 2 : ℝ) ^ depth)
    let C1 := ((Real.sqrt d + 1) * Real.sqrt d / 2) ^ d * Cki
    let C2 := 2 * Real.log (2 * C1 ^ 2 * Real.pi ^ 2 / 6)
    let C3 := 1 + 27 / 10 * Real.sqrt ((2 * d : ℕ) * Real.log 2)
    let t2 := Real.log (2 * ((depth : ℝ) + 1) ^ 2 * Real.pi ^ 2 * m / (6 * δ))
    let t3 := (depth : ℝ) * Real.log 4
    let t4 := max 0 (-(4 * (d : ℝ)) * Real.log T)
    (Vh.vhEntry d m δ depth ls var : ℝ) = 4 * T * (Real.sqrt (C2 + 2 * t2 + t3 + t4) + C3) := by
  intro Cki T C1 C2 C3 t2 t3 t4
  rw [Vh.vhEntry_real, Vh.term4_real, Vh.term1_real, Vh.c2_real, Vh.c1_real, Vh.c3_real, Vh.term2_real,
    Vh.term3_real]

/-- **`Vh` is positive** for a positive kernel variance and lengthscale (domain dimension ≥ 1), at
every depth and for every δ: every entry `calculate_design_vh` returns is `> 0`. -/
theorem vh_pos (d m : Nat) (hd : 1 ≤ d) (δ : ℝ) (pointDepth : Nat) (offset : Int)
    (lsvar : List (ℝ × ℝ)) (h : ∀ p ∈ lsvar, 0 < p.1 ∧ 0 < p.2) :
    (Vh.designVh d m δ pointDepth offset lsvar).length = lsvar.length ∧
    ∀ x ∈ Vh.designVh d m δ pointDepth offset lsvar, 0 < x := by
  refine ⟨by simp [Vh.designVh], ?_⟩
  intro x hx
  obtain ⟨p, hp, rfl⟩ := List.mem_map.mp hx
  exact Vh.vhEntry_pos d m hd δ _ (h p hp).1 (h p hp).2

/-- **`Vh` strictly decreases with the depth** (no restriction on `term4`): one level deeper halves
`term1` while the bracket grows by less than a factor 2, because the radicand grows by at most
`(6 + 4d)·log 2 < C3²`. -/
theorem vh_strictAnti_depth (d m : Nat) (hd : 1 ≤ d) (hm : 0 < m) {δ ls var : ℝ} (hδ : 0 < δ)
    (hls : 0 < ls) (hv : 0 < var) (h h' : Nat) (hlt : h < h') :
    (Vh.vhEntry d m δ (h' : Int) ls var : ℝ) < Vh.vhEntry d m δ (h : Int) ls var := by
  induction h' with
  | zero => omega
  | succ k ih =>
    have step := Vh.vhEntry_succ_lt d m hd hm (k : Int) (by positivity) hδ hls hv
    rcases Nat.lt_succ_iff_lt_or_eq.mp hlt with hk | rfl
    · exact lt_trans (by exact_mod_cast step) (ih hk)
    · exact_mod_cast step

/-- **The refinement threshold `‖Vh‖` strictly decreases with the depth**: one level deeper, a node
needs a strictly smaller posterior `scale·‖std‖` to be refined again (positive hyper-parameters, at
least one objective). -/
theorem vh_norm_strictAnti_depth (d m : Nat) (hd : 1 ≤ d) (hm : 0 < m) {δ : ℝ} (hδ : 0 < δ) (h : Nat)
    (lsvar : List (ℝ × ℝ)) (hne : lsvar ≠ []) (hpos : ∀ p ∈ lsvar, 0 < p.1 ∧ 0 < p.2) :
    (Vh.refineRhs d m δ (h + 1) lsvar : ℝ) < Vh.refineRhs d m δ h lsvar :=
  Vh.refineRhs_succ_lt d m hd hm hδ h lsvar hne hpos

/-- **The depth gate dominates**: at or beyond the maximum depth `should_refine_design` answers
`False` whatever `Vh`, the posterior and the scale are — in every carrier (`Float` included). -/
theorem shouldRefine_depth_gate {α : Type} [RealLike α] [LeB α] (d m : Nat) (δ : α)
    (pointDepth maxDepth : Nat) (h : maxDepth ≤ pointDepth) (lsvar : List (α × α))
    (scale diagCov : List α) :
    Vh.shouldRefine d m δ pointDepth maxDepth lsvar scale diagCov = false :=
  Vh.shouldRefine_gate d m δ pointDepth maxDepth h lsvar scale diagCov

/-- **The decision, at `ℝ`**: refine iff the node is below the maximum depth and, for every entry of
the scale, `scale_j·‖std‖ ≤ ‖Vh‖` (non-strict: a tie refines), `‖std‖² = Σ (√cov_jj)²`,
`‖Vh‖² = Σ Vh_i²`. -/
theorem shouldRefine_real_iff (d m : Nat) (δ : ℝ) (pointDepth maxDepth : Nat) (lsvar : List (ℝ × ℝ))
    (scale diagCov : List ℝ) :
    Vh.shouldRefine d m δ pointDepth maxDepth lsvar scale diagCov = true ↔
      pointDepth < maxDepth ∧
      ∀ s ∈ scale, s * Real.sqrt ((diagCov.map (fun v => Real.sqrt v * Real.sqrt v)).sum) ≤
        Real.sqrt (((Vh.designVh d m δ pointDepth 0 lsvar).map (fun x => x * x)).sum) := by
  by_cases h : pointDepth < maxDepth
  · rw [Vh.shouldRefine_below d m δ pointDepth maxDepth h, Vh.allLe_real]
    simp only [h, true_and, Vh.refineLhs, Vh.refineRhs, Vh.norm_real, List.mem_map, List.map_map,
      forall_exists_index, and_imp, forall_apply_eq_imp_iff₂, Function.comp_def, RealLike.sqrt_real]
  · rw [Vh.shouldRefine_gate d m δ pointDepth maxDepth (Nat.le_of_not_lt h)]
    simp [h]

/-- **The opaque Boolean of the cell-tree model is this comparison**: feeding
`Vh.allLe (scale·‖std‖) ‖Vh‖` (computed at the node's depth) into `Space.shouldRefine` gives exactly
`Vh.shouldRefine` with the space's maximum depth — so the invariants above (`run_depth_bound`, …)
hold for runs whose comparison results come from the `Vh` term. -/
theorem shouldRefine_refines_space {α : Type} [RealLike α] [LeB α] (s : Space) (i : Nat) (p : Node)
    (hp : s.nodes[i]? = some p) (d m : Nat) (δ : α) (lsvar : List (α × α)) (scale diagCov : List α) :
    s.shouldRefine i (Vh.allLe (Vh.refineLhs scale diagCov) (Vh.refineRhs d m δ p.depth lsvar)) =
      some (Vh.shouldRefine d m δ p.depth s.maxDepth lsvar scale diagCov) := by
  simp only [Space.shouldRefine, hp, Vh.shouldRefine]

/-- **`compute_beta` equals the closed formula and is positive**: for a positive contraction `c`,
`β = (0.1 + √(σ²·log(det(K+I)/σ²) − 2·log δ)) / √c > 0`; and the radicand is non-negative (no NaN)
whenever `0 < σ² ≤ det(K+I)` and `0 < δ ≤ 1`. -/
theorem vogpAdBeta_closed_form (nv δ det : ℝ) {c : ℝ} (hc : 0 < c) :
    Vh.vogpAdBeta nv δ det c =
        (1 / 10 + Real.sqrt (nv * Real.log (det / nv) - 2 * Real.log δ)) / Real.sqrt c ∧
    0 < Vh.vogpAdBeta nv δ det c ∧
    (0 < nv → nv ≤ det → 0 < δ → δ ≤ 1 → 0 ≤ nv * Real.log (det / nv) - 2 * Real.log δ) := by
  have hb : 0 < 1 / 10 + Real.sqrt (nv * Real.log (det / nv) - 2 * Real.log δ) := by
    have := Real.sqrt_nonneg (nv * Real.log (det / nv) - 2 * Real.log δ); linarith
  have e : Vh.vogpAdBeta nv δ det c =
      (1 / 10 + Real.sqrt (nv * Real.log (det / nv) - 2 * Real.log δ)) / Real.sqrt c := by
    rw [Vh.vogpAdBeta_real, show 1 / nv * det = det / nv by ring, Real.sqrt_div (sq_nonneg _),
      Real.sqrt_sq hb.le]
  refine ⟨e, ?_, ?_⟩
  · rw [e]; exact div_pos hb (Real.sqrt_pos.mpr hc)
  · intro hnv hdet hδ hδ1
    have h1 : 0 ≤ Real.log (det / nv) := Real.log_nonneg (by rw [le_div_iff₀ hnv]; linarith)
    have h2 : Real.log δ ≤ 0 := Real.log_nonpos hδ.le hδ1
    have : 0 ≤ nv * Real.log (det / nv) := mul_nonneg hnv.le h1
    linarith

/-- non-vacuity of the gate and of the link: a root node (depth 1) of a space with maximum depth 1 is
never refined; with maximum depth 3 the decision is the comparison -/
example (lsvar : List (Float × Float)) (scale diag : List Float) :
    Vh.shouldRefine 2 2 (0.05 : Float) 1 1 lsvar scale diag = false :=
  shouldRefine_depth_gate 2 2 _ 1 1 (le_refl 1) lsvar scale diag

example : (Vh.vhEntry 2 2 (0.05 : ℝ) (3 : Int) 1 1 : ℝ) < Vh.vhEntry 2 2 (0.05 : ℝ) (1 : Int) 1 1 := by
  have := vh_strictAnti_depth 2 2 (by norm_num) (by norm_num) (δ := 0.05) (ls := 1) (var := 1)
    (by norm_num) (by norm_num) (by norm_num) 1 3 (by norm_num)
  exact_mod_cast this

end VhTerms

end VOPy.C18
