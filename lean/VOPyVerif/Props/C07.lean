import VOPyVerif.Proofs.AcqSteps
import VOPyVerif.Proofs.Thompson
import VOPyVerif.Proofs.Locate
import Mathlib.Analysis.Real.Sqrt
/-!
# C07 — samples go to the acquisition maximiser among active designs and reach the model

Property theorems only (helper lemmas live in `Proofs/Acq*.lean`).  They are about the executable
model `Acq.optimizeDiscrete` / `Acq.optimizeDecoupled` / `Acq.evaluateAll` / the `add_sample`
stores that the driver runs against `vopy/acquisition/acquisition.py`, the `evaluating()` methods
and the models' `add_sample`.

`vals[i]` is the acquisition value of row `i` of `choices` (the active designs in the order the
optimiser sees them); a pick is a pair (original position, value).  `sortDesc` is
`List.insertionSort (· ≥ ·)`.
-/
namespace VOPy.C07
open VOPy VOPy.Acq

/-! ## `optimize_acqf_discrete` -/

/-- **Batch size.**  For every value list and every batch size the optimiser returns
`min q n` picks: `q` of them when there are enough choices, all choices otherwise (no crash for a
batch larger than the active set — the behaviour since fix commit 00d0f01). -/
theorem discrete_length (vals : List Rat) (q : Nat) :
    (optimizeDiscrete vals q).length = min q vals.length :=
  optimizeDiscrete_length vals q

/-- **Picks are choices.**  Every pick is a valid position of the original list, reported with
that position's own acquisition value. -/
theorem discrete_cells (vals : List Rat) (q : Nat) :
    ∀ p ∈ optimizeDiscrete vals q, vals[p.1]? = some p.2 :=
  fun _ hp => optimizeDiscrete_mem hp

/-- **Distinct.**  No position is picked twice. -/
theorem discrete_distinct (vals : List Rat) (q : Nat) :
    ((optimizeDiscrete vals q).map (·.1)).Nodup :=
  optimizeDiscrete_pos_nodup vals q

/-- **Non-increasing acquisition order.** -/
theorem discrete_nonincreasing (vals : List Rat) (q : Nat) :
    ((optimizeDiscrete vals q).map (·.2)).Pairwise (· ≥ ·) := by
  rw [List.pairwise_map]; exact optimizeDiscrete_pairwise vals q

/-- **The `k`-th pick is the arg-max of what is left** (`np.argmax` semantics): its value is at
least the value of every position not picked before it, and among those of equal value it is the
smallest position. -/
theorem discrete_kth_is_first_max (vals : List Rat) (q k : Nat)
    (hk : k < (optimizeDiscrete vals q).length) (i : Nat) (v : Rat) (hi : vals[i]? = some v)
    (hnot : i ∉ ((optimizeDiscrete vals q).take k).map (·.1)) :
    v ≤ ((optimizeDiscrete vals q)[k]).2 ∧
      (v = ((optimizeDiscrete vals q)[k]).2 → ((optimizeDiscrete vals q)[k]).1 ≤ i) :=
  pickLoop_first q (indexed vals) (indexed_pairwise vals) k hk (i, v) (mem_indexed.mpr hi) hnot

/-- **Top-`q`.**  The picked values, in pick order, are exactly the first `q` entries of the
descending sort of all values — for every `q`, including `q > n` where this is the whole sorted
list.  In particular the multiset of picked values is the top-`q` multiset. -/
theorem discrete_values_eq_top (vals : List Rat) (q : Nat) :
    (optimizeDiscrete vals q).map (·.2) = (vals.insertionSort (· ≥ ·)).take q :=
  optimizeDiscrete_values vals q

/-- the multiset form of `discrete_values_eq_top` -/
theorem discrete_values_perm_top (vals : List Rat) (q : Nat) :
    ((optimizeDiscrete vals q).map (·.2)).Perm ((vals.insertionSort (· ≥ ·)).take q) :=
  List.Perm.of_eq (discrete_values_eq_top vals q)

/-- **A batch at least as large as the choice list picks every choice exactly once.** -/
theorem discrete_picks_all (vals : List Rat) (q : Nat) (hq : vals.length ≤ q) :
    ((optimizeDiscrete vals q).map (·.1)).Perm (List.range vals.length) := by
  obtain ⟨rest, hperm, _, _, hlen⟩ := pickLoop_split q (indexed vals)
  have hrest : rest = [] := by
    have := hperm.length_eq
    rw [List.length_append, hlen, indexed_length] at this
    exact List.eq_nil_of_length_eq_zero (by omega)
  subst hrest
  rw [List.append_nil] at hperm
  have h := hperm.map (·.1)
  have hidx : (indexed vals).map (·.1) = List.range vals.length := by
    apply List.ext_getElem?
    intro i
    rw [List.getElem?_map, indexed_getElem?]
    by_cases hi : i < vals.length
    · simp [hi]
    · simp [hi]
  rw [hidx] at h
  exact h

/-- **Regression characterisation of defect D7.**  The loop as it was before fix commit 00d0f01
raised (`none`) exactly when the batch size exceeded the number of choices and agreed with the
fixed loop otherwise. -/
theorem discrete_prefix_crashes_iff (vals : List Rat) (q : Nat) :
    optimizeDiscretePreFix vals q =
      if q ≤ vals.length then some (optimizeDiscrete vals q) else none := by
  rw [optimizeDiscretePreFix, pickLoopPreFix_eq, indexed_length]; rfl

/-- **The relation checked on the real optimiser's output is sound.**  Whatever tie-breaking
produced it, a batch accepted by the decidable relation `discSpecOk` (the (R) check of the
harness: `q` valid, distinct positions carrying their own values, each maximal among the positions
not picked before it) lists exactly the first `q` entries of the descending sort of the values. -/
theorem discSpec_sound (vals : List Rat) (q : Nat) (picks : List (Nat × Rat))
    (h : discSpecOk vals q picks = true) :
    picks.map (·.2) = (vals.insertionSort (· ≥ ·)).take q ∧ (picks.map (·.1)).Nodup ∧
      ∀ p ∈ picks, vals[p.1]? = some p.2 := by
  have hs := (discSpecOk_iff vals q picks).mp h
  exact ⟨hs.values, hs.pos_nodup, hs.cell⟩

/-- **The model refines that relation**: its own output is accepted, for every value list and
batch size (so the relation is satisfiable and the model is one of its solutions). -/
theorem discSpec_model (vals : List Rat) (q : Nat) :
    discSpecOk vals (min q vals.length) (optimizeDiscrete vals q) = true :=
  (discSpecOk_iff _ _ _).mpr (optimizeDiscrete_discSpec vals q)

/-- **Tie-free value lists determine the batch.**  If all acquisition values are different, every
batch accepted by the relation is the model's batch, positions included — this is why the harness
compares positions with the model exactly on tie-free tables and only the relation otherwise. -/
theorem discrete_tiefree_unique (vals : List Rat) (q : Nat) (picks : List (Nat × Rat))
    (hv : vals.Nodup) (h : discSpecOk vals q picks = true) : picks = optimizeDiscrete vals q :=
  ((discSpecOk_iff vals q picks).mp h).eq_model hv

/-- **Greedy batches are nested**: the batch of size `q` is the beginning of every larger batch. -/
theorem discrete_prefix_of_larger (vals : List Rat) (q k : Nat) :
    optimizeDiscrete vals q = (optimizeDiscrete vals (q + k)).take q :=
  pickLoop_take q k (indexed vals)

example : discSpecOk [1, 3, 2, 3, 0] 3 [(3, 3), (1, 3), (2, 2)] = true := by decide +kernel
example : discSpecOk [1, 3, 2, 3, 0] 3 [(3, 3), (2, 2), (1, 3)] = false := by decide +kernel

example : optimizeDiscrete [1, 3, 2, 3, 0] 3 = [(1, 3), (3, 3), (2, 2)] := by decide +kernel
example : optimizeDiscrete [1, 3] 5 = [(1, 3), (0, 1)] := by decide +kernel
example : optimizeDiscretePreFix [1, 3] 5 = none := by decide +kernel

/-! ## `optimize_decoupled_acqf_discrete` -/

/-- **Top-`q` of the whole (design, objective) table.**  The selected values, in order, are the
first `q` entries of the descending sort of *all* cells of the table — although only the
per-objective top-`q` lists are ever compared (top-`q` overall ⊆ ⋃ per-objective top-`q`). -/
theorem decoupled_values_eq_top (table : List (List Rat)) (q : Nat) :
    (optimizeDecoupled table q).map (·.val) = (table.flatten.insertionSort (· ≥ ·)).take q :=
  optimizeDecoupled_values table q

/-- **Selected triples are cells of the table** carrying their own value. -/
theorem decoupled_cells (table : List (List Rat)) (q : Nat) :
    ∀ e ∈ optimizeDecoupled table q, tableAt table e.pos e.obj = some e.val :=
  fun _ he => optimizeDecoupled_mem he

/-- **Selected (design, objective) pairs are pairwise distinct.** -/
theorem decoupled_distinct (table : List (List Rat)) (q : Nat) :
    ((optimizeDecoupled table q).map (fun e => (e.pos, e.obj))).Nodup :=
  optimizeDecoupled_keys_nodup table q

/-- **Non-increasing acquisition order.** -/
theorem decoupled_nonincreasing (table : List (List Rat)) (q : Nat) :
    ((optimizeDecoupled table q).map (·.val)).Pairwise (· ≥ ·) := by
  rw [List.pairwise_map]; exact optimizeDecoupled_pairwise table q

/-- **Batch size**: `q` pairs, or all cells if there are fewer. -/
theorem decoupled_length (table : List (List Rat)) (q : Nat) :
    (optimizeDecoupled table q).length = min q table.flatten.length := by
  have := congrArg List.length (decoupled_values_eq_top table q)
  rw [List.length_map, List.length_take, (List.perm_insertionSort _ _).length_eq] at this
  exact this

/-- **The relation checked on the real decoupled optimiser's output is sound**: a batch accepted
by `decSpecOk` lists exactly the first `q` entries of the descending sort of all cells of the table,
its (design, objective) pairs are distinct, and each carries its own table value. -/
theorem decSpec_sound (table : List (List Rat)) (q : Nat) (sel : List Entry)
    (h : decSpecOk table q sel = true) :
    sel.map (·.val) = (table.flatten.insertionSort (· ≥ ·)).take q ∧
      (sel.map (fun e => (e.pos, e.obj))).Nodup ∧
      ∀ e ∈ sel, tableAt table e.pos e.obj = some e.val := by
  have hs := (decSpecOk_iff table q sel).mp h
  exact ⟨hs.values, hs.distinct, hs.cell⟩

/-- **The model refines that relation.** -/
theorem decSpec_model (table : List (List Rat)) (q : Nat) :
    decSpecOk table (min q table.flatten.length) (optimizeDecoupled table q) = true :=
  (decSpecOk_iff _ _ _).mpr (optimizeDecoupled_decSpec table q)

/-- **Tie-free tables determine the decoupled batch**, (design, objective) pairs included. -/
theorem decoupled_tiefree_unique (table : List (List Rat)) (q : Nat) (sel : List Entry)
    (hv : table.flatten.Nodup) (h : decSpecOk table q sel = true) :
    sel = optimizeDecoupled table q :=
  ((decSpecOk_iff table q sel).mp h).eq_model hv

example : optimizeDecoupled [[1, 3, 2], [5, 0, 3]] 3 = [⟨0, 1, 5⟩, ⟨1, 0, 3⟩, ⟨2, 1, 3⟩] := by
  decide +kernel
example : decSpecOk [[1, 3, 2], [5, 0, 3]] 3 [⟨0, 1, 5⟩, ⟨2, 1, 3⟩, ⟨1, 0, 3⟩] = true := by
  decide +kernel

/-! ## acquisition values -/

/-- `MaxDiagonalAcquisition` squared is `Σ (uᵢ − lᵢ)²`. -/
theorem diagSq_eq_sum (l u : Vec) :
    diagSq l u = ((List.zipWith (fun b a => (b - a) * (b - a)) u l)).sum := by
  simp only [diagSq, normSq, vsub]
  induction u generalizing l with
  | nil => simp [dot]
  | cons b bs ih =>
    cases l with
    | nil => simp [dot]
    | cons a as => simp [dot, ih as]

theorem diagSq_nonneg (l u : Vec) : 0 ≤ diagSq l u := by
  rw [diagSq_eq_sum]
  apply List.sum_nonneg
  intro x hx
  obtain ⟨i, _, rfl⟩ := List.mem_iff_getElem.mp hx
  simp only [List.getElem_zipWith]
  exact mul_self_nonneg _

/-- **Comparing squared diagonals is comparing diagonals.**  The code compares
`‖u − l‖ = √(Σ(uᵢ−lᵢ)²)`; the model compares the exact squares; the two orders (and hence the
arg-max positions and ties) coincide. -/
theorem diag_compare_iff (l₁ u₁ l₂ u₂ : Vec) :
    (Real.sqrt (diagSq l₁ u₁ : ℝ) < Real.sqrt (diagSq l₂ u₂ : ℝ) ↔ diagSq l₁ u₁ < diagSq l₂ u₂) ∧
    (Real.sqrt (diagSq l₁ u₁ : ℝ) = Real.sqrt (diagSq l₂ u₂ : ℝ) ↔ diagSq l₁ u₁ = diagSq l₂ u₂) := by
  have h1 : (0 : ℝ) ≤ (diagSq l₁ u₁ : ℝ) := by exact_mod_cast diagSq_nonneg l₁ u₁
  have h2 : (0 : ℝ) ≤ (diagSq l₂ u₂ : ℝ) := by exact_mod_cast diagSq_nonneg l₂ u₂
  constructor
  · rw [Real.sqrt_lt_sqrt_iff h1]; exact_mod_cast Iff.rfl
  · rw [Real.sqrt_inj h1 h2]; exact_mod_cast Iff.rfl

example : diagSq [0, 0] [3, 4] = 25 := by decide +kernel

/-- `SumVarianceAcquisition` is the sum of the diagonal entries: for an `n × n` covariance whose
`i`-th diagonal entry is `d i`, the value is `d 0 + … + d (n-1)`. -/
theorem sumVariance_eq_diag_sum (cov : Mat) (d : Nat → Rat)
    (hd : ∀ i, i < cov.length → ∃ row, cov[i]? = some row ∧ row[i]? = some (d i)) :
    sumVariance cov = ((List.range cov.length).map d).sum := by
  simp only [sumVariance]
  have : (List.range cov.length).map (fun i => (cov.getD i []).getD i 0) = (List.range cov.length).map d := by
    apply List.map_congr_left
    intro i hi
    obtain ⟨row, h1, h2⟩ := hd i (List.mem_range.mp hi)
    simp [List.getD, h1, h2]
  rw [this]
  generalize (List.range cov.length).map d = l
  induction l with
  | nil => rfl
  | cons a l ih => simp [List.foldr_cons, ih]

/-- `MaxVarianceDecoupledAcquisition` is `cov[j][j] / costs[j]` exactly when that is defined
(indices in range, non-zero cost), and `cov[j][j]` without costs. -/
theorem varianceOverCost_eq (cov : Mat) (j : Nat) (c : Vec) (r : Rat) :
    varianceOverCost cov j (some c) = some r ↔
      ∃ row v cj, cov[j]? = some row ∧ row[j]? = some v ∧ c[j]? = some cj ∧ cj ≠ 0 ∧ r = v / cj := by
  cases h1 : cov[j]? with
  | none => simp [varianceOverCost, h1]
  | some row =>
    cases h2 : row[j]? with
    | none => simp [varianceOverCost, h1, h2]
    | some v =>
      cases h3 : c[j]? with
      | none => simp [varianceOverCost, h1, h2, h3]
      | some cj =>
        by_cases h0 : cj = 0
        · simp [varianceOverCost, h1, h2, h3, h0]
        · simp only [varianceOverCost, h1, h2, h3, h0, if_false, Option.some.injEq]
          constructor
          · intro h; exact ⟨row, v, cj, rfl, h2, rfl, h0, h.symm⟩
          · rintro ⟨row', v', cj', hr, hv, hc, _, rfl⟩
            subst hr hc
            rw [h2] at hv
            simp only [Option.some.injEq] at hv
            rw [hv]

example : sumVariance [[1, 2], [3, 4]] = 5 := by decide +kernel
example : varianceOverCost [[1, 2], [3, 4]] 1 (some [2, 8]) = some (1 / 2) := by decide +kernel

/-! ## evaluate-everything algorithms (PaVeBa, Auer, NaiveElimination) -/

/-- **Every active design exactly once.**  For duplicate-free `S` and `U` the round's evaluation
list contains a design exactly once if it is in `S ∪ U` and not at all otherwise. -/
theorem evaluateAll_each_once (S U : List Nat) (hS : S.Nodup) (hU : U.Nodup) (i : Nat) :
    (evaluateAll S U).count i = if i ∈ S ∨ i ∈ U then 1 else 0 := by
  have hn := evaluateAll_nodup hS hU
  by_cases h : i ∈ S ∨ i ∈ U
  · rw [if_pos h]
    exact List.count_eq_one_of_mem hn (mem_evaluateAll.mpr h)
  · rw [if_neg h]
    exact List.count_eq_zero_of_not_mem (fun hm => h (mem_evaluateAll.mp hm))

example : evaluateAll [4, 1] [1, 7] = [4, 1, 7] := by decide

/-! ## what reaches the model -/

/-- **One `evaluating()` step of a coupled GP algorithm.**  The candidates are the optimiser's
picks looked up among the active rows (so each is an active design and there are `min q n` of them),
and the model's data afterwards is the old data followed by exactly one observation per
candidate — the candidate's input row paired with the value the problem returned for it — in
candidate order. -/
theorem evaluatingStep_appends (d : Nat) (designs : List Vec) (vals : List Rat) (q : Nat)
    (observe : Vec → Vec) (data : List Obs) (hlen : vals.length = designs.length) :
    let cand := (evaluatingStep d designs vals q observe data).1
    let data' := (evaluatingStep d designs vals q observe data).2
    cand = (optimizeDiscrete vals q).filterMap (fun p => designs[p.1]?) ∧
    cand.length = min q designs.length ∧
    (∀ x ∈ cand, x ∈ designs) ∧
    data' = data ++ cand.map (fun x => ⟨x.take d, observe x⟩) := by
  simp only [evaluatingStep, gpAddSample]
  refine ⟨trivial, ?_, ?_, ?_⟩
  · have hall : ∀ p ∈ optimizeDiscrete vals q, (designs[p.1]?).isSome := by
      intro p hp
      have := optimizeDiscrete_mem hp
      have hp1 : p.1 < vals.length := (List.getElem?_eq_some_iff.mp this).1
      rw [hlen] at hp1
      simp [hp1]
    have : ∀ l : List (Nat × Rat), (∀ p ∈ l, (designs[p.1]?).isSome) →
        (l.filterMap (fun p => designs[p.1]?)).length = l.length := by
      intro l
      induction l with
      | nil => simp
      | cons p l ih =>
        intro h
        obtain ⟨x, hx⟩ := Option.isSome_iff_exists.mp (h p List.mem_cons_self)
        simp only [List.filterMap_cons, hx, List.length_cons]
        rw [ih (fun p' hp' => h p' (List.mem_cons_of_mem _ hp'))]
    rw [this _ hall, optimizeDiscrete_length, hlen]
  · intro x hx
    obtain ⟨p, _, hp⟩ := List.mem_filterMap.mp hx
    exact List.mem_of_getElem? hp
  · congr 1
    rw [List.zipWith_map_right]
    simp [List.zipWith_self]

/-- **`add_sample` of the coupled GP models is an append.** -/
theorem gpAddSample_appends (d : Nat) (data : List Obs) (X Y : List Vec) :
    gpAddSample d data X Y = data ++ List.zipWith (fun x y => ⟨x.take d, y⟩) X Y := rfl

/-- **`add_sample` of the model-list GP (decoupled algorithms).**  When the call succeeds, the
number of per-objective stores is unchanged and objective `j`'s store is its old content followed
by exactly the (input row, value) pairs that were requested for objective `j`, in request order;
stores of objectives that were not requested are unchanged. -/
theorem listAddSample_appends (d : Nat) (stores : List (List (Vec × Rat))) (X : List Vec)
    (Y : List Rat) (dims : List Nat) (out : List (List (Vec × Rat)))
    (h : listAddSample d stores X Y dims = some out) (j : Nat) :
    out[j]? = stores[j]?.map (fun s =>
      s ++ (((X.zip Y).zip dims).filter (fun r => r.2 == j)).map (fun r => (r.1.1.take d, r.1.2))) := by
  simp only [listAddSample] at h
  split at h
  · simp at h
  · split at h
    · simp at h
    · simp only [Option.some.injEq] at h
      subst h
      rw [foldl_modify_append_of_nodup
        (fun k => (((X.zip Y).zip dims).filter (fun r => r.2 == k)).map (fun r => (r.1.1.take d, r.1.2)))
        _ _ j (uniqueSorted_nodup dims)]
      congr 1
      funext s
      by_cases hj : j ∈ uniqueSorted dims
      · rw [if_pos hj]
      · rw [if_neg hj]
        have hj' : j ∉ dims := fun hm => hj (mem_uniqueSorted.mpr hm)
        have : ((X.zip Y).zip dims).filter (fun r => r.2 == j) = [] := by
          refine List.filter_eq_nil_iff.mpr ?_
          intro r hr hrj
          have : r.2 ∈ dims := (List.of_mem_zip hr).2
          rw [beq_iff_eq] at hrj
          exact hj' (hrj ▸ this)
        rw [this]; simp

/-- **`add_sample` of the empirical model (PaVeBa, Auer).**  When the call succeeds, design `i`'s
sample list is its old content followed by exactly the observations that were handed in for design
`i`, in order; other designs' lists are unchanged. -/
theorem empAddSample_appends (samples : List (List Vec)) (indices : List Nat) (Y : List Vec)
    (out : List (List Vec)) (h : empAddSample samples indices Y = some out) (i : Nat) :
    out[i]? = samples[i]?.map (fun s =>
      s ++ ((indices.zip Y).filter (fun r => r.1 == i)).map (·.2)) := by
  simp only [empAddSample] at h
  split at h
  · simp at h
  · split at h
    · simp at h
    · simp only [Option.some.injEq] at h
      subst h
      exact foldl_modify_append_singleton _ _ _

/-- **One round of PaVeBa / Auer reaches the model design by design.**  With duplicate-free `S`
and `U`, after `evaluating()` every active design (`S ∪ U`) has exactly one new sample — the
observation returned for *that* design — appended to its sample list, and every other design's list
is unchanged. -/
theorem evaluateAllStep_appends (S U : List Nat) (hS : S.Nodup) (hU : U.Nodup) (observe : Nat → Vec)
    (samples out : List (List Vec)) (h : evaluateAllStep S U observe samples = some out) (i : Nat) :
    out[i]? = samples[i]?.map (fun s => if i ∈ S ∨ i ∈ U then s ++ [observe i] else s) :=
  evaluateAllStep_spec hS hU observe samples out h i

/-- **One `evaluating()` step of a decoupled GP algorithm.**  The candidates are the selected
(design row, objective) pairs of `optimizeDecoupled`; when `add_sample` succeeds, objective `j`'s
store is its old content followed by exactly the candidates requested for objective `j`, each
paired with the value the problem returned for that (row, objective), in candidate order. -/
theorem evaluatingStepDecoupled_appends (d : Nat) (designs : List Vec) (table : List (List Rat))
    (q : Nat) (observe : Vec → Nat → Rat) (stores out : List (List (Vec × Rat)))
    (h : (evaluatingStepDecoupled d designs table q observe stores).2 = some out) (j : Nat) :
    let cand := (evaluatingStepDecoupled d designs table q observe stores).1
    cand = (optimizeDecoupled table q).filterMap (fun e => (designs[e.pos]?).map (fun x => (x, e.obj))) ∧
    out[j]? = stores[j]?.map (fun s =>
      s ++ (cand.filter (fun c => c.2 == j)).map (fun c => (c.1.take d, observe c.1 c.2))) := by
  simp only [evaluatingStepDecoupled] at h ⊢
  refine ⟨trivial, ?_⟩
  rw [listAddSample_appends d stores _ _ _ out h j, zip3_map]
  congr 1
  funext s
  congr 1
  rw [List.filter_map, List.map_map]
  rfl

example : evaluateAllStep [2, 0] [3, 2] (fun i => [i, i]) [[[5, 5]], [], [[6, 6]], []]
    = some [[[5, 5], [0, 0]], [], [[6, 6], [2, 2]], [[3, 3]]] := by decide +kernel

example : empAddSample [[], [[1, 1]], []] [2, 0, 2] [[5, 5], [6, 6], [7, 7]]
    = some [[[6, 6]], [[1, 1]], [[5, 5], [7, 7]]] := by decide +kernel

/-! ## EXTENSION — the Thompson-entropy acquisition (`ThompsonEntropyDecoupledAcquisition.forward`)

About `Model/Thompson.lean` (helpers: `Proofs/Thompson.lean`), the term the driver evaluates at `Float`
against the real `forward` (ops `thmask`, `thsamples`, `thprob`, `thval`).  `n` = number of Thompson
samples, `m` = number of objectives, `j` = `evaluation_index`, `mem t i` = entry `[t][i]` of the
Boolean Pareto mask.  Entropy statements are at `ℝ` (the same `RealLike` term). -/

section Thompson
open VOPy.RealLike

/-- **`itertools.combinations(range(n), r)`** enumerates exactly the strictly increasing `r`-tuples
with entries below `n` — the only index tuples the fill loop of `forward` visits. -/
theorem thompson_combinations_spec {n r : Nat} {t : List Nat} :
    t ∈ Thompson.combinations n r ↔ t.length = r ∧ t.Pairwise (· < ·) ∧ ∀ a ∈ t, a < n :=
  Thompson.mem_combinations

/-- there are `C(n, r)` of them, without repetition -/
theorem thompson_combinations_count (n r : Nat) :
    (Thompson.combinations n r).length = n.choose r ∧ (Thompson.combinations n r).Nodup :=
  ⟨Thompson.length_combinations n r, Thompson.nodup_combsFrom n r 0⟩

/-- **What the fill loop writes.**  At the `k`-th combination the mask holds exactly the `k`-th
`get_pareto_set` answer; an entry that is `True` sits at a strictly increasing index tuple and
belongs to some recorded Pareto set (every other entry of the `n^m × K` tensor stays `False`). -/
theorem thompson_fill_spec {n m : Nat} {pareto : List (List Nat)} :
    (∀ k (h1 : k < (Thompson.combinations n m).length) (h2 : k < pareto.length) (i : Nat),
        Thompson.filledMask n m pareto ((Thompson.combinations n m)[k]) i = pareto[k].contains i) ∧
    (∀ t i, Thompson.filledMask n m pareto t i = true →
        t ∈ Thompson.combinations n m ∧ ∃ P ∈ pareto, i ∈ P) :=
  ⟨fun k h1 h2 i => Thompson.filledMask_at k h1 h2 i, fun _ _ h => Thompson.filledMask_true h⟩

/-- **Probabilities are probabilities.**  With at least one Thompson sample the prior probability
(mean over all sample axes) and every posterior probability (mean over all axes but `j`) lie in
`[0, 1]` — for every mask, every objective index and every slice. -/
theorem thompson_prob_unit {n : Nat} (hn : 0 < n) (m j s : Nat) (mem : Thompson.Mask) (i : Nat) :
    (0 ≤ Thompson.priorProb n m mem i ∧ Thompson.priorProb n m mem i ≤ 1) ∧
    (0 ≤ Thompson.postProb n m j s mem i ∧ Thompson.postProb n m j s mem i ≤ 1) :=
  ⟨⟨Thompson.priorProb_nonneg n m mem i, Thompson.priorProb_le_one hn m mem i⟩,
   ⟨Thompson.postProb_nonneg n m j s mem i, Thompson.postProb_le_one hn m j s mem i⟩⟩

/-- **Consequence of averaging over the full tensor.**  Because only strictly increasing sample
combinations are filled while the mean runs over all `n^m` index tuples, the prior probability
of the code never exceeds `C(n, m) / n^m` (e.g. 0.45 for 10 samples and 2 objectives), even for a
design that is Pareto-optimal in every sample. -/
theorem thompson_prior_le_choose {n : Nat} (hn : 0 < n) (m : Nat) (pareto : List (List Nat)) (i : Nat) :
    Thompson.priorProb n m (Thompson.filledMask n m pareto) i ≤ (n.choose m : ℚ) / ((n ^ m : Nat) : ℚ) := by
  unfold Thompson.priorProb
  have hpos : (0 : ℚ) < ((n ^ m : Nat) : ℚ) := by exact_mod_cast Nat.pow_pos hn
  apply div_le_div_of_nonneg_right _ hpos.le
  exact_mod_cast Thompson.priorCount_filled_le n m pareto i

/-- the prior probability is the average of the `n` posterior probabilities of objective `j` -/
theorem thompson_prior_eq_avg_post {n m j : Nat} (hn : 0 < n) (hj : j < m) (mem : Thompson.Mask) (i : Nat) :
    Thompson.priorProb n m mem i = (∑ s ∈ Finset.range n, Thompson.postProb n m j s mem i) / n :=
  Thompson.priorProb_eq_avg hn hj mem i

/-- **How `xlogy` is modelled.**  `xlogy 0 = 0` by the explicit guard on the exact rational, in every
carrier (at `Float`, `0 * log 0` would be NaN); over `ℝ` the guard is invisible: `xlogy p = p·log p`
for every `p` because `Real.log 0 = 0`. -/
theorem thompson_xlogy_model (α : Type) [RealLike α] (p : ℚ) :
    (Thompson.xlogy 0 : α) = RealLike.ofNat 0 ∧ (Thompson.xlogy p : ℝ) = (p : ℝ) * Real.log p :=
  ⟨by simp [Thompson.xlogy], Thompson.xlogy_real p⟩

/-- **`binary_entropy` is the binary entropy in bits**: `−(p·log p + (1−p)·log(1−p)) / log 2`,
i.e. Mathlib's `Real.binEntropy p / log 2`. -/
theorem thompson_entropy_eq (p : ℚ) :
    (Thompson.binaryEntropy p : ℝ) = -((p : ℝ) * Real.log p + (1 - (p : ℝ)) * Real.log (1 - p)) / Real.log 2 ∧
    (Thompson.binaryEntropy p : ℝ) = Real.binEntropy p / Real.log 2 := by
  refine ⟨?_, Thompson.binaryEntropy_real p⟩
  rw [Thompson.binaryEntropy_real, Real.binEntropy, Real.log_inv, Real.log_inv]
  ring

/-- **Entropy of a certain event is 0, and entropy is at most one bit**: `H(0) = H(1) = 0`,
`H(p) ≤ 1` for every `p`, `0 ≤ H(p)` for `p ∈ [0, 1]`. -/
theorem thompson_entropy_bounds :
    (Thompson.binaryEntropy 0 : ℝ) = 0 ∧ (Thompson.binaryEntropy 1 : ℝ) = 0 ∧
    (∀ p : ℚ, (Thompson.binaryEntropy p : ℝ) ≤ 1) ∧
    (∀ p : ℚ, 0 ≤ p → p ≤ 1 → (0 : ℝ) ≤ Thompson.binaryEntropy p) := by
  refine ⟨?_, ?_, Thompson.binaryEntropy_le_one, fun p h0 h1 => Thompson.binaryEntropy_nonneg h0 h1⟩
  · rw [Thompson.binaryEntropy_real]; simp
  · rw [Thompson.binaryEntropy_real]; simp

/-- **The value never exceeds the prior entropy** (the mean posterior entropy is non-negative), hence
it is at most one bit. -/
theorem thompson_gain_le_prior {n : Nat} (hn : 0 < n) (m j : Nat) (mem : Thompson.Mask) (i : Nat) :
    (Thompson.gain n m j mem i : ℝ) ≤ Thompson.binaryEntropy (Thompson.priorProb n m mem i) ∧
    (Thompson.gain n m j mem i : ℝ) ≤ 1 := by
  have h := Thompson.meanPostEntropy_nonneg hn m j mem i
  have h1 := Thompson.binaryEntropy_le_one (Thompson.priorProb n m mem i)
  have e : (Thompson.gain n m j mem i : ℝ) =
      Thompson.binaryEntropy (Thompson.priorProb n m mem i) - Thompson.meanPostEntropy n m j mem i := rfl
  constructor <;> rw [e] <;> linarith

/-- **The value is an information gain: it is never negative** (Jensen's inequality for the concave
binary entropy: the prior probability is the average of the posterior probabilities). -/
theorem thompson_gain_nonneg {n m j : Nat} (hn : 0 < n) (hj : j < m) (mem : Thompson.Mask) (i : Nat) :
    (0 : ℝ) ≤ Thompson.gain n m j mem i := by
  have h := Thompson.meanPostEntropy_le_prior hn hj mem i
  have e : (Thompson.gain n m j mem i : ℝ) =
      Thompson.binaryEntropy (Thompson.priorProb n m mem i) - Thompson.meanPostEntropy n m j mem i := rfl
  rw [e]; linarith

/-- **Relabelling the designs consistently relabels the values**: the value of a design depends only
on that design's column of the mask, so for any relabelling `σ` of the designs (in particular a
permutation) the value of design `i` under the relabelled mask is the value of design `σ i` under
the original one — in every carrier (`Float` included), with or without costs. -/
theorem thompson_value_relabel {α : Type} [RealLike α] (n m j : Nat) (mem : Thompson.Mask)
    (cost : Option α) (σ : Nat → Nat) (i : Nat) :
    Thompson.value n m j (fun t i => mem t (σ i)) cost i = Thompson.value n m j mem cost (σ i) := rfl

/-- the same for the whole output of `forward` -/
theorem thompson_forward_relabel {α : Type} [RealLike α] (n m K j : Nat) (mem : Thompson.Mask)
    (cost : Option α) (σ : Nat → Nat) :
    Thompson.forward n m K j (fun t i => mem t (σ i)) cost =
      (if n = 0 ∨ m ≤ j then none
       else some ((List.range K).map (fun i => Thompson.value n m j mem cost (σ i)))) := rfl

/-- **A positive cost does not change the order within an objective**: dividing by `costs[j] > 0`
preserves every comparison between two designs' values for objective `j` (and the value is the
gain over the cost). -/
theorem thompson_cost_order (n m j : Nat) (mem : Thompson.Mask) {c : ℝ} (hc : 0 < c) (a b : Nat) :
    Thompson.value n m j mem (some c) a = Thompson.gain n m j mem a / c ∧
    (Thompson.value n m j mem (some c) a ≤ Thompson.value n m j mem (some c) b ↔
      Thompson.value n m j mem (none : Option ℝ) a ≤ Thompson.value n m j mem none b) := by
  refine ⟨rfl, ?_⟩
  show Thompson.gain n m j mem a / c ≤ Thompson.gain n m j mem b / c ↔
    Thompson.gain n m j mem a ≤ Thompson.gain n m j mem b
  exact div_le_div_iff_of_pos_right hc

/-- `forward` yields values exactly when there is at least one Thompson sample and the objective
index is in range (the code returns NaN resp. raises `IndexError` otherwise), one per design. -/
theorem thompson_forward_defined {α : Type} [RealLike α] (n m K j : Nat) (mem : Thompson.Mask)
    (cost : Option α) :
    (∃ v, Thompson.forward n m K j mem cost = some v ∧ v.length = K) ↔ 0 < n ∧ j < m := by
  unfold Thompson.forward
  by_cases h : n = 0 ∨ m ≤ j
  · simp only [h, if_true]
    constructor
    · rintro ⟨v, hv, _⟩; cases hv
    · rintro ⟨h1, h2⟩; omega
  · simp only [h, if_false]
    constructor
    · intro _; omega
    · intro _; exact ⟨_, rfl, by simp⟩

/-- non-vacuity: 2 samples, 2 objectives, one combination `(0, 1)` whose Pareto set is `{0}`:
design 0 has prior probability 1/4 (one `True` among the 4 index tuples), posterior probability 1/2
given sample 0 of objective 0 and 0 given sample 1; design 1 has probability 0 throughout -/
example : Thompson.priorProb 2 2 (Thompson.filledMask 2 2 [[0]]) 0 = 1 / 4
    ∧ Thompson.postProb 2 2 0 0 (Thompson.filledMask 2 2 [[0]]) 0 = 1 / 2
    ∧ Thompson.postProb 2 2 0 1 (Thompson.filledMask 2 2 [[0]]) 0 = 0
    ∧ Thompson.priorProb 2 2 (Thompson.filledMask 2 2 [[0]]) 1 = 0 := by decide +kernel

example : Thompson.combinations 4 2 = [[0, 1], [0, 2], [0, 3], [1, 2], [1, 3], [2, 3]] := by decide

/-- the cap of `thompson_prior_le_choose` is attained: a design in every Pareto set has prior
probability `C(3,2)/3² = 1/3` -/
example : Thompson.priorProb 3 2 (Thompson.filledMask 3 2 [[0], [0], [0]]) 0 = 1 / 3 := by decide +kernel

end Thompson


section LocatePoints
open VOPy.Problem VOPy.Locate

/-! ## `locate_points` — design points back to design indices -/

/-- **What a successful `locate_points` returns.**  If the call returns an index list, there was at
least one query row and one design, the tolerance is non-negative, the list has one index per query
row, and index `k` is a valid design whose point is THE nearest design point of `xs[k]` (first among
ties, `np.argmin`) and lies within `atol` of it (squared distance ≤ atol²). -/
theorem locate_sound (xs X : Mat) (atol : Rat) (idx : List Nat)
    (h : locate xs X atol = .ok idx) :
    xs ≠ [] ∧ X ≠ [] ∧ idx.length = xs.length ∧
    ∀ (k : Nat) (hk : k < xs.length), ∃ i, idx[k]? = some i ∧ ∃ hi : i < X.length,
      nearestFirst xs[k] X = some i ∧ 0 ≤ atol ∧ sqDist xs[k] X[i] ≤ atol * atol ∧
      ∀ (j : Nat) (hj : j < X.length), sqDist xs[k] X[i] ≤ sqDist xs[k] X[j] := by
  unfold locate at h
  split at h
  · cases h
  · rename_i hne
    have hxs : xs ≠ [] := by intro h0; simp [h0] at hne
    have hX : X ≠ [] := by intro h0; simp [h0] at hne
    cases hm : xs.mapM (fun x => locOne x X) with
    | none => simp [hm] at h
    | some ps =>
      simp only [hm] at h
      split at h
      · cases h
      · rename_i hany
        cases h
        obtain ⟨hlen, hrow⟩ := (mapM_option_spec _ xs ps).mp hm
        refine ⟨hxs, hX, by simp [hlen], ?_⟩
        intro k hk
        obtain ⟨p, hp, hloc⟩ := hrow k xs[k] (List.getElem?_eq_getElem hk)
        obtain ⟨i, d⟩ := p
        obtain ⟨hn, hi, rfl⟩ := (locOne_eq_some_iff _ _ _ _).mp hloc
        have hmem : (i, sqDist xs[k] X[i]) ∈ ps := List.mem_of_getElem? hp
        have hnot : tooFar atol (sqDist xs[k] X[i]) = false := by
          have := hany
          simp only [List.any_eq_true, not_exists, not_and, Bool.not_eq_true] at this
          exact this _ hmem
        obtain ⟨h0, hle⟩ := (not_tooFar_iff _ _).mp hnot
        refine ⟨i, by simp [List.getElem?_map, hp], hi, (nearestFirst_iff _ _ _).mpr hn, h0, hle, hn.2.1⟩

/-- **When `locate_points` raises.**  The `ValueError` is raised exactly when there is no query row,
no design, or some query row is farther than `atol` from EVERY design (a negative tolerance rejects
everything). -/
theorem locate_raises_iff (xs X : Mat) (atol : Rat) :
    locate xs X atol = .valueError ↔
      xs = [] ∨ X = [] ∨ ∃ x ∈ xs, ∀ r ∈ X, atol < 0 ∨ atol * atol < sqDist x r := by
  unfold locate
  by_cases hxs : xs = []
  · simp [hxs]
  by_cases hX : X = []
  · simp [hX]
  have hne : (xs.isEmpty || X.isEmpty) = false := by
    simp [hxs, hX]
  simp only [hne, Bool.false_eq_true, if_false, hxs, hX, false_or]
  obtain ⟨ps, hps⟩ := mapM_locOne xs X hX
  obtain ⟨hlen, hrow⟩ := (mapM_option_spec _ xs ps).mp hps
  simp only [hps]
  constructor
  · intro h
    split at h
    · rename_i hany
      obtain ⟨p, hp, hfar⟩ := List.any_eq_true.mp hany
      obtain ⟨k, hk, hpk⟩ := List.getElem_of_mem hp
      have hkx : k < xs.length := hlen ▸ hk
      obtain ⟨p', hp', hloc⟩ := hrow k xs[k] (List.getElem?_eq_getElem hkx)
      rw [List.getElem?_eq_getElem hk, hpk] at hp'
      cases hp'
      obtain ⟨i, d⟩ := p
      obtain ⟨hn, hi, rfl⟩ := (locOne_eq_some_iff _ _ _ _).mp hloc
      refine ⟨xs[k], List.getElem_mem hkx, ?_⟩
      intro r hr
      obtain ⟨j, hj, rfl⟩ := List.getElem_of_mem hr
      rcases (tooFar_iff _ _).mp hfar with h1 | h1
      · exact Or.inl h1
      · exact Or.inr (lt_of_lt_of_le h1 (hn.2.1 j hj))
    · cases h
  · rintro ⟨x, hx, hall⟩
    obtain ⟨k, hk, rfl⟩ := List.getElem_of_mem hx
    obtain ⟨p, hp, hloc⟩ := hrow k xs[k] (List.getElem?_eq_getElem hk)
    obtain ⟨i, d⟩ := p
    obtain ⟨hn, hi, rfl⟩ := (locOne_eq_some_iff _ _ _ _).mp hloc
    have hfar : tooFar atol (sqDist xs[k] X[i]) = true :=
      (tooFar_iff _ _).mpr (hall _ (List.getElem_mem hi))
    have hany : ps.any (fun p => tooFar atol p.2) = true :=
      List.any_eq_true.mpr ⟨_, List.mem_of_getElem? hp, hfar⟩
    simp [hany]

/-- **Round trip on the grid.**  If the design points are pairwise distinct, all of one dimension,
every query row IS a design point and the tolerance is non-negative, then `locate_points` succeeds and
index `k` is the unique design whose point equals `xs[k]` — so handing the optimiser's chosen POINTS to
`locate_points` recovers exactly the chosen DESIGNS. -/
theorem locate_on_grid (xs X : Mat) (atol : Rat) (hat : 0 ≤ atol) (hxs : xs ≠ [])
    (hdim : ∀ r ∈ X, ∀ x ∈ xs, r.length = x.length) (hmem : ∀ x ∈ xs, x ∈ X) (hnd : X.Nodup) :
    ∃ idx, locate xs X atol = .ok idx ∧ idx.length = xs.length ∧
      ∀ (k : Nat) (hk : k < xs.length), ∃ i, idx[k]? = some i ∧ ∃ hi : i < X.length,
        X[i] = xs[k] ∧ ∀ (j : Nat) (hj : j < X.length), X[j] = xs[k] → j = i := by
  have hX : X ≠ [] := by
    obtain ⟨x, hx⟩ := List.exists_mem_of_ne_nil xs hxs
    exact List.ne_nil_of_mem (hmem x hx)
  cases hloc : locate xs X atol with
  | valueError =>
    exfalso
    rcases (locate_raises_iff xs X atol).mp hloc with h | h | ⟨x, hx, hall⟩
    · exact hxs h
    · exact hX h
    · rcases hall x (hmem x hx) with h | h
      · exact absurd h (not_lt.mpr hat)
      · rw [sqDist_self] at h
        exact absurd h (not_lt.mpr (mul_self_nonneg atol))
  | ok idx =>
    obtain ⟨_, _, hlen, hrow⟩ := locate_sound xs X atol idx hloc
    refine ⟨idx, rfl, hlen, ?_⟩
    intro k hk
    obtain ⟨i, hik, hi, _, _, _, hmin⟩ := hrow k hk
    obtain ⟨j0, hj0, hj0x⟩ := List.getElem_of_mem (hmem _ (List.getElem_mem hk))
    have h0 : sqDist xs[k] X[i] = 0 := by
      have h1 := hmin j0 hj0
      rw [hj0x, sqDist_self] at h1
      exact le_antisymm h1 (sqDist_nonneg _ _)
    have hxi : xs[k] = X[i] :=
      sqDist_eq_zero (hdim _ (List.getElem_mem hi) _ (List.getElem_mem hk)).symm h0
    refine ⟨i, hik, hi, hxi.symm, ?_⟩
    intro j hj hjx
    exact (List.Nodup.getElem_inj_iff hnd).mp (hjx.trans hxi)

/-- **The squared test is the distance test.**  For a squared distance `d ≥ 0` and any tolerance, the
model's exact test on squares is the code's `distance > atol` with `distance = √d`. -/
theorem tooFar_iff_sqrt (atol d : Rat) (hd : 0 ≤ d) :
    tooFar atol d = true ↔ (atol : ℝ) < Real.sqrt (d : ℝ) := by
  rw [tooFar_iff]
  have hdR : (0 : ℝ) ≤ (d : ℝ) := by exact_mod_cast hd
  constructor
  · rintro (h | h)
    · have : (atol : ℝ) < 0 := by exact_mod_cast h
      exact lt_of_lt_of_le this (Real.sqrt_nonneg _)
    · by_cases ha : atol < 0
      · have : (atol : ℝ) < 0 := by exact_mod_cast ha
        exact lt_of_lt_of_le this (Real.sqrt_nonneg _)
      · have ha' : (0 : ℝ) ≤ (atol : ℝ) := by exact_mod_cast not_lt.mp ha
        have hR : (atol : ℝ) * atol < d := by exact_mod_cast h
        rw [Real.lt_sqrt ha']
        nlinarith
  · intro h
    by_cases ha : atol < 0
    · exact Or.inl ha
    · right
      have ha' : (0 : ℝ) ≤ (atol : ℝ) := by exact_mod_cast not_lt.mp ha
      rw [Real.lt_sqrt ha'] at h
      have : (atol : ℝ) * atol < d := by nlinarith
      exact_mod_cast this

/-- non-vacuity: three designs, queries = design 2 then design 0 (exactly), and a point 1/8 away
from design 1 — located within `atol = 1/4`, rejected with `atol = 1/16`; no design ⇒ `ValueError` -/
example : locate [[1, 1], [0, 0]] [[0, 0], [1, 0], [1, 1]] (1/1000000) = .ok [2, 0] := by decide +kernel
example : locate [[1, 1/8]] [[0, 0], [1, 0], [1, 1]] (1/4) = .ok [1] := by decide +kernel
example : locate [[1, 1/8]] [[0, 0], [1, 0], [1, 1]] (1/16) = .valueError := by decide +kernel
example : locate [[1, 1]] [] 1 = .valueError := by decide +kernel
example : locate [] [[1, 1]] 1 = .valueError := by decide +kernel


/-- **The points the optimiser returns are located at the designs it chose.**  `evaluating()` hands the
acquisition optimiser the POINTS of the active designs (`choices[k] = X[active[k]]`), gets the chosen
points back and turns them into design indices with `locate_points`.  With pairwise distinct design
points of one dimension and a non-negative tolerance, that round trip is exact: the located indices are
the active designs at the optimiser's picked positions, in the optimiser's order — so the sample is
requested at (and booked on) the acquisition maximiser, not on a neighbour. -/
theorem evaluating_locates_picks (X : Mat) (active : List Nat) (vals : List Rat) (q : Nat) (atol : Rat)
    (d : Nat) (hat : 0 ≤ atol) (hq : 0 < q) (hne : vals ≠ []) (hlen : vals.length = active.length)
    (hact : ∀ i ∈ active, i < X.length) (hnd : X.Nodup) (hdim : ∀ r ∈ X, r.length = d) :
    locate ((optimizeDiscrete vals q).map (fun p => X.getD (active.getD p.1 0) [])) X atol =
      .ok ((optimizeDiscrete vals q).map (fun p => active.getD p.1 0)) := by
  set picks := optimizeDiscrete vals q with hpicks
  have hpl : picks.length = min q vals.length := discrete_length vals q
  have hpos : 0 < picks.length := by
    rw [hpl]; exact Nat.lt_min.mpr ⟨hq, List.length_pos_iff.mpr hne⟩
  have hpick : ∀ p ∈ picks, p.1 < active.length := by
    intro p hp
    have h := discrete_cells vals q p hp
    have : p.1 < vals.length := by
      rcases Nat.lt_or_ge p.1 vals.length with h' | h'
      · exact h'
      · rw [List.getElem?_eq_none h'] at h; cases h
    omega
  have hidx : ∀ p ∈ picks, active.getD p.1 0 < X.length := by
    intro p hp
    have hlt := hpick p hp
    rw [getD_of_lt _ _ _ hlt]
    exact hact _ (List.getElem_mem hlt)
  set cand := picks.map (fun p => X.getD (active.getD p.1 0) []) with hcand
  have hcne : cand ≠ [] := by
    intro h
    have : cand.length = 0 := by rw [h]; rfl
    rw [hcand, List.length_map] at this
    omega
  have hcmem : ∀ x ∈ cand, x ∈ X := by
    intro x hx
    obtain ⟨p, hp, rfl⟩ := List.mem_map.mp hx
    have := hidx p hp
    rw [getD_of_lt _ _ _ this]
    exact List.getElem_mem this
  have hdim' : ∀ r ∈ X, ∀ x ∈ cand, r.length = x.length := by
    intro r hr x hx
    rw [hdim r hr, hdim x (hcmem x hx)]
  obtain ⟨idx, hloc, hlen', hrow⟩ := locate_on_grid cand X atol hat hcne hdim' hcmem hnd
  rw [hloc]
  congr 1
  apply List.ext_getElem
  · rw [hlen', hcand, List.length_map, List.length_map]
  · intro k hk1 hk2
    have hkc : k < cand.length := hlen' ▸ hk1
    have hkp : k < picks.length := by rw [hcand, List.length_map] at hkc; exact hkc
    obtain ⟨i, hik, hi, hXi, huniq⟩ := hrow k hkc
    rw [List.getElem?_eq_getElem hk1] at hik
    cases hik
    rw [List.getElem_map]
    have hp := List.getElem_mem hkp
    have hj := hidx _ hp
    have hck : cand[k] = X[active.getD picks[k].1 0] := by
      simp only [cand, List.getElem_map]
      exact getD_of_lt _ _ _ hj
    exact (huniq _ hj hck.symm).symm

/-- non-vacuity: designs 3, 0, 2 active with values 1, 5, 5 (tie → first), batch 2 -/
example : locate ((optimizeDiscrete [1, 5, 5] 2).map
      (fun p => ([[0, 0], [1, 0], [1, 1], [0, 1]] : Mat).getD (([3, 0, 2] : List Nat).getD p.1 0) []))
      [[0, 0], [1, 0], [1, 1], [0, 1]] (1/1000000) = .ok [0, 2] := by decide +kernel


end LocatePoints

end VOPy.C07
