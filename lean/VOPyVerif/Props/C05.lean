import VOPyVerif.Proofs.AccuracyRegions
import VOPyVerif.Proofs.IntegrationReal
import VOPyVerif.Proofs.StepsCongr
/-!
# C05 — VOGP / ε-PAL keep ε-isolated optima; `P` is internally non-ε-dominated

Property theorems only.  They are about `Steps.vogpRound` (`discarding` restricted to
`S − pessimistic set` with witnesses from the pessimistic set, then `epsiloncovering` against
`S ∪ P`) iterated by `Accuracy.vogpRun` from `(S, P) = (all, ∅)`, and about the executable
conclusions `Accuracy.keepsIsolated` / `Accuracy.internallyNondom` the driver evaluates on the
final `P` of a real run.  The pessimistic oracle `pessDom` is *arbitrary* in every theorem: the
guarantees hold however complete the pessimistic test is.

* `vogp_invariant` — abstract: isolated designs stay alive, `P` is never dominated beyond the slack
  by a living design — after every number of rounds.
* `vogp_keeps_isolated`, `vogp_P_internally_nondominated` — cone `W`, slack vector `s` (ε·u*).
* `vogp_oracles_sound_of_valid_regions`, `vogp_accurate_of_valid_regions` — from valid displayed regions.
* `epal_keeps_isolated`, `epal_P_internally_nondominated` — ε-PAL: componentwise order, slack ε·𝟙.
* `keepsIsolated_spec`, `internallyNondom_spec` — what the executable checks mean.
-/
namespace VOPy.C05
open VOPy VOPy.Steps VOPy.Accuracy

/-- **Invariant of VOGP / ε-PAL, abstractly.**  For any number of designs, any relations `near j i`
("μ_j + slack ≽ μ_i") and `sd j i` ("μ_j ≽ μ_i + slack"), any pessimistic oracle, and any per-round
oracles such that for living `j ≠ i`: `isDom_r i j → near j i` and `isCov_r i j = false → ¬ sd j i`:
after every number `T` of rounds, every design that no other design is `near` is still in `S ∪ P`,
and no member of `P` is `sd`-dominated by another living design. -/
theorem vogp_invariant {K : Nat} {near sd : Nat → Nat → Prop} (isDom isCov pessDom : Nat → Rel) (T : Nat)
    (hs : ∀ r, r < T → VRoundSound near sd (isDom r) (isCov r)
      (vogpRun K isDom isCov pessDom r).1 (vogpRun K isDom isCov pessDom r).2) :
    let S := (vogpRun K isDom isCov pessDom T).1
    let P := (vogpRun K isDom isCov pessDom T).2
    (∀ i, i < K → (∀ j, j < K → j ≠ i → ¬ near j i) → i ∈ S ∨ i ∈ P) ∧
    (∀ i, i ∈ P → ∀ j, (j ∈ S ∨ j ∈ P) → j ≠ i → ¬ sd j i) ∧
    (∀ x, x ∈ S → x ∉ P) ∧ (∀ x, x ∈ S ∨ x ∈ P → x < K) := by
  have h := vogp_run_inv (near := near) (sd := sd) isDom isCov pessDom T hs
  exact ⟨h.isoKept, h.internal, h.disj, h.lt⟩

/-- **VOGP keeps every ε-isolated design.**  Cone `W`, slack `s` in objective space (`ε·u*`), true
values `μ`.  If in every round `r < T` the oracles are sound at the true values for living designs
(`VRoundSound`) and no candidate is left after round `T`, then every design `i` such that no other
design `j` has `μ_j + s ≽ μ_i` is in the final `P` (`keepsIsolated`).  The proof uses only that a
discard needs a witness `j ≠ i` among `S ∪ P` with `is_dominated(R_i, R_j, s)`. -/
theorem vogp_keeps_isolated (W : Mat) (s : Vec) (K : Nat) (mu : Nat → Vec)
    (isDom isCov pessDom : Nat → Rel) (T : Nat)
    (hs : ∀ r, r < T → VRoundSound (fun j i => dominates W (vadd (mu j) s) (mu i) = true)
      (fun j i => dominates W (mu j) (vadd (mu i) s) = true) (isDom r) (isCov r)
      (vogpRun K isDom isCov pessDom r).1 (vogpRun K isDom isCov pessDom r).2)
    (hfinal : (vogpRun K isDom isCov pessDom T).1 = []) :
    keepsIsolated W s K mu (vogpRun K isDom isCov pessDom T).2 = true := by
  have h := vogp_run_inv isDom isCov pessDom T hs
  rw [keepsIsolated_iff]
  intro i hi hiso
  have := h.isoKept i hi (fun j hj hne hc => by
    rw [hiso j hj hne] at hc
    exact absurd hc (by simp))
  rcases this with h1 | h1
  · rw [hfinal] at h1; simp at h1
  · exact h1

/-- **The returned `P` is internally non-ε-dominated.**  Same hypotheses (termination is not even
needed): for all `i ≠ j` in `P`, `¬ (μ_j ≽ μ_i + s)` (`internallyNondom`) — at the round `i` entered
`P`, `j` was in `S ∪ P` and the covering test failed. -/
theorem vogp_P_internally_nondominated (W : Mat) (s : Vec) (K : Nat) (mu : Nat → Vec)
    (isDom isCov pessDom : Nat → Rel) (T : Nat)
    (hs : ∀ r, r < T → VRoundSound (fun j i => dominates W (vadd (mu j) s) (mu i) = true)
      (fun j i => dominates W (mu j) (vadd (mu i) s) = true) (isDom r) (isCov r)
      (vogpRun K isDom isCov pessDom r).1 (vogpRun K isDom isCov pessDom r).2) :
    internallyNondom W s mu (vogpRun K isDom isCov pessDom T).2 = true := by
  have h := vogp_run_inv isDom isCov pessDom T hs
  rw [internallyNondom_iff]
  intro i hi j hj hne
  have := h.internal i hi j (Or.inr hj) hne
  cases hd : dominates W (mu j) (vadd (mu i) s) with
  | false => rfl
  | true => exact absurd hd this

/-- **Valid rectangles give sound oracles.**  `R r i` is the region displayed for design `i` in round
`r` (all of `S ∪ P` is refreshed every round).  If `is_dominated = True` implies the semantic
`∀∀ z' + s ≽ z`, `is_covered = False` implies `¬ ∃∃ z' ≽ z + s`, and the true value of every
living design is inside its displayed region, every round is `VRoundSound`. -/
theorem vogp_oracles_sound_of_valid_regions (W : Mat) (s : Vec) (K : Nat) (mu : Nat → Vec)
    (R : Nat → Nat → Region) (isDom isCov pessDom : Nat → Rel) (T : Nat)
    (hDom : ∀ r, r < T → ∀ i j, isDom r i j = true → SemDominatedS W s (R r i) (R r j))
    (hCov : ∀ r, r < T → ∀ i j, isCov r i j = false → ¬ SemCoverableS W s (R r i) (R r j))
    (hvalid : ∀ r, r < T → ∀ i,
      (i ∈ (vogpRun K isDom isCov pessDom r).1 ∨ i ∈ (vogpRun K isDom isCov pessDom r).2) →
      R r i (mu i)) :
    ∀ r, r < T → VRoundSound (fun j i => dominates W (vadd (mu j) s) (mu i) = true)
      (fun j i => dominates W (mu j) (vadd (mu i) s) = true) (isDom r) (isCov r)
      (vogpRun K isDom isCov pessDom r).1 (vogpRun K isDom isCov pessDom r).2 :=
  vogp_roundSound_of_valid_regions W s K mu R isDom isCov pessDom T hDom hCov hvalid

/-- **C05 end to end.**  Valid displayed regions in every round, oracles with the semantic meaning
of `is_dominated` / `is_covered`, an arbitrary pessimistic test, and termination imply both
conclusions the driver evaluates on the final `P`. -/
theorem vogp_accurate_of_valid_regions (W : Mat) (s : Vec) (K : Nat) (mu : Nat → Vec)
    (R : Nat → Nat → Region) (isDom isCov pessDom : Nat → Rel) (T : Nat)
    (hDom : ∀ r, r < T → ∀ i j, isDom r i j = true → SemDominatedS W s (R r i) (R r j))
    (hCov : ∀ r, r < T → ∀ i j, isCov r i j = false → ¬ SemCoverableS W s (R r i) (R r j))
    (hvalid : ∀ r, r < T → ∀ i,
      (i ∈ (vogpRun K isDom isCov pessDom r).1 ∨ i ∈ (vogpRun K isDom isCov pessDom r).2) →
      R r i (mu i))
    (hfinal : (vogpRun K isDom isCov pessDom T).1 = []) :
    keepsIsolated W s K mu (vogpRun K isDom isCov pessDom T).2 = true ∧
    internallyNondom W s mu (vogpRun K isDom isCov pessDom T).2 = true :=
  ⟨vogp_keeps_isolated W s K mu isDom isCov pessDom T
      (vogp_roundSound_of_valid_regions W s K mu R isDom isCov pessDom T hDom hCov hvalid) hfinal,
   vogp_P_internally_nondominated W s K mu isDom isCov pessDom T
      (vogp_roundSound_of_valid_regions W s K mu R isDom isCov pessDom T hDom hCov hvalid)⟩

/-- **ε-PAL keeps every ε-isolated design** — the VOGP theorem at the componentwise order
(`identMat m`) with the scalar ε added to every objective (`ε·𝟙`). -/
theorem epal_keeps_isolated (m K : Nat) (eps : Rat) (mu : Nat → Vec)
    (isDom isCov pessDom : Nat → Rel) (T : Nat)
    (hs : ∀ r, r < T → VRoundSound
      (fun j i => dominates (identMat m) (vadd (mu j) (List.replicate m eps)) (mu i) = true)
      (fun j i => dominates (identMat m) (mu j) (vadd (mu i) (List.replicate m eps)) = true)
      (isDom r) (isCov r)
      (vogpRun K isDom isCov pessDom r).1 (vogpRun K isDom isCov pessDom r).2)
    (hfinal : (vogpRun K isDom isCov pessDom T).1 = []) :
    keepsIsolated (identMat m) (List.replicate m eps) K mu (vogpRun K isDom isCov pessDom T).2 = true :=
  vogp_keeps_isolated (identMat m) (List.replicate m eps) K mu isDom isCov pessDom T hs hfinal

/-- **ε-PAL's `P` is internally non-ε-dominated** (slack `ε·𝟙`, componentwise order). -/
theorem epal_P_internally_nondominated (m K : Nat) (eps : Rat) (mu : Nat → Vec)
    (isDom isCov pessDom : Nat → Rel) (T : Nat)
    (hs : ∀ r, r < T → VRoundSound
      (fun j i => dominates (identMat m) (vadd (mu j) (List.replicate m eps)) (mu i) = true)
      (fun j i => dominates (identMat m) (mu j) (vadd (mu i) (List.replicate m eps)) = true)
      (isDom r) (isCov r)
      (vogpRun K isDom isCov pessDom r).1 (vogpRun K isDom isCov pessDom r).2) :
    internallyNondom (identMat m) (List.replicate m eps) mu (vogpRun K isDom isCov pessDom T).2 = true :=
  vogp_P_internally_nondominated (identMat m) (List.replicate m eps) K mu isDom isCov pessDom T hs

/-- `keepsIsolated` says: every design that no other design matches up to the slack is in `P`. -/
theorem keepsIsolated_spec (W : Mat) (s : Vec) (K : Nat) (mu : Nat → Vec) (P : List Nat) :
    keepsIsolated W s K mu P = true ↔
      ∀ i, i < K → (∀ j, j < K → j ≠ i → dominates W (vadd (mu j) s) (mu i) = false) → i ∈ P :=
  keepsIsolated_iff W s K mu P

/-- `internallyNondom` says: no member of `P` is dominated by another member by more than the slack. -/
theorem internallyNondom_spec (W : Mat) (s : Vec) (mu : Nat → Vec) (P : List Nat) :
    internallyNondom W s mu P = true ↔
      ∀ i ∈ P, ∀ j ∈ P, j ≠ i → dominates W (mu j) (vadd (mu i) s) = false :=
  internallyNondom_iff W s mu P

/-! ### non-vacuity: three designs, one discarded, an isolated one kept -/

/-- design 0 lies far below design 1; design 2 is incomparable with both (isolated) -/
private def exMu : Nat → Vec := fun i => ([[0, 0], [2, 2], [-1, 4]] : List Vec).getD i []
/-- region 0 is dominated (with slack) by region 1 -/
private def exDom : Nat → Rel := fun _ i j => i == 0 && j == 1
/-- region 0 can be covered by region 1, nothing else can be covered -/
private def exCov : Nat → Rel := fun _ i j => i == 0 && j == 1
/-- the pessimistic test: region 1 pessimistically dominates region 0 -/
private def exPess : Nat → Rel := fun _ j i => j == 1 && i == 0

/-- The hypotheses of `vogp_keeps_isolated` / `vogp_P_internally_nondominated` are satisfiable with a
non-trivial outcome: orthant cone, slack `(1/4, 1/4)`; design 0 is discarded through the pessimistic
set `{1, 2}`, designs 1 and 2 (both isolated) reach `P`. -/
example :
    vogpRun 3 exDom exCov exPess 1 = ([], [1, 2]) ∧
    keepsIsolated (identMat 2) [1/4, 1/4] 3 exMu (vogpRun 3 exDom exCov exPess 1).2 = true ∧
    internallyNondom (identMat 2) [1/4, 1/4] exMu (vogpRun 3 exDom exCov exPess 1).2 = true := by
  have hs : ∀ r, r < 1 → VRoundSound
      (fun j i => dominates (identMat 2) (vadd (exMu j) [1/4, 1/4]) (exMu i) = true)
      (fun j i => dominates (identMat 2) (exMu j) (vadd (exMu i) [1/4, 1/4]) = true)
      (exDom r) (exCov r) (vogpRun 3 exDom exCov exPess r).1 (vogpRun 3 exDom exCov exPess r).2 := by
    intro r hr
    have : r = 0 := by omega
    subst this
    exact vroundSound_of_check _ _ _ _ _ _ _ (by decide +kernel)
  exact ⟨by decide +kernel,
    vogp_keeps_isolated _ _ _ _ _ _ _ 1 hs (by decide +kernel),
    vogp_P_internally_nondominated _ _ _ _ _ _ _ 1 hs⟩

/-- the isolation premise is not vacuous in that example: designs 1 and 2 are isolated, design 0 is not -/
example : (List.range 3).filter (isolated (identMat 2) [1/4, 1/4] 3 exMu) = [1, 2] := by
  decide +kernel

end VOPy.C05

/-! # INTEGRATION — end-to-end statements about the executable decision core

The theorems above take the oracles as given.  Here they are *computed* from the displayed
rectangles by the exact geometry models: `Core.rectDom` (`Rect.isDominatedChecked`, the vertex-pair
loop of `is_dominated` with the slack the algorithm passes), `Core.rectCov` (`Covered.rectIsCovered`,
the LP of `is_covered`) and `Core.rectPess` (`Pess.checkDominates`, the real pessimistic test of C11 —
the guarantees hold for any pessimistic oracle, it is instantiated so that the statement is about
the executable core).  `Core.vogpRectCore` is `Accuracy.vogpRun` with those oracles.  The semantic
hypotheses of `vogp_accurate_of_valid_regions` are discharged by C09 (`rect_isDominated_iff`) and
C10 (`rect_isCovered_iff`); what is left is the premise: the true value of every living design lies
in the rectangle displayed for it. -/
namespace VOPy.C05
open VOPy VOPy.Steps VOPy.Accuracy

/-- **C05 end to end on the executable core, any admissible slack.**  Cone matrix `W` (non-empty,
rows of `m` entries), a slack that passes the size guard of the rectangular predicates and is
broadcast to `s` (`Covered.expandSlack m slack = some s`: an `m`-vector as is, a scalar repeated).  If
in every round `r < T` every design of `S ∪ P` has a displayed rectangle of dimension `m` containing
its true value, and `S = ∅` after round `T` of `Core.vogpRectCore`, then every `s`-isolated design is
in the final `P` and `P` is internally non-`s`-dominated. -/
theorem vogp_rect_end_to_end_slack (W : Mat) (slack s : Vec) (m K : Nat) (mu : Nat → Vec)
    (hW : ∀ w ∈ W, w.length = m) (hWne : W ≠ [])
    (hs : Covered.expandSlack m slack = some s)
    (fresh : Nat → Nat → Core.Box) (T : Nat)
    (hvalid : ∀ r, r < T → ∀ i,
      (i ∈ (Core.vogpRectCore W slack K fresh r).1 ∨ i ∈ (Core.vogpRectCore W slack K fresh r).2) →
      (fresh r i).l.length = m ∧ (fresh r i).mem (mu i) = true)
    (hfinal : (Core.vogpRectCore W slack K fresh T).1 = []) :
    keepsIsolated W s K mu (Core.vogpRectCore W slack K fresh T).2 = true ∧
    internallyNondom W s mu (Core.vogpRectCore W slack K fresh T).2 = true := by
  have hlen : ∀ (b : Core.Box) (z : Vec), b.l.length = m → b.mem z = true → z.length = m :=
    fun b z hl hz => (Core.Box.mem_length hz).1.symm.trans hl
  exact vogp_accurate_of_valid_regions W s K mu
    (fun r i z => (fresh r i).l.length = m ∧ (fresh r i).mem z = true)
    (fun k => Core.relOf (Core.rectDom W slack) (fresh k))
    (fun k => Core.relOf (Core.rectCov W slack) (fresh k))
    (fun k => Core.relOf (Core.rectPess W) (fresh k)) T
    (fun r _ i j h z hz z' hz' =>
      Core.rectDom_sound W m hW slack s (by rw [Core.rect_expandSlack_eq]; exact hs) (fresh r i) (fresh r j)
        z z' hz.1 hz.2 hz'.2 (hlen _ z hz.1 hz.2) (hlen _ z' hz'.1 hz'.2) h)
    (fun r _ i j h hc => by
      obtain ⟨z, hz, z', hz', hd⟩ := hc
      have := Core.rectCov_sound W m hW hWne slack s hs (fresh r i) (fresh r j) z z' hz.2 hz'.2
        (hlen _ z hz.1 hz.2) (hlen _ z' hz'.1 hz'.2) h
      rw [hd] at this
      exact absurd this (by simp))
    hvalid hfinal

/-- **VOGP, end to end on the executable core**: slack `s = ε·u*` (any `m`-vector). -/
theorem vogp_rect_end_to_end (W : Mat) (s : Vec) (m K : Nat) (mu : Nat → Vec)
    (hW : ∀ w ∈ W, w.length = m) (hWne : W ≠ []) (hs : s.length = m)
    (fresh : Nat → Nat → Core.Box) (T : Nat)
    (hvalid : ∀ r, r < T → ∀ i,
      (i ∈ (Core.vogpRectCore W s K fresh r).1 ∨ i ∈ (Core.vogpRectCore W s K fresh r).2) →
      (fresh r i).l.length = m ∧ (fresh r i).mem (mu i) = true)
    (hfinal : (Core.vogpRectCore W s K fresh T).1 = []) :
    keepsIsolated W s K mu (Core.vogpRectCore W s K fresh T).2 = true ∧
    internallyNondom W s mu (Core.vogpRectCore W s K fresh T).2 = true :=
  vogp_rect_end_to_end_slack W s s m K mu hW hWne (Core.expandSlack_self m s hs) fresh T hvalid hfinal

/-- **ε-PAL, end to end on the executable core**: componentwise order (`identMat m`, `m ≥ 1`), the
scalar `ε` passed as the slack (`[ε]`) and broadcast by the guard to `ε·𝟙`. -/
theorem epal_rect_end_to_end (m K : Nat) (hm : 0 < m) (eps : Rat) (mu : Nat → Vec)
    (fresh : Nat → Nat → Core.Box) (T : Nat)
    (hvalid : ∀ r, r < T → ∀ i,
      (i ∈ (Core.vogpRectCore (identMat m) [eps] K fresh r).1 ∨
        i ∈ (Core.vogpRectCore (identMat m) [eps] K fresh r).2) →
      (fresh r i).l.length = m ∧ (fresh r i).mem (mu i) = true)
    (hfinal : (Core.vogpRectCore (identMat m) [eps] K fresh T).1 = []) :
    keepsIsolated (identMat m) (List.replicate m eps) K mu
      (Core.vogpRectCore (identMat m) [eps] K fresh T).2 = true ∧
    internallyNondom (identMat m) (List.replicate m eps) mu
      (Core.vogpRectCore (identMat m) [eps] K fresh T).2 = true := by
  apply vogp_rect_end_to_end_slack (identMat m) [eps] (List.replicate m eps) m K mu _ _ rfl fresh T
    hvalid hfinal
  · intro w hw
    simp only [identMat, List.mem_map, List.mem_range] at hw
    obtain ⟨i, _, rfl⟩ := hw
    simp
  · intro h
    have : (identMat m).length = 0 := by rw [h]; rfl
    simp [identMat] at this
    omega

/-! ### non-vacuity: two rounds evaluated by the kernel, real pessimistic test included -/

private def exBoxes : Nat → Nat → Core.Box := fun r i =>
  let h : Rat := if r = 0 then 2 else 1/8
  ⟨(exMu i).map (· - h), (exMu i).map (· + h)⟩

/-- `vogp_rect_end_to_end` on the acute cone `W = [[2,−1],[−1,2]]` with slack `(1/4,1/4)`: the displayed
rectangles are centred at the true values, half-width 2 in round 0 (nothing decided) and 1/8 in round 1
(design 0 leaves through the computed pessimistic set, designs 1 and 2 — both isolated — reach `P`). -/
example :
    Core.vogpRectCore [[2, -1], [-1, 2]] [1/4, 1/4] 3 exBoxes 1 = ([0, 1, 2], []) ∧
    Core.vogpRectCore [[2, -1], [-1, 2]] [1/4, 1/4] 3 exBoxes 2 = ([], [1, 2]) ∧
    keepsIsolated [[2, -1], [-1, 2]] [1/4, 1/4] 3 exMu
      (Core.vogpRectCore [[2, -1], [-1, 2]] [1/4, 1/4] 3 exBoxes 2).2 = true ∧
    internallyNondom [[2, -1], [-1, 2]] [1/4, 1/4] exMu
      (Core.vogpRectCore [[2, -1], [-1, 2]] [1/4, 1/4] 3 exBoxes 2).2 = true := by
  refine ⟨by decide +kernel, by decide +kernel, ?_⟩
  apply vogp_rect_end_to_end [[2, -1], [-1, 2]] [1/4, 1/4] 2 3 exMu (by decide +kernel) (by decide) rfl
  · intro r hr i hi
    have := Core.vogpPremise_spec (fun b x => decide (b.l.length = 2) && b.mem x) 3 _ _ _ exBoxes exMu 2
      (by decide +kernel) r hr i hi
    simpa using this
  · decide +kernel

/-- `epal_rect_end_to_end`: same rectangles, componentwise order, scalar slack `ε = 1/4`. -/
example :
    Core.vogpRectCore (identMat 2) [1/4] 3 exBoxes 2 = ([], [1, 2]) ∧
    keepsIsolated (identMat 2) (List.replicate 2 (1/4)) 3 exMu
      (Core.vogpRectCore (identMat 2) [1/4] 3 exBoxes 2).2 = true := by
  refine ⟨by decide +kernel, ?_⟩
  refine (epal_rect_end_to_end 2 3 (by norm_num) (1/4) exMu exBoxes 2 ?_ (by decide +kernel)).1
  intro r hr i hi
  have := Core.vogpPremise_spec (fun b x => decide (b.l.length = 2) && b.mem x) 3 _ _ _ exBoxes exMu 2
    (by decide +kernel) r hr i hi
  simpa using this

/-! ## real true values -/

/-- **C05 on the executable core with real true values.**  `vogp_rect_end_to_end_slack` for true values
that are arbitrary real vectors: if the true value of every living design lies in its displayed
rectangle in every round and `S = ∅` after round `T`, every design that no other design matches up to
the slack (`¬ (μ_j + s ≽ μ_i)` for all `j ≠ i`) is in `P`, and no member of `P` dominates another by
more than the slack — over `ℝ`, with the real pessimistic test inside the core. -/
theorem vogp_rect_end_to_end_real {m N : ℕ} (W : Fin N → Fin m → ℚ) (hN : 0 < N) (slack : Vec)
    (s : Fin m → ℚ) (hs : Covered.expandSlack m slack = some (toVec s)) (K : ℕ) (mu : ℕ → Fin m → ℝ)
    (l u : ℕ → ℕ → Fin m → ℚ) (T : ℕ)
    (hvalid : ∀ r, r < T → ∀ i,
      (i ∈ (Core.vogpRectCore (toMat W) slack K (fun r i => ⟨toVec (l r i), toVec (u r i)⟩) r).1 ∨
        i ∈ (Core.vogpRectCore (toMat W) slack K (fun r i => ⟨toVec (l r i), toVec (u r i)⟩) r).2) →
      ∀ d, (l r i d : ℝ) ≤ mu i d ∧ mu i d ≤ (u r i d : ℝ))
    (hfinal : (Core.vogpRectCore (toMat W) slack K (fun r i => ⟨toVec (l r i), toVec (u r i)⟩) T).1 = []) :
    (∀ i, i < K →
      (∀ j, j < K → j ≠ i → ¬ ∀ n, 0 ≤ ∑ d, (W n d : ℝ) * (mu j d + (s d : ℝ) - mu i d)) →
      i ∈ (Core.vogpRectCore (toMat W) slack K (fun r i => ⟨toVec (l r i), toVec (u r i)⟩) T).2) ∧
    (∀ i ∈ (Core.vogpRectCore (toMat W) slack K (fun r i => ⟨toVec (l r i), toVec (u r i)⟩) T).2,
      ∀ j ∈ (Core.vogpRectCore (toMat W) slack K (fun r i => ⟨toVec (l r i), toVec (u r i)⟩) T).2,
        j ≠ i → ¬ ∀ n, 0 ≤ ∑ d, (W n d : ℝ) * (mu j d - mu i d - (s d : ℝ))) := by
  have h := vogp_run_inv (K := K)
    (near := fun j i => ∀ n, 0 ≤ ∑ d, (W n d : ℝ) * (mu j d + (s d : ℝ) - mu i d))
    (sd := fun j i => ∀ n, 0 ≤ ∑ d, (W n d : ℝ) * (mu j d - mu i d - (s d : ℝ)))
    (fun k => Core.relOf (Core.rectDom (toMat W) slack) (fun i => ⟨toVec (l k i), toVec (u k i)⟩))
    (fun k => Core.relOf (Core.rectCov (toMat W) slack) (fun i => ⟨toVec (l k i), toVec (u k i)⟩))
    (fun k => Core.relOf (Core.rectPess (toMat W)) (fun i => ⟨toVec (l k i), toVec (u k i)⟩)) T
    (by
      intro r hr
      refine ⟨?_, ?_⟩
      · intro i hi j hj _ hij
        exact Core.rectDom_sound_real W slack s (by rw [Core.rect_expandSlack_eq]; exact hs) _ _ _ _ _ _
          (hvalid r hr i (Or.inl hi)) (hvalid r hr j hj) hij
      · intro i hi j hj _ hij hsd
        obtain ⟨n, hn⟩ := Core.rectCov_sound_real W hN slack s hs _ _ _ _ _ _
          (hvalid r hr i (Or.inl hi)) (hvalid r hr j hj) hij
        exact absurd (hsd n) (not_le.2 hn))
  constructor
  · intro i hi hiso
    rcases h.isoKept i hi hiso with h1 | h1
    · rw [show (vogpRun K _ _ _ T).1 = [] from hfinal] at h1; simp at h1
    · exact h1
  · intro i hi j hj hne
    exact h.internal i hi j (Or.inr hj) hne

/-- VOGP instance: the slack is an `m`-vector `s` (`ε·u*`). -/
theorem vogp_rect_end_to_end_real_vec {m N : ℕ} (W : Fin N → Fin m → ℚ) (hN : 0 < N) (s : Fin m → ℚ)
    (K : ℕ) (mu : ℕ → Fin m → ℝ) (l u : ℕ → ℕ → Fin m → ℚ) (T : ℕ)
    (hvalid : ∀ r, r < T → ∀ i,
      (i ∈ (Core.vogpRectCore (toMat W) (toVec s) K (fun r i => ⟨toVec (l r i), toVec (u r i)⟩) r).1 ∨
        i ∈ (Core.vogpRectCore (toMat W) (toVec s) K (fun r i => ⟨toVec (l r i), toVec (u r i)⟩) r).2) →
      ∀ d, (l r i d : ℝ) ≤ mu i d ∧ mu i d ≤ (u r i d : ℝ))
    (hfinal : (Core.vogpRectCore (toMat W) (toVec s) K (fun r i => ⟨toVec (l r i), toVec (u r i)⟩) T).1 = []) :
    (∀ i, i < K →
      (∀ j, j < K → j ≠ i → ¬ ∀ n, 0 ≤ ∑ d, (W n d : ℝ) * (mu j d + (s d : ℝ) - mu i d)) →
      i ∈ (Core.vogpRectCore (toMat W) (toVec s) K (fun r i => ⟨toVec (l r i), toVec (u r i)⟩) T).2) ∧
    (∀ i ∈ (Core.vogpRectCore (toMat W) (toVec s) K (fun r i => ⟨toVec (l r i), toVec (u r i)⟩) T).2,
      ∀ j ∈ (Core.vogpRectCore (toMat W) (toVec s) K (fun r i => ⟨toVec (l r i), toVec (u r i)⟩) T).2,
        j ≠ i → ¬ ∀ n, 0 ≤ ∑ d, (W n d : ℝ) * (mu j d - mu i d - (s d : ℝ))) :=
  vogp_rect_end_to_end_real W hN (toVec s) s (Core.expandSlack_self m _ (by simp)) K mu l u T hvalid hfinal

/-- ε-PAL instance: componentwise order, the scalar `ε` as slack; in coordinates: a design `i` such
that every other design `j` has some objective `d` with `μ_j d + ε < μ_i d` is in `P`, and for
`i ≠ j ∈ P` some objective has `μ_j d < μ_i d + ε`. -/
theorem epal_rect_end_to_end_real {m : ℕ} (hm : 0 < m) (eps : ℚ) (K : ℕ) (mu : ℕ → Fin m → ℝ)
    (l u : ℕ → ℕ → Fin m → ℚ) (T : ℕ)
    (hvalid : ∀ r, r < T → ∀ i,
      (i ∈ (Core.vogpRectCore (identMat m) [eps] K (fun r i => ⟨toVec (l r i), toVec (u r i)⟩) r).1 ∨
        i ∈ (Core.vogpRectCore (identMat m) [eps] K (fun r i => ⟨toVec (l r i), toVec (u r i)⟩) r).2) →
      ∀ d, (l r i d : ℝ) ≤ mu i d ∧ mu i d ≤ (u r i d : ℝ))
    (hfinal : (Core.vogpRectCore (identMat m) [eps] K (fun r i => ⟨toVec (l r i), toVec (u r i)⟩) T).1 = []) :
    (∀ i, i < K → (∀ j, j < K → j ≠ i → ∃ d, mu j d + (eps : ℝ) < mu i d) →
      i ∈ (Core.vogpRectCore (identMat m) [eps] K (fun r i => ⟨toVec (l r i), toVec (u r i)⟩) T).2) ∧
    (∀ i ∈ (Core.vogpRectCore (identMat m) [eps] K (fun r i => ⟨toVec (l r i), toVec (u r i)⟩) T).2,
      ∀ j ∈ (Core.vogpRectCore (identMat m) [eps] K (fun r i => ⟨toVec (l r i), toVec (u r i)⟩) T).2,
        j ≠ i → ∃ d, mu j d < mu i d + (eps : ℝ)) := by
  have key : ∀ (x : Fin m → ℝ) (n : Fin m), ∑ d, ((Core.idQ m n d : ℚ) : ℝ) * x d = x n := by
    intro x n
    rw [Finset.sum_eq_single n]
    · simp [Core.idQ]
    · intro d _ hd
      simp [Core.idQ, Ne.symm hd]
    · intro h; exact absurd (Finset.mem_univ n) h
  rw [Core.identMat_eq_toMat] at hvalid hfinal ⊢
  obtain ⟨h1, h2⟩ := vogp_rect_end_to_end_real (Core.idQ m) hm [eps] (fun _ => eps)
    (by rw [← Core.replicate_eq_toVec]; rfl) K mu l u T hvalid hfinal
  constructor
  · intro i hi hiso
    apply h1 i hi
    intro j hj hne hall
    obtain ⟨d, hd⟩ := hiso j hj hne
    have := hall d
    rw [key] at this
    linarith
  · intro i hi j hj hne
    by_contra hno
    apply h2 i hi j hj hne
    intro n
    rw [key]
    have : ¬ mu j n < mu i n + (eps : ℝ) := fun h => hno ⟨n, h⟩
    linarith

private def rMu : ℕ → Fin 2 → ℚ := fun i => if i = 0 then ![0, 0] else if i = 1 then ![2, 2] else ![-1, 4]

/-- non-vacuity of the real-valued statement: the acute-cone scenario above with the true values cast
to `ℝ`; design 2 (isolated) is in `P`. -/
example :
    2 ∈ (Core.vogpRectCore (toMat ![![2, -1], ![-1, 2]]) (toVec ![1/4, 1/4]) 3
      (fun r i => ⟨toVec (fun d => rMu i d - (if r = 0 then 2 else 1/8)),
        toVec (fun d => rMu i d + (if r = 0 then 2 else 1/8))⟩) 2).2 := by
  refine (vogp_rect_end_to_end_real_vec ![![2, -1], ![-1, 2]] (by norm_num) ![1/4, 1/4] 3
    (fun i d => (rMu i d : ℝ)) (fun r i d => rMu i d - (if r = 0 then 2 else 1/8))
    (fun r i d => rMu i d + (if r = 0 then 2 else 1/8)) 2 ?_ (by decide +kernel)).1 2 (by norm_num) ?_
  · intro r _ i _ d
    push_cast
    constructor <;> split_ifs <;> norm_num
  · intro j hj hne hall
    have hj' : j = 0 ∨ j = 1 := by omega
    rcases hj' with rfl | rfl
    · have := hall 1
      norm_num [Fin.sum_univ_two, rMu] at this
    · have := hall 1
      norm_num [Fin.sum_univ_two, rMu] at this

end VOPy.C05

/-! # INVARIANCE — translation twins of whole runs (see the section of the same name in `Props/C01.lean`) -/
namespace VOPy.C05
open VOPy VOPy.Steps VOPy.Accuracy

/-- **Twin runs of VOGP / ε-PAL.**  If the three oracles (`is_dominated`, `is_covered`, the pessimistic
test) of two runs agree on all pairs of designs `< K` in every round `< T`, the trajectories `(S, P)`
are identical up to round `T`. -/
theorem vogp_translation_twin (K : Nat) (isDom isDom' isCov isCov' pd pd' : Nat → Rel) (T : Nat)
    (h : ∀ r, r < T → ∀ i, i < K → ∀ j, j < K →
      isDom' r i j = isDom r i j ∧ isCov' r i j = isCov r i j ∧ pd' r i j = pd r i j) :
    ∀ t, t ≤ T → vogpRun K isDom' isCov' pd' t = vogpRun K isDom isCov pd t :=
  vogpRun_congr K isDom isDom' isCov isCov' pd pd' T h

/-- **Twin runs of the executable core**: three computed oracles invariant under a transformation `Tr`
of the (well-formed) displayed regions give the identical run. -/
theorem vogp_core_translation_twin {ρ : Type} (Tr : ρ → ρ) (ok : ρ → Prop) (dom cov pess : ρ → ρ → Bool)
    (hd : ∀ a b, ok a → ok b → dom (Tr a) (Tr b) = dom a b)
    (hc : ∀ a b, ok a → ok b → cov (Tr a) (Tr b) = cov a b)
    (hp : ∀ a b, ok a → ok b → pess (Tr a) (Tr b) = pess a b)
    (K : Nat) (fresh : Nat → Nat → ρ) (hfresh : ∀ r i, ok (fresh r i)) :
    Core.vogpCore K dom cov pess (fun r i => Tr (fresh r i)) = Core.vogpCore K dom cov pess fresh :=
  Core.vogpCore_map Tr ok dom cov pess hd hc hp K fresh hfresh

/-- non-vacuity: oracles that differ from the example's only outside the designs `0, 1, 2` -/
example :
    vogpRun 3 (fun r i j => exDom r i j || decide (3 ≤ j)) exCov (fun r j i => exPess r j i || decide (3 ≤ i)) 1 =
      vogpRun 3 exDom exCov exPess 1 :=
  vogp_translation_twin 3 exDom _ exCov _ exPess _ 1
    (fun r _ i hi j hj => by
      have h1 : decide (3 ≤ j) = false := by simp; omega
      simp [h1]) 1 (le_refl _)

end VOPy.C05
