import VOPyVerif.Proofs.EvalF1
import VOPyVerif.Proofs.EvalCast
import VOPyVerif.Proofs.EvalHV
import VOPyVerif.Proofs.EvalF1Invariance
import VOPyVerif.Proofs.EvalHVInvariance
import Mathlib.Analysis.Real.Sqrt
/-!
# C19 — gaps, ε-coverage and ε-F1 agree with their geometric definitions

Property theorems only (helper lemmas: `Proofs/Eval.lean`, `Proofs/EvalCover.lean`,
`Proofs/EvalF1.lean`, `Proofs/EvalCast.lean`, `Proofs/EvalHV.lean`).  They are about the executable model
`Model/Eval.lean` that the driver runs against `get_smallmij`, `get_delta`, `is_covered`,
`get_uncovered_set/size` and `calculate_epsilonF1_score`.

Conventions.  Vectors are lists; `gdot` is the dot product, so `gdot u u ≤ 1` is `‖u‖² ≤ 1`
(equivalently `‖u‖ ≤ 1`) and `gdot z z ≤ ε * ε` is `‖z‖ ≤ ε` for `ε ≥ 0` (`isCoveredPt_iff_norm`
states the latter with a real square root).  `K` is any linearly ordered field: `ℝ` for the
geometric statements (the cone constants `α_n` are irrational in general), `ℚ` for what the driver
evaluates — the gap formula is *the same term* at every `K`.

NOTE (genuine defect found through the correspondence check, see the harness key
`gap-alpha-broadcast`): the theorems about `smallM`/`delta` describe `get_smallmij` with a flat
`alpha_vec`.  With the documented `(N,1)` column the code evaluates `smallMB` instead
(`min_k relu(w_k·d) / max_n α_n`), which `smallMB_le_smallM` shows to be a lower bound of the gap, equal
to it when all `α_n` coincide.
-/
namespace VOPy.C19
open VOPy VOPy.Eval

section Gap
variable {K : Type} [Field K] [LinearOrder K] [IsStrictOrderedRing K]

/-- **The gap formula is the largest admissible uniform shift.**  Let `W` be the cone matrix with
rows of dimension `D`, and let every `α_n` be the positive, attained maximum of `w_n · u` over the
unit vectors `u` of the cone (`IsAlpha`, what C17 certifies).  Then the value `M` returned by
`smallM vi vj W α` (`= min_n max(0, w_n·(vj − vi)) / α_n`, the flat-α `get_smallmij`) is the greatest
element of `{0} ∪ {s ≥ 0 | ∀ u ∈ C, ‖u‖ ≤ 1 → (vj − vi) − s·u ∈ C}`: it is the largest `s` such that `vj`
dominates `vi` shifted by `s` along **every** unit direction of the cone, and `0` when there is no such
`s` (i.e. when `vj` does not dominate `vi`). -/
theorem smallM_is_gap (vi vj : List K) (W : List (List K)) (α : List K) (D : Nat) (M : K)
    (hvi : vi.length = D) (hvj : vj.length = D)
    (hα : List.Forall₂ (IsAlpha W D) W α)
    (h : smallM vi vj W α = some M) :
    IsGreatest {s : K | s = 0 ∨ (0 ≤ s ∧ Shift W D (gsub vj vi) s)} M := by
  have hα' := forall₂_zip hα
  have hpos : ∀ p ∈ W.zip α, 0 < p.2 := fun p hp => (hα' p hp).1
  have hd : (gsub vj vi).length = D := by simp [gsub, hvi, hvj]
  have hM0 := smallM_nonneg h hpos
  by_cases hin : InCone W (gsub vj vi)
  · refine ⟨Or.inr ⟨hM0, (shift_iff_le_smallM h hα' hd hin hM0).mpr le_rfl⟩, ?_⟩
    rintro s (rfl | ⟨hs, hshift⟩)
    · exact hM0
    · exact (shift_iff_le_smallM h hα' hd hin hs).mp hshift
  · obtain ⟨hM, hno⟩ := smallM_of_not_inCone h hpos hd hin
    refine ⟨Or.inl hM, ?_⟩
    rintro s (rfl | ⟨_, hshift⟩)
    · exact hM0
    · exact absurd hshift (hno s)

/-- non-vacuity: the positive orthant of `ℚ²` (both `α_n = 1`, attained at the unit vectors),
`vi = (0,0)`, `vj = (1,3)`: the gap is `min(1/1, 3/1) = 1` -/
example : IsGreatest {s : ℚ | s = 0 ∨ (0 ≤ s ∧ Shift [[1,0],[0,1]] 2 (gsub [1,3] [0,0]) s)} 1 :=
  smallM_is_gap [0,0] [1,3] [[1,0],[0,1]] [1,1] 2 1 rfl rfl isAlpha_orthant2 (by decide +kernel)

/-- **Both directions, explicitly.**  When `vj − vi ∈ C`, a non-negative `s` is an admissible uniform
shift if and only if `s ≤ smallM` (necessity: test on the unit vectors attaining `α_n`; sufficiency:
`w_n·u ≤ α_n`). -/
theorem smallM_shift_iff (vi vj : List K) (W : List (List K)) (α : List K) (D : Nat) (M s : K)
    (hvi : vi.length = D) (hvj : vj.length = D)
    (hα : List.Forall₂ (IsAlpha W D) W α)
    (h : smallM vi vj W α = some M) (hin : InCone W (gsub vj vi)) (hs : 0 ≤ s) :
    Shift W D (gsub vj vi) s ↔ s ≤ M :=
  shift_iff_le_smallM h (forall₂_zip hα) (by simp [gsub, hvi, hvj]) hin hs

/-- `smallM` is defined (numpy does not raise) exactly for a non-empty `W` with one `α` per row. -/
theorem smallM_defined_iff (vi vj : List K) (W : List (List K)) (α : List K) :
    (∃ M, smallM vi vj W α = some M) ↔ α.length = W.length ∧ W ≠ [] := by
  constructor
  · rintro ⟨M, h⟩
    have hlen := ((smallM_eq_some_iff vi vj W α M).mp h).1
    refine ⟨hlen, ?_⟩
    rintro rfl
    obtain ⟨⟨p, hp, _⟩, _⟩ := smallM_spec h
    simp at hp
  · rintro ⟨h1, h2⟩
    exact smallM_isSome vi vj W α h1 h2

/-- **Zero gap.**  For positive `α`, the `i`-th entry of `get_delta` is `0` if and only if no design
`vj` of the value set dominates `vi` in the interior of the cone (`W (vj − vi) > 0` facet-wise);
entries are never negative. -/
theorem delta_zero_iff (mu W : List (List K)) (α ds : List K) (hα : ∀ a ∈ α, 0 < a)
    (h : delta mu W α = some ds) (i : Nat) (vi : List K) (hi : mu[i]? = some vi) :
    ∃ d, ds[i]? = some d ∧ 0 ≤ d ∧ (d = 0 ↔ ∀ vj ∈ mu, ¬ InInterior W (gsub vj vi)) := by
  obtain ⟨d, hd, hrow⟩ := forall₂_getElem? (delta_spec h) hi
  exact ⟨d, hd, deltaRow_nonneg hrow, deltaRow_eq_zero_iff hrow (pos_of_mem_zip hα)⟩

/-- non-vacuity: three designs under the componentwise order; only `(0,0)` has a positive gap -/
example : delta (K := ℚ) [[0,0],[1,3],[2,1]] [[1,0],[0,1]] [1,1] = some [1,0,0] := by decide +kernel

/-- **`Δ_i` is the largest pairwise gap.**  Each entry of `get_delta` is an upper bound of all
`m(i,j)` (`j = i` included) and is either `0` or one of them. -/
theorem delta_is_max (mu W : List (List K)) (α ds : List K)
    (h : delta mu W α = some ds) (i : Nat) (vi : List K) (hi : mu[i]? = some vi) :
    ∃ d, ds[i]? = some d ∧ (d = 0 ∨ ∃ vj ∈ mu, smallM vi vj W α = some d) ∧
      ∀ vj ∈ mu, ∃ m, smallM vi vj W α = some m ∧ m ≤ d := by
  obtain ⟨d, hd, hrow⟩ := forall₂_getElem? (delta_spec h) hi
  exact ⟨d, hd, deltaRow_spec hrow⟩

/-- **The suboptimality gap of a design.**  With attained cone constants `α` (as in `smallM_is_gap`)
and a value set of `D`-vectors, the `i`-th entry of `get_delta` is the greatest element of
`{0} ∪ {s ≥ 0 | ∃ design vj, ∀ u ∈ C, ‖u‖ ≤ 1 → (vj − vi) − s·u ∈ C}`: the largest `s` such that **some**
design dominates `vi` shifted by `s` along every unit direction of the cone (`0` if there is none). -/
theorem delta_is_gap (mu W : List (List K)) (α ds : List K) (D : Nat)
    (hmu : ∀ v ∈ mu, v.length = D) (hα : List.Forall₂ (IsAlpha W D) W α)
    (h : delta mu W α = some ds) (i : Nat) (vi : List K) (hi : mu[i]? = some vi) :
    ∃ d, ds[i]? = some d ∧
      IsGreatest {s : K | s = 0 ∨ (0 ≤ s ∧ ∃ vj ∈ mu, Shift W D (gsub vj vi) s)} d := by
  obtain ⟨d, hd, hmax, hub⟩ := delta_is_max mu W α ds h i vi hi
  have hvi : vi.length = D := hmu vi (List.mem_of_getElem? hi)
  obtain ⟨d', hd', hrow⟩ := forall₂_getElem? (delta_spec h) hi
  have hdd : d' = d := Option.some.inj (hd'.symm.trans hd)
  subst hdd
  have hd0 : 0 ≤ d' := deltaRow_nonneg hrow
  refine ⟨d', hd, ?_, ?_⟩
  · rcases hmax with h0 | ⟨vj, hvj, hsm⟩
    · exact Or.inl h0
    · have hg := (smallM_is_gap vi vj W α D d' hvi (hmu vj hvj) hα hsm).1
      rcases hg with h0 | ⟨h1, h2⟩
      · exact Or.inl h0
      · exact Or.inr ⟨h1, vj, hvj, h2⟩
  · rintro s (rfl | ⟨hs, vj, hvj, hshift⟩)
    · exact hd0
    · obtain ⟨m, hm, hle⟩ := hub vj hvj
      have hg := (smallM_is_gap vi vj W α D m hvi (hmu vj hvj) hα hm).2
      exact (hg (Or.inr ⟨hs, hshift⟩)).trans hle

/-- **What the code computes with the documented `(N,1)` `alpha_vec`** (`smallMB`, numpy broadcast of
`(N,) / (N,1)`): the minimum of the whole table `max(0, w_k·d) / α_n`.  It never exceeds the gap
`smallM`, … -/
theorem smallMB_le_smallM (vi vj : List K) (W : List (List K)) (α : List K) (B M : K)
    (hB : smallMB vi vj W α = some B) (hM : smallM vi vj W α = some M) : B ≤ M :=
  Eval.smallMB_le_smallM hB hM

/-- … equals it whenever all `α_n` coincide (which is why the defect is invisible for the orthant and
the symmetric bundled cones), … -/
theorem smallMB_eq_smallM_of_equal_alpha (vi vj : List K) (W : List (List K)) (α : List K)
    (B M a0 : K) (hB : smallMB vi vj W α = some B) (hM : smallM vi vj W α = some M)
    (hconst : ∀ a ∈ α, a = a0) : B = M :=
  Eval.smallMB_eq_smallM_of_const hB hM hconst

/-- … and is positive on exactly the same pairs (so `Δ_i = 0` is decided correctly either way). -/
theorem smallMB_pos_iff_smallM_pos (vi vj : List K) (W : List (List K)) (α : List K) (B M : K)
    (hα : ∀ a ∈ α, 0 < a) (hB : smallMB vi vj W α = some B) (hM : smallM vi vj W α = some M) :
    0 < B ↔ 0 < M := by
  rw [Eval.smallMB_pos_iff hB hα, smallM_pos_iff hM (pos_of_mem_zip hα)]

/-- the defect on a concrete input: `W = diag(1,2)` has `α = (1,2)`; gap `1`, broadcast value `1/2` -/
example : smallM (K := ℚ) [0,0] [1,6] [[1,0],[0,2]] [1,2] = some 1 ∧
    smallMB (K := ℚ) [0,0] [1,6] [[1,0],[0,2]] [1,2] = some (1/2) := by decide +kernel

/-- **What the driver evaluates is the real formula.**  The driver runs `smallM` over `ℚ` on the
exported floats; casting its answer into any ordered field `K` (ℝ) gives `smallM` evaluated over `K` on
the cast inputs — the same term `smallM_is_gap` speaks about — and one is defined iff the other is.
Likewise for the entries `Δ_i` of `get_delta`. -/
theorem smallM_cast_commutes (vi vj : Vec) (W : Mat) (α : Vec) :
    (smallM (K := Rat) vi vj W α).map (fun q : Rat => (q : K)) =
      smallM (castV vi) (castV vj) (castM W) (castV α) ∧
    ∀ mu : Mat, (deltaRow (K := Rat) vi mu W α).map (fun q : Rat => (q : K)) =
      deltaRow (castV vi) (castM mu) (castM W) (castV α) :=
  ⟨smallM_cast vi vj W α, fun mu => deltaRow_cast vi mu W α⟩

end Gap

section Cover
variable {K : Type} [Field K] [LinearOrder K] [IsStrictOrderedRing K]

/-- **KKT checker soundness.**  If `checkKKT D W b y lam` accepts (feasible `y`, `lam ≥ 0`,
`y = Σ lam_n w_n`, complementary slackness), then `y` is a point of the polyhedron `{z | W z ≥ b}` and
no point `z` of it — with entries in any ordered field, ℝ included — has smaller norm:
`‖y‖² ≤ ‖z‖²`. -/
theorem kkt_checker_sound (D : Nat) (W : Mat) (b y lam : Vec) (h : checkKKT D W b y lam = true) :
    FeasK (K := K) W b (castV y) ∧
    ∀ z : List K, z.length = D → FeasK W b z → ((gdot y y : Rat) : K) ≤ gdot z z :=
  checkKKT_sound D W b y lam h

/-- non-vacuity: the certificate of the acute-cone example below (`b = (3,0)`, both rows active) -/
example : checkKKT 2 [[2,-1],[-1,2]] [3,0] [2,1] [5/3,4/3] = true := by decide +kernel

/-- **Farkas checker soundness.**  If `checkFarkas D W b lam` accepts, `{z | W z ≥ b}` is empty. -/
theorem farkas_checker_sound (D : Nat) (W : Mat) (b lam : Vec) (h : checkFarkas D W b lam = true) :
    ¬ ∃ z : List K, z.length = D ∧ FeasK W b z :=
  checkFarkas_sound D W b lam h

/-- **ε-coverage is decided exactly.**  Whenever the model's `isCoveredPt vi vj ε W` returns a verdict
`b` (i.e. the untrusted search produced a certificate that the checker accepted) and `ε ≥ 0`, then
`b = true` if and only if some cone vector `z` with `‖z‖² ≤ ε²` added to `vj` dominates `vi`
(`vj + z − vi ∈ C`) — the quantifier ranging over vectors with entries in `K` (ℝ included). -/
theorem isCoveredPt_iff_covered (vi vj : Vec) (ε : Rat) (W : Mat) (b : Bool) (hε : 0 ≤ ε)
    (h : isCoveredPt vi vj ε W = some b) :
    b = true ↔ Covered (K := K) W vi vj (ε : K) := by
  unfold isCoveredPt at h
  cases hc : coverSolve vi vj W with
  | dist2 d2 y lam =>
    simp only [hc, Option.some.injEq] at h
    rw [covered_iff_of_dist2 hc, ← h]
    simp [hε]
  | infeasible lam =>
    simp only [hc, Option.some.injEq] at h
    subst h
    simp only [Bool.false_eq_true, false_iff]
    exact not_covered_of_infeasible hc _
  | unknown => simp [hc] at h

/-- non-vacuity: acute cone, `vi − vj = (1,−1)`: the certified squared distance is `5`
(`y = (2,1)`, multipliers `(5/3, 4/3)`), so `ε = 2` does not cover and `ε = 9/4` does; a cone with empty
interior gives a certified "infeasible" -/
example : isCoveredPt [1,0] [0,1] 2 [[2,-1],[-1,2]] = some false ∧
    isCoveredPt [1,0] [0,1] (9/4) [[2,-1],[-1,2]] = some true ∧
    isCoveredPt [1,0] [0,1] 100 [[1,0],[-1,0]] = some false := by decide +kernel

/-- The same with a genuine Euclidean norm over ℝ: `isCoveredPt = true` iff
`∃ z ∈ C, ‖z‖ ≤ ε ∧ vj + z − vi ∈ C`, with `‖z‖ = √(z·z)`. -/
theorem isCoveredPt_iff_norm (vi vj : Vec) (ε : Rat) (W : Mat) (b : Bool) (hε : 0 ≤ ε)
    (h : isCoveredPt vi vj ε W = some b) :
    b = true ↔ ∃ z : List ℝ, z.length = vi.length ∧ InCone (castM W) z ∧
      Real.sqrt (gdot z z) ≤ (ε : ℝ) ∧ InCone (castM W) (gsub (gadd (castV vj) z) (castV vi)) := by
  rw [isCoveredPt_iff_covered (K := ℝ) vi vj ε W b hε h]
  have hεR : (0 : ℝ) ≤ (ε : ℝ) := by exact_mod_cast hε
  unfold Covered
  constructor
  · rintro ⟨z, h1, h2, h3, h4⟩
    refine ⟨z, h1, h2, ?_, h4⟩
    rw [Real.sqrt_le_iff]; exact ⟨hεR, by rw [sq]; exact h3⟩
  · rintro ⟨z, h1, h2, h3, h4⟩
    refine ⟨z, h1, h2, ?_, h4⟩
    rw [Real.sqrt_le_iff, sq] at h3; exact h3.2

/-- The verdict (and whether there is one) comes from a squared distance that does not depend on
ε, so coverage is monotone in ε. -/
theorem isCoveredPt_monotone (vi vj : Vec) (W : Mat) (ε ε' : Rat) (h0 : 0 ≤ ε) (hle : ε ≤ ε')
    (h : isCoveredPt vi vj ε W = some true) : isCoveredPt vi vj ε' W = some true :=
  isCoveredPt_mono h0 hle h

/-- **ε = 0 is plain domination.**  With `ε = 0` a verdict of `isCoveredPt vi vj 0 W` is `true`
exactly when `vj` dominates `vi` in the sense of `PolyhedralConeOrder.dominates` (the Boolean
`dominates` of C12/C13). -/
theorem isCoveredPt_zero_iff_dominates (vi vj : Vec) (W : Mat) (b : Bool)
    (h : isCoveredPt vi vj 0 W = some b) : b = true ↔ dominates W vj vi = true := by
  have hlen : vj.length = vi.length := by
    unfold isCoveredPt at h
    cases hc : coverSolve vi vj W with
    | dist2 d2 y lam => exact (coverSolve_dist2 hc).1
    | infeasible lam => exact (coverSolve_infeasible hc).1
    | unknown => simp [hc] at h
  rw [isCoveredPt_iff_covered (K := Rat) vi vj 0 W b le_rfl h, dominates_iff (K := Rat)]
  simpa using covered_zero_iff (K := Rat) W vi vj hlen

/-- **`get_uncovered_set` / `get_uncovered_size`.**  When every coverage question has a verdict
`c i j`, the loop with its `break` returns exactly the members of `P` (in order, with repetitions) that
no member of `P̂` covers, and the size routine returns their number. -/
theorem uncoveredSet_spec {α β : Type} (cov : α → β → Option Bool) (c : α → β → Bool)
    (P : List α) (hat : List β) (h : ∀ i ∈ P, ∀ j ∈ hat, cov i j = some (c i j)) :
    uncoveredSet cov P hat = some (P.filter (fun i => !hat.any (c i))) ∧
    uncoveredSize cov P hat = some (P.filter (fun i => !hat.any (c i))).length := by
  have := uncoveredSet_total cov c P hat h
  exact ⟨this, by simp [uncoveredSize, this]⟩

end Cover

section F1

/-- **Range.**  Whatever gap vector is used (`f1` = geometric gaps, `f1B` = the code's present
broadcast gaps, both are `f1FromDelta` of some vector), a defined ε-F1 score lies in `[0, 1]`. -/
theorem f1_range (mu W : Mat) (ds : Option Vec) (truth pred : List Nat) (ε q : Rat)
    (h : f1FromDelta mu W ds truth pred ε = .val q) : 0 ≤ q ∧ q ≤ 1 := by
  cases ds with
  | none => simp [f1FromDelta] at h
  | some ds =>
    obtain ⟨c, _, hq⟩ := (f1FromDelta_val_iff mu W ds truth pred ε q).mp h
    exact f1Of_range hq

/-- non-vacuity / instance: the score of the code path (`f1B`) on a three-design example -/
example : f1B [[0,0],[1,3],[2,1]] [[1,0],[0,1]] [1,1] [1,2] [1] 0 = .val (2/3) ∧
    (0 : Rat) ≤ 2/3 ∧ (2/3 : Rat) ≤ 1 := by decide +kernel

/-- **Order of the predicted (and of the true) indices is irrelevant.**  Permuting `pred_indices` or
`true_indices` does not change the result (value, `nan`, or undecided alike). -/
theorem f1_perm (mu W : Mat) (ds : Vec) (truth truth' pred pred' : List Nat) (ε : Rat)
    (ht : CovTotal mu W ε truth pred) (hp : pred.Perm pred') (htr : truth.Perm truth') :
    f1FromDelta mu W (some ds) truth pred ε = f1FromDelta mu W (some ds) truth' pred' ε := by
  obtain ⟨c, hc, h1⟩ := f1FromDelta_total mu W ds truth pred ε ht
  have hc' : ∀ i ∈ truth', ∀ j ∈ pred', covIdx mu ε W i j = some (c i j) :=
    fun i hi j hj => hc i (htr.mem_iff.mpr hi) j (hp.mem_iff.mpr hj)
  have h2 := f1Counts_total (covIdx mu ε W) c (goodIdx ds ε) truth' pred' hc'
  unfold f1FromDelta
  simp only [h1, h2]
  rw [tpT_perm hp, hp.length_eq, uncT_perm_pred hp, uncT_perm_truth htr]

/-- **Never decreases as ε grows.**  For `0 ≤ ε ≤ ε'`, if the score at `ε` is the number `q` then the
score at `ε'` is a number `q' ≥ q` (true positives grow, uncovered missed designs shrink). -/
theorem f1_mono (mu W : Mat) (ds : Vec) (truth pred : List Nat) (ε ε' q : Rat)
    (h0 : 0 ≤ ε) (hle : ε ≤ ε') (ht : CovTotal mu W ε truth pred)
    (h : f1FromDelta mu W (some ds) truth pred ε = .val q) :
    ∃ q', f1FromDelta mu W (some ds) truth pred ε' = .val q' ∧ q ≤ q' := by
  have ht' : CovTotal mu W ε' truth pred := fun i hi j hj => by
    rw [← covIdx_isSome_indep mu W ε ε']; exact ht i hi j hj
  obtain ⟨c, hc, h1⟩ := f1FromDelta_total mu W ds truth pred ε ht
  obtain ⟨c', hc', h1'⟩ := f1FromDelta_total mu W ds truth pred ε' ht'
  obtain ⟨cc, hcc, hq⟩ := (f1FromDelta_val_iff mu W ds truth pred ε q).mp h
  rw [h1] at hcc
  obtain rfl := Option.some.inj hcc
  have htp : tpT (goodIdx ds ε) pred ≤ tpT (goodIdx ds ε') pred :=
    tpT_mono pred (fun k _ hk => goodIdx_mono hle hk)
  have hunc : uncT c' truth pred ≤ uncT c truth pred := by
    apply uncT_anti
    intro i hi j hj hcij
    have h1 : covIdx mu ε W i j = some true := by rw [hc i hi j hj, hcij]
    have h2 := covIdx_mono h0 hle h1
    rw [hc' i hi j hj] at h2
    exact Option.some.inj h2
  have htpn := tpT_le (goodIdx ds ε') pred
  -- the score at ε' is defined
  have hdef : ∃ q', f1Of (tpT (goodIdx ds ε') pred, pred.length - tpT (goodIdx ds ε') pred,
      uncT c' truth pred) = some q' := by
    rcases Nat.eq_zero_or_pos pred.length with hn | hn
    · have hnil : pred = [] := List.length_eq_zero_iff.mp hn
      subst hnil
      cases hnone : f1Of (tpT (goodIdx ds ε') [], ([] : List Nat).length - tpT (goodIdx ds ε') [],
          uncT c' truth []) with
      | some q' => exact ⟨q', rfl⟩
      | none =>
        exfalso
        have e1 : uncT c' truth [] = uncT c truth [] := by simp [uncT]
        have e2 : tpT (goodIdx ds ε') [] = tpT (goodIdx ds ε) [] := by simp [tpT]
        rw [e1, e2, hq] at hnone
        cases hnone
    · exact f1Of_isSome_of_pred_ne_nil hn _ _ htpn
  obtain ⟨q', hq'⟩ := hdef
  refine ⟨q', ?_, f1Of_mono htp htpn hunc hq hq'⟩
  exact (f1FromDelta_val_iff mu W ds truth pred ε' q').mpr ⟨_, h1', hq'⟩

/-- non-vacuity: designs `(0,0), (1,3), (2,1)`, true set `{1,2}`, prediction `[0,1]`: the score goes
`1/2 → 1` between `ε = 1/2` and `ε = 2` (design 0 becomes a true positive, design 2 gets covered) -/
example : CovTotal [[0,0],[1,3],[2,1]] [[1,0],[0,1]] (1/2) [1,2] [0,1] ∧
    f1 [[0,0],[1,3],[2,1]] [[1,0],[0,1]] [1,1] [1,2] [0,1] (1/2) = .val (1/2) ∧
    f1 [[0,0],[1,3],[2,1]] [[1,0],[0,1]] [1,1] [1,2] [0,1] 2 = .val 1 := by
  unfold CovTotal; decide +kernel

/-- **Exactly when the code's formula gives 1.**  The score is `1` iff the prediction is non-empty,
every predicted design has gap at most ε, and every true Pareto design that was not predicted is
ε-covered by a predicted one. -/
theorem f1_eq_one_iff (mu W : Mat) (ds : Vec) (truth pred : List Nat) (ε : Rat)
    (ht : CovTotal mu W ε truth pred) :
    f1FromDelta mu W (some ds) truth pred ε = .val 1 ↔
      pred ≠ [] ∧ (∀ k ∈ pred, goodIdx ds ε k = true) ∧
      ∀ i ∈ truth, i ∉ pred → ∃ j ∈ pred, covIdx mu ε W i j = some true := by
  obtain ⟨c, hc, h1⟩ := f1FromDelta_total mu W ds truth pred ε ht
  rw [f1FromDelta_val_iff]
  constructor
  · rintro ⟨cc, hcc, hq⟩
    rw [h1] at hcc
    obtain rfl := Option.some.inj hcc
    obtain ⟨hpos, hfp, hunc⟩ := (f1Of_eq_one_iff _).mp hq
    simp only at hpos hfp hunc
    refine ⟨?_, (fp_eq_zero_iff _ _).mp hfp, ?_⟩
    · rintro rfl; simp [tpT] at hpos
    · intro i hi hnp
      obtain ⟨j, hj, hcij⟩ := (uncT_eq_zero_iff c truth pred).mp hunc i hi hnp
      exact ⟨j, hj, by rw [hc i hi j hj, hcij]⟩
  · rintro ⟨hne, hgood, hcov⟩
    refine ⟨_, h1, (f1Of_eq_one_iff _).mpr ⟨?_, (fp_eq_zero_iff _ _).mpr hgood, ?_⟩⟩
    · have hfp := (fp_eq_zero_iff _ _).mpr hgood
      have hle := tpT_le (goodIdx ds ε) pred
      have : 0 < pred.length := List.length_pos_iff.mpr hne
      simp only
      omega
    · apply (uncT_eq_zero_iff c truth pred).mpr
      intro i hi hnp
      obtain ⟨j, hj, hcij⟩ := hcov i hi hnp
      refine ⟨j, hj, ?_⟩
      have := hc i hi j hj
      rw [hcij] at this
      exact (Option.some.inj this).symm

/-- **Score 1 on the true Pareto set.**  Let the gaps be those of the geometric definition
(`delta mu W α`, positive `α`, one per facet), `ε ≥ 0`, and let the non-empty prediction contain every
true index and consist only of designs that no design dominates in the interior of the cone (in
particular: the prediction *is* the true Pareto set, in any order).  Then
`calculate_epsilonF1_score` is `1`. -/
theorem f1_true_pareto_set (mu W : Mat) (α : Vec) (truth pred : List Nat) (ε : Rat)
    (hε : 0 ≤ ε) (hα : ∀ a ∈ α, 0 < a) (hlen : α.length = W.length) (hW : W ≠ [])
    (hne : pred ≠ []) (hsub : ∀ i ∈ truth, i ∈ pred)
    (hpar : ∀ k ∈ pred, ∃ vk, mu[k]? = some vk ∧ ∀ vj ∈ mu, ¬ InInterior W (gsub vj vk)) :
    f1 mu W α truth pred ε = .val 1 := by
  obtain ⟨ds, hds⟩ : ∃ ds, delta mu W α = some ds :=
    deltaWith_isSome (K := Rat) _ mu (fun vi vj => smallM_isSome vi vj W α hlen hW)
  have hgood : ∀ k ∈ pred, goodIdx ds ε k = true := by
    intro k hk
    obtain ⟨vk, hvk, hno⟩ := hpar k hk
    obtain ⟨d, hd, _, hz⟩ := delta_zero_iff (K := Rat) mu W α ds hα hds k vk hvk
    have : d = 0 := hz.mpr hno
    subst this
    simp [goodIdx, hd, hε]
  unfold f1
  rw [hds]
  exact f1FromDelta_true_set mu W ds truth pred ε hne hsub hgood

/-- non-vacuity: the true Pareto set `{1,2}` of `(0,0), (1,3), (2,1)` predicted in the other order -/
example : f1 [[0,0],[1,3],[2,1]] [[1,0],[0,1]] [1,1] [1,2] [2,1] 0 = .val 1 := by
  apply f1_true_pareto_set _ _ _ _ _ _ le_rfl (by decide) rfl (by decide) (by decide) (by decide)
  intro k hk
  simp only [List.mem_cons, List.not_mem_nil, or_false] at hk
  rcases hk with rfl | rfl
  · refine ⟨[2,1], rfl, ?_⟩; unfold InInterior; decide +kernel
  · refine ⟨[1,3], rfl, ?_⟩; unfold InInterior; decide +kernel

/-- **Score 1 when the prediction is the true Pareto set**, stated with Pareto optimality itself: if
the non-empty prediction contains every true index and each predicted design is not strictly dominated
in the value set (`vj ≽ vk → vk ≽ vj` for the Boolean `dominates` — exactly what C13's `fast_spec` proves
for every index returned by `get_pareto_set`), then the ε-F1 score is `1` for every `ε ≥ 0`. -/
theorem f1_of_pareto_prediction (mu W : Mat) (α : Vec) (truth pred : List Nat) (ε : Rat) (D : Nat)
    (hε : 0 ≤ ε) (hα : ∀ a ∈ α, 0 < a) (hlen : α.length = W.length) (hW : W ≠ [])
    (hD : ∀ v ∈ mu, v.length = D) (hne : pred ≠ []) (hsub : ∀ i ∈ truth, i ∈ pred)
    (hpar : ∀ k ∈ pred, ∃ vk, mu[k]? = some vk ∧
      ∀ vj ∈ mu, dominates W vj vk = true → dominates W vk vj = true) :
    f1 mu W α truth pred ε = .val 1 := by
  apply f1_true_pareto_set mu W α truth pred ε hε hα hlen hW hne hsub
  intro k hk
  obtain ⟨vk, hvk, hnd⟩ := hpar k hk
  refine ⟨vk, hvk, fun vj hvj => ?_⟩
  have hl : vj.length = vk.length := by
    rw [hD vj hvj, hD vk (List.mem_of_getElem? hvk)]
  exact not_interior_of_not_strictly_dominated W hW vk vj hl (hnd vj hvj)

/-- non-vacuity: the Pareto set `[0,1,4]` that C13's example computes for the six-point set, under the
componentwise order, predicted in another order -/
example : f1 [[1,2],[2,1],[0,0],[2,1],[3,0],[1,1]] (identMat 2) [1,1] [0,1,4] [4,0,1] 0 = .val 1 := by
  decide +kernel

/-- The same law for the score **as the code computes it today** (`f1B`: gaps through the
broadcast `(N,1)` column): the broadcast gaps vanish on exactly the same designs, so the defect
`gap-alpha-broadcast` does not affect the value on the true Pareto set. -/
theorem f1B_true_pareto_set (mu W : Mat) (α : Vec) (truth pred : List Nat) (ε : Rat)
    (hε : 0 ≤ ε) (hα : ∀ a ∈ α, 0 < a) (hlen : α.length = W.length) (hW : W ≠ [])
    (hne : pred ≠ []) (hsub : ∀ i ∈ truth, i ∈ pred)
    (hpar : ∀ k ∈ pred, ∃ vk, mu[k]? = some vk ∧ ∀ vj ∈ mu, ¬ InInterior W (gsub vj vk)) :
    f1B mu W α truth pred ε = .val 1 := by
  obtain ⟨ds, hds⟩ : ∃ ds, deltaB mu W α = some ds :=
    deltaWith_isSome (K := Rat) _ mu (fun vi vj => smallMB_isSome vi vj W α hlen hW)
  have hgood : ∀ k ∈ pred, goodIdx ds ε k = true := by
    intro k hk
    obtain ⟨vk, hvk, hno⟩ := hpar k hk
    obtain ⟨d, hd, hrow⟩ := forall₂_getElem? (deltaB_spec (K := Rat) hds) hvk
    have hz := deltaRowWith_eq_zero_iff (K := Rat) _ W
      (fun vj m hm => smallMB_pos_iff hm hα) hrow
    have : d = 0 := hz.mpr hno
    subst this
    simp [goodIdx, hd, hε]
  unfold f1B
  rw [hds]
  exact f1FromDelta_true_set mu W ds truth pred ε hne hsub hgood

end F1

section Hypervolume
open MeasureTheory
variable {n m : Nat}

/-- **Hypervolume is monotone** (mathematical hypervolume `HV(S) = volume (⋃_{p∈S} [ref, W p])`, Lebesgue
measure on `ℝⁿ`; botorch's implementation is compared with it in the harness). -/
theorem hv_mono (W : Matrix (Fin n) (Fin m) ℝ) (ref : Fin n → ℝ) {S T : Set (Fin m → ℝ)}
    (h : S ⊆ T) : HV W ref S ≤ HV W ref T :=
  hv_mono' W ref h

/-- **A covering front has the hypervolume of the whole sample** (`HV(ParetoSet S) = HV(S)`): if
`P ⊆ S` and every point of `S` is dominated (in the cone order) by a point of `P` — which C13 proves
for the extracted Pareto set — the two dominated regions coincide. -/
theorem hv_front_eq (W : Matrix (Fin n) (Fin m) ℝ) (ref : Fin n → ℝ) {P S : Set (Fin m → ℝ)}
    (hPS : P ⊆ S) (hcov : ∀ p ∈ S, ∃ q ∈ P, ConeDom W q p) : HV W ref P = HV W ref S := by
  unfold HV; rw [hvRegion_eq_of_cover W ref hPS hcov]

/-- **The true front's hypervolume is never smaller than that of any predicted subset** of the same
evaluated sample `S` (in particular of the front of the predicted values, which the code evaluates at
the *true* values of the predicted indices). -/
theorem hv_true_front_ge (W : Matrix (Fin n) (Fin m) ℝ) (ref : Fin n → ℝ) {P Q S : Set (Fin m → ℝ)}
    (hPS : P ⊆ S) (hcov : ∀ p ∈ S, ∃ q ∈ P, ConeDom W q p) (hQ : Q ⊆ S) :
    HV W ref Q ≤ HV W ref P := by
  rw [hv_front_eq W ref hPS hcov]; exact hv_mono W ref hQ

end Hypervolume

end VOPy.C19

/-! # INVARIANCE — gaps, coverage and ε-F1 depend on differences only

The statements behind the metamorphic checks of the harness ("translated inputs give bit-identical
gaps / scores", large-offset families): every quantity of this property is a function of the
*differences* `μ_j − μ_i`.  Gap statements are over any linearly ordered field `K` (the same terms the
driver runs at `ℚ`); coverage and F1 over `ℚ`.  `gadd a t = a + t`, `gscale c a = c·a` entrywise; the
length hypotheses are the ones under which `zipWith` does not truncate. -/
namespace VOPy.C19
open VOPy VOPy.Eval

section GapInvariance
variable {K : Type} [Field K] [LinearOrder K] [IsStrictOrderedRing K]

/-- **Gaps are translation invariant.**  For value vectors of the length of `t`: `m(i,j)` (both the
flat-`α` form `smallM` and the broadcast form `smallMB` the code evaluates today) and the whole gap
vector `get_delta` (both forms) are unchanged when every value vector is translated by `t`. -/
theorem gap_translate (mu W : List (List K)) (α t : List K) (h : ∀ v ∈ mu, v.length = t.length) :
    (∀ vi ∈ mu, ∀ vj ∈ mu, smallM (gadd vi t) (gadd vj t) W α = smallM vi vj W α ∧
      smallMB (gadd vi t) (gadd vj t) W α = smallMB vi vj W α) ∧
    delta (mu.map (fun v => gadd v t)) W α = delta mu W α ∧
    deltaB (mu.map (fun v => gadd v t)) W α = deltaB mu W α :=
  ⟨fun vi hi vj hj => ⟨smallM_translate vi vj t W α (h vi hi) (h vj hj),
      smallMB_translate vi vj t W α (h vi hi) (h vj hj)⟩,
   deltaWith_map _ _ (fun v => gadd v t) mu
      (fun vi hi vj hj => smallM_translate vi vj t W α (h vi hi) (h vj hj)),
   deltaWith_map _ _ (fun v => gadd v t) mu
      (fun vi hi vj hj => smallMB_translate vi vj t W α (h vi hi) (h vj hj))⟩

/-- **Gaps are positively homogeneous**: `m(c·μ_i, c·μ_j) = c·m(μ_i, μ_j)` and
`Δ(c·μ) = c·Δ(μ)` for `c > 0` (no hypothesis on lengths; an undefined gap stays undefined). -/
theorem gap_homogeneous (c : K) (hc : 0 < c) (mu W : List (List K)) (α : List K) :
    (∀ vi vj, smallM (gscale c vi) (gscale c vj) W α = (smallM vi vj W α).map (c * ·) ∧
      smallMB (gscale c vi) (gscale c vj) W α = (smallMB vi vj W α).map (c * ·)) ∧
    delta (mu.map (gscale c)) W α = (delta mu W α).map (List.map (c * ·)) ∧
    deltaB (mu.map (gscale c)) W α = (deltaB mu W α).map (List.map (c * ·)) :=
  ⟨fun vi vj => ⟨smallM_gscale c hc vi vj W α, smallMB_gscale c hc vi vj W α⟩,
   deltaWith_gscale c hc _ _ mu (fun vi _ vj _ => smallM_gscale c hc vi vj W α),
   deltaWith_gscale c hc _ _ mu (fun vi _ vj _ => smallMB_gscale c hc vi vj W α)⟩

/-- **Gaps do not depend on the presentation of the cone.**  Multiplying row `n` of `W` and `α_n` by the
same factor `c_n > 0` (one per facet) changes neither `m(i,j)` nor `Δ` (flat-`α` form), and this is
the scaling the cone constants obey: if `α_n` is the attained maximum of `w_n·u` over the unit vectors
of the cone (`IsAlpha`), then `c·α_n` is that of `c·w_n` for the rescaled presentation of the *same*
cone — together with `smallM_is_gap` the geometric meaning is preserved.  (The broadcast form
`smallMB` divides by the largest `α` and does *not* have this invariance.) -/
theorem gap_rowScale (cs : List K) (mu W : List (List K)) (α : List K) (D : Nat)
    (h1 : cs.length = W.length) (h2 : α.length = W.length) (hp : ∀ c ∈ cs, 0 < c) :
    (∀ vi vj, smallM vi vj (rowScaleK cs W) (List.zipWith (· * ·) cs α) = smallM vi vj W α) ∧
    delta mu (rowScaleK cs W) (List.zipWith (· * ·) cs α) = delta mu W α ∧
    (∀ w a c, 0 < c → IsAlpha W D w a → IsAlpha (rowScaleK cs W) D (gscale c w) (c * a)) := by
  refine ⟨fun vi vj => smallM_rowScale cs vi vj W α h1 h2 hp, ?_,
    fun w a c hc h => isAlpha_rowScale cs W D w a c h1 hp hc h⟩
  have : (fun a b => smallM a b (rowScaleK cs W) (List.zipWith (· * ·) cs α)) =
      fun a b => smallM a b W α := by
    funext a b; exact smallM_rowScale cs a b W α h1 h2 hp
  simp only [delta, this]

end GapInvariance

/-- the broadcast form is not invariant under rescaling one facet together with its `α`: orthant of
`ℚ²`, `μ_j − μ_i = (1, 3)`; with rows and `α` as they are the value is `1`, after multiplying facet 1
and `α_1` by `4` it is `1/4` (while the flat form stays `1`) -/
example :
    smallMB (K := ℚ) [0, 0] [1, 3] [[1, 0], [0, 1]] [1, 1] = some 1 ∧
    smallMB (K := ℚ) [0, 0] [1, 3] (rowScaleK [1, 4] [[1, 0], [0, 1]]) (List.zipWith (· * ·) [1, 4] [1, 1])
      = some (1/4) ∧
    smallM (K := ℚ) [0, 0] [1, 3] (rowScaleK [1, 4] [[1, 0], [0, 1]]) (List.zipWith (· * ·) [1, 4] [1, 1])
      = some 1 := by
  decide +kernel

/-- non-vacuity: three value vectors with gaps of size `2^-10` next to the offset `(2^20, −2^20)`: the
gap vector is the same before and after translation, and scales with `2^20` -/
example :
    delta (K := ℚ) [[0, 0], [1/1024, 3/1024], [2/1024, 1/1024]] [[1, 0], [0, 1]] [1, 1]
      = some [1/1024, 0, 0] ∧
    delta (K := ℚ) ([[0, 0], [1/1024, 3/1024], [2/1024, 1/1024]].map (fun v => gadd v [1048576, -1048576]))
      [[1, 0], [0, 1]] [1, 1] = some [1/1024, 0, 0] ∧
    delta (K := ℚ) ([[0, 0], [1/1024, 3/1024], [2/1024, 1/1024]].map (gscale 1048576))
      [[1, 0], [0, 1]] [1, 1] = some [1024, 0, 0] := by
  decide +kernel

/-! ### coverage and ε-F1 (over `ℚ`) -/

/-- **ε-coverage is translation invariant and invariant under a common positive scaling of the points
and `ε`** — as an equality of the certified answers, the outcome "no certificate" included. -/
theorem isCoveredPt_invariant (vi vj t : Vec) (ε c : Rat) (W : Mat) (hc : 0 < c)
    (hi : vi.length = t.length) (hj : vj.length = t.length) :
    isCoveredPt (vadd vi t) (vadd vj t) ε W = isCoveredPt vi vj ε W ∧
    isCoveredPt (smul c vi) (smul c vj) (c * ε) W = isCoveredPt vi vj ε W :=
  ⟨isCoveredPt_translate vi vj t ε W hi hj, isCoveredPt_smul c hc vi vj ε W⟩

/-- **ε-F1 is translation invariant**: for value vectors of the length of `t`, the score — with the
gaps of the geometric definition (`f1`) and as the code computes them today (`f1B`) — is the same
`F1Res` (value, `nan`, `unknown`, `ValueError`) for `μ` and for `μ + t`. -/
theorem f1_translate_invariant (mu W : Mat) (α t : Vec) (truth pred : List Nat) (ε : Rat)
    (h : ∀ v ∈ mu, v.length = t.length) :
    f1 (mu.map (fun v => vadd v t)) W α truth pred ε = f1 mu W α truth pred ε ∧
    f1B (mu.map (fun v => vadd v t)) W α truth pred ε = f1B mu W α truth pred ε :=
  f1_translate mu W α t truth pred ε h

/-- **ε-F1 is invariant under scaling the values and `ε` together** by `c > 0` (the certified
projection search is equivariant: linear solves scale, the KKT / Farkas checkers accept exactly the
scaled certificates). -/
theorem f1_scale_invariant (c : Rat) (hc : 0 < c) (mu W : Mat) (α : Vec) (truth pred : List Nat)
    (ε : Rat) :
    f1 (mu.map (smul c)) W α truth pred (c * ε) = f1 mu W α truth pred ε ∧
    f1B (mu.map (smul c)) W α truth pred (c * ε) = f1B mu W α truth pred ε :=
  f1_smul c hc mu W α truth pred ε

/-- non-vacuity: four designs with gaps of size `2^-10`, `ε = 2^-12`, prediction `{1, 3}` against the
truth `{1, 2}` (one hit, one design with gap `2^-11 > ε`, one uncovered miss): the score is `1/2`, also
next to the offset `(2^20, −2^20)` and after scaling values and `ε` by `2^20` -/
example :
    f1 [[0, 0], [1/1024, 3/1024], [3/1024, 1/1024], [1/2048, 5/2048]] [[1, 0], [0, 1]] [1, 1]
      [1, 2] [1, 3] (1/4096) = .val (1/2) ∧
    f1 ([[0, 0], [1/1024, 3/1024], [3/1024, 1/1024], [1/2048, 5/2048]].map
        (fun v => vadd v [1048576, -1048576])) [[1, 0], [0, 1]] [1, 1] [1, 2] [1, 3] (1/4096) = .val (1/2) ∧
    f1 ([[0, 0], [1/1024, 3/1024], [3/1024, 1/1024], [1/2048, 5/2048]].map (smul 1048576))
      [[1, 0], [0, 1]] [1, 1] [1, 2] [1, 3] (1048576 * (1/4096)) = .val (1/2) := by
  decide +kernel

section HypervolumeInvariance
open MeasureTheory
variable {n m : Nat}

/-- **Translation law of the hypervolume.**  Translating every point by `t` and the reference point by
`W t` leaves `HV` unchanged.  The code takes `ref = min_p W p` over the evaluated sample, which moves by
exactly `W t` when the sample is translated by `t`: with its data-dependent reference point the
hypervolume (hence the discrepancy) is translation invariant; with a *fixed* reference point it is not. -/
theorem hv_translate (W : Matrix (Fin n) (Fin m) ℝ) (ref : Fin n → ℝ) (S : Set (Fin m → ℝ))
    (t : Fin m → ℝ) :
    HV W (W.mulVec t + ref) ((fun p => t + p) '' S) = HV W ref S :=
  hv_translate' W ref S t

end HypervolumeInvariance

end VOPy.C19
