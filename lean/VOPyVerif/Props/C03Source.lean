import VOPyVerif.Props.C03
import VOPyVerif.Proofs.GenAgreePhases
/-!
# C03 — SOURCE AGREEMENT obligations (second tie between model and code, DESIGN §2.10)

Property theorems only, same namespace `VOPy.C03` as `Props/C03.lean` (whose theorems are about the
hand-written model and do not depend on anything generated).  The theorems here say that the model's
definitions are the ones regenerated from the current Python source text (`Gen/Phases.lean`, written by
`harness/translate*.py` on every `./check C03`; agreement lemmas in `Proofs/GenAgreePhases.lean`).  They live in
their own module so that a source edit the translator reads differently (or cannot read) makes exactly the
affected obligations fail — `harness/leanbuild.py` builds this module separately and, if it does not build,
attributes the failure per theorem — while the model theorems of `Props/C03.lean` stay discharged.
-/
namespace VOPy.C03
open VOPy VOPy.Steps

/-! ## SOURCE AGREEMENT — the P-update phases and the rounds are the definitions read off the source

Second tie between model and code (DESIGN §2.10.2), beside the behavioural comparison of the
harness: `harness/translate_phases.py` regenerates `Gen/Phases.lean` from the *source text* of the
phase methods on every `./check` (Python `ast`; nothing executed; each algorithm file separately):
the loops `for pt in X: … for pt_prime in A: [if pt_prime == pt: continue] … if ORACLE(order, R_a, R_b,
slack): … break [else: …]`, the accumulators, `S.remove` / `P.add`, set unions / differences are read
into list combinators, tracking which design each `*_conf` local denotes, which sets are scanned and
changed, the polarity (`break` vs `for … else`) and the slack expression (a symbolic `Slack` tag
indexing the oracle family).  Every generated definition takes all oracles and all state sets and
returns the whole new state.  The theorems below (proved in `Proofs/GenAgreePhases.lean`, re-checked
against the regenerated file on every run) hold **for all oracles and all lists**. -/

section SourceAgreement
open VOPy.Gen.Phases VOPy.GenAgree.Phases
variable (isDom isCov : Slack → Rel) (pessDom : Rel)

/-- `pareto_updating()` as written in `paveba.py`, `paveba_gp.py`, `paveba_partial_gp.py`: the new
state is `pavebaPareto isCov S P U` with `U` unchanged — scan over `S`, possible coverers from
`S ∪ U`, self-comparison skipped, `for … else` polarity (a design moves iff NO coverer is found),
oracle `confidence_region_is_covered(order, R_pt, R_pt', cone_alpha * epsilon)`, `S.remove` and
`P.add` of the same designs (`rfl`). -/
theorem source_paveba_pareto_updating (S P U : List Nat) :
    gen_paveba_pareto_updating isDom isCov pessDom S P U
      = ((pavebaPareto (isCov alphaEps) S P U).1, (pavebaPareto (isCov alphaEps) S P U).2, U) ∧
    gen_pavebagp_pareto_updating isDom isCov pessDom S P U
      = ((pavebaPareto (isCov alphaEps) S P U).1, (pavebaPareto (isCov alphaEps) S P U).2, U) ∧
    gen_partialgp_pareto_updating isDom isCov pessDom S P U
      = ((pavebaPareto (isCov alphaEps) S P U).1, (pavebaPareto (isCov alphaEps) S P U).2, U) :=
  ⟨gen_paveba_pareto_updating_eq .., gen_pavebagp_pareto_updating_eq ..,
    gen_partialgp_pareto_updating_eq ..⟩

/-- `useful_updating()` as written in the three PaVeBa files: the new state is
`(S, P, pavebaUseful isCov S P)` — `U` rebuilt from scratch, scan over `P`, witnesses from `S`, no
self-comparison guard, oracle arguments `(R_pt', R_pt)` i.e. "the `S`-design is covered by the
`P`-design" (`rfl`). -/
theorem source_paveba_useful_updating (S P U : List Nat) :
    gen_paveba_useful_updating isDom isCov pessDom S P U = (S, P, pavebaUseful (isCov alphaEps) S P) ∧
    gen_pavebagp_useful_updating isDom isCov pessDom S P U = (S, P, pavebaUseful (isCov alphaEps) S P) ∧
    gen_partialgp_useful_updating isDom isCov pessDom S P U = (S, P, pavebaUseful (isCov alphaEps) S P) :=
  ⟨gen_paveba_useful_updating_eq .., gen_pavebagp_useful_updating_eq ..,
    gen_partialgp_useful_updating_eq ..⟩

/-- `epsiloncovering()` as written in `vogp.py` (slack `u_star * epsilon`) and `epal.py` (slack
`epsilon`) = `epsilonCovering`: scan over `S`, coverers from `S ∪ P`, `for … else` polarity (`rfl`). -/
theorem source_epsiloncovering (S P : List Nat) :
    gen_vogp_epsiloncovering isDom isCov pessDom S P = epsilonCovering (isCov uStarEps) S P ∧
    gen_epal_epsiloncovering isDom isCov pessDom S P = epsilonCovering (isCov Slack.eps) S P :=
  ⟨gen_vogp_epsiloncovering_eq .., gen_epal_epsiloncovering_eq ..⟩

/-- `VOGP_AD.epsiloncovering()` as written in `vogp_ad.py` = `epsilonCoveringAD`: the latch, the gate
"every design of `S` is at the maximum depth" (source: nested `if` / `for … return … else`; model:
one conjunction — case split), the latch set once the gate opens, then the ordinary ε-covering. -/
theorem source_epsiloncovering_ad (depth : Nat → Nat) (maxDepth : Nat) (enabled : Bool) (S P : List Nat) :
    gen_vogpad_epsiloncovering isDom isCov pessDom depth maxDepth enabled S P
      = epsilonCoveringAD (isCov uStarEps) depth maxDepth enabled S P :=
  gen_vogpad_epsiloncovering_eq ..

/-- `Auer.pareto_updating()` and `Auer.big_m` as written in `auer.py`: `M(i,j) = max(0, max(i + ε − j))`
and the new state is `auerPareto eps centre width S P` — both stages (`P1`, then the hold-back scan
over the designs outside `P1`), every width looked up by design (list lemmas). -/
theorem source_auer_pareto_updating (eps : Rat) (centre width : Nat → Vec) (S P : List Nat) (ci cj : Vec) :
    gen_auer_big_m eps ci cj = bigM eps ci cj ∧
    gen_auer_pareto_updating eps centre width S P = auerPareto eps centre width S P :=
  ⟨gen_auer_big_m_eq .., gen_auer_pareto_updating_eq ..⟩

/-- **One round, as `run_one_step` composes the phases in the source** = the model's `…Round` for all
seven algorithms (PaVeBa family: discarding, pareto_updating, useful_updating; VOGP / ε-PAL /
VOGP_AD: discarding, epsiloncovering; Auer: discarding, pareto_updating). -/
theorem source_rounds (depth : Nat → Nat) (maxDepth : Nat) (enabled : Bool) (eps : Rat)
    (centre width : Nat → Vec) (S P U : List Nat) :
    gen_paveba_round isDom isCov pessDom S P U = pavebaRound (isDom zeroSlack) (isCov alphaEps) S P U ∧
    gen_pavebagp_round isDom isCov pessDom S P U = pavebaRound (isDom zeroSlack) (isCov alphaEps) S P U ∧
    gen_partialgp_round isDom isCov pessDom S P U = pavebaRound (isDom zeroSlack) (isCov alphaEps) S P U ∧
    gen_vogp_round isDom isCov pessDom S P = vogpRound (isDom uStarEps) (isCov uStarEps) pessDom S P ∧
    gen_epal_round isDom isCov pessDom S P = vogpRound (isDom Slack.eps) (isCov Slack.eps) pessDom S P ∧
    gen_vogpad_round isDom isCov pessDom depth maxDepth enabled S P
      = vogpADRound (isDom uStarEps) (isCov uStarEps) pessDom depth maxDepth enabled S P ∧
    gen_auer_round eps centre width S P = auerRound eps centre width S P :=
  ⟨gen_paveba_round_eq .., gen_pavebagp_round_eq .., gen_partialgp_round_eq .., gen_vogp_round_eq ..,
    gen_epal_round_eq .., gen_vogpad_round_eq .., gen_auer_round_eq ..⟩

/-- The sequence of method calls of `run_one_step` in each file (entry guard, calls in program order,
`?` = under `if self.S:`, returned condition): the PaVeBa family and Auer sample and model *before*
deciding, VOGP / ε-PAL / VOGP_AD model, decide, then sample. -/
theorem source_step_order :
    gen_paveba_stepOrder = ["stop if: len(self.S) == 0", "evaluating", "modeling", "discarding",
      "pareto_updating", "useful_updating", "done: len(self.S) == 0"] ∧
    gen_pavebagp_stepOrder = gen_paveba_stepOrder ∧
    gen_partialgp_stepOrder = ["stop if: len(self.S) == 0 or self.total_cost >= self.cost_budget",
      "evaluating", "modeling", "discarding", "pareto_updating", "useful_updating",
      "done: len(self.S) == 0 or self.total_cost >= self.cost_budget"] ∧
    gen_vogp_stepOrder = ["stop if: len(self.S) == 0", "modeling", "discarding", "epsiloncovering",
      "evaluating?", "done: len(self.S) == 0"] ∧
    gen_epal_stepOrder = gen_vogp_stepOrder ∧
    gen_vogpad_stepOrder = ["stop if: len(self.S) == 0", "compute_beta", "modeling", "discarding",
      "epsiloncovering", "evaluate_refine?", "done: len(self.S) == 0"] ∧
    gen_auer_stepOrder = ["stop if: len(self.S) == 0", "evaluating", "modeling", "discarding",
      "pareto_updating", "done: len(self.S) == 0"] :=
  ⟨gen_paveba_stepOrder_eq, gen_pavebagp_stepOrder_eq.trans gen_paveba_stepOrder_eq.symm,
    gen_partialgp_stepOrder_eq, gen_vogp_stepOrder_eq,
    gen_epal_stepOrder_eq.trans gen_vogp_stepOrder_eq.symm, gen_vogpad_stepOrder_eq,
    gen_auer_stepOrder_eq⟩

end SourceAgreement

end VOPy.C03
