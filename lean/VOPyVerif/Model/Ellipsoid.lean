import VOPyVerif.Model.Basic
/-!
# Ellipsoidal confidence regions (`vopy/confidence_region.py`), import-free model

An ellipsoid is `(c, S, a)` = (`center`, `sigma`, `alpha`): the set
`{z | ‖S^{-1/2}(z − c)‖ ≤ a}` = `{c + a·L u | ‖u‖ ≤ 1}` for any `L` with `L Lᵀ = S`.

`EllipsoidalConfidenceRegion.is_dominated` minimises, for each facet `w_n` of the cone, the linear
functional `w_n·(z' − z)` over `z ∈ E₁, z' ∈ E₂` with an SOCP solver and answers `False` as soon as
the minimum is `< −slack_n`.  The minimum has the closed form

  `w·(c₂ − c₁) − a₁ √(wᵀS₁w) − a₂ √(wᵀS₂w)`

and the comparison `p − √b − √c ≥ d` between rationals is decided exactly by `sqrtIneq`
(case analysis and squaring; no square root is ever computed).

* `sqrtIneq p b c d`      — decides `p − √b − √c ≥ d` (intended for `b, c ≥ 0`).
* `quadForm S w`          — `wᵀ S w`.
* `facetOk w c1 S1 a1 c2 S2 a2 d` — `w·(c₂−c₁) − a₁√(wᵀS₁w) − a₂√(wᵀS₂w) ≥ d` (for `a₁, a₂ ≥ 0`).
* `expandSlack N s`       — the guard of `is_dominated`: a slack of size 1 is repeated for each of
  the `N` facets, a slack of size `N` is used as is, anything else is the `ValueError` (`none`).
* `isDominated W c1 S1 a1 c2 S2 a2 s` — the loop over facets (slack already an `N`-vector).
  A negative `alpha` makes the region empty (the solver reports `inf`, which is never `< −slack`),
  so the code answers `True`; the model does the same.
* `isDominatedChecked` — guard + loop.
* `isDominatedTol … t` — same with every facet threshold moved from `−s_n` to `−s_n + t`
  (borderline band of the harness; `t = 0` is `isDominated`).
-/
namespace VOPy.Ellipsoid

/-- Decides `p − √b − √c ≥ d` for rationals (`b, c ≥ 0`): with `r = p − d` the claim is
`√b + √c ≤ r`; false if `r < 0`; otherwise square: `2√(bc) ≤ r² − b − c =: q`; false if `q < 0`;
otherwise square again: `4bc ≤ q²`. -/
def sqrtIneq (p b c d : Rat) : Bool :=
  let r := p - d
  if r < 0 then false
  else
    let q := r * r - b - c
    if q < 0 then false
    else decide (4 * b * c ≤ q * q)

/-- `wᵀ S w` -/
def quadForm (S : Mat) (w : Vec) : Rat := dot w (matVec S w)

/-- closed-form facet test `w·(c₂−c₁) − a₁√(wᵀS₁w) − a₂√(wᵀS₂w) ≥ d` (uses `a√x = √(a²x)`, `a ≥ 0`) -/
def facetOk (w c1 : Vec) (S1 : Mat) (a1 : Rat) (c2 : Vec) (S2 : Mat) (a2 : Rat) (d : Rat) : Bool :=
  sqrtIneq (dot w (vsub c2 c1)) (a1 * a1 * quadForm S1 w) (a2 * a2 * quadForm S2 w) d

/-- Slack guard of `EllipsoidalConfidenceRegion.is_dominated` for a cone with `N` facets;
`none` is the `ValueError`. -/
def expandSlack (N : Nat) (s : Vec) : Option Vec :=
  match s with
  | [x] => some (List.replicate N x)
  | _ => if s.length = N then some s else none

/-- facet loop with thresholds `−s_n + t` -/
def isDominatedTol (W : Mat) (c1 : Vec) (S1 : Mat) (a1 : Rat) (c2 : Vec) (S2 : Mat) (a2 : Rat)
    (s : Vec) (t : Rat) : Bool :=
  if a1 < 0 || a2 < 0 then true
  else (W.zip s).all fun (w, sn) => facetOk w c1 S1 a1 c2 S2 a2 (-sn + t)

/-- `EllipsoidalConfidenceRegion.is_dominated` after the guard (slack `s` has one entry per facet):
every facet must satisfy `min_{z∈E₁, z'∈E₂} w_n·(z' − z) ≥ −s_n`. -/
def isDominated (W : Mat) (c1 : Vec) (S1 : Mat) (a1 : Rat) (c2 : Vec) (S2 : Mat) (a2 : Rat)
    (s : Vec) : Bool :=
  if a1 < 0 || a2 < 0 then true
  else (W.zip s).all fun (w, sn) => facetOk w c1 S1 a1 c2 S2 a2 (-sn)

/-- guard + loop; `none` = `ValueError` -/
def isDominatedChecked (W : Mat) (c1 : Vec) (S1 : Mat) (a1 : Rat) (c2 : Vec) (S2 : Mat) (a2 : Rat)
    (s : Vec) : Option Bool :=
  (expandSlack W.length s).map (isDominated W c1 S1 a1 c2 S2 a2)

end VOPy.Ellipsoid
