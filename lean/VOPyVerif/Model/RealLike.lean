/-!
# `RealLike`: one formula term, two carriers (import-free)

Closed-form formulas of VOPy (confidence schedules, NaiveElimination's sample count, cone
constructions) are written once, polymorphically over this class.  The drivers instantiate them at
`Float` (to compare with the Python floats at 1e-9); the theorems instantiate *the same term* at `ℝ`
(instance in `Proofs/RealInst.lean`).  Float rounding is not modelled.
-/
namespace VOPy

class RealLike (α : Type) extends Add α, Sub α, Mul α, Div α, Neg α where
  ofNat : Nat → α
  sqrt : α → α
  log : α → α
  exp : α → α
  sin : α → α
  cos : α → α
  tan : α → α
  pi : α

namespace RealLike

instance : RealLike Float where
  ofNat n := n.toFloat
  sqrt := Float.sqrt
  log := Float.log
  exp := Float.exp
  sin := Float.sin
  cos := Float.cos
  tan := Float.tan
  pi := 3.141592653589793

/-- `n / d` as an element of the carrier -/
def ofFrac {α} [RealLike α] (n d : Nat) : α := ofNat n / ofNat d
/-- square -/
def sq {α} [RealLike α] (x : α) : α := x * x

end RealLike
end VOPy
