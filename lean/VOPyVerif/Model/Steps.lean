import VOPyVerif.Model.Basic
/-!
# Set transitions of the PAC algorithms (`vopy/algorithms/*.py`), import-free executable model

Index sets are `List Nat` (the Python code holds `set`s of design indices; the lists are duplicate
free and their order stands for the set's iteration order).  Geometry is abstracted into *oracle
predicates* over design indices

* `isDom i j`  — `confidence_region_is_dominated(order, R_i, R_j, slack)`  (R_i is dominated by R_j
  with the slack the algorithm passes: 0 for the PaVeBa family, ε·u* for VOGP / VOGP_AD, the scalar
  ε for ε-PAL),
* `isCov i j`  — `confidence_region_is_covered(order, R_i, R_j, slack)`  (R_i can be ε-covered by
  R_j; slack ε·α for the PaVeBa family, ε·u* for VOGP / VOGP_AD, ε for ε-PAL),
* `pessDom j i` — `confidence_region_check_dominates(order, R_j, R_i)`  (R_j pessimistically
  dominates R_i),

so that every statement proved about these definitions holds for *any* geometry; C09/C10/C11 tie
the Booleans to the semantic ∀∀ / ∃∃ statements over the regions.

The loop structure of the Python code is mirrored: the inner `for … : if pt' == pt: continue; if
test: …; break` scan is `anyOther`, decisions are first *collected* over the unchanged set and then
applied (`removeAll`, `addAll`), exactly as the code does.

`discarding`, `pareto_updating` and `useful_updating` are textually identical in `paveba.py`,
`paveba_gp.py` and `paveba_partial_gp.py`; `discarding`, `compute_pessimistic_set` and the body of
`epsiloncovering` are identical in `vogp.py`, `vogp_ad.py`, `epal.py` up to the slack constant
(which lives inside the oracle) and VOGP_AD's depth gate.
-/
namespace VOPy.Steps

/-- oracle over pairs of design indices -/
abbrev Rel := Nat → Nat → Bool

/-! ## Generic pieces -/

/-- `A = S.union(U)` — iteration order: `S` first, then the new elements of `U`. -/
def union (S U : List Nat) : List Nat := S ++ U.filter (fun u => !S.contains u)

/-- The inner scan `for j in A: if j == i: continue; if test j: (witness) break` —
`true` iff the scan stops at a witness. -/
def anyOther (test : Nat → Bool) (i : Nat) : List Nat → Bool
  | [] => false
  | j :: js => if j == i then anyOther test i js else if test j then true else anyOther test i js

/-- `for pt in rm: S.remove(pt)` -/
def removeAll (S rm : List Nat) : List Nat := rm.foldl (fun s x => s.erase x) S

/-- `for pt in new: P.add(pt)` -/
def addAll (P new : List Nat) : List Nat :=
  new.foldl (fun p x => if p.contains x then p else p ++ [x]) P

/-- canonical (ascending) form of an index set -/
def sortNat (l : List Nat) : List Nat := l.mergeSort (fun a b => decide (a ≤ b))

/-! ## PaVeBa family: `discarding`, `pareto_updating`, `useful_updating` -/

/-- designs collected in `to_be_discarded` -/
def pavebaToDiscard (isDom : Rel) (S U : List Nat) : List Nat :=
  let A := union S U
  S.filter (fun i => anyOther (fun j => isDom i j) i A)

/-- `discarding()` : the new `S` -/
def pavebaDiscard (isDom : Rel) (S U : List Nat) : List Nat :=
  removeAll S (pavebaToDiscard isDom S U)

/-- designs collected in `new_pareto_pts` (the `for … else` branch: no `break` happened) -/
def pavebaNewPareto (isCov : Rel) (S U : List Nat) : List Nat :=
  let A := union S U
  S.filter (fun i => !anyOther (fun j => isCov i j) i A)

/-- `pareto_updating()` : the new `(S, P)` -/
def pavebaPareto (isCov : Rel) (S P U : List Nat) : List Nat × List Nat :=
  let new := pavebaNewPareto isCov S U
  (removeAll S new, addAll P new)

/-- `useful_updating()` : the new `U` (no self-comparison guard in the code) -/
def pavebaUseful (isCov : Rel) (S P : List Nat) : List Nat :=
  P.filter (fun p => S.any (fun s => isCov s p))

/-- the three decision phases of one `run_one_step()` in order: new `(S, P, U)` -/
def pavebaRound (isDom isCov : Rel) (S P U : List Nat) : List Nat × List Nat × List Nat :=
  let S1 := pavebaDiscard isDom S U
  let (S2, P2) := pavebaPareto isCov S1 P U
  (S2, P2, pavebaUseful isCov S2 P2)

/-! ## VOGP / VOGP_AD / ε-PAL: `compute_pessimistic_set`, `discarding`, `epsiloncovering` -/

/-- `compute_pessimistic_set()` over `W = S ∪ P` -/
def pessimisticSet (pessDom : Rel) (S P : List Nat) : List Nat :=
  let W := union S P
  W.filter (fun i => !anyOther (fun j => pessDom j i) i W)

/-- designs collected in `to_be_discarded`: scan over `difference = S − pessimistic_set`,
witnesses from the pessimistic set (no self-comparison guard: the two sets are disjoint) -/
def vogpToDiscard (isDom pessDom : Rel) (S P : List Nat) : List Nat :=
  let pess := pessimisticSet pessDom S P
  let difference := S.filter (fun i => !pess.contains i)
  difference.filter (fun i => pess.any (fun j => isDom i j))

/-- `discarding()` : the new `S` -/
def vogpDiscard (isDom pessDom : Rel) (S P : List Nat) : List Nat :=
  removeAll S (vogpToDiscard isDom pessDom S P)

/-- designs collected in `new_pareto_pts` of `epsiloncovering()` (scan over `W = S ∪ P`) -/
def coverNew (isCov : Rel) (S P : List Nat) : List Nat :=
  let W := union S P
  S.filter (fun i => !anyOther (fun j => isCov i j) i W)

/-- `epsiloncovering()` of VOGP and ε-PAL : the new `(S, P)` -/
def epsilonCovering (isCov : Rel) (S P : List Nat) : List Nat × List Nat :=
  let new := coverNew isCov S P
  (removeAll S new, addAll P new)

/-- VOGP_AD's `epsiloncovering()` with the depth gate and the latch `enable_epsilon_covering`:
returns the new `(S, P, enable_epsilon_covering)`. -/
def epsilonCoveringAD (isCov : Rel) (depth : Nat → Nat) (maxDepth : Nat) (enabled : Bool)
    (S P : List Nat) : List Nat × List Nat × Bool :=
  if !enabled && !(S.all (fun i => depth i == maxDepth)) then (S, P, false)
  else
    let r := epsilonCovering isCov S P
    (r.1, r.2, true)

/-- discarding then ε-covering: the decision phases of one round of VOGP / ε-PAL -/
def vogpRound (isDom isCov pessDom : Rel) (S P : List Nat) : List Nat × List Nat :=
  epsilonCovering isCov (vogpDiscard isDom pessDom S P) P

/-- discarding then gated ε-covering: the decision phases of one round of VOGP_AD -/
def vogpADRound (isDom isCov pessDom : Rel) (depth : Nat → Nat) (maxDepth : Nat) (enabled : Bool)
    (S P : List Nat) : List Nat × List Nat × Bool :=
  epsilonCoveringAD isCov depth maxDepth enabled (vogpDiscard isDom pessDom S P) P

/-! ## Auer: centres, width rows, `m`, `M` -/

/-- `np.min` of a vector (0 for the empty vector, which the code never sees) -/
def vmin : Vec → Rat
  | [] => 0
  | x :: xs => xs.foldl min x

/-- `np.max` of a vector -/
def vmax : Vec → Rat
  | [] => 0
  | x :: xs => xs.foldl max x

/-- `small_m(i, j) = max(0, np.min(j - i))` -/
def smallM (ci cj : Vec) : Rat := max 0 (vmin (vsub cj ci))

/-- `big_m(i, j) = max(0, np.max((i + ε) - j))` -/
def bigM (eps : Rat) (ci cj : Vec) : Rat := max 0 (vmax (vsub (ci.map (· + eps)) cj))

/-- `np.all(x > beta)` for a scalar `x` and a width vector -/
def allGt (x : Rat) (beta : Vec) : Bool := beta.all (fun b => decide (b < x))
/-- `np.all(x < beta)` -/
def allLt (x : Rat) (beta : Vec) : Bool := beta.all (fun b => decide (x < b))
/-- `np.all(x <= beta)` -/
def allLe (x : Rat) (beta : Vec) : Bool := beta.all (fun b => decide (x ≤ b))

/-- The scan of Auer's loops runs over (design, width row) pairs: `enumerate(self.S)` together
with `self.beta_t[pt_i]`.  `anyOtherP` is `anyOther` over such pairs. -/
def anyOtherP (test : Nat × Vec → Bool) (i : Nat) : List (Nat × Vec) → Bool
  | [] => false
  | q :: qs => if q.1 == i then anyOtherP test i qs else if test q then true else anyOtherP test i qs

/-- elimination certificate between two (design, width) pairs:
`np.all(small_m(c_i, c_j) > beta_i + beta_j)` -/
def auerDomCert (centre : Nat → Vec) (p q : Nat × Vec) : Bool :=
  allGt (smallM (centre p.1) (centre q.1)) (vadd p.2 q.2)

/-- `discarding()` over a list of (design, width) pairs: designs collected in `to_be_discarded` -/
def auerToDiscardCore (centre : Nat → Vec) (SW : List (Nat × Vec)) : List Nat :=
  (SW.filter (fun p => anyOtherP (fun q => auerDomCert centre p q) p.1 SW)).map (·.1)

/-- stage 1 of `pareto_updating()`: pairs collected in `P1_pts` / `P1_pt_is` -/
def auerP1Core (eps : Rat) (centre : Nat → Vec) (SW : List (Nat × Vec)) : List (Nat × Vec) :=
  SW.filter (fun p => !anyOtherP
    (fun q => allLt (bigM eps (centre p.1) (centre q.1)) (vadd p.2 q.2)) p.1 SW)

/-- stage 2 of `pareto_updating()`: designs collected in `new_pareto_pts` -/
def auerNewParetoCore (eps : Rat) (centre : Nat → Vec) (SW : List (Nat × Vec)) : List Nat :=
  let P1 := auerP1Core eps centre SW
  let P1pts := P1.map (·.1)
  (P1.filter (fun p => !(SW.any (fun q => !P1pts.contains q.1 &&
      allLe (bigM eps (centre q.1) (centre p.1)) (vadd p.2 q.2))))).map (·.1)

/-- **What the property demands**: every design paired with its *own* width row. -/
def byDesign (width : Nat → Vec) (S : List Nat) : List (Nat × Vec) := S.map (fun i => (i, width i))

/-- **What the original code did** (DESIGN §5 D2; repaired in /repo, where `beta_t` is now a dict
keyed by design, i.e. `byDesign`): `enumerate(self.S)` + `self.beta_t[pt_i]` — the k-th design in
the iteration order of the *current* `S` is paired with the k-th row of `beta_t` (rows computed by
`compute_beta` for the iteration order of `S` at modelling time).  Kept as a literal mirror so that
a return of positional lookup is recognised as such. -/
def byPosition (rows : List Vec) (S : List Nat) : List (Nat × Vec) := S.zip rows

/-- Auer `discarding()`, widths by design -/
def auerDiscard (centre width : Nat → Vec) (S : List Nat) : List Nat :=
  removeAll S (auerToDiscardCore centre (byDesign width S))

/-- Auer `discarding()`, literal positional mirror -/
def auerDiscardPos (centre : Nat → Vec) (rows : List Vec) (S : List Nat) : List Nat :=
  removeAll S (auerToDiscardCore centre (byPosition rows S))

/-- Auer `pareto_updating()`, widths by design: new `(S, P)` -/
def auerPareto (eps : Rat) (centre width : Nat → Vec) (S P : List Nat) : List Nat × List Nat :=
  let new := auerNewParetoCore eps centre (byDesign width S)
  (removeAll S new, addAll P new)

/-- Auer `pareto_updating()`, literal positional mirror: new `(S, P)` -/
def auerParetoPos (eps : Rat) (centre : Nat → Vec) (rows : List Vec) (S P : List Nat) :
    List Nat × List Nat :=
  let new := auerNewParetoCore eps centre (byPosition rows S)
  (removeAll S new, addAll P new)

/-- one round of Auer's decision phases with every width looked up by design -/
def auerRound (eps : Rat) (centre width : Nat → Vec) (S P : List Nat) : List Nat × List Nat :=
  auerPareto eps centre width (auerDiscard centre width S) P

/-- one round as the original code ran it: `rows` are aligned with the iteration order of `S`
*before* discarding, and are re-read by position after `S` has shrunk. -/
def auerRoundPos (eps : Rat) (centre : Nat → Vec) (rows : List Vec) (S P : List Nat) :
    List Nat × List Nat :=
  auerParetoPos eps centre rows (auerDiscardPos centre rows S) P

end VOPy.Steps
