import VOPyVerif.Model.Basic
/-!
# Acquisition optimisers and "what reaches the model" (import-free executable model)

Anchors: `vopy/acquisition/acquisition.py` (`optimize_acqf_discrete`,
`optimize_decoupled_acqf_discrete`, `MaxDiagonalAcquisition`, `SumVarianceAcquisition`,
`MaxVarianceDecoupledAcquisition`), the `evaluating()` methods of the algorithms and the
`add_sample` methods of `vopy/models/gpytorch.py` / `empirical_mean_var.py`.

The discrete optimiser sees its acquisition function only through the value it returns for each
row of `choices`; the functions used by VOPy are row-wise (the value of a row does not depend on
the other rows), so the model takes the *value list* `vals` (`vals[i]` = value of row `i`) and
speaks about *positions* in the original `choices` array.

* `argmax` is `np.argmax`: first position of the maximum; `none` for an empty list (numpy raises
  `ValueError: attempt to get an argmax of an empty sequence`).
* `pickLoop` is the `while chosen < q and len(choices) > 0` loop: arg-max of the remaining rows,
  record the row and `acq_values[best_idx]`, delete the row from `choices`.
* `optimizeDiscrete vals q` is what the code does since fix commit 00d0f01: a batch larger than the
  choice list selects every choice, which is what property C07 demands (every batch size ≥ 1
  works).  `optimizeDiscretePreFix` is the code before the fix (defect D7: `none` = the
  `ValueError` of `np.argmax` on an empty array as soon as `q > len(choices)`).
* `optimizeDecoupled table q` (`table[j][i]` = value of row `i` for objective `j`): per-objective
  `optimizeDiscrete`, concatenation in objective order, then the `q` largest of the concatenation
  in non-increasing order.  `np.argpartition(v, -q)[-q:]` followed by the descending `argsort`
  fixes the *multiset* of selected values, not which of several equal entries is taken or their
  relative order; the model takes the canonical choice (first position among equals), so only the
  value list and the relation `decSpecOk` are compared with the code where ties occur.
-/
namespace VOPy.Acq

/-- `np.argmax` with the value found: `(first position of the maximum, maximum)`. -/
def argmax : List Rat → Option (Nat × Rat)
  | [] => none
  | x :: xs =>
    match argmax xs with
    | none => some (0, x)
    | some (j, v) => if x < v then some (j + 1, v) else some (0, x)

/-- `[(0, v₀), (1, v₁), …]`: every row of `choices` tagged with its original position -/
def indexed (vals : List Rat) : List (Nat × Rat) := vals.zipIdx.map fun (v, i) => (i, v)

/-- The `while chosen < q and len(choices) > 0` loop of `optimize_acqf_discrete` on the remaining
(original position, value) rows: arg-max of the remaining values, record the row and
`acq_values[best_idx]`, delete the row.  The loop stops when `q` rows were chosen or no row is
left (fix commit 00d0f01; before it the loop condition was `chosen < q` alone, see
`pickLoopPreFix`). -/
def pickLoop : Nat → List (Nat × Rat) → List (Nat × Rat)
  | 0, _ => []
  | q + 1, rem =>
    match argmax (rem.map (·.2)) with
    | none => []
    | some (j, v) =>
      match rem[j]? with
      | none => []
      | some e => (e.1, v) :: pickLoop q (rem.eraseIdx j)

/-- `optimize_acqf_discrete(acq, q, choices)`: the picked original positions with their values, in
pick order.  (For an empty `choices` array the real function then fails in `np.stack([])`; no
algorithm calls it with an empty active set, and the driver refuses that input.) -/
def optimizeDiscrete (vals : List Rat) (q : Nat) : List (Nat × Rat) :=
  pickLoop q (indexed vals)

/-- The loop as it was before fix commit 00d0f01 (defect D7): `while chosen < q` with no guard, so
`np.argmax` of an empty array raises `ValueError` (`none`) as soon as `q` exceeds the number of
choices.  Kept as the regression reference: `optimizeDiscrete` agrees with it wherever it returns. -/
def pickLoopPreFix : Nat → List (Nat × Rat) → Option (List (Nat × Rat))
  | 0, _ => some []
  | q + 1, rem =>
    match argmax (rem.map (·.2)) with
    | none => none
    | some (j, v) =>
      match rem[j]? with
      | none => none
      | some e => (pickLoopPreFix q (rem.eraseIdx j)).map ((e.1, v) :: ·)

def optimizeDiscretePreFix (vals : List Rat) (q : Nat) : Option (List (Nat × Rat)) :=
  pickLoopPreFix q (indexed vals)

/-- A (row position, objective, value) entry of the decoupled optimiser. -/
structure Entry where
  pos : Nat
  obj : Nat
  val : Rat
deriving DecidableEq, Repr

/-- the `for eval_i in range(out_dim)` loop: per-objective batches, concatenated in objective
order (`j` = index of the first row of `rows` in the whole table) -/
def decoupledCandidates : Nat → List (List Rat) → Nat → List Entry
  | _, [], _ => []
  | j, row :: rows, q =>
    (optimizeDiscrete row q).map (fun p => ⟨p.1, j, p.2⟩) ++ decoupledCandidates (j + 1) rows q

/-- `optimize_decoupled_acqf_discrete(acq, q, choices)`: the `min q (number of candidates)` largest
candidates as (position, objective, value) triples, values non-increasing. -/
def optimizeDecoupled (table : List (List Rat)) (q : Nat) : List Entry :=
  let cands := decoupledCandidates 0 table q
  (optimizeDiscrete (cands.map (·.val)) q).filterMap (fun p => cands[p.1]?)

/-! ## Acquisition values -/

/-- `MaxDiagonalAcquisition` squared: `‖upper − lower‖²` of the displayed hyper-rectangle.
(The code takes the square root; comparing squares is the same comparison.) -/
def diagSq (lower upper : Vec) : Rat := normSq (vsub upper lower)

/-- `SumVarianceAcquisition`: trace of the posterior covariance. -/
def sumVariance (cov : Mat) : Rat :=
  ((List.range cov.length).map (fun i => (cov.getD i []).getD i 0)).foldr (· + ·) 0

/-- `MaxVarianceDecoupledAcquisition`: `cov[j][j] / costs[j]`; `none` where numpy would index out
of range or divide by zero. -/
def varianceOverCost (cov : Mat) (j : Nat) (costs : Option Vec) : Option Rat :=
  match cov[j]? with
  | none => none
  | some row =>
    match row[j]? with
    | none => none
    | some v =>
      match costs with
      | none => some v
      | some c =>
        match c[j]? with
        | none => none
        | some cj => if cj = 0 then none else some (v / cj)

/-! ## Evaluate-everything algorithms -/

/-- `list(S ∪ U)` up to order: PaVeBa (`A = S ∪ U`), Auer (`U = ∅`), NaiveElimination (`S` = all
designs).  The designs evaluated in one round. -/
def evaluateAll (S U : List Nat) : List Nat := S ++ U.filter (fun u => !S.contains u)

/-! ## What reaches the model -/

/-- one observation handed to `add_sample`: the queried input row, and the returned values -/
structure Obs where
  x : Vec
  y : Vec
deriving DecidableEq, Repr

/-- `GPyTorchMultioutputExactModel.add_sample(X_t, Y_t)`: `torch.cat` of the rows (inputs cut to
`input_dim` columns). -/
def gpAddSample (inputDim : Nat) (data : List Obs) (X Y : List Vec) : List Obs :=
  data ++ List.zipWith (fun x y => ⟨x.take inputDim, y⟩) X Y

/-- `torch.unique`: the distinct objective indices in increasing order (insertion into a sorted,
duplicate-free list). -/
def insertSorted (d : Nat) : List Nat → List Nat
  | [] => [d]
  | e :: es => if d < e then d :: e :: es else if d = e then e :: es else e :: insertSorted d es

def uniqueSorted (dims : List Nat) : List Nat := dims.foldr insertSorted []

/-- `GPyTorchModelListExactModel.add_sample(X_t, Y_t, dim_index)` with a list `dim_index`: for
each distinct objective (increasing), the rows with that objective are appended, in row order, to
that objective's data.  `stores[j]` = (input row, scalar target) pairs of objective `j`.
`none`: the length check fails or an objective index is out of range. -/
def listAddSample (inputDim : Nat) (stores : List (List (Vec × Rat))) (X : List Vec) (Y : List Rat)
    (dims : List Nat) : Option (List (List (Vec × Rat))) :=
  if dims.length ≠ X.length ∨ Y.length ≠ X.length then none
  else if dims.any (fun d => decide (stores.length ≤ d)) then none
  else
    let rows := (X.zip Y).zip dims
    some ((uniqueSorted dims).foldl
      (fun st d => st.modify d
        (· ++ (rows.filter (fun r => r.2 == d)).map (fun r => (r.1.1.take inputDim, r.1.2))))
      stores)

/-- `EmpiricalMeanVarModel.add_sample(indices, Y_t)`: `for idx, y in zip(indices, Y_t):
design_samples[idx] = concatenate([design_samples[idx], y])`.  `none`: the length or range check
fails (also for an empty index collection: `max()` of an empty iterable raises). -/
def empAddSample (samples : List (List Vec)) (indices : List Nat) (Y : List Vec) :
    Option (List (List Vec)) :=
  if indices.length ≠ Y.length ∨ indices.isEmpty then none
  else if indices.any (fun i => decide (samples.length ≤ i)) then none
  else some ((indices.zip Y).foldl (fun st r => st.modify r.1 (· ++ [r.2])) samples)

/-! ## One `evaluating()` step (coupled GP algorithms)

`designs` are the active rows in the order the optimiser sees them (`points[list(W)]`), `vals` their
acquisition values, `observe` the problem's answer for a design row. -/
def evaluatingStep (inputDim : Nat) (designs : List Vec) (vals : List Rat) (q : Nat)
    (observe : Vec → Vec) (data : List Obs) : List Vec × List Obs :=
  let cand := (optimizeDiscrete vals q).filterMap (fun p => designs[p.1]?)
  (cand, gpAddSample inputDim data cand (cand.map observe))

/-- One `evaluating()` step of a decoupled GP algorithm (PaVeBaPartialGP, DecoupledGP): the
selected (row, objective) pairs, and the per-objective stores after `add_sample(candidates,
observations, eval_indices)`.  `observe x j` is the problem's answer for objective `j` of row `x`. -/
def evaluatingStepDecoupled (inputDim : Nat) (designs : List Vec) (table : List (List Rat)) (q : Nat)
    (observe : Vec → Nat → Rat) (stores : List (List (Vec × Rat))) :
    List (Vec × Nat) × Option (List (List (Vec × Rat))) :=
  let cand := (optimizeDecoupled table q).filterMap
    (fun e => (designs[e.pos]?).map (fun x => (x, e.obj)))
  (cand, listAddSample inputDim stores (cand.map (·.1)) (cand.map (fun c => observe c.1 c.2))
    (cand.map (·.2)))

/-- One `evaluating()` step of PaVeBa / Auer: every active design is observed once and the
observation is stored under that design (`observe i` = the problem's answer for design `i`). -/
def evaluateAllStep (S U : List Nat) (observe : Nat → Vec) (samples : List (List Vec)) :
    Option (List (List Vec)) :=
  let A := evaluateAll S U
  empAddSample samples A (A.map observe)

/-! ## Decidable specification relations checked on the implementation's output -/

/-- Relation (R) for `optimize_acqf_discrete`'s output, as (original position, value) pairs in pick
order: exactly `q` picks, valid distinct positions carrying their own value, and every pick maximal
among the positions not picked before it (hence values non-increasing, and the multiset of
values is the top-`q` multiset).  Which of several equal maximisers is taken is left open. -/
def discSpecOk (vals : List Rat) (q : Nat) (picks : List (Nat × Rat)) : Bool :=
  let n := vals.length
  picks.length == q &&
  picks.all (fun p => decide (p.1 < n) && vals[p.1]? == some p.2) &&
  (List.range picks.length).all (fun k =>
    match picks[k]? with
    | none => false
    | some p =>
      let before := (picks.take k).map (·.1)
      !before.contains p.1 &&
      (List.range n).all (fun i => before.contains i ||
        match vals[i]? with
        | none => false
        | some v => decide (v ≤ p.2)))

/-- `np.argmax` refinement of `discSpecOk`: every pick is moreover the *first* maximal position
among the not-yet-picked (information only: tie order is not part of the property). -/
def discFirstOk (vals : List Rat) (picks : List (Nat × Rat)) : Bool :=
  (List.range picks.length).all (fun k =>
    match picks[k]? with
    | none => false
    | some p =>
      let before := (picks.take k).map (·.1)
      (List.range p.1).all (fun i => before.contains i ||
        match vals[i]? with
        | none => false
        | some v => decide (v < p.2)))

/-- value of the table at (position, objective) -/
def tableAt (table : List (List Rat)) (pos obj : Nat) : Option Rat :=
  match table[obj]? with
  | none => none
  | some row => row[pos]?

/-- Relation (R) for `optimize_decoupled_acqf_discrete`'s output: exactly `q` triples, valid and
pairwise distinct (position, objective) pairs carrying their own table value, values
non-increasing, and every pair of the whole table that was not selected has a value ≤ every
selected one (so the selected value multiset is the top-`q` multiset of the whole table). -/
def decSpecOk (table : List (List Rat)) (q : Nat) (sel : List Entry) : Bool :=
  let keys := sel.map (fun e => (e.pos, e.obj))
  sel.length == q &&
  sel.all (fun e => tableAt table e.pos e.obj == some e.val) &&
  (List.range sel.length).all (fun k =>
    match keys[k]? with
    | none => false
    | some key => !(keys.take k).contains key) &&
  (sel.zip sel.tail).all (fun (a, b) => decide (b.val ≤ a.val)) &&
  (List.range table.length).all (fun j =>
    match table[j]? with
    | none => false
    | some row =>
      (List.range row.length).all (fun i => keys.contains (i, j) ||
        match row[i]? with
        | none => false
        | some v => sel.all (fun e => decide (v ≤ e.val))))

end VOPy.Acq
