import VOPyVerif.Model.Basic
/-!
# `EmpiricalMeanVarModel` (`vopy/models/empirical_mean_var.py`), import-free executable model

State = what the Python object holds: `design_samples` (one list of `output_dim`-vectors per
design, in insertion order), the two attributes `means` / `variances` written by `update()`
(three-valued: attribute missing before the first `update()`, `None` when the corresponding flag
was off at that `update()`, or an array), and the two public flags `track_means` /
`track_variances` that callers toggle (Auer switches `track_variances` off around
`design_space.update` and on again afterwards).

Indices are `Int` because the code indexes a Python list / a numpy array with them: a negative
index `-count ≤ i < 0` silently means `i + count`, anything else out of range raises `IndexError`
(in `add_sample` that happens *inside* the loop, after earlier pairs were already stored — the
model returns that partial state too).  The bounds check of `add_sample` is
`max(indices) >= design_count`, which raises `ValueError` also for an empty index collection
(`max()` of an empty iterable).  A sample row `y` is stored as `y.reshape(-1, output_dim)`, i.e. a
row of length `k·output_dim` is stored as `k` samples and any other length raises `ValueError`.
-/
namespace VOPy.Empirical

/-- the exception classes the real class can raise on the modelled paths -/
inductive Err where
  | valueError | indexError | attributeError | typeError
deriving DecidableEq, Repr

def Err.name : Err → String
  | .valueError => "ValueError"
  | .indexError => "IndexError"
  | .attributeError => "AttributeError"
  | .typeError => "TypeError"

/-- a Python attribute that may be missing, `None`, or hold a value -/
inductive Attr (α : Type) where
  | unset | none | some (a : α)

structure State where
  m : Nat
  count : Nat
  noise : Rat
  trackMeans : Bool
  trackVars : Bool
  samples : List (List Vec)
  means : Attr (List Vec)
  vars : Attr (List Mat)

def init (m count : Nat) (noise : Rat) (tm tv : Bool) : State :=
  { m := m, count := count, noise := noise, trackMeans := tm, trackVars := tv,
    samples := List.replicate count [], means := .unset, vars := .unset }

/-- `clear_data()` -/
def clear (st : State) : State := { st with samples := List.replicate st.count [] }

/-- Python list / numpy integer indexing into a container of length `n`; `none` = `IndexError`. -/
def normIdx (n : Nat) (i : Int) : Option Nat :=
  if 0 ≤ i then (if i.toNat < n then some i.toNat else none)
  else if -(n : Int) ≤ i then some (i + n).toNat else none

/-- `reshape(-1, m)` of a flat row, as a list of `m`-vectors -/
def chunks (m : Nat) : Nat → Vec → List Vec
  | 0, _ => []
  | k + 1, y => y.take m :: chunks m k (y.drop m)

def chunk (m : Nat) (y : Vec) : Option (List Vec) :=
  if m = 0 then none else if y.length % m ≠ 0 then none else some (chunks m (y.length / m) y)

/-- `max(indices)` for a non-empty collection, as a fold -/
def maxOf (i : Int) (is : List Int) : Int := is.foldl (fun a b => if a < b then b else a) i

/-- the two checks at the top of `add_sample` pass -/
def guardOk (count : Nat) (idx : List Int) (ylen : Nat) : Bool :=
  idx.length == ylen &&
  match idx with
  | [] => false                      -- max() of an empty iterable: ValueError
  | i :: is => !(decide ((count : Int) ≤ maxOf i is))

/-- the `for idx, y in zip(indices, Y_t)` loop -/
def addLoop (m : Nat) : List (List Vec) → List (Int × Vec) → List (List Vec) × Option Err
  | S, [] => (S, none)
  | S, (i, y) :: rest =>
    match normIdx S.length i with
    | none => (S, some .indexError)
    | some d =>
      match chunk m y with
      | none => (S, some .valueError)
      | some rows => addLoop m (S.modify d (· ++ rows)) rest

/-- `add_sample(indices, Y_t)`; the returned state is the state the object is left in, the
`Option Err` the exception raised (if any). -/
def add (st : State) (idx : List Int) (Y : List Vec) : State × Option Err :=
  if guardOk st.count idx Y.length then
    let r := addLoop st.m st.samples (idx.zip Y)
    ({ st with samples := r.1 }, r.2)
  else (st, some .valueError)

/-- column `j` of a sample list (rows always have length `m`, see `Proofs/Empirical.lean`) -/
def colOf (j : Nat) (l : List Vec) : List Rat := l.map (fun y => y.getD j 0)

/-- arithmetic mean of a list of numbers (`np.mean`); only used on non-empty lists -/
def mean (c : List Rat) : Rat := c.sum / (c.length : Rat)

/-- population variance (`np.var`, `ddof = 0`): mean of squared deviations from the mean -/
def popVar (c : List Rat) : Rat := mean (c.map (fun x => (x - mean c) * (x - mean c)))

def zeros (m : Nat) : Vec := List.replicate m 0

/-- `m × m` matrix with `f i` on the diagonal (`np.diag`, `np.eye(m) * c`) -/
def diagOf (m : Nat) (f : Nat → Rat) : Mat :=
  (List.range m).map (fun i => (List.range m).map (fun j => if i = j then f i else 0))

/-- `np.mean(design, axis=0) if len(design) > 0 else np.zeros(output_dim)` -/
def meanOf (m : Nat) (design : List Vec) : Vec :=
  if design.length > 0 then (List.range m).map (fun j => mean (colOf j design)) else zeros m

/-- `np.diag(np.var(design, axis=0)) if len(design) > 1 else np.eye(output_dim) * noise_var` -/
def varOf (m : Nat) (noise : Rat) (design : List Vec) : Mat :=
  if design.length > 1 then diagOf m (fun j => popVar (colOf j design)) else diagOf m (fun _ => noise)

/-- `update()` -/
def update (st : State) : State :=
  { st with
    means := if st.trackMeans then .some (st.samples.map (meanOf st.m)) else .none
    vars := if st.trackVars then .some (st.samples.map (varOf st.m st.noise)) else .none }

/-- numpy fancy indexing `table[indices]`; `none` = `IndexError` -/
def gather {α : Type} (tbl : List α) : List Int → Option (List α)
  | [] => some []
  | i :: is =>
    match (normIdx tbl.length i).bind (tbl[·]?) with
    | none => none
    | some a => (gather tbl is).map (a :: ·)

def lookup {α : Type} (a : Attr (List α)) (idx : List Int) : Except Err (List α) :=
  match a with
  | .unset => .error .attributeError
  | .none => .error .typeError
  | .some t => match gather t idx with
    | none => .error .indexError
    | some r => .ok r

/-- `predict(test_X)` where `idx` is the last column of `test_X` (as integers). -/
def predict (st : State) (idx : List Int) : Except Err (List Vec × List Mat) :=
  match (if st.trackMeans then lookup st.means idx else .ok (idx.map fun _ => zeros st.m)) with
  | .error e => .error e
  | .ok ms =>
    match (if st.trackVars then lookup st.vars idx
           else .ok (idx.map fun _ => diagOf st.m (fun _ => 1))) with
    | .error e => .error e
    | .ok vs => .ok (ms, vs)

/-- one call on the object -/
inductive Op where
  | add (idx : List Int) (Y : List Vec)
  | clear
  | update
  | setFlags (tm tv : Bool)

def Op.isClear : Op → Bool
  | .clear => true
  | _ => false

def Op.isUpdate : Op → Bool
  | .update => true
  | _ => false

def step (st : State) : Op → State × Option Err
  | .add idx Y => add st idx Y
  | .clear => (clear st, none)
  | .update => (update st, none)
  | .setFlags tm tv => ({ st with trackMeans := tm, trackVars := tv }, none)

/-- replay a history; an exception leaves the object in the state `step` returns and the caller
carries on (as the harness does with `try/except`). -/
def run (st : State) (ops : List Op) : State := ops.foldl (fun s o => (step s o).1) st

/-! ## Specification vocabulary (what the property's words mean on a history)

Independent of the state machine above: these functions only look at the list of calls. -/

/-- the samples of design `d` among `(design, sample)` pairs, in order -/
def samplesFor (d : Nat) (pairs : List (Nat × Vec)) : List Vec :=
  (pairs.filter (fun p => p.1 == d)).map (·.2)

/-- an `add_sample` call the property talks about: as many indices as rows, at least one, every
index a valid design number `0 ≤ i < count`, every row an `m`-vector; every other kind of call is
trivially fine -/
def Op.clean (m count : Nat) : Op → Bool
  | .add idx Y =>
    idx.length == Y.length && !idx.isEmpty &&
    idx.all (fun i => decide (0 ≤ i) && decide (i < (count : Int))) && Y.all (fun y => y.length == m)
  | _ => true

/-- an `add_sample` call stopped by the two checks at the top of the method -/
def Op.rejected (count : Nat) : Op → Bool
  | .add idx Y => !guardOk count idx Y.length
  | _ => false

/-- the `(design, sample)` pairs a call contributes -/
def Op.pairs (count : Nat) : Op → List (Nat × Vec)
  | .add idx Y => if guardOk count idx Y.length then (idx.zip Y).map (fun p => (p.1.toNat, p.2)) else []
  | _ => []

/-- the calls after the last `clear_data()` -/
def afterLastClear (ops : List Op) : List Op := (ops.reverse.takeWhile (fun o => !o.isClear)).reverse

/-- all samples added for design `d` since the last clear, in the order they arrived -/
def heldFor (count d : Nat) (ops : List Op) : List Vec :=
  samplesFor d ((afterLastClear ops).flatMap (Op.pairs count))

/-- the flags after a history: the last `setFlags`, else the initial ones -/
def flagsAfter (init : Bool × Bool) : List Op → Bool × Bool
  | [] => init
  | .setFlags tm tv :: rest => flagsAfter (tm, tv) rest
  | _ :: rest => flagsAfter init rest

end VOPy.Empirical
