import VOPyVerif.Model.Steps
import VOPyVerif.Model.Rect
import VOPyVerif.Model.Ellipsoid
import VOPyVerif.Model.Covered
import VOPyVerif.Model.Pessimistic
import VOPyVerif.Model.Accuracy
/-!
# The executable decision core of the PAC algorithms (import-free)

`Steps.lean` runs the set transitions with *abstract* oracle relations; `Rect.lean`, `Ellipsoid.lean`,
`Covered.lean`, `Pessimistic.lean` are the exact models of the geometry predicates.  This file plugs
the second into the first: the oracles of a round are *computed* from the displayed regions by the
exact geometry models (with the slack each algorithm passes), and the round of `Steps.lean` is run
with those computed oracles.  What is left outside is only how the regions come about (posterior,
confidence schedule): a run of the core is a function of the sequence of displayed regions.

## Regions

* `Ball` = (`center`, `alpha`) — `EllipsoidalConfidenceRegion` with `sigma = I` (PaVeBa);
  `Ball.mem b x` : `‖x − c‖² ≤ a²`, `a ≥ 0`, equal lengths (exact).
* `Box` = (`lower`, `upper`) — `RectangularConfidenceRegion`; `Box.mem b x` = `Accuracy.inBox`.

## Computed oracles (argument order of `confidence_region_is_dominated / is_covered / check_dominates`)

* `ballDom W b₁ b₂`        — `is_dominated(order, b₁, b₂, 0)`, scalar slack `0` through the guard of
  `Ellipsoid.isDominatedChecked` (`Σ₁ = Σ₂ = I`).
* `ballCov W slack b₁ b₂`  — `is_covered(order, b₁, b₂, slack)` answered `True`:
  `Covered.ballIsCovered … = some yes` (per-facet slack `ε·α`).
* `rectDom W slack r₁ r₂`  — `Rect.isDominatedChecked … slack = some true` (slack `[0]` for the
  PaVeBa-GP variants, `ε·u*` for VOGP, `[ε]` for ε-PAL: an objective-space shift).
* `rectCov W slack r₁ r₂`  — `Covered.rectIsCovered … slack = some yes` (slack `ε·α`, read as an
  objective-space shift, for the PaVeBa-GP variants; `ε·u*`; `[ε]`).
* `rectPess W r₁ r₂`       — `Pess.checkDominates W r₁ r₂` (`check_dominates(order, r₁, r₂)`).
  A `ValueError` of a guard (`none`) is *not* `true`; the theorems assume slack sizes under which no
  guard fires.

## Runs

* `refresh active fresh old` — `design_space.update(model, scale, list(active))`: the regions of the
  active designs are overwritten, all others keep their last displayed value.
* `pavebaStep` / `pavebaCore` — PaVeBa family: `modeling()` (refresh of `S ∪ U`), then
  `Steps.pavebaRound` with the oracles computed from the region table; state `(S, P, U, table)`,
  from `(all, ∅, ∅, init)`; round `t` displays `fresh t`.
* `vogpCore` — VOGP / ε-PAL: every region of `S ∪ P` is refreshed in every round, so the oracles of
  round `t` are computed from `fresh t` alone; this *is* `Accuracy.vogpRun` with computed oracles.
* `ballCore`, `rectCore`, `vogpRectCore` — the instances.
* `auerUniformCore` — Auer reads centres and width rows, not regions: `Accuracy.auerRun` on the
  displayed centres with uniform width rows `(b, …, b)` (the displayed box is `[c − b, c + b]`).

## Premise checks

* `Ball.wfB`, `Box.wfB`, `pavebaPremise`, `vogpPremise` — the hypotheses of the end-to-end theorems
  (`Props/C01.lean`, `Props/C05.lean`, INTEGRATION sections) as executable checks over a whole run.

## Band versions (harness only)

`…Tol … tau` move every per-facet threshold by `tau` (monotone for every cone, see C09/C10);
`ballRobust` / `rectRobust` / `vogpRobust` say that every oracle answer among the living designs of a
round is the same at `+tau` and `−tau` (then the exact answer equals both).
-/
namespace VOPy.Core
open VOPy

/-! ## regions -/

/-- ball `{z | ‖z − c‖ ≤ a}`: an `EllipsoidalConfidenceRegion` with `sigma = I` -/
structure Ball where
  c : Vec
  a : Rat

/-- hyper-rectangle `[l, u]` -/
structure Box where
  l : Vec
  u : Vec

/-- `‖x − c‖² ≤ a²`, `a ≥ 0`, `x` and `c` of one length -/
def Ball.mem (b : Ball) (x : Vec) : Bool :=
  decide (0 ≤ b.a) && decide (x.length = b.c.length) && decide (normSq (vsub x b.c) ≤ b.a * b.a)

/-- `l ≤ x ≤ u` componentwise, one common length -/
def Box.mem (b : Box) (x : Vec) : Bool := Accuracy.inBox b.l b.u x

/-! ## computed oracles -/

/-- `confidence_region_is_dominated(order, b₁, b₂, 0)` for balls -/
def ballDom (W : Mat) (b1 b2 : Ball) : Bool :=
  decide (Ellipsoid.isDominatedChecked W b1.c (identMat b1.c.length) b1.a
    b2.c (identMat b2.c.length) b2.a [0] = some true)

/-- `confidence_region_is_covered(order, b₁, b₂, slack)` for balls (per-facet slack) -/
def ballCov (W : Mat) (slack : Vec) (b1 b2 : Ball) : Bool :=
  decide (Covered.ballIsCovered W b1.c b1.a b2.c b2.a slack = some Covered.Verdict.yes)

/-- `confidence_region_is_dominated(order, r₁, r₂, slack)` for rectangles (objective-space slack) -/
def rectDom (W : Mat) (slack : Vec) (r1 r2 : Box) : Bool :=
  decide (Rect.isDominatedChecked W r1.l r1.u r2.l r2.u slack = some true)

/-- `confidence_region_is_covered(order, r₁, r₂, slack)` for rectangles (objective-space slack) -/
def rectCov (W : Mat) (slack : Vec) (r1 r2 : Box) : Bool :=
  decide (Covered.rectIsCovered W r1.l r1.u r2.l r2.u slack = some Covered.Verdict.yes)

/-- `confidence_region_check_dominates(order, r₁, r₂)` -/
def rectPess (W : Mat) (r1 r2 : Box) : Bool := Pess.checkDominates W r1.l r1.u r2.l r2.u

/-! ## the PaVeBa family -/

/-- `design_space.update(model, scale, list(active))` on the table of displayed regions -/
def refresh {ρ : Type} (active : List Nat) (fresh old : Nat → ρ) : Nat → ρ :=
  fun i => if active.contains i then fresh i else old i

/-- state of a PaVeBa-family run: the three index sets and the table of displayed regions -/
structure PState (ρ : Type) where
  S : List Nat
  P : List Nat
  U : List Nat
  reg : Nat → ρ

/-- oracle relation on design indices computed from a region table -/
def relOf {ρ : Type} (f : ρ → ρ → Bool) (reg : Nat → ρ) : Steps.Rel := fun i j => f (reg i) (reg j)

/-- one `run_one_step()` of the PaVeBa family: `modeling()` refreshes the regions of `S ∪ U` with the
ones displayed in this round, then discarding / Pareto / useful updating run on oracles computed
from the table -/
def pavebaStep {ρ : Type} (dom cov : ρ → ρ → Bool) (fresh : Nat → ρ) (st : PState ρ) : PState ρ :=
  let reg := refresh (Steps.union st.S st.U) fresh st.reg
  let r := Steps.pavebaRound (relOf dom reg) (relOf cov reg) st.S st.P st.U
  { S := r.1, P := r.2.1, U := r.2.2, reg := reg }

/-- state after `t` rounds from `(all, ∅, ∅)` and the initial table `init`; round `k` (0-based)
displays the regions `fresh k` -/
def pavebaCore {ρ : Type} (K : Nat) (dom cov : ρ → ρ → Bool) (init : Nat → ρ) (fresh : Nat → Nat → ρ) :
    Nat → PState ρ
  | 0 => { S := List.range K, P := [], U := [], reg := init }
  | t + 1 => pavebaStep dom cov (fresh t) (pavebaCore K dom cov init fresh t)

/-- PaVeBa (balls, `Σ = I`): slack `0` for domination, per-facet slack `ε·α` for covering -/
def ballCore (W : Mat) (alpha : Vec) (eps : Rat) (K : Nat) (init : Nat → Ball)
    (fresh : Nat → Nat → Ball) : Nat → PState Ball :=
  pavebaCore K (ballDom W) (ballCov W (smul eps alpha)) init fresh

/-- PaVeBaGP-IH / PaVeBaPartialGP-hyperrectangle: scalar slack `0` for domination, the vector `ε·α`
handed to the rectangular `is_covered` (which reads it as an objective-space shift) -/
def rectCore (W : Mat) (alpha : Vec) (eps : Rat) (K : Nat) (init : Nat → Box)
    (fresh : Nat → Nat → Box) : Nat → PState Box :=
  pavebaCore K (rectDom W [0]) (rectCov W (smul eps alpha)) init fresh

/-! ## VOGP / ε-PAL -/

/-- state `(S, P)` after `t` rounds: `Accuracy.vogpRun` with the oracles of round `k` computed from
the regions `fresh k` (all of `S ∪ P` is refreshed in every round) -/
def vogpCore {ρ : Type} (K : Nat) (dom cov pess : ρ → ρ → Bool) (fresh : Nat → Nat → ρ) :
    Nat → List Nat × List Nat :=
  Accuracy.vogpRun K (fun k => relOf dom (fresh k)) (fun k => relOf cov (fresh k))
    (fun k => relOf pess (fresh k))

/-- VOGP (`slack = ε·u*`) and ε-PAL (`slack = [ε]`, the scalar) on rectangles, with the real
pessimistic test -/
def vogpRectCore (W : Mat) (slack : Vec) (K : Nat) (fresh : Nat → Nat → Box) :
    Nat → List Nat × List Nat :=
  vogpCore K (rectDom W slack) (rectCov W slack) (rectPess W) fresh

/-! ## Auer -/

/-- Auer with uniform width rows (`use_empirical_beta = False`): `Accuracy.auerRun` on the displayed
centres `centre k i` and the width rows `(b, …, b)` with `b = width k i` — the displayed box of design
`i` in round `k` is `[centre − b, centre + b]` -/
def auerUniformCore (K : Nat) (eps : Rat) (centre : Nat → Nat → Vec) (width : Nat → Nat → Rat) :
    Nat → List Nat × List Nat :=
  Accuracy.auerRun K eps centre (fun k i => List.replicate (centre k i).length (width k i))

/-! ## the per-round premise, executable ("the truth of every refreshed design is inside the region
displayed for it", plus well-formedness / non-degeneracy of those regions) -/

/-- centre of dimension `m`, positive radius -/
def Ball.wfB (m : Nat) (b : Ball) : Bool := decide (b.c.length = m) && decide (0 < b.a)

/-- bounds of dimension `m`, positive width in every coordinate -/
def Box.wfB (m : Nat) (b : Box) : Bool :=
  decide (b.l.length = m) && decide (b.u.length = m) && Accuracy.sltB b.l b.u

/-- the premise of one PaVeBa-family round that starts in state `st` and displays `fresh`: every
design of `S ∪ U` (the ones `modeling()` refreshes) has a well-formed displayed region that contains
its true mean -/
def pavebaPremiseAt {ρ : Type} (wfB : ρ → Bool) (membB : ρ → Vec → Bool) (fresh : Nat → ρ)
    (mu : Nat → Vec) (st : PState ρ) : Bool :=
  (st.S ++ st.U).all fun i => wfB (fresh i) && membB (fresh i) (mu i)

/-- PaVeBa family: the premise holds in every round `r < T` -/
def pavebaPremise {ρ : Type} (wfB : ρ → Bool) (membB : ρ → Vec → Bool) (K : Nat)
    (dom cov : ρ → ρ → Bool) (init : Nat → ρ) (fresh : Nat → Nat → ρ) (mu : Nat → Vec) (T : Nat) : Bool :=
  (List.range T).all fun r =>
    pavebaPremiseAt wfB membB (fresh r) mu (pavebaCore K dom cov init fresh r)

/-- the premise of one VOGP / ε-PAL round that starts in `(S, P)`: the displayed region of every
design of `S ∪ P` contains its true value -/
def vogpPremiseAt {ρ : Type} (membB : ρ → Vec → Bool) (fresh : Nat → ρ) (mu : Nat → Vec)
    (st : List Nat × List Nat) : Bool :=
  (st.1 ++ st.2).all fun i => membB (fresh i) (mu i)

/-- VOGP / ε-PAL: the premise holds in every round `r < T` -/
def vogpPremise {ρ : Type} (membB : ρ → Vec → Bool) (K : Nat) (dom cov pess : ρ → ρ → Bool)
    (fresh : Nat → Nat → ρ) (mu : Nat → Vec) (T : Nat) : Bool :=
  (List.range T).all fun r => vogpPremiseAt membB (fresh r) mu (vogpCore K dom cov pess fresh r)

/-! ## band versions (harness) -/

def verdictIs (v : Option Covered.Verdict) (b : Bool) : Bool :=
  match v with
  | some .yes => b
  | some .no => !b
  | _ => false

/-- ball domination with every facet threshold moved by `t` -/
def ballDomTol (W : Mat) (b1 b2 : Ball) (t : Rat) : Bool :=
  Ellipsoid.isDominatedTol W b1.c (identMat b1.c.length) b1.a b2.c (identMat b2.c.length) b2.a
    (List.replicate W.length 0) t

/-- every oracle answer of a PaVeBa round on balls among the living designs `L` is the same at the
margins `+tau` and `−tau` (`td` for `is_dominated`, `tc` for `is_covered`) -/
def ballRobust (W : Mat) (slack : Vec) (td tc : Rat) (reg : Nat → Ball) (L : List Nat) : Bool :=
  L.all fun i => L.all fun j => i == j ||
    ((ballDomTol W (reg i) (reg j) td == ballDomTol W (reg i) (reg j) (-td)) &&
     (let a := Covered.ballIsCoveredTol W (reg i).c (reg i).a (reg j).c (reg j).a slack tc
      let b := Covered.ballIsCoveredTol W (reg i).c (reg i).a (reg j).c (reg j).a slack (-tc)
      (verdictIs a true && verdictIs b true) || (verdictIs a false && verdictIs b false)))

/-- rectangle domination with every facet threshold moved by `t` (`none` = `ValueError`) -/
def rectDomTol (W : Mat) (slack : Vec) (r1 r2 : Box) (t : Rat) : Option Bool :=
  (Rect.expandSlack r1.l.length slack).map fun s => Rect.isDominatedTol W r1.l r1.u r2.l r2.u s t

/-- `check_dominates` with every facet coordinate of the tested vertices moved by `t` -/
def rectPessTol (W : Mat) (r1 r2 : Box) (t : Rat) : Bool :=
  let verts1 := (Pess.vertices r1.l r1.u).map (matVec W)
  let verts2 := (Pess.vertices r2.l r2.u).map (matVec W)
  verts1.all fun p => Pess.isPtIn Pess.exact false (p.map (· + t)) verts2

def rectPairRobust (W : Mat) (sdom scov : Vec) (td tc : Rat) (r1 r2 : Box) : Bool :=
  (match rectDomTol W sdom r1 r2 td, rectDomTol W sdom r1 r2 (-td) with
   | some a, some b => a == b
   | _, _ => false) &&
  (let a := Covered.rectIsCoveredTol W r1.l r1.u r2.l r2.u scov tc
   let b := Covered.rectIsCoveredTol W r1.l r1.u r2.l r2.u scov (-tc)
   (verdictIs a true && verdictIs b true) || (verdictIs a false && verdictIs b false))

/-- robustness of a PaVeBa-GP round on rectangles -/
def rectRobust (W : Mat) (sdom scov : Vec) (td tc : Rat) (reg : Nat → Box) (L : List Nat) : Bool :=
  L.all fun i => L.all fun j => i == j || rectPairRobust W sdom scov td tc (reg i) (reg j)

/-- robustness of a VOGP / ε-PAL round (including the pessimistic test) -/
def vogpRobust (W : Mat) (slack : Vec) (tau : Rat) (reg : Nat → Box) (L : List Nat) : Bool :=
  L.all fun i => L.all fun j => i == j ||
    (rectPairRobust W slack slack tau tau (reg i) (reg j) &&
     (rectPessTol W (reg i) (reg j) tau == rectPessTol W (reg i) (reg j) (-tau)))

end VOPy.Core
