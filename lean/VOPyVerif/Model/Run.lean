import VOPyVerif.Model.Steps
/-!
# Whole runs of the nine algorithms (`vopy/algorithms/*.py`), import-free executable model

One state machine `step : Cfg → State → Env → State × Out` mirrors `run_one_step()` of every
algorithm class; `Cfg.alg` selects the family:

* **PaVeBa family** (`paveba`, `pavebaGP`, `pavebaPartial`) and **Auer**:
  early return if finished → `round += 1` → evaluating (over `A = S ∪ U`, Auer: `S`) → modelling
  (lives in the environment: the oracle answers of this round) → discarding → Pareto updating →
  useful updating (not Auer) → report `len(S) == 0` (`pavebaPartial`: `or total_cost >= budget`).
* **VOGP / ε-PAL / VOGP_AD**: early return → modelling → discarding → ε-covering (VOGP_AD: depth gate
  and latch) → evaluating *only if `S` is still non-empty* (over `W = S ∪ P`; VOGP_AD: one pick that
  is either refined — replaced *in its own set* by its children — or sampled) → `round += 1` →
  report `len(S) == 0`.
* **NaiveElimination**: finished iff `round == L`; each active step samples all `K` designs.
* **DecoupledGP**: finished iff `total_cost >= cost_budget`; each active step samples a batch of
  (design, objective) pairs and replaces `P` by the Pareto set of the posterior means (environment).

The *environment* `Env` of a round holds everything the step does not decide itself: the oracle
answers of the geometry predicates as relations over design indices (`Steps.Rel`), Auer's centres
and per-design width rows, the acquisition picks (design, objective index) in the order the optimiser returned
them, VOGP_AD's refinement test and DecoupledGP's new Pareto set.

**Batch selection.**  The model is total: from the picks offered by the environment it keeps those
that lie in the active set and takes the first `min(batch, |active|)` (decoupled problems:
`min(batch, m·|active|)` (design, objective) pairs) — that is what the property demands when
`batch_size` exceeds the remaining active set.  The situation itself (`batch > |active|`, where
`optimize_acqf_discrete` used to run out of choices and raise) is flagged in `Out.batchExceeds`.

`State` is one record for all families (`U` stays empty outside the PaVeBa family, `latch`,
`depths`, `parent` are VOGP_AD's `enable_epsilon_covering`, `point_depths` and the tree structure;
`totalCost` stays `0` where the class has no such attribute).
-/
namespace VOPy.Run
open VOPy VOPy.Steps

/-- the algorithm classes (PaVeBaGP's `IH`/`DE` and PaVeBaPartialGP's two confidence types differ
only inside the oracles, i.e. in the environment) -/
inductive Alg where
  | paveba | pavebaGP | pavebaPartial | vogp | epal | vogpAD | auer | naive | decoupled
  deriving DecidableEq, Repr, Inhabited

/-- the elimination algorithms: those that maintain a candidate set `S` -/
def Alg.elim : Alg → Bool
  | .naive => false
  | .decoupled => false
  | _ => true

/-- static configuration of a run -/
structure Cfg where
  alg : Alg
  /-- number of designs (fixed-design algorithms) -/
  K : Nat
  /-- number of objectives -/
  m : Nat
  /-- `batch_size` -/
  batch : Nat
  /-- per-objective costs (`None` allowed for PaVeBaPartialGP) -/
  costs : Option (List Rat)
  /-- `cost_budget` (`none` = `np.inf`) -/
  budget : Option Rat
  /-- NaiveElimination's number of sampling rounds -/
  L : Nat
  /-- Auer's ε -/
  eps : Rat
  /-- VOGP_AD: `max_discretization_depth` -/
  maxDepth : Nat
  /-- VOGP_AD: children per refinement (`2 ^ in_dim`) -/
  branch : Nat

/-- run state: the attributes of the algorithm object the property speaks about -/
structure State where
  S : List Nat
  P : List Nat
  U : List Nat
  round : Nat
  sampleCount : Nat
  totalCost : Rat
  /-- VOGP_AD `enable_epsilon_covering` -/
  latch : Bool
  /-- VOGP_AD `design_space.point_depths` (one entry per node ever created) -/
  depths : List Nat
  /-- VOGP_AD: parent of every node (the root is its own parent) -/
  parent : List Nat
  deriving DecidableEq, Repr

/-- what the environment decides in one round -/
structure Env where
  /-- `isDom i j` : region `i` is dominated by region `j` (with the algorithm's slack) -/
  isDom : Rel
  /-- `isCov i j` : region `i` is covered by region `j` -/
  isCov : Rel
  /-- `pessDom j i` : region `j` pessimistically dominates region `i` -/
  pessDom : Rel
  /-- Auer: centre of the displayed region of a design -/
  centre : Nat → Vec
  /-- Auer: `beta_t[design]`, the width row of a design (looked up by design) -/
  width : Nat → Vec
  /-- acquisition picks (design, objective index) in the optimiser's order -/
  picks : List (Nat × Nat)
  /-- VOGP_AD: `scale·‖σ‖ ≤ ‖V_h‖` for the picked node -/
  refineTest : Bool
  /-- DecoupledGP: Pareto set of the posterior means after this round's update -/
  pareto : List Nat

/-- an evaluation requested from the problem: design and (decoupled problems) objective index -/
abbrev Req := Nat × Option Nat

/-- what one `run_one_step()` call shows to the outside -/
structure Out where
  /-- the returned flag -/
  done : Bool
  /-- evaluations requested from `problem.evaluate` in this call -/
  req : List Req
  /-- VOGP_AD: the node refined in this call -/
  refined : Option Nat
  /-- flag, not behaviour: `batch_size` exceeded the active set the batch was drawn from (the
  property demands `min(batch, |active|)` samples; the code raises in `optimize_acqf_discrete`) -/
  batchExceeds : Bool
  /-- the number of evaluations this call is expected to request: `|active|` for PaVeBa / Auer /
  NaiveElimination, `min(batch, |active|)` (decoupled: `min(batch, m·|active|)`) for the batched
  algorithms, `0` when nothing is evaluated; `req.length ≤ cap`, with equality as soon as the
  environment offers enough valid picks -/
  cap : Nat := 0
  deriving DecidableEq, Repr

/-! ## accounting -/

/-- `self.costs[o]` -/
def costOf (c : Cfg) (o : Nat) : Rat :=
  match c.costs with
  | none => 0
  | some cs => cs.getD o 0

/-- cost charged for one request (`if self.costs is not None: total_cost += costs[eval_indices]`) -/
def reqCost (c : Cfg) : Req → Rat
  | (_, some o) => costOf c o
  | (_, none) => 0

/-- summed cost of a list of requests -/
def reqsCost (c : Cfg) (rs : List Req) : Rat := (rs.map (reqCost c)).sum

/-- `self.total_cost >= self.cost_budget` -/
def budgetReached (c : Cfg) (s : State) : Bool :=
  match c.budget with
  | none => false
  | some b => decide (b ≤ s.totalCost)

/-- the termination test evaluated at the start and at the end of `run_one_step()` -/
def isDone (c : Cfg) (s : State) : Bool :=
  match c.alg with
  | .naive => s.round == c.L
  | .decoupled => budgetReached c s
  | .pavebaPartial => s.S.isEmpty || budgetReached c s
  | _ => s.S.isEmpty

/-! ## batch selection -/

/-- coupled batch (`optimize_acqf_discrete`): picks inside the active set, at most
`min(batch, |active|)` of them -/
def cappedC (c : Cfg) (active : List Nat) (picks : List (Nat × Nat)) : List Req :=
  ((picks.filter (fun p => active.contains p.1)).take (min c.batch active.length)).map
    (fun p => (p.1, none))

/-- decoupled batch (`optimize_decoupled_acqf_discrete`): (design, objective) pairs with the design
in the active set and a valid objective index, at most `min(batch, m·|active|)` of them (there are
`m·|active|` distinct evaluations to choose from) -/
def cappedD (c : Cfg) (active : List Nat) (picks : List (Nat × Nat)) : List Req :=
  ((picks.filter (fun p => active.contains p.1 && decide (p.2 < c.m))).take
    (min c.batch (c.m * active.length))).map (fun p => (p.1, some p.2))

/-- every design of the active set once (PaVeBa, Auer, NaiveElimination) -/
def allOf (active : List Nat) : List Req := active.map (fun d => (d, none))

/-- the code's `optimize_acqf_discrete(acq, q, choices)` runs out of choices -/
def exceeds (c : Cfg) (active : List Nat) : Bool := decide (active.length < c.batch)

/-- result of the active part of a step -/
structure Act where
  st : State
  req : List Req
  refined : Option Nat := none
  exceeds : Bool := false
  cap : Nat := 0

/-- bookkeeping shared by all families: `round += 1`, `sample_count += len(requested)`,
`total_cost += Σ costs[objective]` -/
def account (c : Cfg) (s : State) (req : List Req) : State :=
  { s with round := s.round + 1
           sampleCount := s.sampleCount + req.length
           totalCost := s.totalCost + reqsCost c req }

/-! ## the families -/

/-- PaVeBa / PaVeBaGP / PaVeBaPartialGP: evaluating over `A = S ∪ U` first, then the three
decision phases -/
def pavebaActive (c : Cfg) (s : State) (e : Env) : Act :=
  let A := union s.S s.U
  let req := match c.alg with
    | .paveba => allOf A
    | .pavebaGP => cappedC c A e.picks
    | _ => cappedD c A e.picks
  let r := pavebaRound e.isDom e.isCov s.S s.P s.U
  { st := account c { s with S := r.1, P := r.2.1, U := r.2.2 } req
    req := req
    exceeds := match c.alg with
      | .paveba => false
      | _ => exceeds c A
    cap := match c.alg with
      | .paveba => A.length
      | .pavebaGP => min c.batch A.length
      | _ => min c.batch (c.m * A.length) }

/-- Auer: evaluating over `S`, then discarding and Pareto updating with `beta_t` looked up by
design -/
def auerActive (c : Cfg) (s : State) (e : Env) : Act :=
  let req := allOf s.S
  let r := auerRound c.eps e.centre e.width s.S s.P
  { st := account c { s with S := r.1, P := r.2 } req
    req := req
    cap := s.S.length }

/-- VOGP / ε-PAL: discarding, ε-covering, then evaluating over `W = S ∪ P` only if `S ≠ ∅` -/
def vogpActive (c : Cfg) (s : State) (e : Env) : Act :=
  let r := vogpRound e.isDom e.isCov e.pessDom s.S s.P
  let W := union r.1 r.2
  let req := if r.1.isEmpty then [] else cappedC c W e.picks
  { st := account c { s with S := r.1, P := r.2 } req
    req := req
    exceeds := !r.1.isEmpty && exceeds c W
    cap := if r.1.isEmpty then 0 else min c.batch W.length }

/-- depth of a node (`point_depths[i]`) -/
def depthOf (s : State) (i : Nat) : Nat := s.depths.getD i 0

/-- indices of the children created by refining a node when `n` nodes exist -/
def childIds (c : Cfg) (n : Nat) : List Nat := (List.range c.branch).map (n + ·)

/-- what `evaluate_refine()` decides to do with the design the acquisition picked -/
inductive Choice where
  /-- the environment offered no pick inside `W` (the model is total) -/
  | idle
  /-- `problem.evaluate` on the picked node -/
  | sample (d : Nat)
  /-- the picked node is in `S` and is refined -/
  | refineS (d : Nat)
  /-- the picked node is in `P` and is refined -/
  | refineP (d : Nat)
  deriving DecidableEq, Repr

/-- the first pick inside `W = S ∪ P` is refined if its depth is below the maximum
(`should_refine_design` returns `False` at `max_depth`) and the environment's test says so,
otherwise it is sampled -/
def choose (c : Cfg) (s : State) (e : Env) : Choice :=
  match (e.picks.filter (fun p => (union s.S s.P).contains p.1)).head? with
  | none => .idle
  | some p =>
    if decide (depthOf s p.1 < c.maxDepth) && e.refineTest then
      if s.S.contains p.1 then .refineS p.1 else .refineP p.1
    else .sample p.1

/-- `design_space.refine_design(d)`: `branch` new nodes one level below `d` -/
def grow (c : Cfg) (s : State) (d : Nat) : State :=
  { s with depths := s.depths ++ List.replicate c.branch (depthOf s d + 1)
           parent := s.parent ++ List.replicate c.branch d }

/-- carry out the choice: children replace a refined node *in its own set* -/
def applyChoice (c : Cfg) (s : State) : Choice → Act
  | .idle => { st := account c s [], req := [] }
  | .sample d => { st := account c s [(d, none)], req := [(d, none)], cap := 1 }
  | .refineS d =>
    { st := account c { grow c s d with S := s.S.erase d ++ childIds c s.depths.length } []
      req := [], refined := some d }
  | .refineP d =>
    { st := account c { grow c s d with P := s.P.erase d ++ childIds c s.depths.length } []
      req := [], refined := some d }

/-- `evaluate_refine()` on the sets `S`, `P` after ε-covering -/
def evalRefine (c : Cfg) (s : State) (e : Env) : Act := applyChoice c s (choose c s e)

/-- VOGP_AD: discarding, gated ε-covering, then `evaluate_refine()` only if `S ≠ ∅` -/
def adActive (c : Cfg) (s : State) (e : Env) : Act :=
  let r := vogpADRound e.isDom e.isCov e.pessDom (depthOf s) c.maxDepth s.latch s.S s.P
  let s1 := { s with S := r.1, P := r.2.1, latch := r.2.2 }
  if r.1.isEmpty then { st := account c s1 [], req := [] } else evalRefine c s1 e

/-- NaiveElimination: all `K` designs are sampled -/
def naiveActive (c : Cfg) (s : State) : Act :=
  let req := allOf (List.range c.K)
  { st := account c s req, req := req, cap := c.K }

/-- DecoupledGP: a batch of (design, objective) pairs over all designs; `P` is recomputed -/
def decoupledActive (c : Cfg) (s : State) (e : Env) : Act :=
  let all := List.range c.K
  let req := cappedD c all e.picks
  { st := account c { s with P := e.pareto } req
    req := req
    exceeds := exceeds c all
    cap := min c.batch (c.m * all.length) }

/-- the part of `run_one_step()` after the early return -/
def active (c : Cfg) (s : State) (e : Env) : Act :=
  match c.alg with
  | .paveba => pavebaActive c s e
  | .pavebaGP => pavebaActive c s e
  | .pavebaPartial => pavebaActive c s e
  | .auer => auerActive c s e
  | .vogp => vogpActive c s e
  | .epal => vogpActive c s e
  | .vogpAD => adActive c s e
  | .naive => naiveActive c s
  | .decoupled => decoupledActive c s e

/-- one call of `run_one_step()` -/
def step (c : Cfg) (s : State) (e : Env) : State × Out :=
  if isDone c s then (s, { done := true, req := [], refined := none, batchExceeds := false })
  else
    let a := active c s e
    (a.st, { done := isDone c a.st, req := a.req, refined := a.refined, batchExceeds := a.exceeds,
             cap := a.cap })

/-- the state right after the constructor -/
def init (c : Cfg) : State :=
  { S := match c.alg with
      | .naive => []
      | .decoupled => []
      | .vogpAD => [0]
      | _ => List.range c.K
    P := [], U := [], round := 0, sampleCount := 0, totalCost := 0, latch := false
    depths := match c.alg with | .vogpAD => [1] | _ => []
    parent := match c.alg with | .vogpAD => [0] | _ => [] }

/-- a whole run prefix: the final state and the outputs of every call -/
def run (c : Cfg) (s : State) : List Env → State × List Out
  | [] => (s, [])
  | e :: es =>
    let r := step c s e
    let q := run c r.1 es
    (q.1, r.2 :: q.2)

/-- all requests of a list of outputs, in order -/
def allReqs (outs : List Out) : List Req := outs.flatMap (·.req)

/-! ## The decidable specification relation (R)

`specOk c s s' o` is evaluated by the driver on what the *implementation* showed: the attributes
before (`s`) and after (`s'`) one real `run_one_step()` call and the observed output `o` (returned
flag, evaluations recorded by the proxy on `algorithm.problem`, the node refined).  It says what the
property demands of a single call; `Props/C06.lean` proves that the model's `step` satisfies it on
every well-formed state and that it implies the Prop-level statements. -/

def subsetB (a b : List Nat) : Bool := a.all (fun i => b.contains i)
def sameSet (a b : List Nat) : Bool := subsetB a b && subsetB b a
def disjointB (a b : List Nat) : Bool := a.all (fun i => !b.contains i)

/-- the same observable state (index sets compared as sets) -/
def sameState (s t : State) : Bool :=
  sameSet s.S t.S && sameSet s.P t.P && sameSet s.U t.U && s.round == t.round &&
  s.sampleCount == t.sampleCount && decide (s.totalCost = t.totalCost) && s.latch == t.latch &&
  s.depths == t.depths

/-- the set from which this call's evaluations are drawn -/
def activeAt (c : Cfg) (s s' : State) : List Nat :=
  match c.alg with
  | .paveba => union s.S s.U
  | .pavebaGP => union s.S s.U
  | .pavebaPartial => union s.S s.U
  | .auer => s.S
  | .vogp => if s'.S.isEmpty then [] else union s'.S s'.P
  | .epal => if s'.S.isEmpty then [] else union s'.S s'.P
  | .vogpAD => if s'.S.isEmpty then [] else union s.S s.P
  | .naive => List.range c.K
  | .decoupled => List.range c.K

/-- does this algorithm sample every active design exactly once per round? -/
def Alg.evalAll : Alg → Bool
  | .paveba => true
  | .auer => true
  | .naive => true
  | _ => false

/-- requests of one call: drawn from the active set; all of it (once each) for PaVeBa, Auer and
NaiveElimination, at most `min(batch, |active|)` otherwise (`min(batch, m·|active|)` pairs for the
decoupled problems); objective indices exactly for the decoupled problems and valid -/
def reqsOk (c : Cfg) (s s' : State) (o : Out) : Bool :=
  let act := activeAt c s s'
  o.req.all (fun r => act.contains r.1) &&
  (if c.alg.evalAll then
     o.req.length == act.length && act.all (fun d => o.req.any (fun r => r.1 == d)) &&
     o.req.all (fun r => r.2.isNone)
   else
     decide (o.req.length ≤ min c.batch ((match c.alg with
        | .pavebaPartial => c.m
        | .decoupled => c.m
        | _ => 1) * act.length)) &&
     (match c.alg with
      | .pavebaPartial => o.req.all (fun r => match r.2 with | some k => decide (k < c.m) | none => false)
      | .decoupled => o.req.all (fun r => match r.2 with | some k => decide (k < c.m) | none => false)
      | _ => o.req.all (fun r => r.2.isNone)))

/-- set transitions of one call of a fixed-design elimination algorithm -/
def setsOk (s s' : State) : Bool :=
  subsetB s'.S s.S && subsetB s.P s'.P && subsetB s'.P (s.S ++ s.P)

/-- set transitions of one call of VOGP_AD (`n` nodes existed before the call) -/
def adSetsOk (c : Cfg) (s s' : State) (o : Out) : Bool :=
  let kids := childIds c s.depths.length
  match o.refined with
  | none => s'.depths == s.depths && setsOk s s'
  | some d =>
      o.req.isEmpty &&
      decide (depthOf s d < c.maxDepth) &&
      s'.depths == s.depths ++ List.replicate c.branch (depthOf s d + 1) &&
      !s'.S.contains d && !s'.P.contains d &&
      (s.S.contains d || s.P.contains d) &&
      s'.S.all (fun i => s.S.contains i || kids.contains i) &&
      s.P.all (fun p => s'.P.contains p || p == d) &&
      s'.P.all (fun p => s.P.contains p || s.S.contains p || kids.contains p) &&
      (kids.all (fun k => s'.S.contains k) || kids.all (fun k => s'.P.contains k)) &&
      (!s.P.contains d || kids.all (fun k => s'.P.contains k)) &&
      (!s.S.contains d || s.latch || kids.all (fun k => s'.S.contains k))

/-- relation (R) for one `run_one_step()` call -/
def specOk (c : Cfg) (s s' : State) (o : Out) : Bool :=
  if isDone c s then
    sameState s s' && o.done && o.req.isEmpty && o.refined.isNone
  else
    s'.round == s.round + 1 &&
    s'.sampleCount == s.sampleCount + o.req.length &&
    decide (s'.totalCost = s.totalCost + reqsCost c o.req) &&
    o.done == isDone c s' &&
    reqsOk c s s' o &&
    (if c.alg.elim then
       disjointB s'.S s'.P && subsetB s'.U s'.P &&
       (match c.alg with
        | .vogpAD => adSetsOk c s s' o
        | _ => o.refined.isNone && setsOk s s')
     else o.refined.isNone)

end VOPy.Run
