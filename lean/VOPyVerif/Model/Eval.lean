import VOPyVerif.Model.Basic
/-!
# Gaps, ε-coverage and ε-F1 (`vopy/utils/utils.py`, `vopy/utils/evaluate.py`) — import-free model

## Gap formula (generic carrier)

`gdot`, `gsub`, `relu`, `prods`, `minL`, `smallM`, `smallMB`, `deltaRow`, `delta` are written once
over any carrier `K` with `+ − × ÷ 0 <`.  The driver runs them at `Rat` (every float is a rational);
the theorems (`Props/C19.lean`) are about *the same terms* at an arbitrary ordered field (ℝ included,
where the cone constants `α_n` live).

* `smallM vi vj W α`  = `get_smallmij` when `alpha_vec` is a flat `(N,)` array:
  `min_n max(0, w_n·(vj − vi)) / α_n`.  `none` = the `ValueError` numpy raises (`.min()` of an empty
  array; operands that do not broadcast).
* `smallMB vi vj W α` = `get_smallmij` when `alpha_vec` is the documented `(N, 1)` column (what
  `get_alpha_vec` returns and `get_delta` / `calculate_epsilonF1_score` pass): numpy broadcasts
  `(N,) / (N, 1)` to the `N × N` table `prod[k] / α[n]` and `.min()` runs over the whole table.
* `delta mu W α` = `get_delta` (max over **all** `j`, `j = i` included, starting from `0`);
  `deltaB` the same through `smallMB`.

## ε-coverage (exact, certified)

`is_covered(vi, vj, ε, W)` asks a solver for `x` with `W x ≥ 0`, `‖x + (vi − vj)‖ ≤ ε`,
`W (x + vi − vj) ≥ 0`.  With `y = x + (vi − vj)` this is `W y ≥ 0`, `W y ≥ W (vi − vj)`, `‖y‖ ≤ ε`,
i.e. row-wise `w_n · y ≥ b_n` with `b_n = max(0, w_n·(vi − vj))` (`coverRhs`).  The model computes the
exact minimum of `‖y‖²` over that polyhedron by active-set enumeration (`project`, *untrusted*) and
accepts the answer only if the KKT checker `checkKKT` passes (soundness: `Props/C19.lean`); an empty
polyhedron is recognised through a Farkas certificate (`checkFarkas`).  `coverSolve` therefore
returns a certified squared distance, a certified "infeasible", or `unknown`.

## Counting and F1

`uncoveredSet` / `uncoveredSize` (the `for … else` loops with their `break`), `f1Counts`, `f1Of`,
`f1` (= `calculate_epsilonF1_score`, including `list(set(true) − set(pred))`, multiplicities of
`pred_indices`, and the `0/0 = nan` case).
-/
namespace VOPy.Eval

/-! ## generic gap formula -/
section Generic
variable {K : Type} [Add K] [Sub K] [Mul K] [Div K] [OfNat K 0] [LT K] [DecidableLT K]

def gdot : List K → List K → K
  | a :: as, b :: bs => a * b + gdot as bs
  | _, _ => 0

def gsub (a b : List K) : List K := List.zipWith (· - ·) a b

/-- `x[x < 0] = 0` -/
def relu (x : K) : K := if x < 0 then 0 else x

def gmin (a b : K) : K := if b < a then b else a
/-- Python `max(a, b)`: `b` only if `b > a` -/
def gmax (a b : K) : K := if a < b then b else a

/-- `prod = W @ (vj − vi); prod[prod < 0] = 0` -/
def prods (vi vj : List K) (W : List (List K)) : List K :=
  W.map (fun w => relu (gdot w (gsub vj vi)))

/-- `ndarray.min()`; `none` on the empty array (numpy raises `ValueError`) -/
def minL : List K → Option K
  | [] => none
  | x :: xs => some (xs.foldl gmin x)

/-- `get_smallmij` with a flat `alpha_vec` of shape `(N,)`; shapes that do not match → `none`. -/
def smallM (vi vj : List K) (W : List (List K)) (α : List K) : Option K :=
  if α.length = W.length then minL (List.zipWith (· / ·) (prods vi vj W) α) else none

/-- `get_smallmij` with the `(N, 1)` column `alpha_vec`: min over the broadcast `N × N` table. -/
def smallMB (vi vj : List K) (W : List (List K)) (α : List K) : Option K :=
  if α.length = W.length then minL (α.flatMap (fun a => (prods vi vj W).map (· / a))) else none

/-- inner loop of `get_delta` for a fixed `vi`: `acc = max(acc, m(i, j))` over the rows `vj` -/
def deltaRowWith (sm : List K → List K → Option K) (vi : List K) : List (List K) → K → Option K
  | [], acc => some acc
  | vj :: rest, acc =>
    match sm vi vj with
    | none => none
    | some m => deltaRowWith sm vi rest (gmax acc m)

def deltaWith (sm : List K → List K → Option K) (mu : List (List K)) : Option (List K) :=
  mu.mapM (fun vi => deltaRowWith sm vi mu 0)

/-- `Δ*_i` for the row `vi` of `mu` (flat `alpha_vec`) -/
def deltaRow (vi : List K) (mu W : List (List K)) (α : List K) : Option K :=
  deltaRowWith (fun a b => smallM a b W α) vi mu 0

/-- `get_delta` with a flat `alpha_vec` -/
def delta (mu W : List (List K)) (α : List K) : Option (List K) :=
  deltaWith (fun a b => smallM a b W α) mu

/-- `get_delta` with the `(N, 1)` column `alpha_vec` (as `calculate_epsilonF1_score` calls it) -/
def deltaB (mu W : List (List K)) (α : List K) : Option (List K) :=
  deltaWith (fun a b => smallMB a b W α) mu

end Generic

/-! ## ε-coverage: exact projection with certificates (over `Rat`) -/

def zeros (D : Nat) : Vec := List.replicate D 0

/-- `c·a + b` -/
def axpy (c : Rat) (a b : Vec) : Vec := List.zipWith (fun x y => c * x + y) a b

/-- `Σ_k lam_k · w_k` as a `D`-vector -/
def lincomb (D : Nat) : Mat → Vec → Vec
  | w :: W, l :: ls => axpy l w (lincomb D W ls)
  | _, _ => zeros D

/-- every row constraint `b_n ≤ w_n · y` holds (and `b` has one entry per row) -/
def feasible : Mat → Vec → Vec → Bool
  | w :: W, b :: bs, y => decide (b ≤ gdot w y) && feasible W bs y
  | [], [], _ => true
  | _, _, _ => false

/-- complementary slackness `lam_n · (w_n·y − b_n) = 0` for every row (and matching lengths) -/
def complSlack : Mat → Vec → Vec → Vec → Bool
  | w :: W, b :: bs, l :: ls, y => decide (l * (gdot w y - b) = 0) && complSlack W bs ls y
  | [], [], [], _ => true
  | _, _, _, _ => false

def rowsHaveLen (D : Nat) (W : Mat) : Bool := W.all (fun w => decide (w.length = D))

/-- **Checker** (KKT for `min ‖y‖²` over `{y | W y ≥ b}`): `y` feasible, `lam ≥ 0`,
`y = Σ lam_n w_n`, complementary slackness. -/
def checkKKT (D : Nat) (W : Mat) (b y lam : Vec) : Bool :=
  decide (y.length = D) && rowsHaveLen D W && feasible W b y && allNonneg lam &&
  decide (y = lincomb D W lam) && complSlack W b lam y

/-- **Checker** (Farkas): `lam ≥ 0`, `Σ lam_n w_n = 0`, `Σ lam_n b_n > 0` — `{y | W y ≥ b}` is empty. -/
def checkFarkas (D : Nat) (W : Mat) (b lam : Vec) : Bool :=
  rowsHaveLen D W && decide (lam.length = W.length) && decide (b.length = W.length) &&
  allNonneg lam && decide (lincomb D W lam = zeros D) && decide (0 < gdot lam b)

/-! ### untrusted search -/

def headD (v : Vec) : Rat := match v with | [] => 0 | x :: _ => x

/-- Gaussian elimination for a square system given as rows `(coefficients, rhs)`; `none` if singular. -/
def solveLin : Nat → List (Vec × Rat) → Option Vec
  | 0, _ => some []
  | n + 1, rows =>
    match rows.partition (fun r => decide (headD r.1 ≠ 0)) with
    | (p :: ps, zs) =>
      let c := headD p.1
      let others := (ps ++ zs).map (fun r =>
        let f := headD r.1 / c
        (vsub r.1.tail (smul f p.1.tail), r.2 - f * p.2))
      match solveLin n others with
      | some xs => some ((p.2 - gdot p.1.tail xs) / c :: xs)
      | none => none
    | ([], _) => none

/-- all sub-lists with at most `k` elements -/
def subsetsUpTo {α : Type} : Nat → List α → List (List α)
  | _, [] => [[]]
  | 0, _ => [[]]
  | k + 1, x :: xs => subsetsUpTo (k + 1) xs ++ (subsetsUpTo k xs).map (x :: ·)

def pick {α : Type} (l : List α) (S : List Nat) : List α := S.filterMap (fun k => l[k]?)

/-- spread multipliers `mu` living on the index list `S` to a full-length vector -/
def scatter (N : Nat) (S : List Nat) (mu : Vec) : Vec :=
  (List.range N).map (fun k => ((S.zip mu).lookup k).getD 0)

/-- multipliers of the minimum-norm point of `{y | w_k · y = b_k, k ∈ S}` (Gram system) -/
def gramSolve (A : Mat) (r : Vec) : Option Vec :=
  solveLin A.length ((A.map (fun a => A.map (fun a' => gdot a a'))).zip r)

/-- candidate `(y, lam)` for the active set `S` -/
def candidate (D : Nat) (W : Mat) (b : Vec) (S : List Nat) : Option (Vec × Vec) :=
  let A := pick W S
  match gramSolve A (pick b S) with
  | some mu => some (lincomb D A mu, scatter W.length S mu)
  | none => none

/-- **Search** (untrusted) for the minimum-norm point of `{y | W y ≥ b}`; every answer passed the
KKT checker. -/
def project (D : Nat) (W : Mat) (b : Vec) : Option (Vec × Vec) :=
  (subsetsUpTo D (List.range W.length)).findSome? (fun S =>
    match candidate D W b S with
    | some (y, lam) => if checkKKT D W b y lam then some (y, lam) else none
    | none => none)

/-- Farkas candidate: rows `S` (independent) plus row `r`, `lam_r = 1`, `Σ_{k∈S} lam_k w_k = −w_r`. -/
def farkasCandidate (W : Mat) (S : List Nat) (r : Nat) : Option Vec :=
  match W[r]? with
  | none => none
  | some wr =>
    let A := pick W S
    match gramSolve A (A.map (fun a => -(gdot a wr))) with
    | some mu => some (scatter W.length (r :: S) (1 :: mu))
    | none => none

/-- **Search** (untrusted) for a Farkas certificate of emptiness; every answer passed `checkFarkas`. -/
def findFarkas (D : Nat) (W : Mat) (b : Vec) : Option Vec :=
  (subsetsUpTo D (List.range W.length)).findSome? (fun S =>
    ((List.range W.length).filter (fun r => !S.contains r)).findSome? (fun r =>
      match farkasCandidate W S r with
      | some lam => if checkFarkas D W b lam then some lam else none
      | none => none))

/-- right-hand sides of the covering polyhedron: `b_n = max(0, w_n · (vi − vj))` -/
def coverRhs (vi vj : Vec) (W : Mat) : Vec := W.map (fun w => relu (gdot w (gsub vi vj)))

inductive CoverRes where
  /-- certified: the polyhedron's minimum-norm point `y` (multipliers `lam`), `d2 = ‖y‖²` -/
  | dist2 (d2 : Rat) (y lam : Vec)
  /-- certified: the polyhedron is empty (Farkas multipliers `lam`) -/
  | infeasible (lam : Vec)
  | unknown

/-- squared distance from the origin to `{y | W y ≥ 0, W y ≥ W (vi − vj)}`, with certificate -/
def coverSolve (vi vj : Vec) (W : Mat) : CoverRes :=
  let D := vi.length
  let b := coverRhs vi vj W
  if vj.length ≠ D then .unknown else
  match project D W b with
  | some (y, lam) => .dist2 (gdot y y) y lam
  | none =>
    match findFarkas D W b with
    | some lam => .infeasible lam
    | none => .unknown

/-- `is_covered(vi, vj, ε, W)` in exact arithmetic; `none` = no certificate found. -/
def isCoveredPt (vi vj : Vec) (ε : Rat) (W : Mat) : Option Bool :=
  match coverSolve vi vj W with
  | .dist2 d2 _ _ => some (decide (0 ≤ ε) && decide (d2 ≤ ε * ε))
  | .infeasible _ => some false
  | .unknown => none

/-! ## counting loops and the F1 score -/

/-- `for j in …: if cov(j): break` — `some true` as soon as a covering `j` is met; an undecided
`j` met before that makes the answer undecided. -/
def anyM {β : Type} (f : β → Option Bool) : List β → Option Bool
  | [] => some false
  | x :: xs =>
    match f x with
    | none => none
    | some true => some true
    | some false => anyM f xs

/-- `get_uncovered_set`: the members of `P` (in order, with repetitions) that no member of `Phat`
covers. -/
def uncoveredSet {α β : Type} (cov : α → β → Option Bool) : List α → List β → Option (List α)
  | [], _ => some []
  | i :: is, hat =>
    match anyM (cov i) hat, uncoveredSet cov is hat with
    | some c, some rest => some (if c then rest else i :: rest)
    | _, _ => none

/-- `get_uncovered_size` -/
def uncoveredSize {α β : Type} (cov : α → β → Option Bool) (P : List α) (hat : List β) : Option Nat :=
  (uncoveredSet cov P hat).map List.length

/-- `is_covered` on points -/
def covPt (ε : Rat) (W : Mat) (vi vj : Vec) : Option Bool := isCoveredPt vi vj ε W

/-- `is_covered(mu[i], mu[j], ε, W)`; an index out of range is undecided (the driver reports
`IndexError` before getting here) -/
def covIdx (mu : Mat) (ε : Rat) (W : Mat) (i j : Nat) : Option Bool :=
  match mu[i]?, mu[j]? with
  | some vi, some vj => isCoveredPt vi vj ε W
  | _, _ => none

/-- `set(l)` as a duplicate-free list (the order of a Python set is irrelevant: only counts of its
members are used) -/
def dedup : List Nat → List Nat
  | [] => []
  | x :: xs => if xs.contains x then dedup xs else x :: dedup xs

/-- `list(set(true_indices) − set(pred_indices))` -/
def missed (truth pred : List Nat) : List Nat := (dedup truth).filter (fun i => !pred.contains i)

/-- `(tp, fp, uncovered_missed_pareto_count)` of `calculate_epsilonF1_score`, for an abstract
coverage predicate `cov i j` and gap predicate `good k` (= `delta_k ≤ ε`).  `pred` counts with
multiplicity, as `len(pred_indices)` and the fancy-indexed sum do. -/
def f1Counts (cov : Nat → Nat → Option Bool) (good : Nat → Bool) (truth pred : List Nat) :
    Option (Nat × Nat × Nat) :=
  match uncoveredSize cov (missed truth pred) pred with
  | none => none
  | some unc =>
    let tp := (pred.filter good).length
    some (tp, pred.length - tp, unc)

/-- `2·tp / (2·tp + fp + unc)`; `none` = the `0/0 → nan` of the code -/
def f1Of (c : Nat × Nat × Nat) : Option Rat :=
  let den : Nat := 2 * c.1 + c.2.1 + c.2.2
  if den = 0 then none else some ((2 * c.1 : Nat) / (den : Rat))

def goodIdx (ds : Vec) (ε : Rat) (k : Nat) : Bool :=
  match ds[k]? with
  | some d => decide (d ≤ ε)
  | none => false

inductive F1Res where
  | val (q : Rat)
  | nan
  | unknown
  | valueError
  deriving DecidableEq

/-- `calculate_epsilonF1_score` given the gap vector `ds` the code computed (`get_delta`) -/
def f1FromDelta (mu W : Mat) (ds : Option Vec) (truth pred : List Nat) (ε : Rat) : F1Res :=
  match ds with
  | none => .valueError
  | some ds =>
    match f1Counts (covIdx mu ε W) (goodIdx ds ε) truth pred with
    | none => .unknown
    | some c =>
      match f1Of c with
      | none => .nan
      | some q => .val q

/-- the score with the gaps of the geometric definition (flat `α`) -/
def f1 (mu W : Mat) (α : Vec) (truth pred : List Nat) (ε : Rat) : F1Res :=
  f1FromDelta mu W (delta mu W α) truth pred ε

/-- the score exactly as the code computes it today (`get_delta` fed the `(N, 1)` column) -/
def f1B (mu W : Mat) (α : Vec) (truth pred : List Nat) (ε : Rat) : F1Res :=
  f1FromDelta mu W (deltaB mu W α) truth pred ε

end VOPy.Eval
