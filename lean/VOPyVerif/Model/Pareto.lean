import VOPyVerif.Model.Basic
/-!
# Pareto-set extraction (`vopy/order.py`), import-free executable model

`Pareto.fast` is `PolyhedralConeOrder.get_pareto_set` in *split form*: the list of (index, vector)
pairs is cut at the scan position into `pre` (pivots so far, surviving) and `post` (not yet
examined).  One iteration of the Python `while` loop takes the pivot `v = elements[next]`, masks
out everything `v` dominates (except `v` itself) in both parts, and sets
`next = sum(mask[:next]) + 1`, i.e. the position right after `v` in the compacted array.

`Pareto.naive` is `get_pareto_set_naive`: keep `el` unless some `other` with `¬ eqv el other`
dominates it (`eqv` is `np.allclose` in the code).

Both are parametric in the element type and the relation `dom a b` = "`a` dominates `b`".
-/
namespace VOPy.Pareto

variable {α : Type}

/-- remove everything the pivot `v` dominates -/
def rm (dom : α → α → Bool) (v : Nat × α) (l : List (Nat × α)) : List (Nat × α) :=
  l.filter (fun e => !dom v.2 e.2)

theorem rm_length_le (dom : α → α → Bool) (v : Nat × α) (l : List (Nat × α)) :
    (rm dom v l).length ≤ l.length := List.length_filter_le _ _

/-- `pre` = already used as pivots (and surviving), `post` = not yet examined. -/
def loop (dom : α → α → Bool) : List (Nat × α) → List (Nat × α) → List (Nat × α)
  | pre, [] => pre
  | pre, v :: post => loop dom (rm dom v pre ++ [v]) (rm dom v post)
termination_by _ post => post.length
decreasing_by
  simp only [List.length_cons]
  exact Nat.lt_succ_of_le (rm_length_le _ _ _)

/-- attach positions: `[(0, x₀), (1, x₁), …]` -/
def indexed (xs : List α) : List (Nat × α) := xs.zipIdx.map fun (a, i) => (i, a)

/-- `get_pareto_set`: indices of the kept elements -/
def fast (dom : α → α → Bool) (xs : List α) : List Nat :=
  (loop dom [] (indexed xs)).map (·.1)

/-- `get_pareto_set_naive` -/
def naive (eqv dom : α → α → Bool) (xs : List α) : List Nat :=
  ((indexed xs).filter (fun e => !(xs.any (fun o => !eqv e.2 o && dom o e.2)))).map (·.1)

/-- The decidable specification relation (R) checked on the *implementation's* output `idx`:
strictly increasing valid indices; kept elements pairwise unrelated; every input dominated by a
kept one; no kept element strictly dominated by an input. -/
def specOk (dom : α → α → Bool) (xs : List α) (idx : List Nat) : Bool :=
  let n := xs.length
  let get := fun i => xs[i]?
  idx.all (· < n) &&
  (idx.zip idx.tail).all (fun (a, b) => a < b) &&
  idx.all (fun i => idx.all (fun j => i == j ||
    match get i, get j with
    | some a, some b => !dom a b
    | _, _ => false)) &&
  xs.all (fun x => idx.any (fun i => match get i with | some a => dom a x | none => false)) &&
  idx.all (fun i => xs.all (fun x => match get i with
    | some a => !dom x a || dom a x
    | none => false))

/-- Relation for the naive routine: `i` kept iff no element with a different value dominates it. -/
def naiveSpecOk (eqv dom : α → α → Bool) (xs : List α) (idx : List Nat) : Bool :=
  let n := xs.length
  idx.all (· < n) &&
  (idx.zip idx.tail).all (fun (a, b) => a < b) &&
  (List.range n).all (fun i => match xs[i]? with
    | some a => (idx.contains i) == !(xs.any (fun o => !eqv a o && dom o a))
    | none => false)

end VOPy.Pareto
