/-!
# Adaptive discretisation (`vopy/design_space.py`) and VOGP_AD's set surgery (`vopy/algorithms/vogp_ad.py`)

Import-free executable model over `Rat` (every float the code produces here is a dyadic rational).

## The design space (`AdaptivelyDiscretizedDesignSpace`)

The Python object keeps four arrays in lock step: `points`, `cells`, `point_depths`,
`confidence_regions`; entry `i` of each describes tree node `i`.  The model keeps one list of
`Node` records: `nodes[i] = (points[i], cells[i], point_depths[i], regions[i].lower, regions[i].upper)`.

* `Space.root d m maxDepth` — the constructor: one node, point `[1/2]*d`, cell `[[0,1]]*d`,
  depth **1**, region `[-1e12]*m … [1e12]*m`.
* `childCells c` — `new_bounds` of `generate_child_designs`: `itertools.product` of the per-dimension
  options `[[lo, mid], [mid, hi]]`, `mid = (lo + hi) / 2` (first dimension varies slowest).
* `Space.refine s i` — `refine_design(i)` = `generate_child_designs(i)`: append, for every child
  cell in product order, the node (`centre` of the cell, the cell, parent depth + 1, the parent's
  region); returns the new space and the list of the new indices.
* `Space.shouldRefine s i vh` — `should_refine_design`: `False` if `point_depths[i] >= max_depth`,
  otherwise the result `vh` of the comparison `scale * ‖std‖ <= ‖Vh‖` (an input: the GP is not
  modelled).
* `Space.setRegion` — the effect of `update` on one node (the new bounds are inputs).

`refined` is a *ghost* field (not in the Python object): the indices on which `refine` was called.
A node is a *leaf* iff it is not in `refined`.

## The algorithm state (`VOGP_AD`)

`Algo` = design space, `S`, `P` (Python `set`s; here duplicate-free lists, compared as sorted
lists), the latch `enable_epsilon_covering`, `max_discretization_depth`, `sample_count`, `round`, and
the ghost list `dropped` of designs removed by `discarding()`.
The decisions that depend on the GP / geometry enter as inputs of the operations:

* `discard D`     — `discarding()`: `D` = `to_be_discarded` (must be members of `S`).
* `cover N`       — `epsiloncovering()`: the depth gate / latch is computed by the model; `N` = the
  members of `S` found "not covered" (`new_pareto_pts`), moved from `S` to `P` only if the gate is open.
* `evalRefine c vh` — `evaluate_refine()`: `c` = chosen candidate (member of `S ∪ P`), `vh` the
  comparison result; refines `c` and replaces it by its children **in the same set**, or samples.

`Algo.apply` / `Algo.run` execute one / a list of such operations (`Op`); `Algo.step` composes them
as `run_one_step()` does and `Algo.steps` iterates it.  `Space.applyOp` / `Space.runOps` do the same
for design-space-only sequences (`SOp`: direct refinement, guarded refinement, region update);
`Space.leafOnly` says that every refinement of such a sequence hit a leaf.  `none` always stands for
"the Python code would raise here" (index out of range, `set.remove` of a missing element).
-/
namespace VOPy.Adaptive

/-- a cell: per dimension the pair `(lo, hi)` — one entry of `cells` -/
abbrev Cell := List (Rat × Rat)

/-- one tree node = entry `i` of the four parallel arrays -/
structure Node where
  point : List Rat
  cell : Cell
  depth : Nat
  lower : List Rat
  upper : List Rat
deriving DecidableEq, Repr, Inhabited

structure Space where
  maxDepth : Nat
  nodes : List Node
  /-- ghost: indices that have been refined (internal nodes of the tree) -/
  refined : List Nat
deriving DecidableEq, Repr, Inhabited

/-- `(lo + hi) / 2` -/
def mid (p : Rat × Rat) : Rat := (p.1 + p.2) / 2

/-- the two options of one dimension: `[[lo, mid], [mid, hi]]` -/
def halves (p : Rat × Rat) : List (Rat × Rat) := [(p.1, mid p), (mid p, p.2)]

/-- `itertools.product(*options)` (first factor varies slowest) -/
def prodCells : List (List (Rat × Rat)) → List Cell
  | [] => [[]]
  | o :: os => o.flatMap (fun h => (prodCells os).map (fun t => h :: t))

/-- `new_bounds` in `generate_child_designs` -/
def childCells (c : Cell) : List Cell := prodCells (c.map halves)

/-- `np.array(bound).mean(axis=1)` -/
def centre (c : Cell) : List Rat := c.map mid

/-- the node appended for child cell `c` of parent `p` -/
def mkChild (p : Node) (c : Cell) : Node :=
  { point := centre c, cell := c, depth := p.depth + 1, lower := p.lower, upper := p.upper }

def children (p : Node) : List Node := (childCells p.cell).map (mkChild p)

/-- `AdaptivelyDiscretizedDesignSpace.__init__` -/
def Space.root (d m maxDepth : Nat) : Space :=
  { maxDepth := maxDepth
    nodes := [{ point := List.replicate d ((1 : Rat) / 2)
                cell := List.replicate d ((0 : Rat), (1 : Rat))
                depth := 1
                lower := List.replicate m (-1000000000000 : Rat)
                upper := List.replicate m (1000000000000 : Rat) }]
    refined := [] }

/-- `refine_design(i)`: new space and the returned list of child indices
(`none` = `IndexError` in the code) -/
def Space.refine (s : Space) (i : Nat) : Option (Space × List Nat) :=
  match s.nodes[i]? with
  | none => none
  | some p =>
    some ({ s with nodes := s.nodes ++ children p, refined := i :: s.refined },
          (List.range (children p).length).map (fun k => s.nodes.length + k))

/-- `should_refine_design(model, i, scale)`; `vh` = value of `np.all(scale * ‖std‖ <= ‖Vh‖)` -/
def Space.shouldRefine (s : Space) (i : Nat) (vh : Bool) : Option Bool :=
  match s.nodes[i]? with
  | none => none
  | some p => some (if p.depth ≥ s.maxDepth then false else vh)

/-- effect of `update` on node `i`: the region becomes `[lo, up]` -/
def Space.setRegion (s : Space) (i : Nat) (lo up : List Rat) : Option Space :=
  match s.nodes[i]? with
  | none => none
  | some p => some { s with nodes := s.nodes.set i { p with lower := lo, upper := up } }

/-- node `i` has never been refined -/
def Space.isLeaf (s : Space) (i : Nat) : Bool := decide (i < s.nodes.length) && !(s.refined.contains i)

def Space.leaves (s : Space) : List Nat := (List.range s.nodes.length).filter s.isLeaf

/-- volume of a cell -/
def vol : Cell → Rat
  | [] => 1
  | p :: c => (p.2 - p.1) * vol c

/-! ## VOGP_AD -/

structure Algo where
  space : Space
  S : List Nat
  P : List Nat
  /-- `enable_epsilon_covering` -/
  latch : Bool
  /-- `max_discretization_depth` -/
  maxDepth : Nat
  samples : Nat
  round : Nat
  /-- ghost (not in the Python object): the designs removed by `discarding()` so far -/
  dropped : List Nat
deriving DecidableEq, Repr, Inhabited

/-- state after `VOGP_AD.__init__` (domain dimension `d`, `m` objectives, `problem.depth_max`) -/
def Algo.init (d m maxDepth : Nat) : Algo :=
  { space := Space.root d m maxDepth, S := [0], P := [], latch := false, maxDepth := maxDepth,
    samples := 0, round := 0, dropped := [] }

/-- `discarding()` with `to_be_discarded = D` (`none` = `KeyError` of `set.remove`) -/
def Algo.discard (a : Algo) (D : List Nat) : Option Algo :=
  if D.all (fun i => a.S.contains i) then
    some { a with S := a.S.filter (fun i => !D.contains i)
                  dropped := a.dropped ++ a.S.filter (fun i => D.contains i) }
  else none

/-- `point_depths[i] != max_discretization_depth` is false for every member of `S` -/
def Algo.allAtMax (a : Algo) : Bool :=
  a.S.all (fun i => match a.space.nodes[i]? with
    | some p => p.depth == a.maxDepth
    | none => false)

/-- `epsiloncovering()`; `N` = designs of `S` that no other active design covers -/
def Algo.cover (a : Algo) (N : List Nat) : Option Algo :=
  if !a.latch && !(a.S.all (fun i => decide (i < a.space.nodes.length))) then none   -- IndexError in the gate loop
  else if !a.latch && !a.allAtMax then some a                            -- early `return`
  else if N.all (fun i => a.S.contains i) then
    some { a with latch := true
                  S := a.S.filter (fun i => !N.contains i)
                  P := a.P ++ a.S.filter (fun i => N.contains i) }
  else none

/-- `evaluate_refine()` with candidate index `c` and comparison result `vh` -/
def Algo.evalRefine (a : Algo) (c : Nat) (vh : Bool) : Option Algo :=
  if a.S.contains c || a.P.contains c then
    match a.space.shouldRefine c vh with
    | none => none
    | some true =>
      match a.space.refine c with
      | none => none
      | some (sp, ch) =>
        if a.S.contains c then
          some { a with space := sp, S := a.S.filter (fun i => i != c) ++ ch }
        else
          some { a with space := sp, P := a.P.filter (fun i => i != c) ++ ch }
    | some false => some { a with samples := a.samples + 1 }
  else none

/-- `modeling()`: overwrite the regions of the listed nodes -/
def Algo.modeling (a : Algo) : List (Nat × List Rat × List Rat) → Option Algo
  | [] => some a
  | (i, lo, up) :: rest =>
    match a.space.setRegion i lo up with
    | none => none
    | some sp => Algo.modeling { a with space := sp } rest

/-- the operations a run is made of -/
inductive Op where
  | update (regs : List (Nat × List Rat × List Rat))
  | discard (D : List Nat)
  | cover (N : List Nat)
  | evalRefine (c : Nat) (vh : Bool)
  | endRound
deriving Repr

def Algo.apply (a : Algo) : Op → Option Algo
  | .update regs => a.modeling regs
  | .discard D => a.discard D
  | .cover N => a.cover N
  | .evalRefine c vh => a.evalRefine c vh
  | .endRound => some { a with round := a.round + 1 }

def Algo.run (a : Algo) : List Op → Option Algo
  | [] => some a
  | op :: ops =>
    match a.apply op with
    | none => none
    | some a' => Algo.run a' ops

/-- inputs of one `run_one_step()` -/
structure StepIn where
  regs : List (Nat × List Rat × List Rat)
  D : List Nat
  N : List Nat
  cand : Nat
  vh : Bool

/-- `run_one_step()`: nothing happens once `S` is empty; otherwise modeling, discarding,
ε-covering, and (if `S` is still non-empty) evaluate/refine; then `round += 1`. -/
def Algo.step (a : Algo) (i : StepIn) : Option Algo :=
  if a.S.isEmpty then some a
  else
    match a.run [.update i.regs, .discard i.D, .cover i.N] with
    | none => none
    | some a3 =>
      if a3.S.isEmpty then a3.apply .endRound
      else a3.run [.evalRefine i.cand i.vh, .endRound]

/-- a sequence of `run_one_step()` calls -/
def Algo.steps (a : Algo) : List StepIn → Option Algo
  | [] => some a
  | i :: is =>
    match a.step i with
    | none => none
    | some a' => Algo.steps a' is

/-! ## Design-space-only operation sequences (random refinement orders) -/

inductive SOp where
  /-- `refine_design(i)` called directly -/
  | refine (i : Nat)
  /-- `if should_refine_design(i) (comparison = vh): refine_design(i)` -/
  | guarded (i : Nat) (vh : Bool)
  | setRegion (i : Nat) (lo up : List Rat)
deriving Repr

/-- apply one design-space operation; also returns the `should_refine_design` answer if one was asked -/
def Space.applyOp (s : Space) : SOp → Option (Space × Option Bool)
  | .refine i => (s.refine i).map (fun r => (r.1, none))
  | .guarded i vh =>
    match s.shouldRefine i vh with
    | none => none
    | some true => (s.refine i).map (fun r => (r.1, some true))
    | some false => some (s, some false)
  | .setRegion i lo up => (s.setRegion i lo up).map (fun s' => (s', none))

def Space.runOps (s : Space) : List SOp → Option (Space × List Bool)
  | [] => some (s, [])
  | op :: ops =>
    match s.applyOp op with
    | none => none
    | some (s', ans) =>
      match Space.runOps s' ops with
      | none => none
      | some (s'', l) => some (s'', (match ans with | some b => [b] | none => []) ++ l)

/-- every refinement performed by the sequence targets a node that is a leaf at that moment
(refining a node twice is outside the property: VOGP_AD never does it) -/
def Space.leafOnly (s : Space) : List SOp → Bool
  | [] => true
  | op :: ops =>
    (match op with
      | .refine i => s.isLeaf i
      | .guarded i vh => !(s.shouldRefine i vh == some true) || s.isLeaf i
      | .setRegion _ _ _ => true) &&
    (match s.applyOp op with
      | some (s', _) => Space.leafOnly s' ops
      | none => true)

/-- the operation does not bypass `should_refine_design` -/
def SOp.isGuarded : SOp → Bool
  | .refine _ => false
  | _ => true

end VOPy.Adaptive
