import VOPyVerif.Model.Problem
/-!
# `DiscreteDesignSpace.locate_points` (`vopy/design_space.py`), import-free executable model

```
indices, distances = get_closest_indices_from_points(x, self.points, return_distances=True)
if distances.max() > atol: raise ValueError("Some points are not in the design space.")
return indices
```

* `locOne x X` — one query row: the index `np.argmin` picks among the Euclidean distances (the first
  index of the minimum, `Problem.nearestFirst` — `sqrt` is monotone, so the arg-min of the distances is
  the arg-min of the squared distances) together with the SQUARED distance to that design.
* `locate xs X atol` — the whole call.  `distance > atol` is decided exactly on the squares:
  for a distance `√d` (`d ≥ 0`) and any `atol`, `√d > atol ⇔ atol < 0 ∨ d > atol²` (`Props/C07.lean`,
  `tooFar_iff_sqrt`).  With no query row or no design `get_closest_indices_from_points` returns `[]`
  and the tuple unpacking raises `ValueError` ("not enough values to unpack"): `valueError` as well.

Every algorithm that samples reaches the model through this function (`evaluating()` turns the
design POINTS the acquisition optimiser returned back into design INDICES with it), so "samples go to
the acquisition maximiser" is a statement about `locate` composed with the optimiser.
-/
namespace VOPy.Locate
open VOPy VOPy.Problem

/-- outcome of `locate_points`: the index list, or the `ValueError` -/
inductive Out where
  | ok (idx : List Nat)
  | valueError
  deriving DecidableEq, Repr

/-- nearest design (first among ties) and the squared distance to it -/
def locOne (x : Vec) (X : Mat) : Option (Nat × Rat) :=
  match nearestFirst x X with
  | none => none
  | some i => ((dists x X)[i]?).map (fun d => (i, d))

/-- `distance > atol` on the squared distance `d ≥ 0` -/
def tooFar (atol d : Rat) : Bool := decide (atol < 0) || decide (atol * atol < d)

/-- `DiscreteDesignSpace.locate_points(xs, atol)` over the design points `X` -/
def locate (xs X : Mat) (atol : Rat) : Out :=
  if xs.isEmpty || X.isEmpty then .valueError
  else
    match xs.mapM (fun x => locOne x X) with
    | none => .valueError
    | some ps => if ps.any (fun p => tooFar atol p.2) then .valueError else .ok (ps.map (·.1))

end VOPy.Locate
