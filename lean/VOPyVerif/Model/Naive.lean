import VOPyVerif.Model.Basic
import VOPyVerif.Model.RealLike
import VOPyVerif.Model.Pareto
/-!
# NaiveElimination (`vopy/algorithms/naive_elimination.py`), import-free executable model

Two parts.

**Formulas** (written once over `[RealLike α]`; run at `Float` by the driver, proved about at `ℝ`):

* `coneBeta θdeg`   — `ConeTheta2D.beta`:
  `cone_rad = (deg/180)*pi; 1/sin(cone_rad) if cone_rad < pi/2 else 1.0`
* `naiveC`          — `c = 1 + np.sqrt(2)`
* `naiveLreal c s β ε δ m K` — the argument of `np.ceil` in `NaiveElimination.__init__`:
  `4 * ((c * s * β / ε) ** 2) * np.log(4 * m / (2 * δ / (K * (K - 1))))`
  (`m`, `K` are Python ints, so `4*m` and `K*(K-1)` are exact integer products);
* `naiveLcode noiseVar …` — what the code computes: it passes **`noise_var` itself** in the
  position `s` (where Lemma B.12 of the paper has the sub-Gaussian parameter σ, a standard
  deviation);
* `naiveLprop noiseVar …` — what the property demands: `s = sqrt(noise_var)`.

**Run state machine** (exact, over `Rat`): `State`, `init`, `step` (= `run_one_step` fed with the
`K × m` matrix `problem.evaluate` returned), `rowMeans` (= `samples.mean(axis=-2)`),
`naiveP` (= `order.get_pareto_set(means)`, the shared `Pareto.fast`), `State.P`.
-/
namespace VOPy.Naive
open VOPy VOPy.RealLike

/-! ### formulas -/

/-- strict comparison on the carrier: the branch test of `ConeTheta2D.beta` -/
class LtB (α : Type) where
  ltb : α → α → Bool

instance : LtB Float := ⟨fun a b => decide (a < b)⟩

/-- `np.ceil(x).astype(int)` for the non-negative values the constructor produces -/
class CeilNat (α : Type) where
  ceilNat : α → Nat

instance : CeilNat Float := ⟨fun x => x.ceil.toUInt64.toNat⟩

variable {α : Type} [RealLike α]

/-- `ConeTheta2D.beta` (argument in degrees):
```
cone_rad = (self.cone_degree / 180) * np.pi
if cone_rad < np.pi / 2: return 1 / np.sin(cone_rad)
else: return 1.0
``` -/
def coneBeta [LtB α] (θdeg : α) : α :=
  let r := (θdeg / ofNat 180) * pi
  if LtB.ltb r (pi / ofNat 2) then ofNat 1 / sin r else ofNat 1

/-- `c = 1 + np.sqrt(2)` -/
def naiveC : α := ofNat 1 + sqrt (ofNat 2)

/-- the real number handed to `np.ceil`:
`4 * ((c * s * β / ε) ** 2) * np.log(4 * m / (2 * δ / (K * (K - 1))))` -/
def naiveLreal (c s β ε δ : α) (m K : Nat) : α :=
  ofNat 4 * sq (c * s * β / ε) * log (ofNat (4 * m) / (ofNat 2 * δ / ofNat (K * (K - 1))))

/-- `self.L` as the constructor computes it: `noise_var` sits where the formula has `s`. -/
def naiveLcode [LtB α] [CeilNat α] (noiseVar ε δ θdeg : α) (m K : Nat) : Nat :=
  CeilNat.ceilNat (naiveLreal naiveC noiseVar (coneBeta θdeg) ε δ m K)

/-- the sample count the property's mechanism states: `s = σ = sqrt(noise_var)`. -/
def naiveLprop [LtB α] [CeilNat α] (noiseVar ε δ θdeg : α) (m K : Nat) : Nat :=
  CeilNat.ceilNat (naiveLreal naiveC (sqrt noiseVar) (coneBeta θdeg) ε δ m K)

/-! ### observation tensor, means, P -/

/-- coordinatewise sum of the observation vectors of one design, accumulated from the first
observation on (`np.add.reduce` along axis `-2`) -/
def vsum : List Vec → Vec
  | [] => []
  | o :: os => os.foldl vadd o

/-- arithmetic mean of one design's observations: sum divided by the number of observations -/
def rowMean (obs : List Vec) : Vec := (vsum obs).map (· / (obs.length : Rat))

/-- `samples.mean(axis=-2)`; `samples` is the `(K, t, m)` tensor as `K` lists of `t` vectors -/
def rowMeans (samples : List (List Vec)) : List Vec := samples.map rowMean

/-- `order.get_pareto_set(samples.mean(axis=-2))` for `t ≥ 1` -/
def naiveP (W : Mat) (samples : List (List Vec)) : List Nat :=
  Pareto.fast (dominates W) (rowMeans samples)

/-! ### the run -/

structure State where
  /-- per-design sample budget `self.L` -/
  L : Nat
  /-- number of designs `self.K` -/
  K : Nat
  /-- `self.round` -/
  round : Nat
  /-- `self.sample_count` -/
  sampleCount : Nat
  /-- `self.samples`, shape `(K, round, m)` -/
  samples : List (List Vec)
  deriving Repr

/-- state after `__init__`: `samples = np.empty((K, 0, m))`, `round = sample_count = 0` -/
def init (K L : Nat) : State := ⟨L, K, 0, 0, List.replicate K []⟩

/-- append one observation per design: `np.concatenate([samples, new[:, None, :]], axis=-2)` -/
def appendObs (samples : List (List Vec)) (new : List Vec) : List (List Vec) :=
  List.zipWith (fun row o => row ++ [o]) samples new

/-- `run_one_step` when `problem.evaluate(in_data)` returns `new` (a `K × m` matrix):
```
if self.round == self.L: return True
self.round += 1;  samples = concat(samples, new);  self.sample_count += self.K
return self.round == self.L
```
The observation is not consumed (the problem is not even called) once the run is over. -/
def step (s : State) (new : List Vec) : State × Bool :=
  if s.round = s.L then (s, true)
  else
    let s' : State := { s with round := s.round + 1,
                               samples := appendObs s.samples new,
                               sampleCount := s.sampleCount + s.K }
    (s', decide (s'.round = s'.L))

/-- feed a list of observation matrices, one per call of `run_one_step` -/
def runSteps (s : State) (news : List (List Vec)) : State :=
  news.foldl (fun st new => (step st new).1) s

/-- the property `P`.  Before the first observation `samples.mean` is NaN in every entry, every
`dominates` test is `False` and the code returns all `K` indices; the model mirrors that. -/
def State.P (W : Mat) (s : State) : List Nat :=
  if s.round = 0 then List.range s.K else naiveP W s.samples

/-- smallest `|w · (mean_j − mean_i)|` over facets and ordered pairs `i ≠ j` (by position): how far
the dominance decisions are from a tie.  Used by the harness to skip float-rounded inputs whose
decisions are not robust.  `none` when there is no pair. -/
def margin (W : Mat) (means : List Vec) : Option Rat :=
  let vals : List Rat :=
    (Pareto.indexed means).flatMap fun (i, a) =>
      (Pareto.indexed means).flatMap fun (j, b) =>
        if i = j then [] else (matVec W (vsub a b)).map (fun x => if x < 0 then -x else x)
  match vals with
  | [] => none
  | v :: vs => some (vs.foldl (fun a b => if b < a then b else a) v)

end VOPy.Naive
