/-!
# Basic exact linear algebra over `Rat` (import-free)

Vectors are `List Rat`, matrices are lists of rows.  Every IEEE double is a dyadic rational, so any
state the Python code reaches can be fed to these definitions without loss.
-/
namespace VOPy

abbrev Vec := List Rat
abbrev Mat := List (List Rat)

def dot : Vec → Vec → Rat
  | a :: as, b :: bs => a * b + dot as bs
  | _, _ => 0

def vadd (a b : Vec) : Vec := List.zipWith (· + ·) a b
def vsub (a b : Vec) : Vec := List.zipWith (· - ·) a b
def smul (c : Rat) (a : Vec) : Vec := a.map (c * ·)
def vneg (a : Vec) : Vec := a.map (- ·)

/-- `W x` : one entry per row (facet) of `W`. -/
def matVec (W : Mat) (x : Vec) : Vec := W.map (fun w => dot w x)

def normSq (a : Vec) : Rat := dot a a

/-- All entries non-negative. -/
def allNonneg (v : Vec) : Bool := v.all (fun x => decide (0 ≤ x))

/-- Membership in the polyhedral cone `{x | W x ≥ 0}` — `OrderingCone.is_inside`. -/
def inCone (W : Mat) (x : Vec) : Bool := allNonneg (matVec W x)

/-- `a` dominates `b` in the order of the cone `W` — `PolyhedralConeOrder.dominates(a, b)`. -/
def dominates (W : Mat) (a b : Vec) : Bool := inCone W (vsub a b)

/-- componentwise `a ≤ b` -/
def vle (a b : Vec) : Bool := (List.zipWith (fun x y => decide (x ≤ y)) a b).all id

def identMat (m : Nat) : Mat :=
  (List.range m).map (fun i => (List.range m).map (fun j => if i = j then (1 : Rat) else 0))

end VOPy
