import VOPyVerif.Model.Eval
import VOPyVerif.Model.AdaptiveVh
/-!
# The closing formula of `calculate_epsilonF1_score` as a `RealLike` term (import-free)

`f1_eps = (2 * tp_eps) / (2 * tp_eps + fp_eps + uncovered_missed_pareto_count)` with
`fp_eps = len(pred_indices) - true_eps` — Python ints: the subtraction is an integer subtraction (`Vh.ofInt`),
the division casts to the carrier.  `harness/translate.py` regenerates this term from the source text
(`Gen/C19.lean`, agreement in `Proofs/GenAgreeC19.lean`); `Eval.f1Of` is the same value on the counts
`(tp, npred − tp, unc)` whenever `tp ≤ npred` (`Props/C19Source.lean`).
-/
namespace VOPy.Eval
open VOPy.RealLike

def f1F {α : Type} [RealLike α] (tp npred unc : Nat) : α :=
  ofNat (2 * tp) / Vh.ofInt (((2 * tp : Nat) : Int) + ((npred : Int) - (tp : Int)) + (unc : Int))

end VOPy.Eval
