import VOPyVerif.Model.Basic
/-!
# Hyper-rectangles (`vopy/confidence_region.py`, `vopy/utils/utils.py`), import-free model

* `Rect.vertices l u` — `hyperrectangle_get_vertices(lower, upper)`: the `2^m` corners in
  `itertools.product([l₀,u₀], [l₁,u₁], …)` order (first coordinate varies slowest, lower before
  upper; `zip` semantics: the shorter of `l`, `u` decides the dimension).
* `Rect.expandSlack m s` — the slack-size guard of `RectangularConfidenceRegion.is_dominated` /
  `is_covered` followed by numpy broadcasting: a slack with one entry (Python scalar, 0-d array or
  array of size 1) is added to every coordinate; a slack with `m` entries is used as is; any other
  size is the `ValueError` (`none`).
* `Rect.isDominated W l1 u1 l2 u2 s` — the double loop of `RectangularConfidenceRegion.is_dominated`
  over vertex pairs, `dominates(vert2 + s, vert1)` on each (slack already an `m`-vector).
* `Rect.isDominatedChecked` — guard + loop, `none` = `ValueError`.
* `Rect.isDominatedTol … t` — the same vertex-pair loop with every facet functional compared with
  `t` instead of `0` (`t = 0` is `isDominated`; used for the borderline band of the harness).

A rectangle is a pair of vectors `l u : Vec` (`lower`, `upper`).  Nothing here checks `l ≤ u`
(the constructor of the real class does); the theorems in `Props/C09.lean` assume it.
-/
namespace VOPy.Rect

/-- `hyperrectangle_get_vertices(l, u)` in `itertools.product` order. -/
def vertices : Vec → Vec → List Vec
  | l :: ls, u :: us => (vertices ls us).map (l :: ·) ++ (vertices ls us).map (u :: ·)
  | _, _ => [[]]

/-- Slack-size guard and broadcasting for an `m`-dimensional rectangle:
`none` is the `ValueError` ("Slackness must be a scalar or a vector of the same size …"). -/
def expandSlack (m : Nat) (s : Vec) : Option Vec :=
  match s with
  | [x] => some (List.replicate m x)
  | _ => if s.length = m then some s else none

/-- The double loop of `RectangularConfidenceRegion.is_dominated` (slack `s` already an `m`-vector):
`False` as soon as some vertex pair has `not dominates(vert2 + s, vert1)`. -/
def isDominated (W : Mat) (l1 u1 l2 u2 s : Vec) : Bool :=
  (vertices l1 u1).all fun v1 => (vertices l2 u2).all fun v2 => dominates W (vadd v2 s) v1

/-- `RectangularConfidenceRegion.is_dominated` with its guard; `none` = `ValueError`.
The guard compares the slack size with `len(obj1.lower)`. -/
def isDominatedChecked (W : Mat) (l1 u1 l2 u2 s : Vec) : Option Bool :=
  (expandSlack l1.length s).map (isDominated W l1 u1 l2 u2)

/-- all facet functionals at least `t` -/
def inConeTol (W : Mat) (t : Rat) (x : Vec) : Bool := (matVec W x).all fun y => decide (t ≤ y)

/-- The vertex-pair loop with threshold `t` on every facet functional `w·(vert2 + s − vert1)`. -/
def isDominatedTol (W : Mat) (l1 u1 l2 u2 s : Vec) (t : Rat) : Bool :=
  (vertices l1 u1).all fun v1 => (vertices l2 u2).all fun v2 => inConeTol W t (vsub (vadd v2 s) v1)

end VOPy.Rect
