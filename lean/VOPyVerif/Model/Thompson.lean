import VOPyVerif.Model.RealLike
import VOPyVerif.Model.Pareto
/-!
# `ThompsonEntropyDecoupledAcquisition.forward` (`vopy/acquisition/acquisition.py`), import-free

The arithmetic of the Thompson-entropy acquisition, mirrored step by step.  With
`n = num_thompson_samples`, `m = out_dim`, `K = len(x)`:

```
mask = zeros((n,)*m + (K,), bool)
for comb in combinations(range(n), r=m):                       # strictly increasing index tuples
    sample = stack(t_samples[arange(m), comb]).T               # (K, m)
    mask[comb][order.get_pareto_set(sample)] = True
prior_prob  = mean(mask, axis=(0..m-1))                        # (K,)   — over the FULL tensor
prior_ent   = binary_entropy(prior_prob)
post_prob   = mean(mask, axis=(0..m-1) without j)              # (n, K), j = evaluation_index
post_ent    = binary_entropy(post_prob)
value       = prior_ent - mean(post_ent, axis=0)
if costs is not None: value = value / costs[j]
```

* `combinations n r` — `itertools.combinations(range(n), r)` in its order.
* `tuples n m` — every index tuple of the first `m` axes, C order (`np.ndindex((n,)*m)`).
* A mask is a function `mem : List Nat → Nat → Bool` (index tuple → design → entry).
  `filledMask n m pareto` is the tensor the loop above builds when the `k`-th combination's
  `get_pareto_set` answer is `pareto[k]`: entries of tuples that are not strictly increasing stay
  `False`, and the means below run over *all* `n^m` tuples, exactly as the code does.
  `maskOfBits n K bits` reads a flattened (C order) tensor exported from Python.
  `samplesMask W n m ts` additionally computes each combination's Pareto set with the model of
  `get_pareto_set` (`Pareto.fast`, property C13) from the Thompson samples `ts[j][s][i]`
  (objective `j`, sample `s`, design `i`).
* Probabilities are exact rationals: `np.mean` of a Boolean tensor is (number of `True`) / (number
  of entries); one correctly rounded division in the code, `count / n^m` resp. `count / n^(m-1)`
  here.
* `binaryEntropy` mirrors `vopy.utils.binary_entropy`
  `-(xlogy(x, x) + xlog1py(1 - x, -x)) / log(2)`.  `scipy.special.xlogy(a, b)` is `0` when
  `a = 0` and `a * log b` otherwise; `xlog1py(a, b)` is `0` when `a = 0` and `a * log1p(b)`
  otherwise, and here `1 + b = 1 - x = a`, so the second summand is `xlogy(1 - x, 1 - x)` in exact
  arithmetic.  The test `a = 0` is made on the exact rational probability.  `log` goes through
  `RealLike`: the driver evaluates the term at `Float`, the theorems at `ℝ`.
-/
namespace VOPy.Thompson
open VOPy.RealLike

/-! ## index tuples -/

/-- strictly increasing `r`-tuples with entries in `[lo, n)`, lexicographic
(`itertools.combinations` order) -/
def combsFrom (n : Nat) : Nat → Nat → List (List Nat)
  | 0, _ => [[]]
  | r + 1, lo => (List.range' lo (n - lo)).flatMap (fun a => (combsFrom n r (a + 1)).map (a :: ·))

/-- `itertools.combinations(range(n), r)` -/
def combinations (n r : Nat) : List (List Nat) := combsFrom n r 0

/-- all `m`-tuples over `range n`, C order -/
def tuples (n : Nat) : Nat → List (List Nat)
  | 0 => [[]]
  | m + 1 => (List.range n).flatMap (fun a => (tuples n m).map (a :: ·))

/-- position of an index tuple in the flattened leading axes (C order) -/
def flatIdx (n : Nat) (t : List Nat) : Nat := t.foldl (fun acc a => acc * n + a) 0

/-! ## masks -/

abbrev Mask := List Nat → Nat → Bool

/-- the tensor built by the fill loop: `pareto[k]` = `get_pareto_set` answer for the `k`-th
combination; every other entry stays `False` -/
def filledMask (n m : Nat) (pareto : List (List Nat)) : Mask :=
  fun t i =>
    match ((combinations n m).zip pareto).lookup t with
    | some P => P.contains i
    | none => false

/-- a flattened exported tensor of shape `(n,)*m + (K,)` -/
def maskOfBits (n K : Nat) (bits : Array Bool) : Mask :=
  fun t i => decide (i < K) && bits.getD (flatIdx n t * K + i) false

/-- flatten a mask (C order), for comparison with the exported `_cache_pareto_mask` -/
def flatten (n m K : Nat) (mem : Mask) : List Bool :=
  (tuples n m).flatMap (fun t => (List.range K).map (fun i => mem t i))

/-- `stack(t_samples[arange(m), comb]).T`: row `i` = (`ts[j][comb[j]][i]`)ⱼ -/
def sampleRows (ts : List (List (List Rat))) (K : Nat) (comb : List Nat) : List (List Rat) :=
  (List.range K).map (fun i =>
    (ts.zip comb).map (fun (tj, s) => ((tj.getD s []).getD i 0)))

/-- the mask computed from Thompson samples, `get_pareto_set` being `Pareto.fast (dominates W)` -/
def samplesMask (W : Mat) (n m K : Nat) (ts : List (List (List Rat))) : Mask :=
  filledMask n m ((combinations n m).map (fun c => Pareto.fast (dominates W) (sampleRows ts K c)))

/-! ## probabilities (exact) -/

/-- number of `True` entries of design `i` over the full tensor -/
def priorCount (n m : Nat) (mem : Mask) (i : Nat) : Nat :=
  (tuples n m).countP (fun t => mem t i)

/-- number of `True` entries of design `i` in the slice `axis j = s` -/
def postCount (n m j s : Nat) (mem : Mask) (i : Nat) : Nat :=
  (tuples n m).countP (fun t => t[j]? == some s && mem t i)

/-- `np.mean(mask, axis=(0..m-1))[i]` -/
def priorProb (n m : Nat) (mem : Mask) (i : Nat) : Rat :=
  (priorCount n m mem i : Rat) / ((n ^ m : Nat) : Rat)

/-- `np.mean(mask, axis=(0..m-1) \ {j})[s, i]` -/
def postProb (n m j s : Nat) (mem : Mask) (i : Nat) : Rat :=
  (postCount n m j s mem i : Rat) / ((n ^ (m - 1) : Nat) : Rat)

/-! ## entropies (`RealLike`) -/

variable {α : Type} [RealLike α]

/-- a rational as a carrier value: `± num / den` (one division, as `np.mean` does) -/
def ofRat (r : Rat) : α :=
  (if r.num < 0 then -(ofNat r.num.natAbs) else ofNat r.num.natAbs) / ofNat r.den

/-- `scipy.special.xlogy(p, p)` -/
def xlogy (p : Rat) : α := if p = 0 then ofNat 0 else ofRat p * log (ofRat p)

/-- `vopy.utils.binary_entropy` -/
def binaryEntropy (p : Rat) : α :=
  (-(xlogy p + xlogy (1 - p))) / log (ofNat 2)

/-- left-to-right sum starting from 0 -/
def sumL (l : List α) : α := l.foldl (· + ·) (ofNat 0)

/-- `np.mean(posterior_entropy, axis=0)[i]` -/
def meanPostEntropy (n m j : Nat) (mem : Mask) (i : Nat) : α :=
  sumL ((List.range n).map (fun s => binaryEntropy (postProb n m j s mem i))) / ofNat n

/-- `prior_entropy - mean_posterior_entropy` for design `i` -/
def gain (n m j : Nat) (mem : Mask) (i : Nat) : α :=
  binaryEntropy (priorProb n m mem i) - meanPostEntropy n m j mem i

/-- the acquisition value of design `i`: `gain`, divided by `costs[j]` if costs are given -/
def value (n m j : Nat) (mem : Mask) (cost : Option α) (i : Nat) : α :=
  match cost with
  | none => gain n m j mem i
  | some c => gain n m j mem i / c

/-- `forward(x)`: one value per row of `x`.  `none` where the code raises or produces NaN: no
Thompson sample (`n = 0`: mean of an empty tensor) or `evaluation_index ≥ out_dim`
(`np.delete` raises `IndexError`). -/
def forward (n m K j : Nat) (mem : Mask) (cost : Option α) : Option (List α) :=
  if n = 0 ∨ m ≤ j then none
  else some ((List.range K).map (value n m j mem cost))

end VOPy.Thompson
