import VOPyVerif.Model.Basic
import VOPyVerif.Model.RealLike
/-!
# Bundled cone constructors as `RealLike` terms (import-free)

The cone *relation* (`dominates`, `inCone`) lives in `Model/Basic.lean` over `Rat`.  This file holds
the closed-form constructions of the bundled cones, each written once over `[RealLike α]`, mirroring
the Python line by line:

* `get2dW θdeg`      — `vopy/utils/utils.py: get_2d_w` (both branches; the branch test
  `cone_degree <= 90` is part of the term through the one-method class `LeB`);
* `cone3D kind`      — `vopy/order.py: ConeOrder3D.__init__` (matrix divided by the norm of its
  *first* row);
* `iceCreamW K θdeg` — `vopy/order.py: ConeOrder3DIceCream.compute_ice_cream_cone` (rows
  `(r cos a, r sin a, 1)`, Rodrigues rotation `I + C sin ρ + C² (1 − cos ρ)`, per-row normalisation).

The driver evaluates the terms at `Float`; the theorems are about the same terms at `ℝ`.
-/
namespace VOPy.ConeFormulas
open VOPy.RealLike

/-- boolean `≤` of the carrier: the branch test of `get_2d_w` -/
class LeB (α : Type) where
  leb : α → α → Bool

instance : LeB Float := ⟨fun a b => decide (a ≤ b)⟩

variable {α : Type} [RealLike α]

/-! ### small linear algebra over the carrier (lists; rows of a matrix are lists) -/

/-- `np.dot` of two 1-D arrays -/
def rdot : List α → List α → α
  | a :: as, b :: bs => a * b + rdot as bs
  | _, _ => ofNat 0

/-- `np.linalg.norm(v)` -/
def rnorm (v : List α) : α := sqrt (rdot v v)

/-- `v / c` -/
def rdivs (v : List α) (c : α) : List α := v.map (· / c)

/-- `v / np.linalg.norm(v)` -/
def rnormalize (v : List α) : List α := rdivs v (rnorm v)

/-- `M @ v` -/
def rmatVec (M : List (List α)) (v : List α) : List α := M.map (fun r => rdot r v)

def radd (a b : List α) : List α := List.zipWith (· + ·) a b
def rscale (c : α) (v : List α) : List α := v.map (c * ·)

/-- `Σ_k c_k • row_k` (3-wide): row `i` of `A @ B` is `linComb3 A[i] B` -/
def linComb3 : List α → List (List α) → List α
  | c :: cs, r :: rs => radd (rscale c r) (linComb3 cs rs)
  | _, _ => [ofNat 0, ofNat 0, ofNat 0]

/-- `A @ B` for matrices with 3 columns -/
def rmatMul3 (A B : List (List α)) : List (List α) := A.map (fun a => linComb3 a B)

/-- `A + B` -/
def rmatAdd (A B : List (List α)) : List (List α) := List.zipWith radd A B
/-- `A * c` (scalar) -/
def rmatScale (A : List (List α)) (c : α) : List (List α) := A.map (fun r => r.map (· * c))

/-- `np.eye(3)` -/
def eye3 : List (List α) :=
  [[ofNat 1, ofNat 0, ofNat 0], [ofNat 0, ofNat 1, ofNat 0], [ofNat 0, ofNat 0, ofNat 1]]

/-! ### `get_2d_w` -/

/-- `(cone_degree / 180) * np.pi` -/
def degToRad (d : α) : α := (d / ofNat 180) * pi

/-- `get_2d_w(cone_degree)`:
```
angle_radian = (cone_degree / 180) * np.pi
if cone_degree <= 90:
    W_1 = [-tan(pi/4 - angle_radian/2), 1];  W_2 = [+tan(pi/4 + angle_radian/2), -1]
else:
    W_1 = [-tan(pi/4 - angle_radian/2), 1];  W_2 = [-tan(pi/4 + angle_radian/2), 1]
W_i = W_i / np.linalg.norm(W_i)
``` -/
def get2dW [LeB α] (θdeg : α) : List (List α) :=
  let a := degToRad θdeg
  let w1 : List α := [-(tan (pi / ofNat 4 - a / ofNat 2)), ofNat 1]
  let w2 : List α :=
    if LeB.leb θdeg (ofNat 90) then [tan (pi / ofNat 4 + a / ofNat 2), -(ofNat 1)]
    else [-(tan (pi / ofNat 4 + a / ofNat 2)), ofNat 1]
  [rnormalize w1, rnormalize w2]

/-- The closed form of `get_2d_w` (not code; the specification the theorems relate `get2dW` to): the inward unit
normals `(-sin α, cos α)`, `(sin β, -cos β)` of the rays at angles `α = π/4 − θ/2`, `β = π/4 + θ/2`.  Evaluated at
`Float` by the driver so that the harness can compare the real matrix with it as well (also at θ = 90). -/
def get2dWClosed (θdeg : α) : List (List α) :=
  let h := degToRad θdeg / ofNat 2
  [[-(sin (pi / ofNat 4 - h)), cos (pi / ofNat 4 - h)], [sin (pi / ofNat 4 + h), -(cos (pi / ofNat 4 + h))]]

/-! ### `ConeOrder3D` -/

inductive Kind3D
  | acute | right | obtuse
  deriving DecidableEq, Repr

/-- un-normalised matrix of the acute cone -/
def acuteRaw : List (List α) :=
  [[ofNat 1, -(ofNat 2), ofNat 4], [ofNat 4, ofNat 1, -(ofNat 2)], [-(ofNat 2), ofNat 4, ofNat 1]]

/-- un-normalised matrix of the obtuse cone (`0.4 = 2/5`, `1.6 = 8/5`, correctly rounded) -/
def obtuseRaw : List (List α) :=
  [[ofNat 1, ofFrac 2 5, ofFrac 8 5], [ofFrac 8 5, ofNat 1, ofFrac 2 5], [ofFrac 2 5, ofFrac 8 5, ofNat 1]]

/-- `norm = np.linalg.norm(W[0]); W /= norm` — every row divided by the norm of the FIRST row -/
def divByFirstRowNorm (W : List (List α)) : List (List α) :=
  match W with
  | [] => []
  | r0 :: _ => W.map (fun r => rdivs r (rnorm r0))

/-- `ConeOrder3D(cone_type).ordering_cone.W` -/
def cone3D : Kind3D → List (List α)
  | .acute => divByFirstRowNorm acuteRaw
  | .right => eye3
  | .obtuse => divByFirstRowNorm obtuseRaw

/-! ### `ConeOrder3DIceCream.compute_ice_cream_cone` -/

/-- `rot_axis = [-1/sqrt 2, 1/sqrt 2, 0]` -/
def iceRotAxis : List α := [-(ofNat 1) / sqrt (ofNat 2), ofNat 1 / sqrt (ofNat 2), ofNat 0]

/-- the cross-product matrix `C` of a 3-vector `k`:
`[[0, -k2, k1], [k2, 0, -k0], [-k1, k0, 0]]` -/
def crossMat : List α → List (List α)
  | [k0, k1, k2] => [[ofNat 0, -k2, k1], [k2, ofNat 0, -k0], [-k1, k0, ofNat 0]]
  | _ => []

/-- `np.eye(3) + C * sin(rot) + (C @ C) * (1 - cos(rot))` -/
def rodrigues (k : List α) (rot : α) : List (List α) :=
  let C := crossMat k
  rmatAdd (rmatAdd eye3 (rmatScale C (sin rot))) (rmatScale (rmatMul3 C C) (ofNat 1 - cos rot))

/-- the rotation used by the ice-cream cone: axis `iceRotAxis`, angle `pi / 4` -/
def iceRot : List (List α) := rodrigues iceRotAxis (pi / ofNat 4)

/-- `theta_rad = pi/2 - np.radians(theta)`; `np.radians(x) = x * (pi/180)` -/
def iceThetaRad (θdeg : α) : α := pi / ofNat 2 - θdeg * (pi / ofNat 180)

/-- un-rotated, un-normalised facet normal `i` of `K`: `[radius cos a, radius sin a, 1]` with
`a = i * (2 pi / K)`, `radius = tan(theta_rad)` -/
def iceRawRow (K : Nat) (θdeg : α) (i : Nat) : List α :=
  let deltaAngle := ofNat 2 * pi / ofNat K
  let radius := tan (iceThetaRad θdeg)
  let angle := ofNat i * deltaAngle
  [radius * cos angle, radius * sin angle, ofNat 1]

/-- one finished row: rotate (`(r @ W.T).T`), then `W[i] / np.linalg.norm(W[i])` -/
def iceRow (K : Nat) (θdeg : α) (i : Nat) : List α :=
  rnormalize (rmatVec iceRot (iceRawRow K θdeg i))

/-- `compute_ice_cream_cone(K, theta)` -/
def iceCreamW (K : Nat) (θdeg : α) : List (List α) :=
  (List.range K).map (iceRow K θdeg)

/-- the rotated axis `r @ e3` of the circular cone the facets are tangent to -/
def iceAxis : List α := rmatVec iceRot [ofNat 0, ofNat 0, ofNat 1]

end VOPy.ConeFormulas
