import VOPyVerif.Model.Basic
/-!
# Exact linear certificates over `Rat` (import-free)

Generic machinery for "untrusted search + verified checker" (DESIGN §2.3).  A *system* is a list of
inequalities `a · x ≥ b` in `n` unknowns.

## Public API (what other properties should use)

Checkers (each has a soundness theorem in `Proofs/LinCert.lean`; every verdict must rest on one):

* `checkWitness n S x`        — `x` has `n` entries, every row has `n` coefficients, every row holds.
* `checkFarkas n S y`         — `y ≥ 0`, `Σ yᵢ aᵢ = 0`, `Σ yᵢ bᵢ > 0`  ⇒ the system has no solution.
* `checkKKT n S c x lam`      — `x` feasible, `lam ≥ 0`, `x − c = Σ lamᵢ aᵢ`, `lamᵢ (aᵢ·x − bᵢ) = 0`
                                 ⇒ `x` is the point of `{x | S}` nearest to `c`.

Searches (untrusted; their answers are always re-checked by the checkers above):

* `solve n S : Result`        — Fourier–Motzkin elimination with multiplier tracking (and Kohler's
                                 pruning rule): `.witness x` or `.farkas y`.
* `project n S c : Option (Vec × Vec)` — active-set enumeration for the nearest point: `(x, lam)`.
* `feasible n S : Option Bool` — `solve` + checker: `some true` / `some false` are certified,
                                 `none` = no certificate (never observed; completeness of the *pruned*
                                 search is not proved).
* `solvePlain n S : Result`, `feasibleFM n S : Option Bool` — plain Fourier–Motzkin (no pruning) +
                                 checker.  **Complete**: never `none` when every row has `n`
                                 coefficients (`feasibleFM_complete`, `Proofs/LinCertComplete.lean`).
* `feasibleC n S : Option Bool` — the decision procedure other code should call: `feasible`, and
                                 `feasibleFM` only if that returned `none`.  Certified *and* total:
                                 `some true ↔` a real solution exists, `some false ↔` none exists
                                 (`feasibleC_true_iff`, `feasibleC_false_iff`).
* `nearest n S c : Option (Vec × Vec)` — `project` + `checkKKT`.  **Complete**: `some` whenever the
                                 system is well formed, `c` has `n` entries and a solution exists
                                 (`nearest_complete`, `Proofs/LinCertKKT.lean`).

Helpers: `Ineq`, `Sys`, `lincomb` (`Lᵀ y`), `combA`, `combB`, `zeros`, `isZero`, `solveLin`.
-/
namespace VOPy.LinCert

/-- one inequality `a · x ≥ b` -/
structure Ineq where
  a : Vec
  b : Rat

abbrev Sys := List Ineq

def zeros (n : Nat) : Vec := List.replicate n 0

def isZero (v : Vec) : Bool := v.all (fun x => decide (x = 0))

/-- every row has exactly `n` coefficients -/
def wf (n : Nat) (S : Sys) : Bool := S.all (fun r => decide (r.a.length = n))

/-- every row of `S` holds at `x` -/
def satisfies (S : Sys) (x : Vec) : Bool := S.all (fun r => decide (r.b ≤ dot r.a x))

/-- **Checker**: `x` is a solution of the `n`-variable system `S`. -/
def checkWitness (n : Nat) (S : Sys) (x : Vec) : Bool :=
  decide (x.length = n) && wf n S && satisfies S x

/-- `Σ yᵢ rᵢ` for a list of `n`-vectors `rᵢ` (rows or multipliers in excess are ignored =
multiplier 0).  With the rows of a matrix `L` this is `Lᵀ y`. -/
def lincomb (n : Nat) : List Vec → Vec → Vec
  | r :: R, y :: ys => vadd (smul y r) (lincomb n R ys)
  | _, _ => zeros n

/-- `Σ yᵢ aᵢ` (an `n`-vector) -/
def combA (n : Nat) (S : Sys) (y : Vec) : Vec := lincomb n (S.map (·.a)) y

/-- `Σ yᵢ bᵢ` -/
def combB : Sys → Vec → Rat
  | r :: S, y :: ys => y * r.b + combB S ys
  | _, _ => 0

/-- **Checker** (Farkas): `y ≥ 0`, `yᵀA = 0`, `yᵀb > 0` — the system `A x ≥ b` is infeasible. -/
def checkFarkas (n : Nat) (S : Sys) (y : Vec) : Bool :=
  wf n S && allNonneg y && isZero (combA n S y) && decide (0 < combB S y)

/-- complementary slackness `lamᵢ · (aᵢ·x − bᵢ) = 0` for every row -/
def complSlack : Sys → Vec → Vec → Bool
  | r :: S, x, l :: ls => decide (l * (dot r.a x - r.b) = 0) && complSlack S x ls
  | _, _, _ => true

/-- **Checker** (KKT for `min ‖x − c‖²` over `{x | S}`): feasibility, dual feasibility,
stationarity `x − c = Σ lamᵢ aᵢ`, complementary slackness. -/
def checkKKT (n : Nat) (S : Sys) (c x lam : Vec) : Bool :=
  checkWitness n S x && decide (c.length = n) && decide (lam.length = S.length) && allNonneg lam &&
  decide (vsub x c = combA n S lam) && complSlack S x lam

/-! ## Fourier–Motzkin elimination with multiplier tracking (untrusted search) -/

/-- a derived inequality `a · x ≥ b` together with the non-negative multipliers `y` over the
*original* rows that produce it -/
structure Row where
  a : Vec
  b : Rat
  y : Vec

def headD (v : Vec) : Rat := match v with | [] => 0 | x :: _ => x

def unitVec (k i : Nat) : Vec := (List.range k).map (fun j => if i = j then (1 : Rat) else 0)

def initRows (S : Sys) : List Row :=
  S.zipIdx.map (fun (r, i) => { a := r.a, b := r.b, y := unitVec S.length i })

/-- scale a row by `c > 0` and drop the head coefficient -/
def scaleTail (c : Rat) (r : Row) : Row :=
  { a := smul c r.a.tail, b := c * r.b, y := smul c r.y }

def addRow (p q : Row) : Row :=
  { a := vadd p.a q.a, b := p.b + q.b, y := vadd p.y q.y }

def support (y : Vec) : Nat := (y.filter (fun x => decide (x ≠ 0))).length

def maxList : List Rat → Option Rat
  | [] => none
  | x :: xs => match maxList xs with
    | none => some x
    | some m => some (if x ≤ m then m else x)

def minList : List Rat → Option Rat
  | [] => none
  | x :: xs => match minList xs with
    | none => some x
    | some m => some (if m ≤ x then m else x)

inductive Result where
  | witness (x : Vec)
  | farkas (y : Vec)

/-- `fm n k rows`: `n` variables left, `k` already eliminated.  Rows whose multiplier support has
more than `k + 1` entries are dropped (Kohler's rule), as are rows `0 ≥ b` with `b ≤ 0`. -/
def fm : Nat → Nat → List Row → Result
  | 0, _, rows =>
    match rows.find? (fun r => decide (0 < r.b)) with
    | some r => .farkas r.y
    | none => .witness []
  | n + 1, k, rows =>
    -- normalised: head coefficient +1 (pos) / −1 (neg), head dropped
    let pos := (rows.filter (fun r => decide (0 < headD r.a))).map (fun r => scaleTail (1 / headD r.a) r)
    let neg := (rows.filter (fun r => decide (headD r.a < 0))).map (fun r => scaleTail (-1 / headD r.a) r)
    let zer := (rows.filter (fun r => decide (headD r.a = 0))).map (fun r => scaleTail 1 r)
    let new := pos.flatMap (fun p => neg.map (fun q => addRow p q))
    let next := (zer ++ new).filter (fun r =>
      decide (support r.y ≤ k + 2) && !(isZero r.a && decide (r.b ≤ 0)))
    match fm n (k + 1) next with
    | .farkas y => .farkas y
    | .witness xt =>
      -- pos: x₀ + a·xt ≥ b, neg: −x₀ + a·xt ≥ b
      let lo := maxList (pos.map (fun p => p.b - dot p.a xt))
      let hi := minList (neg.map (fun q => dot q.a xt - q.b))
      let x0 : Rat := match lo, hi with
        | some l, some h => (l + h) / 2
        | some l, none => l
        | none, some h => h
        | none, none => 0
      .witness (x0 :: xt)

/-- **Search** (untrusted): Fourier–Motzkin on the `n`-variable system `S`. -/
def solve (n : Nat) (S : Sys) : Result := fm n 0 (initRows S)

/-- Certified feasibility: `some true` (witness checked), `some false` (Farkas multipliers
checked), `none` (no certificate). -/
def feasible (n : Nat) (S : Sys) : Option Bool :=
  match solve n S with
  | .witness x => if checkWitness n S x then some true else none
  | .farkas y => if checkFarkas n S y then some false else none

/-! ## Plain Fourier–Motzkin elimination (no support pruning): the provably complete fallback

`fm` above prunes with Kohler's rule, whose completeness proof needs a rank argument.  `fmPlain` is
the textbook procedure (only rows `0 ≥ b` with `b ≤ 0` are dropped); it is exponential, which is
irrelevant for the systems of this project (it only runs when the fast search did not produce an
accepted certificate, which has never been observed).  `Proofs/LinCertComplete.lean` proves that
for every well-formed system its answer *is* accepted by the checker (`feasibleFM_complete`). -/

/-- rows with positive head coefficient, normalised to head `+1`, head dropped -/
def posRows (rows : List Row) : List Row :=
  (rows.filter (fun r => decide (0 < headD r.a))).map (fun r => scaleTail (1 / headD r.a) r)

/-- rows with negative head coefficient, normalised to head `−1`, head dropped -/
def negRows (rows : List Row) : List Row :=
  (rows.filter (fun r => decide (headD r.a < 0))).map (fun r => scaleTail (-1 / headD r.a) r)

/-- rows with zero head coefficient, head dropped -/
def zerRows (rows : List Row) : List Row :=
  (rows.filter (fun r => decide (headD r.a = 0))).map (fun r => scaleTail 1 r)

/-- all sums of a positive and a negative normalised row -/
def crossRows (pos neg : List Row) : List Row :=
  pos.flatMap (fun p => neg.map (fun q => addRow p q))

/-- a row `0 ≥ b` with `b ≤ 0` -/
def trivialRow (r : Row) : Bool := isZero r.a && decide (r.b ≤ 0)

/-- a point between the largest lower and the smallest upper bound -/
def between : Option Rat → Option Rat → Rat
  | some l, some h => (l + h) / 2
  | some l, none => l
  | none, some h => h
  | none, none => 0

/-- back-substitution: a value for the eliminated unknown given the values `xt` of the others
(pos: `x₀ + a·xt ≥ b`, neg: `−x₀ + a·xt ≥ b`) -/
def pickX0 (pos neg : List Row) (xt : Vec) : Rat :=
  between (maxList (pos.map (fun p => p.b - dot p.a xt)))
    (minList (neg.map (fun q => dot q.a xt - q.b)))

/-- `fmPlain n rows`: Fourier–Motzkin on rows with `n` unknowns, no pruning. -/
def fmPlain : Nat → List Row → Result
  | 0, rows =>
    match rows.find? (fun r => decide (0 < r.b)) with
    | some r => .farkas r.y
    | none => .witness []
  | n + 1, rows =>
    let pos := posRows rows
    let neg := negRows rows
    let next := (zerRows rows ++ crossRows pos neg).filter (fun r => !trivialRow r)
    match fmPlain n next with
    | .farkas y => .farkas y
    | .witness xt => .witness (pickX0 pos neg xt :: xt)

/-- **Search** (complete, see `fmPlain_complete`): plain Fourier–Motzkin on the system `S`. -/
def solvePlain (n : Nat) (S : Sys) : Result := fmPlain n (initRows S)

/-- `solvePlain` + checker.  Never `none` on a well-formed system (`feasibleFM_complete`). -/
def feasibleFM (n : Nat) (S : Sys) : Option Bool :=
  match solvePlain n S with
  | .witness x => if checkWitness n S x then some true else none
  | .farkas y => if checkFarkas n S y then some false else none

/-- **Decision**: the fast search (`feasible`, Kohler pruning); if it did not produce an accepted
certificate, the complete search (`feasibleFM`).  `some true` / `some false` are certified; `none`
only for an ill-formed system (`feasibleC_complete`). -/
def feasibleC (n : Nat) (S : Sys) : Option Bool :=
  match feasible n S with
  | some b => some b
  | none => feasibleFM n S

/-! ## Exact linear solve and active-set enumeration (untrusted search) -/

/-- first element satisfying `p`, and the list without it -/
def splitFirst {α : Type} (p : α → Bool) : List α → Option (α × List α)
  | [] => none
  | x :: xs => if p x then some (x, xs) else
    match splitFirst p xs with
    | some (y, ys) => some (y, x :: ys)
    | none => none

/-- Gaussian elimination: `k` unknowns, equations `(coefficients, rhs)`; `none` if no pivot is
found for some unknown (singular) — consistency of surplus equations is not checked here. -/
def solveLin : Nat → List (Vec × Rat) → Option Vec
  | 0, _ => some []
  | k + 1, eqs =>
    match splitFirst (fun e => decide (headD e.1 ≠ 0)) eqs with
    | none => none
    | some (p, rest) =>
      let ph := headD p.1
      let rest' := rest.map (fun e =>
        let f := headD e.1 / ph
        (vsub e.1.tail (smul f p.1.tail), e.2 - f * p.2))
      match solveLin k rest' with
      | none => none
      | some xt => some ((p.2 - dot p.1.tail xt) / ph :: xt)

/-- all sublists of `[0, …, k-1]` as boolean masks -/
def masks : Nat → List (List Bool)
  | 0 => [[]]
  | k + 1 => (masks k).flatMap (fun m => [false :: m, true :: m])

def select {α : Type} : List Bool → List α → List α
  | true :: m, x :: xs => x :: select m xs
  | false :: m, _ :: xs => select m xs
  | _, _ => []

/-- put the entries of `v` at the `true` positions of the mask, `0` elsewhere -/
def scatter : List Bool → Vec → Vec
  | true :: m, x :: xs => x :: scatter m xs
  | true :: m, [] => 0 :: scatter m []
  | false :: m, v => 0 :: scatter m v
  | [], _ => []

/-- candidate for active set `mask`: solve `A_I A_Iᵀ μ = b_I − A_I c`, `x = c + A_Iᵀ μ` -/
def candidate (n : Nat) (S : Sys) (c : Vec) (mask : List Bool) : Option (Vec × Vec) :=
  let act := select mask S
  let eqs := act.map (fun r => (act.map (fun r' => dot r.a r'.a), r.b - dot r.a c))
  match solveLin act.length eqs with
  | none => none
  | some mu =>
    let lam := scatter mask mu
    some (vadd c (combA n S lam), lam)

/-- **Search** (untrusted): nearest point of `{x | S}` to `c` with its multipliers, by enumerating
active sets; the first candidate passing `checkKKT` is returned. -/
def project (n : Nat) (S : Sys) (c : Vec) : Option (Vec × Vec) :=
  (masks S.length).findSome? (fun mask =>
    match candidate n S c mask with
    | some (x, lam) => if checkKKT n S c x lam then some (x, lam) else none
    | none => none)

/-- Certified nearest point: `(x, lam)` with `checkKKT n S c x lam = true`. -/
def nearest (n : Nat) (S : Sys) (c : Vec) : Option (Vec × Vec) :=
  match project n S c with
  | some (x, lam) => if checkKKT n S c x lam then some (x, lam) else none
  | none => none

end VOPy.LinCert
