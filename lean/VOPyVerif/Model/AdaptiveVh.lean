import VOPyVerif.Model.RealLike
/-!
# `calculate_design_vh`, `should_refine_design` (`vopy/design_space.py`) and
# `VOGP_AD.compute_beta` (`vopy/algorithms/vogp_ad.py`) as `RealLike` terms (import-free)

Each definition mirrors the Python expression operation by operation (same association order).
Integer-valued quantities (`domain_dim`, `objective_dim`, depths, the constants `alpha = 1`,
`N = 4`) are `Nat`/`Int` arguments and are combined as integers exactly where Python combines them
as `int`s before being injected with `ofNat`/`ofInt`.  The driver (`Drv/C18.lean`) runs the terms
at `Float`; `Props/C18.lean` proves the statements about the same terms at `ℝ`.

`np.power(x, k)` with an integer exponent is repeated multiplication (`npow`, `zpow`);
`np.power(Cki, 1 / alpha)` has the float exponent `1 / alpha = 1.0` and is modelled as `Cki`
itself (`alpha` is the constant 1 in the code).

Comparisons (`np.maximum(0, ·)`, `<=`) need an order on the carrier: the mix-in class `LeB`
(`Float`: IEEE `≤`; `ℝ`: the order, instance in `Proofs/AdaptiveVh.lean`).
-/
namespace VOPy

/-- a Boolean `≤` on the carrier of a `RealLike` term -/
class LeB (α : Type) where
  leb : α → α → Bool

instance : LeB Float := ⟨fun a b => a ≤ b⟩

namespace Vh
open VOPy.RealLike

variable {α : Type} [RealLike α]

/-- an integer as a carrier value -/
def ofInt (k : Int) : α := if k < 0 then -(ofNat k.natAbs) else ofNat k.natAbs

/-- `np.power(x, k)`, `k` a non-negative integer -/
def npow (x : α) : Nat → α
  | 0 => ofNat 1
  | k + 1 => npow x k * x

/-- `np.power(x, k)`, `k` an integer -/
def zpow (x : α) (k : Int) : α := if k < 0 then ofNat 1 / npow x k.natAbs else npow x k.natAbs

/-- the constants of `calculate_design_vh` (`# TODO: magic number` in the code) -/
def rho : α := ofFrac 1 2
def alphaC : Nat := 1
def bigN : Nat := 4

/-- `np.maximum(0, y)` -/
def max0 [LeB α] (y : α) : α := if LeB.leb (ofNat 0) y then y else ofNat 0

/-- `Cki = np.sqrt(variances[i]) / lengthscales[i]` (RBF kernel) -/
def cki (ls var : α) : α := sqrt var / ls

/-- `term1 = Cki * np.power(v1 * np.power(rho, depth), alpha)`, `v1 = 0.5 * np.sqrt(domain_dim)` -/
def term1 (d : Nat) (depth : Int) (ls var : α) : α :=
  let v1 := ofFrac 1 2 * sqrt (ofNat d)
  cki ls var * npow (v1 * zpow rho depth) alphaC

/-- `C1 = np.power((diam_x + 1) * diam_x / 2, domain_dim) * np.power(Cki, 1 / alpha)`,
`diam_x = np.sqrt(domain_dim)` -/
def c1 (d : Nat) (ls var : α) : α :=
  let diam := sqrt (ofNat d)
  npow ((diam + ofNat 1) * diam / ofNat 2) d * cki ls var

/-- `C2 = 2 * np.log(2 * np.power(C1, 2) * np.power(np.pi, 2) / 6)` -/
def c2 (d : Nat) (ls var : α) : α :=
  ofNat 2 * log (ofNat 2 * npow (c1 d ls var) 2 * npow pi 2 / ofNat 6)

/-- `C3 = 1.0 + 2.7 * np.sqrt(2 * domain_dim * alpha * np.log(2))` -/
def c3 (d : Nat) : α :=
  ofNat 1 + ofFrac 27 10 * sqrt (ofNat (2 * d * alphaC) * log (ofNat 2))

/-- `term2 = np.log(2 * np.power(depth + 1, 2) * np.power(np.pi, 2) * objective_dim / (6 * delta))` -/
def term2 (m : Nat) (depth : Int) (δ : α) : α :=
  log (ofInt (2 * ((depth + 1) * (depth + 1))) * npow pi 2 * ofNat m / (ofNat 6 * δ))

/-- `term3 = depth * np.log(N)` -/
def term3 (depth : Int) : α := ofInt depth * log (ofNat bigN)

/-- `term4 = np.maximum(0, -4 * domain_dim / alpha * np.log(term1))` -/
def term4 [LeB α] (d : Nat) (depth : Int) (ls var : α) : α :=
  max0 (ofInt (-4 * (d : Int)) / ofNat alphaC * log (term1 d depth ls var))

/-- one entry of `calculate_design_vh(model, design_index, depth_offset)`:
`Vh[i] = 4 * term1 * (np.sqrt(C2 + 2 * term2 + term3 + term4) + C3)` with
`depth = point_depths[design_index] + depth_offset`, `ls = lengthscales[i]`, `var = variances[i]` -/
def vhEntry [LeB α] (d m : Nat) (δ : α) (depth : Int) (ls var : α) : α :=
  ofNat 4 * term1 d depth ls var *
    (sqrt (c2 d ls var + ofNat 2 * term2 m depth δ + term3 depth + term4 d depth ls var) + c3 d)

/-- `calculate_design_vh`: one entry per objective, `lsvar[i] = (lengthscales[i], variances[i])`.
(The code indexes `lengthscales[i]` for `i < objective_dim`; a model that reports fewer
lengthscales than objectives makes it raise — finding D8 — which is outside this term.) -/
def designVh [LeB α] (d m : Nat) (δ : α) (pointDepth : Nat) (offset : Int) (lsvar : List (α × α)) :
    List α :=
  lsvar.map (fun p => vhEntry d m δ ((pointDepth : Int) + offset) p.1 p.2)

/-- left-to-right sum starting from 0 -/
def sumL (l : List α) : α := l.foldl (· + ·) (ofNat 0)

/-- `np.linalg.norm(v)` -/
def norm (v : List α) : α := sqrt (sumL (v.map (fun x => x * x)))

/-- left-hand sides `scale[j] * np.linalg.norm(std)` with `std = np.sqrt(np.diag(cov))` -/
def refineLhs (scale diagCov : List α) : List α :=
  let nstd := norm (diagCov.map sqrt)
  scale.map (fun s => s * nstd)

/-- right-hand side `np.linalg.norm(vh)` -/
def refineRhs [LeB α] (d m : Nat) (δ : α) (pointDepth : Nat) (lsvar : List (α × α)) : α :=
  norm (designVh d m δ pointDepth 0 lsvar)

/-- the comparison stage `np.all(lhs <= rhs)` -/
def allLe [LeB α] (lhs : List α) (rhs : α) : Bool := lhs.all (fun l => LeB.leb l rhs)

/-- `should_refine_design(model, design_index, scale)`:
```
if point_depths[design_index] >= max_depth: return False
vh = calculate_design_vh(model, design_index)
std = sqrt(diag(cov))
return np.all(scale * norm(std) <= norm(vh))
``` -/
def shouldRefine [LeB α] (d m : Nat) (δ : α) (pointDepth maxDepth : Nat) (lsvar : List (α × α))
    (scale diagCov : List α) : Bool :=
  if pointDepth ≥ maxDepth then false
  else
    allLe (refineLhs scale diagCov) (refineRhs d m δ pointDepth lsvar)

/-- `VOGP_AD.compute_beta`, `det = np.linalg.det(Kn + np.eye(len(Kn)))` an input:
```
rkhs_bound = 0.1
beta_sqr = rkhs_bound + np.sqrt(noise_var * np.log((1 / noise_var) * det) - 2 * np.log(delta))
beta_sqr = beta_sqr**2
return np.sqrt(beta_sqr / conf_contraction)
``` -/
def vogpAdBeta (noiseVar δ det c : α) : α :=
  let rkhs : α := ofFrac 1 10
  let b := rkhs + sqrt (noiseVar * log ((ofNat 1 / noiseVar) * det) - ofNat 2 * log δ)
  let b2 := b * b
  sqrt (b2 / c)

end Vh
end VOPy
