import VOPyVerif.Model.Basic
/-!
# GP wrappers (`vopy/models/gpytorch.py`): state machine + exact posterior, import-free

## 1. Wrapper state machine

Every wrapper (`IndependentExactGPyTorchModel`, `CorrelatedExactGPyTorchModel`,
`GPyTorchModelListExactModel`) keeps two copies of "the data":

* `held`        — `self.train_inputs / self.train_targets`, changed by `add_sample` / `clear_data`;
* `conditioned` — the train data inside the gpytorch `ExactGP` (`self.model`), changed **only** by
  `update()` (`model_kind(train_inputs, train_targets, …)` the first time,
  `set_train_data(…, strict=False)` afterwards);
* `initialised` — `self.model is not None`.

`predict` calls `self.model(test_X)`, i.e. it reads `conditioned`, never `held`.
The machine is generic in the *store* (`Store D B`: data container `D`, batch type `B`): the
multi-output wrappers append rows (`moStore`), the model list routes every observation to the list
of its objective (`mlStore`, mirroring `add_sample`'s `int` / `List[int]` `dim_index` branches).

The two train-and-freeze helpers perform the op sequence `helperOps` (update unconditionally after
the clear); `helperOpsConditional` is the sequence of the code before the fix `be888aa` (the last
`update()` skipped when `initial_sample_cnt = 0`).

## 2. Exact posterior over `Rat`

`posterior K noise k*ᵀ k** y mean₀ mean₀*` solves `(K + noise) X = [y − mean₀ | k*]` exactly
(fraction-free Bareiss elimination over `Int` after clearing denominators, *untrusted*; the
solution is returned as `z/δ`), **re-checks** `A·z = δ·b` for every column (`isScaledSolution`) and
returns `mean = mean₀* + k*ᵀα`, `cov = k** − k*ᵀ(K+noise)⁻¹k*` and the smallest pivot met (used by
the harness as a conditioning guard).  Kernel values are *looked up* in Gram tables exported by the
harness from the real kernel modules (no `exp` here): a training sample is `(point id, value)`.

* `postScalar`  — one objective on its own data (model list; independent model with scalar noise);
* `jointPost`   — `m` tasks × `N` samples, interleaved index `(a, i) ↦ a·m + i` as gpytorch's
  `MultitaskMultivariateNormal`, noise `I_N ⊗ Sg` (correlated model; independent model with a full
  noise matrix, where gpytorch conditions jointly although the prior is block diagonal).
-/
namespace VOPy.GPWrap

/-! ## 1. state machine -/

/-- data container `D` with batches `B` -/
structure Store (D B : Type) where
  empty : D
  add : D → B → D

structure State (D : Type) where
  held : D
  conditioned : D
  initialised : Bool
deriving Repr

inductive Op (B : Type) where
  | add (b : B)
  | clear
  | update
deriving Repr

variable {D B β : Type}

/-- freshly constructed wrapper: `clear_data()` in `__init__`, `self.model = None` -/
def init (S : Store D B) : State D := ⟨S.empty, S.empty, false⟩

def step (S : Store D B) (s : State D) : Op B → State D
  | .add b => { s with held := S.add s.held b }
  | .clear => { s with held := S.empty }
  | .update => { s with conditioned := s.held, initialised := true }

def run (S : Store D B) (s : State D) (ops : List (Op B)) : State D := ops.foldl (step S) s

/-- `predict`: defined once the gpytorch model exists; reads `conditioned` only -/
def predict (post : D → β) (s : State D) : Option β :=
  if s.initialised then some (post s.conditioned) else none

/-- the wrapper conditions on exactly what it reports holding -/
def upToDate [DecidableEq D] (s : State D) : Bool := s.initialised && decide (s.conditioned = s.held)

/-- multi-output wrappers: `torch.cat([train, batch], 0)` -/
def moStore (σ : Type) : Store (List σ) (List σ) := ⟨[], fun d b => d ++ b⟩

/-- `dim_index` of the model list's `add_sample` -/
inductive Route where
  | single (j : Nat)          -- `isinstance(dim_index, int)`: all rows to objective `j`
  | each (idx : List Nat)     -- one objective index per row
deriving Repr

/-- `_add_sample_single` -/
def addSingle {σ : Type} (d : List (List σ)) (j : Nat) (b : List σ) : List (List σ) :=
  d.modify j (· ++ b)

/-- `torch.unique(dim_index)`: ascending, without repetition -/
def uniqSorted (l : List Nat) : List Nat :=
  (List.range (l.foldl max 0 + 1)).filter (fun j => l.contains j)

/-- rows of the batch whose index equals `j`, in order (`X_t[dim_index == dim_i]`) -/
def masked {σ : Type} (idx : List Nat) (b : List σ) (j : Nat) : List σ :=
  ((idx.zip b).filter (fun p => p.1 == j)).map (·.2)

/-- the model list's `add_sample`.  A length mismatch raises `ValueError` in the code before any
change; the model leaves the data unchanged (the driver refuses such requests). -/
def mlAdd {σ : Type} (d : List (List σ)) : Route × List σ → List (List σ)
  | (.single j, b) => addSingle d j b
  | (.each idx, b) =>
    if idx.length ≠ b.length then d
    else (uniqSorted idx).foldl (fun acc j => addSingle acc j (masked idx b j)) d

def mlStore (σ : Type) (m : Nat) : Store (List (List σ)) (Route × List σ) :=
  ⟨List.replicate m [], mlAdd⟩

/-- op sequence of `get_gpytorch_model(list)_w_known_hyperparams`: add the training set (one
`add_sample` for the multi-output wrappers, one per objective for the model list), update,
(train,) clear; add the initial samples if `initial_sample_cnt > 0`; then `update()`
unconditionally (since the fix `be888aa` in /repo). -/
def helperOps (train : List B) (initial : Option B) : List (Op B) :=
  train.map .add ++ [.update, .clear] ++
    (match initial with
     | some b => [.add b]
     | none => []) ++ [.update]

/-- the helpers' op sequence *before* that fix: the last `update()` sat inside
`if initial_sample_cnt > 0:` — kept because the check `helper-stale-after-clear` and the theorem
`helperOpsConditional_upToDate_iff_ends_with_update` are about exactly this regression. -/
def helperOpsConditional (train : List B) (initial : Option B) : List (Op B) :=
  train.map .add ++ [.update, .clear] ++
    (match initial with
     | some b => [.add b, .update]
     | none => [])

/-! ## 2. exact linear algebra over `Rat` -/

def absQ (x : Rat) : Rat := if x < 0 then -x else x

def madd (A Bm : Mat) : Mat := List.zipWith vadd A Bm

def scalarMat (n : Nat) (s : Rat) : Mat :=
  (List.range n).map (fun i => (List.range n).map (fun j => if i = j then s else 0))

/-- least common denominator of all entries (a power of two for exported floats) -/
def commonDen (rows : List Vec) : Nat :=
  rows.foldl (fun acc r => r.foldl (fun acc x => Nat.lcm acc x.den) acc) 1

/-- `D·r` as integers (`D` a common multiple of the denominators) -/
def toIntRow (D : Nat) (r : Vec) : List Int := r.map (fun x => x.num * ((D / x.den : Nat) : Int))

/-- first row with a non-zero head, and the other rows in their order -/
def splitPivot : List (List Int) → Option (List Int × List (List Int))
  | [] => none
  | r :: rs =>
    match r with
    | [] => none
    | a :: _ =>
      if a ≠ 0 then some (r, rs)
      else match splitPivot rs with
        | some (p, rest) => some (p, r :: rest)
        | none => none

/-- one Bareiss update of a row below the pivot row `p :: pt` (`prev` = previous pivot) -/
def bareissRow (prev p : Int) (pt : List Int) (r : List Int) : List Int :=
  match r with
  | [] => []
  | c :: rt => List.zipWith (fun a b => (p * a - c * b) / prev) rt pt

/-- fraction-free forward elimination of the augmented integer rows; row `i` of the result starts
at column `i`, its head is the leading `(i+1)`-minor (up to sign) -/
def fwd : Nat → Int → List (List Int) → Option (List (List Int))
  | 0, _, [] => some []
  | 0, _, _ :: _ => none
  | k + 1, prev, rows =>
    match splitPivot rows with
    | none => none
    | some (p, rest) =>
      match p with
      | [] => none
      | a :: pt =>
        match fwd k a (rest.map (bareissRow prev a pt)) with
        | none => none
        | some U => some ((a :: pt) :: U)

/-- fraction-free back substitution for `δ·x`; one row per unknown, one column per right-hand side -/
def back (δ : Int) : List (List Int) → Option (List (List Int))
  | [] => some []
  | [] :: _ => none
  | (a :: pt) :: U =>
    match back δ U with
    | none => none
    | some Z =>
      let k := Z.length
      let acc := (List.zip (pt.take k) Z).foldl
        (fun acc cz => List.zipWith (fun x y => x - cz.1 * y) acc cz.2) ((pt.drop k).map (δ * ·))
      some (acc.map (· / a) :: Z)

/-- smallest `|pivot|` of ordinary Gaussian elimination, recovered from the Bareiss heads
`h₀, h₁, …` as `h_k / (h_{k-1}·D)` -/
def minPivot (D : Nat) (U : List (List Int)) : Option Rat :=
  (U.foldl (fun (acc : Option Rat × Int) r =>
    match r with
    | [] => acc
    | a :: _ =>
      let piv := absQ ((a : Rat) / ((acc.2 : Rat) * (D : Rat)))
      (match acc.1 with
       | none => some piv
       | some b => some (if piv < b then piv else b), a)) (none, 1)).1

/-- the *checker*: `δ ≠ 0`, `A` is `n × n` with `n = |z| = |b|`, and `A·z = δ·b`
(so that `x = z/δ` solves `A·x = b`) -/
def isScaledSolution (A : Mat) (δ : Rat) (z b : Vec) : Bool :=
  decide (δ ≠ 0) && z.length == A.length && b.length == A.length &&
    A.all (fun r => r.length == z.length) && matVec A z == smul δ b

/-- *Untrusted* exact solver: clears denominators, runs Bareiss elimination and back substitution.
Proposes `(δ, [z_c], min pivot)` with `x_c = z_c/δ`. -/
def solveCore (A : Mat) (bs : List Vec) : Option (Rat × List Vec × Option Rat) :=
  let D := commonDen (A ++ bs)
  let aug := A.zipIdx.map (fun ri => toIntRow D (ri.1 ++ bs.map (fun b => b[ri.2]?.getD 0)))
  match fwd A.length 1 aug with
  | none => none
  | some U =>
    let δI : Int := match U.getLast? with
      | some (a :: _) => a
      | _ => 1
    match back δI U with
    | none => none
    | some Z =>
      some ((δI : Rat),
        (List.range bs.length).map (fun c => Z.map (fun row => ((row[c]?.getD 0 : Int) : Rat))),
        minPivot D U)

/-- Solve `A x_c = b_c` for every right-hand side: returns `(δ, [z_c])` with `x_c = z_c/δ`.  The
proposal of `solveCore` is returned only if every column passes `isScaledSolution`. -/
def solveMany (A : Mat) (bs : List Vec) : Option (Rat × List Vec × Option Rat) :=
  match solveCore A bs with
  | none => none
  | some (δ, zs, piv) =>
    if zs.length == bs.length && (zs.zip bs).all (fun zb => isScaledSolution A δ zb.1 zb.2) then
      some (δ, zs, piv)
    else none

structure Post where
  mean : Vec
  cov : Mat
  minPivot : Option Rat
deriving Repr

/-- shapes: `K`, `noise` are `n × n`; `kstarT`, is `t × n` (row `i` = cross-covariances of target
`i` with the training outputs); `kss` is `t × t`; `y`, `m0` have length `n`; `m0s` length `t`. -/
def dimsOk (K noise kstarT kss : Mat) (y m0 m0s : Vec) : Bool :=
  let n := y.length
  let t := m0s.length
  K.length == n && K.all (·.length == n) && noise.length == n && noise.all (·.length == n) &&
  m0.length == n && kstarT.length == t && kstarT.all (·.length == n) &&
  kss.length == t && kss.all (·.length == t)

/-- exact GP posterior at `t` targets given `n` noisy observations:
`(K + noise)·α = y − m0`, `(K + noise)·V_j = kstarT_j` (both as `z/δ`),
`mean_i = m0s_i + kstarT_i·α`, `cov_ij = kss_ij − kstarT_i·V_j`. -/
def posterior (K noise kstarT kss : Mat) (y m0 m0s : Vec) : Option Post :=
  if !dimsOk K noise kstarT kss y m0 m0s then none
  else
    match solveMany (madd K noise) (vsub y m0 :: kstarT) with
    | some (δ, zα :: zV, piv) =>
      some { mean := List.zipWith (fun c k => c + dot k zα / δ) m0s kstarT
             cov := List.zipWith (fun row k => List.zipWith (fun e zv => e - dot k zv / δ) row zV) kss kstarT
             minPivot := piv }
    | _ => none

/-! ## 3. the three model classes on exported Gram tables -/

def lookup (T : Mat) (i j : Nat) : Option Rat :=
  match T[i]? with
  | some r => r[j]?
  | none => none

def gram (T : Mat) (rows cols : List Nat) : Option Mat :=
  rows.mapM (fun a => cols.mapM (fun b => lookup T a b))

/-- One objective: kernel table `T`, noise variance `s`, mean constant `c`, data
`(point id, value)`, test point `p`.  (`SingleTaskGP` of the model list; one batch entry of the
independent model when the noise is `s·I`.) -/
def postScalar (T : Mat) (s c : Rat) (data : List (Nat × Rat)) (p : Nat) : Option Post :=
  let ids := data.map (·.1)
  match gram T ids ids, gram T [p] ids, gram T [p] [p] with
  | some K, some kT, some kss =>
    posterior K (scalarMat ids.length s) kT kss (data.map (·.2)) (data.map (fun _ => c)) [c]
  | _, _, _ => none

/-- configuration shared by the three wrappers -/
structure Cfg where
  m : Nat               -- number of objectives
  noise : Mat           -- `1 × 1` (scalar noise variance) or `m × m` (task noise covariance)
  consts : Vec          -- mean constants (zeros for the two multi-output wrappers)
  tables : List Mat     -- indep / model list: one `P × P` table per objective;
                        -- correlated: a single `(P·m) × (P·m)` table, index `pid·m + task`
deriving Repr

/-- the `m × m` task noise matrix (`s·I` for scalar noise) -/
def Cfg.taskNoise (cfg : Cfg) : Option Mat :=
  match cfg.noise with
  | [[s]] => if cfg.m = 1 then some [[s]] else some (scalarMat cfg.m s)
  | Sg => if Sg.length == cfg.m && Sg.all (·.length == cfg.m) then some Sg else none

def Cfg.scalarNoise (cfg : Cfg) : Option Rat :=
  match cfg.noise with
  | [[s]] => some s
  | _ => none

/-- combine per-objective scalar posteriors into `(mean, diag cov)` -/
def assembleDiag (ps : List Post) : Post :=
  let m := ps.length
  { mean := ps.map (fun q => q.mean.headD 0)
    cov := ps.zipIdx.map (fun qi => (List.range m).map (fun j =>
      if qi.2 = j then (qi.1.cov.headD []).headD 0 else 0))
    minPivot := ps.foldl (fun acc q =>
      match acc, q.minPivot with
      | none, x => x
      | some a, none => some a
      | some a, some b => some (if b < a then b else a)) none }

/-- interleaved joint index: sample position `a` (with point id `pa`), task `i` -/
def jointIdx (m : Nat) (pids : List Nat) : List (Nat × Nat × Nat) :=
  pids.zipIdx.flatMap (fun pa => (List.range m).map (fun i => (pa.2, pa.1, i)))

/-- Joint posterior of all `m` tasks at test point `p` given samples `(pid, y ∈ ℚ^m)`:
`kfun pa i pb j` is the prior covariance of task `i` at point `pa` with task `j` at point `pb`;
noise `I_N ⊗ Sg`; zero mean. -/
def jointPost (m : Nat) (kfun : Nat → Nat → Nat → Nat → Option Rat) (Sg : Mat)
    (data : List (Nat × Vec)) (p : Nat) : Option Post :=
  let idx := jointIdx m (data.map (·.1))
  let tasks := List.range m
  let K := idx.mapM (fun u => idx.mapM (fun v => kfun u.2.1 u.2.2 v.2.1 v.2.2))
  let N := idx.mapM (fun u => idx.mapM (fun v =>
    if u.1 = v.1 then lookup Sg u.2.2 v.2.2 else some 0))
  let kT := tasks.mapM (fun j => idx.mapM (fun u => kfun p j u.2.1 u.2.2))
  let kss := tasks.mapM (fun i => tasks.mapM (fun j => kfun p i p j))
  let y := data.flatMap (·.2)
  match K, N, kT, kss with
  | some K, some N, some kT, some kss =>
    if data.all (·.2.length == m) then
      posterior K N kT kss y (y.map (fun _ => 0)) (tasks.map (fun _ => 0))
    else none
  | _, _, _, _ => none

/-- independent model: prior block diagonal over tasks -/
def indepK (cfg : Cfg) (pa i pb j : Nat) : Option Rat :=
  match cfg.tables[i]? with
  | some T => if i = j then lookup T pa pb else (if j < cfg.m then some 0 else none)
  | none => none

/-- correlated model: the table is the joint Gram `evaluate_kernel` returns -/
def corrK (cfg : Cfg) (pa i pb j : Nat) : Option Rat :=
  match cfg.tables with
  | [G] => if i < cfg.m && j < cfg.m then lookup G (pa * cfg.m + i) (pb * cfg.m + j) else none
  | _ => none

/-- `IndependentExactGPyTorchModel`, computed jointly (what gpytorch does for every noise) -/
def indepJoint (cfg : Cfg) (data : List (Nat × Vec)) (p : Nat) : Option Post :=
  match cfg.taskNoise with
  | some Sg => if cfg.tables.length == cfg.m then jointPost cfg.m (indepK cfg) Sg data p else none
  | none => none

/-- `IndependentExactGPyTorchModel`: per objective for scalar noise, jointly for a noise matrix -/
def indepPost (cfg : Cfg) (data : List (Nat × Vec)) (p : Nat) : Option Post :=
  match cfg.scalarNoise with
  | some s =>
    if cfg.tables.length == cfg.m && data.all (·.2.length == cfg.m) then
      match cfg.tables.zipIdx.mapM (fun Tj =>
          postScalar Tj.1 s 0 (data.map (fun d => (d.1, d.2[Tj.2]?.getD 0))) p) with
      | some ps => some (assembleDiag ps)
      | none => none
    else none
  | none => indepJoint cfg data p

/-- `CorrelatedExactGPyTorchModel` -/
def corrPost (cfg : Cfg) (data : List (Nat × Vec)) (p : Nat) : Option Post :=
  match cfg.taskNoise with
  | some Sg => jointPost cfg.m (corrK cfg) Sg data p
  | none => none

/-- `GPyTorchModelListExactModel`: objective `j` on its own data, scalar noise, constant mean -/
def mlistPost (cfg : Cfg) (data : List (List (Nat × Rat))) (p : Nat) : Option Post :=
  match cfg.scalarNoise with
  | some s =>
    if cfg.tables.length == cfg.m && data.length == cfg.m && cfg.consts.length == cfg.m then
      match (cfg.tables.zip (cfg.consts.zip data)).mapM (fun Tcd =>
          postScalar Tcd.1 s Tcd.2.1 Tcd.2.2 p) with
      | some ps => some (assembleDiag ps)
      | none => none
    else none
  | none => none

/-- predictions at several test points (each point separately, as the wrappers' batch inference) -/
def predictAt {Dt : Type} (post : Dt → Nat → Option Post) (data : Dt) (ps : List Nat) :
    Option (List Post) :=
  ps.mapM (post data)

end VOPy.GPWrap
