import VOPyVerif.Model.LinCert
/-!
# "Is covered" (`vopy/confidence_region.py`), import-free model

`confidence_region_is_covered(order, R₁, R₂, slack)` asks a conic solver whether

  `∃ z ∈ R₁, ∃ z' ∈ R₂ :  W (z' − z − s) ≥ t`          (one inequality per facet `w` of the cone)

is feasible.  Rectangles use an *objective-space* shift `s` (`t = 0`); ellipsoids a *per-facet*
slack `t` (`s = 0`).  The model carries both, so the borderline band of the harness is always a
perturbation of the per-facet margin `t` (the predicate is antitone in `t` for every cone).

Every verdict is `Verdict.yes` / `.no` / `.inconclusive`; `yes`/`no` are only returned after one of
the checkers of `Model/LinCert.lean` (or `checkEllWitness` / `checkEllSep` below) has accepted a
certificate.  Soundness theorems: `Props/C10.lean`.  For rectangles and balls the verdict functions
are also *total* on well-formed input (the searches are complete), so they decide the semantic
predicate: `rect_isCovered_iff`, `rect_band_iff`, `ball_isCovered_iff`, `ball_band_iff` in
`Props/C10.lean`.  Only general ellipsoids (certificates proposed by the harness) can be
`inconclusive`.

## Public API

* `expandSlack k s`   — slack guard + numpy broadcasting (size 1 → repeated `k` times, size `k` →
                        as is, otherwise `none` = the code's `ValueError`).
* `rectSys W l1 u1 l2 u2 s t`   — the LP of `RectangularConfidenceRegion.is_covered` in the `2m`
                        unknowns `(z, z')`, rows in the code's order.
* `rectVerdictFast W l1 u1 l2 u2 s t` — Fourier–Motzkin (Kohler pruning) on the reduced system in
                        `d = z' − z` (`rectSysD`), certificate lifted to and *checked against* `rectSys`.
* `rectVerdict W l1 u1 l2 u2 s t` — `rectVerdictFast`; if that is `inconclusive` (never observed),
                        the provably complete plain Fourier–Motzkin `feasibleFM` on `rectSys` itself.
                        Total on well-formed input: `yes ↔ Cov`, `no ↔ ¬Cov` (`Props/C10.lean`).
* `rectIsCovered W l1 u1 l2 u2 slack` — guard + `rectVerdict … (t = 0)`; `none` = `ValueError`.
* `coneSys W t`       — the polyhedron `{d | W d ≥ t}`.
* `ballVerdict W c1 a1 c2 a2 t` — balls (`Σ = I`, radii `a₁, a₂ ≥ 0`): exact KKT projection of
                        `c₂ − c₁` on `{d | W d ≥ t}`, compared with `(a₁ + a₂)²`; if no projection is
                        found, `feasibleC` certifies the polyhedron empty.  Total under the guard
                        (radii `≥ 0`, equal dimensions, cone rows of that dimension).
* `ellPoint c L u`    — the point `c + L u` of the ellipsoid `{c + L u | ‖u‖ ≤ a}`
                        (`= {z | ‖Σ^{-1/2}(z − c)‖ ≤ a}` whenever `L Lᵀ = Σ`).
* `checkEllWitness`, `checkEllSep`, `ellVerdict` — certificate checkers for general ellipsoids.
-/
namespace VOPy.Covered
open VOPy.LinCert

inductive Verdict where
  | yes
  | no
  | inconclusive
deriving DecidableEq

def Verdict.toString : Verdict → String
  | .yes => "1"
  | .no => "0"
  | .inconclusive => "inconclusive"

/-- Slack guard (`np.array(slackness).size != 1 and slackness.size != k` raises) followed by numpy
broadcasting; `none` is the `ValueError`. -/
def expandSlack (k : Nat) (s : Vec) : Option Vec :=
  match s with
  | [x] => some (List.replicate k x)
  | _ => if s.length = k then some s else none

/-- number of columns of the cone matrix (`cone_matrix.shape[1]`) -/
def ncols (W : Mat) : Nat := match W with | [] => 0 | w :: _ => w.length

/-- `c · e_i` in `ℝⁿ` (all zeros if `i ≥ n`) -/
def unitVec : Nat → Nat → Rat → Vec
  | 0, _, _ => []
  | n + 1, 0, c => c :: zeros n
  | n + 1, i + 1, c => 0 :: unitVec n i c

/-- rows `c · x_{k+i} ≥ bᵢ` for `i = 0, 1, …` in `n` unknowns -/
def axisRows (n : Nat) (c : Rat) : Nat → Vec → Sys
  | _, [] => []
  | k, b :: bs => ⟨unitVec n k c, b⟩ :: axisRows n c (k + 1) bs

/-- cone rows `w · (z' − z) ≥ w · s + tᵢ` in the unknowns `(z, z')` -/
def coneRows2 (W : Mat) (s t : Vec) : Sys :=
  List.zipWith (fun w ti => ⟨vneg w ++ w, dot w s + ti⟩) W t

/-- The LP of `RectangularConfidenceRegion.is_covered` in the unknowns `x = z ++ z'`:
`[I; −I] z ≥ [l₁; −u₁]`, `[I; −I] z' ≥ [l₂; −u₂]`, `W (z' − z − s) ≥ t` (`t = 0` in the code). -/
def rectSys (W : Mat) (l1 u1 l2 u2 s t : Vec) : Sys :=
  let m := l1.length
  axisRows (2 * m) 1 0 l1 ++ axisRows (2 * m) (-1) 0 (vneg u1) ++
  axisRows (2 * m) 1 m l2 ++ axisRows (2 * m) (-1) m (vneg u2) ++ coneRows2 W s t

/-- cone rows `w · d ≥ w · s + tᵢ` in the unknown `d` -/
def coneRows (W : Mat) (s t : Vec) : Sys :=
  List.zipWith (fun w ti => ⟨w, dot w s + ti⟩) W t

/-- the reduced system in `d = z' − z`: `l₂ − u₁ ≤ d ≤ u₂ − l₁`, `W (d − s) ≥ t` -/
def rectSysD (W : Mat) (l1 u1 l2 u2 s t : Vec) : Sys :=
  let m := l1.length
  axisRows m 1 0 (vsub l2 u1) ++ axisRows m (-1) 0 (vneg (vsub u2 l1)) ++ coneRows W s t

/-- from `d` with `l₂ − u₁ ≤ d ≤ u₂ − l₁` to `(z, z')` with `z' − z = d` inside the boxes -/
def liftWitness : Vec → Vec → Vec → Vec × Vec
  | p1 :: u1, p2 :: u2, d :: ds =>
    let z' := if p1 + d ≤ p2 then p1 + d else p2
    let (zs, zs') := liftWitness u1 u2 ds
    ((z' - d) :: zs, z' :: zs')
  | _, _, _ => ([], [])

/-- multipliers of `rectSysD` (`lo`, `hi`, cone) to multipliers of `rectSys` -/
def liftFarkas (m : Nat) (y : Vec) : Vec :=
  let ylo := y.take m
  let yhi := (y.drop m).take m
  let yc := y.drop (2 * m)
  yhi ++ ylo ++ ylo ++ yhi ++ yc

/-- Fast path: Fourier–Motzkin with Kohler pruning on the reduced system in `d`, certificate lifted
to and checked against the full LP `rectSys`. -/
def rectVerdictFast (W : Mat) (l1 u1 l2 u2 s t : Vec) : Verdict :=
  let m := l1.length
  let full := rectSys W l1 u1 l2 u2 s t
  match solve m (rectSysD W l1 u1 l2 u2 s t) with
  | .witness d =>
    let (z, z') := liftWitness u1 u2 d
    if checkWitness (2 * m) full (z ++ z') then .yes else .inconclusive
  | .farkas y =>
    if checkFarkas (2 * m) full (liftFarkas m y) then .no else .inconclusive

/-- Certified answer to "`∃ z ∈ [l₁,u₁], z' ∈ [l₂,u₂] : W (z' − z − s) ≥ t`?": the fast path; only if
that produced no accepted certificate (never observed), the complete search `feasibleFM` on the full
LP.  Never `inconclusive` on well-formed input (`rect_verdict_total` in `Props/C10.lean`). -/
def rectVerdict (W : Mat) (l1 u1 l2 u2 s t : Vec) : Verdict :=
  match rectVerdictFast W l1 u1 l2 u2 s t with
  | .inconclusive =>
    match feasibleFM (2 * l1.length) (rectSys W l1 u1 l2 u2 s t) with
    | some true => .yes
    | some false => .no
    | none => .inconclusive
  | v => v

/-- `RectangularConfidenceRegion.is_covered`: guard on the slack size (against the number of
columns of `W`), then feasibility with `t = 0`.  `none` = `ValueError`. -/
def rectIsCovered (W : Mat) (l1 u1 l2 u2 slack : Vec) : Option Verdict :=
  (expandSlack (ncols W) slack).map fun s =>
    rectVerdict W l1 u1 l2 u2 s (zeros W.length)

/-- the same with every facet inequality tightened by the margin `tau` (borderline band) -/
def rectIsCoveredTol (W : Mat) (l1 u1 l2 u2 slack : Vec) (tau : Rat) : Option Verdict :=
  (expandSlack (ncols W) slack).map fun s =>
    rectVerdict W l1 u1 l2 u2 s (List.replicate W.length tau)

/-! ## Ellipsoids -/

/-- the polyhedron `{d | W d ≥ t}` -/
def coneSys (W : Mat) (t : Vec) : Sys := List.zipWith (fun w ti => ⟨w, ti⟩) W t

/-- Balls `B(c₁, a₁)`, `B(c₂, a₂)` (the PaVeBa case `Σ = I`): covered iff the squared distance of
`c₂ − c₁` to `{d | W d ≥ t}` is at most `(a₁ + a₂)²`; the nearest point comes with a checked KKT
certificate.  If the polyhedron is certified empty the answer is `no`.  `inconclusive` only if the
guard fails (`ball_verdict_total`). -/
def ballVerdict (W : Mat) (c1 : Vec) (a1 : Rat) (c2 : Vec) (a2 : Rat) (t : Vec) : Verdict :=
  let m := c1.length
  if a1 < 0 || a2 < 0 || c2.length != m then .inconclusive else
  let delta := vsub c2 c1
  match nearest m (coneSys W t) delta with
  | some (x, _) =>
    if normSq (vsub x delta) ≤ (a1 + a2) * (a1 + a2) then .yes else .no
  | none =>
    match feasibleC m (coneSys W t) with
    | some false => .no
    | _ => .inconclusive

/-- `EllipsoidalConfidenceRegion.is_covered` for `Σ₁ = Σ₂ = I`: guard on the slack size (against the
number of facets), then `ballVerdict`.  `none` = `ValueError`. -/
def ballIsCovered (W : Mat) (c1 : Vec) (a1 : Rat) (c2 : Vec) (a2 : Rat) (slack : Vec) :
    Option Verdict :=
  (expandSlack W.length slack).map fun t => ballVerdict W c1 a1 c2 a2 t

def ballIsCoveredTol (W : Mat) (c1 : Vec) (a1 : Rat) (c2 : Vec) (a2 : Rat) (slack : Vec)
    (tau : Rat) : Option Verdict :=
  (expandSlack W.length slack).map fun t =>
    ballVerdict W c1 a1 c2 a2 (t.map (· + tau))

/-- `c + L u` -/
def ellPoint (c : Vec) (L : Mat) (u : Vec) : Vec := vadd c (matVec L u)

/-- `L` is an `m × m` matrix and `c` an `m`-vector -/
def wfEll (m : Nat) (c : Vec) (L : Mat) : Bool :=
  decide (c.length = m) && decide (L.length = m) && L.all (fun r => decide (r.length = m))

/-- **Checker** (witness pair): `u₁, u₂` with `‖uᵢ‖² ≤ aᵢ²`; the points `z = c₁ + L₁u₁`,
`z' = c₂ + L₂u₂` satisfy `W (z' − z) ≥ t`. -/
def checkEllWitness (W : Mat) (c1 : Vec) (L1 : Mat) (a1 : Rat) (c2 : Vec) (L2 : Mat) (a2 : Rat)
    (t u1 u2 : Vec) : Bool :=
  let m := c1.length
  wfEll m c1 L1 && wfEll m c2 L2 && decide (u1.length = m) && decide (u2.length = m) &&
  decide (0 ≤ a1) && decide (0 ≤ a2) &&
  decide (normSq u1 ≤ a1 * a1) && decide (normSq u2 ≤ a2 * a2) &&
  checkWitness m (coneSys W t) (vsub (ellPoint c2 L2 u2) (ellPoint c1 L1 u1))

/-- **Checker** (separating multiplier): `lam ≥ 0` and, with `v = Wᵀlam`,
`v·(c₂−c₁) + a₁‖L₁ᵀv‖ + a₂‖L₂ᵀv‖ < lam·t`, decided by squaring twice:
`g = lam·t − v·(c₂−c₁) > 0`, `h = g² − a₁²‖L₁ᵀv‖² − a₂²‖L₂ᵀv‖² > 0`, `4 a₁²‖L₁ᵀv‖² a₂²‖L₂ᵀv‖² < h²`. -/
def checkEllSep (W : Mat) (c1 : Vec) (L1 : Mat) (a1 : Rat) (c2 : Vec) (L2 : Mat) (a2 : Rat)
    (t lam : Vec) : Bool :=
  let m := c1.length
  let v := lincomb m W lam
  let g := dot lam t - dot v (vsub c2 c1)
  let A := a1 * a1 * normSq (lincomb m L1 v)
  let B := a2 * a2 * normSq (lincomb m L2 v)
  let h := g * g - A - B
  wfEll m c1 L1 && wfEll m c2 L2 && W.all (fun w => decide (w.length = m)) &&
  decide (lam.length = W.length) && decide (t.length = W.length) &&
  decide (0 ≤ a1) && decide (0 ≤ a2) && allNonneg lam &&
  decide (0 < g) && decide (0 < h) && decide (4 * A * B < h * h)

/-- General ellipsoids: the verdict is whatever the supplied certificate proves. -/
def ellVerdict (W : Mat) (c1 : Vec) (L1 : Mat) (a1 : Rat) (c2 : Vec) (L2 : Mat) (a2 : Rat)
    (t u1 u2 lam : Vec) : Verdict :=
  if checkEllWitness W c1 L1 a1 c2 L2 a2 t u1 u2 then .yes
  else if checkEllSep W c1 L1 a1 c2 L2 a2 t lam then .no
  else .inconclusive

end VOPy.Covered
