import VOPyVerif.Model.Basic
import VOPyVerif.Model.RealLike
/-!
# Cone constants α_n, d₁, u*, β — certificate checkers (import-free)

VOPy computes `α_n = max{ w_n·x | W x ≥ 0, ‖x‖ ≤ 1 }` with an SOCP solver (`utils.get_alpha`) and
`d₁ = min{ ‖z‖ | W z ≥ 𝟙 }`, `u* = z*/‖z*‖` with SLSQP (`VOGP.compute_u_star`).  The model never
trusts a solver (DESIGN §2.3): the harness *proposes* rational primal / dual certificates and the
checkers below *verify* them in exact `Rat` arithmetic, producing certified bounds

* primal `x` (in the cone, `‖x‖² ≤ 1`)            ⇒ `w_n·x ≤ α_n`;
* dual `λ ≥ 0`                                     ⇒ `α_n ≤ ‖w_n + Wᵀλ‖`;
* primal `z` (`W z ≥ 𝟙`)                           ⇒ `d₁ ≤ ‖z‖`;
* dual `λ ≥ 0`                                     ⇒ `Σλ / ‖Wᵀλ‖ ≤ d₁`.

Comparisons of a rational with a norm are decided exactly by squaring; rational enclosures of the
square roots come from `Nat.sqrt` and are *re-checked* by the checker, so nothing about `Nat.sqrt`
is trusted.  Soundness theorems over `ℝ`: `Proofs/ConeConstBridge.lean`, `Props/C17.lean`.

`coneBeta` is `ConeTheta2D.beta` written once over `RealLike`.
-/
namespace VOPy.ConeConst

/-- the zero vector of length `m` -/
def zeros (m : Nat) : Vec := List.replicate m 0

/-- `Wᵀ λ = Σ_i λ_i · W_i`, a vector of length `m` (rows and multipliers are paired positionally) -/
def tmulVec (m : Nat) : Mat → Vec → Vec
  | w :: W, l :: ls => vadd (smul l w) (tmulVec m W ls)
  | _, _ => zeros m

/-- sum of the entries -/
def vsum : Vec → Rat
  | [] => 0
  | a :: as => a + vsum as

/-- every row of `W` has length `m` -/
def rowsOk (m : Nat) (W : Mat) : Bool := W.all (fun w => w.length == m)

/-- all entries at least one -/
def allGeOne (v : Vec) : Bool := v.all (fun t => decide (1 ≤ t))

/-! ### square-root enclosures (untrusted proposals; the checkers re-verify by squaring) -/

/-- resolution of the square-root enclosures: `2⁻¹⁰⁰` -/
def sqrtScale : Nat := 2 ^ 100

/-- a rational `≥ √r` (for `r ≥ 0`), within `2/sqrtScale` of it -/
def sqrtUp (r : Rat) : Rat :=
  if r ≤ 0 then 0 else
    let s2 : Int := (sqrtScale * sqrtScale : Nat)
    let k : Nat := ((r.num * s2 + r.den - 1) / r.den).toNat
    ((Nat.sqrt k + 1 : Nat) : Rat) / (sqrtScale : Nat)

/-- a rational in `[0, √r]` (for `r ≥ 0`), within `2/sqrtScale` of `√r` -/
def sqrtDown (r : Rat) : Rat :=
  if r ≤ 0 then 0 else
    let s2 : Int := (sqrtScale * sqrtScale : Nat)
    let k : Nat := ((r.num * s2) / r.den).toNat
    ((Nat.sqrt k : Nat) : Rat) / (sqrtScale : Nat)

/-! ### α_n -/

/-- primal certificate for `α`: `x` lies in the cone, `‖x‖² ≤ 1`, and `lo ≤ c·x` -/
def alphaPrimalOk (m : Nat) (W : Mat) (c x : Vec) (lo : Rat) : Bool :=
  rowsOk m W && c.length == m && x.length == m && inCone W x && decide (normSq x ≤ 1) &&
    decide (lo ≤ dot c x)

/-- dual certificate for `α`: `λ ≥ 0` (one multiplier per row), `hi ≥ 0` and
`‖c + Wᵀλ‖² ≤ hi²` -/
def alphaDualOk (m : Nat) (W : Mat) (c lam : Vec) (hi : Rat) : Bool :=
  rowsOk m W && c.length == m && lam.length == W.length && allNonneg lam && decide (0 ≤ hi) &&
    decide (normSq (vadd c (tmulVec m W lam)) ≤ hi * hi)

/-- ambient dimension read off the first row -/
def dimOf (W : Mat) : Nat := match W with | [] => 0 | w :: _ => w.length

/-- certified lower bound `w_n·x` for `α_n` from a primal proposal `x` (`none`: not verifiable) -/
def alphaLo (W : Mat) (n : Nat) (x : Vec) : Option Rat :=
  match W[n]? with
  | none => none
  | some wn =>
    let lo := dot wn x
    if alphaPrimalOk (dimOf W) W wn x lo then some lo else none

/-- certified upper bound `≈ ‖w_n + Wᵀλ‖` for `α_n` from a dual proposal `λ` -/
def alphaHi (W : Mat) (n : Nat) (lam : Vec) : Option Rat :=
  match W[n]? with
  | none => none
  | some wn =>
    let hi := sqrtUp (normSq (vadd wn (tmulVec (dimOf W) W lam)))
    if alphaDualOk (dimOf W) W wn lam hi then some hi else none

/-! ### d₁ -/

/-- `z` is feasible for the `d₁` problem: shapes fit and `W z ≥ 𝟙` -/
def d1Feasible (m : Nat) (W : Mat) (z : Vec) : Bool :=
  rowsOk m W && z.length == m && allGeOne (matVec W z)

/-- primal certificate for `d₁`: `W z ≥ 𝟙`, `hi ≥ 0`, `‖z‖² ≤ hi²` -/
def d1PrimalOk (m : Nat) (W : Mat) (z : Vec) (hi : Rat) : Bool :=
  d1Feasible m W z && decide (0 ≤ hi) && decide (normSq z ≤ hi * hi)

/-- `λ` is a dual point: shapes fit and `λ ≥ 0` -/
def dualFeasible (m : Nat) (W : Mat) (lam : Vec) : Bool :=
  rowsOk m W && lam.length == W.length && allNonneg lam

/-- dual certificate for `d₁`: `λ ≥ 0`, and either `lo = 0`, or `lo > 0`, `Wᵀλ ≠ 0` and
`lo²·‖Wᵀλ‖² ≤ (Σλ)²`, i.e. `lo ≤ Σλ/‖Wᵀλ‖` -/
def d1DualOk (m : Nat) (W : Mat) (lam : Vec) (lo : Rat) : Bool :=
  dualFeasible m W lam && decide (0 ≤ lo) &&
    (decide (lo = 0) || (decide (0 < normSq (tmulVec m W lam)) &&
      decide (lo * lo * normSq (tmulVec m W lam) ≤ vsum lam * vsum lam)))

/-- certified upper bound `≈ ‖z‖` for `d₁` from a primal proposal -/
def d1Hi (W : Mat) (z : Vec) : Option Rat :=
  let hi := sqrtUp (normSq z)
  if d1PrimalOk (dimOf W) W z hi then some hi else none

/-- the squared dual value `(Σλ)² / ‖Wᵀλ‖²` — an exact rational (0 if `Wᵀλ = 0`) -/
def d1DualSq (W : Mat) (lam : Vec) : Rat :=
  let q := normSq (tmulVec (dimOf W) W lam)
  if q ≤ 0 then 0 else vsum lam * vsum lam / q

/-- the dual value `Σλ/‖Wᵀλ‖` rounded down -/
def d1LoProposal (W : Mat) (lam : Vec) : Rat := sqrtDown (d1DualSq W lam)

/-- certified lower bound for `d₁` from a dual proposal -/
def d1Lo (W : Mat) (lam : Vec) : Option Rat :=
  let lo := d1LoProposal W lam
  if d1DualOk (dimOf W) W lam lo then some lo else none

/-! ### u* : relation (R) evaluated on the implementation's `(u*, d₁)` -/

/-- tolerance on `‖u*‖ = 1` and on cone membership `W u* ≥ 0` -/
def tolUnit : Rat := 1 / 1000000000
/-- tolerance on the feasibility `W (d₁ u*) ≥ 𝟙` of the implementation's point (SLSQP) -/
def tolFeas : Rat := 1 / 1000000

/-- `| ‖u‖ − 1 | ≤ tolUnit`, by squaring -/
def unitNormOk (u : Vec) : Bool :=
  decide ((1 - tolUnit) * (1 - tolUnit) ≤ normSq u) && decide (normSq u ≤ (1 + tolUnit) * (1 + tolUnit))

/-- `W u ≥ −tolUnit` componentwise -/
def inConeTol (W : Mat) (u : Vec) : Bool := (matVec W u).all (fun t => decide (-tolUnit ≤ t))

/-- `W (d u) ≥ 1 − tolFeas` componentwise -/
def feasTol (W : Mat) (u : Vec) (d : Rat) : Bool :=
  (matVec W (smul d u)).all (fun t => decide (1 - tolFeas ≤ t))

/-- Certified distance data for the direction: from a primal proposal `z` (`W z ≥ 𝟙`) and a dual
proposal `λ ≥ 0` with `Wᵀλ ≠ 0`, every minimum-norm feasible point `z*` satisfies
`‖z*‖² ≥ (Σλ)²/‖Wᵀλ‖²` (weak duality) and `‖z − z*‖² ≤ ‖z‖² − ‖z*‖²` (strong convexity), hence
`‖z − z*‖² ≤ gapSq := ‖z‖² − (Σλ)²/‖Wᵀλ‖²` — an exact rational.  Returns `(g, e, lo)` with
`g ≥ √gapSq`, `e ≥ ‖d·u − z‖` and `0 < lo ≤ d₁`, so that `‖d·u − z*‖ ≤ e + g` and the unit directions
differ by at most `2 (e + g) / lo`. -/
def ustarCert (W : Mat) (u : Vec) (d : Rat) (z lam : Vec) : Option (Rat × Rat × Rat) :=
  let m := dimOf W
  let dsq := d1DualSq W lam
  let lo := sqrtDown dsq
  let gapSq := normSq z - dsq
  let g := sqrtUp gapSq
  let e := sqrtUp (normSq (vsub (smul d u) z))
  if d1Feasible m W z && dualFeasible m W lam && decide (0 < normSq (tmulVec m W lam)) &&
      decide (0 < lo) && decide (lo * lo ≤ dsq) && decide (0 < d) &&
      u.length == m && decide (0 < normSq u) && decide (0 ≤ g) && decide (gapSq ≤ g * g) && decide (0 ≤ e) &&
      decide (normSq (vsub (smul d u) z) ≤ e * e) then
    some (g, e, lo)
  else none

/-- certified bound on `‖u/‖u‖ − u*‖` -/
def dirBound (c : Rat × Rat × Rat) : Rat := 2 * (c.2.1 + c.1) / c.2.2

/-! ### β of the 2-D θ-cone (`ConeTheta2D.beta`) -/

/-- boolean `<` of the carrier: the branch test `cone_rad < np.pi / 2` -/
class LtB (α : Type) where
  ltb : α → α → Bool

instance : LtB Float := ⟨fun a b => decide (a < b)⟩

open RealLike in
/-- `ConeTheta2D.beta`:
```
cone_rad = (self.cone_degree / 180) * np.pi
if cone_rad < np.pi / 2:  return 1 / np.sin(cone_rad)
else:                     return 1.0
``` -/
def coneBeta {α : Type} [RealLike α] [LtB α] (deg : α) : α :=
  let rad := (deg / ofNat 180) * pi
  if LtB.ltb rad (pi / ofNat 2) then ofNat 1 / sin rad else ofNat 1

end VOPy.ConeConst
