import VOPyVerif.Model.Basic
import VOPyVerif.Model.Steps
/-!
# End-to-end accuracy of the PAC algorithms (C01, C05), import-free executable model

Everything here is *exact* over `Rat`.  Designs are the indices `0 … K-1`; the true mean of design
`i` is `μ i : Vec` (the driver reads a list of vectors and guards every index).

## Conclusions checked at termination

* `accA W K μ P`            — C01 (a): every design outside `P` is weakly dominated (in the order of
  the cone `W`) by a member of `P`.
* `gapLe W α ε μᵢ μⱼ`       — `m(i,j) ≤ ε` with `m(i,j) = min_n max(0, w_n·(μⱼ − μᵢ)) / α_n`, decided
  facet by facet (`mGap` is the literal minimum; `Proofs/AccuracyGap.lean` shows the two agree).
* `accB W α ε K μ P`        — C01 (b): `∀ i ∈ P, ∀ j < K, m(i,j) ≤ ε`.
* `notCovers W t a b`       — "`b` does not cover `a` with facet thresholds `t`":
  `∃ n, w_n·(b − a) < t_n`.  With `t = ε·α` this is what a `False` of the *ellipsoidal*
  `is_covered` gives for two points of the regions; with `t = W·s` it is what a `False` of the
  *rectangular* `is_covered` (slack `s` in objective space) gives.
* `isolated W s K μ i`      — C05: no other design matches `i` up to the slack:
  `∀ j ≠ i, ¬ (μⱼ + s ≽ μᵢ)`.
* `keepsIsolated W s K μ P` — every isolated design is in `P`.
* `internallyNondom W s μ P`— `∀ i ≠ j ∈ P, ¬ (μⱼ ≽ μᵢ + s)`.

## Per-round premise ("the truth is inside the displayed region")

* `inBox l u x`             — `l ≤ x ≤ u` componentwise (all three of one length).
* `inEll c Σ a x`           — `(x − c)ᵀ Σ⁻¹ (x − c) ≤ a²` and `a ≥ 0`: the linear system `Σ y = x − c`
  is solved exactly (`solveLin`, Gaussian elimination over `Rat`) and the solution is *checked*
  (`Σ y = x − c`) before it is used; `none` if `Σ` is singular or the shapes are wrong.

## Auer

* `errWithin c β μ`, `widthsPos β`, `sltB a b`, `ones m` — the premise `‖c − μ‖_∞ ≤ min_d β_d`, positive
  widths, "strictly smaller in every coordinate", and the all-ones `α` of the componentwise order.

## Runs

* `pavebaRun`, `vogpRun`, `auerRun` — iterate the set transitions of `Steps.lean` from
  `(S, P, U) = (all, ∅, ∅)` with round-dependent oracles; the property theorems are about these.
-/
namespace VOPy.Accuracy
open VOPy

/-! ## C01 conclusions -/

/-- one facet's term of the gap: `max(0, w·(μⱼ − μᵢ)) / α` -/
def facetGap (w : Vec) (a : Rat) (mi mj : Vec) : Rat := max 0 (dot w (vsub mj mi)) / a

/-- all facet terms (one per row of `W`, paired with the entries of `α`) -/
def facetGaps (W : Mat) (alpha : Vec) (mi mj : Vec) : List Rat :=
  List.zipWith (fun w a => facetGap w a mi mj) W alpha

/-- `m(i,j) = min_n max(0, w_n·(μⱼ − μᵢ)) / α_n`; `none` for a cone without facets -/
def mGap (W : Mat) (alpha : Vec) (mi mj : Vec) : Option Rat :=
  match facetGaps W alpha mi mj with
  | [] => none
  | x :: xs => some (xs.foldl min x)

/-- `m(i,j) ≤ ε`, decided facet by facet: some facet term is `≤ ε` -/
def gapLe (W : Mat) (alpha : Vec) (eps : Rat) (mi mj : Vec) : Bool :=
  (facetGaps W alpha mi mj).any (fun g => decide (g ≤ eps))

/-- C01 (a): every design outside `P` is weakly dominated by a member of `P` -/
def accA (W : Mat) (K : Nat) (mu : Nat → Vec) (P : List Nat) : Bool :=
  (List.range K).all fun i => P.contains i || P.any fun j => dominates W (mu j) (mu i)

/-- C01 (b): every member of `P` has gap at most `ε` against every design -/
def accB (W : Mat) (alpha : Vec) (eps : Rat) (K : Nat) (mu : Nat → Vec) (P : List Nat) : Bool :=
  P.all fun i => (List.range K).all fun j => gapLe W alpha eps (mu i) (mu j)

/-- first `(i, j)` with `i ∈ P`, `j < K`, `m(i,j) > ε` (diagnostics) -/
def accBWitness (W : Mat) (alpha : Vec) (eps : Rat) (K : Nat) (mu : Nat → Vec) (P : List Nat) :
    Option (Nat × Nat) :=
  (P.flatMap fun i => (List.range K).map fun j => (i, j)).find?
    fun p => !gapLe W alpha eps (mu p.1) (mu p.2)

/-- first design outside `P` that no member of `P` dominates (diagnostics) -/
def accAWitness (W : Mat) (K : Nat) (mu : Nat → Vec) (P : List Nat) : Option Nat :=
  (List.range K).find? fun i => !(P.contains i || P.any fun j => dominates W (mu j) (mu i))

/-- `∃ n, w_n·(b − a) < t_n` — `b` does not cover `a` with facet thresholds `t` -/
def notCovers (W : Mat) (t : Vec) (a b : Vec) : Bool :=
  (List.zipWith (fun w tn => decide (dot w (vsub b a) < tn)) W t).any id

/-- `∀ i ∈ P, ∀ j < K, j ≠ i → notCovers W t μᵢ μⱼ` — the conclusion in the units of the
thresholds the code really used -/
def accT (W : Mat) (t : Vec) (K : Nat) (mu : Nat → Vec) (P : List Nat) : Bool :=
  P.all fun i => (List.range K).all fun j => j == i || notCovers W t (mu i) (mu j)

/-- side condition of the rectangular variants: `W·s ≤ ε·α` componentwise, where `s` is the vector
the code hands to the rectangular `is_covered` -/
def slackSideCondition (W : Mat) (s : Vec) (epsAlpha : Vec) : Bool :=
  decide ((matVec W s).length = epsAlpha.length) && vle (matVec W s) epsAlpha

/-! ## C05 conclusions -/

/-- `∀ j < K, j ≠ i → ¬ (μⱼ + s ≽ μᵢ)` -/
def isolated (W : Mat) (s : Vec) (K : Nat) (mu : Nat → Vec) (i : Nat) : Bool :=
  (List.range K).all fun j => j == i || !dominates W (vadd (mu j) s) (mu i)

/-- every isolated design is in `P` -/
def keepsIsolated (W : Mat) (s : Vec) (K : Nat) (mu : Nat → Vec) (P : List Nat) : Bool :=
  (List.range K).all fun i => !isolated W s K mu i || P.contains i

/-- `∀ i ≠ j ∈ P, ¬ (μⱼ ≽ μᵢ + s)` -/
def internallyNondom (W : Mat) (s : Vec) (mu : Nat → Vec) (P : List Nat) : Bool :=
  P.all fun i => P.all fun j => j == i || !dominates W (mu j) (vadd (mu i) s)

/-! ## Containment of the truth in a displayed region -/

/-- `l ≤ x ≤ u` componentwise; the three vectors must have one common length -/
def inBox (l u x : Vec) : Bool :=
  decide (l.length = x.length) && decide (u.length = x.length) && vle l x && vle x u

/-- first equation whose leading coefficient is non-zero, and the others -/
def splitPivot : List (Vec × Rat) → Option ((Vec × Rat) × List (Vec × Rat))
  | [] => none
  | e :: es =>
    match e.1 with
    | c :: _ => if c ≠ 0 then some (e, es) else (splitPivot es).map fun (p, r) => (p, e :: r)
    | [] => (splitPivot es).map fun (p, r) => (p, e :: r)

/-- head coefficient (0 for an empty row) -/
def hd (v : Vec) : Rat := match v with | [] => 0 | x :: _ => x

/-- Gaussian elimination over `Rat`: `n` unknowns, equations `(coefficients, rhs)`.
The result is only a *candidate*; callers check it. -/
def solveLin : Nat → List (Vec × Rat) → Option Vec
  | 0, _ => some []
  | n + 1, eqs =>
    match splitPivot eqs with
    | none => none
    | some (p, rest) =>
      let c := hd p.1
      let pt := p.1.tail
      let rest' := rest.map fun e =>
        let f := hd e.1 / c
        (vsub e.1.tail (smul f pt), e.2 - f * p.2)
      match solveLin n rest' with
      | none => none
      | some xs => some ((p.2 - dot pt xs) / c :: xs)

/-- `(x − c)ᵀ Σ⁻¹ (x − c) ≤ a²` (and `a ≥ 0`, `Σ` square of the size of `x`, `c`);
`none` when the shapes are wrong or the checked solve of `Σ y = x − c` fails -/
def inEll (c : Vec) (Sg : Mat) (a : Rat) (x : Vec) : Option Bool :=
  let m := x.length
  if c.length ≠ m || Sg.length ≠ m || !(Sg.all fun r => decide (r.length = m)) then none
  else
    let d := vsub x c
    match solveLin m (List.zipWith (fun r b => (r, b)) Sg d) with
    | none => none
    | some y =>
      if y.length = m ∧ matVec Sg y = d then some (decide (0 ≤ a) && decide (dot d y ≤ a * a))
      else none

/-! ## Auer: the premise and the order in coordinates -/

/-- the all-ones vector (Auer's `α` for the componentwise order) -/
def ones (m : Nat) : Vec := List.replicate m 1

/-- strictly smaller in every coordinate (what an elimination certificate of Auer gives) -/
def sltB (a b : Vec) : Bool := (List.zipWith (fun x y => decide (x < y)) a b).all id

/-- `‖c − μ‖_∞ ≤ min_d β_d`: every coordinate error is within *every* entry of the width row
(for a row with equal entries — `use_empirical_beta = False` — this is `μ ∈ [c − β, c + β]`) -/
def errWithin (c beta mu : Vec) : Bool :=
  (List.zipWith (fun x y => x - y) c mu).all fun e =>
    beta.all fun b => decide (-b ≤ e) && decide (e ≤ b)

/-- all widths positive -/
def widthsPos (beta : Vec) : Bool := beta.all fun b => decide (0 < b)

/-! ## Runs -/

/-- PaVeBa family: state after `t` rounds from `(all, ∅, ∅)`; round `k` (0-based) uses the oracles
`isDom k`, `isCov k`. -/
def pavebaRun (K : Nat) (isDom isCov : Nat → Steps.Rel) : Nat → List Nat × List Nat × List Nat
  | 0 => (List.range K, [], [])
  | t + 1 =>
    let st := pavebaRun K isDom isCov t
    Steps.pavebaRound (isDom t) (isCov t) st.1 st.2.1 st.2.2

/-- VOGP / ε-PAL: state `(S, P)` after `t` rounds from `(all, ∅)`. -/
def vogpRun (K : Nat) (isDom isCov pessDom : Nat → Steps.Rel) : Nat → List Nat × List Nat
  | 0 => (List.range K, [])
  | t + 1 =>
    let st := vogpRun K isDom isCov pessDom t
    Steps.vogpRound (isDom t) (isCov t) (pessDom t) st.1 st.2

/-- Auer (widths looked up by design): state `(S, P)` after `t` rounds; round `k` uses the centres
`centre k` and width rows `width k`. -/
def auerRun (K : Nat) (eps : Rat) (centre width : Nat → Nat → Vec) : Nat → List Nat × List Nat
  | 0 => (List.range K, [])
  | t + 1 =>
    let st := auerRun K eps centre width t
    Steps.auerRound eps (centre t) (width t) st.1 st.2

end VOPy.Accuracy
