import VOPyVerif.Model.Basic
/-!
# Pessimistic rectangle comparison (`RectangularConfidenceRegion.check_dominates`), import-free model

Literal mirror over `Rat` of

* `hyperrectangle_get_vertices`            → `Pess.vertices`  (`itertools.product` order),
* `line_seg_pt_intersect_at_dim`           → `Pess.lineSegAt`,
* `is_pt_in_extended_polytope`             → `Pess.isPtIn` (vertex test, then for every coordinate every
  ordered pair of vertices with *distinct positions* and `v1[d] ≤ p[d] ≤ v2[d]`),
* `RectangularConfidenceRegion.check_dominates` → `Pess.checkDominatesR`,
* `VOGP/EpsilonPAL/VOGP_AD.compute_pessimistic_set` → `Pess.pessimisticSetR`.

Every definition on the element-wise float path takes a rounding function `rnd : Rat → Rat` that is
applied after each arithmetic operation exactly where numpy rounds (`c - a`, `b - a`, `/`, `y - x`,
`t * ·`, `x + ·`).  With `rnd = id` this is the exact-arithmetic model the theorems are about
(`checkDominates`, `isPtInExact`, `pessimisticSet`); with `rnd = r64` (round to nearest binary64,
ties to even) it is a bit-exact mirror of the numpy code on finite inputs, which is what the
correspondence harness compares with *equality*.  The only place where the two differ is the edge
path: in exact arithmetic the intersection point has coordinate `d` *equal* to `p[d]`, in floating
point it can come out one ulp larger, and then the original code's `<=` failed (finding
`complete2x2-float-rounding`, repaired in /repo by snapping that coordinate: `snap = true`).

Division by zero: the guard `v1[d] ≤ p[d] ≤ v2[d]` with `v2[d] = v1[d]` forces `0/0 = nan`; numpy
then evaluates `nan < 0 or nan > 1` to `False`, returns the all-`nan` point, and `nan <= x` is
`False`, so no point is reported.  `x/0 = ±inf` (unreachable behind the guard) makes
`t < 0 or t > 1` true and returns `None`.  Both are `none` here.

The second half is an *exact reference decision* for the semantic statement
`∀ x ∈ box R₁, ∃ y ∈ box R₂, ∀ i, W_i·(x − y) ≥ s_i`: for every vertex `x` of `R₁` an LP feasibility
problem in `y`, searched by Fourier–Motzkin elimination with multiplier tracking (`fmSolve`,
untrusted) and *checked* (`checkWitness`, `checkFarkas`).  Only checked verdicts are reported
(`refDominates : Option Bool`, `none` = inconclusive).
-/
namespace VOPy.Pess

/-! ## rounding to binary64 -/

/-- round to the nearest IEEE binary64 value, ties to even; subnormals handled, overflow is not
(callers keep magnitudes far below `2^1023`). -/
def r64 (r : Rat) : Rat :=
  if r.num = 0 then 0 else
  let a := r.num.natAbs
  let b := r.den
  let e0 : Int := (a.log2 : Int) - (b.log2 : Int) - 52
  let ge : Bool :=
    if 0 ≤ e0 then decide (2 ^ 52 * 2 ^ e0.toNat * b ≤ a) else decide (2 ^ 52 * b ≤ a * 2 ^ (-e0).toNat)
  let e1 : Int := if ge then e0 else e0 - 1
  let e : Int := if e1 < -1074 then -1074 else e1
  let n' : Nat := if 0 ≤ e then a else a * 2 ^ (-e).toNat
  let d' : Nat := if 0 ≤ e then b * 2 ^ e.toNat else b
  let m := n' / d'
  let rem := n' % d'
  let m' := if d' < 2 * rem ∨ (2 * rem = d' ∧ m % 2 = 1) then m + 1 else m
  let mag : Rat := if 0 ≤ e then ((m' * 2 ^ e.toNat : Nat) : Rat) else mkRat (m' : Int) (2 ^ (-e).toNat)
  if r.num < 0 then -mag else mag

/-! ## the code path -/

/-- `hyperrectangle_get_vertices(lower, upper)`: `itertools.product([l₀,u₀], [l₁,u₁], …)`, first
coordinate slowest; `zip` stops at the shorter of the two bounds. -/
def vertices : Vec → Vec → List Vec
  | l :: ls, u :: us => (vertices ls us).map (l :: ·) ++ (vertices ls us).map (u :: ·)
  | _, _ => [[]]

/-- `line_seg_pt_intersect_at_dim(P1, P2, target_pt, target_dim)`; `none` = `None` or all-`nan`.
`snap = true` models the routine as repaired by /repo commit 2e45ea6, which ends with
`point_on_line[target_dim] = target_pt[target_dim]` (a no-op in exact arithmetic, see
`lineSegAt_snap` in `Proofs/Pessimistic.lean`); the original code is `snap = false`. -/
def lineSegAt (rnd : Rat → Rat) (snap : Bool) (P1 P2 p : Vec) (d : Nat) : Option Vec :=
  match P1[d]?, P2[d]?, p[d]? with
  | some a, some b, some c =>
    let den := rnd (b - a)
    if den = 0 then none
    else
      let t := rnd (rnd (c - a) / den)
      if t < 0 ∨ 1 < t then none
      else
        let q := List.zipWith (fun x y => rnd (x + rnd (t * rnd (y - x)))) P1 P2
        some (if snap then q.set d c else q)
  | _, _, _ => none

/-- one iteration of the pair loop: guard `v1[d] ≤ p[d] ≤ v2[d]`, intersection, `comp_func`. -/
def edgeHit (rnd : Rat → Rat) (snap : Bool) (p : Vec) (d : Nat) (v1 v2 : Vec) : Bool :=
  match v1[d]?, p[d]?, v2[d]? with
  | some a, some c, some b =>
    decide (a ≤ c) && decide (c ≤ b) &&
      (match lineSegAt rnd snap v1 v2 p d with
       | some q => vle q p
       | none => false)
  | _, _, _ => false

/-- `polytope.shape[1]` -/
def polyDim (poly : List Vec) : Nat :=
  match poly with
  | v :: _ => v.length
  | [] => 0

/-- `is_pt_in_extended_polytope(pt, polytope)` (default `invert_extension=False`). -/
def isPtIn (rnd : Rat → Rat) (snap : Bool) (p : Vec) (poly : List Vec) : Bool :=
  poly.any (fun v => vle v p) ||
  (List.range (polyDim poly)).any fun d =>
    poly.zipIdx.any fun v1 => poly.zipIdx.any fun v2 =>
      v1.2 != v2.2 && edgeHit rnd snap p d v1.1 v2.1

/-- which path answers: 0 = not an element, 1 = vertex test, 2 = edge path only (diagnostics) -/
def isPtInPath (rnd : Rat → Rat) (snap : Bool) (p : Vec) (poly : List Vec) : Nat :=
  if poly.any (fun v => vle v p) then 1 else if isPtIn rnd snap p poly then 2 else 0

/-- `RectangularConfidenceRegion.check_dominates(order, R₁, R₂)` with `W = order.ordering_cone.W`.
The matrix product is taken exactly (it is exact in binary64 on the dyadic/integer-row inputs on
which the `r64` instance is compared with the code). -/
def checkDominatesR (rnd : Rat → Rat) (snap : Bool) (W : Mat) (l1 u1 l2 u2 : Vec) : Bool :=
  let verts1 := (vertices l1 u1).map (matVec W)
  let verts2 := (vertices l2 u2).map (matVec W)
  verts1.all fun p => isPtIn rnd snap p verts2

/-- `compute_pessimistic_set`: `active` = `S ∪ P` (any order), `regions[i] = (lower, upper)`.
Design `i` is kept iff no other active design `j` has `check_dominates(order, R_j, R_i)`. -/
def pessimisticSetR (rnd : Rat → Rat) (snap : Bool) (W : Mat) (regions : List (Vec × Vec)) (active : List Nat) :
    List Nat :=
  active.filter fun i => !(active.any fun j => j != i &&
    match regions[j]?, regions[i]? with
    | some rj, some ri => checkDominatesR rnd snap W rj.1 rj.2 ri.1 ri.2
    | _, _ => false)

/-- exact-arithmetic instances: the objects of the theorems -/
abbrev exact : Rat → Rat := fun r => r
abbrev isPtInExact (p : Vec) (poly : List Vec) : Bool := isPtIn exact false p poly
abbrev checkDominates (W : Mat) (l1 u1 l2 u2 : Vec) : Bool := checkDominatesR exact false W l1 u1 l2 u2
abbrev pessimisticSet (W : Mat) (regions : List (Vec × Vec)) (active : List Nat) : List Nat :=
  pessimisticSetR exact false W regions active

/-! ## exact reference decision (LP feasibility per vertex, certificate-checked) -/

/-- a linear constraint `coef · y ≤ rhs`, with the non-negative multipliers `mult` over the
original constraint list from which it was derived -/
structure Con where
  coef : Vec
  rhs : Rat
  mult : Vec
deriving Repr

/-- `c • p + d • q` on constraints -/
def Con.comb (c : Rat) (p : Con) (d : Rat) (q : Con) : Con :=
  ⟨vadd (smul c p.coef) (smul d q.coef), c * p.rhs + d * q.rhs, vadd (smul c p.mult) (smul d q.mult)⟩

def Con.head (c : Con) : Rat := c.coef.headD 0
def Con.dropHead (c : Con) : Con := { c with coef := c.coef.tail }

/-- Fourier–Motzkin: eliminate the `n` variables one by one (first variable first).  Returns
`Except.ok y` (a candidate feasible point) or `Except.error mult` (candidate Farkas multipliers).
Untrusted: the results are checked by `checkWitness` / `checkFarkas`. -/
def fmSolve : Nat → List Con → Except Vec Vec
  | 0, cs =>
    match cs.find? (fun c => decide (c.rhs < 0)) with
    | some c => .error c.mult
    | none => .ok []
  | n + 1, cs =>
    let pos := cs.filter (fun c => decide (0 < c.head))
    let neg := cs.filter (fun c => decide (c.head < 0))
    let zer := cs.filter (fun c => decide (c.head = 0))
    let combos := pos.flatMap fun p => neg.map fun q =>
      (Con.comb (1 / p.head) p (1 / (-q.head)) q).dropHead
    match fmSolve n (zer.map Con.dropHead ++ combos) with
    | .error m => .error m
    | .ok y' =>
      -- bounds on the eliminated variable given the rest
      let bound (c : Con) : Rat := (c.rhs - dot c.coef.tail y') / c.head
      let his := pos.map bound
      let los := neg.map bound
      let y0 : Rat :=
        match los with
        | l :: ls => ls.foldl max l
        | [] => match his with
          | h :: hs => hs.foldl min h
          | [] => 0
      .ok (y0 :: y')

/-- the constraints `W y ≤ W x − s`, `y ≤ u`, `−y ≤ −l` with unit multipliers -/
def lpCons (W : Mat) (x l u s : Vec) : List (Vec × Rat) :=
  let m := l.length
  (List.zipWith (fun w si => (w, dot w x - si)) W s) ++
  (List.range m).map (fun k => ((List.range m).map (fun j => if j = k then (1 : Rat) else 0), u.getD k 0)) ++
  (List.range m).map (fun k => ((List.range m).map (fun j => if j = k then (-1 : Rat) else 0), -(l.getD k 0)))

def unitVec (K k : Nat) : Vec := (List.range K).map (fun j => if j = k then (1 : Rat) else 0)

/-- **checked witness**: `y ∈ box(l,u)` (all of the same length) and `s_i ≤ w_i·x − w_i·y` for every
facet row (independent of `lpCons`) -/
def checkWitness (W : Mat) (x l u s y : Vec) : Bool :=
  y.length == l.length && u.length == l.length && vle l y && vle y u &&
  (List.zipWith (fun w si => decide (si ≤ dot w x - dot w y)) W s).all id

/-- `Σ_k λ_k row_k` as a vector of length `m` (stops at the shorter of the two lists) -/
def combRows (m : Nat) : Vec → List Vec → Vec
  | c :: lam, r :: rows => vadd (smul c r) (combRows m lam rows)
  | _, _ => List.replicate m 0

/-- **checked Farkas certificate** `lam = λ ++ μᵁ ++ μᴸ` (one multiplier per facet row, per upper
bound, per lower bound, in the order of `lpCons`): all non-negative,
`Σ λ_i w_i + μᵁ − μᴸ = 0` and `Σ λ_i (w_i·x − s_i) + μᵁ·u − μᴸ·l < 0`; all rows and bounds of
length `m = |l|`. -/
def checkFarkas (W : Mat) (x l u s lam : Vec) : Bool :=
  let N := W.length
  let m := l.length
  let lamW := lam.take N
  let muU := (lam.drop N).take m
  let muL := lam.drop (N + m)
  lam.length == N + (m + m) && s.length == N && W.all (fun w => w.length == m) && u.length == m &&
  lam.all (fun c => decide (0 ≤ c)) &&
  (vsub (vadd (combRows m lamW W) muU) muL).all (fun c => decide (c = 0)) &&
  decide (dot lamW (List.zipWith (fun w si => dot w x - si) W s) + dot muU u - dot muL l < 0)

/-- the untrusted search: candidate witness (`ok`) or candidate Farkas multipliers (`error`) -/
def refPointCert (W : Mat) (x l u s : Vec) : Except Vec Vec :=
  let cons := lpCons W x l u s
  let K := cons.length
  fmSolve l.length ((cons.zipIdx).map fun (c, k) => Con.mk c.1 c.2 (unitVec K k))

/-- exact, certificate-checked decision of `∃ y ∈ box(l,u), ∀ i, W_i·(x − y) ≥ s_i` -/
def refPoint (W : Mat) (x l u s : Vec) : Option Bool :=
  match refPointCert W x l u s with
  | .ok y => if checkWitness W x l u s y then some true else none
  | .error lam => if checkFarkas W x l u s lam then some false else none

/-- exact reference for `∀ x ∈ box R₁, ∃ y ∈ box R₂, ∀ i, W_i·(x − y) ≥ s_i`, decided on the vertices
of `R₁`: `some false` as soon as one vertex is certified infeasible, `some true` if every vertex has
a checked witness, `none` otherwise. -/
def refDominates (W : Mat) (l1 u1 l2 u2 s : Vec) : Option Bool :=
  let rs := (vertices l1 u1).map fun x => refPoint W x l2 u2 s
  if rs.any (· == some false) then some false
  else if rs.all (· == some true) then some true
  else none

/-- well-formedness used by the driver: one width per coordinate, `l ≤ u`, matrix rows of length `m` -/
def wfBox (m : Nat) (l u : Vec) : Bool := l.length == m && u.length == m && vle l u
def wfMat (m : Nat) (W : Mat) : Bool := W.all (fun w => w.length == m)

end VOPy.Pess
