import VOPyVerif.Model.RealLike
/-!
# Confidence schedules and how a scale becomes a region (import-free, `RealLike` terms)

Each definition mirrors, operation by operation (same association order as the Python
expression), one method of `/repo/vopy/algorithms/*.py` or `/repo/vopy/confidence_region.py`.
Integer-valued attributes (`m`, `round`, `design_space.cardinality`) are `Nat` arguments and are
combined as integers exactly where Python combines them as `int`s (e.g. `4 * K * m * round**2`)
before being injected with `ofNat`; `noise_var`, `delta`, `conf_contraction` are carrier values.
The driver (`Drv/C04.lean`) runs these terms at `Float`; `Props/C04.lean` proves the union bounds
about the same terms at `ℝ` with `c = 1`.
-/
namespace VOPy.Sched
open VOPy.RealLike

variable {α : Type} [RealLike α]

/-- `PaVeBa.compute_radius`:
```
t1 = 8 * noise_var / round
t2 = log((pi**2 * (m + 1) * K * round**2) / (6 * delta))
r  = sqrt(t1 * t2);  return r / conf_contraction
``` -/
def pavebaRadius (noiseVar : α) (round m K : Nat) (δ c : α) : α :=
  let t1 := ofNat 8 * noiseVar / ofNat round
  let t2 := log ((sq pi * ofNat (m + 1) * ofNat K * ofNat (round * round)) / (ofNat 6 * δ))
  let r := sqrt (t1 * t2)
  r / c

/-- `PaVeBaGP.compute_alpha`:
```
alpha = 8 * m * log(6) + 4 * log((pi**2 * round**2 * K) / (6 * delta))
return alpha / conf_contraction
``` -/
def pavebaGpAlpha (round m K : Nat) (δ c : α) : α :=
  let alpha := ofNat (8 * m) * log (ofNat 6)
    + ofNat 4 * log ((sq pi * ofNat (round * round) * ofNat K) / (ofNat 6 * δ))
  alpha / c

/-- `PaVeBaPartialGP.compute_alpha`:
```
alpha = 2 * log((pi**2 * round**2 * K) / (3 * delta));  return alpha / conf_contraction
``` -/
def partialGpAlpha (round K : Nat) (δ c : α) : α :=
  let alpha := ofNat 2 * log ((sq pi * ofNat (round * round) * ofNat K) / (ofNat 3 * δ))
  alpha / c

/-- `VOGP.compute_beta` (the code uses `round + 1`, rounds start at 0):
```
beta_sqr = 2 * log(m * K * pi**2 * (round + 1)**2 / (3 * delta))
return sqrt(beta_sqr / conf_contraction)
``` -/
def vogpBeta (round m K : Nat) (δ c : α) : α :=
  let betaSqr := ofNat 2 *
    log (ofNat (m * K) * sq pi * ofNat ((round + 1) * (round + 1)) / (ofNat 3 * δ))
  sqrt (betaSqr / c)

/-- `EpsilonPAL.compute_beta`: as VOGP with `6 * delta`. -/
def epalBeta (round m K : Nat) (δ c : α) : α :=
  let betaSqr := ofNat 2 *
    log (ofNat (m * K) * sq pi * ofNat ((round + 1) * (round + 1)) / (ofNat 6 * δ))
  sqrt (betaSqr / c)

/-- `Auer.compute_beta`, original branch (`use_empirical_beta = False`); the value of every entry
of the returned `(|S|, m)` array:
```
t1 = log((4 * K * m * round**2) / delta);  t2 = 1.0
beta = sqrt((2 * t1 * t2) / round);  return beta / conf_contraction
``` -/
def auerBeta (round m K : Nat) (δ c : α) : α :=
  let t1 := log (ofNat (4 * K * m * (round * round)) / δ)
  let t2 : α := ofNat 1
  let beta := sqrt ((ofNat 2 * t1 * t2) / ofNat round)
  beta / c

/-- `Auer.compute_beta`, empirical branch; `vHat` is the model's empirical variance for the entry:
```
t1 = log((K * m * round) / delta);  t2 = v_hat + 1 * sqrt((4 * t1) / round)
beta = sqrt((2 * t1 * t2) / round);  return beta / conf_contraction
``` -/
def auerBetaEmp (round m K : Nat) (δ c vHat : α) : α :=
  let t1 := log (ofNat (K * m * round) / δ)
  let t2 := vHat + ofNat 1 * sqrt ((ofNat 4 * t1) / ofNat round)
  let beta := sqrt ((ofNat 2 * t1 * t2) / ofNat round)
  beta / c

/-! ### Regions: `RectangularConfidenceRegion.update`, `EllipsoidalConfidenceRegion.update` -/

/-- one coordinate of `L = mean - std * scale`, `std = sqrt(diag(cov))` -/
def rectLower (mean covjj scale : α) : α := mean - sqrt covjj * scale
/-- one coordinate of `U = mean + std * scale` -/
def rectUpper (mean covjj scale : α) : α := mean + sqrt covjj * scale

def zipWith3 {β γ δ ε : Type} (f : β → γ → δ → ε) : List β → List γ → List δ → List ε
  | a :: as, b :: bs, c :: cs => f a b c :: zipWith3 f as bs cs
  | _, _, _ => []

/-- `RectangularConfidenceRegion.update(mean, cov, scale)` with `intersect_iteratively = False`:
the new `(lower, upper)`; `covDiag` is `diag(cov)`, `scale` already broadcast to `m` entries. -/
def rectUpdate (mean covDiag scale : List α) : List α × List α :=
  (zipWith3 rectLower mean covDiag scale, zipWith3 rectUpper mean covDiag scale)

/-- `EllipsoidalConfidenceRegion.update(mean, cov, scale)`: stores the three unchanged; the region
it denotes (see `is_dominated`) is `{x | ‖sqrtm(inv(sigma)) (x - center)‖₂ ≤ alpha}`. -/
structure Ell (β : Type) where
  center : List β
  sigma : List (List β)
  alpha : β

def ellUpdate {β : Type} (mean : List β) (cov : List (List β)) (scale : β) : Ell β :=
  { center := mean, sigma := cov, alpha := scale }

end VOPy.Sched
