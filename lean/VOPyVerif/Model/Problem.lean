import VOPyVerif.Model.Basic
import VOPyVerif.Model.RealLike
/-!
# Problems, noise and data scaling (`vopy/maximization_problem.py`, `vopy/utils/utils.py`,
# `vopy/datasets/dataset.py`), import-free executable model

* `nearestFirst x X` — `get_closest_indices_from_points(x, X, squared=True)` for one query row:
  `np.argmin` over the squared Euclidean distances, i.e. the *first* index of the minimum
  (`argminFirst` is the left-to-right scan that only replaces the incumbent on a strict `<`).
* `evaluate X Y xs` — `ProblemFromDataset.evaluate(xs, noisy=False)`: row lookup `Y[nearestFirst x X]`.
* `decoupled rawLen values idx` — the selection step of `DecoupledEvaluationProblem.evaluate`,
  including its `ValueError` guard (`len(x) != len(evaluation_index)`; `rawLen` is `len(x)` of the
  array *as passed by the caller*) and numpy's `IndexError` for an out-of-range column.
* `noisy F Z M` — `get_noisy_evaluations_chol(F, M)` with the standard-normal draw `Z` made explicit:
  `F + Z · M`.  `appliedM L = L` records that the code multiplies by the factor it is handed
  (not by its transpose); `gram M = MᵀM` is the covariance that results (see `Props/C20.lean`) and
  `llt L = L Lᵀ` the configured covariance of a lower Cholesky factor `L`.
* `minMax` — `MinMaxScaler().fit_transform` on one column (a constant column is divided by 1, as
  sklearn's `_handle_zeros_in_scale` does); `standardiseWith s` — `StandardScaler` transform with
  scale `s`; `standardise` — the same with the exact rational population standard deviation when it
  exists (`none` when the standard deviation is irrational); `standardiseF` — the same formula over a
  `RealLike` carrier (run at `Float`, proved at `ℝ`).
* `normalizeCol/unnormalizeCol`, `normalize/unnormalize` — the two utilities, with their `ValueError`
  guard (`none`).
-/
namespace VOPy.Problem

/-! ## nearest design -/

/-- squared Euclidean distance -/
def sqDist (a b : Vec) : Rat := normSq (vsub a b)

/-- scan of `np.argmin`: `bv` incumbent value at index `bi`, `i` index of the head of the rest -/
def argminAux : Rat → Nat → Nat → List Rat → Nat
  | _, bi, _, [] => bi
  | bv, bi, i, d :: ds => if d < bv then argminAux d i (i + 1) ds else argminAux bv bi (i + 1) ds

/-- `np.argmin` of a non-empty list: first index of the minimum (`none` for the empty list) -/
def argminFirst : List Rat → Option Nat
  | [] => none
  | d :: ds => some (argminAux d 0 1 ds)

/-- squared distances from `x` to every design -/
def dists (x : Vec) (X : Mat) : List Rat := X.map (sqDist x)

/-- index of the design nearest to `x`, first among ties; `none` iff there is no design -/
def nearestFirst (x : Vec) (X : Mat) : Option Nat := argminFirst (dists x X)

/-- all indices whose squared distance is within `tol` of the minimum (tie / rounding band) -/
def nearestBand (x : Vec) (X : Mat) (tol : Rat) : List Nat :=
  let ds := dists x X
  match argminFirst ds with
  | none => []
  | some i =>
    match ds[i]? with
    | none => []
    | some m => (ds.zipIdx.filter (fun p => decide (p.1 ≤ m + tol))).map (·.2)

/-- `ProblemFromDataset.evaluate(xs, noisy=False)`: objective rows of the nearest designs.
`none` if there is no design or the index falls outside `Y` (cannot happen when `|X| = |Y|`). -/
def evaluate (X Y : Mat) (xs : Mat) : Option Mat :=
  xs.mapM (fun x => (nearestFirst x X).bind (fun i => Y[i]?))

/-! ## decoupled evaluation -/

/-- the three accepted forms of `evaluation_index` -/
inductive EvalIndex where
  | all
  | one (k : Nat)
  | perRow (ks : List Nat)
  deriving Repr, DecidableEq

/-- observable outcome of `DecoupledEvaluationProblem.evaluate` -/
inductive DecOut where
  | full (m : Mat)
  | comps (v : Vec)
  | valueError
  | indexError
  deriving Repr, DecidableEq

/-- `values[:, k]` -/
def column (values : Mat) (k : Nat) : Option Vec := values.mapM (fun r => r[k]?)

/-- `values[np.arange(len(ks)), ks]` -/
def pick (values : Mat) (ks : List Nat) : Option Vec :=
  (ks.zipIdx).mapM (fun p => (values[p.2]?).bind (fun r => r[p.1]?))

/-- selection step of `DecoupledEvaluationProblem.evaluate`; `rawLen = len(x)` of the caller's array
(for a 1-D point this is `in_dim`, not the number of points), `values` the full evaluation. -/
def decoupled (rawLen : Nat) (values : Mat) : EvalIndex → DecOut
  | .all => .full values
  | .one k => match column values k with
    | some v => .comps v
    | none => .indexError
  | .perRow ks =>
    if rawLen ≠ ks.length then .valueError
    else match pick values ks with
      | some v => .comps v
      | none => .indexError

/-! ## noise -/

/-- `n` columns of an `r × n` matrix given as rows (`n` explicit so that `0 × n` is representable) -/
def transposeN (n : Nat) (M : Mat) : Mat := (List.range n).map (fun j => M.map (fun r => r.getD j 0))

/-- transpose of a non-empty rectangular matrix (width read off the first row) -/
def transpose (M : Mat) : Mat := transposeN (M.headD []).length M

/-- row vector times matrix: `z · M = Σ_i z_i • M_i` -/
def vecMat (z : Vec) (M : Mat) : Vec := (transpose M).map (fun c => dot z c)

/-- `A · B` -/
def matMul (A B : Mat) : Mat := A.map (fun a => vecMat a B)

/-- `F + Z` entrywise -/
def matAdd (A B : Mat) : Mat := List.zipWith vadd A B

/-- `get_noisy_evaluations_chol(F, M)` with the normal draw `Z` explicit: `F + Z·M` -/
def noisy (F Z M : Mat) : Mat := matAdd F (matMul Z M)

/-- the matrix the code applies to the standard-normal rows when handed the factor `L`:
`np.dot(X, cholesky_cov)` — the factor itself, not its transpose. -/
def appliedM (L : Mat) : Mat := L

/-- `MᵀM`: the covariance of `z · M` for rows `z` with identity second moment -/
def gram (M : Mat) : Mat := matMul (transpose M) M

/-- `L Lᵀ`: the covariance configured by a lower Cholesky factor `L` -/
def llt (L : Mat) : Mat := matMul L (transpose L)

/-- is the configured covariance `L Lᵀ` obtained when the rows are multiplied by `M`? -/
def covOK (M L : Mat) : Bool := gram M == llt L

def rabs (a : Rat) : Rat := if a < 0 then -a else a

/-- entrywise `|A - B| ≤ tol` for equal shapes -/
def matClose (tol : Rat) (A B : Mat) : Bool :=
  A.length == B.length &&
  (List.zipWith (fun a b => a.length == b.length &&
    (List.zipWith (fun x y => decide (rabs (x - y) ≤ tol)) a b).all id) A B).all id

/-- `|MᵀM − Σ| ≤ tol` entrywise (`tol = 0`: equality) -/
def covClose (tol : Rat) (M Sigma : Mat) : Bool := matClose tol (gram M) Sigma

/-! ## scaling -/

def rmin (a b : Rat) : Rat := if a ≤ b then a else b
def rmax (a b : Rat) : Rat := if a ≤ b then b else a

/-- minimum of a column (`0` for the empty column, which no scaler accepts) -/
def colMin : Vec → Rat
  | [] => 0
  | x :: xs => xs.foldl rmin x

def colMax : Vec → Rat
  | [] => 0
  | x :: xs => xs.foldl rmax x

/-- `MinMaxScaler().fit_transform` on one column: `(x − min) / (max − min)`; a constant column is
divided by `1` (sklearn's `_handle_zeros_in_scale`). -/
def minMax (col : Vec) : Vec :=
  let lo := colMin col
  let r := colMax col - lo
  let r := if r = 0 then 1 else r
  col.map (fun x => (x - lo) / r)

def vsum (v : Vec) : Rat := v.foldr (· + ·) 0

/-- arithmetic mean (`0/0 = 0` for the empty column; every use is guarded by `col ≠ []`) -/
def mean (col : Vec) : Rat := vsum col / col.length

/-- population variance (divisor `n`), as `StandardScaler` uses -/
def popVar (col : Vec) : Rat :=
  let μ := mean col
  vsum (col.map (fun x => (x - μ) * (x - μ))) / col.length

/-- `StandardScaler` transform with scale `s`: `(x − mean) / s` -/
def standardiseWith (s : Rat) (col : Vec) : Vec :=
  let μ := mean col
  col.map (fun x => (x - μ) / s)

/-- exact square root of a natural number, if it is a perfect square -/
def natSqrt? (n : Nat) : Option Nat :=
  let r := Nat.sqrt n
  if r * r = n then some r else none

/-- exact non-negative rational square root, if it exists -/
def ratSqrt? (q : Rat) : Option Rat :=
  if q < 0 then none else
  match natSqrt? q.num.toNat, natSqrt? q.den with
  | some a, some b => if b = 0 then none else some ((a : Rat) / (b : Rat))
  | _, _ => none

/-- `StandardScaler(with_mean=True, with_std=True).fit_transform` on one column, exactly: zero
variance → scale 1; otherwise scale = population standard deviation, `none` when it is irrational
(not representable in the exact model; `standardiseF` covers that case). -/
def standardise (col : Vec) : Option Vec :=
  let v := popVar col
  if v = 0 then some (standardiseWith 1 col)
  else (ratSqrt? v).map (fun s => standardiseWith s col)

section RealLikeVersion
open RealLike
variable {α : Type} [RealLike α]

def sumF (l : List α) : α := l.foldr (· + ·) (RealLike.ofNat 0)
def meanF (col : List α) : α := sumF col / RealLike.ofNat col.length
def popVarF (col : List α) : α :=
  sumF (col.map (fun x => (x - meanF col) * (x - meanF col))) / RealLike.ofNat col.length
/-- `StandardScaler` on a column with non-zero variance: `(x − mean) / sqrt(population variance)` -/
def standardiseF (col : List α) : List α :=
  col.map (fun x => (x - meanF col) / RealLike.sqrt (popVarF col))
end RealLikeVersion

/-- `(x − lower) / (upper − lower)` -/
def normalizeCol (lo hi x : Rat) : Rat := (x - lo) / (hi - lo)
/-- `x · (upper − lower) + lower` -/
def unnormalizeCol (lo hi x : Rat) : Rat := x * (hi - lo) + lo

/-- `normalize`'s column formula over a `RealLike` carrier (the term `harness/translate.py` regenerates
from the source text of `vopy/utils/utils.py:normalize`; `Proofs/GenAgreeC20.lean`) -/
def normalizeColF {α : Type} [RealLike α] (lo hi x : α) : α := (x - lo) / (hi - lo)

/-- `unnormalize`'s column formula over a `RealLike` carrier -/
def unnormalizeColF {α : Type} [RealLike α] (lo hi x : α) : α := x * (hi - lo) + lo

def rowWise (f : Rat → Rat → Rat → Rat) (bounds : List (Rat × Rat)) (row : Vec) : Vec :=
  List.zipWith (fun b x => f b.1 b.2 x) bounds row

/-- `vopy.utils.normalize`; `none` = the `ValueError` guard (`len(bounds) != data.shape[1]`) -/
def normalize (data : Mat) (bounds : List (Rat × Rat)) : Option Mat :=
  if data.all (fun r => r.length == bounds.length) then some (data.map (rowWise normalizeCol bounds))
  else none

/-- `vopy.utils.unnormalize`; `none` = the `ValueError` guard -/
def unnormalize (data : Mat) (bounds : List (Rat × Rat)) : Option Mat :=
  if data.all (fun r => r.length == bounds.length) then some (data.map (rowWise unnormalizeCol bounds))
  else none

/-- all bounds have `upper ≠ lower` -/
def boundsOK (bounds : List (Rat × Rat)) : Bool := bounds.all (fun b => b.1 != b.2)

end VOPy.Problem
