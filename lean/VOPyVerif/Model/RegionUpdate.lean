import VOPyVerif.Model.Basic
import VOPyVerif.Model.RealLike
/-!
# Confidence-region updates (`vopy/confidence_region.py`, `vopy/design_space.py`), import-free model

* `Rect` — `RectangularConfidenceRegion` (`lower`, `upper`, `intersect_iteratively`);
  `Rect.intersect` mirrors `intersect` + `hyperrectangle_check_intersection` (rectangles that only
  touch count as *not* intersecting: the test is `any(lower1 >= upper2) or any(upper1 <= lower2)`).
* `Ell` — `EllipsoidalConfidenceRegion` (`center`, `sigma`, `alpha`).
* `DesignSpace.update` — `FixedPointsDesignSpace.update` / `AdaptivelyDiscretizedDesignSpace.update`
  (the two bodies are the same text): broadcast of the scale, prediction for `points[indices]`,
  `zip(indices, mus, covs, scale)` and one region update per tuple, in order.  An exception in the
  middle leaves the earlier regions updated; the model returns that partial state too.

**Square roots.**  The rectangle's half-width is `sqrt(diag cov) * scale`.  `sqrt` is irrational, so the
exact model takes the vector `std = sqrt(diag cov)` as a *given input* next to `cov`: the harness
passes numpy's `np.sqrt(np.diag(cov))` (exactly, as rationals) and checks separately that
`std_j ≥ 0` and `std_j² ≈ cov_jj` at 1e-12.  The theorems assume `std_j ≥ 0 ∧ std_j² = cov_jj` and conclude
with `Real.sqrt` (`Props/C14.lean`).
-/
namespace VOPy.Region

inductive Err where
  | valueError | indexError
deriving DecidableEq, Repr

def Err.name : Err → String
  | .valueError => "ValueError"
  | .indexError => "IndexError"

/-! ## rectangles -/

structure Rect where
  lower : Vec
  upper : Vec
  iter : Bool
deriving DecidableEq, Repr

/-- `RectangularConfidenceRegion(dim)`: the "magic large number" box -/
def Rect.init (m : Nat) : Rect :=
  { lower := List.replicate m (-1000000000000), upper := List.replicate m 1000000000000, iter := false }

/-- `(lower + upper) / 2` -/
def Rect.center (r : Rect) : Vec := List.zipWith (fun a b => (a + b) / 2) r.lower r.upper

/-- `hyperrectangle_check_intersection(l1, u1, l2, u2)`:
`not (np.any(l1 >= u2) or np.any(u1 <= l2))` -/
def checkIntersection (l1 u1 l2 u2 : Vec) : Bool :=
  !((List.zipWith (fun a b => decide (b ≤ a)) l1 u2).any id ||
    (List.zipWith (fun a b => decide (a ≤ b)) u1 l2).any id)

/-- `intersect(lower, upper)`: componentwise `max` of the lower and `min` of the upper corners when
`checkIntersection`, else the new rectangle -/
def Rect.intersect (r : Rect) (l u : Vec) : Rect :=
  if checkIntersection r.lower r.upper l u then
    { r with lower := List.zipWith max r.lower l, upper := List.zipWith min r.upper u }
  else { r with lower := l, upper := u }

/-- numpy broadcast of a 1-D scale row against an `m`-vector: size `m` as is, size 1 repeated,
anything else is a broadcast `ValueError` (`none`) -/
def bcast (m : Nat) (s : Vec) : Option Vec :=
  if s.length = m then some s
  else match s with
    | [a] => some (List.replicate m a)
    | _ => none

/-- `L = mean - std * scale` of `RectangularConfidenceRegion.update`, one entry, over a `RealLike` carrier (the term
`harness/translate.py` regenerates from the source; `Proofs/GenAgreeC14.lean`) -/
def rectLowerF {α : Type} [RealLike α] (μ σ a : α) : α := μ - σ * a

/-- `U = mean + std * scale`, one entry -/
def rectUpperF {α : Type} [RealLike α] (μ σ a : α) : α := μ + σ * a

/-- `RectangularConfidenceRegion.center`, one entry: `(lower + upper) / 2` -/
def rectCenterF {α : Type} [RealLike α] (lo hi : α) : α := (lo + hi) / RealLike.ofNat 2

/-- `L = mean - std * scale`, `U = mean + std * scale` -/
def bounds (mean std scale : Vec) : Option (Vec × Vec) :=
  match bcast std.length scale with
  | none => none
  | some s =>
    if mean.length = std.length then
      some (List.zipWith (· - ·) mean (List.zipWith (· * ·) std s),
            List.zipWith (· + ·) mean (List.zipWith (· * ·) std s))
    else none

def isSquare (c : Mat) : Bool := c.all (fun row => row.length == c.length)

/-- one model prediction for one design: mean, covariance matrix, and `std = sqrt(diag cov)` -/
structure Pred where
  mean : Vec
  cov : Mat
  std : Vec
deriving Repr

/-- `RectangularConfidenceRegion.update(mean, covariance, scale)` -/
def Rect.update (r : Rect) (p : Pred) (scale : Vec) : Except Err Rect :=
  if !isSquare p.cov then .error .valueError
  else match bounds p.mean p.std scale with
    | none => .error .valueError
    | some (L, U) => .ok (if r.iter then r.intersect L U else { r with lower := L, upper := U })

/-! ## ellipsoids -/

structure Ell where
  center : Vec
  sigma : Mat
  alpha : Rat
deriving DecidableEq, Repr

def Ell.init (m : Nat) : Ell := { center := List.replicate m 0, sigma := identMat m, alpha := 1 }

/-- `EllipsoidalConfidenceRegion.update(mean, covariance, scale)`: the scale must have size 1 -/
def Ell.update (_e : Ell) (p : Pred) (scale : Vec) : Except Err Ell :=
  if !isSquare p.cov then .error .valueError
  else match scale with
    | [a] => .ok { center := p.mean, sigma := p.cov, alpha := a }
    | _ => .error .valueError

/-! ## design spaces -/

inductive Region where
  | rect (r : Rect)
  | ell (e : Ell)
deriving DecidableEq, Repr

def Region.update : Region → Pred → Vec → Except Err Region
  | .rect r, p, s => (r.update p s).map .rect
  | .ell e, p, s => (e.update p s).map .ell

/-- the `scale` argument of `update`: 0-d array, 1-D array, 2-D array (`ndim > 2` is `other`) -/
inductive Scale where
  | scalar (s : Rat)
  | vec (v : Vec)
  | mat (M : Mat)
  | other

/-- the broadcast at the top of `update`: one scale row per listed index, or `ValueError` -/
def scaleRows : Scale → Nat → Option (List Vec)
  | .scalar s, n => some (List.replicate n [s])
  | .vec v, n => some (List.replicate n v)
  | .mat M, n => if M.length = n then some M else none
  | .other, _ => none

/-- the loop `for pt_i, mu, cov, s in zip(...): self.confidence_regions[pt_i].update(mu, cov, s)` -/
def updLoop : List Region → List (Nat × Pred × Vec) → List Region × Option Err
  | regs, [] => (regs, none)
  | regs, (i, p, s) :: rest =>
    match regs[i]? with
    | none => (regs, some .indexError)
    | some r =>
      match r.update p s with
      | .error e => (regs, some e)
      | .ok r' => updLoop (regs.set i r') rest

/-- `points[indices]` followed by `model.predict`: `table` is the model's prediction for the *full*
design matrix, row `i` for design `i`; `none` = `IndexError` -/
def lookupAll (table : List Pred) : List Nat → Option (List Pred)
  | [] => some []
  | i :: is =>
    match table[i]? with
    | none => none
    | some p => (lookupAll table is).map (p :: ·)

/-- `design_space.update(model, scale, indices_to_update)` -/
def update (regs : List Region) (table : List Pred) (sc : Scale) (idx : List Nat) :
    List Region × Option Err :=
  match scaleRows sc idx.length with
  | none => (regs, some .valueError)
  | some rows =>
    match lookupAll table idx with
    | none => (regs, some .indexError)
    | some preds => updLoop regs (idx.zip (preds.zip rows))

/-- `generate_child_designs(i)` as far as regions are concerned: `k` children, each a fresh
rectangle with the parent's bounds (and the default `intersect_iteratively = False`) -/
def refine (regs : List Region) (i k : Nat) : Option (List Region) :=
  match regs[i]? with
  | some (.rect r) => some (regs ++ List.replicate k (.rect { lower := r.lower, upper := r.upper, iter := false }))
  | _ => none

/-- `region.intersect_iteratively = b` on the listed regions -/
def setIter (regs : List Region) (idx : List Nat) (b : Bool) : List Region :=
  regs.mapIdx (fun i r => if idx.contains i then
    (match r with | .rect q => .rect { q with iter := b } | e => e) else r)

/-- one call on a design space -/
inductive Op where
  | upd (table : List Pred) (sc : Scale) (idx : List Nat)
  | refine (i k : Nat)
  | setIter (b : Bool) (idx : List Nat)

/-- the state the design space is left in, and the exception raised (if any) -/
def step (regs : List Region) : Op → List Region × Option Err
  | .upd table sc idx => update regs table sc idx
  | .refine i k => match refine regs i k with
    | some regs' => (regs', none)
    | none => (regs, some .indexError)
  | .setIter b idx => (setIter regs idx b, none)

/-- replay a sequence of calls (an exception leaves the partial state; the caller carries on) -/
def run (regs : List Region) (ops : List Op) : List Region := ops.foldl (fun R o => (step R o).1) regs

/-- Borderline test for the float comparison inside `checkIntersection`: with the comparisons moved
by `±τ` the verdict changes. -/
def checkIntersectionSlack (τ : Rat) (l1 u1 l2 u2 : Vec) : Bool :=
  !((List.zipWith (fun a b => decide (b ≤ a + τ)) l1 u2).any id ||
    (List.zipWith (fun a b => decide (a ≤ b + τ)) u1 l2).any id)

def borderline (τ : Rat) (l1 u1 l2 u2 : Vec) : Bool :=
  checkIntersectionSlack τ l1 u1 l2 u2 != checkIntersectionSlack (-τ) l1 u1 l2 u2

end VOPy.Region
