import VOPyVerif.Drv.C01
import VOPyVerif.Drv.C02
import VOPyVerif.Drv.C03
import VOPyVerif.Drv.C04
import VOPyVerif.Drv.C05
import VOPyVerif.Drv.C06
import VOPyVerif.Drv.C07
import VOPyVerif.Drv.C08
import VOPyVerif.Drv.C09
import VOPyVerif.Drv.C10
import VOPyVerif.Drv.C11
import VOPyVerif.Drv.C12
import VOPyVerif.Drv.C13
import VOPyVerif.Drv.C14
import VOPyVerif.Drv.C15
import VOPyVerif.Drv.C16
import VOPyVerif.Drv.C17
import VOPyVerif.Drv.C18
import VOPyVerif.Drv.C19
import VOPyVerif.Drv.C20
/-!
# Line-protocol driver of the executable model

`lake exe driver` (compiled; nothing imported here touches Mathlib) or
`lake env lean --run Driver.lean`.  One request per input line, one answer per output line.
-/
open VOPy

def dispatch (line : String) : String :=
  match line.trimAscii.toString.splitOn " " with
  | "C01" :: a => Drv.C01.handle a
  | "C02" :: a => Drv.C02.handle a
  | "C03" :: a => Drv.C03.handle a
  | "C04" :: a => Drv.C04.handle a
  | "C05" :: a => Drv.C05.handle a
  | "C06" :: a => Drv.C06.handle a
  | "C07" :: a => Drv.C07.handle a
  | "C08" :: a => Drv.C08.handle a
  | "C09" :: a => Drv.C09.handle a
  | "C10" :: a => Drv.C10.handle a
  | "C11" :: a => Drv.C11.handle a
  | "C12" :: a => Drv.C12.handle a
  | "C13" :: a => Drv.C13.handle a
  | "C14" :: a => Drv.C14.handle a
  | "C15" :: a => Drv.C15.handle a
  | "C16" :: a => Drv.C16.handle a
  | "C17" :: a => Drv.C17.handle a
  | "C18" :: a => Drv.C18.handle a
  | "C19" :: a => Drv.C19.handle a
  | "C20" :: a => Drv.C20.handle a
  | ["ping"] => "pong"
  | _ => Proto.bad

partial def loop (hin hout : IO.FS.Stream) : IO Unit := do
  let line ← hin.getLine
  if line.isEmpty then return ()
  hout.putStrLn (dispatch line)
  hout.flush
  loop hin hout

def main : IO Unit := do loop (← IO.getStdin) (← IO.getStdout)
